package main

import (
	"bufio"
	"bytes"
	"fmt"
	"go/ast"
	goparser "go/parser"
	"go/token"
	"math/rand"
	"os"
	"path/filepath"
	"regexp"
	"strconv"
	"strings"

	"github.com/cosmos72/gomacro/base"
	"github.com/cosmos72/gomacro/fast"
	"github.com/cosmos72/gomacro/go/etoken"
	"github.com/cosmos72/gomacro/go/scanner"
)

// C27: reported source positions are exact across chunks and line offsets.
//
// Two families of ops:
//   (A) file-set ops on a real etoken.FileSet (stateful, boundary "reset"):
//         add <base> <size> <line> | lines <idx> <o1,o2,..> | content <line> <copy> <text>
//         pos <p> | file <p> | src <p>
//       oracle: a standard go/token.FileSet fed with the same calls, shifted by the file's
//       starting line; linear scan over the recorded (base,size) intervals; for "content"
//       files the true line/column by counting newlines in the text.
//   (B) ev <mode> <trap> <dbg> <kind> <m> <n> <ft,len>*n <src>: a whole multi-chunk source with ONE
//       marker token at byte offset m (an undefined identifier, an illegal character or a
//       "break" statement), run through Interp.Eval / EvalReader / EvalFile / Repl of a fresh
//       interpreter.  The chunk list (what base.ReadMultiline returns for this source in this
//       mode) is computed by the generator with the real reader: it is the input of the model
//       (the reader itself is property C26).  Oracle: the marker is searched in the text and its
//       line/column are computed by counting newlines in the whole input.

// ---------------------------------------------------------------- escaping

func c27esc(b []byte) string {
	var sb strings.Builder
	for _, c := range b {
		switch {
		case c == '\n':
			sb.WriteString(`\n`)
		case c == '\t':
			sb.WriteString(`\t`)
		case c == ' ':
			sb.WriteString(`\s`)
		case c == '\\':
			sb.WriteString(`\\`)
		case c < 33 || c > 126:
			fmt.Fprintf(&sb, `\x%02x`, c)
		default:
			sb.WriteByte(c)
		}
	}
	return sb.String()
}

func c27unesc(s string) []byte {
	var out []byte
	for i := 0; i < len(s); i++ {
		if s[i] == '\\' && i+1 < len(s) {
			switch s[i+1] {
			case 'n':
				out = append(out, '\n')
				i++
				continue
			case 't':
				out = append(out, '\t')
				i++
				continue
			case 's':
				out = append(out, ' ')
				i++
				continue
			case '\\':
				out = append(out, '\\')
				i++
				continue
			case 'x':
				if i+3 < len(s) {
					v, _ := strconv.ParseUint(s[i+2:i+4], 16, 8)
					out = append(out, byte(v))
					i += 3
					continue
				}
			}
		}
		out = append(out, s[i])
	}
	return out
}

// true line and column (1-based, bytes) of offset o in text: linear scan
func c27lineCol(text []byte, o int) (int, int) {
	line, col := 1, 1
	for i := 0; i < o && i < len(text); i++ {
		if text[i] == '\n' {
			line++
			col = 1
		} else {
			col++
		}
	}
	return line, col
}

// ---------------------------------------------------------------- (A) file-set family

type c27file struct {
	base, size, line int
	copied           bool   // SetSourceForContent was called
	content          []byte // nil unless added by "content"
	f                *etoken.File
	sf               *token.File
}

var c27fs *etoken.FileSet
var c27std *token.FileSet
var c27files []*c27file

func c27reset() {
	c27fs = etoken.NewFileSet()
	c27std = token.NewFileSet()
	c27files = nil
}

func c27showPos(p token.Position) string {
	return fmt.Sprintf("%s|%d|%d|%d", p.Filename, p.Offset, p.Line, p.Column)
}

func c27find(p int) *c27file {
	if p == 0 {
		return nil
	}
	for _, f := range c27files {
		if f.base <= p && p <= f.base+f.size {
			return f
		}
	}
	return nil
}

// specification of a position: the standard library's answer shifted by the starting line, and,
// when the text is known, the position counted in the text.
func c27specPos(p int) (want token.Position, how string) {
	want = c27std.PositionFor(token.Pos(p), false)
	how = "go/token"
	f := c27find(p)
	if want.IsValid() && f != nil {
		want.Line += f.line
	}
	if f != nil && f.content != nil && p-f.base < f.size {
		l, c := c27lineCol(f.content, p-f.base)
		if want.Line != l+f.line || want.Column != c {
			// the two specifications must agree; if not, report the counted one
			want.Line, want.Column, how = l+f.line, c, "counting newlines"
		}
	}
	return
}

func c27fsExec(f string, args []string) Result {
	if c27fs == nil {
		c27reset()
	}
	switch f {
	case "reset":
		c27reset()
		return Result{Out: "ok", Tags: []string{"reset"}}
	case "add":
		if len(args) != 3 {
			break
		}
		b, _ := strconv.Atoi(args[0])
		sz, _ := strconv.Atoi(args[1])
		ln, _ := strconv.Atoi(args[2])
		name := fmt.Sprintf("f%d", len(c27files))
		var ef *etoken.File
		var sf *token.File
		p1 := c27try(func() { ef = c27fs.AddFile(name, b, sz, ln) })
		p2 := c27try(func() { sf = c27std.AddFile(name, b, sz) })
		r := Result{Tags: []string{"add"}, Nontrivial: true}
		if p1 != p2 {
			r.Viol, r.Key = fmt.Sprintf("AddFile(%d,%d): fork panics=%v standard panics=%v", b, sz, p1, p2), "addfile-panic"
		}
		if p1 {
			r.Out = "panic"
			r.Tags = append(r.Tags, "add-panic")
			return r
		}
		if p2 {
			// keep the mirror aligned
			sf = c27std.AddFile(name, ef.Base(), ef.Size())
		}
		c27files = append(c27files, &c27file{base: ef.Base(), size: sz, line: ln, f: ef, sf: sf})
		r.Out = fmt.Sprintf("%s base=%d", name, ef.Base())
		if ef.Base() != sf.Base() {
			r.Viol, r.Key = fmt.Sprintf("AddFile base %d, standard %d", ef.Base(), sf.Base()), "addfile-base"
		}
		if b >= 0 {
			r.Tags = append(r.Tags, "add-explicit-base")
		}
		return r
	case "lines":
		if len(args) != 2 {
			break
		}
		i, _ := strconv.Atoi(args[0])
		if i < 0 || i >= len(c27files) {
			return Result{Out: "nofile", Tags: []string{"lines-nofile"}}
		}
		cf := c27files[i]
		if args[1] != "" {
			for _, s := range strings.Split(args[1], ",") {
				o, _ := strconv.Atoi(s)
				cf.f.AddLine(o)
				cf.sf.AddLine(o)
			}
		}
		return Result{Out: fmt.Sprintf("n=%d", cf.f.LineCount()), Tags: []string{"lines"}, Nontrivial: true}
	case "content":
		if len(args) < 2 {
			break
		}
		ln, _ := strconv.Atoi(args[0])
		text := []byte{}
		if len(args) > 2 {
			text = c27unesc(args[2])
		}
		name := fmt.Sprintf("f%d", len(c27files))
		ef := c27fs.AddFile(name, -1, len(text), ln)
		sf := c27std.AddFile(name, -1, len(text))
		// the real scanner fills the line table
		var sc scanner.Scanner
		sc.Init(ef, text, func(token.Position, string) {}, scanner.ScanComments, '~')
		for n := 0; n <= len(text)+1; n++ {
			if _, tok, _ := sc.Scan(); tok == token.EOF {
				break
			}
		}
		sf.SetLinesForContent(text)
		if args[1] == "1" {
			ef.SetSourceForContent(text)
		}
		c27files = append(c27files, &c27file{base: ef.Base(), size: len(text), line: ln, content: text, f: ef, sf: sf, copied: args[1] == "1"})
		r := Result{Out: fmt.Sprintf("%s base=%d n=%d", name, ef.Base(), ef.LineCount()), Tags: []string{"content"}, Nontrivial: true}
		if ef.LineCount() != sf.LineCount() {
			r.Viol, r.Key = fmt.Sprintf("scanner recorded %d lines, SetLinesForContent %d", ef.LineCount(), sf.LineCount()), "scanner-line-table"
		}
		return r
	case "pos":
		if len(args) != 1 {
			break
		}
		p, _ := strconv.Atoi(args[0])
		got := c27fs.PositionFor(token.Pos(p), false)
		got2 := c27fs.Position(token.Pos(p))
		want, how := c27specPos(p)
		r := Result{Out: c27showPos(got), Nontrivial: true}
		cf := c27find(p)
		switch {
		case p == 0:
			r.Tags = []string{"pos-nopos"}
		case cf == nil:
			r.Tags = []string{"pos-outside"}
		case p == cf.base+cf.size:
			r.Tags = []string{"pos-eof"}
		default:
			r.Tags = []string{"pos-inside"}
		}
		if cf != nil && cf.line != 0 {
			r.Tags = append(r.Tags, "pos-shifted")
		}
		if got != want || got2 != want {
			r.Viol = fmt.Sprintf("Position(%d) = %s / %s, want %s (%s)", p, c27showPos(got), c27showPos(got2), c27showPos(want), how)
			r.Key = "fileset-position"
		}
		return r
	case "file":
		if len(args) != 1 {
			break
		}
		p, _ := strconv.Atoi(args[0])
		got := "nil"
		if f := c27fs.File(token.Pos(p)); f != nil {
			got = f.Name()
		}
		want := "nil"
		cf := c27find(p)
		if cf != nil {
			want = cf.f.Name()
		}
		r := Result{Out: got, Tags: []string{"file-" + strconv.FormatBool(cf != nil)}, Nontrivial: true}
		if got != want {
			r.Viol, r.Key = fmt.Sprintf("File(%d) = %s, linear scan says %s", p, got, want), "fileset-lookup"
		}
		return r
	case "src":
		if len(args) != 1 {
			break
		}
		p, _ := strconv.Atoi(args[0])
		txt, pos := c27fs.Source(token.Pos(p))
		r := Result{Out: c27esc([]byte(txt)) + "|" + c27showPos(pos), Tags: []string{"src"}, Nontrivial: true}
		want, how := c27specPos(p)
		if pos != want {
			r.Viol, r.Key = fmt.Sprintf("Source(%d) position %s, want %s (%s)", p, c27showPos(pos), c27showPos(want), how), "fileset-source-position"
		}
		// the text: the line of the content that holds p (empty when no source was recorded)
		wantTxt := ""
		if cf := c27find(p); cf != nil && cf.copied && p-cf.base < cf.size && want.IsValid() {
			l, _ := c27lineCol(cf.content, p-cf.base)
			wantTxt = strings.Split(string(cf.content), "\n")[l-1]
			r.Tags = append(r.Tags, "src-text")
		}
		if txt != wantTxt && r.Viol == "" && (wantTxt != "" || c27find(p) == nil || !c27find(p).copied) {
			r.Viol, r.Key = fmt.Sprintf("Source(%d) text %q, the line of the content is %q", p, txt, wantTxt), "fileset-source-text"
		}
		return r
	case "fpos":
		// File.PositionFor called directly on a file (also with a Pos outside it, or NoPos)
		if len(args) != 2 {
			break
		}
		i, _ := strconv.Atoi(args[0])
		p, _ := strconv.Atoi(args[1])
		if i < 0 || i >= len(c27files) {
			return Result{Out: "nofile", Tags: []string{"fpos-nofile"}}
		}
		cf := c27files[i]
		got := cf.f.PositionFor(token.Pos(p), false)
		want := cf.sf.PositionFor(token.Pos(p), false)
		if want.IsValid() {
			want.Line += cf.line
		}
		r := Result{Out: c27showPos(got), Tags: []string{"fpos"}, Nontrivial: true}
		if !want.IsValid() {
			r.Tags = append(r.Tags, "fpos-invalid")
		}
		if got != want || cf.f.Position(token.Pos(p)) != want {
			r.Viol, r.Key = fmt.Sprintf("File.PositionFor(%d) = %s, want %s (go/token shifted by %d)", p, c27showPos(got), c27showPos(want), cf.line), "file-position"
		}
		return r
	}
	return Result{Out: "bad-op"}
}

func c27try(f func()) (panicked bool) {
	defer func() {
		if recover() != nil {
			panicked = true
		}
	}()
	f()
	return false
}

// ---------------------------------------------------------------- (B) chunk family

type c27chunk struct {
	src string
	ft  int
}

// c27chunks splits src the way the interpreter will: by calling the real reader.
func c27chunks(mode string, src []byte) []c27chunk {
	if mode == "eval" {
		return nil
	}
	in := base.MakeBufReadline(bufio.NewReader(bytes.NewReader(src)))
	var out []c27chunk
	first := mode == "reader" || mode == "file"
	for {
		var opts base.ReadOptions
		if first {
			opts = base.ReadOptCollectAllComments
			first = false
		}
		s, ft, _ := base.ReadMultiline(in, opts, "")
		if len(s) == 0 {
			break
		}
		out = append(out, c27chunk{s, ft})
		if len(out) > len(src)+2 {
			break
		}
	}
	return out
}

type c27stop struct {
	seen bool
	txt  string
	pos  token.Position
}

func (d *c27stop) Breakpoint(ir *fast.Interp, env *fast.Env) fast.DebugOp {
	g := &ir.Comp.Globals
	if !d.seen && env.IP < len(env.DebugPos) && g.Fileset != nil {
		d.seen = true
		d.txt, d.pos = g.Fileset.Source(env.DebugPos[env.IP])
	}
	return fast.DebugOpContinue
}

func (d *c27stop) At(ir *fast.Interp, env *fast.Env) fast.DebugOp {
	return fast.DebugOpContinue
}

var c27ir *fast.Interp
var c27irUses int
var c27irOpts base.Options

var c27posRe = regexp.MustCompile(`(?m)^(.*?):(\d+):(\d+): `)

func c27evOp(mode, trap, dbg, kind string, m int, chunks []c27chunk, src []byte) string {
	var sb strings.Builder
	fmt.Fprintf(&sb, "ev %s %s %s %s %d %d", mode, trap, dbg, kind, m, len(chunks))
	for _, c := range chunks {
		fmt.Fprintf(&sb, " %d,%d", c.ft, len(c.src))
	}
	sb.WriteString(" " + c27esc(src))
	return sb.String()
}

func c27evExec(args []string) Result {
	if len(args) < 6 {
		return Result{Out: "bad-op"}
	}
	mode, trap, dbg, kind := args[0], args[1], args[2], args[3]
	m, _ := strconv.Atoi(args[4])
	n, _ := strconv.Atoi(args[5])
	if len(args) < 6+n {
		return Result{Out: "bad-op"}
	}
	var src []byte
	if len(args) > 6+n {
		src = c27unesc(args[6+n])
	}
	var chunks []c27chunk
	off := 0
	for i := 0; i < n; i++ {
		a, b, _ := strings.Cut(args[6+i], ",")
		ft, _ := strconv.Atoi(a)
		l, _ := strconv.Atoi(b)
		if off+l > len(src) {
			return Result{Out: "bad-op"}
		}
		chunks = append(chunks, c27chunk{string(src[off : off+l]), ft})
		off += l
	}
	// the declared chunks must be what the real reader returns (always true for generated ops)
	real := c27chunks(mode, src)
	same := len(real) == len(chunks)
	for i := 0; same && i < len(real); i++ {
		same = real[i].ft == chunks[i].ft && len(real[i].src) == len(chunks[i].src)
	}
	if !same {
		return Result{Out: "chunks-differ-from-ReadMultiline", Tags: []string{"bad-chunks"}}
	}

	// fast.New() costs ~50 ms: one interpreter serves a run of ops (its file set keeps growing, which
	// the reported line/column must not depend on); Line and Options are reset as a fresh one has them.
	if c27ir == nil || c27irUses >= 400 {
		c27ir = fast.New()
		c27irOpts = c27ir.Comp.Globals.Options
		c27irUses = 0
	}
	c27irUses++
	ir := c27ir
	g := &ir.Comp.Globals
	var eb, ob bytes.Buffer
	g.Stdout, g.Stderr = &ob, &eb
	g.Options = c27irOpts
	g.Line = 0
	if dbg == "1" {
		g.Options |= base.OptDebugger
	}
	if trap == "0" {
		g.Options &^= base.OptTrapPanic
	}
	stop := &c27stop{}
	ir.SetDebugger(stop)
	var msg string
	fileName := ""
	switch mode {
	case "eval":
		func() {
			defer func() {
				if e := recover(); e != nil {
					msg = fmt.Sprint(e)
				}
			}()
			ir.Eval(string(src))
		}()
	case "reader":
		_, err := ir.EvalReader(bytes.NewReader(src))
		msg = eb.String()
		if err != nil {
			msg += err.Error()
		}
	case "file":
		fileName = filepath.Join(workDir("c27"), "input.gomacro")
		os.WriteFile(fileName, src, 0o644)
		_, err := ir.EvalFile(fileName)
		msg = eb.String()
		if err != nil {
			msg += err.Error()
		}
	case "repl":
		func() {
			defer func() {
				if e := recover(); e != nil {
					msg = fmt.Sprint(e)
				}
			}()
			ir.Repl(bufio.NewReader(bytes.NewReader(src)))
		}()
		msg = eb.String() + msg
	default:
		return Result{Out: "bad-op"}
	}
	mapName := func(s string) string {
		if fileName != "" && s == fileName {
			return "FILE"
		}
		return s
	}
	wantName := "repl.go"
	if mode == "file" {
		wantName = "FILE"
	}
	tl, tc := c27lineCol(src, m)
	// independent check that m is where the marker is
	marker := map[string][]string{"err": {"undefinedz", "$"}, "brk": {`"break"`, `_ = "break"`}}[kind]
	okMarker := false
	for _, mk := range marker {
		if bytes.HasPrefix(src[min(m, len(src)):], []byte(mk)) && bytes.Count(src, []byte(mk)) == 1 {
			okMarker = true
		}
	}
	r := Result{Tags: []string{"ev-" + mode, "ev-" + kind, "trap" + trap}, Nontrivial: true}
	var name string
	var line, col int
	found := false
	switch kind {
	case "err":
		if sm := c27posRe.FindStringSubmatch(msg); sm != nil {
			name = mapName(sm[1])
			line, _ = strconv.Atoi(sm[2])
			col, _ = strconv.Atoi(sm[3])
			found = true
		}
		if found {
			r.Out = fmt.Sprintf("%s:%d:%d L=%d", name, line, col, g.Line)
		}
	case "brk":
		if stop.seen {
			name, line, col = mapName(stop.pos.Filename), stop.pos.Line, stop.pos.Column
			found = true
			r.Out = fmt.Sprintf("%s:%d:%d L=%d src=%s", name, line, col, g.Line, c27esc([]byte(stop.txt)))
		}
	}
	if !found {
		r.Out = fmt.Sprintf("nopos L=%d", g.Line)
		r.Tags = append(r.Tags, "ev-nopos")
		r.Viol, r.Key = "no position reported: "+truncate(oneLine(msg), 200), "no-position-reported"
		return r
	}
	if !okMarker {
		r.Viol, r.Key = "op is malformed: no unique marker at offset m", "bad-marker"
		return r
	}
	// shape of the input, for tags and for the key of a violation
	k, start := -1, 0
	for i, c := range chunks {
		if m < start+len(c.src) {
			k = i
			break
		}
		start += len(c.src)
	}
	viaReader := mode == "reader" || mode == "file"
	nlPrefix, uniBlank, cutFirst := false, false, false
	for i, c := range chunks {
		if k >= 0 && i > k {
			break
		}
		viaRead := !(viaReader && i == 0)
		if viaRead && c.ft > 0 && strings.Contains(c.src[:c.ft], "\n") {
			nlPrefix = true
		}
		if i < k && c.ft >= 0 && strings.TrimSpace(c.src) == "" && strings.Contains(c.src, "\n") {
			uniBlank = true
		}
		if !viaRead && i == k && c.ft > 0 && c.src[c.ft-1] != '\n' {
			cutFirst = true
		}
	}
	if nlPrefix {
		r.Tags = append(r.Tags, "shape-newline-in-comment-before-first-token")
	}
	if uniBlank {
		r.Tags = append(r.Tags, "shape-unicode-blank-line")
	}
	if cutFirst {
		r.Tags = append(r.Tags, "shape-evalreader-first-token-not-at-line-start")
	}
	if k > 0 {
		r.Tags = append(r.Tags, "marker-in-later-chunk")
	}
	if tl != line || tc != col || name != wantName {
		var key []string
		if name != wantName {
			key = append(key, "file-name")
		}
		if tl != line {
			key = append(key, "line-off")
			if nlPrefix {
				key = append(key, "newline-in-comment-before-first-token")
			}
			if uniBlank {
				key = append(key, "unicode-blank-line")
			}
		}
		if tc != col {
			key = append(key, "col-off")
			if cutFirst {
				key = append(key, "evalreader-first-token-not-at-line-start")
			}
		}
		r.Key = strings.Join(key, "-")
		r.Viol = fmt.Sprintf("%s reported at %s:%d:%d, its true position in the input is %s:%d:%d (mode %s)", kind, name, line, col, wantName, tl, tc, mode)
	}
	return r
}

func c27exec(op string) Result {
	f, rest, _ := strings.Cut(op, " ")
	var args []string
	if rest != "" {
		args = strings.Split(rest, " ")
	}
	if f == "ev" {
		return c27evExec(args)
	}
	return c27fsExec(f, args)
}

// ---------------------------------------------------------------- generator

type c27gen struct {
	r  *rand.Rand
	id int
}

func (g *c27gen) v() string { g.id++; return fmt.Sprintf("v%d", g.id) }

const c27nfill = 21

// filler piece number i: complete lines, no marker
func (g *c27gen) filler(i int) string {
	n := g.r.Intn(90) + 1
	switch i {
	case 0:
		return "\n"
	case 1:
		return "  \t\n"
	case 2:
		return "// line comment é\n"
	case 3:
		return "\t// indented comment\n"
	case 4:
		return "/* one line */\n"
	case 5:
		return "/* multi\n   line\n*/\n"
	case 6:
		return fmt.Sprintf("%s := %d\n", g.v(), n)
	case 7:
		return fmt.Sprintf("%s := %d // trailing\n", g.v(), n)
	case 8:
		return fmt.Sprintf("var %s = \"a\\tb\"\n", g.v())
	case 9:
		return fmt.Sprintf("var %s = `raw\nstring\n`\n", g.v())
	case 10:
		return fmt.Sprintf("func %s(a int) int {\n\t// c\n\n\treturn a + %d\n}\n", g.v(), n)
	case 11:
		return fmt.Sprintf("var %s = []int{\n\t1,\n\t%d,\n}\n", g.v(), n)
	case 12:
		return fmt.Sprintf("%s := 1 +\n\t%d\n", g.v(), n)
	case 13:
		return fmt.Sprintf("/* c */ %s := %d\n", g.v(), n)
	case 14:
		return fmt.Sprintf("/* a\n b */ %s := %d\n", g.v(), n)
	case 15:
		return "\u00a0\n"
	case 16:
		return fmt.Sprintf("    %s := %d\n", g.v(), n)
	case 17:
		return fmt.Sprintf("%s := %d; %s := 2\n", g.v(), n, g.v())
	case 18:
		return fmt.Sprintf("/* a */ /* b\n\n c */\t%s := %d\n", g.v(), n)
	case 19:
		return "package main\n"
	case 20:
		return fmt.Sprintf("var %s = /* in\nside */ %d\n", g.v(), n)
	}
	return "\n"
}

var c27pre = []string{"", "", "  ", "\t", "/* c */ ", "/* a\n b */ ", "/*\n*/", "/* x */\t/* y\n\n*/ ", "/* é */"}

var c27errT = []string{
	"y := undefinedz\n",
	"y := 1 +\n\tundefinedz\n",
	"func g() int {\n\n\treturn undefinedz\n}\n",
	"var l = []int{\n\t1,\n\tundefinedz,\n}\n",
	"println(\"a\", undefinedz)\n",
	"var s = `x\ny`; var q = undefinedz\n",
	"var v undefinedz\n",
	"v := 3 $ 4\n",
	"if true {\n\t/* in\nside */ _ = undefinedz\n}\n",
	"undefinedz\n",
	"var u = \"éé\" + undefinedz\n",
}

var c27brkT = []string{
	"func h() {\n\tx := 1\n\t\"break\"\n\t_ = x\n}\n",
	"func h() {\n\tx := 1; _ = \"break\"\n\t_ = x\n}\n",
	"func h() { /* a\nb */ \"break\" }\n",
}

// source builds one source text: nb fillers, the marker statement, na fillers (for brk: the call in between)
func (g *c27gen) source(mode, kind string, before []int, pre string, tmpl int, after []int, cutNL bool) (src []byte, m int) {
	var sb strings.Builder
	if mode == "eval" {
		// Eval hands the whole text to the parser: a NBSP outside comments is an illegal character there
		before, after = c27noNBSP(before), c27noNBSP(after)
	}
	for _, i := range before {
		sb.WriteString(g.filler(i))
	}
	sb.WriteString(pre)
	if kind == "err" {
		sb.WriteString(c27errT[tmpl])
	} else {
		sb.WriteString(c27brkT[tmpl])
		for _, i := range after {
			sb.WriteString(g.filler(i))
		}
		sb.WriteString("h()\n")
	}
	for _, i := range after {
		sb.WriteString(g.filler(i))
	}
	s := sb.String()
	if cutNL && strings.HasSuffix(s, "\n") {
		s = s[:len(s)-1]
	}
	for _, mk := range []string{"undefinedz", "$", `_ = "break"`, `"break"`} {
		if i := strings.Index(s, mk); i >= 0 {
			return []byte(s), i
		}
	}
	return []byte(s), 0
}

func (g *c27gen) emitEv(emit func(string), mode, trap, dbg, kind string, src []byte, m int) {
	emit(c27evOp(mode, trap, dbg, kind, m, c27chunks(mode, src), src))
}

func c27gen_(r *rand.Rand, tier string, emit func(string)) {
	g := &c27gen{r: r}
	thorough := tier == "thorough"

	// ---- (A1) bounded-exhaustive file tables: every size <= S, every subset of AddLine offsets 1..size,
	// three starting lines, between two other files; every Pos from -1 to one past the end.
	S := 4
	if thorough {
		S = 7
	}
	for size := 0; size <= S; size++ {
		for mask := 0; mask < 1<<size; mask++ {
			for _, ln := range []int{0, 3, -2} {
				emit("reset")
				emit("add -1 1 0")
				emit(fmt.Sprintf("add -1 %d %d", size, ln))
				var offs []string
				for o := 1; o <= size; o++ {
					if mask&(1<<(o-1)) != 0 {
						offs = append(offs, strconv.Itoa(o))
					}
				}
				emit("lines 1 " + strings.Join(offs, ","))
				emit("add -1 2 7")
				emit("lines 2 1")
				end := 1 + 2 + size + 1 + 3
				for _, p := range r.Perm(end + 3) {
					emit(fmt.Sprintf("pos %d", p-1))
					if (p+mask)%3 == 0 {
						emit(fmt.Sprintf("file %d", p-1))
					}
					if (p+mask)%4 == 0 {
						emit(fmt.Sprintf("fpos %d %d", (p+mask)%3, p-1))
					}
				}
			}
		}
	}

	// ---- (A2) random file-set histories
	nh := 120
	if thorough {
		nh = 4000
	}
	for h := 0; h < nh; h++ {
		emit("reset")
		type fi struct{ base, size int }
		var files []fi
		next := 1
		nops := 20 + r.Intn(40)
		pick := func() int { // a Pos worth asking about
			if len(files) == 0 || r.Intn(12) == 0 {
				return []int{0, -1, -100, next, next + 5, 1 << 40}[r.Intn(6)]
			}
			f := files[r.Intn(len(files))]
			switch r.Intn(6) {
			case 0:
				return f.base
			case 1:
				return f.base + f.size
			case 2:
				return f.base + f.size + 1
			case 3:
				return f.base - 1
			}
			return f.base + r.Intn(f.size+1)
		}
		for i := 0; i < nops; i++ {
			switch k := r.Intn(20); {
			case k < 3 || len(files) == 0:
				size := r.Intn(40)
				if r.Intn(10) == 0 {
					size = r.Intn(400)
				}
				ln := []int{0, 0, 1, 7, 1000, -1, -3}[r.Intn(7)]
				b := -1
				switch r.Intn(8) {
				case 0:
					b = next + r.Intn(5) // explicit, possibly leaving a gap
				case 1:
					b = next - 1 - r.Intn(3) // too small: panics (or -1.. = automatic)
				}
				if r.Intn(25) == 0 {
					size = -1 - r.Intn(2) // panics
				}
				if r.Intn(2) == 0 && size > 0 && b == -1 {
					// a file with content, scanned by the real scanner
					text := make([]byte, size)
					alpha := "ab \n\n\t/*\"`xy;=\n"
					for j := range text {
						text[j] = alpha[r.Intn(len(alpha))]
					}
					emit(fmt.Sprintf("content %d %d %s", ln, r.Intn(2), c27esc(text)))
					files = append(files, fi{next, size})
					next += size + 1
					break
				}
				emit(fmt.Sprintf("add %d %d %d", b, size, ln))
				eff := b
				if b < 0 {
					eff = next
				}
				if eff >= next && size >= 0 {
					files = append(files, fi{eff, size})
					next = eff + size + 1
					// line table: increasing offsets with some noise
					var offs []string
					o := 0
					for o < size+3 && len(offs) < 60 {
						o += 1 + r.Intn(6)
						x := o
						switch r.Intn(15) {
						case 0:
							x = o - 3 - r.Intn(5) // not increasing: ignored
						case 1:
							x = size + r.Intn(3) // >= size: ignored
						case 2:
							x = -r.Intn(3)
						}
						offs = append(offs, strconv.Itoa(x))
					}
					emit(fmt.Sprintf("lines %d %s", len(files)-1, strings.Join(offs, ",")))
				}
			case k < 14:
				emit(fmt.Sprintf("pos %d", pick()))
			case k < 16:
				emit(fmt.Sprintf("file %d", pick()))
			case k < 17:
				emit(fmt.Sprintf("fpos %d %d", r.Intn(len(files)), pick()))
			default:
				emit(fmt.Sprintf("src %d", pick()))
			}
		}
	}

	// ---- (B1) bounded-exhaustive chunk sequences: every sequence of <= K filler kinds before the
	// marker, every comment/indent prefix, through every entry point
	emit("reset")
	modes := []string{"eval", "reader", "file", "repl"}
	K := 1
	if thorough {
		K = 2
	}
	var seqs [][]int
	var rec func(cur []int)
	rec = func(cur []int) {
		seqs = append(seqs, append([]int(nil), cur...))
		if len(cur) == K {
			return
		}
		for i := 0; i < c27nfill; i++ {
			rec(append(cur, i))
		}
	}
	rec(nil)
	for _, seq := range seqs {
		for pi, pre := range c27pre {
			if pi == 1 {
				continue
			}
			mode := modes[(len(seq)+pi+sum(seq))%4]
			if len(seq) <= 1 {
				for _, mode := range modes {
					src, m := g.source(mode, "err", seq, pre, 0, nil, false)
					g.emitEv(emit, mode, "1", "0", "err", src, m)
				}
				continue
			}
			src, m := g.source(mode, "err", seq, pre, 0, nil, false)
			g.emitEv(emit, mode, "1", "0", "err", src, m)
		}
	}

	// ---- (B2) random multi-chunk sources
	ne := 500
	if thorough {
		ne = 12000
	}
	for e := 0; e < ne; e++ {
		nb, na := r.Intn(7), r.Intn(4)
		if r.Intn(6) == 0 {
			nb = 0
		}
		before := make([]int, nb)
		for i := range before {
			before[i] = r.Intn(c27nfill)
		}
		after := make([]int, na)
		for i := range after {
			after[i] = r.Intn(c27nfill)
		}
		pre := c27pre[r.Intn(len(c27pre))]
		mode := modes[r.Intn(4)]
		trap := "1"
		if (mode == "reader" || mode == "file") && r.Intn(3) == 0 {
			trap = "0"
		}
		if r.Intn(5) == 0 {
			src, m := g.source(mode, "brk", before, pre, r.Intn(len(c27brkT)), after, false)
			g.emitEv(emit, mode, "1", "1", "brk", src, m)
			continue
		}
		dbg := "0"
		if r.Intn(8) == 0 {
			dbg = "1"
		}
		src, m := g.source(mode, "err", before, pre, r.Intn(len(c27errT)), after, na == 0 && r.Intn(3) == 0)
		g.emitEv(emit, mode, trap, dbg, "err", src, m)
	}
}

func c27noNBSP(a []int) []int {
	out := make([]int, len(a))
	for i, x := range a {
		if x == 15 {
			x = 0
		}
		out[i] = x
	}
	return out
}

func sum(a []int) int {
	s := 0
	for _, x := range a {
		s += x
	}
	return s
}

// ---------------------------------------------------------------- extractor: which of the
// three repairable places of the chunk loop are repaired in the source under test

func c27funcDecl(file *ast.File, recv, name string) *ast.FuncDecl {
	for _, d := range file.Decls {
		if fd, ok := d.(*ast.FuncDecl); ok && fd.Name.Name == name && fd.Body != nil {
			if recv == "" && fd.Recv == nil {
				return fd
			}
			if fd.Recv != nil && len(fd.Recv.List) == 1 {
				if st, ok := fd.Recv.List[0].Type.(*ast.StarExpr); ok {
					if id, ok := st.X.(*ast.Ident); ok && id.Name == recv {
						return fd
					}
				}
			}
		}
	}
	return nil
}

func c27isIncLine(n ast.Node) (arg ast.Expr, ok bool) {
	call, isCall := n.(*ast.CallExpr)
	if !isCall || len(call.Args) != 1 {
		return nil, false
	}
	sel, isSel := call.Fun.(*ast.SelectorExpr)
	if !isSel || sel.Sel.Name != "IncLine" {
		return nil, false
	}
	return call.Args[0], true
}

func c27extract(repo, genDir string) error {
	fset := token.NewFileSet()
	repl, err := goparser.ParseFile(fset, filepath.Join(repo, "fast/repl.go"), nil, 0)
	if err != nil {
		return err
	}
	interp, err := goparser.ParseFile(fset, filepath.Join(repo, "fast/interpreter.go"), nil, 0)
	if err != nil {
		return err
	}
	read := c27funcDecl(repl, "Interp", "Read")
	pep := c27funcDecl(repl, "Interp", "ParseEvalPrint")
	after := c27funcDecl(repl, "Interp", "afterEval")
	er := c27funcDecl(interp, "Interp", "EvalReader")
	if read == nil || pep == nil || after == nil || er == nil {
		return fmt.Errorf("C27: Interp.Read / ParseEvalPrint / afterEval / EvalReader not found")
	}
	// Read: IncLine(src) under firstToken < 0 must exist; IncLine(src[0:firstToken]) is the optional one
	whole, prefix := 0, 0
	ast.Inspect(read.Body, func(n ast.Node) bool {
		if a, ok := c27isIncLine(n); ok {
			if _, isSlice := a.(*ast.SliceExpr); isSlice {
				prefix++
			} else {
				whole++
			}
		}
		return true
	})
	if whole != 1 || prefix > 1 {
		return fmt.Errorf("C27: Interp.Read has an unexpected shape (%d IncLine(src), %d IncLine(src[..]))", whole, prefix)
	}
	// afterEval: exactly one IncLine(src)
	cnt := 0
	ast.Inspect(after.Body, func(n ast.Node) bool {
		if _, ok := c27isIncLine(n); ok {
			cnt++
		}
		return true
	})
	if cnt != 1 {
		return fmt.Errorf("C27: afterEval has %d IncLine calls", cnt)
	}
	// ParseEvalPrint: the first statement is the blank-source early return
	blankInc := false
	if len(pep.Body.List) == 0 {
		return fmt.Errorf("C27: ParseEvalPrint is empty")
	}
	ifs, ok := pep.Body.List[0].(*ast.IfStmt)
	if !ok {
		return fmt.Errorf("C27: ParseEvalPrint does not start with the blank-source test")
	}
	ast.Inspect(ifs.Body, func(n ast.Node) bool {
		if _, ok := c27isIncLine(n); ok {
			blankInc = true
		}
		return true
	})
	// EvalReader: `str = str[firstToken:]` (cut) or `str = strings.Repeat(" ", firstToken-bol) + str[firstToken:]`
	cut, blank, incComments := 0, 0, 0
	ast.Inspect(er.Body, func(n ast.Node) bool {
		if a, ok := c27isIncLine(n); ok {
			if id, isId := a.(*ast.Ident); isId && id.Name == "comments" {
				incComments++
			}
		}
		as, ok := n.(*ast.AssignStmt)
		if !ok || len(as.Lhs) != 1 || len(as.Rhs) != 1 {
			return true
		}
		if id, isId := as.Lhs[0].(*ast.Ident); !isId || id.Name != "str" || as.Tok != token.ASSIGN {
			return true
		}
		switch rhs := as.Rhs[0].(type) {
		case *ast.SliceExpr:
			cut++
		case *ast.BinaryExpr:
			if call, isCall := rhs.X.(*ast.CallExpr); isCall && rhs.Op == token.ADD {
				if sel, isSel := call.Fun.(*ast.SelectorExpr); isSel && sel.Sel.Name == "Repeat" {
					if _, isSlice := rhs.Y.(*ast.SliceExpr); isSlice {
						blank++
					}
				}
			}
		}
		return true
	})
	if cut+blank != 1 || incComments != 1 {
		return fmt.Errorf("C27: EvalReader has an unexpected shape (cut=%d blank=%d IncLine(comments)=%d)", cut, blank, incComments)
	}
	out := fmt.Sprintf(`import Model.FileSet
/-! REGENERATED by harness/c27.go (c27extract) from fast/repl.go and fast/interpreter.go: which of
    the three repairable places of the chunk loop are repaired in the source under test. -/
namespace Gen.C27
def cfg : FileSet.Cfg := ⟨%v, %v, %v⟩
end Gen.C27
`, prefix == 1, blank == 1, blankInc)
	return os.WriteFile(filepath.Join(genDir, "C27Cfg.lean"), []byte(out), 0o644)
}

func init() {
	extractors["C27"] = c27extract
	register(&Prop{
		ID:   "C27",
		Rule: "file sets: bounded-exhaustive (every file size <= 4 (quick) / 7 (thorough), every subset of AddLine offsets, 3 starting lines, every Pos from -1 to past the end) + random AddFile/AddLine/content histories incl. explicit bases with gaps, panicking bases/sizes, non-monotone line offsets, out-of-range Pos; sources: every sequence of <= 1 (quick) / 2 (thorough) of 21 filler kinds (blank, comment, multi-line comment, raw string, multi-line decl, comment before token, NBSP line, package clause...) x 8 comment/indent prefixes before the marker statement, through Eval/EvalReader/EvalFile/Repl, + random sources with 11 error templates and 3 breakpoint templates, trap on/off, debugger option on/off. Non-trivial: all but reset/bad ops; distinct by op text.",
		Gen:  c27gen_,
		Exec: c27exec,
		Exhaustive: func(tier string) bool { return true },
	})
}
