package main

// extractors["C01"]: regenerates lean/Gen/C01*.lean from the Go sources of package fast.

import (
	"path/filepath"
	"strings"
)

type c01src struct {
	module string   // Lean module Gen.<module>
	file   string   // file under fast/
	funcs  []string // functions whose arms/actions are extracted (Recv.name for ambiguous method names)
	texts  []string // functions tied by their source text
}

var c01sources = []c01src{
	{"C01BinaryOps", "binary_ops.go", []string{"Add", "Sub", "Mul", "Quo", "Rem", "And", "Or", "Xor", "Andnot", "mulPow2", "quoPow2", "remPow2", "exprZero"},
		[]string{"isPowerOfTwo", "integerLen"}},
	{"C01BinaryShifts", "binary_shifts.go", []string{"Shl", "Shr"}, nil},
	{"C01BinaryRelops", "binary_relops.go", []string{"Lss", "Gtr", "Leq", "Geq"}, nil},
	{"C01BinaryEqlneq", "binary_eqlneq.go", []string{"Eql", "Neq"}, nil},
	{"C01UnaryOps", "unary_ops.go", []string{"UnaryPlus", "UnaryMinus", "UnaryXor", "UnaryNot"}, nil},
	{"C01Binary", "binary.go", []string{"BinaryExpr1", "Land", "Lor", "prepareShift", "toSameFuncType"}, nil},
	{"C01Unary", "unary.go", []string{"UnaryExpr"}, nil},
	{"C01Identifier", "identifier.go", []string{"Bind.expr", "Symbol.expr", "Bind.intExpr", "Symbol.intExpr"}, []string{"outerEnv3"}},
	{"C01Util", "util.go", []string{"AsUint64"}, []string{"constAsUint64"}},
	{"C01Literal", "literal.go", nil, []string{"isLiteralNumber"}},
	{"C01Compile", "compile.go", nil, []string{"Up"}},
}

func c01GenFiles() []string {
	var out []string
	for _, s := range c01sources {
		out = append(out, s.module+".lean")
	}
	return out
}

func leanIdent(goName string) string {
	return lowerFirst(strings.ReplaceAll(goName, ".", "_"))
}

func c01extract(repo, genDir string) error {
	for _, s := range c01sources {
		file := filepath.Join(repo, "fast", s.file)
		var defs []genDef
		if len(s.funcs) > 0 {
			xs, err := extractFuncs(file, s.funcs)
			if err != nil {
				return err
			}
			for _, fn := range s.funcs {
				x := xs[fn]
				defs = append(defs, genDef{name: leanIdent(fn), entries: x.entries, kind: 0})
				defs = append(defs, genDef{name: leanIdent(fn) + "Actions", actions: x.actions, kind: 1})
			}
		}
		for _, fn := range s.texts {
			src, err := funcSource(file, fn)
			if err != nil {
				return err
			}
			defs = append(defs, genDef{name: leanIdent(fn) + "Src", strs: src, kind: 2})
		}
		if err := writeGenFile(genDir, s.module, "fast/"+s.file, defs); err != nil {
			return err
		}
	}
	return nil
}

func init() { extractors["C01"] = c01extract }
