package main

import (
	"bufio"
	"bytes"
	"encoding/hex"
	"fmt"
	"go/ast"
	goparser "go/parser"
	goscanner "go/scanner"
	gotoken "go/token"
	"io"
	"math/rand"
	"os"
	"path/filepath"
	"runtime"
	"sort"
	"strconv"
	"strings"
	"testing/iotest"

	"github.com/cosmos72/gomacro/base"
	"github.com/cosmos72/gomacro/go/etoken"
	mscanner "github.com/cosmos72/gomacro/go/scanner"
)

// C26: base.ReadMultiline splits a stream of source losslessly at complete-statement boundaries.
//
// op:  rd <opts> <L|B> <hex bytes of the stream> [<hex: offsets p with "no cut allowed strictly inside [a,b)" as a,b pairs>]
//   L = the stream is delivered line by line through a Readline written here
//   every other mode = the REAL line source base.MakeBufReadline(bufio.Reader) over the whole stream:
//   B = bufio.NewReader (4096-byte buffer, as Interp.EvalReader), B16 / B64 = bufio.NewReaderSize 16 / 64
//   (every line longer than the buffer), O / H / D = bufio.NewReader over iotest.OneByteReader /
//   HalfReader / DataErrReader (short reads, data delivered together with EOF)
// The stream is hex, optionally run-length coded: segments separated by '.', a segment is HEX or HEX*COUNT.
// ReadMultiline is called until it returns io.EOF; Out lists every call:
//   <len>:<firstToken>:<err>  ...  sum=<additive checksum of all returned bytes>
//
// Oracle (independent of read.go): a scanner-style reference lexer written here (lexical context and
// bracket depth at every offset, '#!' positions, newlines inside interpreted literals), go/scanner's
// automatic-semicolon rule (a cut is allowed only where the Go lexer ends a statement), and for
// windows of real files the declaration extents computed by go/parser.

// ---------------------------------------------------------------- running the real code

type c26lineReader struct {
	lines [][]byte
	n     int
}

func (r *c26lineReader) Read(prompt string) ([]byte, error) {
	if r.n >= len(r.lines) {
		return nil, io.EOF
	}
	l := r.lines[r.n]
	r.n++
	if len(l) == 0 || l[len(l)-1] != '\n' {
		return l, io.EOF // as BufReadline: last unterminated line comes together with EOF
	}
	return l, nil
}

func c26splitLines(src []byte) [][]byte {
	var out [][]byte
	for len(src) > 0 {
		i := bytes.IndexByte(src, '\n')
		if i < 0 {
			out = append(out, append([]byte(nil), src...))
			break
		}
		out = append(out, append([]byte(nil), src[:i+1]...))
		src = src[i+1:]
	}
	return out
}

type c26chunk struct {
	src   string
	first int
	err   error
}

func c26errStr(err error) string {
	switch {
	case err == nil:
		return "nil"
	case err == io.EOF:
		return "EOF"
	case err == io.ErrUnexpectedEOF:
		return "UEOF"
	}
	// unexpected character '\n' inside string literal
	s := err.Error()
	if strings.Contains(s, "inside rune") {
		return "Erune"
	} else if strings.Contains(s, "inside string") {
		return "Estring"
	}
	return "Eio(" + strings.ReplaceAll(s, " ", "-") + ")" // an error of the line source itself
}

func c26run(src []byte, opts base.ReadOptions, mode string) []c26chunk {
	var in base.Readline
	rd := func() *bytes.Reader { return bytes.NewReader(append([]byte(nil), src...)) }
	switch mode {
	case "L":
		in = &c26lineReader{lines: c26splitLines(src)}
	case "B16":
		in = base.MakeBufReadline(bufio.NewReaderSize(rd(), 16))
	case "B64":
		in = base.MakeBufReadline(bufio.NewReaderSize(rd(), 64))
	case "O":
		in = base.MakeBufReadline(bufio.NewReader(iotest.OneByteReader(rd())))
	case "H":
		in = base.MakeBufReadline(bufio.NewReader(iotest.HalfReader(rd())))
	case "D":
		in = base.MakeBufReadline(bufio.NewReader(iotest.DataErrReader(rd())))
	default: // "B"
		in = base.MakeBufReadline(bufio.NewReader(rd()))
	}
	var out []c26chunk
	for k := 0; k < len(src)+3; k++ {
		s, first, err := base.ReadMultiline(in, opts, "p> ")
		out = append(out, c26chunk{s, first, err})
		if err == io.EOF || err == io.ErrUnexpectedEOF {
			break
		}
	}
	return out
}

// ---------------------------------------------------------------- reference lexer (specification side)

const (
	cxCode = iota
	cxString
	cxRawString
	cxRune
	cxLineComment
	cxBlockComment
)

var c26cxName = []string{"code", "string", "rawstring", "rune", "comment", "comment"}

type c26ref struct {
	ctx    []uint8 // ctx[p], p in 0..n: lexical context at the boundary before byte p
	depth  []int   // bracket depth at boundary p
	opener []int   // offset of the byte that opened the literal/comment containing boundary p (-1 in code)
	bopen  []int   // offset of the innermost unclosed bracket at boundary p (-1 if none)
	bad    map[int]bool
	rw     []byte // the stream with '#!' (in code context) turned into '//'
}

// scanner-style: one loop iteration per token, inner loops swallow literals and comments.
func c26lex(src []byte) *c26ref {
	n := len(src)
	r := &c26ref{ctx: make([]uint8, n+1), depth: make([]int, n+1), opener: make([]int, n+1), bopen: make([]int, n+1),
		bad: map[int]bool{}, rw: append([]byte(nil), src...)}
	d := 0
	var stack []int
	top := func() int {
		if len(stack) == 0 {
			return -1
		}
		return stack[len(stack)-1]
	}
	marked := make([]bool, n+1)
	mark := func(p int, cx uint8, op int) {
		r.ctx[p], r.depth[p], r.opener[p], r.bopen[p] = cx, d, op, top()
		marked[p] = true
	}
	i := 0
	for i < n {
		mark(i, cxCode, -1)
		c := src[i]
		switch {
		case c == '"' || c == '\'':
			cx := uint8(cxString)
			if c == '\'' {
				cx = cxRune
			}
			j := i + 1
			for {
				mark(j, cx, i)
				if j >= n {
					break
				}
				if src[j] == '\n' {
					r.bad[j] = true // not terminated: the literal ends here (go/scanner does the same)
					break
				}
				if src[j] == c {
					j++
					break
				}
				if src[j] == '\\' && j+1 < n {
					j++
					mark(j, cx, i)
					if src[j] == '\n' {
						r.bad[j] = true
						break
					}
				}
				j++
			}
			i = j
		case c == '`':
			j := i + 1
			for {
				mark(j, cxRawString, i)
				if j >= n {
					break
				}
				if src[j] == '`' {
					j++
					break
				}
				j++
			}
			i = j
		case c == '/' && i+1 < n && src[i+1] == '/', c == '#' && i+1 < n && src[i+1] == '!':
			if c == '#' {
				r.rw[i], r.rw[i+1] = '/', '/'
			}
			j := i + 1
			for {
				mark(j, cxLineComment, i)
				if j >= n {
					break
				}
				if src[j] == '\n' {
					j++ // the newline ends the comment
					break
				}
				j++
			}
			i = j
		case c == '/' && i+1 < n && src[i+1] == '*':
			j := i + 1
			mark(j, cxBlockComment, i)
			j++
			for {
				mark(j, cxBlockComment, i)
				if j >= n {
					break
				}
				if src[j] == '*' && j+1 < n && src[j+1] == '/' {
					mark(j+1, cxBlockComment, i)
					j += 2
					break
				}
				j++
			}
			i = j
		case c == '~' && i+1 < n && (src[i+1] == '\'' || src[i+1] == '"' || src[i+1] == '`' || src[i+1] == ','):
			// gomacro tokens ~' ~" ~` ~, (quote, quasiquote, unquote): not literals
			mark(i+1, cxCode, -1)
			i += 2
		case c == '(' || c == '[' || c == '{':
			d++
			stack = append(stack, i)
			i++
		case c == ')' || c == ']' || c == '}':
			d--
			if len(stack) > 0 {
				stack = stack[:len(stack)-1]
			}
			i++
		default:
			i++
		}
	}
	if !marked[n] {
		mark(n, cxCode, -1) // the last token ended exactly at n
	}
	return r
}

// the first bracket of the chunk (in code context) that directly follows '/', '~' or '#'
func c26bracketCause(src []byte, ref *c26ref, from, to int) string {
	for p := from; p < to; p++ {
		if ref.ctx[p] == cxCode && strings.IndexByte("([{)]}", src[p]) >= 0 {
			if c := c26prevClass(src, p); c != "other" && c != "start" {
				return c
			}
		}
	}
	return "other"
}

func c26everNegative(ref *c26ref, end int) bool {
	for p := 0; p <= end; p++ {
		if ref.depth[p] < 0 {
			return true
		}
	}
	return false
}

func c26prevClass(src []byte, p int) string {
	// class of the byte just before offset p
	if p <= 0 {
		return "start"
	}
	switch src[p-1] {
	case '/':
		return "after-slash"
	case '~':
		return "after-tilde"
	case '#':
		return "after-hash"
	case '+', '-':
		return "after-plusminus"
	}
	return "other"
}

// ---------------------------------------------------------------- go/scanner: where may a statement end?

type c26tok struct {
	off int
	tok string
	semi bool
	kw   bool
}

// c26tokens returns the token list of src by the standard go/scanner, or by gomacro's scanner when the
// standard one reports errors (gomacro-only syntax); ok=false when both report errors.
func c26tokens(src []byte, gomacroSyntax bool) (toks []c26tok, ok bool) {
	if !gomacroSyntax {
		fset := gotoken.NewFileSet()
		f := fset.AddFile("", fset.Base(), len(src))
		var s goscanner.Scanner
		nerr := 0
		s.Init(f, src, func(gotoken.Position, string) { nerr++ }, 0)
		for {
			pos, tok, _ := s.Scan()
			if tok == gotoken.EOF {
				break
			}
			toks = append(toks, c26tok{f.Offset(pos), tok.String(), tok == gotoken.SEMICOLON, tok.IsKeyword()})
		}
		return toks, nerr == 0
	}
	fset := etoken.NewFileSet()
	f := fset.AddFile("", fset.Base(), len(src), 0)
	var s mscanner.Scanner
	nerr := 0
	s.Init(f, src, func(gotoken.Position, string) { nerr++ }, 0, '~')
	for {
		pos, tok, _ := s.Scan()
		if tok == gotoken.EOF {
			break
		}
		if tok >= etoken.QUOTE {
			nerr++ // macro-related token: the Go rules about statement ends do not apply
		}
		toks = append(toks, c26tok{f.Offset(pos), etoken.String(tok), tok == gotoken.SEMICOLON, tok.IsKeyword()})
	}
	return toks, nerr == 0
}

// ---------------------------------------------------------------- Exec

// c26decode: HEX or HEX*COUNT segments separated by '.'
func c26decode(s string) ([]byte, error) {
	var out []byte
	for _, seg := range strings.Split(s, ".") {
		h, cnt, rep := strings.Cut(seg, "*")
		b, err := hex.DecodeString(h)
		if err != nil {
			return nil, err
		}
		n := 1
		if rep {
			if n, err = strconv.Atoi(cnt); err != nil {
				return nil, err
			}
		}
		for i := 0; i < n; i++ {
			out = append(out, b...)
		}
	}
	return out, nil
}

func c26checksum(b []byte) int {
	s := 0
	for i, c := range b {
		s = (s + int(c)*(i%251+1)) % 1000003
	}
	return s
}

func c26exec(op string) Result {
	f := strings.Fields(op)
	if len(f) < 4 || f[0] != "rd" {
		return Result{Out: "bad-op"}
	}
	o, _ := strconv.Atoi(f[1])
	mode := f[2]
	src, err := c26decode(f[3])
	if err != nil {
		return Result{Out: "bad-hex"}
	}
	var spans [][2]int
	if len(f) >= 5 {
		for _, ab := range strings.Split(f[4], ",") {
			a, b, _ := strings.Cut(ab, "-")
			x, _ := strconv.Atoi(a)
			y, _ := strconv.Atoi(b)
			spans = append(spans, [2]int{x, y})
		}
	}
	chunks := c26run(src, base.ReadOptions(o), mode)

	// ---- canonical output
	var sb strings.Builder
	var all []byte
	for _, c := range chunks {
		fmt.Fprintf(&sb, "%d:%d:%s ", len(c.src), c.first, c26errStr(c.err))
		all = append(all, c.src...)
	}
	fmt.Fprintf(&sb, "sum=%d", c26checksum(all))
	res := Result{Out: sb.String()}
	tags := map[string]bool{"mode-" + mode: true}
	stop := false
	viol := func(key, desc string) {
		stop = true
		if res.Viol == "" {
			// the shared harness keeps only the first 50 violations of a run: report every Key
			// at most 3 times so that a frequent Key cannot hide a rare one
			if c26keyCount[key]++; c26keyCount[key] > 3 {
				tags["violation-repeat"] = true
				return
			}
			res.Key = key
			shown := fmt.Sprintf("%q", src)
			if len(src) > 400 {
				shown = fmt.Sprintf("%q...(%d bytes)...%q", src[:150], len(src), src[len(src)-150:])
			}
			res.Viol = fmt.Sprintf("%s; stream=%s chunks=%s", desc, shown, c26showChunks(chunks))
		}
	}

	// ---- oracle
	in := src
	if mode != "L" && bytes.Contains(src, []byte("\xe2\x80\xa9")) {
		tags["u2029"] = true
	}
	ref := c26lex(in)
	special := false // '~' or '#' outside literals and comments: gomacro-only syntax, use gomacro's scanner
	for p, c := range ref.rw {
		if (c == '~' || c == '#') && ref.ctx[p] == cxCode && ref.ctx[p+1] == cxCode {
			special = true
		}
	}
	toks, tokOK := c26tokens(ref.rw, special)
	if !tokOK {
		tags["scan-errors"] = true
	}
	lastTokBefore := func(p int) *c26tok {
		i := sort.Search(len(toks), func(i int) bool { return toks[i].off >= p })
		if i == 0 {
			return nil
		}
		return &toks[i-1]
	}
	off := 0     // offset in `in` where the current chunk starts
	exact := true // offsets of chunks still map 1:1 to offsets of the stream
	afterErr := false
	for ci, c := range chunks {
		if stop {
			break
		}
		end := off + len(c.src)
		if end > len(in) || !bytes.Equal([]byte(c.src), ref.rw[off:end]) {
			key := "concat-differs"
			if mode != "L" && tags["u2029"] {
				key = "concat-differs:u2029-to-newline"
			}
			viol(key, fmt.Sprintf("call %d returned bytes that are not the next bytes of the stream (with '#!' as '//') at offset %d", ci, off))
			exact = false
			break
		}
		es := c26errStr(c.err)
		switch {
		case es == "nil":
			tags["cut"] = true
			if len(c.src) == 0 {
				viol("empty-chunk", "empty chunk without EOF")
			}
			if c.first < 0 {
				tags["cut-comment-only"] = true
			}
			if afterErr {
				// after a legitimate literal error the rest of a line is gone: the offsets still
				// line up, but the reference context/depth of the stream no longer describe what the reader saw
				break
			}
			// (a) outside literals and comments
			if cx := ref.ctx[end]; cx != cxCode {
				viol("cut-inside-"+c26cxName[cx]+":"+c26prevClass(in, ref.opener[end]),
					fmt.Sprintf("chunk %d ends at offset %d inside a %s opened at offset %d", ci, end, c26cxName[cx], ref.opener[end]))
			} else if ref.depth[end] > 0 {
				// (b) balanced
				viol("cut-inside-bracket:"+c26bracketCause(in, ref, off, end),
					fmt.Sprintf("chunk %d ends at offset %d with bracket depth %d (innermost open bracket at offset %d)", ci, end, ref.depth[end], ref.bopen[end]))
			} else if tokOK && !c26everNegative(ref, end) {
				// (c) at a statement boundary: the Go lexer ended a statement (explicit or automatic ';')
				if t := lastTokBefore(end); t != nil && !t.semi {
					name := t.tok
					if t.kw {
						name = "keyword"
					}
					// "<--" is `<-` `-` for the Go lexer (maximal munch), but `<` `--` for ReadMultiline's
					// plus/minus pairing: its own, narrower key (a cut after any other '-' keeps the key ":-")
					if t.tok == "-" && t.off >= 2 && string(ref.rw[t.off-2:t.off]) == "<-" && ref.ctx[t.off-2] == cxCode {
						if pt := lastTokBefore(t.off); pt != nil && pt.tok == "<-" && pt.off == t.off-2 {
							name = "arrow-minus"
						}
					}
					viol("cut-mid-statement:"+name, fmt.Sprintf("chunk %d ends at offset %d after token %q which does not end a statement", ci, end, t.tok))
				}
			}
			// (d) real files: never strictly inside a declaration
			for _, sp := range spans {
				if sp[0] < end && end < sp[1] {
					viol("cut-inside-decl", fmt.Sprintf("chunk %d ends at offset %d inside the declaration at [%d,%d)", ci, end, sp[0], sp[1]))
				}
			}
			// firstToken: everything before it is blank or comment, and it is a token start
			if c.first < 0 {
				// reported as comments only: then no byte of the chunk may be a token
				for q := off; q < end; q++ {
					if in[q] > ' ' && ref.ctx[q] == cxCode && ref.ctx[q+1] != cxLineComment && ref.ctx[q+1] != cxBlockComment {
						viol("first-token-missed", fmt.Sprintf("chunk %d: firstToken=-1 but offset %d is a token", ci, q))
						break
					}
				}
			}
			if c.first >= 0 {
				p := off + c.first
				okFirst := p < end && ref.ctx[p] == cxCode && in[p] > ' ' && (ref.ctx[p+1] == cxCode || ref.ctx[p+1] == cxString || ref.ctx[p+1] == cxRawString || ref.ctx[p+1] == cxRune)
				for q := off; okFirst && q < p; q++ {
					if !(in[q] <= ' ' || ref.ctx[q] == cxLineComment || ref.ctx[q] == cxBlockComment || ref.ctx[q+1] == cxLineComment || ref.ctx[q+1] == cxBlockComment) {
						okFirst = false
					}
				}
				if !okFirst {
					viol("first-token-wrong", fmt.Sprintf("chunk %d: firstToken=%d is not the first non-comment token", ci, c.first))
				}
			}
		case es == "EOF" || es == "UEOF":
			tags["eof"] = true
			if es == "UEOF" {
				tags["eof-unexpected"] = true
			}
		case strings.HasPrefix(es, "Eio"):
			// the line source (BufReadline over an in-memory reader) must not fail: the chunk was cut
			// wherever the failure happened
			tags["err-line-source"] = true
			where := "code"
			if end <= len(in) {
				where = c26cxName[ref.ctx[end]]
				if where == "code" && ref.depth[end] > 0 {
					where = "bracket"
				}
			}
			viol("line-source-error:"+where, fmt.Sprintf("call %d: the line source failed with %q after %d bytes of the stream; the chunk ends inside %s", ci, c.err.Error(), end, where))
		default:
			tags["err-literal"] = true
			// legitimate only if the reference sees a newline inside an interpreted literal there
			if !ref.bad[end] {
				cx := "rune"
				if es == "Estring" {
					cx = "string"
				}
				cause := "other"
				if ref.ctx[end] == cxString || ref.ctx[end] == cxRune {
					cause = "control-char"
				} else {
					// the reference is outside a literal: which quote did the reader miss?
					q := byte('\'')
					if cx == "string" {
						q = '"'
					}
					for p := off; p < end; p++ {
						if in[p] == q && ref.ctx[p] == cxCode {
							if c := c26prevClass(in, p); c != "other" && c != "start" {
								cause = c
								break
							}
						}
					}
				}
				viol("error-on-valid-input:"+cx+":"+cause, fmt.Sprintf("call %d: %v at offset %d, but the reference lexer sees no newline inside a %s literal there", ci, c.err, end, cx))
				exact = false
			} else {
				afterErr = true
				tags["err-legit"] = true
				// the rest of the line is dropped by ReadMultiline (documented in the model)
				nl := bytes.IndexByte(in[end:], '\n')
				if nl < 0 {
					end = len(in)
				} else {
					end += nl + 1
				}
			}
		}
		if !exact {
			break
		}
		off = end
	}
	if exact && off != len(in) && !stop {
		viol("concat-lost-bytes", fmt.Sprintf("the calls returned %d bytes of a stream of %d", off, len(in)))
	}
	if len(chunks) > 2 {
		tags["multi-chunk"] = true
	}
	for _, c := range chunks {
		if strings.Count(c.src, "\n") > 1 && c.err == nil {
			tags["multi-line-chunk"] = true
		}
	}
	if !bytes.Equal(ref.rw, in) {
		tags["hashbang"] = true
	}
	for t := range tags {
		res.Tags = append(res.Tags, t)
	}
	sort.Strings(res.Tags)
	res.Nontrivial = tags["multi-line-chunk"] || tags["multi-chunk"] || tags["err-literal"]
	return res
}

var c26keyCount = map[string]int{}

func c26showChunks(cs []c26chunk) string {
	var l []string
	for _, c := range cs {
		t := fmt.Sprintf("%q", c.src)
		if len(c.src) > 120 {
			t = fmt.Sprintf("%q...(%d bytes)...%q", c.src[:40], len(c.src), c.src[len(c.src)-40:])
		}
		l = append(l, fmt.Sprintf("(%s,%d,%s)", t, c.first, c26errStr(c.err)))
	}
	s := strings.Join(l, " ")
	if len(s) > 600 {
		s = s[:600] + "..."
	}
	return s
}

// ---------------------------------------------------------------- generator

// line templates (without the line terminator)
var c26core = []string{
	"x := 1", "f(x)", "x++", "x--", "y = x +", "y = x -", "y = x /", "y = x *", "a = b &&", "f(a,", "g(", "2)", "}", "if x {",
	"} else {", "s := \"a\\\"b\" // c", "s := `raw", "end`", "r := '\\''", "q := a/'x'", "y = a/(", "// comment", "/* block", "*/ z()",
	"go", "return", "", "x /= 2", "y /=", "ch <-", "#!/bin/gomacro",
}
var c26more = []string{
	"y = x %", "a = b ||", "a = b &^", "c = x ==", "x :=", "y +=", "y -=", "i = j <<", "i >>=", "x, y = y,", "[]int{", "func f() {",
	"t := \"tab\tin\"", "u := '\t'", "v := a/\"s\"", "w := a/`r", "z := a / b", "x /* c */", "/* c */ x = 3", "d */ +", "a = b /* c */ /",
	"a = b //", "defer", "var", "else", "type T struct", "x_type := 1", "x = p.", ".m()", "+ 1", "-1", "<-ch", "   ", "\t",
	"~'x", "~\"y", "~,z", "q := ~`{a}", "T#[int]{}", "type S interface { ~[]byte }", "~[]byte |", "func g[S ~[]E, E any](s S) {",
	"\"unterminated", "'u", "s = \"esc\\", "*p = 1", "&v", "!ok", "^x", "case 1:", "L:", "x = y#!z", "y = x+", "y = x-", "z = x+-", "i++ // inc", "i-- /* dec */",
	"import", "for", "x = 'a' +", "f(`a", "b`)", "x = y /", "/ 2", ")", "m[k] =", "y = a/[]int{1}[0]", "/* a */ // b", "2) +", "b) &&", "4] -", "}) ,", "1) /", "go // run", "/** doc **/", "/***/ w := 1", "a = \"/*\"", "b = '\"'", "c = \"//\" +",
}

func c26hexOp(opts int, mode string, src []byte, spans string) string {
	s := fmt.Sprintf("rd %d %s %s", opts, mode, hex.EncodeToString(src))
	if len(src) == 0 {
		s = fmt.Sprintf("rd %d %s %s", opts, mode, "")
	}
	if spans != "" {
		s += " " + spans
	}
	return s
}

func c26join(lines []string, term string, finalNL bool) []byte {
	var b []byte
	for i, l := range lines {
		b = append(b, l...)
		if i < len(lines)-1 || finalNL {
			b = append(b, term...)
		}
	}
	return b
}

func c26gen(r *rand.Rand, tier string, emit func(string)) {
	all := append(append([]string{}, c26core...), c26more...)
	modes := []string{"L", "B"}
	// delivery of the template sequences: own Readline, and the real BufReadline over bufio readers whose
	// buffer is smaller than most lines (16, 64), default-sized, and fed by short-read readers
	seqModes := []string{"L", "B", "B16", "L", "B", "O", "L", "B64", "H", "L", "B", "D"}
	k := 0
	seq := func(ls []string) {
		// opts and delivery alternate deterministically; a share without the final newline / with CRLF
		k++
		opts := []int{0, 2, 0, 2, 1, 3}[k%6]
		term, final := "\n", true
		switch k % 11 {
		case 3:
			final = false
		case 7:
			term = "\r\n"
		}
		b := c26join(ls, term, final)
		if len(b) == 0 {
			return
		}
		emit(c26hexOp(opts, seqModes[(k/2)%len(seqModes)], b, ""))
	}
	// (1) bounded-exhaustive: every sequence of <=2 lines over all templates, both option sets
	for _, a := range all {
		seq([]string{a})
		seq([]string{a})
	}
	for _, a := range all {
		for _, b := range all {
			seq([]string{a, b})
		}
	}
	// every triple over the core set (quick) / over all templates (thorough); quadruples over the core (thorough)
	set3 := c26core
	if tier == "thorough" {
		set3 = all
	}
	for _, a := range set3 {
		for _, b := range set3 {
			for _, c := range set3 {
				seq([]string{a, b, c})
			}
		}
	}
	if tier == "thorough" {
		for _, a := range c26core {
			for _, b := range c26core {
				for _, c := range c26core {
					for _, d := range c26core {
						seq([]string{a, b, c, d})
					}
				}
			}
		}
	}
	// (2) random longer sequences over all templates
	nr := 6000
	if tier == "thorough" {
		nr = 150000
	}
	for i := 0; i < nr; i++ {
		n := 3 + r.Intn(4)
		ls := make([]string, n)
		for j := range ls {
			ls[j] = all[r.Intn(len(all))]
		}
		seq(ls)
	}
	// (3) malformed stream: random bytes from a small alphabet of significant characters
	alpha := []byte("a1 \t\n\n\"'`/*#!~+-(){}[],=\\.<")
	nm := 3000
	if tier == "thorough" {
		nm = 60000
	}
	for i := 0; i < nm; i++ {
		n := 1 + r.Intn(14)
		b := make([]byte, n)
		for j := range b {
			b[j] = alpha[r.Intn(len(alpha))]
		}
		emit(c26hexOp([]int{0, 2}[i%2], modes[(i/2)%2], b, ""))
	}
	// (4) real files split at top-level boundaries
	c26genFiles(r, tier, emit)
	// (5) the real line source with lines around and beyond the bufio buffer sizes
	c26genLong(r, tier, emit)
	// the documented paragraph-separator rewrite of BufReadline (U+2029 -> newline) is observable only in mode B
	emit(c26hexOp(0, "B", []byte("// a\u2029b\nx := 1\n"), ""))
}

// one long line of exactly n bytes (terminator included), as a run-length coded op segment list;
// shapes: long string literal, raw string, line comment, block comment, one-line table, long expression
func c26longLine(shape, n int, term string) string {
	hx := func(s string) string { return hex.EncodeToString([]byte(s)) }
	var head, unit, tail string
	switch shape {
	case 0:
		head, unit, tail = `s = "`, "a", `"`
	case 1:
		head, unit, tail = "s = `", "r", "`"
	case 2:
		head, unit, tail = "x = 1 // ", "c", ""
	case 3:
		head, unit, tail = "/* ", "*", " */ y = 2"
	case 4:
		head, unit, tail = "t = []int{", "1, ", "2}"
	case 5:
		head, unit, tail = "z = a", " + a", ""
	case 6:
		head, unit, tail = `u = "`, "\x00\\\\", "\" + \"\x00\"" // NUL bytes and escapes inside a string
	default:
		head, unit, tail = "// ", "\u2028", " end" // U+2028 inside a comment
	}
	fixed := len(head) + len(tail) + len(term)
	cnt := (n - fixed) / len(unit)
	if cnt < 0 {
		cnt = 0
	}
	pad := n - fixed - cnt*len(unit)
	segs := []string{hx(head), fmt.Sprintf("%s*%d", hx(unit), cnt)}
	if pad > 0 && shape != 0 && shape != 1 && shape != 6 {
		segs = append(segs, fmt.Sprintf("20*%d", pad)) // blanks keep the exact length
		pad = 0
	}
	if pad > 0 {
		segs = append(segs, fmt.Sprintf("62*%d", pad)) // 'b' inside the literal
	}
	segs = append(segs, hx(tail+term))
	return strings.Join(segs, ".")
}

func c26genLong(r *rand.Rand, tier string, emit func(string)) {
	hx := func(s string) string { return hex.EncodeToString([]byte(s)) }
	k := 0
	one := func(shape, n int, term string, mode string, final bool) {
		k++
		before := []string{"", "x := 1\n", "f(\n", "// c\n"}[k%4]
		after := []string{"y := 2\n", "g()", ")\n", ""}[k%4]
		if !final {
			after = ""
			term = ""
		}
		segs := []string{}
		if before != "" {
			segs = append(segs, hx(before))
		}
		segs = append(segs, c26longLine(shape, n, term))
		if after != "" {
			segs = append(segs, hx(after))
		}
		emit(fmt.Sprintf("rd %d %s %s", []int{0, 2}[k%2], mode, strings.Join(segs, ".")))
	}
	near := []int{4095, 4096, 4097}
	for _, n := range near {
		for shape := 0; shape < 8; shape++ {
			for _, mode := range []string{"B", "O", "H", "D"} {
				one(shape, n, "\n", mode, true)
			}
			one(shape, n, "\r\n", "B", true)
			one(shape, n, "", "B", false) // the long line is the last one and has no newline
		}
	}
	for shape := 0; shape < 8; shape++ {
		for _, n := range []int{8191, 8192, 8193} {
			one(shape, n, "\n", []string{"B", "H"}[shape%2], true)
		}
		one(shape, 15+shape, "\n", "B16", true)
		one(shape, 130, "\n", "B64", true)
	}
	big := []int{70000}
	if tier == "thorough" {
		big = []int{12288, 65536, 65537, 70000, 300000}
	}
	for _, n := range big {
		for shape := 0; shape < 8; shape++ {
			if tier != "thorough" && shape != 0 && shape != 4 && shape != 2 {
				continue
			}
			one(shape, n, "\n", "B", true)
		}
	}
	// several long lines in one stream, random lengths around the buffer size
	nm := 40
	if tier == "thorough" {
		nm = 600
	}
	for i := 0; i < nm; i++ {
		var segs []string
		for j := 0; j < 2+r.Intn(3); j++ {
			n := 4096 + r.Intn(9) - 4
			if r.Intn(3) == 0 {
				n = 20 + r.Intn(200)
			}
			segs = append(segs, c26longLine(r.Intn(8), n, []string{"\n", "\n", "\r\n"}[r.Intn(3)]))
		}
		emit(fmt.Sprintf("rd %d %s %s", []int{0, 2}[i%2], []string{"B", "O", "H", "D", "B64"}[i%5], strings.Join(segs, ".")))
	}
}

func c26goFiles(root string, skipTestdata bool) []string {
	var out []string
	filepath.Walk(root, func(p string, info os.FileInfo, err error) error {
		if err != nil {
			return nil
		}
		if info.IsDir() {
			b := filepath.Base(p)
			if (skipTestdata && b == "testdata") || b == "vendor" || strings.HasPrefix(b, ".") && p != root {
				return filepath.SkipDir
			}
			return nil
		}
		if strings.HasSuffix(p, ".go") && info.Size() < 400_000 {
			out = append(out, p)
		}
		return nil
	})
	sort.Strings(out)
	return out
}

// windows of w consecutive top-level declarations, from the start of the line of the first one
// to the start of the line of the declaration after the last one
func c26genFiles(r *rand.Rand, tier string, emit func(string)) {
	goroot := runtime.GOROOT()
	files := c26goFiles(filepath.Join(goroot, "src"), true)
	files = append(files, c26goFiles(repoDir(), true)...)
	budget := 1_200_000 // bytes
	if tier == "thorough" {
		budget = 40_000_000
	}
	perm := r.Perm(len(files))
	k := 0
	for _, fi := range perm {
		if budget <= 0 {
			break
		}
		src, err := os.ReadFile(files[fi])
		if err != nil || len(src) == 0 {
			continue
		}
		fset := gotoken.NewFileSet()
		af, err := goparser.ParseFile(fset, files[fi], src, goparser.ParseComments|goparser.SkipObjectResolution)
		if err != nil {
			continue
		}
		tf := fset.File(af.Pos())
		type ext struct{ lineStart, pos, end int }
		var ds []ext
		lineStartOf := func(off int) int {
			for off > 0 && src[off-1] != '\n' {
				off--
			}
			return off
		}
		// the package clause counts as the first declaration
		ds = append(ds, ext{0, tf.Offset(af.Package), tf.Offset(af.Name.End())})
		for _, d := range af.Decls {
			p := d.Pos()
			switch x := d.(type) {
			case *ast.GenDecl:
				if x.Doc != nil {
					p = x.Doc.Pos()
				}
			case *ast.FuncDecl:
				if x.Doc != nil {
					p = x.Doc.Pos()
				}
			}
			ds = append(ds, ext{lineStartOf(tf.Offset(p)), tf.Offset(d.Pos()), tf.Offset(d.End())})
		}
		// skip files where two declarations share a line (the window start would cut one)
		okf := true
		for i := 1; i < len(ds); i++ {
			if ds[i].lineStart < ds[i-1].end {
				okf = false
			}
		}
		if !okf {
			continue
		}
		i := 0
		for i < len(ds) && budget > 0 {
			w := 1 + r.Intn(4)
			j := i + w
			if j > len(ds) {
				j = len(ds)
			}
			a := ds[i].lineStart
			if i == 0 {
				a = 0
			}
			b := len(src)
			if j < len(ds) {
				b = ds[j].lineStart
			}
			if b-a <= 12000 {
				var sp []string
				for _, d := range ds[i:j] {
					sp = append(sp, fmt.Sprintf("%d-%d", d.pos-a, d.end-a))
				}
				k++
				emit(c26hexOp([]int{2, 0}[k%2], []string{"B", "L"}[(k/2)%2], src[a:b], strings.Join(sp, ",")))
				budget -= b - a
			}
			i = j
		}
	}
}

// ---------------------------------------------------------------- extractor: keyword table

// lean/Gen/ReadKeywords.lean: every word w of lower-case letters for which etoken.Lookup(w) is not one of
// IDENT, BREAK, CONTINUE, FALLTHROUGH, RETURN (the test in lastIsKeywordIgnoresNl), found by evaluating the
// real etoken.Lookup on all go/token keywords and on every string literal of go/etoken/token.go.
func c26extract(repo, genDir string) error {
	cands := map[string]bool{}
	for t := gotoken.Token(0); t < 200; t++ {
		if t.IsKeyword() {
			cands[t.String()] = true
		}
	}
	fset := gotoken.NewFileSet()
	for _, fn := range []string{"token.go", "generics.go"} {
		f, err := goparser.ParseFile(fset, filepath.Join(repo, "go/etoken", fn), nil, 0)
		if err != nil {
			return err
		}
		ast.Inspect(f, func(n ast.Node) bool {
			if bl, ok := n.(*ast.BasicLit); ok && bl.Kind == gotoken.STRING {
				if s, err := strconv.Unquote(bl.Value); err == nil {
					cands[strings.TrimPrefix(s, "~")] = true
					cands[s] = true
				}
			}
			return true
		})
	}
	var words []string
	for w := range cands {
		lower := w != ""
		for i := 0; i < len(w); i++ {
			if w[i] < 'a' || w[i] > 'z' {
				lower = false
			}
		}
		if !lower {
			continue // lastIsKeywordIgnoresNl only ever looks up words of a-z
		}
		switch etoken.Lookup(w) {
		case gotoken.IDENT, gotoken.BREAK, gotoken.CONTINUE, gotoken.FALLTHROUGH, gotoken.RETURN:
		default:
			words = append(words, w)
		}
	}
	sort.Strings(words)
	var sb strings.Builder
	sb.WriteString("/- REGENERATED by harness/c26.go (c26extract) from go/token + /repo/go/etoken: do not edit.\n")
	sb.WriteString("   Words of a-z for which etoken.Lookup returns a token other than IDENT, BREAK, CONTINUE, FALLTHROUGH, RETURN. -/\n")
	sb.WriteString("namespace Gen.ReadKeywords\n\n")
	sb.WriteString("def continuing : List (List UInt8) := [\n")
	for i, w := range words {
		var bs []string
		for j := 0; j < len(w); j++ {
			bs = append(bs, strconv.Itoa(int(w[j])))
		}
		sep := ","
		if i == len(words)-1 {
			sep = ""
		}
		fmt.Fprintf(&sb, "  [%s]%s -- %s\n", strings.Join(bs, ", "), sep, w)
	}
	sb.WriteString("]\n\nend Gen.ReadKeywords\n")
	return os.WriteFile(filepath.Join(genDir, "ReadKeywords.lean"), []byte(sb.String()), 0o644)
}

func init() {
	extractors["C26"] = c26extract
	register(&Prop{
		ID:   "C26",
		Rule: "bounded-exhaustive: every sequence of <=2 line templates over ~100 templates and every triple over the 31 core templates (thorough: every triple over all templates, every quadruple over the core), delivered line by line (own Readline) or through the real BufReadline, with/without ReadOptCollectAllComments, a share with CRLF or without final newline; random sequences of 3-6 templates; a malformed stream of random bytes over 27 significant characters; windows of 1-4 consecutive top-level declarations of files of GOROOT/src and of the gomacro checkout. Non-trivial: more than one chunk, a chunk of several lines, or a literal error.",
		Gen:  c26gen,
		Exec: c26exec,
		Exhaustive: func(tier string) bool { return true },
	})
}
