package main

// extractors["C34"]: regenerates
//
//	lean/Gen/CtiBasic.lean  every (kind, method) arm of xreflect/cti_basic_method.go addBasicTypeMethodsCTI as a
//	                        ClosureIR Entry (path = the enclosing switch/case/for skeleton, binds = the parameters
//	                        of the func literal as `.decl "<type>"` in order, ret, body), plus the source text of
//	                        every other statement (frame) and of the dispatch in cti_method.go
//	lean/Gen/CtiSigs.lean   the signature table of go/types/cti_method.go (makeBasicMethods, makeArrayMethods,
//	                        makeChanMethods, makeMapMethods, makeSliceMethods) by symbolic evaluation of the
//	                        newVar/NewTuple/NewSignature/newFunc calls under their enclosing conditions, the
//	                        `Typ` table of go/types/universe.go and the BasicInfo flag definitions of type.go;
//	                        and the per-method-name implementation switch of xreflect/cti_method.go
//	                        addTypeMethodsCTI + the bodies of the ctiXxx helpers (source text per case).
//
// Nothing is evaluated: syntax that the translator does not know becomes `.opaque`/`.unknown`/an
// "UNEXPECTED" frame line, which no expected table contains.

import (
	"bytes"
	"fmt"
	"go/ast"
	"go/parser"
	"go/token"
	"os"
	"path/filepath"
	"strconv"
	"strings"
)

// ---------- part 1: xreflect/cti_basic_method.go ----------

// c34expr: the shared translator + `a[b:c]` (encoded as call2 "slice" (index a b) c: E has no ternary node)
func (x *closureExtractor) c34expr(e ast.Expr) string {
	if se, ok := e.(*ast.SliceExpr); ok && !se.Slice3 && se.Low != nil && se.High != nil {
		return "(.call2 \"slice\" (.index " + x.expr(se.X) + " " + x.expr(se.Low) + ") " + x.expr(se.High) + ")"
	}
	return x.expr(e)
}

// intConst recognises the untyped integer constants n and -n
func intConst(e ast.Expr) (int64, bool) {
	switch e := e.(type) {
	case *ast.BasicLit:
		if e.Kind == token.INT {
			n, err := strconv.ParseInt(e.Value, 0, 64)
			return n, err == nil
		}
	case *ast.UnaryExpr:
		if e.Op == token.SUB {
			if n, ok := intConst(e.X); ok {
				return -n, true
			}
		}
	case *ast.ParenExpr:
		return intConst(e.X)
	}
	return 0, false
}

// c34stmt: `return <untyped integer constant>` in a function whose result type is the basic kind T is
// elaborated to `return T(c)` (the implicit conversion of the Go specification made explicit)
func (x *closureExtractor) c34stmt(s ast.Stmt, retKind string) string {
	switch s := s.(type) {
	case *ast.ReturnStmt:
		if len(s.Results) == 1 {
			if n, ok := intConst(s.Results[0]); ok && retKind != "" {
				return fmt.Sprintf("(.ret (.conv .%s (.int (%d))))", retKind, n)
			}
			return "(.ret " + x.c34expr(s.Results[0]) + ")"
		}
	case *ast.IfStmt:
		if s.Init == nil && s.Else == nil && len(s.Body.List) == 1 {
			return "(.ifThen " + x.c34expr(s.Cond) + " " + x.c34stmt(s.Body.List[0], retKind) + ")"
		}
	}
	return x.stmt(s)
}

func nonEmpty(list []ast.Stmt) []ast.Stmt {
	var out []ast.Stmt
	for _, s := range list {
		if _, ok := s.(*ast.EmptyStmt); !ok {
			out = append(out, s)
		}
	}
	return out
}

func (x *closureExtractor) c34arm(path []string, lit *ast.FuncLit) {
	e := irEntry{fn: x.fn, path: append([]string(nil), path...)}
	retKind := ""
	res := lit.Type.Results
	if res != nil && len(res.List) == 1 && len(res.List[0].Names) == 0 {
		e.ret = x.retType(res.List[0].Type)
		if id, ok := res.List[0].Type.(*ast.Ident); ok {
			retKind = basicKindNames[id.Name]
		}
	} else {
		e.ret = "(.other " + leanStr("results:"+x.src(lit.Type)) + ")"
	}
	if lit.Type.Params != nil {
		for _, f := range lit.Type.Params.List {
			t := x.src(f.Type)
			if len(f.Names) == 0 {
				e.binds = append(e.binds, irBind{name: "_", lean: "(.decl " + leanStr(t) + ")"})
			}
			for _, n := range f.Names {
				e.binds = append(e.binds, irBind{name: n.Name, lean: "(.decl " + leanStr(t) + ")"})
			}
		}
	}
	for _, s := range nonEmpty(lit.Body.List) {
		e.body = append(e.body, x.c34stmt(s, retKind))
	}
	x.entries = append(x.entries, e)
}

// c34basic walks addBasicTypeMethodsCTI: switch xt.kind { case K: for ... { switch name { case "M": (*mvec)[i] = r.ValueOf(func..) } } }
func (x *closureExtractor) c34basic(fd *ast.FuncDecl) (frame []string) {
	unexpected := func(n ast.Node) { frame = append(frame, "UNEXPECTED: "+x.src(n)) }
	for _, s := range nonEmpty(fd.Body.List) {
		sw, ok := s.(*ast.SwitchStmt)
		if !ok || sw.Init != nil || sw.Tag == nil {
			frame = append(frame, x.src(s))
			continue
		}
		p0 := "switch " + x.src(sw.Tag)
		frame = append(frame, p0)
		for _, cl := range sw.Body.List {
			cc := cl.(*ast.CaseClause)
			var ls []string
			for _, e := range cc.List {
				ls = append(ls, x.src(e))
			}
			p1 := "case " + strings.Join(ls, ", ")
			if cc.List == nil {
				p1 = "default"
			}
			body := nonEmpty(cc.Body)
			if len(body) != 1 {
				unexpected(cc)
				continue
			}
			fs, ok := body[0].(*ast.ForStmt)
			if !ok || fs.Init == nil || fs.Cond == nil || fs.Post == nil {
				unexpected(cc)
				continue
			}
			p2 := "for " + x.src(fs.Init) + "; " + x.src(fs.Cond) + "; " + x.src(fs.Post)
			fb := nonEmpty(fs.Body.List)
			if len(fb) != 1 {
				unexpected(fs)
				continue
			}
			sw2, ok := fb[0].(*ast.SwitchStmt)
			if !ok || sw2.Init != nil || sw2.Tag == nil {
				unexpected(fs)
				continue
			}
			p3 := "switch " + x.src(sw2.Tag)
			for _, cl2 := range sw2.Body.List {
				c2 := cl2.(*ast.CaseClause)
				var l2 []string
				for _, e := range c2.List {
					l2 = append(l2, x.src(e))
				}
				p4 := "case " + strings.Join(l2, ", ")
				if c2.List == nil {
					p4 = "default"
				}
				b2 := nonEmpty(c2.Body)
				var lit *ast.FuncLit
				p5 := ""
				if len(b2) == 1 {
					if as, ok := b2[0].(*ast.AssignStmt); ok && as.Tok == token.ASSIGN && len(as.Lhs) == 1 && len(as.Rhs) == 1 {
						if call, ok := as.Rhs[0].(*ast.CallExpr); ok && len(call.Args) == 1 {
							if l, ok := call.Args[0].(*ast.FuncLit); ok {
								lit = l
								p5 = x.src(as.Lhs[0]) + " = " + x.src(call.Fun)
							}
						}
					}
				}
				if lit == nil {
					frame = append(frame, "UNEXPECTED: "+p1+": "+p4+": "+x.src(c2))
					continue
				}
				x.c34arm([]string{p0, p1, p2, p3, p4, p5}, lit)
			}
		}
	}
	return frame
}

func c34findFunc(f *ast.File, name string) *ast.FuncDecl {
	for _, d := range f.Decls {
		if fd, ok := d.(*ast.FuncDecl); ok && fd.Name.Name == name && fd.Body != nil {
			return fd
		}
	}
	return nil
}

func c34extractBasic(repo, genDir string) error {
	file := filepath.Join(repo, "xreflect", "cti_basic_method.go")
	fset := token.NewFileSet()
	f, err := parser.ParseFile(fset, file, nil, 0)
	if err != nil {
		return err
	}
	fd := c34findFunc(f, "addBasicTypeMethodsCTI")
	if fd == nil {
		return fmt.Errorf("%s: addBasicTypeMethodsCTI not found", file)
	}
	x := &closureExtractor{fset: fset, fn: "addBasicTypeMethodsCTI"}
	frame := x.c34basic(fd)
	// one table per kind (keeps each kernel obligation small)
	defs := []genDef{{name: "frame", strs: frame, kind: 2}}
	byCase := map[string][]irEntry{}
	var order []string
	for _, e := range x.entries {
		c := e.path[1]
		if _, ok := byCase[c]; !ok {
			order = append(order, c)
		}
		byCase[c] = append(byCase[c], e)
	}
	var cases []string
	for _, c := range order {
		id := "arms_" + strings.ToLower(strings.NewReplacer("case r.", "", ", r.", "_", " ", "").Replace(c))
		cases = append(cases, c)
		defs = append(defs, genDef{name: id, entries: byCase[c], kind: 0})
	}
	defs = append(defs, genDef{name: "cases", strs: cases, kind: 2})
	// the other function of the file and the dispatch in cti_method.go, as source text
	src1, err := funcSource(file, "addBasicTypesMethodsCTI")
	if err != nil {
		return err
	}
	defs = append(defs, genDef{name: "addBasicTypesSrc", strs: src1, kind: 2})
	return writeGenFile(genDir, "CtiBasic", "xreflect/cti_basic_method.go", defs)
}

// ---------- part 2: go/types/cti_method.go (signature table) ----------

type c34sym struct {
	ty    string   // Lean CtiSig.Ty term, when the name denotes a type / a variable of that type
	tuple []string // when the name denotes a tuple
	isTup bool
	sig   string // Lean CtiSig.Sig term, when the name denotes a signature
}

type c34rule struct {
	conds []string // Lean Cond terms
	name  string
	sig   string
}

type c34sigx struct {
	x     *closureExtractor
	env   map[string]c34sym
	rules []c34rule
	frame []string
}

func (s *c34sigx) ty(e ast.Expr) string {
	src := s.x.src(e)
	switch e := e.(type) {
	case *ast.Ident:
		if e.Name == "t" {
			return ".self"
		}
		if v, ok := s.env[e.Name]; ok && v.ty != "" {
			return v.ty
		}
	case *ast.IndexExpr:
		if id, ok := e.X.(*ast.Ident); ok && id.Name == "Typ" {
			if k, ok := e.Index.(*ast.Ident); ok {
				return "(.basic " + leanStr(k.Name) + ")"
			}
		}
	case *ast.SelectorExpr:
		switch src {
		case "underlying.elem":
			return ".elem"
		case "underlying.key":
			return ".key"
		}
	case *ast.CallExpr:
		if id, ok := e.Fun.(*ast.Ident); ok && len(e.Args) == 1 {
			switch id.Name {
			case "newVar":
				return s.ty(e.Args[0])
			case "NewPointer":
				return "(.ptr " + s.ty(e.Args[0]) + ")"
			case "NewSlice":
				return "(.slice " + s.ty(e.Args[0]) + ")"
			}
		}
	}
	return "(.unknown " + leanStr(src) + ")"
}

func (s *c34sigx) tuple(e ast.Expr) []string {
	switch e := e.(type) {
	case *ast.Ident:
		if e.Name == "nil" {
			return []string{}
		}
		if v, ok := s.env[e.Name]; ok && v.isTup {
			return v.tuple
		}
	case *ast.CallExpr:
		if id, ok := e.Fun.(*ast.Ident); ok && id.Name == "NewTuple" {
			out := []string{}
			for _, a := range e.Args {
				out = append(out, s.ty(a))
			}
			return out
		}
	}
	return []string{"(.unknown " + leanStr(s.x.src(e)) + ")"}
}

func (s *c34sigx) sig(e ast.Expr) string {
	switch e := e.(type) {
	case *ast.Ident:
		if v, ok := s.env[e.Name]; ok && v.sig != "" {
			return v.sig
		}
	case *ast.CallExpr:
		if id, ok := e.Fun.(*ast.Ident); ok && id.Name == "NewSignature" && len(e.Args) == 4 {
			variadic := s.x.src(e.Args[3])
			if variadic != "true" && variadic != "false" {
				break
			}
			return fmt.Sprintf("{ recv := %s, params := [%s], results := [%s], variadic := %s }",
				s.ty(e.Args[0]), strings.Join(s.tuple(e.Args[1]), ", "), strings.Join(s.tuple(e.Args[2]), ", "), variadic)
		}
	}
	return fmt.Sprintf("{ recv := (.unknown %s), params := [], results := [], variadic := false }", leanStr(s.x.src(e)))
}

// cond renders a condition: `info&IsX != 0` -> flag, anything else by its source text
func (s *c34sigx) cond(e ast.Expr, pos bool) string {
	p := "false"
	if pos {
		p = "true"
	}
	if b, ok := e.(*ast.BinaryExpr); ok && b.Op == token.NEQ && s.x.src(b.Y) == "0" {
		if a, ok := b.X.(*ast.BinaryExpr); ok && a.Op == token.AND && s.x.src(a.X) == "info" {
			if id, ok := a.Y.(*ast.Ident); ok {
				return "(.flag " + leanStr(id.Name) + " " + p + ")"
			}
		}
	}
	return "(.other " + leanStr(s.x.src(e)) + " " + p + ")"
}

// funcs adds one rule per newFunc("Name", sig) of the list
func (s *c34sigx) funcs(conds []string, list []ast.Expr) {
	for _, e := range list {
		if call, ok := e.(*ast.CallExpr); ok && len(call.Args) == 2 {
			if id, ok := call.Fun.(*ast.Ident); ok && id.Name == "newFunc" {
				if lit, ok := call.Args[0].(*ast.BasicLit); ok && lit.Kind == token.STRING {
					name, _ := strconv.Unquote(lit.Value)
					s.rules = append(s.rules, c34rule{conds: append([]string(nil), conds...), name: name, sig: s.sig(call.Args[1])})
					continue
				}
			}
		}
		s.frame = append(s.frame, "UNEXPECTED: "+s.x.src(e))
	}
}

func (s *c34sigx) define(name string, rhs ast.Expr) bool {
	if call, ok := rhs.(*ast.CallExpr); ok {
		if id, ok := call.Fun.(*ast.Ident); ok {
			switch id.Name {
			case "newVar", "NewPointer", "NewSlice":
				s.env[name] = c34sym{ty: s.ty(rhs)}
				return true
			case "NewTuple":
				s.env[name] = c34sym{tuple: s.tuple(rhs), isTup: true}
				return true
			case "NewSignature":
				s.env[name] = c34sym{sig: s.sig(rhs)}
				return true
			}
		}
	}
	switch s.x.src(rhs) {
	case "underlying.elem":
		s.env[name] = c34sym{ty: ".elem"}
		return true
	case "underlying.key":
		s.env[name] = c34sym{ty: ".key"}
		return true
	}
	if id, ok := rhs.(*ast.Ident); ok {
		if v, ok := s.env[id.Name]; ok {
			s.env[name] = v
			return true
		}
	}
	if ix, ok := rhs.(*ast.IndexExpr); ok {
		if id, ok := ix.X.(*ast.Ident); ok && id.Name == "Typ" {
			s.env[name] = c34sym{ty: s.ty(rhs)}
			return true
		}
	}
	return false
}

// onlyAssign: the block consists of exactly one `name = expr`
func onlyAssign(b *ast.BlockStmt) (string, ast.Expr, bool) {
	l := nonEmpty(b.List)
	if len(l) != 1 {
		return "", nil, false
	}
	as, ok := l[0].(*ast.AssignStmt)
	if !ok || as.Tok != token.ASSIGN || len(as.Lhs) != 1 || len(as.Rhs) != 1 {
		return "", nil, false
	}
	id, ok := as.Lhs[0].(*ast.Ident)
	if !ok || id.Name == "methods" {
		return "", nil, false
	}
	return id.Name, as.Rhs[0], true
}

func (s *c34sigx) condTy(cond string, a, b c34sym) (c34sym, bool) {
	if a.ty != "" && b.ty != "" {
		return c34sym{ty: "(.ite " + leanStr(cond) + " " + a.ty + " " + b.ty + ")"}, true
	}
	if a.isTup && b.isTup && len(a.tuple) == len(b.tuple) {
		out := c34sym{isTup: true, tuple: []string{}}
		for i := range a.tuple {
			out.tuple = append(out.tuple, "(.ite "+leanStr(cond)+" "+a.tuple[i]+" "+b.tuple[i]+")")
		}
		return out, true
	}
	return c34sym{}, false
}

func (s *c34sigx) block(conds []string, list []ast.Stmt) {
	conds = append([]string(nil), conds...)
	for _, st := range nonEmpty(list) {
		switch st := st.(type) {
		case *ast.AssignStmt:
			if len(st.Lhs) == 1 && len(st.Rhs) == 1 {
				if id, ok := st.Lhs[0].(*ast.Ident); ok {
					if id.Name == "methods" && st.Tok == token.ASSIGN {
						// methods = append(methods, newFunc..., ...) / methods = []*Func{...}
						if call, ok := st.Rhs[0].(*ast.CallExpr); ok && s.x.src(call.Fun) == "append" && len(call.Args) >= 1 && s.x.src(call.Args[0]) == "methods" {
							s.funcs(conds, call.Args[1:])
							continue
						}
						if cl, ok := st.Rhs[0].(*ast.CompositeLit); ok && s.x.src(cl.Type) == "[]*Func" {
							s.funcs(conds, cl.Elts)
							continue
						}
					} else if st.Tok == token.DEFINE && s.define(id.Name, st.Rhs[0]) {
						continue
					}
				}
			}
			s.frame = append(s.frame, s.x.src(st))
		case *ast.ReturnStmt:
			if len(st.Results) == 1 {
				if cl, ok := st.Results[0].(*ast.CompositeLit); ok && s.x.src(cl.Type) == "[]*Func" {
					s.funcs(conds, cl.Elts)
					continue
				}
			}
			s.frame = append(s.frame, s.x.src(st))
		case *ast.IfStmt:
			if st.Init != nil {
				// `if _, ok := t.(*Slice); !ok { name = expr }`
				if st.Else == nil {
					if n, rhs, ok := onlyAssign(st.Body); ok {
						old := s.env[n]
						if s.define(n, rhs) {
							if v, ok := s.condTy(s.x.src(st.Init)+"; "+s.x.src(st.Cond), s.env[n], old); ok {
								s.env[n] = v
								continue
							}
						}
					}
				}
				s.frame = append(s.frame, "UNEXPECTED: "+s.x.src(st))
				continue
			}
			// conditional definition: if C { n = A } else { n = B }
			if eb, ok := st.Else.(*ast.BlockStmt); ok {
				n1, r1, ok1 := onlyAssign(st.Body)
				n2, r2, ok2 := onlyAssign(eb)
				if ok1 && ok2 && n1 == n2 {
					var a, b c34sym
					if s.define(n1, r1) {
						a = s.env[n1]
					}
					if s.define(n1, r2) {
						b = s.env[n1]
					}
					if v, ok := s.condTy(s.x.src(st.Cond), a, b); ok {
						s.env[n1] = v
						continue
					}
					s.frame = append(s.frame, "UNEXPECTED: "+s.x.src(st))
					continue
				}
			}
			s.ifChain(conds, st)
			if st.Else == nil && s.x.terminates(st.Body.List) {
				conds = append(conds, s.cond(st.Cond, false))
			}
		case *ast.DeclStmt:
			s.frame = append(s.frame, s.x.src(st))
		default:
			s.frame = append(s.frame, s.x.src(st))
		}
	}
}

func (s *c34sigx) ifChain(conds []string, st *ast.IfStmt) {
	s.block(append(append([]string(nil), conds...), s.cond(st.Cond, true)), st.Body.List)
	neg := append(append([]string(nil), conds...), s.cond(st.Cond, false))
	switch e := st.Else.(type) {
	case *ast.BlockStmt:
		s.block(neg, e.List)
	case *ast.IfStmt:
		if e.Init != nil {
			s.frame = append(s.frame, "UNEXPECTED: "+s.x.src(e))
			return
		}
		s.ifChain(neg, e)
	}
}

func c34leanRules(rules []c34rule) string {
	var items []string
	for _, r := range rules {
		items = append(items, fmt.Sprintf("{ conds := [%s], name := %s,\n      sig := %s }", strings.Join(r.conds, ", "), leanStr(r.name), r.sig))
	}
	return leanList(items, "   ")
}

func c34leanStrs(ss []string) string {
	var items []string
	for _, s := range ss {
		items = append(items, leanStr(s))
	}
	return leanList(items, "   ")
}

// flags of a BasicInfo expression `A | B | 0`
func c34flags(x *closureExtractor, e ast.Expr) []string {
	switch e := e.(type) {
	case *ast.BinaryExpr:
		if e.Op == token.OR {
			return append(c34flags(x, e.X), c34flags(x, e.Y)...)
		}
	case *ast.Ident:
		return []string{e.Name}
	case *ast.BasicLit:
		if e.Value == "0" {
			return nil
		}
	}
	return []string{"UNEXPECTED:" + x.src(e)}
}

func c34extractSigs(repo, genDir string) error {
	var b bytes.Buffer
	fmt.Fprintf(&b, "import Model.CtiSig\n/-! REGENERATED by `harness extract` from go/types/cti_method.go, go/types/universe.go, go/types/type.go, xreflect/cti_method.go — do not edit. -/\nnamespace Gen.CtiSigs\nopen CtiSig\nset_option maxRecDepth 100000\n\n")

	file := filepath.Join(repo, "go", "types", "cti_method.go")
	fset := token.NewFileSet()
	f, err := parser.ParseFile(fset, file, nil, 0)
	if err != nil {
		return err
	}
	for _, fn := range []string{"makeBasicMethods", "makeArrayMethods", "makeChanMethods", "makeMapMethods", "makeSliceMethods"} {
		fd := c34findFunc(f, fn)
		if fd == nil {
			return fmt.Errorf("%s: %s not found", file, fn)
		}
		s := &c34sigx{x: &closureExtractor{fset: fset, fn: fn}, env: map[string]c34sym{}}
		s.block(nil, fd.Body.List)
		id := lowerFirst(strings.TrimSuffix(strings.TrimPrefix(fn, "make"), "Methods"))
		fmt.Fprintf(&b, "def %sRules : List Rule :=\n  %s\n\n", id, c34leanRules(s.rules))
		fmt.Fprintf(&b, "def %sFrame : List String :=\n  %s\n\n", id, c34leanStrs(s.frame))
	}

	// Typ table of universe.go
	ufile := filepath.Join(repo, "go", "types", "universe.go")
	uf, err := parser.ParseFile(fset, ufile, nil, 0)
	if err != nil {
		return err
	}
	x := &closureExtractor{fset: fset}
	var typ []string
	for _, d := range uf.Decls {
		gd, ok := d.(*ast.GenDecl)
		if !ok || gd.Tok != token.VAR {
			continue
		}
		for _, sp := range gd.Specs {
			vs := sp.(*ast.ValueSpec)
			if len(vs.Names) != 1 || vs.Names[0].Name != "Typ" || len(vs.Values) != 1 {
				continue
			}
			cl, ok := vs.Values[0].(*ast.CompositeLit)
			if !ok {
				continue
			}
			for _, el := range cl.Elts {
				kv, ok := el.(*ast.KeyValueExpr)
				if !ok {
					typ = append(typ, fmt.Sprintf("(%s, \"\", [])", leanStr("UNEXPECTED:"+x.src(el))))
					continue
				}
				v, ok := kv.Value.(*ast.CompositeLit)
				if !ok || len(v.Elts) != 4 {
					typ = append(typ, fmt.Sprintf("(%s, \"\", [])", leanStr("UNEXPECTED:"+x.src(el))))
					continue
				}
				name := x.src(v.Elts[2])
				if u, err := strconv.Unquote(name); err == nil {
					name = u
				}
				var fl []string
				for _, fg := range c34flags(x, v.Elts[1]) {
					fl = append(fl, leanStr(fg))
				}
				if x.src(kv.Key) != x.src(v.Elts[0]) {
					name = "UNEXPECTED:" + x.src(el)
				}
				typ = append(typ, fmt.Sprintf("(%s, %s, [%s])", leanStr(x.src(kv.Key)), leanStr(name), strings.Join(fl, ", ")))
			}
		}
	}
	fmt.Fprintf(&b, "/-- go/types.Typ: (BasicKind constant, type name, BasicInfo flags) -/\ndef typ : List (String × String × List String) :=\n  %s\n\n", leanList(typ, "   "))

	// BasicInfo flag definitions of type.go
	tfile := filepath.Join(repo, "go", "types", "type.go")
	tf, err := parser.ParseFile(fset, tfile, nil, 0)
	if err != nil {
		return err
	}
	var flagDefs []string
	for _, d := range tf.Decls {
		gd, ok := d.(*ast.GenDecl)
		if !ok || gd.Tok != token.CONST {
			continue
		}
		isInfo := false
		for _, sp := range gd.Specs {
			vs := sp.(*ast.ValueSpec)
			if len(vs.Names) == 1 && vs.Names[0].Name == "IsBoolean" {
				isInfo = true
			}
		}
		if !isInfo {
			continue
		}
		for _, sp := range gd.Specs {
			vs := sp.(*ast.ValueSpec)
			for i, n := range vs.Names {
				if len(vs.Values) > i {
					if _, isOr := vs.Values[i].(*ast.BinaryExpr); isOr && x.src(vs.Values[i]) != "1 << iota" {
						var fl []string
						for _, fg := range c34flags(x, vs.Values[i]) {
							fl = append(fl, leanStr(fg))
						}
						flagDefs = append(flagDefs, fmt.Sprintf("(%s, [%s])", leanStr(n.Name), strings.Join(fl, ", ")))
						continue
					}
				}
				// a primitive flag (1 << iota and its implicit repetitions)
				flagDefs = append(flagDefs, fmt.Sprintf("(%s, [%s])", leanStr(n.Name), leanStr(n.Name)))
			}
		}
	}
	fmt.Fprintf(&b, "/-- BasicInfo constants: name -> the primitive flags it is the union of -/\ndef flagDefs : List (String × List String) :=\n  %s\n\n", leanList(flagDefs, "   "))

	// xreflect/cti_method.go: the implementation switch of addTypeMethodsCTI (case label -> source text) and helpers
	xfile := filepath.Join(repo, "xreflect", "cti_method.go")
	xf, err := parser.ParseFile(fset, xfile, nil, 0)
	if err != nil {
		return err
	}
	fd := c34findFunc(xf, "addTypeMethodsCTI")
	if fd == nil {
		return fmt.Errorf("%s: addTypeMethodsCTI not found", xfile)
	}
	var prologue, impl, implSigs []string
	rx := &c34rx{x: x, env: map[string]c34sym{}}
	for _, st := range nonEmpty(fd.Body.List) {
		fs, ok := st.(*ast.ForStmt)
		if !ok {
			prologue = append(prologue, x.src(st))
			rx.stmts([]ast.Stmt{st})
			continue
		}
		prologue = append(prologue, "for "+x.src(fs.Init)+"; "+x.src(fs.Cond)+"; "+x.src(fs.Post))
		for _, s2 := range nonEmpty(fs.Body.List) {
			sw, ok := s2.(*ast.SwitchStmt)
			if !ok {
				prologue = append(prologue, "UNEXPECTED: "+x.src(s2))
				continue
			}
			prologue = append(prologue, "switch "+x.src(sw.Tag))
			for _, cl := range sw.Body.List {
				cc := cl.(*ast.CaseClause)
				var ls []string
				for _, e := range cc.List {
					ls = append(ls, x.src(e))
				}
				var body []string
				for _, s3 := range nonEmpty(cc.Body) {
					body = append(body, x.src(s3))
				}
				impl = append(impl, fmt.Sprintf("(%s, %s)", leanStr(strings.Join(ls, ", ")), leanStr(strings.Join(body, " ; "))))
				// the reflect signature of the case: evaluated in a copy of the prologue's environment
				cx := &c34rx{x: x, env: map[string]c34sym{}}
				for k, v := range rx.env {
					cx.env[k] = v
				}
				sig, nsig := cx.stmts(cc.Body)
				if nsig != 1 {
					sig = fmt.Sprintf("{ recv := (.unknown %s), params := [], results := [], variadic := false }", leanStr(fmt.Sprintf("%d FuncOf calls", nsig)))
				}
				name := strings.Join(ls, ", ")
				if u, err := strconv.Unquote(name); err == nil {
					name = u
				}
				implSigs = append(implSigs, fmt.Sprintf("(%s, %s)", leanStr(name), sig))
			}
		}
	}
	fmt.Fprintf(&b, "def implPrologue : List String :=\n  %s\n\n", c34leanStrs(prologue))
	fmt.Fprintf(&b, "/-- addTypeMethodsCTI: method name -> the signature passed to reflect.FuncOf (receiver = first parameter) -/\ndef implSigs : List (String × Sig) :=\n  %s\n\n", leanList(implSigs, "   "))
	fmt.Fprintf(&b, "/-- addTypeMethodsCTI: case label -> statements -/\ndef implCases : List (String × String) :=\n  %s\n\n", leanList(impl, "   "))
	var helpers []string
	for _, d := range xf.Decls {
		if fd, ok := d.(*ast.FuncDecl); ok && fd.Recv == nil && strings.HasPrefix(fd.Name.Name, "cti") && fd.Body != nil {
			var body []string
			for _, s3 := range nonEmpty(fd.Body.List) {
				body = append(body, x.src(s3))
			}
			helpers = append(helpers, fmt.Sprintf("(%s, %s)", leanStr(fd.Name.Name), leanStr(strings.Join(body, " ; "))))
		}
	}
	fmt.Fprintf(&b, "/-- the ctiXxx helpers: name -> body -/\ndef implHelpers : List (String × String) :=\n  %s\n\n", leanList(helpers, "   "))
	fmt.Fprintf(&b, "end Gen.CtiSigs\n")
	return os.WriteFile(filepath.Join(genDir, "CtiSigs.lean"), b.Bytes(), 0o644)
}


// ---------- part 3: xreflect/cti_method.go — symbolic reflect types of the implementation signatures ----------

type c34rx struct {
	x   *closureExtractor
	env map[string]c34sym
}

func (s *c34rx) ty(e ast.Expr) string {
	src := s.x.src(e)
	switch e := e.(type) {
	case *ast.Ident:
		if v, ok := s.env[e.Name]; ok && v.ty != "" {
			return v.ty
		}
	case *ast.SelectorExpr:
		if src == "xt.rtype" {
			return ".self"
		}
	case *ast.IndexExpr:
		if s.x.src(e.X) == "rbasictypes" {
			if sel, ok := e.Index.(*ast.SelectorExpr); ok && s.x.src(sel.X) == "r" {
				return "(.basic " + leanStr(sel.Sel.Name) + ")"
			}
		}
	case *ast.CallExpr:
		switch s.x.src(e.Fun) {
		case "r.SliceOf":
			if len(e.Args) == 1 {
				return "(.slice " + s.ty(e.Args[0]) + ")"
			}
		case "r.PtrTo":
			if len(e.Args) == 1 {
				return "(.ptr " + s.ty(e.Args[0]) + ")"
			}
		case "rt.Elem":
			if len(e.Args) == 0 {
				return ".elem"
			}
		case "rt.Key":
			if len(e.Args) == 0 {
				return ".key"
			}
		}
	}
	return "(.unknown " + leanStr(src) + ")"
}

func (s *c34rx) tuple(e ast.Expr) []string {
	switch e := e.(type) {
	case *ast.Ident:
		if e.Name == "nil" {
			return []string{}
		}
		if v, ok := s.env[e.Name]; ok && v.isTup {
			return v.tuple
		}
	case *ast.CompositeLit:
		if s.x.src(e.Type) == "[]r.Type" {
			out := []string{}
			for _, el := range e.Elts {
				out = append(out, s.ty(el))
			}
			return out
		}
	}
	return []string{"(.unknown " + leanStr(s.x.src(e)) + ")"}
}

func (s *c34rx) value(e ast.Expr) c34sym {
	if cl, ok := e.(*ast.CompositeLit); ok && s.x.src(cl.Type) == "[]r.Type" {
		return c34sym{isTup: true, tuple: s.tuple(e)}
	}
	if id, ok := e.(*ast.Ident); ok {
		if v, ok := s.env[id.Name]; ok {
			return v
		}
	}
	return c34sym{ty: s.ty(e)}
}

func (s *c34rx) ite(cond string, a, b c34sym) c34sym {
	if a.isTup || b.isTup {
		out := c34sym{isTup: true, tuple: []string{}}
		if len(a.tuple) != len(b.tuple) || !a.isTup || !b.isTup {
			out.tuple = []string{"(.unknown " + leanStr("conditional tuple: "+cond) + ")"}
			return out
		}
		for i := range a.tuple {
			out.tuple = append(out.tuple, "(.ite "+leanStr(cond)+" "+a.tuple[i]+" "+b.tuple[i]+")")
		}
		return out
	}
	if b.ty == "" {
		b.ty = "(.unknown \"unset\")"
	}
	return c34sym{ty: "(.ite " + leanStr(cond) + " " + a.ty + " " + b.ty + ")"}
}

// stmts interprets `n := e`, `var n T`, `if C { n = e } [else if D { n = e2 }]`; returns the FuncOf call found (if any)
func (s *c34rx) stmts(list []ast.Stmt) (sig string, nsig int) {
	var visit func(n ast.Node) bool
	visit = func(n ast.Node) bool {
		if call, ok := n.(*ast.CallExpr); ok && s.x.src(call.Fun) == "r.FuncOf" && len(call.Args) == 3 {
			in, out := s.tuple(call.Args[0]), s.tuple(call.Args[1])
			variadic := s.x.src(call.Args[2])
			recv, params := "(.unknown \"no receiver\")", []string{}
			if len(in) > 0 {
				recv, params = in[0], in[1:]
			}
			if variadic != "true" && variadic != "false" {
				variadic = "false"
				recv = "(.unknown \"variadic\")"
			}
			sig = fmt.Sprintf("{ recv := %s, params := [%s], results := [%s], variadic := %s }", recv, strings.Join(params, ", "), strings.Join(out, ", "), variadic)
			nsig++
		}
		return true
	}
	for _, st := range nonEmpty(list) {
		switch st := st.(type) {
		case *ast.AssignStmt:
			if len(st.Lhs) == 1 && len(st.Rhs) == 1 {
				if id, ok := st.Lhs[0].(*ast.Ident); ok && (st.Tok == token.DEFINE || st.Tok == token.ASSIGN) {
					ast.Inspect(st.Rhs[0], visit)
					if _, isCall := st.Rhs[0].(*ast.CallExpr); !isCall || strings.HasPrefix(s.x.src(st.Rhs[0]), "r.SliceOf") || strings.HasPrefix(s.x.src(st.Rhs[0]), "r.PtrTo") {
						s.env[id.Name] = s.value(st.Rhs[0])
					}
					continue
				}
			}
			ast.Inspect(st, visit)
		case *ast.IfStmt:
			if st.Init == nil {
				if n, rhs, ok := onlyAssign(st.Body); ok {
					cond := s.x.src(st.Cond)
					old := s.env[n]
					nv := s.value(rhs)
					switch e := st.Else.(type) {
					case nil:
						s.env[n] = s.ite(cond, nv, old)
						continue
					case *ast.IfStmt:
						if n2, rhs2, ok := onlyAssign(e.Body); ok && n2 == n && e.Else == nil && e.Init == nil {
							s.env[n] = s.ite(cond, nv, s.ite(s.x.src(e.Cond), s.value(rhs2), old))
							continue
						}
					}
				}
			}
			ast.Inspect(st, visit)
		default:
			ast.Inspect(st, visit)
		}
	}
	return sig, nsig
}

func c34extract(repo, genDir string) error {
	if err := c34extractBasic(repo, genDir); err != nil {
		return err
	}
	return c34extractSigs(repo, genDir)
}

func init() { extractors["C34"] = c34extract }
