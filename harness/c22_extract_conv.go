package main

// C22 extractor, part 2: the converters To<T> of ast2/unwrap.go as ordered case tables
// (regenerated into Gen/Ast2Table.lean as `convs`).  Props/C22.lean checks that every converter the
// model treats as the identity on a static type (Model/Ast2.lean convFor) really returns its
// argument in the first case that matches every dynamic type such a field can hold.

import (
	"fmt"
	"go/ast"
	"go/token"
	"sort"
	"strings"
)

// c22ConvTable renders `def convs : List ConvDef`.
func c22ConvTable(funcs map[string]*ast.FuncDecl) string {
	var names []string
	for n, fd := range funcs {
		if strings.HasPrefix(n, "To") && fd.Type.Params != nil && len(fd.Type.Params.List) == 1 &&
			len(fd.Type.Params.List[0].Names) == 1 && c22TypeString(fd.Type.Params.List[0].Type) == "Ast" &&
			fd.Type.Results != nil && len(fd.Type.Results.List) == 1 {
			names = append(names, n)
		}
	}
	sort.Strings(names)
	var out []string
	for _, n := range names {
		out = append(out, c22ConvDef(funcs[n]))
	}
	return "def convs : List ConvDef := [\n  " + strings.Join(out, ",\n  ") + "\n]\n"
}

func c22ConvDef(fd *ast.FuncDecl) string {
	param := fd.Type.Params.List[0].Names[0].Name
	opq := func(why string) string {
		return fmt.Sprintf("⟨%s, false, [], false, %s⟩", lq(fd.Name.Name), lq(why))
	}
	// body: one type switch, optionally followed by `return nil`
	if len(fd.Body.List) == 0 || len(fd.Body.List) > 2 {
		return opq("body shape")
	}
	ts, ok := fd.Body.List[0].(*ast.TypeSwitchStmt)
	if !ok || ts.Init != nil {
		return opq("no type switch")
	}
	tailNil := false
	if len(fd.Body.List) == 2 {
		rs, ok := fd.Body.List[1].(*ast.ReturnStmt)
		if !ok || len(rs.Results) != 1 || c22TypeString(rs.Results[0]) != "nil" {
			return opq("tail")
		}
		tailNil = true
	}
	as, ok := ts.Assign.(*ast.AssignStmt)
	if !ok || len(as.Lhs) != 1 || len(as.Rhs) != 1 {
		return opq("switch header")
	}
	bound := c22TypeString(as.Lhs[0])
	ta, ok := as.Rhs[0].(*ast.TypeAssertExpr)
	if !ok || ta.Type != nil {
		return opq("switch header")
	}
	onNode := false
	switch x := ta.X.(type) {
	case *ast.Ident:
		if x.Name != param {
			return opq("switch subject")
		}
	case *ast.CallExpr:
		if c22TypeString(x.Fun) != "ToNode" || len(x.Args) != 1 || c22TypeString(x.Args[0]) != param {
			return opq("switch subject")
		}
		onNode = true
	default:
		return opq("switch subject")
	}
	var cases []string
	for _, c := range ts.Body.List {
		cc := c.(*ast.CaseClause)
		var tys []string
		for _, t := range cc.List {
			tys = append(tys, lq(strings.TrimPrefix(strings.Replace(c22TypeString(t), "*ast.", "*", 1), "ast.")))
		}
		if cc.List == nil {
			tys = []string{lq("default")}
		}
		act := ".other"
		switch {
		case len(cc.Body) == 0 && tailNil:
			act = ".retNil"
		case len(cc.Body) == 1:
			switch s := cc.Body[0].(type) {
			case *ast.BranchStmt:
				if s.Tok == token.BREAK && s.Label == nil && tailNil {
					act = ".retNil"
				}
			case *ast.ReturnStmt:
				if len(s.Results) == 1 {
					r := c22TypeString(s.Results[0])
					if (onNode && r == bound) || (!onNode && r == bound+".X") {
						act = ".ident"
					} else if r == "nil" {
						act = ".retNil"
					}
				}
			}
		}
		cases = append(cases, fmt.Sprintf("([%s], %s)", strings.Join(tys, ", "), act))
	}
	return fmt.Sprintf("⟨%s, %v, [%s], true, \"\"⟩", lq(fd.Name.Name), onNode, strings.Join(cases, ", "))
}
