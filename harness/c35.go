package main

// C35: generic instantiation behaves like textual specialisation and is memoised.
//
// Two op families (see notes/C35.md):
//
//	do ITEM...   type-level family, compared line by line with the Lean model (Model/Generic.lean):
//	             S-expression items are turned into gomacro source and compiled with the REAL compiler
//	             (fast.Comp.Compile / Comp.Type) in the file scope or in nested scopes (fast.NewComp);
//	             the output is the canonical rendering of the resulting xreflect types and a dump of
//	             the exported Instances caches of every generic visible in the scope.
//	beh N        behavioural family (c35beh.go): random generic functions/types evaluated through the
//	             interpreter, compared with hand-specialised copies (through gomacro) and compiled Go.
//	reset        new interpreter
//
// Go-side oracle of the type family: every resolved expression is compiled a second time: the
// type must be the identical object (xr.MakeKey, IdenticalTo) and no cache may grow (no
// recompilation); no Instances map may hold two keys with the same canonical rendering; the key
// under which the returned instance is cached must be the argument list as the caller's scope
// resolves it (types by identity, constants by value and type).

import (
	"fmt"
	"go/ast"
	"math/rand"
	"os"
	"reflect"
	"sort"
	"strconv"
	"strings"

	"github.com/cosmos72/gomacro/fast"
	etoken "github.com/cosmos72/gomacro/go/etoken"
	xr "github.com/cosmos72/gomacro/xreflect"
)

// ---------- S-expressions ----------

type c35sx struct {
	atom string
	list []*c35sx
	isL  bool
}

func c35tokenize(s string) []string {
	var toks []string
	cur := ""
	for _, c := range s {
		switch c {
		case '(', ')':
			if cur != "" {
				toks = append(toks, cur)
				cur = ""
			}
			toks = append(toks, string(c))
		case ' ':
			if cur != "" {
				toks = append(toks, cur)
				cur = ""
			}
		default:
			cur += string(c)
		}
	}
	if cur != "" {
		toks = append(toks, cur)
	}
	return toks
}

func c35parseSeq(toks []string) ([]*c35sx, []string) {
	var acc []*c35sx
	for len(toks) > 0 {
		t := toks[0]
		toks = toks[1:]
		switch t {
		case ")":
			return acc, toks
		case "(":
			var l []*c35sx
			l, toks = c35parseSeq(toks)
			acc = append(acc, &c35sx{list: l, isL: true})
		default:
			acc = append(acc, &c35sx{atom: t})
		}
	}
	return acc, nil
}

func (x *c35sx) head() string {
	if x.isL && len(x.list) > 0 && !x.list[0].isL {
		return x.list[0].atom
	}
	return ""
}

func c35isNum(s string) bool {
	if strings.HasPrefix(s, "-") {
		s = s[1:]
	}
	if s == "" {
		return false
	}
	for _, c := range s {
		if c < '0' || c > '9' {
			return false
		}
	}
	return true
}

// constant expression -> Go source
func c35cexpr(x *c35sx) string {
	if !x.isL {
		if c35isNum(x.atom) {
			if strings.HasPrefix(x.atom, "-") {
				return "(" + x.atom + ")"
			}
			return x.atom
		}
		return x.atom
	}
	if x.head() == "+" && len(x.list) == 3 {
		return "(" + c35cexpr(x.list[1]) + " + " + c35cexpr(x.list[2]) + ")"
	}
	return "bad.Bad"
}

// type expression -> Go source (gomacro syntax for G#[...])
func c35texpr(x *c35sx) string {
	if !x.isL {
		if x.atom == "bad" {
			return "bad.Bad"
		}
		return x.atom
	}
	l := x.list
	switch {
	case x.head() == "sl" && len(l) == 2:
		return "[]" + c35texpr(l[1])
	case x.head() == "pt" && len(l) == 2:
		return "*" + c35texpr(l[1])
	case x.head() == "ar" && len(l) == 3:
		return "[" + c35cexpr(l[1]) + "]" + c35texpr(l[2])
	case x.head() == "mp" && len(l) == 3:
		return "map[" + c35texpr(l[1]) + "]" + c35texpr(l[2])
	case x.head() == "fn" && len(l) == 3:
		return "func(" + c35texpr(l[1]) + ") " + c35texpr(l[2])
	case x.head() == "st":
		var fs []string
		for i := 1; i+1 < len(l); i += 2 {
			if l[i].isL {
				break
			}
			fs = append(fs, l[i].atom+" "+c35texpr(l[i+1]))
		}
		return "struct{ " + strings.Join(fs, "; ") + " }"
	case (x.head() == "g" || x.head() == "fg") && len(l) >= 2 && !l[1].isL:
		var as []string
		for _, a := range l[2:] {
			as = append(as, c35texpr(a))
		}
		return l[1].atom + "#[" + strings.Join(as, ", ") + "]"
	case x.head() == "c" && len(l) == 2:
		return c35cexpr(l[1])
	}
	return "bad.Bad"
}

// ---------- state ----------

type c35generic struct {
	name string
	gt   *fast.GenericType
	gf   *fast.GenericFunc
}

type c35state struct {
	ir     *fast.Interp
	named  map[xr.Key]int
	nnamed int
	gens   []*c35generic
	viol   string
	key    string
	tags   map[string]bool
}

var c35 *c35state

var c35basic = []string{"bool", "int8", "int", "uint8", "string", "float64", "int64", "uint16"}

func c35reset() {
	etoken.GENERICS = etoken.GENERICS_V2_CTI
	c35 = &c35state{ir: newQuietInterp(), named: map[xr.Key]int{}}
}

func (h *c35state) fail(key, desc string) {
	if h.viol == "" {
		h.viol, h.key = desc, key
	}
}

func (h *c35state) tag(t string) { h.tags[t] = true }

// number of cached instances over all generics (to observe recompilation)
func (h *c35state) cacheTotal() int {
	n := 0
	for _, g := range h.gens {
		if g.gt != nil {
			n += len(g.gt.Instances)
		}
		if g.gf != nil {
			n += len(g.gf.Instances)
		}
	}
	return n
}

// instance type -> (gid, key)
func (h *c35state) instOf(t xr.Type) (int, interface{}, bool) {
	k := xr.MakeKey(t)
	for gid, g := range h.gens {
		if g.gt == nil {
			continue
		}
		for key, v := range g.gt.Instances {
			if v != nil && xr.MakeKey(v) == k {
				return gid, key, true
			}
		}
	}
	return 0, nil, false
}

func (h *c35state) renderKey(key interface{}) string {
	v := reflect.ValueOf(key)
	var parts []string
	for i := 0; i < v.Len(); i++ {
		el := v.Index(i).Interface()
		parts = append(parts, h.renderKeyElem(el))
	}
	return strings.Join(parts, ",")
}

func (h *c35state) renderKeyElem(el interface{}) string {
	switch el := el.(type) {
	case xr.Key:
		t := el.Type()
		if t == nil {
			return "?nil"
		}
		return h.render(t, false)
	}
	// constant argument: the repaired GenericKey stores value and type (exported fields Val, Type)
	rv := reflect.ValueOf(el)
	if rv.Kind() == reflect.Struct && rv.NumField() == 2 {
		if k, ok := rv.Field(1).Interface().(xr.Key); ok {
			t := k.Type()
			ts := "?nil"
			if t != nil {
				ts = h.render(t, false)
			}
			return fmt.Sprintf("%v:%s", rv.Field(0).Interface(), ts)
		}
	}
	// unrepaired GenericKey: the bare value (interpreted named types are indistinguishable here)
	return fmt.Sprintf("%v:%T", el, el)
}

func (h *c35state) render(t xr.Type, expandTop bool) string {
	if t == nil {
		return "?nil"
	}
	if !expandTop && t.Named() {
		if gid, key, ok := h.instOf(t); ok {
			return "#" + strconv.Itoa(gid) + "[" + h.renderKey(key) + "]"
		}
		if id, ok := h.named[xr.MakeKey(t)]; ok {
			return "@" + strconv.Itoa(id)
		}
		return t.Name()
	}
	switch t.Kind() {
	case reflect.Slice:
		return "[]" + h.render(t.Elem(), false)
	case reflect.Ptr:
		return "*" + h.render(t.Elem(), false)
	case reflect.Array:
		return "[" + strconv.Itoa(t.Len()) + "]" + h.render(t.Elem(), false)
	case reflect.Map:
		return "map[" + h.render(t.Key(), false) + "]" + h.render(t.Elem(), false)
	case reflect.Func:
		a, r := "", ""
		if t.NumIn() > 0 {
			a = h.render(t.In(0), false)
		}
		if t.NumOut() > 0 {
			r = h.render(t.Out(0), false)
		}
		return "func(" + a + ")" + r
	case reflect.Struct:
		var fs []string
		for i := 0; i < t.NumField(); i++ {
			f := t.Field(i)
			fs = append(fs, f.Name+" "+h.render(f.Type, false))
		}
		return "struct{" + strings.Join(fs, ";") + "}"
	}
	return "?" + t.String()
}

// snapshot of all cached (gid, key) pairs
func (h *c35state) snapshot() map[string]bool {
	m := map[string]bool{}
	for gid, g := range h.gens {
		if g.gt != nil {
			for key := range g.gt.Instances {
				m[strconv.Itoa(gid)+"/"+h.renderKey(key)] = true
			}
		}
		if g.gf != nil {
			for key := range g.gf.Instances {
				m[strconv.Itoa(gid)+"/"+h.renderKey(key)] = true
			}
		}
	}
	return m
}

// dump of the caches of the generics declared in scope c: the entries not in old, and the size
func (h *c35state) dump(c *fast.Comp, old map[string]bool) string {
	var names []string
	for n, b := range c.Binds {
		if b == nil {
			continue
		}
		switch b.Value.(type) {
		case *fast.GenericType, *fast.GenericFunc:
			names = append(names, n)
		}
	}
	sort.Strings(names)
	var parts []string
	for _, n := range names {
		v := c.Binds[n].Value
		gid := -1
		for i, g := range h.gens {
			if (g.gt != nil && v == interface{}(g.gt)) || (g.gf != nil && v == interface{}(g.gf)) {
				gid = i
			}
		}
		var es []string
		seen := map[string]bool{}
		add := func(k, u string) {
			if seen[k] {
				h.fail("duplicate-instance", fmt.Sprintf("generic %s caches two instances under the same arguments %s", n, k))
			}
			seen[k] = true
			if !old[strconv.Itoa(gid)+"/"+k] {
				es = append(es, k+"=>"+u)
			}
		}
		switch g := v.(type) {
		case *fast.GenericType:
			for key, t := range g.Instances {
				u := h.render(t, true)
				if t == nil || t.Kind() == reflect.Invalid {
					h.fail("incomplete-instance-cached", fmt.Sprintf("generic type %s: the instance cached for [%s] was never completed (left behind by a failed instantiation)", n, h.renderKey(key)))
				}
				add(h.renderKey(key), u)
			}
		case *fast.GenericFunc:
			for key, inst := range g.Instances {
				u := "?"
				if inst != nil && inst.Type != nil {
					u = h.render(inst.Type, false)
				}
				if inst == nil || inst.Func == nil || *inst.Func == nil {
					h.fail("incomplete-instance-cached", fmt.Sprintf("generic function %s: the instance cached for [%s] was never compiled (left behind by a failed instantiation)", n, h.renderKey(key)))
				}
				add(h.renderKey(key), u)
			}
		}
		sort.Strings(es)
		parts = append(parts, n+"#"+strconv.Itoa(gid)+"["+strings.Join(es, "|")+"]/"+strconv.Itoa(len(seen)))
	}
	return "{" + strings.Join(parts, " ") + "}"
}

// compile src (a declaration) in scope c; returns the error text
func c35compile(c *fast.Comp, src string) (errText string) {
	defer func() {
		if e := recover(); e != nil {
			errText = oneLine(fmt.Sprint(e))
			if errText == "" {
				errText = "panic"
			}
		}
	}()
	c.Compile(c.Parse(src))
	return ""
}

// first node of a parsed form
func c35node(c *fast.Comp, src string) ast.Node {
	form := c.Parse(src)
	if form == nil {
		return nil
	}
	var n ast.Node
	switch x := form.Interface().(type) {
	case []ast.Node:
		if len(x) > 0 {
			n = x[0]
		}
	case ast.Node:
		n = x
	}
	switch x := n.(type) {
	case *ast.DeclStmt:
		return x.Decl
	case *ast.ExprStmt:
		return x.X
	}
	return n
}

// compile a type expression / generic function reference in scope c
func c35typeOf(c *fast.Comp, src string, isExpr bool) (t xr.Type, errText string) {
	defer func() {
		if e := recover(); e != nil {
			t = nil
			errText = oneLine(fmt.Sprint(e))
			if errText == "" {
				errText = "panic"
			}
		}
	}()
	if isExpr {
		node, ok := c35node(c, src).(ast.Expr)
		if !ok {
			return nil, "not an expression"
		}
		e := c.Expr1(node, nil)
		return e.Type, ""
	}
	decl, ok := c35node(c, "type _ = "+src).(*ast.GenDecl)
	if !ok || len(decl.Specs) != 1 {
		return nil, "not a type declaration"
	}
	return c.Type(decl.Specs[0].(*ast.TypeSpec).Type), ""
}

// what the CALLER's scope makes of one generic argument: canonical key element
func (h *c35state) argKey(c *fast.Comp, src string) (s string, ok bool) {
	defer func() {
		if e := recover(); e != nil {
			s, ok = "", false
		}
	}()
	decl := c35node(c, "type _ = _#["+src+"]").(*ast.GenDecl)
	idx := decl.Specs[0].(*ast.TypeSpec).Type.(*ast.IndexExpr)
	arg := idx.Index.(*ast.CompositeLit).Elts[0]
	e, t := c.Expr1OrType(arg)
	if e != nil {
		if !e.Const() {
			return "", false
		}
		v := e.EvalConst(fast.COptDefaults)
		return fmt.Sprintf("%v:%s", v, h.render(e.Type, false)), true
	}
	// the key of a type must stand for that very type
	if kt := xr.MakeKey(t).Type(); kt == nil || !kt.IdenticalTo(t) {
		h.fail("named-type-key-degrades-to-underlying", fmt.Sprintf("xr.MakeKey(%v).Type() = %v: the key of the argument %s is the key of another type", t, kt, src))
	}
	return h.render(t, false), true
}

func (h *c35state) runItems(c *fast.Comp, items []*c35sx) []string {
	var out []string
	for _, it := range items {
		out = append(out, h.runItem(c, it))
	}
	return out
}

func (h *c35state) runItem(c *fast.Comp, it *c35sx) string {
	l := it.list
	atom := func(i int) (string, bool) {
		if i < len(l) && !l[i].isL {
			return l[i].atom, true
		}
		return "", false
	}
	switch it.head() {
	case "T":
		n, ok := atom(1)
		if !ok || len(l) != 2 {
			return "bad-item"
		}
		if e := c35compile(c, "type "+n+" struct{ X"+strconv.Itoa(h.nnamed)+" int }"); e != "" {
			h.tag("decl-error")
			return "ERR"
		}
		if _, known := h.named[xr.MakeKey(c.Types[n])]; !known {
			h.named[xr.MakeKey(c.Types[n])] = h.nnamed
			h.nnamed++
		} else {
			h.tag("named-redeclared")
		}
		h.tag("decl-named")
		return "ok"
	case "A":
		n, ok := atom(1)
		if !ok || len(l) != 3 {
			return "bad-item"
		}
		if e := c35compile(c, "type "+n+" = "+c35texpr(l[2])); e != "" {
			h.tag("alias-error")
			return "ERR"
		}
		h.tag("decl-alias")
		return "ok"
	case "C":
		n, ok := atom(1)
		if !ok || (len(l) != 3 && len(l) != 4) {
			return "bad-item"
		}
		src := "const " + n + " = " + c35cexpr(l[2])
		if len(l) == 4 {
			tn, ok := atom(3)
			if !ok {
				return "bad-item"
			}
			src = "const " + n + " " + tn + " = " + c35cexpr(l[2])
		}
		if e := c35compile(c, src); e != "" {
			h.tag("const-error")
			return "ERR"
		}
		h.tag("decl-const")
		return "ok"
	case "V":
		n, ok := atom(1)
		if !ok || len(l) != 2 {
			return "bad-item"
		}
		if e := c35compile(c, "var "+n+" int"); e != "" {
			return "ERR"
		}
		h.tag("decl-var")
		return "ok"
	case "GT", "GF":
		n, ok := atom(1)
		if !ok || len(l) < 4 || !l[2].isL {
			return "bad-item"
		}
		var ps []string
		for _, p := range l[2].list {
			if !p.isL {
				ps = append(ps, p.atom)
			}
		}
		var src string
		if it.head() == "GT" {
			if len(l) != 4 {
				return "bad-item"
			}
			src = "type " + n + "#[" + strings.Join(ps, ", ") + "] " + c35texpr(l[3])
		} else {
			sig := l[3]
			if sig.head() != "fn" || len(sig.list) != 3 {
				return "bad-item"
			}
			var body []string
			for _, r := range l[4:] {
				if r.head() == "fg" {
					body = append(body, "_ = "+c35texpr(r))
				} else {
					body = append(body, "{ var tmp_ "+c35texpr(r)+"; _ = tmp_ }")
				}
			}
			res := c35texpr(sig.list[2])
			body = append(body, "var res_ "+res, "return res_")
			src = "func " + n + "#[" + strings.Join(ps, ", ") + "](arg_ " + c35texpr(sig.list[1]) + ") " + res + " { " + strings.Join(body, "; ") + " }"
		}
		if e := c35compile(c, src); e != "" {
			h.tag("generic-decl-error")
			// the model declares it anyway: keep the numbering aligned
			h.gens = append(h.gens, &c35generic{name: n})
			return "ERR"
		}
		g := &c35generic{name: n}
		if b := c.Binds[n]; b != nil {
			g.gt, _ = b.Value.(*fast.GenericType)
			g.gf, _ = b.Value.(*fast.GenericFunc)
		}
		h.gens = append(h.gens, g)
		h.tag("decl-" + it.head())
		return "ok"
	case "B":
		inner := fast.NewComp(c, nil)
		out := h.runItems(inner, l[1:])
		out = append(out, h.dump(inner, nil))
		h.tag("block")
		return "(" + strings.Join(out, " ; ") + ")"
	case "R":
		if len(l) != 2 {
			return "bad-item"
		}
		return h.resolve(c, l[1])
	}
	return "bad-item"
}

func (h *c35state) resolve(c *fast.Comp, x *c35sx) string {
	src := c35texpr(x)
	isExpr := x.head() == "fg"
	before := h.cacheTotal()
	t, e := c35typeOf(c, src, isExpr)
	if e != "" {
		h.tag("resolve-error")
		if os.Getenv("C35DEBUG") != "" {
			return "ERR<" + src + ": " + e + ">"
		}
		return "ERR"
	}
	mid := h.cacheTotal()
	if mid > before {
		h.tag("miss")
	} else if x.head() == "g" || x.head() == "fg" {
		h.tag("hit")
	}
	out := h.render(t, false)
	// oracle 1: compile it again: identical object, nothing recompiled
	t2, e2 := c35typeOf(c, src, isExpr)
	if e2 != "" {
		h.fail("reinstantiate-fails", fmt.Sprintf("%s compiled once, fails the second time: %s", src, e2))
	} else {
		if xr.MakeKey(t) != xr.MakeKey(t2) || !t.IdenticalTo(t2) {
			h.fail("reinstantiate-not-identical", fmt.Sprintf("%s compiled twice gives two distinct types %v / %v", src, t, t2))
		}
		if after := h.cacheTotal(); after != mid {
			h.fail("reinstantiate-recompiled", fmt.Sprintf("%s compiled twice: caches grew from %d to %d instances", src, mid, after))
		}
	}
	// oracle 2: the instance is cached under the argument list as the caller's scope resolves it
	// (types by identity, constants by value and type), and that entry is what was returned
	if (x.head() == "g" || x.head() == "fg") && len(x.list) >= 2 && !x.list[1].isL {
		var want []string
		ok := true
		for _, a := range x.list[2:] {
			s, aok := h.argKey(c, c35texpr(a))
			if !aok {
				ok = false
				break
			}
			want = append(want, s)
		}
		if sym := c.TryResolve(x.list[1].atom); ok && sym != nil {
			w := strings.Join(want, ",")
			var cached xr.Type
			found := false
			var keys []string
			switch g := sym.Value.(type) {
			case *fast.GenericType:
				for key, inst := range g.Instances {
					k := h.renderKey(key)
					keys = append(keys, k)
					if k == w {
						cached, found = inst, true
					}
				}
			case *fast.GenericFunc:
				for key, inst := range g.Instances {
					k := h.renderKey(key)
					keys = append(keys, k)
					if k == w && inst != nil {
						cached, found = inst.Type, true
					}
				}
			}
			sort.Strings(keys)
			switch {
			case !found:
				k := "instance-key-mismatch"
				if strings.Contains(w, ":") {
					k = "const-key-ignores-type"
				}
				h.fail(k, fmt.Sprintf("%s: arguments resolve to [%s] in the caller's scope, no instance is cached under that key (keys: %s)", src, w, strings.Join(keys, " | ")))
			case cached == nil || xr.MakeKey(cached) != xr.MakeKey(t) || !cached.IdenticalTo(t):
				h.fail("instance-of-other-arguments-returned", fmt.Sprintf("%s: returned %v, the instance cached for [%s] is %v", src, t, w, cached))
			}
		}
	}
	return out
}

func c35exec(op string) Result {
	f, arg, _ := strings.Cut(op, " ")
	switch f {
	case "reset":
		c35reset()
		return Result{Out: "ok", Tags: []string{"reset"}}
	case "beh":
		return c35behExec(arg)
	case "do":
		if c35 == nil {
			c35reset()
		}
		h := c35
		h.viol, h.key, h.tags = "", "", map[string]bool{}
		items, _ := c35parseSeq(c35tokenize(arg))
		c := h.ir.Comp
		old := h.snapshot()
		out := h.runItems(c, items)
		out = append(out, h.dump(c, old))
		var tags []string
		for t := range h.tags {
			tags = append(tags, t)
		}
		sort.Strings(tags)
		return Result{Out: strings.Join(out, " ; "), Viol: h.viol, Key: h.key, Tags: tags,
			Nontrivial: h.tags["miss"] || h.tags["hit"], Sig: op}
	}
	return Result{Out: "bad-op"}
}

// ---------- generator (type family) ----------

type c35g struct {
	r      *rand.Rand
	nname  int
	tops   []string          // top-level named types / aliases
	consts []string          // top-level constants
	gts    map[string][]bool // generic types: name -> parameter kinds (true = constant)
	gfs    map[string][]bool
	vars   []string
}

func (g *c35g) pick(xs []string) string { return xs[g.r.Intn(len(xs))] }

func (g *c35g) fresh(prefix string) string {
	g.nname++
	return prefix + strconv.Itoa(g.nname)
}

// a type expression over the given type names / constant names / generics
func (g *c35g) texpr(depth int, tnames, cnames []string, gens map[string][]bool, self string) string {
	r := g.r
	if depth <= 0 || r.Intn(10) < 3 {
		if len(tnames) > 0 && r.Intn(4) != 0 {
			return g.pick(tnames)
		}
		return g.pick(c35basic)
	}
	switch r.Intn(9) {
	case 0:
		return "(sl " + g.texpr(depth-1, tnames, cnames, gens, self) + ")"
	case 1:
		return "(pt " + g.texpr(depth-1, tnames, cnames, gens, self) + ")"
	case 2:
		return "(ar " + g.cexpr(cnames) + " " + g.texpr(depth-1, tnames, cnames, gens, self) + ")"
	case 3:
		// map keys must be comparable (the model does not check it): pointers always are, whatever
		// the names are bound to (parameter names, shadowed basic names)
		k := "(pt " + g.pick([]string{"int", "string", "bool"}) + ")"
		if len(tnames) > 0 && r.Intn(3) == 0 {
			k = "(pt " + g.pick(tnames) + ")"
		}
		return "(mp " + k + " " + g.texpr(depth-1, tnames, cnames, gens, self) + ")"
	case 4:
		return "(fn " + g.texpr(depth-1, tnames, cnames, gens, self) + " " + g.texpr(depth-1, tnames, cnames, gens, self) + ")"
	case 5:
		n := 1 + r.Intn(3)
		s := "(st"
		for i := 0; i < n; i++ {
			s += " F" + strconv.Itoa(i) + " " + g.texpr(depth-1, tnames, cnames, gens, self)
		}
		return s + ")"
	default:
		var names []string
		for n := range gens {
			names = append(names, n)
		}
		if len(names) == 0 {
			return g.pick(c35basic)
		}
		sort.Strings(names)
		n := g.pick(names)
		return g.inst(n, gens[n], depth-1, tnames, cnames, gens, self)
	}
}

func (g *c35g) inst(n string, kinds []bool, depth int, tnames, cnames []string, gens map[string][]bool, self string) string {
	s := "(g " + n
	for _, isConst := range kinds {
		if isConst {
			if len(cnames) > 0 && g.r.Intn(2) == 0 {
				s += " " + g.pick(cnames)
			} else {
				s += " (c " + g.cexpr(cnames) + ")"
			}
		} else {
			s += " " + g.texpr(depth, tnames, cnames, gens, self)
		}
	}
	return s + ")"
}

func (g *c35g) cexpr(cnames []string) string {
	r := g.r
	switch r.Intn(4) {
	case 0:
		if len(cnames) > 0 {
			return g.pick(cnames)
		}
	case 1:
		if len(cnames) > 0 {
			return "(+ " + g.pick(cnames) + " " + strconv.Itoa(r.Intn(3)) + ")"
		}
	}
	return strconv.Itoa(r.Intn(4))
}

var c35paramNames = []string{"T", "U", "N", "K", "int", "string"}

// declaration of a generic type or function; returns the item and records it
func (g *c35g) genericDecl(scopeT, scopeC []string, gens map[string][]bool, asFunc bool, name string) (string, []bool) {
	r := g.r
	np := 1 + r.Intn(3)
	var ps []string
	var kinds []bool
	var tps, cps []string
	used := map[string]bool{}
	for i := 0; i < np; i++ {
		p := g.pick(c35paramNames[:4])
		if r.Intn(8) == 0 {
			p = g.pick(c35paramNames)
		}
		if used[p] {
			p = p + strconv.Itoa(i)
		}
		used[p] = true
		isC := r.Intn(4) == 0
		ps = append(ps, p)
		kinds = append(kinds, isC)
		if isC {
			cps = append(cps, p)
		} else {
			tps = append(tps, p)
		}
	}
	// a generic that shadows an outer one of the same name must not instantiate "itself" with
	// growing arguments (infinite instantiation): drop the name from the visible generics
	gens0 := gens
	gens = map[string][]bool{}
	for k, v := range gens0 {
		if k != name {
			gens[k] = v
		}
	}
	tn := append(append([]string{}, tps...), tps...)
	tn = append(tn, scopeT...)
	cn := append(append([]string{}, cps...), scopeC...)
	// the generic may refer to itself with its own parameters (regular recursion) behind a pointer/slice
	body := func(depth int) string {
		s := g.texpr(depth, tn, cn, gens, name)
		return s
	}
	selfRef := "(g " + name + " " + strings.Join(ps, " ") + ")"
	if !asFunc {
		n := 1 + r.Intn(3)
		s := "(st"
		for i := 0; i < n; i++ {
			s += " F" + strconv.Itoa(i) + " " + body(2)
		}
		if r.Intn(3) == 0 {
			s += " Next " + g.pick([]string{"(pt " + selfRef + ")", "(sl " + selfRef + ")", "(mp (pt int) " + selfRef + ")"})
		}
		s += ")"
		if r.Intn(6) == 0 {
			s = g.pick([]string{"(sl " + body(1) + ")", "(mp (pt string) " + body(1) + ")", "(pt " + body(1) + ")", "(fn " + body(1) + " " + body(1) + ")"})
		}
		return "(GT " + name + " (" + strings.Join(ps, " ") + ") " + s + ")", kinds
	}
	sig := "(fn " + body(2) + " " + body(2) + ")"
	s := "(GF " + name + " (" + strings.Join(ps, " ") + ") " + sig
	nrefs := r.Intn(3)
	for i := 0; i < nrefs; i++ {
		switch r.Intn(3) {
		case 0:
			// reference to a generic function: itself (recursion) or another
			var fnames []string
			for n := range g.gfs {
				fnames = append(fnames, n)
			}
			sort.Strings(fnames)
			if len(fnames) > 0 && r.Intn(2) == 0 {
				fnm := g.pick(fnames)
				ref := g.inst(fnm, g.gfs[fnm], 1, tn, cn, gens, name)
				s += " (fg" + ref[2:]
			} else {
				s += " (fg " + name + " " + strings.Join(ps, " ") + ")"
			}
		default:
			s += " " + body(2)
		}
	}
	return s + ")", kinds
}

func c35gen(r *rand.Rand, tier string, emit func(string)) {
	nOps := 700
	nBeh := c35behCount(tier)
	if tier == "thorough" {
		nOps = 20000
	}
	// fixed regression ops first
	for _, op := range c35fixedOps {
		emit(op)
	}
	g := &c35g{r: r}
	newSession := func() {
		emit("reset")
		g.tops, g.consts, g.vars = nil, nil, nil
		g.gts, g.gfs = map[string][]bool{}, map[string][]bool{}
	}
	newSession()
	sinceReset := 0
	for i := 0; i < nOps; i++ {
		if sinceReset > 20+r.Intn(20) {
			newSession()
			sinceReset = 0
		}
		sinceReset++
		emit("do " + g.op())
	}
	emit("beh 0")
	emit("beh 1")
	for i := 0; i < nBeh; i++ {
		emit("beh " + strconv.Itoa(2+r.Intn(1<<30)))
	}
}

// one op: a few top-level items, or an instantiation site with nested scopes
func (g *c35g) op() string {
	r := g.r
	allGens := func() map[string][]bool {
		m := map[string][]bool{}
		for k, v := range g.gts {
			m[k] = v
		}
		return m
	}
	switch k := r.Intn(10); {
	case k < 3 || len(g.gts) == 0:
		// top-level declarations
		var items []string
		n := 1 + r.Intn(3)
		for i := 0; i < n; i++ {
			switch r.Intn(7) {
			case 0:
				nm := g.fresh("N")
				items = append(items, "(T "+nm+")")
				g.tops = append(g.tops, nm)
			case 1:
				nm := g.fresh("A")
				if len(g.tops) > 0 && r.Intn(4) == 0 {
					nm = g.pick(g.tops) // redefinition of an alias / shadowing of a named type by an alias
				}
				te := g.texpr(2, g.tops, g.consts, allGens(), "")
				if c35mentions(te, nm) {
					nm = g.fresh("A")
				}
				items = append(items, "(A "+nm+" "+te+")")
				if !c35contains(g.tops, nm) {
					g.tops = append(g.tops, nm)
				}
			case 2:
				nm := g.fresh("c")
				if len(g.tops) > 0 && r.Intn(2) == 0 {
					// typed constant of a named/basic type
					items = append(items, "(C "+nm+" "+strconv.Itoa(r.Intn(4))+" "+g.pick([]string{"int8", "int", "uint16", "int64"})+")")
				} else {
					items = append(items, "(C "+nm+" "+g.cexpr(g.consts)+")")
				}
				g.consts = append(g.consts, nm)
			case 3, 4:
				nm := g.fresh("G")
				it, kinds := g.genericDecl(g.tops, g.consts, allGens(), false, nm)
				items = append(items, it)
				g.gts[nm] = kinds
			case 5:
				nm := g.fresh("H")
				it, kinds := g.genericDecl(g.tops, g.consts, allGens(), true, nm)
				items = append(items, it)
				g.gfs[nm] = kinds
			case 6:
				nm := g.fresh("v")
				items = append(items, "(V "+nm+")")
				g.vars = append(g.vars, nm)
			}
		}
		return strings.Join(items, " ")
	case k < 9:
		return g.site(0, g.tops, g.consts, allGens())
	default:
		return g.malformed()
	}
}

// does the S-expression mention the atom?
func c35mentions(sexpr, atom string) bool {
	for _, t := range c35tokenize(sexpr) {
		if t == atom {
			return true
		}
	}
	return false
}

func c35contains(xs []string, s string) bool {
	for _, x := range xs {
		if x == s {
			return true
		}
	}
	return false
}

// an instantiation site: local declarations that shadow outer names, instantiations, nested blocks
func (g *c35g) site(depth int, tnames, cnames []string, gens map[string][]bool) string {
	r := g.r
	var items []string
	tn := append([]string{}, tnames...)
	cn := append([]string{}, cnames...)
	gm := map[string][]bool{}
	for k, v := range gens {
		gm[k] = v
	}
	n := 2 + r.Intn(4)
	declared := map[string]bool{}
	for i := 0; i < n; i++ {
		switch k := r.Intn(12); {
		case k == 0:
			// local named type shadowing a parameter name, a basic name or a top-level name
			nm := g.pick(append([]string{"T", "U", "int", "string", "K"}, tnames...))
			if declared[nm] {
				// gomacro reuses the type object when a named type is declared again in the same scope
				break
			}
			declared[nm] = true
			items = append(items, "(T "+nm+")")
			if !c35contains(tn, nm) {
				tn = append(tn, nm)
			}
		case k == 1:
			// (not int8/int/uint16/int64: typed constants are declared with these names, and gomacro
			// accepts `const N string = 0`, known finding of C04)
			nm := g.pick(append([]string{"T", "U", "N", "uint8", "K"}, tnames...))
			te := g.texpr(1, tn, cn, gm, "")
			if c35mentions(te, nm) {
				// `type X = ...X...` is a declaration cycle for gomacro's dependency sorter
				break
			}
			declared[nm] = true
			items = append(items, "(A "+nm+" "+te+")")
			if !c35contains(tn, nm) {
				tn = append(tn, nm)
			}
		case k == 2:
			nm := g.pick(append([]string{"N", "K", "c"}, cnames...))
			if r.Intn(2) == 0 {
				items = append(items, "(C "+nm+" "+strconv.Itoa(r.Intn(4))+" "+g.pick([]string{"int8", "int", "uint16"})+")")
			} else {
				items = append(items, "(C "+nm+" "+strconv.Itoa(r.Intn(4))+")")
			}
			if !c35contains(cn, nm) {
				cn = append(cn, nm)
			}
		case k == 3 && depth < 2:
			items = append(items, g.site(depth+1, tn, cn, gm))
		case k == 4:
			// local generic type, possibly shadowing a top-level generic
			nm := g.fresh("L")
			var outer []string
			for o := range gens {
				outer = append(outer, o)
			}
			sort.Strings(outer)
			if len(outer) > 0 && r.Intn(3) == 0 {
				nm = g.pick(outer)
			}
			it, kinds := g.genericDecl(tn, cn, gm, false, nm)
			items = append(items, it)
			gm[nm] = kinds
		case k == 5 && len(g.gfs) > 0:
			var fnames []string
			for n := range g.gfs {
				fnames = append(fnames, n)
			}
			sort.Strings(fnames)
			fnm := g.pick(fnames)
			ref := g.inst(fnm, g.gfs[fnm], 2, tn, cn, gm, "")
			items = append(items, "(R (fg"+ref[2:]+")")
		default:
			var names []string
			for n := range gm {
				names = append(names, n)
			}
			sort.Strings(names)
			if len(names) == 0 {
				items = append(items, "(R "+g.texpr(2, tn, cn, gm, "")+")")
				break
			}
			nm := g.pick(names)
			ref := g.inst(nm, gm[nm], 2, tn, cn, gm, "")
			if r.Intn(4) == 0 {
				ref = g.pick([]string{"(sl " + ref + ")", "(pt " + ref + ")", "(mp (pt string) " + ref + ")"})
			}
			items = append(items, "(R "+ref+")")
			if r.Intn(3) == 0 {
				// the same instantiation again, from a deeper scope
				items = append(items, "(B (R "+ref+"))")
			}
		}
	}
	return "(B " + strings.Join(items, " ") + ")"
}

// malformed stream: wrong number of arguments, undefined names, variables / functions / types in
// the wrong position
func (g *c35g) malformed() string {
	r := g.r
	var names []string
	for n := range g.gts {
		names = append(names, n)
	}
	sort.Strings(names)
	nm := g.pick(names)
	kinds := g.gts[nm]
	switch r.Intn(7) {
	case 0:
		return "(R (g " + nm + "))"
	case 1:
		return "(R (g " + nm + " int int int int))"
	case 2:
		return "(R (g Undefined int))"
	case 3:
		if len(g.vars) > 0 {
			return "(R (g " + nm + strings.Repeat(" "+g.pick(g.vars), len(kinds)) + "))"
		}
		return "(R (g " + nm + strings.Repeat(" undefinedName", len(kinds)) + "))"
	case 4:
		// generic function in type position / generic type in expression position
		var fnames []string
		for f := range g.gfs {
			fnames = append(fnames, f)
		}
		sort.Strings(fnames)
		if len(fnames) > 0 {
			f := g.pick(fnames)
			return "(R (g " + f + strings.Repeat(" int", len(g.gfs[f])) + "))"
		}
		return "(R (fg " + nm + strings.Repeat(" int", len(kinds)) + "))"
	case 5:
		// a constant where a type parameter is used as a type and vice versa
		s := "(R (g " + nm
		for _, isC := range kinds {
			if isC {
				s += " int"
			} else {
				s += " (c 2)"
			}
		}
		return s + "))"
	default:
		return "(R " + nm + ") (R (pt (g " + nm + " (pt c0))))"
	}
}

var c35fixedOps = []string{
	"reset",
	// constants of two named types with the same value are different arguments
	"do (T A) (T B) (GT Arr (N) (st F0 (ar N int))) (GT Q (N) (st F (g Arr N)))",
	"do (A A8 int8) (C a 3 int8) (C b 3 int) (C u 3) (R (g Arr a)) (R (g Arr b)) (R (g Arr u)) (R (g Q a)) (R (g Q (c (+ a 1))))",
	// the parameter name is shadowed in the caller's scope; same name, different types at two sites
	"do (GT Box (T) (st V T Next (pt (g Box T)))) (B (T T) (R (g Box T)) (B (A T string) (R (g Box T)) (R (g Box int)))) (B (A T int) (R (g Box T)))",
	// a local generic shadows a top-level one; the top-level generic sees top-level names only
	"do (T X) (GT Pair (T U) (st A T B U X X)) (B (T X) (R (g Pair X int)) (GT Pair (T U) (st P T)) (R (g Pair X int)) (B (R (g Pair X X))))",
	"do (GF Id (T) (fn T T)) (GF Twice (T) (fn T (sl T)) (fg Id T) (g Box T) (fg Twice T)) (R (fg Twice int)) (B (T int) (R (fg Twice int)) (R (fg Id (g Box int))))",
	// a named type built on a recursive type, its underlying type and a second named type with the same underlying type
	"do (GT S (T) (sl (mp (pt int) T))) (GT S2 (T) (sl (mp (pt int) T))) (R (fg Id (g S (g Box int)))) (R (fg Id (sl (mp (pt int) (g Box int))))) (R (fg Id (g S2 (g Box int)))) (R (g Pair (g S2 (g Box int)) (g S (g Box int))))",
	// an instantiation that fails after its forward declaration leaves no cache entry behind
	"do (GT Arr2 (N T) (st F0 (ar N T) Next (pt (g Arr2 N T)))) (R (g Arr2 (c -1) int)) (R (g Arr2 (c 2) int)) (R (g Arr2 (c 2) Undefined)) (GF Bad (T) (fn T T) (g Arr2 (c -2) T)) (R (fg Bad int)) (R (fg Bad int))",
	"reset",
}

func init() {
	register(&Prop{
		ID:   "C35",
		Rule: "type family: random generic types/functions (1-3 type or constant parameters, recursion, nested generics) declared at top level or in nested scopes and instantiated from sites whose scopes shadow parameter names, basic names and top-level names; non-trivial = at least one instantiation (hit or miss). behavioural family: see c35beh.go",
		Gen:  c35gen,
		Exec: c35exec,
		Exhaustive: func(tier string) bool {
			return false
		},
		Prepare: c35behPrepare,
	})
}
