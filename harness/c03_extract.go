package main

// extractors["C03"]: regenerates lean/Gen/ConvertArms.lean from fast/convert.go with the shared
// closure extractor: every `ret = func(env *Env) T { ... }` of Comp.convert becomes a ClosureIR Entry
// (path = enclosing switch/case conditions, body = the statements), every other statement of the
// function (the compile-time decision procedure) an Action (path + source text); the run-time
// helper `convert` is tied by its source text.

import (
	"fmt"
	"go/ast"
	"go/parser"
	"go/token"
	"path/filepath"
)

// c03funcSource is funcSource with a receiver filter (convert.go has a method and a function
// that are both called `convert`)
func c03funcSource(file, name string, method bool) ([]string, error) {
	fset := token.NewFileSet()
	f, err := parser.ParseFile(fset, file, nil, 0)
	if err != nil {
		return nil, err
	}
	for _, d := range f.Decls {
		if fd, ok := d.(*ast.FuncDecl); ok && fd.Name.Name == name && fd.Body != nil && (fd.Recv != nil) == method {
			x := &closureExtractor{fset: fset}
			out := []string{x.src(fd.Type)}
			for _, s := range fd.Body.List {
				out = append(out, x.src(s))
			}
			return out, nil
		}
	}
	return nil, fmt.Errorf("%s: function %s not found", file, name)
}

func c03extract(repo, genDir string) error {
	file := filepath.Join(repo, "fast", "convert.go")
	xs, err := extractFuncs(file, []string{"Comp.convert"})
	if err != nil {
		return err
	}
	x := xs["Comp.convert"]
	defs := []genDef{
		{name: "convertArms", entries: x.entries, kind: 0},
		{name: "convertActions", actions: x.actions, kind: 1},
	}
	// the run-time helper `convert` (reflect.Value.Convert after unwrapping an interface) and the
	// repair's helpers are tied by their source text; absent functions (unrepaired tree) give []
	for _, h := range []struct {
		lean, name string
		method     bool
	}{{"convertHelperSrc", "convert", false}, {"convertNumericConstSrc", "convertNumericConst", true}, {"isNumericKindSrc", "isNumericKind", false}} {
		src, err := c03funcSource(file, h.name, h.method)
		if err != nil {
			src = nil
		}
		defs = append(defs, genDef{name: h.lean, strs: src, kind: 2})
	}
	return writeGenFile(genDir, "ConvertArms", "fast/convert.go", defs)
}

func init() { extractors["C03"] = c03extract }
