package main

// C22 extractor: regenerates lean/Gen/Ast2Table.lean from
//   * the go/ast package that /repo/ast2 imports (struct definitions, one class per field), and
//   * /repo/ast2/*.go: for every wrapper type the methods New / Size / Get / Set / Op are evaluated
//     symbolically for every concrete child index; wrap.go ToAst gives the type-switch arms.
// Whatever the evaluator does not understand becomes an `opaque` entry (accepted by no checker).

import (
	"fmt"
	"go/ast"
	"go/build"
	"go/parser"
	"go/token"
	"os"
	"path/filepath"
	"sort"
	"strconv"
	"strings"
)

func init() { extractors["C22"] = c22Extract }

// ---------- classification of go/ast struct fields (shared with the oracle in c22.go) ----------

// c22Class classifies field `field` of go/ast struct `st` with Go type `gty` (package-local
// spelling: "Expr", "*Ident", "[]Stmt", "token.Pos", "map[string]*File").
func c22Class(st, field, gty string, isNode func(string) bool) string {
	switch st + "." + field {
	case "File.Imports", "File.Unresolved", "Package.Imports":
		return "resolve" // derived indices into the tree (documented so in go/ast)
	case "CallExpr.Ellipsis", "TypeSpec.Assign":
		return "posflag" // validity of the position is the variadic-call / alias-declaration flag
	}
	switch gty {
	case "token.Pos":
		return "pos"
	case "token.Token":
		return "tok"
	case "bool", "ChanDir":
		return "flag"
	case "string":
		return "lit"
	case "*CommentGroup", "[]*CommentGroup", "[]*Comment":
		return "comment"
	case "*Object", "*Scope", "map[string]*Object":
		return "resolve"
	case "Expr", "Stmt", "Decl", "Spec", "Node":
		return "child"
	}
	if strings.HasPrefix(gty, "[]") {
		e := gty[2:]
		switch e {
		case "Expr", "Stmt", "Decl", "Spec", "Node":
			return "childList"
		}
		if strings.HasPrefix(e, "*") && isNode(e[1:]) {
			return "childList"
		}
		return "opaque"
	}
	if strings.HasPrefix(gty, "map[string]*") && isNode(gty[len("map[string]*"):]) {
		return "childMap"
	}
	if strings.HasPrefix(gty, "*") && isNode(gty[1:]) {
		return "child"
	}
	return "opaque"
}

type c22Field struct{ Name, Class, Gty string }
type c22Struct struct {
	Name   string
	Fields []c22Field
	Impls  []string
	IsNode bool
}

func c22TypeString(e ast.Expr) string {
	switch t := e.(type) {
	case *ast.Ident:
		return t.Name
	case *ast.StarExpr:
		return "*" + c22TypeString(t.X)
	case *ast.ArrayType:
		if t.Len == nil {
			return "[]" + c22TypeString(t.Elt)
		}
	case *ast.SelectorExpr:
		return c22TypeString(t.X) + "." + t.Sel.Name
	case *ast.MapType:
		return "map[" + c22TypeString(t.Key) + "]" + c22TypeString(t.Value)
	}
	return "?"
}

// c22AstDir returns the directory of the go/ast package imported by repo/ast2.
func c22AstDir(repo string) (string, error) {
	fset := token.NewFileSet()
	f, err := parser.ParseFile(fset, filepath.Join(repo, "ast2", "ast_node.go"), nil, parser.ImportsOnly)
	if err != nil {
		return "", err
	}
	for _, im := range f.Imports {
		p, _ := strconv.Unquote(im.Path.Value)
		if p == "go/ast" {
			return filepath.Join(build.Default.GOROOT, "src", "go", "ast"), nil
		}
		if strings.HasSuffix(p, "/go/ast") && strings.HasPrefix(p, "github.com/cosmos72/gomacro/") {
			return filepath.Join(repo, strings.TrimPrefix(p, "github.com/cosmos72/gomacro/")), nil
		}
	}
	return "", fmt.Errorf("ast2/ast_node.go imports no go/ast package")
}

func c22ReadStructs(dir string) ([]c22Struct, error) {
	fset := token.NewFileSet()
	pkgs, err := parser.ParseDir(fset, dir, func(fi os.FileInfo) bool { return !strings.HasSuffix(fi.Name(), "_test.go") }, 0)
	if err != nil {
		return nil, err
	}
	pkg := pkgs["ast"]
	if pkg == nil {
		return nil, fmt.Errorf("no package ast in %s", dir)
	}
	var names []string
	for n := range pkg.Files {
		names = append(names, n)
	}
	sort.Strings(names)
	structs := map[string]*c22Struct{}
	var order []string
	methods := map[string]map[string]bool{}
	for _, fn := range names {
		for _, d := range pkg.Files[fn].Decls {
			switch d := d.(type) {
			case *ast.GenDecl:
				for _, sp := range d.Specs {
					ts, ok := sp.(*ast.TypeSpec)
					if !ok {
						continue
					}
					st, ok := ts.Type.(*ast.StructType)
					if !ok {
						continue
					}
					s := &c22Struct{Name: ts.Name.Name}
					for _, f := range st.Fields.List {
						gty := c22TypeString(f.Type)
						for _, nm := range f.Names {
							s.Fields = append(s.Fields, c22Field{Name: nm.Name, Gty: gty})
						}
						if len(f.Names) == 0 {
							s.Fields = append(s.Fields, c22Field{Name: "?embedded", Gty: gty})
						}
					}
					structs[s.Name] = s
					order = append(order, s.Name)
				}
			case *ast.FuncDecl:
				if d.Recv != nil && len(d.Recv.List) == 1 {
					r := strings.TrimPrefix(c22TypeString(d.Recv.List[0].Type), "*")
					if methods[r] == nil {
						methods[r] = map[string]bool{}
					}
					methods[r][d.Name.Name] = true
				}
			}
		}
	}
	isNode := func(n string) bool { return structs[n] != nil && methods[n]["Pos"] && methods[n]["End"] }
	var out []c22Struct
	for _, n := range order {
		s := structs[n]
		s.IsNode = isNode(n)
		if !s.IsNode {
			continue
		}
		for i := range s.Fields {
			s.Fields[i].Class = c22Class(s.Name, s.Fields[i].Name, s.Fields[i].Gty, isNode)
		}
		for _, m := range [][2]string{{"exprNode", "Expr"}, {"stmtNode", "Stmt"}, {"declNode", "Decl"}, {"specNode", "Spec"}} {
			if methods[n][m[0]] {
				s.Impls = append(s.Impls, m[1])
			}
		}
		out = append(out, *s)
	}
	return out, nil
}

// ---------- symbolic values ----------

type c22sv struct {
	k     string // field self elem wrap conv nonnil nil bad int child recv opaque
	f     string // field name (field/elem)
	via   string // wrap: wrapper / "ToAst"
	c     string // conv: converter name
	n     int
	inner *c22sv
	why   string
}

func (v *c22sv) String() string {
	if v == nil {
		return "<none>"
	}
	switch v.k {
	case "field", "elem":
		return v.k + ":" + v.f
	case "wrap":
		return "wrap:" + v.via + "(" + v.inner.String() + ")"
	case "conv":
		return "conv:" + v.c + "(" + v.inner.String() + ")"
	case "nonnil":
		return "nonnil(" + v.inner.String() + ")"
	case "int":
		return strconv.Itoa(v.n)
	case "opaque":
		return "opaque:" + v.why
	}
	return v.k
}

type c22write struct {
	target *c22sv
	val    *c22sv
}

type c22bad struct{ why string } // panic payload: not understood

type c22stop struct{} // panic payload: path ended by badIndex(...)

type c22eval struct {
	funcs     map[string]*ast.FuncDecl // package level functions available for inlining
	decisions []bool
	used      int
	assume    []string // "F=nil" / "F!=nil"
	writes    []c22write
	isBad     bool
	depth     int
}

func (e *c22eval) decide(label string) bool {
	var d bool
	if e.used < len(e.decisions) {
		d = e.decisions[e.used]
	} else {
		d = true
		e.decisions = append(e.decisions, true)
	}
	e.used++
	if d {
		e.assume = append(e.assume, label+"=nil")
	} else {
		e.assume = append(e.assume, label+"!=nil")
	}
	return d
}

type c22env map[string]*c22sv

func (e *c22eval) expr(env c22env, x ast.Expr) *c22sv {
	switch x := x.(type) {
	case *ast.ParenExpr:
		return e.expr(env, x.X)
	case *ast.BasicLit:
		if x.Kind == token.INT {
			n, _ := strconv.Atoi(x.Value)
			return &c22sv{k: "int", n: n}
		}
	case *ast.Ident:
		if x.Name == "nil" {
			return &c22sv{k: "nil"}
		}
		if v, ok := env[x.Name]; ok {
			return v
		}
		panic(c22bad{"unknown identifier " + x.Name})
	case *ast.SelectorExpr:
		// x.X  or x.X.F
		if id, ok := x.X.(*ast.Ident); ok && env[id.Name] != nil && env[id.Name].k == "recv" && x.Sel.Name == "X" {
			return &c22sv{k: "self"}
		}
		b := e.expr(env, x.X)
		if b.k == "self" {
			return &c22sv{k: "field", f: x.Sel.Name}
		}
		if b.k == "wrap" && x.Sel.Name == "X" { // W{v}.X
			return b.inner
		}
		panic(c22bad{"selector on " + b.String()})
	case *ast.IndexExpr:
		b := e.expr(env, x.X)
		i := e.expr(env, x.Index)
		if i.k != "int" {
			panic(c22bad{"non-constant index"})
		}
		if b.k == "field" {
			return &c22sv{k: "elem", f: b.f}
		}
		if b.k == "self" {
			return &c22sv{k: "elem", f: ""}
		}
		panic(c22bad{"index of " + b.String()})
	case *ast.CompositeLit:
		if id, ok := x.Type.(*ast.Ident); ok && len(x.Elts) == 1 {
			el := x.Elts[0]
			if kv, ok := el.(*ast.KeyValueExpr); ok {
				el = kv.Value
			}
			return &c22sv{k: "wrap", via: id.Name, inner: e.expr(env, el)}
		}
	case *ast.BinaryExpr:
		if x.Op == token.NEQ {
			if r := e.expr(env, x.Y); r.k == "nil" {
				return &c22sv{k: "nonnil", inner: e.expr(env, x.X)}
			}
		}
	case *ast.CallExpr:
		id, ok := x.Fun.(*ast.Ident)
		if !ok {
			break
		}
		var args []*c22sv
		for _, a := range x.Args {
			args = append(args, e.expr(env, a))
		}
		switch {
		case id.Name == "badIndex":
			e.isBad = true
			panic(c22stop{})
		case id.Name == "ToAst" && len(args) == 1:
			return &c22sv{k: "wrap", via: "ToAst", inner: args[0]}
		case id.Name == "len" && len(args) == 1:
			return &c22sv{k: "len", inner: args[0]}
		case id.Name == "append" && len(args) == 2:
			return &c22sv{k: "append", inner: args[0], f: args[1].String(), c: args[1].c}
		case strings.HasPrefix(id.Name, "To") && len(args) == 1 && args[0].k == "child":
			return &c22sv{k: "conv", c: id.Name, inner: args[0]}
		}
		if fd := e.funcs[id.Name]; fd != nil && fd.Recv == nil && e.depth < 3 {
			// inline a package-level helper (ToAst1..ToAst4)
			env2 := c22env{}
			k := 0
			for _, p := range fd.Type.Params.List {
				for _, nm := range p.Names {
					if k >= len(args) {
						panic(c22bad{"arity " + id.Name})
					}
					env2[nm.Name] = args[k]
					k++
				}
			}
			e.depth++
			ret, returned := e.stmts(env2, fd.Body.List)
			e.depth--
			if !returned {
				panic(c22bad{"helper without return " + id.Name})
			}
			return ret
		}
	}
	panic(c22bad{fmt.Sprintf("expression %T", x)})
}

// cond evaluates a boolean condition
func (e *c22eval) cond(env c22env, x ast.Expr) bool {
	switch x := x.(type) {
	case *ast.ParenExpr:
		return e.cond(env, x.X)
	case *ast.BinaryExpr:
		if x.Op == token.EQL || x.Op == token.NEQ {
			l, r := e.expr(env, x.X), e.expr(env, x.Y)
			var res bool
			switch {
			case l.k == "int" && r.k == "int":
				res = l.n == r.n
			case r.k == "nil" && (l.k == "field" || l.k == "self"):
				res = e.decide(l.f)
			case r.k == "nil" && l.k == "nil":
				res = true
			default:
				panic(c22bad{"condition " + l.String() + " vs " + r.String()})
			}
			if x.Op == token.NEQ {
				return !res
			}
			return res
		}
	}
	panic(c22bad{fmt.Sprintf("condition %T", x)})
}

func (e *c22eval) assign(env c22env, lhs ast.Expr, v *c22sv, define bool) {
	if id, ok := lhs.(*ast.Ident); ok {
		if _, known := env[id.Name]; known || define {
			env[id.Name] = v
			return
		}
		panic(c22bad{"assignment to unknown " + id.Name})
	}
	t := e.expr(env, lhs)
	if t.k == "field" || t.k == "elem" {
		e.writes = append(e.writes, c22write{t, v})
		return
	}
	panic(c22bad{"assignment to " + t.String()})
}

// stmts evaluates a statement list; returns (value, true) if a return statement was reached.
func (e *c22eval) stmts(env c22env, list []ast.Stmt) (*c22sv, bool) {
	for _, s := range list {
		if v, ret := e.stmt(env, s); ret {
			return v, true
		}
	}
	return nil, false
}

func (e *c22eval) stmt(env c22env, s ast.Stmt) (*c22sv, bool) {
	switch s := s.(type) {
	case *ast.EmptyStmt:
		return nil, false
	case *ast.BlockStmt:
		return e.stmts(env, s.List)
	case *ast.ReturnStmt:
		if len(s.Results) == 0 {
			return &c22sv{k: "void"}, true
		}
		if len(s.Results) == 1 {
			return e.expr(env, s.Results[0]), true
		}
	case *ast.ExprStmt:
		e.expr(env, s.X)
		return nil, false
	case *ast.DeclStmt:
		gd, ok := s.Decl.(*ast.GenDecl)
		if ok && gd.Tok == token.VAR {
			for _, sp := range gd.Specs {
				vs := sp.(*ast.ValueSpec)
				for i, nm := range vs.Names {
					if len(vs.Values) > i {
						env[nm.Name] = e.expr(env, vs.Values[i])
					} else {
						env[nm.Name] = &c22sv{k: "nil"}
					}
				}
			}
			return nil, false
		}
	case *ast.AssignStmt:
		if len(s.Lhs) == 1 && len(s.Rhs) == 1 && (s.Tok == token.ASSIGN || s.Tok == token.DEFINE) {
			e.assign(env, s.Lhs[0], e.expr(env, s.Rhs[0]), s.Tok == token.DEFINE)
			return nil, false
		}
	case *ast.IfStmt:
		if s.Init != nil {
			if v, ret := e.stmt(env, s.Init); ret {
				return v, ret
			}
		}
		if e.cond(env, s.Cond) {
			return e.stmts(env, s.Body.List)
		} else if s.Else != nil {
			return e.stmt(env, s.Else)
		}
		return nil, false
	case *ast.SwitchStmt:
		if s.Init == nil && s.Tag != nil {
			tag := e.expr(env, s.Tag)
			if tag.k != "int" {
				panic(c22bad{"switch on " + tag.String()})
			}
			var def *ast.CaseClause
			for _, c := range s.Body.List {
				cc := c.(*ast.CaseClause)
				if cc.List == nil {
					def = cc
					continue
				}
				for _, ce := range cc.List {
					v := e.expr(env, ce)
					if v.k == "int" && v.n == tag.n {
						return e.caseBody(env, cc)
					}
				}
			}
			if def != nil {
				return e.caseBody(env, def)
			}
			return nil, false
		}
	}
	panic(c22bad{fmt.Sprintf("statement %T", s)})
}

func (e *c22eval) caseBody(env c22env, cc *ast.CaseClause) (*c22sv, bool) {
	for _, s := range cc.Body {
		if br, ok := s.(*ast.BranchStmt); ok {
			if br.Tok == token.BREAK && br.Label == nil {
				return nil, false
			}
			panic(c22bad{"branch in case"})
		}
		if v, ret := e.stmt(env, s); ret {
			return v, true
		}
	}
	return nil, false
}

type c22path struct {
	assume []string
	ret    *c22sv
	writes []c22write
	bad    bool
}

// paths runs the method body for all nil-test decisions; err != "" if not understood.
func c22Paths(funcs map[string]*ast.FuncDecl, fd *ast.FuncDecl, bind c22env) (paths []c22path, err string) {
	decisions := []bool{}
	for iter := 0; iter < 64; iter++ {
		e := &c22eval{funcs: funcs, decisions: append([]bool{}, decisions...)}
		env := c22env{}
		for k, v := range bind {
			env[k] = v
		}
		var ret *c22sv
		func() {
			defer func() {
				if r := recover(); r != nil {
					switch r := r.(type) {
					case c22stop:
					case c22bad:
						err = r.why
					default:
						panic(r)
					}
				}
			}()
			ret, _ = e.stmts(env, fd.Body.List)
		}()
		if err != "" {
			return nil, err
		}
		paths = append(paths, c22path{e.assume, ret, e.writes, e.isBad})
		// next decision vector: flip the last `true` that was used
		d := e.decisions[:e.used]
		j := len(d) - 1
		for j >= 0 && !d[j] {
			j--
		}
		if j < 0 {
			return paths, ""
		}
		decisions = append(append([]bool{}, d[:j]...), false)
	}
	return nil, "too many paths"
}

// ---------- Lean rendering ----------

func lq(s string) string { return strconv.Quote(s) }

func c22GetArm(paths []c22path, err string) string {
	if err != "" {
		return ".opq " + lq(err)
	}
	allBad := true
	for _, p := range paths {
		if !p.bad {
			allBad = false
		}
		if len(p.writes) != 0 {
			return ".opq " + lq("Get writes a field")
		}
	}
	if allBad {
		return ".bad"
	}
	wrapOf := func(v *c22sv) (f, via string, ok bool) {
		if v != nil && v.k == "wrap" && v.inner != nil && v.inner.k == "field" {
			return v.inner.f, v.via, true
		}
		return "", "", false
	}
	if len(paths) == 1 && len(paths[0].assume) == 0 && !paths[0].bad {
		r := paths[0].ret
		if r != nil && r.k == "nil" {
			return ".none_"
		}
		if f, via, ok := wrapOf(r); ok {
			return fmt.Sprintf(".read %s %s false", lq(f), lq(via))
		}
		return ".opq " + lq("Get returns "+r.String())
	}
	if len(paths) == 2 && len(paths[0].assume) == 1 && len(paths[1].assume) == 1 && !paths[0].bad && !paths[1].bad {
		var pn, pv *c22path
		for i := range paths {
			if strings.HasSuffix(paths[i].assume[0], "!=nil") {
				pv = &paths[i]
			} else {
				pn = &paths[i]
			}
		}
		if pn != nil && pv != nil && pn.ret != nil && pn.ret.k == "nil" {
			if f, via, ok := wrapOf(pv.ret); ok && pv.assume[0] == f+"!=nil" && pn.assume[0] == f+"=nil" {
				return fmt.Sprintf(".read %s %s true", lq(f), lq(via))
			}
		}
	}
	var d []string
	for _, p := range paths {
		d = append(d, strings.Join(p.assume, ",")+"->"+p.ret.String())
	}
	return ".opq " + lq("Get paths "+strings.Join(d, " | "))
}

func c22SetArm(paths []c22path, err string) string {
	if err != "" {
		return ".opq " + lq(err)
	}
	if len(paths) != 1 || len(paths[0].assume) != 0 {
		return ".opq " + lq("Set depends on nil tests")
	}
	p := paths[0]
	if p.bad {
		return ".bad"
	}
	var ws []string
	for _, w := range p.writes {
		if w.target.k != "field" {
			return ".opq " + lq("Set writes "+w.target.String())
		}
		kind := ".opq " + lq(w.val.String())
		switch {
		case w.val.k == "conv" && w.val.inner.k == "child":
			kind = ".conv " + lq(w.val.c)
		case w.val.k == "nonnil" && w.val.inner.k == "conv" && w.val.inner.inner.k == "child":
			kind = ".nonNil " + lq(w.val.inner.c)
		}
		ws = append(ws, fmt.Sprintf("⟨%s, %s⟩", lq(w.target.f), kind))
	}
	return ".writes [" + strings.Join(ws, ", ") + "]"
}

type c22Wrapper struct {
	Name    string
	Node    string // go/ast struct name, "" for a bare slice, "?" unknown
	ElemTy  string // bare slices: element type
	Methods map[string]*ast.FuncDecl
}

func c22Extract(repo, genDir string) error {
	astDir, err := c22AstDir(repo)
	if err != nil {
		return err
	}
	structs, err := c22ReadStructs(astDir)
	if err != nil {
		return err
	}
	fset := token.NewFileSet()
	pkgs, err := parser.ParseDir(fset, filepath.Join(repo, "ast2"), func(fi os.FileInfo) bool {
		return !strings.HasSuffix(fi.Name(), "_test.go") && fi.Name() != "x_package.go"
	}, 0)
	if err != nil {
		return err
	}
	pkg := pkgs["ast2"]
	if pkg == nil {
		return fmt.Errorf("no package ast2")
	}
	var fnames []string
	for n := range pkg.Files {
		fnames = append(fnames, n)
	}
	sort.Strings(fnames)
	wrappers := map[string]*c22Wrapper{}
	var worder []string
	funcs := map[string]*ast.FuncDecl{}
	for _, fn := range fnames {
		for _, d := range pkg.Files[fn].Decls {
			switch d := d.(type) {
			case *ast.GenDecl:
				for _, sp := range d.Specs {
					ts, ok := sp.(*ast.TypeSpec)
					if !ok {
						continue
					}
					st, ok := ts.Type.(*ast.StructType)
					if !ok || len(st.Fields.List) != 1 || len(st.Fields.List[0].Names) != 1 || st.Fields.List[0].Names[0].Name != "X" {
						continue
					}
					w := &c22Wrapper{Name: ts.Name.Name, Node: "?", Methods: map[string]*ast.FuncDecl{}}
					t := c22TypeString(st.Fields.List[0].Type)
					switch {
					case strings.HasPrefix(t, "*ast."):
						w.Node = strings.TrimPrefix(t, "*ast.")
					case strings.HasPrefix(t, "[]"):
						w.Node = ""
						w.ElemTy = strings.Replace(t[2:], "ast.", "", 1)
					}
					wrappers[w.Name] = w
					worder = append(worder, w.Name)
				}
			case *ast.FuncDecl:
				if d.Recv == nil {
					funcs[d.Name.Name] = d
				}
			}
		}
	}
	for _, fn := range fnames {
		for _, d := range pkg.Files[fn].Decls {
			if fd, ok := d.(*ast.FuncDecl); ok && fd.Recv != nil && len(fd.Recv.List) == 1 {
				r := c22TypeString(fd.Recv.List[0].Type)
				if w := wrappers[r]; w != nil {
					w.Methods[fd.Name.Name] = fd
				}
			}
		}
	}
	sort.Strings(worder)

	var sb strings.Builder
	sb.WriteString("-- REGENERATED by harness/c22_extract.go from " + astDir + " and <repo>/ast2 -- do not edit\n")
	sb.WriteString("import Model.Ast2\nnamespace Ast2.Gen\nopen Ast2\n\n")
	sb.WriteString("def structs : List StructDef := [\n")
	for i, s := range structs {
		var fs []string
		for _, f := range s.Fields {
			cls := f.Class
			if cls == "opaque" {
				cls = "opq" // `opaque` is a Lean keyword
			}
			fs = append(fs, fmt.Sprintf("⟨%s, .%s, %s⟩", lq(f.Name), cls, lq(f.Gty)))
		}
		var im []string
		for _, x := range s.Impls {
			im = append(im, lq(x))
		}
		sep := ","
		if i == len(structs)-1 {
			sep = ""
		}
		fmt.Fprintf(&sb, "  ⟨%s, [%s], [%s]⟩%s\n", lq(s.Name), strings.Join(fs, ", "), strings.Join(im, ", "), sep)
	}
	sb.WriteString("]\n\n")

	// ToAst arms
	sb.WriteString("def toAst : List ToAstArm := [\n")
	arms, toAstErr := c22ToAstArms(funcs["ToAst"])
	for i, a := range arms {
		sep := ","
		if i == len(arms)-1 {
			sep = ""
		}
		fmt.Fprintf(&sb, "  ⟨%s, %s, %v⟩%s\n", lq(a[0]), lq(a[1]), a[2] == "true", sep)
	}
	sb.WriteString("]\n")
	fmt.Fprintf(&sb, "def toAstUnderstood : Bool := %v\n\n", toAstErr == "")

	sb.WriteString(c22ConvTable(funcs))
	sb.WriteString("\n")
	sb.WriteString("def wrappers : List Wrapper := [\n")
	for wi, name := range worder {
		w := wrappers[name]
		sb.WriteString(c22RenderWrapper(w, funcs))
		if wi != len(worder)-1 {
			sb.WriteString(",")
		}
		sb.WriteString("\n")
	}
	sb.WriteString("]\n\nend Ast2.Gen\n")
	return os.WriteFile(filepath.Join(genDir, "Ast2Table.lean"), []byte(sb.String()), 0o644)
}

func c22ToAstArms(fd *ast.FuncDecl) (arms [][3]string, err string) {
	if fd == nil {
		return nil, "no func ToAst"
	}
	var ts *ast.TypeSwitchStmt
	for _, s := range fd.Body.List {
		if t, ok := s.(*ast.TypeSwitchStmt); ok {
			ts = t
		}
	}
	if ts == nil {
		return nil, "no type switch"
	}
	for _, c := range ts.Body.List {
		cc := c.(*ast.CaseClause)
		if cc.List == nil {
			continue // default: errorf
		}
		if len(cc.List) != 1 {
			err = "multi-type case"
			continue
		}
		t := c22TypeString(cc.List[0])
		if t == "nil" {
			continue
		}
		if !strings.HasPrefix(t, "*ast.") || len(cc.Body) != 1 {
			err = "case " + t
			continue
		}
		body := cc.Body[0]
		guarded := "false"
		if ifs, ok := body.(*ast.IfStmt); ok && ifs.Else == nil && ifs.Init == nil && len(ifs.Body.List) == 1 {
			if be, ok := ifs.Cond.(*ast.BinaryExpr); ok && be.Op == token.NEQ && c22TypeString(be.X) == "node" && c22TypeString(be.Y) == "nil" {
				guarded = "true"
				body = ifs.Body.List[0]
			}
		}
		as, ok := body.(*ast.AssignStmt)
		if !ok || len(as.Rhs) != 1 {
			err = "case body " + t
			continue
		}
		cl, ok := as.Rhs[0].(*ast.CompositeLit)
		if !ok || len(cl.Elts) != 1 || c22TypeString(cl.Elts[0]) != "node" {
			err = "case body " + t
			continue
		}
		arms = append(arms, [3]string{strings.TrimPrefix(t, "*ast."), c22TypeString(cl.Type), guarded})
	}
	return arms, err
}

func c22RenderWrapper(w *c22Wrapper, funcs map[string]*ast.FuncDecl) string {
	recvName := func(fd *ast.FuncDecl) string {
		if len(fd.Recv.List[0].Names) == 1 {
			return fd.Recv.List[0].Names[0].Name
		}
		return "_"
	}
	kind := ".opq " + lq("Size not understood")
	size := 0
	nilGuard := false
	run := func(m string, bind c22env) ([]c22path, string) {
		fd := w.Methods[m]
		if fd == nil {
			return nil, "no method " + m
		}
		env := c22env{recvName(fd): &c22sv{k: "recv"}}
		k := 0
		for _, p := range fd.Type.Params.List {
			for _, nm := range p.Names {
				switch k {
				case 0:
					if v := bind["#0"]; v != nil {
						env[nm.Name] = v
					}
				case 1:
					if v := bind["#1"]; v != nil {
						env[nm.Name] = v
					}
				}
				k++
			}
		}
		return c22Paths(funcs, fd, env)
	}
	// ---- Size
	listField := ""
	isList := false
	if ps, err := run("Size", nil); err == "" {
		switch {
		case len(ps) == 1 && ps[0].ret != nil && ps[0].ret.k == "int" && len(ps[0].assume) == 0:
			kind, size = ".fixed", ps[0].ret.n
		case len(ps) == 2 && ps[0].ret != nil && ps[1].ret != nil && ps[0].ret.k == "int" && ps[1].ret.k == "int" &&
			len(ps[0].assume) == 1 && ps[0].assume[0] == "=nil" && ps[0].ret.n == 0:
			kind, size, nilGuard = ".fixed", ps[1].ret.n, true
		case len(ps) == 1 && ps[0].ret != nil && ps[0].ret.k == "len" && len(ps[0].assume) == 0:
			in := ps[0].ret.inner
			if in.k == "field" && w.Node != "" {
				isList, listField = true, in.f
			} else if in.k == "self" && w.Node == "" {
				isList = true
			}
		}
	}
	var armsS []string
	oorGet, oorSet := ".opq \"\"", ".opq \"\""
	child := &c22sv{k: "child"}
	if isList {
		// element access: Get(0), Set(0, child), Append(child)
		getVia, setConv, appConv := "?", "?", "?"
		ok := true
		if ps, err := run("Get", c22env{"#0": &c22sv{k: "int", n: 0}}); err == "" && len(ps) == 1 && len(ps[0].assume) == 0 && ps[0].ret != nil {
			r := ps[0].ret
			switch {
			case r.k == "wrap" && r.via == "ToAst" && r.inner.k == "elem" && r.inner.f == listField:
				getVia = "ToAst"
			case r.k == "elem" && r.f == listField && w.ElemTy == "Ast":
				getVia = "self"
			default:
				ok = false
			}
		} else {
			ok = false
		}
		if ps, err := run("Set", c22env{"#0": &c22sv{k: "int", n: 0}, "#1": child}); err == "" && len(ps) == 1 && len(ps[0].assume) == 0 && len(ps[0].writes) == 1 {
			wr := ps[0].writes[0]
			switch {
			case wr.target.k == "elem" && wr.target.f == listField && wr.val.k == "conv" && wr.val.inner.k == "child":
				setConv = wr.val.c
			case wr.target.k == "elem" && wr.target.f == listField && wr.val.k == "child" && w.ElemTy == "Ast":
				setConv = "self"
			default:
				ok = false
			}
		} else {
			ok = false
		}
		if ps, err := run("Append", c22env{"#0": child}); err == "" && len(ps) == 1 && len(ps[0].assume) == 0 && len(ps[0].writes) == 1 && ps[0].ret != nil && ps[0].ret.k == "recv" {
			wr := ps[0].writes[0]
			tgtOK := (listField != "" && wr.target.k == "field" && wr.target.f == listField)
			v := wr.val
			if v.k == "append" && tgtOK && v.inner.k == "field" && v.inner.f == listField {
				if v.c != "" {
					appConv = v.c
				} else if v.f == "child" {
					appConv = "self"
				} else {
					ok = false
				}
			} else {
				ok = false
			}
		} else if listField == "" {
			// bare slices: `x.X = append(x.X, To<T>(child))` assigns to x.X itself
			appConv = c22BareAppend(w.Methods["Append"])
			if appConv == "" {
				ok = false
			}
		} else {
			ok = false
		}
		if ok {
			if listField != "" {
				kind = fmt.Sprintf(".list %s %s %s %s", lq(listField), lq(getVia), lq(setConv), lq(appConv))
			} else {
				kind = fmt.Sprintf(".slice %s %s %s %s", lq(w.ElemTy), lq(getVia), lq(setConv), lq(appConv))
			}
		} else {
			kind = ".opq " + lq("element access not understood")
		}
		oorGet, oorSet = ".bad", ".bad" // run-time index check of the Go slice
	} else if kind == ".fixed" {
		for i := 0; i <= size; i++ {
			gp, gerr := run("Get", c22env{"#0": &c22sv{k: "int", n: i}})
			sp, serr := run("Set", c22env{"#0": &c22sv{k: "int", n: i}, "#1": child})
			g, s := c22GetArm(gp, gerr), c22SetArm(sp, serr)
			if i < size {
				armsS = append(armsS, fmt.Sprintf("⟨%s, %s⟩", g, s))
			} else {
				oorGet, oorSet = g, s
			}
		}
	}
	// ---- New
	newOk := false
	var copies []string
	if fd := w.Methods["New"]; fd != nil && len(fd.Body.List) == 1 {
		if rs, ok := fd.Body.List[0].(*ast.ReturnStmt); ok && len(rs.Results) == 1 {
			if cl, ok := rs.Results[0].(*ast.CompositeLit); ok && c22TypeString(cl.Type) == w.Name {
				switch {
				case len(cl.Elts) == 0 && w.Node == "":
					newOk = true
				case len(cl.Elts) == 1:
					if ue, ok := cl.Elts[0].(*ast.UnaryExpr); ok && ue.Op == token.AND {
						if in, ok := ue.X.(*ast.CompositeLit); ok && c22TypeString(in.Type) == "ast."+w.Node {
							newOk = true
							for _, el := range in.Elts {
								kv, ok := el.(*ast.KeyValueExpr)
								if !ok {
									newOk = false
									break
								}
								src := c22TypeString(kv.Value) // x.X.F
								r := recvName(fd)
								if !strings.HasPrefix(src, r+".X.") || strings.Count(src, ".") != 2 {
									newOk = false
									break
								}
								copies = append(copies, fmt.Sprintf("(%s, %s)", lq(c22TypeString(kv.Key)), lq(strings.TrimPrefix(src, r+".X."))))
							}
						}
					}
				}
			}
		}
	}
	// ---- Op
	var opReads []string
	if fd := w.Methods["Op"]; fd != nil {
		seen := map[string]bool{}
		r := recvName(fd)
		ast.Inspect(fd.Body, func(n ast.Node) bool {
			if se, ok := n.(*ast.SelectorExpr); ok {
				if s := c22TypeString(se); strings.HasPrefix(s, r+".X.") && strings.Count(s, ".") == 2 {
					f := strings.TrimPrefix(s, r+".X.")
					if !seen[f] {
						seen[f] = true
						opReads = append(opReads, lq(f))
					}
				}
			}
			return true
		})
	}
	return fmt.Sprintf("  { name := %s, node := %s, kind := %s, size := %d, sizeNilGuard := %v,\n    newCopies := [%s], newOk := %v,\n    arms := [%s],\n    oorGet := %s, oorSet := %s, opReads := [%s] }",
		lq(w.Name), lq(w.Node), kind, size, nilGuard, strings.Join(copies, ", "), newOk,
		strings.Join(armsS, ",\n             "), oorGet, oorSet, strings.Join(opReads, ", "))
}

// c22BareAppend recognises `{ x.X = append(x.X, To<T>(child)); return x }` / `append(x.X, child)`.
func c22BareAppend(fd *ast.FuncDecl) string {
	if fd == nil || len(fd.Body.List) != 2 {
		return ""
	}
	as, ok := fd.Body.List[0].(*ast.AssignStmt)
	if !ok || len(as.Lhs) != 1 || len(as.Rhs) != 1 || c22TypeString(as.Lhs[0]) != "x.X" {
		return ""
	}
	call, ok := as.Rhs[0].(*ast.CallExpr)
	if !ok || c22TypeString(call.Fun) != "append" || len(call.Args) != 2 || c22TypeString(call.Args[0]) != "x.X" {
		return ""
	}
	if rs, ok := fd.Body.List[1].(*ast.ReturnStmt); !ok || len(rs.Results) != 1 || c22TypeString(rs.Results[0]) != "x" {
		return ""
	}
	switch a := call.Args[1].(type) {
	case *ast.Ident:
		if a.Name == "child" {
			return "self"
		}
	case *ast.CallExpr:
		if len(a.Args) == 1 && c22TypeString(a.Args[0]) == "child" {
			return c22TypeString(a.Fun)
		}
	}
	return ""
}
