package main

// C29: interpreter types (xreflect) are canonical and agree with reflect and with Go's typing rules.
//
// Model-tracked ops (one constructor / accessor call per line on ONE universe, `reset` = new
// universe; `$k` = the result of the k-th op line after the last reset):
//
//	reset | basic <reflect.Kind> | special <0 Forward|1 interface{}|2 error>
//	arr <n> $a | slice $a | ptr $a | chan <dir> $a | map $k $e
//	func <0|1 variadic> <$a,$b|-> <$c|->
//	struct <name:pkg:tag:$a;...|->          (empty name = embedded field)
//	named <Name> | setu $n $u
//	elem $a | key $a | field $a <i> | in $a <i> | out $a <i>
//	rel $a $b                               (IdenticalTo; oracle: Assignable/Convertible vs go/types)
//
// Output of a type-valued op: `#id k<Kind()> r<ReflectType().Kind()|F> s<Size> a<Align> c<Comparable> extra`
// where id numbers the distinct *xtype objects in order of creation (NewUniverse creates 0..20);
// the Lean model (Model/Universe.lean) predicts every field, in particular WHEN a new object is made.
//
// Go-only ops (Lean answers "ok"; they never count as `$k`):
//
//	fromr $a            FromReflectType(t.ReflectType()) in the same universe returns the same object
//	impl <spec>         named type with methods vs interface: Implements/AssignableTo vs go/types
//	look <decls>        FieldByName/MethodByName through embedded fields vs go/types and compiled reflect (c29look.go)
//	kinds               ToReflectKind / ToBasicKind round trip
//	imp <pkgpath>       every type of imports.Packages[pkgpath]: FromReflectType round trip vs reflect
//
// Oracles: (1) a textual shadow of every history (Go source of every constructed type, computed
// without xreflect): same source <=> same object (canonicity); (2) reflect: the answers derived
// from the go/types side (Kind, Elem, Key, Len, fields, In/Out, variadic, ChanDir, Comparable,
// String) equal those of ReflectType() for non emulated types, and the component reflect types are
// parallel for all; (3) compiled Go (runGoBatch): reflect facts, unsafe layout and String of the
// same source type; (4) standard go/types on the same source: TypeString, Comparable, Identical,
// AssignableTo, ConvertibleTo, Implements.

import (
	"fmt"
	"go/ast"
	"go/parser"
	"go/token"
	gotypes "go/types"
	"math/rand"
	"reflect"
	"regexp"
	"sort"
	"strconv"
	"strings"

	"github.com/cosmos72/gomacro/go/types"
	"github.com/cosmos72/gomacro/imports"
	xr "github.com/cosmos72/gomacro/xreflect"
)

// ---------------------------------------------------------------- textual shadow

// c29sh is the harness's own description of the Go type an op line denotes.
type c29sh struct {
	kind     string // basic, iface, error, forward, arr, slice, ptr, chan, map, func, struct, named
	n        int    // array length / chan dir / reflect kind of a basic
	variadic bool
	nin      int
	kids     []*c29sh
	fnames   []string // struct: field names as given ("" = embedded)
	fpkgs    []string
	ftags    []string
	name     string // named: type name
	under    *c29sh // named: underlying once set
	line     int
}

var c29basicNames = map[int]string{1: "bool", 2: "int", 3: "int8", 4: "int16", 5: "int32", 6: "int64", 7: "uint", 8: "uint8",
	9: "uint16", 10: "uint32", 11: "uint64", 12: "uintptr", 13: "float32", 14: "float64", 15: "complex64", 16: "complex128",
	24: "string", 26: "unsafe.Pointer"}

// complete reports whether the type mentions no named type whose underlying type is still unset.
func (s *c29sh) complete(seen map[*c29sh]bool) bool {
	if s == nil {
		return false
	}
	switch s.kind {
	case "forward":
		return false
	case "named":
		if s.under == nil {
			return false
		}
		if seen[s] {
			return true
		}
		seen[s] = true
		return s.under.complete(seen)
	}
	for _, k := range s.kids {
		if !k.complete(seen) {
			return false
		}
	}
	return true
}

// exact: reflect can represent the type exactly (no named, embedded or unexported parts, no interface emulation)
func (s *c29sh) exact() bool {
	switch s.kind {
	case "named", "forward":
		return false
	case "struct":
		for i, n := range s.fnames {
			if n == "" || !ast.IsExported(n) || !s.kids[i].exact() {
				return false
			}
		}
		return true
	}
	for _, k := range s.kids {
		if !k.exact() {
			return false
		}
	}
	return true
}

func (s *c29sh) underlying() *c29sh {
	if s.kind == "named" && s.under != nil {
		return s.under.underlying()
	}
	return s
}

// embName is the field name Go gives to an embedded field of this type ("" = cannot be embedded)
func (s *c29sh) embName() string {
	switch s.kind {
	case "basic":
		n := c29basicNames[s.n]
		if i := strings.IndexByte(n, '.'); i >= 0 {
			n = n[i+1:]
		}
		return n
	case "error":
		return "error"
	case "named":
		return s.name
	case "ptr":
		k := s.kids[0]
		if k.kind == "named" || k.kind == "basic" {
			return k.embName()
		}
	}
	return ""
}

func (s *c29sh) src() string {
	switch s.kind {
	case "basic":
		return c29basicNames[s.n]
	case "iface":
		return "interface{}"
	case "error":
		return "error"
	case "forward":
		return "?forward"
	case "arr":
		return "[" + strconv.Itoa(s.n) + "]" + s.kids[0].src()
	case "slice":
		return "[]" + s.kids[0].src()
	case "ptr":
		return "*" + s.kids[0].src()
	case "chan":
		e := s.kids[0].src()
		if s.kids[0].kind == "chan" && s.kids[0].n == 1 {
			e = "(" + e + ")"
		}
		switch s.n {
		case 1:
			return "<-chan " + e
		case 2:
			return "chan<- " + e
		}
		return "chan " + e
	case "map":
		return "map[" + s.kids[0].src() + "]" + s.kids[1].src()
	case "func":
		var in, out []string
		for i, k := range s.kids {
			t := k.src()
			if i < s.nin {
				if s.variadic && i == s.nin-1 {
					t = "..." + strings.TrimPrefix(t, "[]")
				}
				in = append(in, t)
			} else {
				out = append(out, t)
			}
		}
		r := "func(" + strings.Join(in, ", ") + ")"
		switch len(out) {
		case 0:
		case 1:
			r += " " + out[0]
		default:
			r += " (" + strings.Join(out, ", ") + ")"
		}
		return r
	case "struct":
		var fs []string
		for i, k := range s.kids {
			f := k.src()
			if s.fnames[i] != "" {
				f = s.fnames[i] + " " + f
			}
			if s.ftags[i] != "" {
				f += " " + strconv.Quote(s.ftags[i])
			}
			fs = append(fs, f)
		}
		return "struct{" + strings.Join(fs, "; ") + "}"
	case "named":
		return s.name
	}
	return "?"
}

// validGo reports whether src() is a type Go accepts (the shadow's own reading of the spec).
func (s *c29sh) validGo() bool {
	switch s.kind {
	case "forward":
		return false
	case "map":
		if !s.kids[0].comparable(map[*c29sh]bool{}) {
			return false
		}
	case "func":
		if s.variadic && (s.nin == 0 || s.kids[s.nin-1].kind != "slice") {
			return false
		}
	case "struct":
		seen := map[string]bool{}
		for i, n := range s.fnames {
			if n == "" {
				n = s.kids[i].embName()
				if n == "" {
					return false
				}
				if b := s.kids[i]; (b.kind == "basic" && b.n == 26) || (b.kind == "ptr" && b.kids[0].kind == "basic" && b.kids[0].n == 26) {
					return false // unsafe.Pointer cannot be embedded
				}
				if s.kids[i].kind == "ptr" && s.kids[i].kids[0].underlying().kind == "ptr" {
					return false
				}
				if u := s.kids[i].underlying(); s.kids[i].kind == "named" && u.kind == "ptr" {
					return false
				}
			}
			if n != "_" && seen[n] {
				return false
			}
			seen[n] = true
		}
	}
	for _, k := range s.kids {
		if !k.validGo() {
			return false
		}
	}
	return true
}

func (s *c29sh) comparable(seen map[*c29sh]bool) bool {
	switch s.kind {
	case "slice", "map", "func":
		return false
	case "arr":
		return s.kids[0].comparable(seen)
	case "struct":
		for _, k := range s.kids {
			if !k.comparable(seen) {
				return false
			}
		}
	case "named":
		if s.under == nil || seen[s] {
			return true
		}
		seen[s] = true
		return s.under.comparable(seen)
	}
	return true
}

// c29shadowHist is the shadow state of one history.
type c29shadowHist struct {
	lines []*c29sh // per op line (nil = no type result)
	named []*c29sh // named types in creation order
}

func (h *c29shadowHist) ref(w string) *c29sh {
	if !strings.HasPrefix(w, "$") {
		return nil
	}
	k, err := strconv.Atoi(w[1:])
	if err != nil || k < 0 || k >= len(h.lines) {
		return nil
	}
	return h.lines[k]
}

func (h *c29shadowHist) refs(w string) ([]*c29sh, bool) {
	if w == "-" {
		return nil, true
	}
	var out []*c29sh
	for _, x := range strings.Split(w, ",") {
		s := h.ref(x)
		if s == nil {
			return nil, false
		}
		out = append(out, s)
	}
	return out, true
}

// step interprets one model-tracked op textually; the result is nil when the shadow cannot tell
// (error cases are decided by the real code and by the Lean model, not here).
func (h *c29shadowHist) step(op string) {
	f := strings.Split(op, " ")
	var res *c29sh
	switch f[0] {
	case "basic":
		if k, err := strconv.Atoi(f[1]); err == nil && c29basicNames[k] != "" {
			res = &c29sh{kind: "basic", n: k}
		}
	case "special":
		switch f[1] {
		case "0":
			res = &c29sh{kind: "forward"}
		case "1":
			res = &c29sh{kind: "iface"}
		case "2":
			res = &c29sh{kind: "error"}
		}
	case "arr", "chan":
		n, _ := strconv.Atoi(f[1])
		if a := h.ref(f[2]); a != nil {
			res = &c29sh{kind: f[0], n: n, kids: []*c29sh{a}}
		}
	case "slice", "ptr":
		if a := h.ref(f[1]); a != nil {
			res = &c29sh{kind: f[0], kids: []*c29sh{a}}
		}
	case "map":
		if a, b := h.ref(f[1]), h.ref(f[2]); a != nil && b != nil {
			res = &c29sh{kind: "map", kids: []*c29sh{a, b}}
		}
	case "func":
		ins, ok1 := h.refs(f[2])
		outs, ok2 := h.refs(f[3])
		if ok1 && ok2 {
			res = &c29sh{kind: "func", variadic: f[1] == "1", nin: len(ins), kids: append(append([]*c29sh{}, ins...), outs...)}
		}
	case "struct":
		res = &c29sh{kind: "struct"}
		if f[1] != "-" {
			for _, fs := range strings.Split(f[1], ";") {
				p := strings.Split(fs, ":")
				if len(p) != 4 || h.ref(p[3]) == nil {
					res = nil
					break
				}
				res.fnames = append(res.fnames, p[0])
				res.fpkgs = append(res.fpkgs, p[1])
				res.ftags = append(res.ftags, p[2])
				res.kids = append(res.kids, h.ref(p[3]))
			}
		}
	case "named":
		res = &c29sh{kind: "named", name: f[1]}
		h.named = append(h.named, res)
	case "setu":
		if a, b := h.ref(f[1]), h.ref(f[2]); a != nil && b != nil && a.kind == "named" && a.under == nil {
			a.under = b
		}
	case "elem":
		if a := h.ref(f[1]); a != nil {
			switch u := a.underlying(); u.kind {
			case "arr", "slice", "ptr", "chan":
				res = u.kids[0]
			case "map":
				res = u.kids[1]
			}
		}
	case "key":
		if a := h.ref(f[1]); a != nil {
			if u := a.underlying(); u.kind == "map" {
				res = u.kids[0]
			}
		}
	case "field", "in", "out":
		i, _ := strconv.Atoi(f[2])
		if a := h.ref(f[1]); a != nil && i >= 0 {
			u := a.underlying()
			switch {
			case f[0] == "field" && u.kind == "struct" && i < len(u.kids):
				res = u.kids[i]
			case f[0] == "in" && u.kind == "func" && i < u.nin:
				res = u.kids[i]
			case f[0] == "out" && u.kind == "func" && u.nin+i < len(u.kids):
				res = u.kids[u.nin+i]
			}
		}
	}
	h.lines = append(h.lines, res)
}

func c29tracked(op string) bool {
	switch strings.SplitN(op, " ", 2)[0] {
	case "basic", "special", "arr", "chan", "slice", "ptr", "map", "func", "struct", "named", "setu", "elem", "key", "field", "in", "out", "rel":
		return true
	}
	return false
}

// ---------------------------------------------------------------- oracle data computed in Prepare

type c29oracle struct {
	std      map[string]gotypes.Type // source -> standard go/types type (same package for the whole history)
	compiled map[string]string       // source -> facts printed by compiled Go
	stdErr   string
}

var c29oracles []*c29oracle // per history

// the facts function, shared verbatim by the compiled oracle programs and the harness
const c29factsSrc = `
func c29norm(s string) string {
	s = strings.ReplaceAll(s, "struct {", "struct{")
	s = strings.ReplaceAll(s, "interface {", "interface{")
	s = strings.ReplaceAll(s, "{ ", "{")
	s = strings.ReplaceAll(s, " }", "}")
	return s
}

func c29rfacts(t reflect.Type) string {
	var sb strings.Builder
	fmt.Fprintf(&sb, "K=%v S=%d A=%d FA=%d C=%v STR=%s", t.Kind(), t.Size(), t.Align(), t.FieldAlign(), t.Comparable(), c29norm(t.String()))
	switch t.Kind() {
	case reflect.Array:
		fmt.Fprintf(&sb, " LEN=%d ELEM=%s", t.Len(), c29norm(t.Elem().String()))
	case reflect.Slice, reflect.Ptr:
		fmt.Fprintf(&sb, " ELEM=%s", c29norm(t.Elem().String()))
	case reflect.Chan:
		fmt.Fprintf(&sb, " DIR=%d ELEM=%s", int(t.ChanDir()), c29norm(t.Elem().String()))
	case reflect.Map:
		fmt.Fprintf(&sb, " KEY=%s ELEM=%s", c29norm(t.Key().String()), c29norm(t.Elem().String()))
	case reflect.Func:
		fmt.Fprintf(&sb, " V=%v IN=", t.IsVariadic())
		for i := 0; i < t.NumIn(); i++ {
			fmt.Fprintf(&sb, "[%s]", c29norm(t.In(i).String()))
		}
		sb.WriteString(" OUT=")
		for i := 0; i < t.NumOut(); i++ {
			fmt.Fprintf(&sb, "[%s]", c29norm(t.Out(i).String()))
		}
	case reflect.Struct:
		fmt.Fprintf(&sb, " NF=%d", t.NumField())
		for i := 0; i < t.NumField(); i++ {
			f := t.Field(i)
			fmt.Fprintf(&sb, " [%s|%d|%v|%s|%s]", f.Name, f.Offset, f.Anonymous, string(f.Tag), c29norm(f.Type.String()))
		}
	}
	return sb.String()
}
`

var c29pkgQual = regexp.MustCompile(`\bs[0-9]+\.`)

// c29xfacts prints the same facts from the xreflect.Type API.
func c29xfacts(t xr.Type) string {
	var sb strings.Builder
	fmt.Fprintf(&sb, "K=%v S=%d A=%d FA=%d C=%v STR=%s", t.Kind(), t.Size(), t.Align(), t.FieldAlign(), t.Comparable(), c29norm(t.String()))
	switch t.Kind() {
	case reflect.Array:
		fmt.Fprintf(&sb, " LEN=%d ELEM=%s", t.Len(), c29norm(t.Elem().String()))
	case reflect.Slice, reflect.Ptr:
		fmt.Fprintf(&sb, " ELEM=%s", c29norm(t.Elem().String()))
	case reflect.Chan:
		fmt.Fprintf(&sb, " DIR=%d ELEM=%s", int(t.ChanDir()), c29norm(t.Elem().String()))
	case reflect.Map:
		fmt.Fprintf(&sb, " KEY=%s ELEM=%s", c29norm(t.Key().String()), c29norm(t.Elem().String()))
	case reflect.Func:
		fmt.Fprintf(&sb, " V=%v IN=", t.IsVariadic())
		for i := 0; i < t.NumIn(); i++ {
			fmt.Fprintf(&sb, "[%s]", c29norm(t.In(i).String()))
		}
		sb.WriteString(" OUT=")
		for i := 0; i < t.NumOut(); i++ {
			fmt.Fprintf(&sb, "[%s]", c29norm(t.Out(i).String()))
		}
	case reflect.Struct:
		fmt.Fprintf(&sb, " NF=%d", t.NumField())
		for i := 0; i < t.NumField(); i++ {
			f := t.Field(i)
			fmt.Fprintf(&sb, " [%s|%d|%v|%s|%s]", f.Name, f.Offset, f.Anonymous, string(f.Tag), c29norm(f.Type.String()))
		}
	}
	return sb.String()
}

func c29norm(s string) string {
	s = strings.ReplaceAll(s, "struct {", "struct{")
	s = strings.ReplaceAll(s, "interface {", "interface{")
	s = strings.ReplaceAll(s, "{ ", "{")
	s = strings.ReplaceAll(s, " }", "}")
	return s
}

func c29rfacts(t reflect.Type) string {
	var sb strings.Builder
	fmt.Fprintf(&sb, "K=%v S=%d A=%d FA=%d C=%v STR=%s", t.Kind(), t.Size(), t.Align(), t.FieldAlign(), t.Comparable(), c29norm(t.String()))
	switch t.Kind() {
	case reflect.Array:
		fmt.Fprintf(&sb, " LEN=%d ELEM=%s", t.Len(), c29norm(t.Elem().String()))
	case reflect.Slice, reflect.Ptr:
		fmt.Fprintf(&sb, " ELEM=%s", c29norm(t.Elem().String()))
	case reflect.Chan:
		fmt.Fprintf(&sb, " DIR=%d ELEM=%s", int(t.ChanDir()), c29norm(t.Elem().String()))
	case reflect.Map:
		fmt.Fprintf(&sb, " KEY=%s ELEM=%s", c29norm(t.Key().String()), c29norm(t.Elem().String()))
	case reflect.Func:
		fmt.Fprintf(&sb, " V=%v IN=", t.IsVariadic())
		for i := 0; i < t.NumIn(); i++ {
			fmt.Fprintf(&sb, "[%s]", c29norm(t.In(i).String()))
		}
		sb.WriteString(" OUT=")
		for i := 0; i < t.NumOut(); i++ {
			fmt.Fprintf(&sb, "[%s]", c29norm(t.Out(i).String()))
		}
	case reflect.Struct:
		fmt.Fprintf(&sb, " NF=%d", t.NumField())
		for i := 0; i < t.NumField(); i++ {
			f := t.Field(i)
			fmt.Fprintf(&sb, " [%s|%d|%v|%s|%s]", f.Name, f.Offset, f.Anonymous, string(f.Tag), c29norm(f.Type.String()))
		}
	}
	return sb.String()
}

// c29histSources returns, for one history, the declarations of its completed named types and the
// distinct sources of complete valid types (in first-appearance order).
func c29histSources(h *c29shadowHist) (decls string, srcs []string) {
	var sb strings.Builder
	for _, n := range h.named {
		if n.under != nil && n.complete(map[*c29sh]bool{}) && n.under.validGo() {
			fmt.Fprintf(&sb, "type %s %s\n", n.name, n.under.src())
		}
	}
	seen := map[string]bool{}
	for _, s := range h.lines {
		if s == nil || !s.complete(map[*c29sh]bool{}) || !s.validGo() {
			continue
		}
		if src := s.src(); !seen[src] {
			seen[src] = true
			srcs = append(srcs, src)
		}
	}
	return sb.String(), srcs
}

type c29unsafeImporter struct{}

func (c29unsafeImporter) Import(path string) (*gotypes.Package, error) {
	if path == "unsafe" {
		return gotypes.Unsafe, nil
	}
	return nil, fmt.Errorf("no package %q", path)
}

func c29stdCheck(decls string, srcs []string) (map[string]gotypes.Type, string) {
	var sb strings.Builder
	sb.WriteString("package p\nimport \"unsafe\"\nvar _ unsafe.Pointer\n")
	sb.WriteString(decls)
	for i, s := range srcs {
		fmt.Fprintf(&sb, "var V%d %s\n", i, s)
	}
	fset := token.NewFileSet()
	file, err := parser.ParseFile(fset, "p.go", sb.String(), 0)
	if err != nil {
		return nil, "parse: " + err.Error()
	}
	var firstErr string
	conf := gotypes.Config{Importer: c29unsafeImporter{}, Error: func(e error) {
		if firstErr == "" {
			firstErr = e.Error()
		}
	}}
	pkg, _ := conf.Check("p", fset, []*ast.File{file}, nil)
	if firstErr != "" || pkg == nil {
		return nil, "check: " + firstErr
	}
	out := map[string]gotypes.Type{}
	for i, s := range srcs {
		if o := pkg.Scope().Lookup("V" + strconv.Itoa(i)); o != nil {
			out[s] = o.Type()
		}
	}
	return out, ""
}

func c29prepare(ops []string) {
	c29oracles = nil
	var hists []*c29shadowHist
	cur := &c29shadowHist{}
	hists = append(hists, cur)
	for _, op := range ops {
		if op == "reset" {
			cur = &c29shadowHist{}
			hists = append(hists, cur)
			continue
		}
		if c29tracked(op) {
			func() {
				defer func() { recover() }()
				n := len(cur.lines)
				cur.step(op)
				if len(cur.lines) == n {
					cur.lines = append(cur.lines, nil)
				}
			}()
		}
	}
	var snippets []Snippet
	var snipHist []int
	var snipSrcs [][]string
	// the compiled batch is bounded to ~300 packages: in large runs every k-th history gets the
	// compiled-Go oracle, all histories keep the reflect / go/types / shadow oracles
	nwith := 0
	for _, h := range hists {
		if _, srcs := c29histSources(h); len(srcs) > 0 {
			nwith++
		}
	}
	stride := (nwith + 299) / 300
	if stride < 1 {
		stride = 1
	}
	for hi, h := range hists {
		o := &c29oracle{}
		c29oracles = append(c29oracles, o)
		decls, srcs := c29histSources(h)
		if len(srcs) == 0 {
			continue
		}
		o.std, o.stdErr = c29stdCheck(decls, srcs)
		if o.std == nil {
			continue
		}
		if hi%stride != 0 {
			continue
		}
		var body strings.Builder
		for _, s := range srcs {
			fmt.Fprintf(&body, "\temit(c29rfacts(reflect.TypeOf((*%s)(nil)).Elem()))\n", s)
		}
		snippets = append(snippets, Snippet{Imports: []string{"reflect", "strings", "unsafe"}, Decls: "var _ unsafe.Pointer\n" + decls + c29factsSrc, Body: body.String()})
		snipHist = append(snipHist, hi)
		snipSrcs = append(snipSrcs, srcs)
	}
	var lookOps []string
	seenLook := map[string]bool{}
	for _, op := range ops {
		if strings.HasPrefix(op, "look ") && !seenLook[op] {
			seenLook[op] = true
			lookOps = append(lookOps, op)
		}
	}
	var lookDone func(string)
	if len(lookOps) > 0 {
		var sn Snippet
		sn, lookDone = c29lookSnippet(lookOps)
		snippets = append(snippets, sn)
		snipHist = append(snipHist, -1)
		snipSrcs = append(snipSrcs, nil)
	}
	if len(snippets) == 0 {
		return
	}
	outs, err := runGoBatch("C29", snippets)
	if err != nil {
		c29batchErr = err.Error()
		return
	}
	for i, out := range outs {
		if snipHist[i] < 0 {
			lookDone(out)
			continue
		}
		o := c29oracles[snipHist[i]]
		o.compiled = map[string]string{}
		lines := strings.Split(out, "\n")
		for j, s := range snipSrcs[i] {
			if j < len(lines) {
				o.compiled[s] = c29pkgQual.ReplaceAllString(lines[j], "p.")
			}
		}
	}
}

var c29batchErr string

// ---------------------------------------------------------------- execution state

type c29state struct {
	hist   int
	v      *xr.Universe
	ts     []xr.Type // per op line
	ids    map[uintptr]int
	shadow *c29shadowHist
	bySrc  map[string]int // source of complete type -> id (canonicity)
	byID   map[int]string
	xnamed []xr.Type
}

var c29st *c29state

func c29ptr(t xr.Type) uintptr {
	if t == nil {
		return 0
	}
	v := reflect.ValueOf(t)
	out := v.Call([]reflect.Value{reflect.Zero(v.Type().In(0))})
	return out[0].Pointer()
}

func (st *c29state) id(t xr.Type) int {
	p := c29ptr(t)
	if id, ok := st.ids[p]; ok {
		return id
	}
	id := len(st.ids)
	st.ids[p] = id
	return id
}

func c29reset(hist int) {
	st := &c29state{hist: hist, v: xr.NewUniverse(), ids: map[uintptr]int{}, shadow: &c29shadowHist{}, bySrc: map[string]int{}, byID: map[int]string{}}
	// the 21 objects NewUniverse creates, in creation order
	for gk := types.Bool; gk <= types.UnsafePointer; gk++ {
		st.id(st.v.BasicTypes[xr.ToReflectKind(gk)])
	}
	st.id(st.v.TypeOfForward)
	st.id(st.v.TypeOfInterface)
	st.id(st.v.TypeOfError)
	c29st = st
}

func (st *c29state) ref(w string) xr.Type {
	if !strings.HasPrefix(w, "$") {
		panic("bad ref")
	}
	k, err := strconv.Atoi(w[1:])
	if err != nil || k < 0 || k >= len(st.ts) || st.ts[k] == nil {
		panic("bad ref")
	}
	return st.ts[k]
}

func (st *c29state) refs(w string) []xr.Type {
	if w == "-" {
		return nil
	}
	var out []xr.Type
	for _, x := range strings.Split(w, ",") {
		out = append(out, st.ref(x))
	}
	return out
}

var c29pkgP *xr.Package

func (st *c29state) pkg(p string) *xr.Package {
	if p == "" {
		return nil
	}
	return st.v.LoadPackage(p)
}

// run executes a type-valued op on the real code.
func (st *c29state) run(f []string) (t xr.Type, isType bool, plain string) {
	v := st.v
	atoi := func(s string) int {
		n, err := strconv.Atoi(s)
		if err != nil {
			panic("bad number")
		}
		return n
	}
	switch f[0] {
	case "basic":
		k := atoi(f[1])
		if k < 0 || k >= len(v.BasicTypes) || v.BasicTypes[k] == nil {
			panic("no such basic type")
		}
		return v.BasicTypes[k], true, ""
	case "special":
		switch f[1] {
		case "0":
			return v.TypeOfForward, true, ""
		case "1":
			return v.TypeOfInterface, true, ""
		case "2":
			return v.TypeOfError, true, ""
		}
		panic("bad special")
	case "arr":
		return v.ArrayOf(atoi(f[1]), st.ref(f[2])), true, ""
	case "slice":
		return v.SliceOf(st.ref(f[1])), true, ""
	case "ptr":
		return v.PtrTo(st.ref(f[1])), true, ""
	case "chan":
		d := atoi(f[1])
		if d < 1 || d > 3 {
			panic("bad dir")
		}
		return v.ChanOf(reflect.ChanDir(d), st.ref(f[2])), true, ""
	case "map":
		return v.MapOf(st.ref(f[1]), st.ref(f[2])), true, ""
	case "func":
		return v.FuncOf(st.refs(f[2]), st.refs(f[3]), f[1] == "1"), true, ""
	case "struct":
		var fields []xr.StructField
		if f[1] != "-" {
			for _, fs := range strings.Split(f[1], ";") {
				p := strings.Split(fs, ":")
				if len(p) != 4 {
					panic("bad field")
				}
				fields = append(fields, xr.StructField{Name: p[0], Pkg: st.pkg(p[1]), Tag: reflect.StructTag(p[2]), Type: st.ref(p[3])})
			}
		}
		return v.StructOf(fields), true, ""
	case "named":
		t := v.NamedOf(f[1], "p")
		st.xnamed = append(st.xnamed, t)
		return t, true, ""
	case "setu":
		st.ref(f[1]).SetUnderlying(st.ref(f[2]))
		return nil, false, "ok"
	case "elem":
		return st.ref(f[1]).Elem(), true, ""
	case "key":
		return st.ref(f[1]).Key(), true, ""
	case "field":
		return st.ref(f[1]).Field(atoi(f[2])).Type, true, ""
	case "in":
		return st.ref(f[1]).In(atoi(f[2])), true, ""
	case "out":
		return st.ref(f[1]).Out(atoi(f[2])), true, ""
	case "rel":
		return nil, false, strconv.FormatBool(st.ref(f[1]).IdenticalTo(st.ref(f[2])))
	}
	panic("unknown op")
}

func c29facts(st *c29state, t xr.Type) string {
	rt := t.ReflectType()
	rk := strconv.Itoa(int(rt.Kind()))
	if rt == reflect.TypeOf((*xr.Forward)(nil)).Elem() {
		rk = "F"
	}
	cmp := "0"
	if t.Comparable() {
		cmp = "1"
	}
	extra := "-"
	switch t.Kind() {
	case reflect.Struct:
		if rt.Kind() == reflect.Struct {
			var offs []string
			for i := 0; i < t.NumField(); i++ {
				offs = append(offs, strconv.Itoa(int(t.Field(i).Offset)))
			}
			extra = "f" + strings.Join(offs, ",")
			if len(offs) == 0 {
				extra = "f-"
			}
		} else {
			extra = "f?"
		}
	case reflect.Array:
		extra = "n" + strconv.Itoa(t.Len())
	case reflect.Func:
		v := "0"
		if t.IsVariadic() {
			v = "1"
		}
		extra = fmt.Sprintf("i%do%dv%s", t.NumIn(), t.NumOut(), v)
	case reflect.Chan:
		extra = "d" + strconv.Itoa(int(t.ChanDir()))
	}
	return fmt.Sprintf("#%d k%d r%s s%d a%d c%s %s", st.id(t), int(t.Kind()), rk, t.Size(), t.Align(), cmp, extra)
}

type c29viol struct{ key, msg string }

func c29exec(op string) Result {
	if c29st == nil {
		c29reset(0)
	}
	if op == "reset" {
		c29reset(c29st.hist + 1)
		res := Result{Out: "ok", Tags: []string{"reset"}}
		if c29batchErr != "" {
			res.Viol, res.Key = truncate(c29batchErr, 600), "harness-oracle-batch-failed"
		} else if h := c29st.hist; h < len(c29oracles) && c29oracles[h].stdErr != "" {
			res.Viol, res.Key = c29oracles[h].stdErr, "harness-std-check-failed"
		}
		return res
	}
	f := strings.Split(op, " ")
	if !c29tracked(op) {
		return c29execOther(f)
	}
	st := c29st
	res := Result{Tags: []string{"op:" + f[0]}}
	var viol []c29viol
	add := func(key, format string, args ...interface{}) {
		viol = append(viol, c29viol{key, fmt.Sprintf(format, args...)})
	}
	// shadow first (never touches xreflect)
	func() {
		defer func() { recover() }()
		n := len(st.shadow.lines)
		st.shadow.step(op)
		if len(st.shadow.lines) == n {
			st.shadow.lines = append(st.shadow.lines, nil)
		}
	}()
	for len(st.shadow.lines) <= len(st.ts) {
		st.shadow.lines = append(st.shadow.lines, nil)
	}
	sh := st.shadow.lines[len(st.ts)]
	var t xr.Type
	var isType bool
	var plain, errText string
	func() {
		defer func() {
			if e := recover(); e != nil {
				errText = oneLine(fmt.Sprint(e))
				if er, ok := e.(error); ok {
					errText = oneLine(er.Error())
				}
			}
		}()
		t, isType, plain = st.run(f)
	}()
	if errText != "" {
		st.ts = append(st.ts, nil)
		res.Out = "ERR"
		res.Tags = append(res.Tags, "err")
		// the real code refuses although the shadow says this is a valid complete Go type
		if sh != nil && sh.complete(map[*c29sh]bool{}) && sh.validGo() && f[0] != "chan" {
			add("valid-type-rejected:"+f[0], "valid Go type %s rejected: %s", sh.src(), truncate(errText, 120))
		}
		return c29finish(res, viol)
	}
	if !isType {
		st.ts = append(st.ts, nil)
		res.Out = plain
		if f[0] == "rel" {
			c29relOracle(st, f, plain == "true", add)
			res.Nontrivial = true
		}
		return c29finish(res, viol)
	}
	if t == nil {
		st.ts = append(st.ts, nil)
		res.Out = "ERR"
		return c29finish(res, viol)
	}
	st.ts = append(st.ts, t)
	func() {
		defer func() {
			if e := recover(); e != nil {
				res.Out = "FACTS-PANIC " + truncate(oneLine(fmt.Sprint(e)), 100)
				add("facts-panic:"+f[0], "querying the result of %s panics: %v", op, truncate(oneLine(fmt.Sprint(e)), 160))
			}
		}()
		res.Out = c29facts(st, t)
	}()
	res.Nontrivial = true
	id := st.id(t)
	if sh != nil {
		c29typeOracles(st, f[0], t, id, sh, add, &res)
	}
	return c29finish(res, viol)
}

func c29finish(res Result, viol []c29viol) Result {
	if len(viol) > 0 {
		res.Viol = viol[0].msg
		res.Key = viol[0].key
		for _, v := range viol[1:] {
			res.Viol += " || " + v.key + ": " + v.msg
		}
		res.Viol = truncate(res.Viol, 600)
	}
	return res
}

var c29fwdType = reflect.TypeOf((*xr.Forward)(nil)).Elem()

// c29typeOracles checks one constructed type against the shadow, reflect, compiled Go and go/types.
func c29typeOracles(st *c29state, opname string, t xr.Type, id int, sh *c29sh, add func(string, string, ...interface{}), res *Result) {
	complete := sh.complete(map[*c29sh]bool{})
	src := sh.src()
	tagc := "complete"
	if !complete {
		tagc = "incomplete"
	}
	res.Tags = append(res.Tags, tagc)
	sfx := ""
	if !complete || c29mentionsRecursive(sh, map[*c29sh]bool{}) {
		sfx = "-recursive"
	}
	// (1) canonicity: same source <=> same object
	if sh.kind != "forward" {
		if old, ok := st.bySrc[src]; ok {
			res.Tags = append(res.Tags, "again")
			if old != id {
				add("noncanonical"+sfx+":"+opname, "%s built again by %s is object #%d, first was #%d", src, opname, id, old)
			}
		} else {
			st.bySrc[src] = id
			if other, ok := st.byID[id]; ok && other != src {
				add("conflated"+sfx+":"+opname, "%s and %s are the same object #%d", src, other, id)
			}
		}
		if _, ok := st.byID[id]; !ok {
			st.byID[id] = src
		}
	}
	rt := t.ReflectType()
	// (2) go/types-side answers vs the reflect type held by the same object
	if rt != c29fwdType && !(t.Kind() == reflect.Interface && rt.Kind() == reflect.Ptr) {
		if t.Kind() != rt.Kind() && !(sh.kind == "named" && sh.under == nil) {
			add("kind-vs-reflect", "%s: Kind()=%v, ReflectType().Kind()=%v", src, t.Kind(), rt.Kind())
		} else {
			c29parallel(t, rt, src, add)
		}
		if sh.exact() && complete {
			if a, b := c29xfacts(t), c29rfacts(rt); a != b {
				add("facts-vs-reflect:"+sh.kind, "%s: xreflect says %s, reflect says %s", src, a, b)
			}
		}
	}
	if !complete || !sh.validGo() {
		return
	}
	var o *c29oracle
	if st.hist < len(c29oracles) {
		o = c29oracles[st.hist]
	}
	if o == nil {
		return
	}
	// (3) compiled Go
	if want, ok := o.compiled[src]; ok && rt != c29fwdType && sfx == "" {
		res.Tags = append(res.Tags, "compiled-oracle")
		if got := c29xfacts(t); got != want {
			add("facts-vs-compiled:"+sh.kind, "%s: xreflect says %s, compiled Go says %s", src, got, want)
		}
	}
	// (4) standard go/types
	if T, ok := o.std[src]; ok {
		res.Tags = append(res.Tags, "gotypes-oracle")
		want := gotypes.TypeString(T, func(p *gotypes.Package) string { return p.Name() })
		if got := t.String(); got != want {
			add("string-vs-gotypes:"+sh.kind, "%s: String()=%q, go/types prints %q", src, got, want)
		}
		if got, want := t.Comparable(), gotypes.Comparable(T); got != want {
			add("comparable-vs-gotypes:"+sh.kind, "%s: Comparable()=%v, go/types says %v", src, got, want)
		}
	}
}

func c29mentionsRecursive(s *c29sh, stack map[*c29sh]bool) bool {
	if s == nil {
		return false
	}
	if s.kind == "named" {
		if stack[s] {
			return true
		}
		stack[s] = true
		defer delete(stack, s)
		return c29mentionsRecursive(s.under, stack)
	}
	for _, k := range s.kids {
		if c29mentionsRecursive(k, stack) {
			return true
		}
	}
	return false
}

// c29parallel: the component types the object reports (from go/types) carry the component reflect types.
func c29parallel(t xr.Type, rt reflect.Type, src string, add func(string, string, ...interface{})) {
	defer func() {
		if e := recover(); e != nil {
			add("parallel-panic", "%s: %v", src, truncate(oneLine(fmt.Sprint(e)), 160))
		}
	}()
	chk := func(what string, c xr.Type, rc reflect.Type) {
		if c.ReflectType() != rc && c.ReflectType() != c29fwdType {
			add("parallel:"+what, "%s: %s has reflect type %v, the reflect type says %v", src, what, c.ReflectType(), rc)
		}
	}
	switch t.Kind() {
	case reflect.Array:
		if t.Len() != rt.Len() {
			add("parallel:len", "%s: Len()=%d, reflect %d", src, t.Len(), rt.Len())
		}
		chk("elem", t.Elem(), rt.Elem())
	case reflect.Slice, reflect.Ptr:
		chk("elem", t.Elem(), rt.Elem())
	case reflect.Chan:
		if t.ChanDir() != rt.ChanDir() {
			add("parallel:chandir", "%s: ChanDir()=%v, reflect %v", src, t.ChanDir(), rt.ChanDir())
		}
		chk("elem", t.Elem(), rt.Elem())
	case reflect.Map:
		chk("key", t.Key(), rt.Key())
		chk("elem", t.Elem(), rt.Elem())
	case reflect.Func:
		if t.NumIn() != rt.NumIn() || t.NumOut() != rt.NumOut() || t.IsVariadic() != rt.IsVariadic() {
			add("parallel:func", "%s: in/out/variadic %d/%d/%v, reflect %d/%d/%v", src, t.NumIn(), t.NumOut(), t.IsVariadic(), rt.NumIn(), rt.NumOut(), rt.IsVariadic())
			return
		}
		for i := 0; i < t.NumIn(); i++ {
			chk("in", t.In(i), rt.In(i))
		}
		for i := 0; i < t.NumOut(); i++ {
			chk("out", t.Out(i), rt.Out(i))
		}
	case reflect.Struct:
		if t.NumField() != rt.NumField() {
			add("parallel:numfield", "%s: NumField()=%d, reflect %d", src, t.NumField(), rt.NumField())
			return
		}
		for i := 0; i < t.NumField(); i++ {
			f, rf := t.Field(i), rt.Field(i)
			chk("field", f.Type, rf.Type)
			rname := strings.TrimPrefix(strings.TrimPrefix(rf.Name, xr.StrGensymPrivate), xr.StrGensymAnonymous)
			if f.Name != rname || f.Offset != rf.Offset || string(f.Tag) != string(rf.Tag) {
				add("parallel:fieldinfo", "%s: field %d is %s@%d %q, reflect %s@%d %q", src, i, f.Name, f.Offset, f.Tag, rf.Name, rf.Offset, rf.Tag)
			}
		}
	}
}

// c29relOracle: IdenticalTo / AssignableTo / ConvertibleTo of two constructed types.
func c29relOracle(st *c29state, f []string, ident bool, add func(string, string, ...interface{})) {
	a, b := st.ref(f[1]), st.ref(f[2])
	sa, sb := st.shadow.ref(f[1]), st.shadow.ref(f[2])
	if sa == nil || sb == nil {
		return
	}
	if same := st.id(a) == st.id(b); same != ident && sa.kind != "forward" && sb.kind != "forward" {
		sfx := ""
		if !sa.complete(map[*c29sh]bool{}) || !sb.complete(map[*c29sh]bool{}) || c29mentionsRecursive(sa, map[*c29sh]bool{}) || c29mentionsRecursive(sb, map[*c29sh]bool{}) {
			sfx = "-recursive"
		}
		add("identical-vs-object"+sfx, "%s vs %s: IdenticalTo=%v but same object=%v", sa.src(), sb.src(), ident, same)
	}
	if !sa.complete(map[*c29sh]bool{}) || !sb.complete(map[*c29sh]bool{}) || !sa.validGo() || !sb.validGo() {
		return
	}
	if want := sa.src() == sb.src(); want != ident {
		add("identical-vs-source", "%s vs %s: IdenticalTo=%v", sa.src(), sb.src(), ident)
	}
	if st.hist >= len(c29oracles) || c29oracles[st.hist] == nil {
		return
	}
	o := c29oracles[st.hist]
	A, B := o.std[sa.src()], o.std[sb.src()]
	if A == nil || B == nil {
		return
	}
	if want := gotypes.Identical(A, B); want != ident {
		add("identical-vs-gotypes", "%s vs %s: IdenticalTo=%v, go/types %v", sa.src(), sb.src(), ident, want)
	}
	emu := ""
	if !sa.exact() || !sb.exact() {
		emu = "-emulated"
	}
	check := func(name string, got func() bool, want bool) {
		defer func() {
			if e := recover(); e != nil {
				add(name+"-panic", "%s -> %s: %v", sa.src(), sb.src(), truncate(oneLine(fmt.Sprint(e)), 120))
			}
		}()
		if g := got(); g != want {
			add(name+"-vs-gotypes"+emu+":"+sa.underlying().kind+"-"+sb.underlying().kind, "%s -> %s: %s=%v, go/types says %v", sa.src(), sb.src(), name, g, want)
		}
	}
	check("assignable", func() bool { return a.AssignableTo(b) }, gotypes.AssignableTo(A, B))
	check("convertible", func() bool { return a.ConvertibleTo(b) }, gotypes.ConvertibleTo(A, B))
	if _, ok := B.Underlying().(*gotypes.Interface); ok {
		check("implements", func() bool { return a.Implements(b) }, gotypes.Implements(A, B.Underlying().(*gotypes.Interface)))
	}
}

// ---------------------------------------------------------------- Go-only ops

func c29execOther(f []string) (res Result) {
	res = Result{Out: "ok", Tags: []string{"op:" + f[0]}, Nontrivial: true}
	var viol []c29viol
	add := func(key, format string, args ...interface{}) {
		viol = append(viol, c29viol{key, fmt.Sprintf(format, args...)})
	}
	defer func() {
		if e := recover(); e != nil {
			add(f[0]+"-panic", "%s: %v", strings.Join(f, " "), truncate(oneLine(fmt.Sprint(e)), 200))
		}
		res = c29finish(res, viol)
	}()
	switch f[0] {
	case "fromr":
		st := c29st
		t := st.ref(f[1])
		sh := st.shadow.ref(f[1])
		if sh == nil || !sh.exact() || !sh.complete(map[*c29sh]bool{}) {
			res.Tags = append(res.Tags, "fromr-skipped-emulated")
			return
		}
		u := st.v.FromReflectType(t.ReflectType())
		if c29ptr(u) != c29ptr(t) {
			add("fromreflect-noncanonical:"+sh.kind, "%s: FromReflectType(ReflectType()) is another object (%v)", sh.src(), u)
		}
	case "kinds":
		c29kinds(add)
	case "look":
		c29look(f[1], add, &res)
	case "impl":
		c29impl(f[1:], add, &res)
	case "imp":
		c29imp(f[1], add, &res)
	default:
		res.Out = "ok"
		res.Nontrivial = false
	}
	return
}

func c29kinds(add func(string, string, ...interface{})) {
	for gk := types.Bool; gk <= types.UnsafePointer; gk++ {
		k := xr.ToReflectKind(gk)
		if back := xr.ToBasicKind(k, false); back != gk {
			add("tobasickind-typed:"+k.String(), "ToBasicKind(%v, untyped=false) = %v, want %v", k, types.Typ[back], types.Typ[gk])
		}
		if types.Typ[gk].Name() != strings.TrimPrefix(c29basicNames[int(k)], "unsafe.") {
			add("toreflectkind:"+k.String(), "ToReflectKind(%v) = %v", types.Typ[gk], k)
		}
	}
	for _, gk := range []types.BasicKind{types.UntypedBool, types.UntypedInt, types.UntypedRune, types.UntypedFloat, types.UntypedComplex, types.UntypedString} {
		k := xr.ToReflectKind(gk)
		if back := xr.ToBasicKind(k, true); back != gk {
			add("tobasickind-untyped:"+k.String(), "ToBasicKind(%v, untyped=true) = %v, want %v", k, types.Typ[back], types.Typ[gk])
		}
	}
}

// impl <tkind> <tmethods> <imethods>
//
//	tkind: i (type T int) | s (type T struct{A int}) | e (type E int with methods; type T struct{E}) | p (type E..; type T struct{*E})
//	tmethods: comma list of <name><recv v|p><sig 0|1>, e.g. Av0,bp1 ; "-" = none
//	imethods: comma list of <name><sig>, "-" = none
//
// builds T (and E) with NamedOf/SetUnderlying/AddMethod and I with InterfaceOf; compares
// Implements / AssignableTo of T and *T against go/types on the equivalent source.
func c29impl(f []string, add func(string, string, ...interface{}), res *Result) {
	tkind, tm, im := f[0], f[1], f[2]
	v := xr.NewUniverse()
	tint, tstr := v.BasicTypes[reflect.Int], v.BasicTypes[reflect.String]
	pkg := v.LoadPackage("p")
	sigs := func(recv xr.Type, k byte) xr.Type {
		switch k {
		case '0':
			return v.MethodOf(recv, nil, []xr.Type{tint}, false)
		case '2': // the only parameter is variadic
			return v.MethodOf(recv, []xr.Type{v.SliceOf(tint)}, nil, true)
		}
		return v.MethodOf(recv, []xr.Type{tstr}, nil, false)
	}
	sigSrc := func(k byte) string {
		switch k {
		case '0':
			return "() int"
		case '2':
			return "(xs ...int)"
		}
		return "(string)"
	}
	var src strings.Builder
	src.WriteString("package p\n")
	holder := "T" // the type the methods are declared on
	T := v.NamedOf("T", "p")
	var E xr.Type
	switch tkind {
	case "i":
		T.SetUnderlying(tint)
		src.WriteString("type T int\n")
	case "s":
		T.SetUnderlying(v.StructOf([]xr.StructField{{Name: "A", Type: tint}}))
		src.WriteString("type T struct{A int}\n")
	case "e", "p":
		holder = "E"
		E = v.NamedOf("E", "p")
		E.SetUnderlying(tint)
		src.WriteString("type E int\n")
	}
	H := T
	if E != nil {
		H = E
	}
	type md struct {
		name string
		recv byte
		sig  byte
	}
	var mds []md
	if tm != "-" {
		for _, m := range strings.Split(tm, ",") {
			mds = append(mds, md{m[:len(m)-2], m[len(m)-2], m[len(m)-1]})
		}
	}
	for _, m := range mds {
		recv := H
		rs := holder
		if m.recv == 'p' {
			recv = v.PtrTo(H)
			rs = "*" + holder
		}
		sig := sigs(recv, m.sig)
		H.AddMethod(m.name, sig)
		fmt.Fprintf(&src, "func (x %s) %s%s { panic(0) }\n", rs, m.name, sigSrc(m.sig))
	}
	switch tkind {
	case "e":
		T.SetUnderlying(v.StructOf([]xr.StructField{{Type: E}}))
		src.WriteString("type T struct{E}\n")
	case "p":
		T.SetUnderlying(v.StructOf([]xr.StructField{{Type: v.PtrTo(E)}}))
		src.WriteString("type T struct{*E}\n")
	}
	var inames []string
	var itypes []xr.Type
	src.WriteString("type I interface{")
	if im != "-" {
		for _, m := range strings.Split(im, ",") {
			name, k := m[:len(m)-1], m[len(m)-1]
			inames = append(inames, name)
			switch k {
			case '0':
				itypes = append(itypes, v.FuncOf(nil, []xr.Type{tint}, false))
			case '2':
				itypes = append(itypes, v.FuncOf([]xr.Type{v.SliceOf(tint)}, nil, true))
			default:
				itypes = append(itypes, v.FuncOf([]xr.Type{tstr}, nil, false))
			}
			fmt.Fprintf(&src, " %s%s;", name, sigSrc(k))
		}
	}
	src.WriteString("}\nvar VT T\nvar VP *T\nvar VI I\n")
	I := v.InterfaceOf(pkg, inames, itypes, nil).Complete()
	// method facts of the holder: Method(i) round trip
	if H.NumMethod() != len(mds) {
		add("nummethod", "%s with %d declared methods: NumMethod()=%d", holder, len(mds), H.NumMethod())
	} else {
		for i := 0; i < H.NumMethod(); i++ {
			m := H.Method(i)
			if m.Type == nil {
				add("method-type-nil", "%s.Method(%d) %s has nil Type", holder, i, m.Name)
			}
		}
	}
	if tkind == "e" || tkind == "p" {
		// a method declared on T itself besides the promoted ones
		T.AddMethod("Own", sigs(T, '0'))
		src.WriteString("func (x T) Own() int { panic(0) }\n")
		if m := T.Method(0); m.Type == nil {
			add("method-type-nil-embedded", "T.Method(0) %s has nil Type after AddMethod on a struct with an embedded field that has %d methods", m.Name, len(mds))
		} else if !m.Type.IdenticalTo(sigs(T, '0')) {
			add("method-type-differs", "T.Method(0).Type = %v", m.Type)
		}
	}
	fset := token.NewFileSet()
	file, err := parser.ParseFile(fset, "p.go", src.String(), 0)
	if err != nil {
		panic(err)
	}
	gp, err := (&gotypes.Config{}).Check("p", fset, []*ast.File{file}, nil)
	if err != nil {
		res.Tags = append(res.Tags, "impl-invalid-source")
		return
	}
	gT, gP, gI := gp.Scope().Lookup("VT").Type(), gp.Scope().Lookup("VP").Type(), gp.Scope().Lookup("VI").Type()
	gi := gI.Underlying().(*gotypes.Interface)
	// the methods of the interface: signature and its reflect type agree with the declaration
	if I.NumMethod() != gi.NumMethods() {
		add("iface-nummethod", "I has %d methods, NumMethod()=%d", gi.NumMethods(), I.NumMethod())
	} else {
		for i := 0; i < I.NumMethod(); i++ {
			m := I.Method(i)
			var want *gotypes.Signature
			for j := 0; j < gi.NumMethods(); j++ {
				if gi.Method(j).Name() == m.Name {
					want = gi.Method(j).Type().(*gotypes.Signature)
				}
			}
			if want == nil || m.Type == nil {
				add("iface-method-missing", "I.Method(%d) = %s (type %v)", i, m.Name, m.Type)
				continue
			}
			rt := m.Type.ReflectType()
			if m.Type.IsVariadic() != want.Variadic() || rt.IsVariadic() != want.Variadic() || rt.NumIn() != m.Type.NumIn() || m.Type.NumIn() != want.Params().Len()+1 {
				add("iface-method-variadic", "I.%s: declared variadic=%v with %d parameters; Method(%d).Type variadic=%v NumIn=%d, its reflect type %v", m.Name, want.Variadic(), want.Params().Len(), i, m.Type.IsVariadic(), m.Type.NumIn(), rt)
			}
		}
	}
	P := v.PtrTo(T)
	for _, c := range []struct {
		name string
		x    xr.Type
		g    gotypes.Type
	}{{"T", T, gT}, {"*T", P, gP}} {
		if got, want := c.x.Implements(I), gotypes.Implements(c.g, gi); got != want {
			add("implements-vs-gotypes:"+tkind, "%s Implements I = %v, go/types %v; source: %s", c.name, got, want, oneLine(src.String()))
		}
		if got, want := c.x.AssignableTo(I), gotypes.AssignableTo(c.g, gI); got != want {
			add("assignable-iface-vs-gotypes:"+tkind, "%s AssignableTo I = %v, go/types %v; source: %s", c.name, got, want, oneLine(src.String()))
		}
	}
	res.Tags = append(res.Tags, fmt.Sprintf("impl:%v", gotypes.Implements(gT, gi)))
}

// imp <pkgpath>: every type of the precompiled import table of the package
func c29imp(path string, add func(string, string, ...interface{}), res *Result) {
	pkg, ok := imports.Packages[path]
	if !ok {
		res.Tags = append(res.Tags, "imp-missing")
		return
	}
	v := xr.NewUniverse()
	seen := map[reflect.Type]bool{}
	var work []reflect.Type
	push := func(rt reflect.Type) {
		if rt != nil && !seen[rt] {
			seen[rt] = true
			work = append(work, rt)
		}
	}
	var names []string
	for n := range pkg.Types {
		names = append(names, n)
	}
	sort.Strings(names)
	for _, n := range names {
		push(pkg.Types[n])
	}
	names = names[:0]
	for n := range pkg.Binds {
		names = append(names, n)
	}
	sort.Strings(names)
	for _, n := range names {
		if b := pkg.Binds[n]; b.IsValid() {
			push(b.Type())
		}
	}
	count := 0
	for len(work) > 0 && count < 4000 {
		rt := work[0]
		work = work[1:]
		count++
		c29impOne(v, rt, add, push)
	}
	res.Tags = append(res.Tags, "imp-types:"+strconv.Itoa(count/50*50))
}

func c29impOne(v *xr.Universe, rt reflect.Type, add func(string, string, ...interface{}), push func(reflect.Type)) {
	name := rt.String()
	defer func() {
		if e := recover(); e != nil {
			add("fromreflect-panic:"+rt.Kind().String(), "%s: %v", name, truncate(oneLine(fmt.Sprint(e)), 200))
		}
	}()
	t := v.FromReflectType(rt)
	if t == nil {
		add("fromreflect-nil", "%s", name)
		return
	}
	if u := v.FromReflectType(rt); c29ptr(u) != c29ptr(t) {
		add("fromreflect-twice:"+rt.Kind().String(), "%s: two calls give two objects", name)
	}
	if t.ReflectType() != rt {
		if strings.Contains(t.ReflectType().String(), "xreflect.Forward") {
			// recursive compiled type converted without package metadata: Forward placeholders
			add("fromreflect-forward-approximation:"+rt.Kind().String(), "%s: ReflectType() = %v", name, t.ReflectType())
			return
		}
		// unnamed types that contain named components are rebuilt ("cleaned"): must still be the same reflect type
		add("fromreflect-rtype:"+rt.Kind().String(), "%s: ReflectType() = %v", name, t.ReflectType())
	}
	if t.Kind() != rt.Kind() {
		add("fromreflect-kind:"+rt.Kind().String(), "%s: Kind() = %v", name, t.Kind())
		return
	}
	// go/types convention: named types print with their package path
	if rt.Name() != "" {
		want := rt.Name()
		if rt.PkgPath() != "" {
			want = rt.PkgPath() + "." + rt.Name()
		}
		if t.String() != want {
			add("fromreflect-string", "%s: String() = %q, want %q", name, t.String(), want)
		}
	}
	if t.Size() != rt.Size() || t.Align() != rt.Align() {
		add("fromreflect-size", "%s", name)
	}
	if t.Comparable() != rt.Comparable() {
		add("fromreflect-comparable:"+rt.Kind().String(), "%s: Comparable() = %v, reflect %v", name, t.Comparable(), rt.Comparable())
	}
	c29parallel(t, rt, name, add)
	switch rt.Kind() {
	case reflect.Array, reflect.Slice, reflect.Ptr, reflect.Chan:
		push(rt.Elem())
	case reflect.Map:
		push(rt.Key())
		push(rt.Elem())
	case reflect.Func:
		for i := 0; i < rt.NumIn(); i++ {
			push(rt.In(i))
		}
		for i := 0; i < rt.NumOut(); i++ {
			push(rt.Out(i))
		}
	case reflect.Struct:
		for i := 0; i < rt.NumField(); i++ {
			f, xf := rt.Field(i), t.Field(i)
			if f.Anonymous != xf.Anonymous {
				add("fromreflect-anonymous", "%s field %s", name, f.Name)
			}
			push(f.Type)
		}
	case reflect.Interface:
		if t.NumMethod() != rt.NumMethod() {
			add("fromreflect-iface-nummethod", "%s: NumMethod() = %d, reflect %d", name, t.NumMethod(), rt.NumMethod())
		} else {
			for i := 0; i < rt.NumMethod(); i++ {
				xm, rm := t.Method(i), rt.Method(i)
				if xm.Name != rm.Name {
					add("fromreflect-iface-method", "%s: Method(%d) = %s, reflect %s", name, i, xm.Name, rm.Name)
				} else if xm.Type != nil {
					// the method as a function: receiver first, same parameters, same variadic flag
					if xrt := xm.Type.ReflectType(); xrt.Kind() == reflect.Func &&
						(xrt.IsVariadic() != rm.Type.IsVariadic() || xrt.NumIn() != rm.Type.NumIn()+1 || xm.Type.IsVariadic() != rm.Type.IsVariadic()) {
						add("fromreflect-iface-method-variadic", "%s.%s: reflect says %v, Method(%d).Type has reflect type %v (variadic %v)", name, rm.Name, rm.Type, i, xrt, xm.Type.IsVariadic())
					}
				}
			}
		}
	}
	// exported methods of named non-interface types are all found by name
	if rt.Name() != "" && rt.Kind() != reflect.Interface && rt.Kind() != reflect.Ptr {
		pt := reflect.PtrTo(rt)
		for i := 0; i < pt.NumMethod(); i++ {
			m := pt.Method(i)
			if _, n := t.MethodByName(m.Name, ""); n != 1 {
				add("fromreflect-method-missing", "%s: MethodByName(%s) count %d", name, m.Name, n)
				break
			}
		}
	}
}

func init() {
	register(&Prop{
		ID:   "C29",
		Rule: "constructor/accessor histories on one xreflect.Universe (bounded-exhaustive composite types, each built twice in different orders, plus recursive named types and malformed calls): object identity, kind, reflect kind, size, align, offsets, comparable compared with the Lean model line by line; Go-side oracles: textual shadow (same source <=> same object), reflect, compiled Go, standard go/types; non-trivial = op returned a type or a relation",
		Gen:  c29gen,
		Exec: c29exec,
		Exhaustive: func(tier string) bool {
			return false
		},
		Prepare: c29prepare,
	})
	_ = rand.Int
}
