package main

// Shared go/ast closure extractor (C01, reusable by C02/C03/C34/C38).
//
// It walks the body of a Go function of package fast and transcribes — without evaluating
// anything — every specialised closure (`fun = func(env *Env) T { ... }`, `ret = func(...)`,
// `return func(...)`) into a ClosureIR `Entry` (lean/Model/ClosureIR.lean):
//
//	fn     name of the enclosing Go function
//	path   the chain of enclosing conditions: "if C" / "not(C)" for if-else chains (and for code
//	       following an `if` whose body always returns), "switch TAG" + "case L1, L2" / "default",
//	       "typeswitch X" + "case T"
//	binds  the `name := expr` definitions in scope that the closure (transitively) refers to,
//	       in source order, each with its defining Go expression as IR
//	ret    the closure's result type, `named` when the result is a named zero-valued result
//	body   the closure body as IR statements
//
// and every other statement with an effect on the result of the function (early `return`s of
// shortcuts, error calls) as an `Action` (path + canonical source text).  Anything that cannot be
// translated becomes `.opaque "<source>"`, which no template contains: an untranslatable arm is a
// broken obligation, never silently ignored.

import (
	"bytes"
	"fmt"
	"go/ast"
	"go/parser"
	"go/printer"
	"go/token"
	"os"
	"path/filepath"
	"sort"
	"strconv"
	"strings"
)

type irBind struct {
	name string
	expr ast.Expr // nil for `var name T` declarations
	lean string
}

type irEntry struct {
	fn    string
	path  []string
	binds []irBind
	ret   string
	named bool
	body  []string
}

type irAction struct {
	fn   string
	path []string
	text string
}

type closureExtractor struct {
	fset    *token.FileSet
	fn      string
	entries []irEntry
	actions []irAction
	// names of variables a closure is assigned to (`fun`, `ret`): assignments of a FuncLit to any
	// identifier are treated as arms
}

var basicKindNames = map[string]string{"bool": "bool", "int": "int", "int8": "int8", "int16": "int16", "int32": "int32", "int64": "int64",
	"uint": "uint", "uint8": "uint8", "uint16": "uint16", "uint32": "uint32", "uint64": "uint64", "uintptr": "uintptr",
	"float32": "float32", "float64": "float64", "complex64": "complex64", "complex128": "complex128", "string": "string"}

var goBinOps = map[token.Token]string{token.ADD: "add", token.SUB: "sub", token.MUL: "mul", token.QUO: "quo", token.REM: "rem",
	token.AND: "and", token.OR: "or", token.XOR: "xor", token.AND_NOT: "andNot", token.SHL: "shl", token.SHR: "shr",
	token.LAND: "land", token.LOR: "lor", token.EQL: "eql", token.NEQ: "neq", token.LSS: "lss", token.LEQ: "leq", token.GTR: "gtr", token.GEQ: "geq"}

var goAssignOps = map[token.Token]string{token.ADD_ASSIGN: "add", token.SUB_ASSIGN: "sub", token.MUL_ASSIGN: "mul", token.QUO_ASSIGN: "quo",
	token.REM_ASSIGN: "rem", token.AND_ASSIGN: "and", token.OR_ASSIGN: "or", token.XOR_ASSIGN: "xor", token.AND_NOT_ASSIGN: "andNot",
	token.SHL_ASSIGN: "shl", token.SHR_ASSIGN: "shr"}

func (x *closureExtractor) src(n ast.Node) string {
	var b bytes.Buffer
	printer.Fprint(&b, x.fset, n)
	// canonical: single line, single blanks
	return strings.Join(strings.Fields(b.String()), " ")
}

func leanStr(s string) string { return strconv.Quote(s) }

func (x *closureExtractor) opaque(n ast.Node) string { return "(.opaque " + leanStr(x.src(n)) + ")" }

// funcEnvResult: for the type `func(*Env) T` / `func(env *Env) T` returns T's basic kind name
func funcEnvResult(t ast.Expr) (string, bool) {
	ft, ok := t.(*ast.FuncType)
	if !ok || ft.Params == nil || len(ft.Params.List) != 1 || ft.Results == nil || len(ft.Results.List) != 1 {
		return "", false
	}
	st, ok := ft.Params.List[0].Type.(*ast.StarExpr)
	if !ok {
		return "", false
	}
	if id, ok := st.X.(*ast.Ident); !ok || id.Name != "Env" {
		return "", false
	}
	id, ok := ft.Results.List[0].Type.(*ast.Ident)
	if !ok {
		return "", false
	}
	k, ok := basicKindNames[id.Name]
	return k, ok
}

func selName(e ast.Expr) (string, bool) {
	switch e := e.(type) {
	case *ast.Ident:
		return e.Name, true
	case *ast.SelectorExpr:
		if p, ok := selName(e.X); ok {
			return p + "." + e.Sel.Name, true
		}
	}
	return "", false
}

// expr translates a Go expression into a ClosureIR E term
func (x *closureExtractor) expr(e ast.Expr) string {
	switch e := e.(type) {
	case *ast.ParenExpr:
		return x.expr(e.X)
	case *ast.Ident:
		return "(.var " + leanStr(e.Name) + ")"
	case *ast.BasicLit:
		switch e.Kind {
		case token.INT:
			if n, err := strconv.ParseInt(e.Value, 0, 64); err == nil {
				return fmt.Sprintf("(.int %d)", n)
			}
		case token.STRING:
			if s, err := strconv.Unquote(e.Value); err == nil {
				return "(.str " + leanStr(s) + ")"
			}
		}
		return x.opaque(e)
	case *ast.BinaryExpr:
		if op, ok := goBinOps[e.Op]; ok {
			return "(.bin ." + op + " " + x.expr(e.X) + " " + x.expr(e.Y) + ")"
		}
		return x.opaque(e)
	case *ast.UnaryExpr:
		switch e.Op {
		case token.SUB:
			return "(.un .neg " + x.expr(e.X) + ")"
		case token.ADD:
			return "(.un .plus " + x.expr(e.X) + ")"
		case token.NOT:
			return "(.un .not " + x.expr(e.X) + ")"
		case token.XOR:
			return "(.un .xor " + x.expr(e.X) + ")"
		case token.AND:
			return "(.addr " + x.expr(e.X) + ")"
		}
		return x.opaque(e)
	case *ast.StarExpr:
		return "(.deref " + x.expr(e.X) + ")"
	case *ast.SelectorExpr:
		return "(.sel " + x.expr(e.X) + " " + leanStr(e.Sel.Name) + ")"
	case *ast.IndexExpr:
		return "(.index " + x.expr(e.X) + " " + x.expr(e.Index) + ")"
	case *ast.TypeAssertExpr:
		if e.Type != nil {
			if k, ok := funcEnvResult(e.Type); ok {
				return "(.assertFun " + x.expr(e.X) + " ." + k + ")"
			}
		}
		return x.opaque(e)
	case *ast.CallExpr:
		// closure application f(env)
		if len(e.Args) == 1 {
			if a, ok := e.Args[0].(*ast.Ident); ok && a.Name == "env" {
				if _, isSel := e.Fun.(*ast.SelectorExpr); !isSel {
					return "(.app " + x.expr(e.Fun) + ")"
				}
			}
		}
		// conversion to a basic type T(a)
		if id, ok := e.Fun.(*ast.Ident); ok && len(e.Args) == 1 {
			if k, ok := basicKindNames[id.Name]; ok {
				return "(.conv ." + k + " " + x.expr(e.Args[0]) + ")"
			}
		}
		// pointer cast (*T)(p) with basic T
		if p, ok := e.Fun.(*ast.ParenExpr); ok && len(e.Args) == 1 {
			if st, ok := p.X.(*ast.StarExpr); ok {
				if id, ok := st.X.(*ast.Ident); ok {
					if k, ok := basicKindNames[id.Name]; ok {
						return "(.ptrCast ." + k + " " + x.expr(e.Args[0]) + ")"
					}
				}
			}
		}
		// method call a.m(args) (receiver is not a package) or function call f(args) / pkg.f(args)
		if sel, ok := e.Fun.(*ast.SelectorExpr); ok {
			if id, ok := sel.X.(*ast.Ident); ok && (id.Name == "xr" || id.Name == "unsafe" || id.Name == "reflect" || id.Name == "r") {
				name := id.Name + "." + sel.Sel.Name
				switch len(e.Args) {
				case 1:
					return "(.call1 " + leanStr(name) + " " + x.expr(e.Args[0]) + ")"
				case 2:
					return "(.call2 " + leanStr(name) + " " + x.expr(e.Args[0]) + " " + x.expr(e.Args[1]) + ")"
				}
				return x.opaque(e)
			}
			switch len(e.Args) {
			case 0:
				return "(.meth0 " + x.expr(sel.X) + " " + leanStr(sel.Sel.Name) + ")"
			case 1:
				return "(.meth1 " + x.expr(sel.X) + " " + leanStr(sel.Sel.Name) + " " + x.expr(e.Args[0]) + ")"
			}
			return x.opaque(e)
		}
		if id, ok := e.Fun.(*ast.Ident); ok {
			switch len(e.Args) {
			case 1:
				return "(.call1 " + leanStr(id.Name) + " " + x.expr(e.Args[0]) + ")"
			case 2:
				return "(.call2 " + leanStr(id.Name) + " " + x.expr(e.Args[0]) + " " + x.expr(e.Args[1]) + ")"
			}
		}
		return x.opaque(e)
	}
	return x.opaque(e)
}

// stmt translates a statement of a closure body into a ClosureIR S term
func (x *closureExtractor) stmt(s ast.Stmt) string {
	switch s := s.(type) {
	case *ast.ReturnStmt:
		switch len(s.Results) {
		case 0:
			return ".retNamed"
		case 1:
			return "(.ret " + x.expr(s.Results[0]) + ")"
		case 2:
			return "(.ret2 " + x.expr(s.Results[0]) + " " + x.expr(s.Results[1]) + ")"
		}
	case *ast.ExprStmt:
		return "(.expr " + x.expr(s.X) + ")"
	case *ast.IncDecStmt:
		if s.Tok == token.INC {
			return "(.inc " + x.expr(s.X) + ")"
		}
	case *ast.AssignStmt:
		if len(s.Lhs) == 1 && len(s.Rhs) == 1 {
			switch {
			case s.Tok == token.DEFINE:
				if id, ok := s.Lhs[0].(*ast.Ident); ok {
					return "(.define " + leanStr(id.Name) + " " + x.expr(s.Rhs[0]) + ")"
				}
			case s.Tok == token.ASSIGN:
				return "(.assign " + x.expr(s.Lhs[0]) + " " + x.expr(s.Rhs[0]) + ")"
			default:
				if op, ok := goAssignOps[s.Tok]; ok {
					return "(.opAssign " + x.expr(s.Lhs[0]) + " ." + op + " " + x.expr(s.Rhs[0]) + ")"
				}
			}
		}
		if len(s.Lhs) == 2 && len(s.Rhs) == 1 && s.Tok == token.DEFINE {
			a, ok1 := s.Lhs[0].(*ast.Ident)
			b, ok2 := s.Lhs[1].(*ast.Ident)
			if ok1 && ok2 {
				return "(.define2 " + leanStr(a.Name) + " " + leanStr(b.Name) + " " + x.expr(s.Rhs[0]) + ")"
			}
		}
	case *ast.IfStmt:
		if s.Init == nil && s.Else == nil && len(s.Body.List) == 1 {
			return "(.ifThen " + x.expr(s.Cond) + " " + x.stmt(s.Body.List[0]) + ")"
		}
	}
	return "(.opaque " + leanStr(x.src(s)) + ")"
}

type scope struct {
	binds []irBind
}

func (x *closureExtractor) closure(path []string, binds []irBind, lit *ast.FuncLit) {
	e := irEntry{fn: x.fn, path: append([]string(nil), path...)}
	// result type
	res := lit.Type.Results
	switch {
	case res == nil || len(res.List) == 0:
		e.ret = "(.other \"\")"
	case len(res.List) == 1:
		e.ret = x.retType(res.List[0].Type)
		e.named = len(res.List[0].Names) > 0
	default:
		var ts []string
		for _, f := range res.List {
			ts = append(ts, x.src(f.Type))
		}
		e.ret = "(.other " + leanStr("("+strings.Join(ts, ", ")+")") + ")"
	}
	// parameters must be exactly (env *Env) / (*Env)
	if p := lit.Type.Params; p == nil || len(p.List) != 1 || x.src(p.List[0].Type) != "*Env" {
		e.ret = "(.other " + leanStr("params:"+x.src(lit.Type)) + ")"
	}
	for _, s := range lit.Body.List {
		if _, ok := s.(*ast.EmptyStmt); ok {
			continue
		}
		e.body = append(e.body, x.stmt(s))
	}
	// slice of the bindings: those transitively referenced by the closure body
	need := map[string]bool{}
	ast.Inspect(lit.Body, func(n ast.Node) bool {
		if id, ok := n.(*ast.Ident); ok {
			need[id.Name] = true
		}
		return true
	})
	var keep []irBind
	for i := len(binds) - 1; i >= 0; i-- {
		b := binds[i]
		if !need[b.name] {
			continue
		}
		keep = append(keep, b)
		if b.expr != nil {
			// names used by the defining expression refer to EARLIER bindings
			refs := map[string]bool{}
			ast.Inspect(b.expr, func(n ast.Node) bool {
				if id, ok := n.(*ast.Ident); ok {
					refs[id.Name] = true
				}
				return true
			})
			// an earlier binding of the same name is still needed only if the expression refers to it
			if !refs[b.name] {
				delete(need, b.name)
			}
			for r := range refs {
				need[r] = true
			}
		} else {
			delete(need, b.name)
		}
	}
	for i, j := 0, len(keep)-1; i < j; i, j = i+1, j-1 {
		keep[i], keep[j] = keep[j], keep[i]
	}
	e.binds = keep
	x.entries = append(x.entries, e)
}

func (x *closureExtractor) retType(t ast.Expr) string {
	if id, ok := t.(*ast.Ident); ok {
		if k, ok := basicKindNames[id.Name]; ok {
			return "(.kind ." + k + ")"
		}
	}
	return "(.other " + leanStr(x.src(t)) + ")"
}

func (x *closureExtractor) action(path []string, text string) {
	x.actions = append(x.actions, irAction{fn: x.fn, path: append([]string(nil), path...), text: text})
}

var terminatorCalls = map[string]bool{"c.Errorf": true, "c.invalidBinaryExpr": true, "c.invalidUnaryExpr": true, "output.Errorf": true, "g.Errorf": true,
	"c.unimplementedBinaryExpr": true, "c.badBinaryExpr": true, "c.mismatchedTypes": true, "panic": true}

func (x *closureExtractor) terminates(list []ast.Stmt) bool {
	if len(list) == 0 {
		return false
	}
	switch s := list[len(list)-1].(type) {
	case *ast.ReturnStmt:
		return true
	case *ast.ExprStmt:
		if c, ok := s.X.(*ast.CallExpr); ok {
			if n, ok := selName(c.Fun); ok && terminatorCalls[n] {
				return true
			}
		}
	case *ast.IfStmt:
		if s.Else == nil {
			return false
		}
		thenT := x.terminates(s.Body.List)
		switch e := s.Else.(type) {
		case *ast.BlockStmt:
			return thenT && x.terminates(e.List)
		case *ast.IfStmt:
			return thenT && x.terminates([]ast.Stmt{e})
		}
	}
	return false
}

// block walks a statement list; returns the path extended by the negated conditions of
// `if`s whose body always returns (the code after them runs only when the condition is false)
func (x *closureExtractor) block(path []string, binds []irBind, list []ast.Stmt) {
	path = append([]string(nil), path...)
	binds = append([]irBind(nil), binds...)
	for _, s := range list {
		switch s := s.(type) {
		case *ast.EmptyStmt:
		case *ast.DeclStmt:
			if gd, ok := s.Decl.(*ast.GenDecl); ok && gd.Tok == token.VAR {
				for _, sp := range gd.Specs {
					vs := sp.(*ast.ValueSpec)
					for i, n := range vs.Names {
						if len(vs.Values) > i {
							binds = append(binds, irBind{name: n.Name, expr: vs.Values[i], lean: x.expr(vs.Values[i])})
						} else {
							binds = append(binds, irBind{name: n.Name, lean: "(.decl " + leanStr(x.src(vs.Type)) + ")"})
						}
					}
				}
				continue
			}
			x.action(path, x.src(s))
		case *ast.AssignStmt:
			x.assign(path, &binds, s)
		case *ast.BlockStmt:
			x.block(path, binds, s.List)
		case *ast.IfStmt:
			x.ifStmt(path, binds, s)
			if s.Else == nil && x.terminates(s.Body.List) {
				if s.Init != nil {
					path = append(path, "init "+x.src(s.Init))
				}
				path = append(path, "not("+x.src(s.Cond)+")")
			} else if s.Else != nil {
				// if-else-if chain where every branch but the implicit last one returns
				if conds, ok := x.chainAllReturn(s); ok {
					path = append(path, conds...)
				}
			}
		case *ast.SwitchStmt:
			tag := ""
			if s.Tag != nil {
				tag = x.src(s.Tag)
			}
			if s.Init != nil {
				tag = x.src(s.Init) + "; " + tag
			}
			for _, cl := range s.Body.List {
				cc := cl.(*ast.CaseClause)
				lbl := "default"
				if cc.List != nil {
					var ls []string
					for _, e := range cc.List {
						ls = append(ls, x.src(e))
					}
					lbl = "case " + strings.Join(ls, ", ")
				}
				x.block(append(append([]string(nil), path...), "switch "+tag, lbl), binds, cc.Body)
			}
		case *ast.TypeSwitchStmt:
			tag := x.src(s.Assign)
			for _, cl := range s.Body.List {
				cc := cl.(*ast.CaseClause)
				lbl := "default"
				var b2 = binds
				if cc.List != nil {
					var ls []string
					for _, e := range cc.List {
						ls = append(ls, x.src(e))
					}
					lbl = "case " + strings.Join(ls, ", ")
					// `switch x := x.(type) { case func(env *Env) T:` binds x at that type
					if as, ok := s.Assign.(*ast.AssignStmt); ok && len(cc.List) == 1 {
						if id, ok := as.Lhs[0].(*ast.Ident); ok {
							ta := as.Rhs[0].(*ast.TypeAssertExpr)
							if k, ok := funcEnvResult(cc.List[0]); ok {
								b2 = append(append([]irBind(nil), binds...), irBind{name: id.Name, expr: ta.X, lean: "(.assertFun " + x.expr(ta.X) + " ." + k + ")"})
							} else if t := x.src(cc.List[0]); t == "func(*Env) xr.Value" || t == "func(env *Env) xr.Value" {
								b2 = append(append([]irBind(nil), binds...), irBind{name: id.Name, expr: ta.X, lean: "(.assertFunX " + x.expr(ta.X) + ")"})
							} else if t == "func(*Env) (xr.Value, []xr.Value)" || t == "func(env *Env) (xr.Value, []xr.Value)" {
								b2 = append(append([]irBind(nil), binds...), irBind{name: id.Name, expr: ta.X, lean: "(.assertFunXV " + x.expr(ta.X) + ")"})
							} else {
								b2 = append(append([]irBind(nil), binds...), irBind{name: id.Name, expr: ta.X, lean: "(.opaque " + leanStr(x.src(as)+" : "+x.src(cc.List[0])) + ")"})
							}
						}
					}
				}
				x.block(append(append([]string(nil), path...), "typeswitch "+tag, lbl), b2, cc.Body)
			}
		case *ast.ReturnStmt:
			if len(s.Results) == 1 {
				if lit, ok := s.Results[0].(*ast.FuncLit); ok {
					x.closure(append(append([]string(nil), path...), "return"), binds, lit)
					continue
				}
				// return wrap(func(env *Env) T {...})
				if call, ok := s.Results[0].(*ast.CallExpr); ok && len(call.Args) == 1 {
					if lit, ok := call.Args[0].(*ast.FuncLit); ok {
						x.closure(append(append([]string(nil), path...), "return "+x.src(call.Fun)), binds, lit)
						continue
					}
				}
			}
			x.action(path, x.src(s))
		default:
			x.action(path, x.src(s))
		}
	}
}

// chainAllReturn: for `if A {..return} else if B {..return}` (no final else) gives [not(A), not(B)]
func (x *closureExtractor) chainAllReturn(s *ast.IfStmt) ([]string, bool) {
	var conds []string
	for {
		if !x.terminates(s.Body.List) {
			return nil, false
		}
		if s.Init != nil {
			conds = append(conds, "init "+x.src(s.Init))
		}
		conds = append(conds, "not("+x.src(s.Cond)+")")
		switch e := s.Else.(type) {
		case nil:
			return conds, true
		case *ast.IfStmt:
			s = e
		default:
			return nil, false
		}
	}
}

func (x *closureExtractor) ifStmt(path []string, binds []irBind, s *ast.IfStmt) {
	p := append([]string(nil), path...)
	b := binds
	if s.Init != nil {
		p = append(p, "init "+x.src(s.Init))
		if as, ok := s.Init.(*ast.AssignStmt); ok {
			b = append([]irBind(nil), binds...)
			x.assignBinds(&b, as)
		}
	}
	x.block(append(append([]string(nil), p...), "if "+x.src(s.Cond)), b, s.Body.List)
	neg := append(append([]string(nil), p...), "not("+x.src(s.Cond)+")")
	switch e := s.Else.(type) {
	case *ast.BlockStmt:
		x.block(neg, b, e.List)
	case *ast.IfStmt:
		x.ifStmt(neg, b, e)
	}
}

func (x *closureExtractor) assignBinds(binds *[]irBind, s *ast.AssignStmt) bool {
	if s.Tok != token.DEFINE {
		return false
	}
	if len(s.Lhs) == len(s.Rhs) {
		// parallel definition: every right-hand side refers to the OLD bindings
		var nb []irBind
		for i := range s.Lhs {
			if id, ok := s.Lhs[i].(*ast.Ident); ok {
				nb = append(nb, irBind{name: id.Name, expr: s.Rhs[i], lean: x.expr(s.Rhs[i])})
			}
		}
		*binds = append(*binds, nb...)
		return true
	}
	if len(s.Rhs) == 1 {
		for i := range s.Lhs {
			if id, ok := s.Lhs[i].(*ast.Ident); ok {
				*binds = append(*binds, irBind{name: id.Name, expr: s.Rhs[0], lean: fmt.Sprintf("(.tuple %d %s)", i, x.expr(s.Rhs[0]))})
			}
		}
		return true
	}
	return false
}

func (x *closureExtractor) assign(path []string, binds *[]irBind, s *ast.AssignStmt) {
	// arm: IDENT = func(env *Env) ... {...}
	if s.Tok == token.ASSIGN && len(s.Lhs) == 1 && len(s.Rhs) == 1 {
		if lit, ok := s.Rhs[0].(*ast.FuncLit); ok {
			x.closure(path, *binds, lit)
			return
		}
	}
	if x.assignBinds(binds, s) {
		return
	}
	// plain assignment to an outer variable (e.g. `y = uint64(-sy)`, `ypositive = false`): part of the
	// hand-transcribed prologue; recorded as action so that a change is visible
	x.action(path, x.src(s))
}

// ---- Lean rendering ----

func leanList(items []string, indent string) string {
	if len(items) == 0 {
		return "[]"
	}
	return "[" + strings.Join(items, ",\n"+indent) + "]"
}

func (e *irEntry) lean() string {
	var ps, bs []string
	for _, p := range e.path {
		ps = append(ps, leanStr(p))
	}
	for _, b := range e.binds {
		bs = append(bs, "("+leanStr(b.name)+", "+b.lean+")")
	}
	named := "false"
	if e.named {
		named = "true"
	}
	return fmt.Sprintf("{ fn := %s, path := [%s],\n       arm := { binds := %s,\n                ret := %s, named := %s,\n                body := %s } }",
		leanStr(e.fn), strings.Join(ps, ", "), leanList(bs, "                  "), e.ret, named, leanList(e.body, "                  "))
}

func (a *irAction) lean() string {
	var ps []string
	for _, p := range a.path {
		ps = append(ps, leanStr(p))
	}
	return fmt.Sprintf("{ fn := %s, path := [%s], text := %s }", leanStr(a.fn), strings.Join(ps, ", "), leanStr(a.text))
}

// extractFuncs parses file and extracts the named functions/methods (in the given order)
func extractFuncs(file string, names []string) (map[string]*closureExtractor, error) {
	fset := token.NewFileSet()
	f, err := parser.ParseFile(fset, file, nil, 0)
	if err != nil {
		return nil, err
	}
	want := map[string]bool{}
	for _, n := range names {
		want[n] = true
	}
	out := map[string]*closureExtractor{}
	for _, d := range f.Decls {
		fd, ok := d.(*ast.FuncDecl)
		if !ok || fd.Body == nil {
			continue
		}
		name := fd.Name.Name
		if fd.Recv != nil && len(fd.Recv.List) == 1 {
			t := fd.Recv.List[0].Type
			if st, ok := t.(*ast.StarExpr); ok {
				t = st.X
			}
			if id, ok := t.(*ast.Ident); ok && want[id.Name+"."+name] {
				name = id.Name + "." + name
			}
		}
		if !want[name] {
			continue
		}
		x := &closureExtractor{fset: fset, fn: name}
		x.block(nil, nil, fd.Body.List)
		out[name] = x
	}
	for _, n := range names {
		if out[n] == nil {
			return nil, fmt.Errorf("%s: function %s not found", file, n)
		}
	}
	return out, nil
}

// funcSource returns the canonical one-line source of each statement of a function body
// (used to tie hand-transcribed helper functions such as isPowerOfTwo / integerLen to the source)
func funcSource(file, name string) ([]string, error) {
	fset := token.NewFileSet()
	f, err := parser.ParseFile(fset, file, nil, 0)
	if err != nil {
		return nil, err
	}
	for _, d := range f.Decls {
		if fd, ok := d.(*ast.FuncDecl); ok && fd.Name.Name == name && fd.Body != nil {
			x := &closureExtractor{fset: fset}
			out := []string{x.src(fd.Type)}
			for _, s := range fd.Body.List {
				out = append(out, x.src(s))
			}
			return out, nil
		}
	}
	return nil, fmt.Errorf("%s: function %s not found", file, name)
}

type genDef struct {
	name    string // Lean identifier
	entries []irEntry
	actions []irAction
	strs    []string
	kind    int // 0 entries, 1 actions, 2 strings
}

// writeGenFile writes one lean/Gen/<Module>.lean
func writeGenFile(genDir, module, header string, defs []genDef) error {
	var b bytes.Buffer
	fmt.Fprintf(&b, "import Model.ClosureIR\n/-! REGENERATED by `harness extract` from %s — do not edit. -/\nnamespace Gen.%s\nopen ClosureIR\nset_option maxRecDepth 100000\n\n", header, module)
	for _, d := range defs {
		switch d.kind {
		case 0:
			var items []string
			for i := range d.entries {
				items = append(items, d.entries[i].lean())
			}
			fmt.Fprintf(&b, "def %s : List Entry :=\n  %s\n\n", d.name, leanList(items, "   "))
		case 1:
			var items []string
			for i := range d.actions {
				items = append(items, d.actions[i].lean())
			}
			fmt.Fprintf(&b, "def %s : List Action :=\n  %s\n\n", d.name, leanList(items, "   "))
		case 2:
			var items []string
			for _, s := range d.strs {
				items = append(items, leanStr(s))
			}
			fmt.Fprintf(&b, "def %s : List String :=\n  %s\n\n", d.name, leanList(items, "   "))
		}
	}
	fmt.Fprintf(&b, "end Gen.%s\n", module)
	return os.WriteFile(filepath.Join(genDir, module+".lean"), b.Bytes(), 0o644)
}

func lowerFirst(s string) string {
	if s == "" {
		return s
	}
	return strings.ToLower(s[:1]) + s[1:]
}

func sortedKeys(m map[string]*closureExtractor) []string {
	var ks []string
	for k := range m {
		ks = append(ks, k)
	}
	sort.Strings(ks)
	return ks
}
