package main

// C04: untyped constant expressions are exact and agree with Go's constant arithmetic.
//
// Op lines (tokens separated by ONE blank; the expression is in postfix form so that the Lean
// driver needs no expression parser, only the Go literal grammar):
//
//	u <rpn>          evaluate the untyped expression with OptKeepUntyped -> kind + exact value
//	d <T> <rpn>      var x T = <expr>; x          (T one of the 17 basic kinds)
//	c <T> <rpn>      T(<expr>)                    (constant conversion)
//	b <B> <rpn>      var x *big.B = <expr>; x     (B = Int | Rat | Float; gomacro extension)
//
// rpn tokens: Go literals in real Go syntax (0b 0o 0x, _ separators, hex floats, imaginary, rune
// and string literals, true/false), binary operators + - * / % & | ^ &^ << >> == != < <= > >= && ||,
// unary operators neg pos cpl not, builtins real imag cmplx.
//
// Three independent evaluations of every op:
//   (A) the real interpreter (fast.Interp, OptKeepUntyped),
//   (E) an exact evaluator over math/big Int/Rat written here from the Go specification
//       (own literal parser, no go/constant) - this is the specification oracle,
//   (T) the standard library go/types + go/constant on the same source (kind, value via
//       constant.Compare, accept/reject of typed declarations), and compiled Go (runGoBatch) for
//       the run-time value of every declaration go/types accepts.
// Out (compared with the Lean model) is computed from (A).  Ops on which some float/complex
// intermediate has a numerator or denominator of >= c04Limit bits are outside the model
// (go/constant itself switches from big.Rat to a 512-bit big.Float near 4096 bits): both sides
// print "big"; the oracle still compares (A) with (E) there and reports key
// untyped-float-beyond-rat-range-approximate when they differ (DESIGN F9).

import (
	"fmt"
	"go/ast"
	"go/constant"
	"go/importer"
	"go/parser"
	"go/token"
	"go/types"
	"math"
	"math/big"
	"math/rand"
	"os"
	"reflect"
	"sort"
	"strconv"
	"strings"
	"unicode/utf8"

	"github.com/cosmos72/gomacro/base"
	"github.com/cosmos72/gomacro/base/untyped"
	"github.com/cosmos72/gomacro/fast"
)

const c04Limit = 1000 // bits; see header

// ---------------------------------------------------------------- exact values

const (
	c04Bool = iota
	c04Str
	c04Int
	c04Rune
	c04Float
	c04Cplx
)

var c04kindName = []string{"bool", "string", "int", "rune", "float", "complex"}

type c04val struct {
	k      int
	b      bool
	s      string
	re, im *big.Rat // numeric kinds; im == 0 unless k == c04Cplx
}

func c04num(k int, re, im *big.Rat) *c04val {
	if im == nil {
		im = new(big.Rat)
	}
	return &c04val{k: k, re: re, im: im}
}

func (v *c04val) isNum() bool { return v.k >= c04Int }
func (v *c04val) isInt() bool { return v.k == c04Int || v.k == c04Rune }

func c04rat(r *big.Rat) string { return r.Num().String() + "/" + r.Denom().String() }

func (v *c04val) String() string {
	switch v.k {
	case c04Bool:
		return fmt.Sprint("bool ", v.b)
	case c04Str:
		return "string " + strconv.Quote(v.s)
	case c04Int, c04Rune:
		return c04kindName[v.k] + " " + v.re.Num().String()
	case c04Float:
		return "float " + c04rat(v.re)
	}
	return "complex " + c04rat(v.re) + " " + c04rat(v.im)
}

// ---------------------------------------------------------------- literal parser (own, from the spec)

func c04digits(s string, base int) (*big.Int, bool) {
	if s == "" {
		return nil, false
	}
	n := new(big.Int)
	bb := big.NewInt(int64(base))
	for _, c := range []byte(s) {
		var d int
		switch {
		case c >= '0' && c <= '9':
			d = int(c - '0')
		case c >= 'a' && c <= 'f':
			d = int(c-'a') + 10
		case c >= 'A' && c <= 'F':
			d = int(c-'A') + 10
		default:
			return nil, false
		}
		if d >= base {
			return nil, false
		}
		n.Mul(n, bb)
		n.Add(n, big.NewInt(int64(d)))
	}
	return n, true
}

func c04pow(base int64, e int64) *big.Rat {
	p := new(big.Int).Exp(big.NewInt(base), big.NewInt(abs64(e)), nil)
	if e >= 0 {
		return new(big.Rat).SetInt(p)
	}
	return new(big.Rat).SetFrac(big.NewInt(1), p)
}

func abs64(x int64) int64 {
	if x < 0 {
		return -x
	}
	return x
}

// mantissa "ddd.ddd" in the given base, exponent text (decimal, optional sign), exponent base
func c04mantExp(mant, exp string, base int, ebase int64, perDigit int64) (*big.Rat, bool) {
	ip, fp, _ := strings.Cut(mant, ".")
	if ip == "" && fp == "" {
		return nil, false
	}
	n, ok := c04digits(ip+fp, base)
	if !ok {
		return nil, false
	}
	var e int64
	if exp != "" {
		x, err := strconv.ParseInt(exp, 10, 32)
		if err != nil {
			return nil, false
		}
		e = x
	}
	r := new(big.Rat).SetInt(n)
	if base == 16 {
		return r.Mul(r, c04pow(2, e-4*int64(len(fp)))), true
	}
	_ = perDigit
	r.Mul(r, c04pow(10, -int64(len(fp))))
	return r.Mul(r, c04pow(ebase, e)), true
}

func c04parseLit(tok string) (*c04val, bool) {
	switch {
	case tok == "true":
		return &c04val{k: c04Bool, b: true}, true
	case tok == "false":
		return &c04val{k: c04Bool, b: false}, true
	case tok[0] == '"':
		s, err := strconv.Unquote(tok)
		return &c04val{k: c04Str, s: s}, err == nil
	case tok[0] == '\'':
		if len(tok) < 3 || tok[len(tok)-1] != '\'' {
			return nil, false
		}
		r, _, tail, err := strconv.UnquoteChar(tok[1:len(tok)-1], '\'')
		if err != nil || tail != "" {
			return nil, false
		}
		return c04num(c04Rune, new(big.Rat).SetInt64(int64(r)), nil), true
	}
	imag := strings.HasSuffix(tok, "i")
	s := strings.ReplaceAll(strings.TrimSuffix(tok, "i"), "_", "")
	if s == "" {
		return nil, false
	}
	var v *big.Rat
	isFloat := false
	low := strings.ToLower(s)
	switch {
	case strings.HasPrefix(low, "0x"):
		body := low[2:]
		if i := strings.IndexByte(body, 'p'); i >= 0 {
			r, ok := c04mantExp(body[:i], body[i+1:], 16, 2, 4)
			if !ok || body[i+1:] == "" {
				return nil, false
			}
			v, isFloat = r, true
		} else {
			n, ok := c04digits(body, 16)
			if !ok {
				return nil, false
			}
			v = new(big.Rat).SetInt(n)
		}
	case strings.HasPrefix(low, "0b"), strings.HasPrefix(low, "0o"):
		base := 2
		if low[1] == 'o' {
			base = 8
		}
		n, ok := c04digits(low[2:], base)
		if !ok {
			return nil, false
		}
		v = new(big.Rat).SetInt(n)
	case strings.ContainsAny(low, ".e"):
		mant, exp := low, ""
		if i := strings.IndexByte(low, 'e'); i >= 0 {
			mant, exp = low[:i], low[i+1:]
			if exp == "" {
				return nil, false
			}
		}
		r, ok := c04mantExp(mant, exp, 10, 10, 1)
		if !ok {
			return nil, false
		}
		v, isFloat = r, true
	default:
		base := 10
		if !imag && len(low) > 1 && low[0] == '0' {
			base = 8
		}
		n, ok := c04digits(low, base)
		if !ok {
			return nil, false
		}
		v = new(big.Rat).SetInt(n)
	}
	switch {
	case imag:
		return c04num(c04Cplx, new(big.Rat), v), true
	case isFloat:
		return c04num(c04Float, v, nil), true
	}
	return c04num(c04Int, v, nil), true
}

// ---------------------------------------------------------------- exact evaluator (E)

type c04eval struct {
	big  bool // some float/complex intermediate reached c04Limit bits
	huge bool // a shift count above c04MaxShift was met: the op is not executed at all (resource guard)
}

func c04bits(r *big.Rat) int {
	a, b := r.Num().BitLen(), r.Denom().BitLen()
	if a > b {
		return a
	}
	return b
}

func (ev *c04eval) note(v *c04val) *c04val {
	if v != nil && (v.k == c04Float || v.k == c04Cplx) {
		if c04bits(v.re) >= c04Limit || c04bits(v.im) >= c04Limit {
			ev.big = true
		}
	}
	return v
}

func c04maxk(a, b int) int {
	if a > b {
		return a
	}
	return b
}

var c04binops = []string{"+", "-", "*", "/", "%", "&", "|", "^", "&^", "<<", ">>", "==", "!=", "<", "<=", ">", ">=", "&&", "||"}
var c04unops = map[string]string{"neg": "-", "pos": "+", "cpl": "^", "not": "!"}

func c04isTypedShift(t string) bool {
	_, _, _, ok := c04typedShift(t)
	return ok
}

func c04isBinop(t string) bool {
	for _, o := range c04binops {
		if o == t {
			return true
		}
	}
	return false
}

// integer value of a numeric constant (any kind) if it is one
func (v *c04val) intValue() (*big.Int, bool) {
	if !v.isNum() || v.im.Sign() != 0 || !v.re.IsInt() {
		return nil, false
	}
	return v.re.Num(), true
}

func c04cmp(op string, c int) bool {
	switch op {
	case "==":
		return c == 0
	case "!=":
		return c != 0
	case "<":
		return c < 0
	case "<=":
		return c <= 0
	case ">":
		return c > 0
	}
	return c >= 0
}

const c04MaxShift = 100000 // resource guard: ops with a valid larger count are not executed (Out "huge-shift" on both sides)

func (ev *c04eval) binary(op string, x, y *c04val) *c04val {
	switch op {
	case "&&", "||":
		if x.k != c04Bool || y.k != c04Bool {
			return nil
		}
		if op == "&&" {
			return &c04val{k: c04Bool, b: x.b && y.b}
		}
		return &c04val{k: c04Bool, b: x.b || y.b}
	case "==", "!=", "<", "<=", ">", ">=":
		ordered := op != "==" && op != "!="
		switch {
		case x.k == c04Bool && y.k == c04Bool:
			if ordered {
				return nil
			}
			return &c04val{k: c04Bool, b: (x.b == y.b) == (op == "==")}
		case x.k == c04Str && y.k == c04Str:
			return &c04val{k: c04Bool, b: c04cmp(op, strings.Compare(x.s, y.s))}
		case x.isNum() && y.isNum():
			if x.k == c04Cplx || y.k == c04Cplx {
				if ordered {
					return nil
				}
				eq := x.re.Cmp(y.re) == 0 && x.im.Cmp(y.im) == 0
				return &c04val{k: c04Bool, b: eq == (op == "==")}
			}
			return &c04val{k: c04Bool, b: c04cmp(op, x.re.Cmp(y.re))}
		}
		return nil
	case "<<", ">>":
		m, ok := x.intValue()
		n, ok2 := y.intValue()
		if !ok || !ok2 || n.Sign() < 0 || !n.IsUint64() {
			return nil
		}
		if n.Uint64() > c04MaxShift {
			ev.huge = true
			return nil
		}
		k := c04Int
		if x.k == c04Rune {
			k = c04Rune
		}
		z := new(big.Int)
		if op == "<<" {
			z.Lsh(m, uint(n.Uint64()))
		} else {
			z.Rsh(m, uint(n.Uint64())) // big.Int.Rsh rounds toward -infinity
		}
		return c04num(k, new(big.Rat).SetInt(z), nil)
	}
	if x.k == c04Str && y.k == c04Str && op == "+" {
		return &c04val{k: c04Str, s: x.s + y.s}
	}
	if !x.isNum() || !y.isNum() {
		return nil
	}
	k := c04maxk(x.k, y.k)
	switch op {
	case "+":
		return c04num(k, new(big.Rat).Add(x.re, y.re), new(big.Rat).Add(x.im, y.im))
	case "-":
		return c04num(k, new(big.Rat).Sub(x.re, y.re), new(big.Rat).Sub(x.im, y.im))
	case "*":
		a, b, c, d := x.re, x.im, y.re, y.im
		re := new(big.Rat).Sub(new(big.Rat).Mul(a, c), new(big.Rat).Mul(b, d))
		im := new(big.Rat).Add(new(big.Rat).Mul(b, c), new(big.Rat).Mul(a, d))
		if k != c04Cplx {
			im = new(big.Rat)
		}
		return c04num(k, re, im)
	case "/":
		if y.re.Sign() == 0 && y.im.Sign() == 0 {
			return nil
		}
		if k <= c04Rune {
			q := new(big.Int).Quo(x.re.Num(), y.re.Num()) // truncated
			return c04num(k, new(big.Rat).SetInt(q), nil)
		}
		if k == c04Float {
			return c04num(k, new(big.Rat).Quo(x.re, y.re), nil)
		}
		a, b, c, d := x.re, x.im, y.re, y.im
		s := new(big.Rat).Add(new(big.Rat).Mul(c, c), new(big.Rat).Mul(d, d))
		re := new(big.Rat).Add(new(big.Rat).Mul(a, c), new(big.Rat).Mul(b, d))
		im := new(big.Rat).Sub(new(big.Rat).Mul(b, c), new(big.Rat).Mul(a, d))
		return c04num(k, re.Quo(re, s), im.Quo(im, s))
	}
	// % & | ^ &^ : integers only
	if k > c04Rune {
		return nil
	}
	a, b := x.re.Num(), y.re.Num()
	z := new(big.Int)
	switch op {
	case "%":
		if b.Sign() == 0 {
			return nil
		}
		z.Rem(a, b)
	case "&":
		z.And(a, b)
	case "|":
		z.Or(a, b)
	case "^":
		z.Xor(a, b)
	case "&^":
		z.AndNot(a, b)
	default:
		return nil
	}
	return c04num(k, new(big.Rat).SetInt(z), nil)
}

func (ev *c04eval) unary(op string, x *c04val) *c04val {
	switch op {
	case "not":
		if x.k != c04Bool {
			return nil
		}
		return &c04val{k: c04Bool, b: !x.b}
	case "pos":
		if !x.isNum() {
			return nil
		}
		return x
	case "neg":
		if !x.isNum() {
			return nil
		}
		return c04num(x.k, new(big.Rat).Neg(x.re), new(big.Rat).Neg(x.im))
	case "cpl":
		if !x.isInt() {
			return nil
		}
		z := new(big.Int).Not(x.re.Num())
		return c04num(x.k, new(big.Rat).SetInt(z), nil)
	case "real", "imag":
		if !x.isNum() {
			return nil
		}
		if op == "real" {
			return c04num(c04Float, x.re, nil)
		}
		return c04num(c04Float, x.im, nil)
	}
	return nil
}

// typed-count shift token: "<<uint8" = x << uint8(count), "<<uint8k" = const k uint8 = count; x << k
func c04typedShift(t string) (op, typ string, decl, ok bool) {
	if len(t) < 5 || (t[:2] != "<<" && t[:2] != ">>") {
		return
	}
	op, typ = t[:2], t[2:]
	if strings.HasSuffix(typ, "k") {
		typ, decl = strings.TrimSuffix(typ, "k"), true
	}
	if _, _, isInt := c04intRange(typ); !isInt {
		return "", "", false, false
	}
	return op, typ, decl, true
}

// x << T(count): the count must be representable in T and not negative, then as the untyped shift
func (ev *c04eval) typedShift(op, typ string, x, y *c04val) *c04val {
	if !y.isNum() || !c04representable(y, typ, true) {
		return nil
	}
	n, _ := y.intValue()
	if n.Sign() < 0 {
		return nil
	}
	return ev.binary(op, x, c04num(c04Int, new(big.Rat).SetInt(n), nil))
}

// run evaluates the postfix token list; ok=false: the expression is invalid Go.
func (ev *c04eval) run(toks []string) (*c04val, bool) {
	var st []*c04val
	for _, t := range toks {
		var v *c04val
		switch {
		case c04isBinop(t):
			if len(st) < 2 {
				return nil, false
			}
			x, y := st[len(st)-2], st[len(st)-1]
			st = st[:len(st)-2]
			v = ev.binary(t, x, y)
		case c04isTypedShift(t):
			if len(st) < 2 {
				return nil, false
			}
			x, y := st[len(st)-2], st[len(st)-1]
			st = st[:len(st)-2]
			op, typ, _, _ := c04typedShift(t)
			v = ev.typedShift(op, typ, x, y)
		case t == "cmplx":
			if len(st) < 2 {
				return nil, false
			}
			x, y := st[len(st)-2], st[len(st)-1]
			st = st[:len(st)-2]
			if x.isNum() && y.isNum() && x.im.Sign() == 0 && y.im.Sign() == 0 {
				v = c04num(c04Cplx, x.re, y.re)
			}
		case c04unops[t] != "" || t == "real" || t == "imag":
			if len(st) < 1 {
				return nil, false
			}
			x := st[len(st)-1]
			st = st[:len(st)-1]
			v = ev.unary(t, x)
		default:
			var ok bool
			if v, ok = c04parseLit(t); !ok {
				v = nil
			}
		}
		if v == nil {
			return nil, false
		}
		st = append(st, ev.note(v))
	}
	if len(st) != 1 {
		return nil, false
	}
	return st[0], true
}

// ---------------------------------------------------------------- source rendering

// constant declarations needed by the expression rendered last by c04source ("<<Tk" tokens)
var c04prelude []string

func c04pre(code string) string {
	if len(c04prelude) == 0 {
		return code
	}
	return strings.Join(c04prelude, "; ") + "; " + code
}

func c04source(toks []string) (string, bool) {
	var st []string
	c04prelude = nil
	for _, t := range toks {
		switch {
		case c04isTypedShift(t):
			if len(st) < 2 {
				return "", false
			}
			x, y := st[len(st)-2], st[len(st)-1]
			op, typ, decl, _ := c04typedShift(t)
			if decl {
				k := fmt.Sprintf("c04k%d", len(c04prelude))
				c04prelude = append(c04prelude, "const "+k+" "+typ+" = "+y)
				st = append(st[:len(st)-2], "("+x+" "+op+" "+k+")")
			} else {
				st = append(st[:len(st)-2], "("+x+" "+op+" "+typ+"("+y+"))")
			}
		case c04isBinop(t):
			if len(st) < 2 {
				return "", false
			}
			x, y := st[len(st)-2], st[len(st)-1]
			st = append(st[:len(st)-2], "("+x+" "+t+" "+y+")")
		case t == "cmplx":
			if len(st) < 2 {
				return "", false
			}
			x, y := st[len(st)-2], st[len(st)-1]
			st = append(st[:len(st)-2], "complex("+x+", "+y+")")
		case c04unops[t] != "":
			if len(st) < 1 {
				return "", false
			}
			st[len(st)-1] = "(" + c04unops[t] + st[len(st)-1] + ")"
		case t == "real" || t == "imag":
			if len(st) < 1 {
				return "", false
			}
			st[len(st)-1] = t + "(" + st[len(st)-1] + ")"
		default:
			st = append(st, t)
		}
	}
	if len(st) != 1 {
		return "", false
	}
	return st[0], true
}

// ---------------------------------------------------------------- typed targets (specification side)

var c04types = []string{"bool", "int", "int8", "int16", "int32", "int64", "uint", "uint8", "uint16", "uint32", "uint64", "uintptr",
	"float32", "float64", "complex64", "complex128", "string"}

func c04intRange(t string) (lo, hi *big.Int, ok bool) {
	bitsOf := map[string]int{"int": 64, "int8": 8, "int16": 16, "int32": 32, "int64": 64,
		"uint": -64, "uint8": -8, "uint16": -16, "uint32": -32, "uint64": -64, "uintptr": -64}
	b, ok := bitsOf[t]
	if !ok {
		return nil, nil, false
	}
	one := big.NewInt(1)
	if b < 0 {
		hi = new(big.Int).Sub(new(big.Int).Lsh(one, uint(-b)), one)
		return new(big.Int), hi, true
	}
	hi = new(big.Int).Sub(new(big.Int).Lsh(one, uint(b-1)), one)
	lo = new(big.Int).Neg(new(big.Int).Lsh(one, uint(b-1)))
	return lo, hi, true
}

// |q| rounds (to nearest even) to a finite float of the given format iff |q| < 2^emax - 2^(emax-p-1)
func c04floatFinite(q *big.Rat, bits int) bool {
	emax, p := uint(1024), uint(53)
	if bits == 32 {
		emax, p = 128, 24
	}
	lim := new(big.Int).Sub(new(big.Int).Lsh(big.NewInt(1), emax), new(big.Int).Lsh(big.NewInt(1), emax-p-1))
	a := new(big.Rat).Abs(q)
	return a.Cmp(new(big.Rat).SetInt(lim)) < 0
}

// exactly representable in binary32/binary64 (including subnormals)
func c04floatExact(q *big.Rat, bits int) bool {
	emax, p, emin := 1024, 53, -1074
	if bits == 32 {
		emax, p, emin = 128, 24, -149
	}
	if q.Sign() == 0 {
		return true
	}
	d := q.Denom()
	k := d.BitLen() - 1
	if new(big.Int).Lsh(big.NewInt(1), uint(k)).Cmp(d) != 0 {
		return false
	}
	n := new(big.Int).Abs(q.Num())
	j := int(n.TrailingZeroBits())
	odd := new(big.Int).Rsh(n, uint(j))
	low := j - k
	return odd.BitLen() <= p && low >= emin && odd.BitLen()+low <= emax
}

// spec: is constant v assignable (conv=false) / convertible (conv=true) to basic type t ?
func c04representable(v *c04val, t string, conv bool) bool {
	switch t {
	case "bool":
		return v.k == c04Bool
	case "string":
		if v.k == c04Str {
			return true
		}
		return conv && v.isInt()
	case "float32", "float64", "complex64", "complex128":
		if !v.isNum() {
			return false
		}
		bits := 64
		if t == "float32" || t == "complex64" {
			bits = 32
		}
		if t[0] == 'f' && v.im.Sign() != 0 {
			return false
		}
		return c04floatFinite(v.re, bits) && c04floatFinite(v.im, bits)
	}
	lo, hi, _ := c04intRange(t)
	n, ok := v.intValue()
	return ok && n.Cmp(lo) >= 0 && n.Cmp(hi) <= 0
}

func c04hex(s string) string { return fmt.Sprintf("s:%x", s) }

func c04runeString(n *big.Int) string {
	if !n.IsInt64() || n.Int64() < 0 || n.Int64() > 0x10FFFF {
		return "�"
	}
	return string(rune(n.Int64())) // surrogates -> U+FFFD by Go's conversion
}

// ---------------------------------------------------------------- the real interpreter (A)

var c04ir *fast.Interp
var c04irOps int

func c04interp() *fast.Interp {
	if c04ir == nil || c04irOps > 4000 {
		c04ir = newQuietInterp()
		c04ir.Comp.Globals.Options |= base.OptKeepUntyped
		if _, e := evalSrc(c04ir, `import "math/big"`); e != "" {
			panic("cannot import math/big: " + e)
		}
		c04irOps = 0
	}
	c04irOps++
	return c04ir
}

func c04constRat(v constant.Value) *big.Rat {
	switch x := constant.Val(v).(type) {
	case int64:
		return new(big.Rat).SetInt64(x)
	case *big.Int:
		return new(big.Rat).SetInt(x)
	case *big.Rat:
		return new(big.Rat).Set(x)
	case *big.Float:
		if x.IsInf() {
			return nil
		}
		if e := x.MantExp(nil); e > 40000 || e < -40000 {
			return nil
		}
		r, _ := x.Rat(nil)
		return r
	}
	return nil
}

// value of an untyped.Lit as c04val (nil if not printable)
func c04fromLit(l untyped.Lit) *c04val {
	switch l.Kind {
	case untyped.Bool:
		if l.Val.Kind() == constant.Bool {
			return &c04val{k: c04Bool, b: constant.BoolVal(l.Val)}
		}
	case untyped.String:
		if l.Val.Kind() == constant.String {
			return &c04val{k: c04Str, s: constant.StringVal(l.Val)}
		}
	case untyped.Int, untyped.Rune, untyped.Float:
		k := map[untyped.Kind]int{untyped.Int: c04Int, untyped.Rune: c04Rune, untyped.Float: c04Float}[l.Kind]
		if ck := l.Val.Kind(); ck == constant.Int || ck == constant.Float {
			if r := c04constRat(l.Val); r != nil {
				return c04num(k, r, nil)
			}
		}
	case untyped.Complex:
		if ck := l.Val.Kind(); ck == constant.Int || ck == constant.Float || ck == constant.Complex {
			re, im := c04constRat(constant.Real(l.Val)), c04constRat(constant.Imag(l.Val))
			if re != nil && im != nil {
				return c04num(c04Cplx, re, im)
			}
		}
	}
	return nil
}

func c04fromConst(tv types.TypeAndValue) *c04val {
	b, ok := tv.Type.Underlying().(*types.Basic)
	if !ok || tv.Value == nil {
		return nil
	}
	switch b.Kind() {
	case types.UntypedBool:
		return &c04val{k: c04Bool, b: constant.BoolVal(tv.Value)}
	case types.UntypedString:
		return &c04val{k: c04Str, s: constant.StringVal(tv.Value)}
	case types.UntypedInt, types.UntypedRune, types.UntypedFloat:
		k := map[types.BasicKind]int{types.UntypedInt: c04Int, types.UntypedRune: c04Rune, types.UntypedFloat: c04Float}[b.Kind()]
		if r := c04constRat(tv.Value); r != nil {
			return c04num(k, r, nil)
		}
	case types.UntypedComplex:
		re, im := c04constRat(constant.Real(tv.Value)), c04constRat(constant.Imag(tv.Value))
		if re != nil && im != nil {
			return c04num(c04Cplx, re, im)
		}
	}
	return nil
}

func (v *c04val) equal(w *c04val) bool {
	if v == nil || w == nil || v.k != w.k {
		return false
	}
	switch v.k {
	case c04Bool:
		return v.b == w.b
	case c04Str:
		return v.s == w.s
	}
	return v.re.Cmp(w.re) == 0 && v.im.Cmp(w.im) == 0
}

func (v *c04val) sameValue(w *c04val) bool {
	if v == nil || w == nil || v.isNum() != w.isNum() {
		return false
	}
	if v.isNum() {
		return v.re.Cmp(w.re) == 0 && v.im.Cmp(w.im) == 0
	}
	return v.equal(w)
}

// go/types limits that are implementation restrictions, not Go semantics
func c04typesLimit(err error) bool {
	if err == nil {
		return false
	}
	s := err.Error()
	return strings.Contains(s, "overflow") || strings.Contains(s, "invalid shift count") || strings.Contains(s, "too large") ||
		strings.Contains(s, "excessively")
}

var c04fset = token.NewFileSet()

func c04typesEval(src string) (types.TypeAndValue, error) {
	if len(c04prelude) == 0 {
		return types.Eval(c04fset, nil, token.NoPos, src)
	}
	// with declared constants: type-check a file and read back the (untyped or typed) constant
	text := "package p\n" + strings.Join(c04prelude, "\n") + "\nconst c04x = " + src + "\n"
	f, err := parser.ParseFile(c04fset, "p.go", text, 0)
	if err != nil {
		return types.TypeAndValue{}, err
	}
	var first error
	conf := types.Config{Importer: c04importer, Error: func(e error) {
		if first == nil {
			first = e
		}
	}}
	pkg, _ := conf.Check("p", c04fset, []*ast.File{f}, nil)
	if first != nil {
		return types.TypeAndValue{}, first
	}
	obj := pkg.Scope().Lookup("c04x").(*types.Const)
	return types.TypeAndValue{Type: obj.Type(), Value: obj.Val()}, nil
}

var c04importer = importer.Default()

// type-check "package p; const x T = expr" ; returns the typed constant
func c04typesDecl(typ, src string) (constant.Value, error) {
	text := "package p\n" + strings.Join(c04prelude, "\n") + "\nconst x " + typ + " = " + src + "\n"
	f, err := parser.ParseFile(c04fset, "p.go", text, 0)
	if err != nil {
		return nil, err
	}
	var first error
	conf := types.Config{Importer: c04importer, Error: func(e error) {
		if first == nil {
			first = e
		}
	}}
	pkg, _ := conf.Check("p", c04fset, []*ast.File{f}, nil)
	if first != nil {
		return nil, first
	}
	return pkg.Scope().Lookup("x").(*types.Const).Val(), nil
}

// ---------------------------------------------------------------- typed value rendering

// render a typed run-time value given the exact constant q it was made from
func c04showFloat(f float64, bits int, q *big.Rat) string {
	if math.IsInf(f, 0) || math.IsNaN(f) {
		return "inf"
	}
	r := new(big.Rat).SetFloat64(f)
	if q != nil && r.Cmp(q) == 0 {
		return "=" + c04rat(r)
	}
	return "~"
}

func c04floatKey(f float64, bits int) string {
	if bits == 32 {
		return fmt.Sprintf("%08x", math.Float32bits(float32(f)))
	}
	return fmt.Sprintf("%016x", math.Float64bits(f))
}

// canonical text of a typed value: used to compare the interpreter with compiled Go
func c04typedKey(v reflect.Value) string {
	switch v.Kind() {
	case reflect.Bool:
		return fmt.Sprint(v.Bool())
	case reflect.String:
		return c04hex(v.String())
	case reflect.Int, reflect.Int8, reflect.Int16, reflect.Int32, reflect.Int64:
		return fmt.Sprint(v.Int())
	case reflect.Uint, reflect.Uint8, reflect.Uint16, reflect.Uint32, reflect.Uint64, reflect.Uintptr:
		return fmt.Sprint(v.Uint())
	case reflect.Float32:
		return c04floatKey(v.Float(), 32)
	case reflect.Float64:
		return c04floatKey(v.Float(), 64)
	case reflect.Complex64:
		return c04floatKey(real(v.Complex()), 32) + "," + c04floatKey(imag(v.Complex()), 32)
	case reflect.Complex128:
		return c04floatKey(real(v.Complex()), 64) + "," + c04floatKey(imag(v.Complex()), 64)
	}
	return "?" + v.Kind().String()
}

const c04showDecl = `
func show(x interface{}) string {
	switch v := x.(type) {
	case bool: return fmt.Sprint(v)
	case string: return fmt.Sprintf("s:%x", v)
	case float32: return fmt.Sprintf("%08x", math.Float32bits(v))
	case float64: return fmt.Sprintf("%016x", math.Float64bits(v))
	case complex64: return fmt.Sprintf("%08x,%08x", math.Float32bits(real(v)), math.Float32bits(imag(v)))
	case complex128: return fmt.Sprintf("%016x,%016x", math.Float64bits(real(v)), math.Float64bits(imag(v)))
	}
	return fmt.Sprint(x)
}
`

// ---------------------------------------------------------------- Prepare: compiled-Go oracle for typed ops

var c04compiled = map[string]string{} // op -> canonical typed value printed by compiled Go
var c04compiledErr string

func c04prepare(ops []string) {
	c04compiled = map[string]string{}
	c04compiledErr = ""
	type item struct{ op, line string }
	var items []item
	seen := map[string]bool{}
	for _, op := range ops {
		f := strings.Fields(op)
		if len(f) < 3 || (f[0] != "d" && f[0] != "c") || seen[op] {
			continue
		}
		seen[op] = true
		src, ok := c04source(f[2:])
		if !ok {
			continue
		}
		pev := &c04eval{}
		if _, pok := pev.run(f[2:]); !pok || pev.huge || pev.big {
			continue
		}
		var line string
		if f[0] == "d" {
			if _, err := c04typesDecl(f[1], src); err != nil {
				continue
			}
			line = c04pre("var x " + f[1] + " = " + src)
		} else {
			tv, err := c04typesEval(f[1] + "(" + src + ")")
			if err != nil || tv.Value == nil {
				continue
			}
			line = c04pre("var x = " + f[1] + "(" + src + ")")
		}
		items = append(items, item{op, line})
	}
	const per = 250
	var snips []Snippet
	for i := 0; i < len(items); i += per {
		var body strings.Builder
		for _, it := range items[i:min(i+per, len(items))] {
			fmt.Fprintf(&body, "{ %s; emit(show(x)) }\n", it.line)
		}
		snips = append(snips, Snippet{Imports: []string{"math"}, Decls: c04showDecl, Body: body.String()})
	}
	if len(snips) == 0 {
		return
	}
	outs, err := runGoBatch("C04", snips)
	if err != nil {
		c04compiledErr = oneLine(truncate(err.Error(), 600))
		return
	}
	for si, out := range outs {
		lines := strings.Split(out, "\n")
		chunk := items[si*per : min(si*per+per, len(items))]
		if len(lines) != len(chunk) {
			c04compiledErr = fmt.Sprintf("snippet %d: %d lines for %d declarations", si, len(lines), len(chunk))
			return
		}
		for j, it := range chunk {
			c04compiled[it.op] = lines[j]
		}
	}
}

// ---------------------------------------------------------------- Exec

func c04opName(t string) string {
	r := strings.NewReplacer("+", "add", "-", "sub", "*", "mul", "/", "quo", "%", "rem", "&^", "andnot", "&&", "land", "||", "lor",
		"&", "and", "|", "or", "^", "xor", "<<", "shl", ">>", "shr", "==", "eql", "!=", "neq", "<=", "leq", ">=", "geq", "<", "lss", ">", "gtr")
	return r.Replace(t)
}

// kinds of the operands of the LAST operator (evaluated exactly); used for violation keys
func c04topShape(toks []string) string {
	ev := &c04eval{}
	var st []*c04val
	top := "literal"
	for _, t := range toks {
		var v *c04val
		kn := func(v *c04val) string {
			if v == nil {
				return "invalid"
			}
			return c04kindName[v.k]
		}
		switch {
		case c04isTypedShift(t):
			if len(st) < 2 {
				return "malformed"
			}
			x, y := st[len(st)-2], st[len(st)-1]
			st = st[:len(st)-2]
			op, typ, _, _ := c04typedShift(t)
			sign := "Tu" // typed unsigned count
			if typ[0] == 'i' {
				sign = "Ts"
			}
			top = c04opName(op) + sign + "-" + kn(x) + "-" + kn(y)
			if x != nil && y != nil {
				v = ev.typedShift(op, typ, x, y)
			}
		case c04isBinop(t) || t == "cmplx":
			if len(st) < 2 {
				return "malformed"
			}
			x, y := st[len(st)-2], st[len(st)-1]
			st = st[:len(st)-2]
			top = c04opName(t) + "-" + kn(x) + "-" + kn(y)
			if x != nil && y != nil {
				if t == "cmplx" {
					if x.isNum() && y.isNum() && x.im.Sign() == 0 && y.im.Sign() == 0 {
						v = c04num(c04Cplx, x.re, y.re)
					}
				} else {
					v = ev.binary(t, x, y)
				}
			}
		case c04unops[t] != "" || t == "real" || t == "imag":
			if len(st) < 1 {
				return "malformed"
			}
			x := st[len(st)-1]
			st = st[:len(st)-1]
			top = t + "-" + kn(x)
			if x != nil {
				v = ev.unary(t, x)
			}
		default:
			v, _ = c04parseLit(t)
		}
		st = append(st, v)
	}
	return top
}

func c04exec(op string) Result {
	res := c04exec1(op)
	if res.Viol != "" {
		res.Tags = append(res.Tags, "key:"+res.Key)
		if c04debug != nil {
			fmt.Fprintf(c04debug, "%s\t%s\t%s\n", res.Key, op, res.Viol)
		}
	}
	return res
}

var c04debug = func() *os.File {
	if p := os.Getenv("C04_DEBUG"); p != "" {
		f, _ := os.Create(p)
		return f
	}
	return nil
}()

func c04exec1(op string) Result {
	f := strings.Split(op, " ")
	if len(f) < 2 {
		return Result{Out: "bad-op"}
	}
	switch f[0] {
	case "u":
		return c04execUntyped(op, f[1:])
	case "d", "c", "b":
		if len(f) < 3 {
			return Result{Out: "bad-op"}
		}
		return c04execTyped(op, f[0], f[1], f[2:])
	case "m":
		if len(f) < 3 {
			return Result{Out: "bad-op"}
		}
		return c04execMutate(op, f[1], f[2:])
	}
	return Result{Out: "bad-op"}
}

func c04execUntyped(op string, toks []string) Result {
	src, ok := c04source(toks)
	if !ok {
		return Result{Out: "bad-op"}
	}
	ev := &c04eval{}
	want, wok := ev.run(toks)
	if ev.huge {
		return Result{Out: "huge-shift", Tags: []string{"huge-shift"}}
	}
	res := Result{Nontrivial: len(toks) > 1}
	tags := []string{"u"}
	// (A) the interpreter
	ir := c04interp()
	vals, errText := evalSrc(ir, c04pre(src))
	var got *c04val
	gotStr := "error"
	if errText == "" && len(vals) == 1 {
		if l, isLit := vals[0].Interface().(untyped.Lit); isLit {
			if got = c04fromLit(l); got != nil {
				gotStr = got.String()
			} else {
				gotStr = "unprintable " + oneLine(l.String())
			}
		} else {
			gotStr = "typed " + oneLine(fmt.Sprintf("%v <%v>", vals[0].Interface(), vals[0].Type()))
		}
	}
	res.Out = gotStr
	if ev.big {
		res.Out = "big"
		tags = append(tags, "u-beyond-limit")
	}
	// (E) specification
	wantStr := "error"
	if wok {
		wantStr = want.String()
		tags = append(tags, "u-valid", "u-kind-"+c04kindName[want.k])
	} else {
		tags = append(tags, "u-invalid")
	}
	shape := c04topShape(toks)
	if gotStr != wantStr {
		switch {
		case ev.big:
			res.Key = "untyped-float-beyond-rat-range-approximate"
		case !wok:
			res.Key = "untyped-accepts-invalid-" + shape
		case got == nil && strings.HasPrefix(gotStr, "typed "):
			res.Key = "untyped-gives-typed-value-" + shape
		case got == nil:
			res.Key = "untyped-rejects-valid-" + shape
		case got.k != want.k && got.sameValue(want):
			res.Key = "untyped-kind-" + shape
		default:
			res.Key = "untyped-value-" + shape
		}
		res.Viol = fmt.Sprintf("%s: interpreter gives %s, exact Go constant arithmetic gives %s", src, truncate(gotStr, 300), truncate(wantStr, 300))
	}
	// (T) go/types
	tv, terr := c04typesEval(src)
	switch {
	case terr != nil && c04typesLimit(terr):
		tags = append(tags, "u-gotypes-limit")
	case terr != nil:
		tags = append(tags, "u-gotypes-reject")
		if wok && !ev.big && res.Viol == "" {
			res.Key, res.Viol = "oracle-disagree-gotypes-rejects", fmt.Sprintf("%s: go/types rejects (%v) but the exact evaluator gives %s", src, terr, wantStr)
		}
	default:
		tags = append(tags, "u-gotypes-ok")
		tval := c04fromConst(tv)
		if !ev.big && res.Viol == "" {
			if !wok {
				res.Key, res.Viol = "oracle-disagree-gotypes-accepts", fmt.Sprintf("%s: go/types gives %v %v but the exact evaluator rejects", src, tv.Type, tv.Value)
			} else if tval == nil || !tval.equal(want) {
				res.Key, res.Viol = "oracle-disagree-gotypes-value", fmt.Sprintf("%s: go/types gives %v %v, exact evaluator %s", src, tv.Type, tv.Value, wantStr)
			}
		}
		if ev.big && got != nil && tval != nil && got.equal(tval) {
			tags = append(tags, "u-beyond-limit-same-as-gotypes")
		}
	}
	res.Tags = tags
	return res
}

func c04execTyped(op, mode, typ string, toks []string) Result {
	src, ok := c04source(toks)
	if !ok {
		return Result{Out: "bad-op"}
	}
	ev := &c04eval{}
	want, wok := ev.run(toks)
	if ev.huge {
		return Result{Out: "huge-shift", Tags: []string{"huge-shift"}}
	}
	res := Result{Nontrivial: true}
	tags := []string{mode, mode + "-" + typ}
	ir := c04interp()
	var code string
	switch mode {
	case "d":
		code = "var x " + typ + " = " + src + "; x"
	case "c":
		code = typ + "(" + src + ")"
	case "b":
		code = "var x *big." + typ + " = " + src + "; x"
	}
	vals, errText := evalSrc(ir, c04pre(code))
	accepted := errText == "" && len(vals) == 1
	// ---- Out from the interpreter's value
	out := "reject"
	var key string // canonical typed value (for compiled-Go comparison)
	if accepted {
		v := vals[0]
		var q, qi *big.Rat
		if wok && want.isNum() {
			q, qi = want.re, want.im
		}
		switch v.Kind() {
		case reflect.Float32, reflect.Float64:
			bits := v.Type().Bits()
			out = "ok " + c04showFloat(v.Float(), bits, q)
		case reflect.Complex64, reflect.Complex128:
			bits := v.Type().Bits() / 2
			out = "ok " + c04showFloat(real(v.Complex()), bits, q) + " " + c04showFloat(imag(v.Complex()), bits, qi)
		case reflect.Ptr:
			switch p := v.Interface().(type) {
			case *big.Int:
				out = "ok " + p.String()
			case *big.Rat:
				out = "ok " + c04rat(p)
			case *big.Float:
				r, _ := p.Rat(nil)
				if r != nil && q != nil && r.Cmp(q) == 0 {
					out = "ok =" + c04rat(r)
				} else {
					out = "ok ~"
				}
			default:
				out = "ok ?" + v.Type().String()
			}
		default:
			out = "ok " + c04typedKey(v)
		}
		key = c04typedKey(v)
		tags = append(tags, mode+"-accepted")
	} else {
		tags = append(tags, mode+"-rejected")
	}
	res.Out = out
	if ev.big {
		res.Out = "big"
		res.Tags = append(tags, mode+"-beyond-limit")
		return res
	}
	shape := "invalid"
	if wok {
		shape = c04kindName[want.k]
	}
	// ---- specification: accept/reject
	if mode == "b" {
		// gomacro extension: exact value whenever representable
		var spec string
		switch {
		case !wok || !want.isNum() || want.k == c04Cplx:
			spec = "reject" // no such conversion in Go; the code refuses bool/string/complex
			if accepted && wok {
				spec = "" // accepting more is not a violation of the property
			}
		case typ == "Int":
			if n, isInt := want.intValue(); isInt {
				spec = "ok " + n.String()
			} else {
				spec = "reject"
			}
		case typ == "Rat":
			spec = "ok " + c04rat(want.re)
		case typ == "Float":
			if want.re.Denom().BitLen()-1 == int(want.re.Denom().TrailingZeroBits()) {
				spec = "ok =" + c04rat(want.re) // denominator is a power of two: representable
			} else {
				spec = "ok ~"
			}
		}
		if spec != "" && spec != out {
			res.Key = "big-" + strings.ToLower(typ) + "-from-" + shape
			res.Viol = fmt.Sprintf("%s: interpreter gives %s, exact value requires %s", code, truncate(out, 200), truncate(spec, 200))
		}
		res.Tags = tags
		return res
	}
	specOK := wok && c04representable(want, typ, mode == "c")
	// go/types as second opinion on accept/reject
	var terr error
	var tconst constant.Value
	if mode == "d" {
		tconst, terr = c04typesDecl(typ, src)
	} else {
		var tv types.TypeAndValue
		tv, terr = c04typesEval(typ + "(" + src + ")")
		tconst = tv.Value
	}
	_ = tconst
	if terr != nil && c04typesLimit(terr) && specOK {
		tags = append(tags, mode+"-gotypes-limit")
	} else if (terr == nil) != specOK {
		res.Key = "oracle-disagree-gotypes-" + mode
		res.Viol = fmt.Sprintf("%s: go/types says %v, specification evaluator says representable=%v", code, terr, specOK)
		res.Tags = tags
		return res
	}
	tkind := typ
	switch {
	case strings.HasPrefix(typ, "int"), strings.HasPrefix(typ, "uint"):
		tkind = "int"
	case strings.HasPrefix(typ, "float"):
		tkind = "float"
	case strings.HasPrefix(typ, "complex"):
		tkind = "complex"
	}
	modeName := map[string]string{"d": "decl", "c": "conv"}[mode]
	switch {
	case specOK && !accepted:
		res.Key = modeName + "-" + tkind + "-rejects-representable-" + shape
		res.Viol = fmt.Sprintf("%s: rejected by the interpreter (%s) but the constant %s is representable in %s", code, truncate(errText, 160), truncate(want.String(), 200), typ)
	case !specOK && accepted:
		res.Key = modeName + "-" + tkind + "-accepts-unrepresentable-" + shape
		w := "invalid expression"
		if wok {
			w = want.String()
		}
		res.Viol = fmt.Sprintf("%s: accepted by the interpreter with value %s but %s is not representable in %s", code, truncate(out, 100), truncate(w, 200), typ)
	case specOK && accepted:
		// value: compiled Go is the authority
		if cv, have := c04compiled[op]; have {
			tags = append(tags, mode+"-compiled-go")
			if cv != key {
				res.Key = modeName + "-" + tkind + "-value-" + shape
				res.Viol = fmt.Sprintf("%s: interpreter value %s, compiled Go %s", code, key, cv)
			}
		} else if c04compiledErr != "" {
			res.Key = "oracle-gobatch-failed"
			res.Viol = c04compiledErr
		} else {
			tags = append(tags, mode+"-no-compiled-go")
			// integer / bool / string targets: the value is determined exactly by the specification
			var exp string
			switch tkind {
			case "int":
				n, _ := want.intValue()
				exp = n.String()
			case "bool":
				exp = fmt.Sprint(want.b)
			case "string":
				if want.k == c04Str {
					exp = c04hex(want.s)
				} else {
					n, _ := want.intValue()
					exp = c04hex(c04runeString(n))
				}
			}
			if exp != "" && exp != key {
				res.Key = modeName + "-" + tkind + "-value-" + shape
				res.Viol = fmt.Sprintf("%s: interpreter value %s, specification %s", code, key, exp)
			}
		}
	}
	res.Tags = tags
	return res
}

// m <B> <rpn>: the SAME compiled conversion of an untyped constant to *big.B is executed several times
// (a function called three times; a loop body run three times) and every result is modified in place
// (x.Add(x, x)) before the next execution: each execution must yield a fresh object holding the exact constant.
func c04showBig(v reflect.Value, q *big.Rat) string {
	switch p := v.Interface().(type) {
	case *big.Int:
		return p.String()
	case *big.Rat:
		return c04rat(p)
	case *big.Float:
		r, _ := p.Rat(nil)
		if r != nil && q != nil && r.Cmp(q) == 0 {
			return "=" + c04rat(r)
		}
		return "~"
	}
	return "?" + v.Type().String()
}

func c04execMutate(op, typ string, toks []string) Result {
	src, ok := c04source(toks)
	if !ok || (typ != "Int" && typ != "Rat" && typ != "Float") {
		return Result{Out: "bad-op"}
	}
	ev := &c04eval{}
	want, wok := ev.run(toks)
	if ev.huge {
		return Result{Out: "huge-shift", Tags: []string{"huge-shift"}}
	}
	res := Result{Nontrivial: true}
	tags := []string{"m", "m-" + typ}
	ir := c04interp()
	var q *big.Rat
	if wok && want.isNum() {
		q = want.re
	}
	bt := "*big." + typ
	cp := map[string]string{"Int": "new(big.Int).Set(x)", "Rat": "new(big.Rat).Set(x)", "Float": "new(big.Float).Copy(x)"}[typ]
	out := "reject"
	shared := false
	// (a) function form
	_, e1 := evalSrc(ir, c04pre("func c04f"+typ+"() "+bt+" { return "+src+" }"))
	var funcVal, loopVal string
	if e1 == "" {
		code := "c04p" + typ + " := []" + bt + "{}; for c04i := 0; c04i < 3; c04i++ { x := c04f" + typ + "(); c04p" + typ + " = append(c04p" + typ + ", x, " + cp + "); x.Add(x, x) }; c04p" + typ
		vals, e2 := evalSrc(ir, code)
		if e2 == "" && len(vals) == 1 && vals[0].Kind() == reflect.Slice && vals[0].Len() == 6 {
			l := vals[0]
			for i := 0; i < 6; i += 2 {
				for j := i + 2; j < 6; j += 2 {
					if l.Index(i).Pointer() == l.Index(j).Pointer() {
						shared = true
					}
				}
			}
			funcVal = c04showBig(l.Index(5), q) // copy taken at the third execution, before its mutation
		} else {
			funcVal = "error:" + truncate(e2, 80)
		}
		// (b) loop form: the declaration is compiled once and executed three times
		code = c04pre("c04l" + typ + " := []" + bt + "{}; for c04i := 0; c04i < 3; c04i++ { var x " + bt + " = " + src + "; c04l" + typ + " = append(c04l" + typ + ", x, " + cp + "); x.Add(x, x) }; c04l" + typ)
		vals, e2 = evalSrc(ir, code)
		if e2 == "" && len(vals) == 1 && vals[0].Kind() == reflect.Slice && vals[0].Len() == 6 {
			l := vals[0]
			for i := 0; i < 6; i += 2 {
				for j := i + 2; j < 6; j += 2 {
					if l.Index(i).Pointer() == l.Index(j).Pointer() {
						shared = true
					}
				}
			}
			loopVal = c04showBig(l.Index(5), q)
		} else {
			loopVal = "error:" + truncate(e2, 80)
		}
		fresh := "fresh"
		if shared {
			fresh = "shared"
		}
		out = "ok " + funcVal + " " + loopVal + " " + fresh
		tags = append(tags, "m-accepted")
	} else {
		tags = append(tags, "m-rejected")
	}
	res.Out = out
	if ev.big {
		res.Out = "big"
		res.Tags = append(tags, "m-beyond-limit")
		return res
	}
	// specification: as the single conversion (op b), twice, and never a shared object
	var spec string
	switch {
	case !wok || !want.isNum() || want.k == c04Cplx:
		spec = "reject"
	case typ == "Int":
		if n, isInt := want.intValue(); isInt {
			spec = n.String()
		} else {
			spec = "reject"
		}
	case typ == "Rat":
		spec = c04rat(want.re)
	default:
		if want.re.Denom().BitLen()-1 == int(want.re.Denom().TrailingZeroBits()) {
			spec = "=" + c04rat(want.re)
		} else {
			spec = "~"
		}
	}
	if spec != "reject" {
		spec = "ok " + spec + " " + spec + " fresh"
	}
	if spec != out {
		shape := "invalid"
		if wok {
			shape = c04kindName[want.k]
		}
		res.Key = "big-" + strings.ToLower(typ) + "-repeated-from-" + shape
		if shared {
			res.Key = "big-conversion-shares-mutable-value"
		}
		res.Viol = fmt.Sprintf("%s executed 3 times with x.Add(x, x) after each: interpreter gives %s, required %s", bt+"("+src+")", truncate(out, 200), truncate(spec, 200))
	}
	res.Tags = tags
	return res
}

// ---------------------------------------------------------------- generator

type c04gen struct {
	r    *rand.Rand
	emit func(string)
}

func (g *c04gen) pick(l []string) string { return l[g.r.Intn(len(l))] }

// random digits of an integer value rendered in a random base/syntax, with optional separators
func (g *c04gen) intLit(n *big.Int) string {
	r := g.r
	var s, prefix string
	switch r.Intn(8) {
	case 0:
		prefix, s = g.pick([]string{"0b", "0B"}), n.Text(2)
	case 1:
		prefix, s = g.pick([]string{"0o", "0O"}), n.Text(8)
	case 2:
		if n.Sign() == 0 {
			prefix, s = "", "0"
		} else {
			prefix, s = "0", n.Text(8) // legacy octal
		}
	case 3, 4:
		prefix, s = g.pick([]string{"0x", "0X"}), n.Text(16)
		if r.Intn(2) == 0 {
			s = strings.ToUpper(s)
		}
	default:
		s = n.Text(10)
	}
	if r.Intn(4) == 0 && len(s) > 1 {
		// separators between digits (and after a base prefix)
		var sb strings.Builder
		for i := 0; i < len(s); i++ {
			if i > 0 && r.Intn(3) == 0 {
				sb.WriteByte('_')
			}
			sb.WriteByte(s[i])
		}
		s = sb.String()
		if prefix != "" && prefix != "0" && r.Intn(3) == 0 {
			s = "_" + s
		}
	}
	if len(s) > 400 {
		return n.Text(10)
	}
	return prefix + s
}

func (g *c04gen) bigInt() *big.Int {
	r := g.r
	switch r.Intn(10) {
	case 0, 1, 2, 3:
		return big.NewInt(int64(r.Intn(20)))
	case 4:
		return big.NewInt(int64(r.Intn(70000)))
	case 5, 6:
		// near a power of two
		k := []uint{7, 8, 15, 16, 24, 31, 32, 53, 63, 64, 65, 100, 127, 128, 511, 512, 600}[r.Intn(17)]
		n := new(big.Int).Lsh(big.NewInt(1), k)
		return n.Add(n, big.NewInt(int64(r.Intn(5)-2)))
	case 7:
		return new(big.Int).Rand(r, new(big.Int).Lsh(big.NewInt(1), uint(1+r.Intn(70))))
	case 8:
		return new(big.Int).Rand(r, new(big.Int).Lsh(big.NewInt(1), uint(1+r.Intn(300))))
	}
	return big.NewInt(r.Int63())
}

func (g *c04gen) floatLit() string {
	r := g.r
	switch r.Intn(10) {
	case 0, 1:
		return g.pick([]string{"0.5", "1.5", "2.0", "0.1", "1e3", "1E2", ".25", "3.", "1e-3", "2.5e+2", "0.0", "100.0", "1_0.2_5", "0_1.5", "08.5", "1e0"})
	case 2, 3:
		// decimal with fraction and exponent
		s := fmt.Sprintf("%d.%d", r.Intn(1000), r.Intn(100000))
		if r.Intn(2) == 0 {
			s += fmt.Sprintf("%s%s%d", g.pick([]string{"e", "E"}), g.pick([]string{"", "+", "-"}), r.Intn([]int{5, 40, 320}[r.Intn(3)]))
		}
		return s
	case 4, 5:
		// hex float
		m := new(big.Int).Rand(r, new(big.Int).Lsh(big.NewInt(1), uint(1+r.Intn(64)))).Text(16)
		if r.Intn(2) == 0 && len(m) > 1 {
			i := r.Intn(len(m) + 1)
			m = m[:i] + "." + m[i:]
		}
		if r.Intn(3) == 0 {
			m = strings.ToUpper(m)
		}
		e := r.Intn([]int{8, 140, 1100}[r.Intn(3)])
		return fmt.Sprintf("%s%s%s%s%d", g.pick([]string{"0x", "0X"}), m, g.pick([]string{"p", "P"}), g.pick([]string{"", "+", "-"}), e)
	case 6:
		// integral values written as floats, near integer boundaries (F16 region)
		n := g.bigInt()
		return n.Text(10) + g.pick([]string{".0", ".", "e0", ".5", ".0e0"})
	case 7:
		// around the float32/float64 overflow thresholds and precision limits
		return g.pick([]string{"1e38", "3.4028234663852886e38", "3.4028235677973366e38", "3.4028235677973367e38", "3.5e38", "1e39", "1e100",
			"1.7976931348623157e308", "1.797693134862315807e308", "1.797693134862315808e308", "1.8e308", "1e309", "1e400", "1e-46", "1e-400", "5e-324", "1e-324",
			"9007199254740993.0", "9007199254740992.0", "18446744073709551615.0", "18446744073709551616.0", "9223372036854775807.0", "9223372036854775808.0",
			"1.00000005960464477539062500086736", "1.000000059604644775390625", "0x1.000001p0", "0x1.0000010000000001p0", "0x1.000001000000000000001p0", "16777217.0", "0x1p-149", "0x1p-150", "0x1p-1074", "0x1p-1075", "0x1.8p-1075",
			"0x1p1023", "0x1p1024", "0x1.fffffffffffff7p1023", "0x1.fffffffffffff8p1023", "0x1p127", "0x1p128", "0x1.fffffefp127", "0x1.ffffffp127"})
	case 8:
		// beyond the big.Rat range of go/constant (F9)
		return g.pick([]string{"1e1233", "1e1300", "1e2000", "1e-1300", "0x1p4100", "0x1p-4100", "1e5000", "123456789e1290"})
	}
	return fmt.Sprintf("%de%d", 1+r.Intn(99), r.Intn(600)-300)
}

func (g *c04gen) runeLit() string {
	return g.pick([]string{"'a'", "'b'", "'0'", "'A'", "'z'", `'\n'`, `'\t'`, `'\\'`, `'\''`, `'\x41'`, `'é'`, `'\U0001F600'`, "'é'", "'λ'", "'世'", `'\000'`, `'\377'`, `'\x7f'`, `'￿'`, `'\U0010FFFF'`, "'~'"})
}

func (g *c04gen) strLit() string {
	return g.pick([]string{`""`, `"a"`, `"b"`, `"ab"`, `"abc"`, `"a0"`, `"z"`, `"aa"`, `"B"`})
}

// literal of a kind: i(nt) r(une) f(loat) c(omplex) b(ool) s(tring)
func (g *c04gen) lit(kind byte) string {
	switch kind {
	case 'i':
		return g.intLit(g.bigInt())
	case 'r':
		return g.runeLit()
	case 'f':
		return g.floatLit()
	case 'c':
		if g.r.Intn(2) == 0 {
			return g.intLit2i()
		}
		return g.floatLit() + "i"
	case 'b':
		return g.pick([]string{"true", "false"})
	}
	return g.strLit()
}

func (g *c04gen) intLit2i() string {
	// imaginary literal with an integer part: decimal even with leading zero, or 0b/0o/0x
	n := big.NewInt(int64(g.r.Intn(300)))
	switch g.r.Intn(4) {
	case 0:
		return "0" + n.Text(10) + "i"
	case 1:
		return "0x" + n.Text(16) + "i"
	case 2:
		return "0b" + n.Text(2) + "i"
	}
	return n.Text(10) + "i"
}

// numeric expression tokens of (roughly) the wanted kind class: 'i' integer, 'f' float, 'c' complex, 'n' any numeric
func (g *c04gen) numExpr(depth int, want byte) []string {
	r := g.r
	if want == 'n' {
		want = "iiirffc"[r.Intn(7)]
	}
	if depth <= 0 || r.Intn(4) == 0 {
		k := want
		if want == 'i' && r.Intn(4) == 0 {
			k = 'r'
		}
		if want == 'f' && r.Intn(4) == 0 {
			k = "ir"[r.Intn(2)]
		}
		if want == 'c' && r.Intn(3) == 0 {
			k = "irf"[r.Intn(3)]
		}
		return []string{g.lit(k)}
	}
	sub := func(w byte) []string { return g.numExpr(depth-1, w) }
	switch want {
	case 'i':
		switch r.Intn(13) {
		case 0, 1, 2, 3, 4:
			return append(append(sub('i'), sub('i')...), g.pick([]string{"+", "-", "*", "/", "%", "&", "|", "^", "&^"}))
		case 5, 6, 7:
			// shift by a small valid count
			cnt := []string{strconv.Itoa(r.Intn(70)), strconv.Itoa(r.Intn(700)), "0x10", "3.0", "1e1", "'\\x03'", "2", "64", "63"}[r.Intn(9)]
			return append(append(sub('i'), cnt), g.pick([]string{"<<", ">>"}))
		case 8:
			return append(sub('i'), g.pick([]string{"neg", "pos", "cpl"}))
		case 10:
			// shift by a TYPED constant count (conversion or declared constant) of an unsigned kind;
			// signed kinds and float/complex-kind operands are probed at top level only (known findings)
			cnt := []string{strconv.Itoa(r.Intn(70)), strconv.Itoa(64 + r.Intn(140)), "3.0", "'\\x03'", "70", "100", "63", "64", "1e2"}[r.Intn(9)]
			return append(append(sub('i'), cnt), g.pick([]string{"<<", ">>"})+g.pick(c04unsigned)+g.pick([]string{"", "", "k"}))
		case 9:
			// integral float shifted
			return append([]string{g.pick([]string{"1.0", "8.0", "1e3", "0x1p10", "3.0", "1e20", "9007199254740993.0", "2.5", "1e30"}), strconv.Itoa(r.Intn(8))}, g.pick([]string{"<<", ">>"}))
		}
		return append(append(sub('i'), sub('i')...), g.pick([]string{"+", "-", "*"}))
	case 'f':
		switch r.Intn(8) {
		case 0:
			return append(sub('f'), g.pick([]string{"neg", "pos"}))
		case 1:
			return append(sub('c'), g.pick([]string{"real", "imag"}))
		}
		a, b := sub('f'), sub("iff"[r.Intn(3)])
		if r.Intn(2) == 0 {
			a, b = b, a
		}
		return append(append(a, b...), g.pick([]string{"+", "-", "*", "/"}))
	}
	switch r.Intn(8) {
	case 0:
		return append(sub('c'), g.pick([]string{"neg", "pos"}))
	case 1:
		return append(append(sub('f'), sub('f')...), "cmplx")
	}
	a, b := sub('c'), sub("ifcc"[r.Intn(4)])
	if r.Intn(2) == 0 {
		a, b = b, a
	}
	return append(append(a, b...), g.pick([]string{"+", "-", "*", "/"}))
}

func (g *c04gen) boolExpr(depth int) []string {
	r := g.r
	if depth <= 0 || r.Intn(5) == 0 {
		return []string{g.lit('b')}
	}
	switch r.Intn(8) {
	case 0:
		return append(g.boolExpr(depth-1), "not")
	case 1, 2:
		return append(append(g.boolExpr(depth-1), g.boolExpr(depth-1)...), g.pick([]string{"&&", "||", "==", "!="}))
	case 3:
		return append(append(g.strExpr(depth-1), g.strExpr(depth-1)...), g.pick([]string{"==", "!=", "<", "<=", ">", ">="}))
	case 4:
		return append(append(g.numExpr(depth-1, 'c'), g.numExpr(depth-1, 'n')...), g.pick([]string{"==", "!="}))
	}
	return append(append(g.numExpr(depth-1, "if"[r.Intn(2)]), g.numExpr(depth-1, "if"[r.Intn(2)])...), g.pick([]string{"==", "!=", "<", "<=", ">", ">="}))
}

func (g *c04gen) strExpr(depth int) []string {
	if depth <= 0 || g.r.Intn(2) == 0 {
		return []string{g.lit('s')}
	}
	return append(append(g.strExpr(depth-1), g.strExpr(depth-1)...), "+")
}

// arbitrary (mostly ill-kinded) expression: the malformed stream
func (g *c04gen) anyExpr(depth int) []string {
	r := g.r
	if depth <= 0 || r.Intn(3) == 0 {
		return []string{g.lit("irfcbs"[r.Intn(6)])}
	}
	if r.Intn(4) == 0 {
		return append(g.anyExpr(depth-1), g.pick([]string{"neg", "pos", "cpl", "not", "real", "imag"}))
	}
	if r.Intn(12) == 0 {
		return append(append(g.anyExpr(depth-1), g.anyExpr(depth-1)...), "cmplx")
	}
	if r.Intn(6) == 0 {
		// questionable shift counts
		cnt := g.pick([]string{"-1", "1.5", "0x1p70", "18446744073709551616", "2i", "2 0i +", "\"a\"", "true", "1 neg", "0.0", "4.0 0i +"})
		return append(append(g.anyExpr(depth-1), strings.Split(cnt, " ")...), g.pick([]string{"<<", ">>"}))
	}
	return append(append(g.anyExpr(depth-1), g.anyExpr(depth-1)...), g.pick(c04binops))
}

func (g *c04gen) expr(depth int) []string {
	switch k := g.r.Intn(20); {
	case k < 6:
		return g.numExpr(depth, 'i')
	case k < 10:
		return g.numExpr(depth, 'f')
	case k < 13:
		return g.numExpr(depth, 'c')
	case k < 16:
		return g.boolExpr(depth)
	case k < 17:
		return g.strExpr(depth)
	}
	return g.anyExpr(depth)
}

var c04unsigned = []string{"uint", "uint8", "uint16", "uint32", "uint64", "uintptr"}
var c04signed = []string{"int", "int8", "int16", "int32", "int64"}

var c04pool = []string{
	"0", "1", "7", "0b101", "0o17", "017", "0x_FF", "1_000", "9223372036854775808", "0x1_0000_0000_0000_0000_0000",
	"'a'", `'\n'`, "'世'",
	"0.0", "0.5", "2.0", "1e3", "0x1p-2", "0X1.8P+1", "1e-3",
	"2i", "0.5i", "0x1p1i", "012i",
	"true", "false", `""`, `"ab"`, `"b"`,
}

var c04boundary = []string{
	"0", "1", "127", "128", "255", "256", "32767", "32768", "65535", "65536", "2147483647", "2147483648", "4294967295", "4294967296",
	"9223372036854775807", "9223372036854775808", "18446744073709551615", "18446744073709551616", "9007199254740993",
	"1 neg", "128 neg", "129 neg", "32768 neg", "32769 neg", "2147483648 neg", "2147483649 neg", "9223372036854775808 neg", "9223372036854775809 neg",
	"1 100 <<", "1 64 << 1 -", "1 63 << neg",
	"127.0", "128.0", "255.0", "256.0", "0.5", "1.5 neg", "0.0", "1e3", "65535.0", "4294967295.0", "4294967296.0",
	"9007199254740993.0", "9223372036854775807.0", "9223372036854775808.0", "9223372036854775808.0 neg", "18446744073709551615.0", "18446744073709551616.0",
	"1e100", "1e38", "3.4028235677973366e38", "3.4028235677973367e38", "1e39", "1e308", "1.797693134862315807e308", "1.797693134862315808e308", "1e309", "1e400", "1e400 neg",
	"1e-50", "1e-400", "0x1p-1074", "0x1p-1075", "0x1.000001p0", "0x1.0000010000000001p0", "0.1", "16777217.0",
	"'a'", "'世'", `'\U0010FFFF'`,
	"0i", "1 0i +", "200 0i +", "1.5 0i +", "1 2i +", "1e400 0i +", "1e400i", "1e39i", "1e100 1e100 cmplx", "128 0 cmplx", "3 4i + real", "3 4i + imag",
	"true", "false", "1 2 <", `"ab"`, `""`, `"a" "b" +`,
	"65", "0x10FFFF", "0x110000", "0xD800", "1 neg",
}

func c04gen_(r *rand.Rand, tier string, emit func(string)) {
	g := &c04gen{r: r, emit: emit}
	// (1) bounded-exhaustive: every binary operator on every ordered pair of the literal pool, every unary operator
	for _, x := range c04pool {
		for _, u := range []string{"neg", "pos", "cpl", "not", "real", "imag"} {
			emit("u " + x + " " + u)
		}
		for _, y := range c04pool {
			for _, o := range c04binops {
				emit("u " + x + " " + y + " " + o)
			}
			emit("u " + x + " " + y + " cmplx")
		}
	}
	// (2) bounded-exhaustive: every basic kind x boundary constants, as declaration and as conversion; math/big targets
	for _, t := range c04types {
		for _, e := range c04boundary {
			emit("d " + t + " " + e)
			emit("c " + t + " " + e)
		}
	}
	for _, t := range []string{"Int", "Rat", "Float"} {
		for _, e := range c04boundary {
			emit("b " + t + " " + e)
		}
	}
	// (2b) bounded-exhaustive: shifts whose count is a typed constant: operand x count x {<<,>>} x 11 integer kinds x {T(c), const k T = c}
	for _, x := range []string{"1", "5 neg", "'a'", "1.0", "2.5", "8 0i +", "0x1p70", "true", `"a"`, "1 100 <<", "9007199254740993.0"} {
		for _, cnt := range []string{"0", "3", "70", "100", "255", "256", "1 neg", "3.0", "2.5", "'\\x03'", "4 0i +", "true"} {
			for _, t := range append(append([]string{}, c04unsigned...), c04signed...) {
				for _, o := range []string{"<<", ">>"} {
					for _, k := range []string{"", "k"} {
						emit("u " + x + " " + cnt + " " + o + t + k)
					}
				}
			}
		}
	}
	// results beyond 63 bits used in typed contexts and in further constant arithmetic
	for _, t := range c04unsigned {
		for _, k := range []string{"", "k"} {
			emit("u 1 70 <<" + t + k + " 68 >>")
			emit("u 1 70 <<" + t + k + " 1 70 << ==")
			emit("d float64 1 100 <<" + t + k)
			emit("d float32 1 100 <<" + t + k)
			emit("d int 1 70 <<" + t + k)
			emit("d int64 1 70 <<" + t + k + " 10 >>" + t + k)
			emit("d uint8 'a' 1 <<" + t + k)
			emit("d complex128 1 64 <<" + t + k)
			emit("b Int 1 200 <<" + t + k)
			emit("c uint64 1 63 <<" + t + k)
		}
	}
	// (2c) bounded-exhaustive: repeated execution of one compiled big conversion with in-place mutation between
	for _, t := range []string{"Int", "Rat", "Float"} {
		for _, e := range []string{"0", "1", "7 neg", "1 1000 <<", "9223372036854775808", "18446744073709551616", "'a'", "2.0", "0.5", "2.5", "0.1", "1 3.0 /",
			"1e30", "0x1p-200", "1 100 << 1 +", "3 4i +", "8 0i +", "true", `"a"`, "1 70 <<uint8", "1e100 1 +"} {
			emit("m " + t + " " + e)
		}
	}
	// (3) random expression trees
	nu, nd := 2500, 2500
	if tier == "thorough" {
		nu, nd = 60000, 60000
	}
	for i := 0; i < nu; i++ {
		emit("u " + strings.Join(g.expr(1+r.Intn(4)), " "))
	}
	for i := 0; i < nd; i++ {
		e := strings.Join(g.expr(r.Intn(4)), " ")
		switch k := r.Intn(10); {
		case k < 6:
			emit("d " + g.pick(c04types) + " " + e)
		case k < 8:
			emit("c " + g.pick(c04types) + " " + e)
		case k < 9:
			emit("b " + g.pick([]string{"Int", "Rat", "Float"}) + " " + e)
		default:
			emit("m " + g.pick([]string{"Int", "Rat", "Float"}) + " " + e)
		}
	}
}

func init() {
	_ = sort.Strings
	_ = utf8.RuneError
	register(&Prop{
		ID:      "C04",
		Rule:    "bounded-exhaustive: 19 binary operators + complex() on every ordered pair of a 29-literal pool (all literal syntaxes and kinds), 6 unary operators/builtins on each; every basic kind x 100 boundary constants as declaration and as conversion, 3 math/big targets; then random expression trees (depth<=4, kind-directed: 85% well-kinded, 15% arbitrary = malformed stream) evaluated untyped and into random typed contexts. Non-trivial: every op with at least one operator or a typed target; distinct by op text.",
		Gen:     c04gen_,
		Exec:    c04exec,
		Prepare: c04prepare,
		Exhaustive: func(tier string) bool { return true },
	})
}
