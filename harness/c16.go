package main

// C16: package-level declarations of one evaluation may be written in any order.
//
// op   := "eval" NP perm^NP "|" item*           perm = comma separated item indices
// item := "C" k E | "G" n k^n (0 | 1 t | 2 t) E | "V" k (0 | 1 t) E | "T" k (0 | 1 u) | "S" k n t^n
//       | "F" k np p^np E | "M" t r k np p^np E
// E    := "l" int | "r" k | "io" | "+" E E | "*" E E | "a" k n E^n | "m" k j n E^n | "c" t E
//       | "let" k E E | "if" E E E | "fn" E
//
// Rendering (identifier k = "x<k>"): r k = int(xk); io = int(iota); c t e = int(xt(e));
// let k a b = func() int { xk := a; _ = xk; return b }(); if c a b = func() int { if c > 0 { return a }; return b }();
// fn e = func() int { return e }(); V k 1 t e = var xk xt = xt(e); G .. 1 t e = const ( xk0 xt = xt(e); xk1; ... ); G .. 2 t e = const ( xk0 xt = e; xk1; ... ) with e untyped: only l, io (= bare iota), +, *; M t r k.. = func (xr xt) xk(..) int { return e }.
// Every expression has type int, so every generated set is valid Go unless a cycle is planted.
//
// For every permutation the items are written in that order into ONE source text and evaluated by a
// fresh fast interpreter with a single Eval; then int(xk) is read back for every constant and variable.
// Out = the outcomes ("loop" | "error" | "x0=1 x1=2 ...") joined by " | ".
// Oracle: go/types decides validity (initialization / declaration cycles); for valid sets the values
// printed by the COMPILED program (runGoBatch) must be what every permutation gives.

import (
	"fmt"
	"go/ast"
	goparser "go/parser"
	"go/token"
	"go/types"
	"math/rand"
	"regexp"
	"strconv"
	"strings"
)

type c16rd struct {
	t   []string
	i   int
	bad bool
}

func (p *c16rd) next() string {
	if p.i >= len(p.t) {
		p.bad = true
		return ""
	}
	s := p.t[p.i]
	p.i++
	return s
}

func (p *c16rd) num() int {
	n, err := strconv.Atoi(p.next())
	if err != nil || n < -1000 || n > 1000 {
		p.bad = true
		return 0
	}
	return n
}

func (p *c16rd) id() string { return "x" + strconv.Itoa(p.num()) }

func (p *c16rd) args() string {
	n := p.num()
	var as []string
	for i := 0; i < n && !p.bad; i++ {
		as = append(as, p.expr())
	}
	return strings.Join(as, ", ")
}

func (p *c16rd) expr() string {
	if p.bad {
		return ""
	}
	switch p.next() {
	case "l":
		return "(" + strconv.Itoa(p.num()) + ")"
	case "r":
		return "int(" + p.id() + ")"
	case "io":
		return "int(iota)"
	case "+":
		a := p.expr()
		return "(" + a + " + " + p.expr() + ")"
	case "*":
		a := p.expr()
		return "(" + a + " * " + p.expr() + ")"
	case "a":
		f := p.id()
		return f + "(" + p.args() + ")"
	case "m":
		x := p.id()
		m := p.id()
		return x + "." + m + "(" + p.args() + ")"
	case "c":
		t := p.id()
		return "int(" + t + "(" + p.expr() + "))"
	case "let":
		x := p.id()
		a := p.expr()
		return "func() int { " + x + " := " + a + "; _ = " + x + "; return " + p.expr() + " }()"
	case "if":
		c := p.expr()
		a := p.expr()
		return "func() int { if " + c + " > 0 { return " + a + " }; return " + p.expr() + " }()"
	case "fn":
		return "func() int { return " + p.expr() + " }()"
	}
	p.bad = true
	return ""
}

func (p *c16rd) params() string {
	n := p.num()
	var ps []string
	for i := 0; i < n && !p.bad; i++ {
		ps = append(ps, p.id()+" int")
	}
	return strings.Join(ps, ", ")
}

type c16item struct {
	src    string
	values []string // names of the constants and variables it declares
	kind   byte
	name   string
}

func c16parse(op string) (perms [][]int, items []c16item, ok bool) {
	p := &c16rd{t: strings.Split(op, " ")}
	if p.next() != "eval" {
		return nil, nil, false
	}
	np := p.num()
	var permText []string
	for i := 0; i < np && !p.bad; i++ {
		permText = append(permText, p.next())
	}
	if p.next() != "|" {
		return nil, nil, false
	}
	for p.i < len(p.t) && !p.bad {
		k := p.next()
		switch k {
		case "C":
			x := p.id()
			items = append(items, c16item{"const " + x + " = " + p.expr(), []string{x}, 'C', x})
		case "G":
			n := p.num()
			var xs []string
			for i := 0; i < n && !p.bad; i++ {
				xs = append(xs, p.id())
			}
			if len(xs) == 0 {
				p.bad = true
				break
			}
			first := xs[0] + " = "
			switch p.num() {
			case 1:
				t := p.id()
				first = xs[0] + " " + t + " = " + t + "(" + p.expr() + ")"
			case 2: // the expression does not mention the type: only the declared type ties the constants to it
				t := p.id()
				first = xs[0] + " " + t + " = " + strings.ReplaceAll(p.expr(), "int(iota)", "iota")
			default:
				first += p.expr()
			}
			items = append(items, c16item{"const ( " + first + "; " + strings.Join(xs[1:], "; ") + " )", xs, 'G', xs[0]})
		case "V":
			x := p.id()
			if p.num() == 1 {
				t := p.id()
				items = append(items, c16item{"var " + x + " " + t + " = " + t + "(" + p.expr() + ")", []string{x}, 'V', x})
			} else {
				items = append(items, c16item{"var " + x + " = " + p.expr(), []string{x}, 'V', x})
			}
		case "T":
			x := p.id()
			if p.num() == 1 {
				items = append(items, c16item{"type " + x + " " + p.id(), nil, 'T', x})
			} else {
				items = append(items, c16item{"type " + x + " int", nil, 'T', x})
			}
		case "S":
			x := p.id()
			n := p.num()
			var fs []string
			for i := 0; i < n && !p.bad; i++ {
				fs = append(fs, fmt.Sprintf("f%d *%s", i, p.id()))
			}
			items = append(items, c16item{"type " + x + " struct { " + strings.Join(fs, "; ") + " }", nil, 'S', x})
		case "F":
			x := p.id()
			ps := p.params()
			items = append(items, c16item{"func " + x + "(" + ps + ") int { return " + p.expr() + " }", nil, 'F', x})
		case "M":
			t := p.id()
			r := p.id()
			x := p.id()
			ps := p.params()
			items = append(items, c16item{"func (" + r + " " + t + ") " + x + "(" + ps + ") int { return " + p.expr() + " }", nil, 'M', t + "." + x})
		default:
			p.bad = true
		}
	}
	if p.bad {
		return nil, nil, false
	}
	for _, pt := range permText {
		var perm []int
		seen := map[int]bool{}
		for _, f := range strings.Split(pt, ",") {
			n, err := strconv.Atoi(f)
			if err != nil || n < 0 || n >= len(items) || seen[n] {
				return nil, nil, false
			}
			seen[n] = true
			perm = append(perm, n)
		}
		if len(perm) != len(items) {
			return nil, nil, false
		}
		perms = append(perms, perm)
	}
	return perms, items, true
}

func c16source(items []c16item, perm []int) string {
	var ss []string
	for _, i := range perm {
		ss = append(ss, items[i].src)
	}
	return strings.Join(ss, "\n")
}

func c16valueNames(items []c16item) []string {
	var vs []string
	for _, it := range items {
		vs = append(vs, it.values...)
	}
	return vs
}

var c16posRe = regexp.MustCompile(`[a-zA-Z_.]*:[0-9]+:[0-9]+:? ?`)

// one evaluation by the real interpreter
func c16evalReal(items []c16item, perm []int) (outcome string, errText string) {
	ir := newQuietInterp()
	_, errText = evalSrc(ir, c16source(items, perm))
	if errText != "" {
		if strings.Contains(errText, "declaration loop") {
			return "loop", errText
		}
		return "error", errText
	}
	var vs []string
	for _, x := range c16valueNames(items) {
		vals, e := evalSrc(ir, "int("+x+")")
		if e != "" || len(vals) != 1 {
			return "error", "reading " + x + ": " + e
		}
		vs = append(vs, fmt.Sprintf("%s=%v", x, vals[0].Interface()))
	}
	return strings.Join(vs, " "), ""
}

// validity according to go/types: "" valid, "cycle" only cycle errors, "invalid: ..." anything else
func c16validity(items []c16item) (string, []string) {
	fset := token.NewFileSet()
	var id []int
	for i := range items {
		id = append(id, i)
	}
	f, err := goparser.ParseFile(fset, "p.go", "package p\n"+c16source(items, id), goparser.SkipObjectResolution)
	if err != nil {
		return "invalid: " + err.Error(), nil
	}
	var errs []string
	conf := types.Config{Error: func(e error) { errs = append(errs, e.Error()) }}
	conf.Check("p", fset, []*ast.File{f}, nil)
	if len(errs) == 0 {
		return "", nil
	}
	for _, e := range errs {
		if !strings.Contains(e, "cycle") && !strings.Contains(e, "refers to") && !strings.Contains(e, "invalid recursive type") && !strings.Contains(e, ": \t") {
			return "invalid: " + e, errs
		}
	}
	return "cycle", errs
}

var c16goOut = map[string]string{}
var c16goErr string

func c16prepare(ops []string) {
	var snips []Snippet
	var which []string
	seen := map[string]bool{}
	for _, op := range ops {
		_, items, ok := c16parse(op)
		if !ok {
			continue
		}
		key := c16key(op)
		if seen[key] {
			continue
		}
		seen[key] = true
		if v, _ := c16validity(items); v != "" {
			continue
		}
		var id []int
		for i := range items {
			id = append(id, i)
		}
		var parts []string
		for _, x := range c16valueNames(items) {
			parts = append(parts, fmt.Sprintf("fmt.Sprintf(\"%s=%%v\", int(%s))", x, x))
		}
		body := "emit(\"\")"
		if len(parts) > 0 {
			body = "emit(strings.Join([]string{" + strings.Join(parts, ", ") + "}, \" \"))"
		}
		snips = append(snips, Snippet{Imports: []string{"strings"}, Decls: "var _ = strings.Join\n" + c16source(items, id), Body: body})
		which = append(which, key)
	}
	if len(snips) == 0 {
		return
	}
	outs, err := runGoBatch("C16", snips)
	if err != nil {
		c16goErr = err.Error()
		return
	}
	for i, k := range which {
		c16goOut[k] = outs[i]
	}
}

// the declaration set of an op (without the permutations)
func c16key(op string) string {
	_, rest, _ := strings.Cut(op, " | ")
	return rest
}

// is every cycle of the call graph made of functions only?  (approximation used for the key only)
func c16onlyFuncsInLoop(errText string) bool {
	names := regexp.MustCompile(`(\S+) uses (\S+)`).FindAllStringSubmatch(errText, -1)
	return len(names) > 0
}

func c16exec(op string) Result {
	perms, items, ok := c16parse(op)
	if !ok {
		return Result{Out: "bad-op", Tags: []string{"bad-op"}}
	}
	res := Result{Nontrivial: true}
	viol := func(key, desc string) {
		if res.Viol == "" {
			res.Key, res.Viol = key, desc
			res.Tags = append(res.Tags, "viol-"+key)
		}
	}
	validity, verrs := c16validity(items)
	var id []int
	for i := range items {
		id = append(id, i)
	}
	canon := oneLine(c16source(items, id))
	var want string
	switch {
	case strings.HasPrefix(validity, "invalid"):
		viol("harness-bad-source", "generated declarations are not valid Go: "+validity+"   source: "+canon)
	case validity == "":
		w, ok := c16goOut[c16key(op)]
		if !ok {
			viol("harness-no-oracle", "no compiled-Go output for this op: "+c16goErr)
		}
		want = w
		res.Tags = append(res.Tags, "valid")
	default:
		res.Tags = append(res.Tags, "go-cycle")
	}
	isFunc := map[string]bool{}
	for _, it := range items {
		if it.kind == 'F' || it.kind == 'M' {
			isFunc[it.name] = true
		}
	}
	var outs []string
	for _, perm := range perms {
		out, errText := c16evalReal(items, perm)
		outs = append(outs, out)
		src := oneLine(c16source(items, perm))
		switch {
		case validity == "cycle":
			if out != "loop" && out != "error" {
				viol("cycle-accepted", fmt.Sprintf("Go rejects the declarations (%s) but the interpreter accepts them: %s   source: %s", strings.Join(verrs, "; "), out, src))
			}
			res.Tags = append(res.Tags, "rejected-"+out)
		case validity == "":
			switch {
			case out == "loop":
				res.Tags = append(res.Tags, "loop")
				onlyFuncs := true
				for _, m := range regexp.MustCompile(`(\S+) uses (\S+)`).FindAllStringSubmatch(strings.ReplaceAll(errText, "\\t", " "), -1) {
					if !isFunc[strings.TrimSuffix(m[1], "\\n")] {
						onlyFuncs = false
					}
				}
				if onlyFuncs {
					viol("loop-on-function-cycle", "valid Go (mutually recursive functions) rejected: "+errText+"   source: "+src)
				} else {
					viol("loop-on-valid-program", "valid Go rejected: "+errText+"   source: "+src)
				}
			case out == "error":
				res.Tags = append(res.Tags, "error")
				msg := c16posRe.ReplaceAllString(errText, "")
				key := "error-other"
				usesMethod := regexp.MustCompile(`(^| )m [0-9]+ [0-9]+ `).MatchString(c16key(op))
				switch {
				case usesMethod && len(outs) > 1 && outs[0] == want:
					// the same set compiles and gives Go's values when written in generation order (methods before
					// their uses): what fails is the placement of a method after an initializer that calls it
					key = "method-used-before-its-declaration"
				case strings.Contains(msg, "undefined identifier"):
					key = "error-undefined-identifier"
				}
				viol(key, "valid Go rejected: "+errText+"   source: "+src)
			case out != want:
				viol("value-differs", fmt.Sprintf("compiled Go gives %q, the interpreter %q   source: %s", want, out, src))
			}
		}
	}
	res.Out = strings.Join(outs, " | ")
	return res
}

// ---------------------------------------------------------------- generator

type c16g struct {
	r *rand.Rand
}

type c16decl struct {
	kind   byte // 'C' const 'G' const group 'V' var 'W' typed var 'T' named int type 'S' struct 'F' func 'M' method
	name   int
	extra  []int // G: further names; W: type; M: type
	params []int
	typ    int
}

func (g *c16g) expr(depth int, pool *c16pool, locals []int, constant bool) string {
	r := g.r
	if depth <= 0 || r.Intn(4) == 0 {
		// leaf
		var opts []string
		opts = append(opts, c17j("l", r.Intn(7)-1))
		for _, l := range locals {
			opts = append(opts, c17j("r", l))
		}
		for _, c := range pool.consts {
			if !c16in(locals, c) || true {
				opts = append(opts, c17j("r", c))
			}
		}
		if !constant {
			for _, v := range pool.vars {
				opts = append(opts, c17j("r", v))
			}
		}
		return opts[r.Intn(len(opts))]
	}
	k := r.Intn(12)
	if constant && k >= 4 {
		k = r.Intn(4)
	}
	if !constant && len(pool.methods) > 0 && r.Intn(4) == 0 {
		k = 5
	}
	switch {
	case k < 3:
		return c17j("+", g.expr(depth-1, pool, locals, constant), g.expr(depth-1, pool, locals, constant))
	case k == 3:
		return c17j("*", g.expr(depth-1, pool, locals, constant), c17j("l", r.Intn(3)))
	case k == 4 && len(pool.funcs) > 0:
		f := pool.funcs[r.Intn(len(pool.funcs))]
		if c16in(locals, f.name) {
			break
		}
		var args []string
		for range f.params {
			args = append(args, g.expr(depth-1, pool, locals, false))
		}
		if f.recursive {
			args = []string{c17j("l", r.Intn(4))}
		}
		return c17j("a", f.name, c17list(args))
	case k == 5 && len(pool.methods) > 0:
		m := pool.methods[r.Intn(len(pool.methods))]
		var xs []int
		for _, v := range pool.typed {
			if v.typ == m.typ && !c16in(locals, v.name) {
				xs = append(xs, v.name)
			}
		}
		if len(xs) == 0 {
			break
		}
		var args []string
		for range m.params {
			args = append(args, g.expr(depth-1, pool, locals, false))
		}
		return c17j("m", xs[r.Intn(len(xs))], m.name, c17list(args))
	case k == 6 && len(pool.types) > 0:
		t := pool.types[r.Intn(len(pool.types))]
		if c16in(locals, t) {
			break
		}
		return c17j("c", t, g.expr(depth-1, pool, locals, false))
	case k == 7:
		// local binding, often shadowing a package-level constant or variable
		x := 90 + r.Intn(5)
		if cands := append(append([]int{}, pool.consts...), pool.vars...); len(cands) > 0 && r.Intn(2) == 0 {
			x = cands[r.Intn(len(cands))]
		}
		return c17j("let", x, g.expr(depth-1, pool, locals, false), g.expr(depth-1, pool, append(append([]int{}, locals...), x), false))
	case k == 8:
		return c17j("if", g.expr(depth-1, pool, locals, false), g.expr(depth-1, pool, locals, false), g.expr(depth-1, pool, locals, false))
	case k == 9:
		return c17j("fn", g.expr(depth-1, pool, locals, false))
	}
	return c17j("+", g.expr(depth-1, pool, locals, constant), c17j("l", 1))
}

func c16in(l []int, x int) bool {
	for _, y := range l {
		if y == x {
			return true
		}
	}
	return false
}

type c16func struct {
	name      int
	params    []int
	recursive bool
	typ       int
}
type c16typed struct{ name, typ int }

// what an expression may refer to
type c16pool struct {
	consts, vars, types []int
	typed               []c16typed
	funcs, methods      []c16func
}

// one declaration set: items are generated in dependency order (each may refer to the earlier
// ones), the textual orders are the permutations
func (g *c16g) set(maxn int) string {
	r := g.r
	n := 2 + r.Intn(maxn-1)
	names := r.Perm(n + 10)
	pool := &c16pool{}
	var items []string
	next := 0
	fresh := func() int {
		next++
		if next > len(names) {
			return 40 + next // never reached by the permutation: still a fresh name
		}
		return names[next-1]
	}
	plant := r.Intn(9) // 0: variable cycle, 1: mutually recursive functions, 2: struct type cycle
	if r.Intn(3) == 0 {
		// a named integer type and a typed iota group whose expression does not mention the type:
		// `type T int; const ( A T = (iota + a) * b; B; C )` -- B and C depend on T only through implicit repetition
		t := fresh()
		items = append(items, c17j("T", t, 0))
		pool.types = append(pool.types, t)
		m := 2 + r.Intn(2)
		var xs []string
		for i := 0; i < m; i++ {
			x := fresh()
			pool.consts = append(pool.consts, x)
			xs = append(xs, fmt.Sprint(x))
		}
		items = append(items, c17j("G", m, strings.Join(xs, " "), 2, t, "* + io l", r.Intn(3), "l", 1+r.Intn(3)))
	}
	for len(items) < n && next < len(names)-3 {
		k := r.Intn(13)
		if len(items) == 0 && r.Intn(2) == 0 {
			k = 6
		}
		switch {
		case k < 2:
			x := fresh()
			items = append(items, c17j("C", x, g.expr(2, pool, nil, true)))
			pool.consts = append(pool.consts, x)
		case k == 2:
			m := 2 + r.Intn(2)
			var xs []string
			var ids []int
			for i := 0; i < m; i++ {
				x := fresh()
				ids = append(ids, x)
				xs = append(xs, fmt.Sprint(x))
			}
			e := c17j("+", "io", g.expr(1, pool, nil, true))
			if r.Intn(2) == 0 {
				e = c17j("*", c17j("+", "io", c17j("l", 1)), g.expr(1, pool, nil, true))
			}
			ty := "0"
			if len(pool.types) > 0 && r.Intn(3) != 0 { // typed group: the later constants inherit the type too
				t := pool.types[r.Intn(len(pool.types))]
				if r.Intn(2) == 0 {
					ty = c17j(1, t)
				} else { // untyped expression over iota and literals only: `A T = (iota + 1) * 2; B; C`
					ty = c17j(2, t)
					e = c17j("*", c17j("+", "io", c17j("l", r.Intn(3))), c17j("l", 1+r.Intn(3)))
				}
			}
			items = append(items, c17j("G", m, strings.Join(xs, " "), ty, e))
			pool.consts = append(pool.consts, ids...)
		case k < 6:
			x := fresh()
			if len(pool.types) > 0 && r.Intn(2) == 0 {
				t := pool.types[r.Intn(len(pool.types))]
				items = append(items, c17j("V", x, 1, t, g.expr(3, pool, nil, false)))
				pool.typed = append(pool.typed, c16typed{x, t})
			} else {
				items = append(items, c17j("V", x, 0, g.expr(3, pool, nil, false)))
			}
			pool.vars = append(pool.vars, x)
		case k == 6:
			x := fresh()
			if len(pool.types) > 0 && r.Intn(2) == 0 {
				items = append(items, c17j("T", x, 1, pool.types[r.Intn(len(pool.types))]))
			} else {
				items = append(items, c17j("T", x, 0))
			}
			pool.types = append(pool.types, x)
		case k < 10:
			x := fresh()
			np := r.Intn(3)
			var ps []int
			var pss []string
			for i := 0; i < np; i++ {
				p := 95 + i
				if cands := append(append([]int{}, pool.consts...), pool.vars...); len(cands) > 0 && r.Intn(3) == 0 {
					p = cands[r.Intn(len(cands))] // parameter named like a package-level constant or variable
				}
				if c16in(ps, p) {
					p = 95 + i
				}
				ps = append(ps, p)
				pss = append(pss, fmt.Sprint(p))
			}
			f := c16func{name: x, params: ps}
			var body string
			if r.Intn(5) == 0 {
				// recursive: f(p) = if p > 0 then f(p-1) + e else e'
				f.params, f.recursive = []int{98}, true
				pss = []string{"98"}
				body = c17j("if r 98 +", c17j("a", x, "1 + r 98 l -1"), g.expr(1, pool, []int{98}, false), g.expr(1, pool, []int{98}, false))
			} else {
				body = g.expr(3, pool, ps, false)
			}
			items = append(items, c17j("F", x, len(pss), strings.Join(pss, " "), body))
			items[len(items)-1] = strings.Join(strings.Fields(items[len(items)-1]), " ")
			pool.funcs = append(pool.funcs, f)
		default:
			if len(pool.types) == 0 {
				continue
			}
			t := pool.types[r.Intn(len(pool.types))]
			x := fresh()
			rn := 99
			if cands := append(append([]int{}, pool.consts...), pool.vars...); len(cands) > 0 && r.Intn(3) == 0 {
				rn = cands[r.Intn(len(cands))]
			}
			np := r.Intn(2)
			ps := []int{}
			pss := ""
			if np == 1 {
				ps = []int{96}
				pss = " 96"
			}
			body := c17j("+ r", rn, g.expr(2, pool, append([]int{rn}, ps...), false))
			items = append(items, c17j("M", t, rn, x, np)+pss+" "+body)
			pool.methods = append(pool.methods, c16func{name: x, params: ps, typ: t})
		}
	}
	switch plant {
	case 0: // initialization cycle: var a = b + ..; var b = a (directly or through a function)
		a, b := fresh(), fresh()
		if r.Intn(2) == 0 {
			items = append(items, c17j("V", a, "0 + r", b, "l 1"), c17j("V", b, "0 r", a))
		} else {
			f := fresh()
			items = append(items, c17j("V", a, "0 a", f, 0), c17j("F", f, "0 r", a))
		}
	case 1: // mutually recursive functions, valid Go
		a, b := fresh(), fresh()
		items = append(items, c17j("F", a, "1 98 if r 98 + a", b, "1 + r 98 l -1 l 1 l 0"), c17j("F", b, "1 98 if r 98 + a", a, "1 + r 98 l -1 l 2 l 0"))
		if r.Intn(2) == 0 {
			items = append(items, c17j("V", fresh(), "0 a", a, "1 l 3"))
		}
	case 2: // mutually recursive struct types
		a, b := fresh(), fresh()
		items = append(items, c17j("S", a, 2, b, a), c17j("S", b, 1, a))
	}
	np := 3
	var perms []string
	idx := make([]string, len(items))
	for i := range idx {
		idx[i] = fmt.Sprint(i)
	}
	perms = append(perms, strings.Join(idx, ","))
	rev := make([]string, len(items))
	for i := range idx {
		rev[len(items)-1-i] = idx[i]
	}
	perms = append(perms, strings.Join(rev, ","))
	for len(perms) < np {
		p := r.Perm(len(items))
		ps := make([]string, len(p))
		for i, x := range p {
			ps[i] = fmt.Sprint(x)
		}
		perms = append(perms, strings.Join(ps, ","))
	}
	return c17j("eval", len(perms), strings.Join(perms, " "), "|", strings.Join(items, " "))
}

func c16generate(r *rand.Rand, tier string, emit func(string)) {
	g := &c16g{r: r}
	n := 90
	if tier == "thorough" {
		n = 4000
	}
	for i := 0; i < n; i++ {
		if i%4 == 0 {
			emit(g.set(9))
		} else {
			emit(g.set(5))
		}
	}
}

func init() {
	register(&Prop{
		ID: "C16",
		Rule: "random valid declaration sets (2-11 declarations: constants, iota groups (typed or untyped first spec, the others by implicit repetition), variables, variables of named integer types, named and struct types, functions with parameters, recursive functions, methods; " +
			"initialisers and bodies referring to earlier-generated names through calls, method calls, conversions, closures, conditionals, local bindings and parameters that shadow package-level names), " +
			"with probability 1/9 each a planted initialization cycle, a pair of mutually recursive functions, a pair of mutually recursive struct types; every set is evaluated in 3 textual orders " +
			"(generation order, reverse, 1 random) by a fresh fast interpreter in ONE Eval and compared with the compiled program. Non-trivial: every op.",
		Gen:        c16generate,
		Exec:       c16exec,
		Prepare:    c16prepare,
		Exhaustive: func(string) bool { return false },
	})
}
