package main

// C02: assignments and compound assignments on every kind of place behave as in Go.
//
// Op lines (one statement compiled by the REAL fast interpreter + a list of operand values):
//
//	st <OP> <kind> <place> <rhs> <ykind> <const> <vals...>
//
//	OP     SET ADD SUB MUL QUO REM AND OR XOR AND_NOT SHL SHR INC DEC
//	place  variables:  g gf gc1 gc2 (package-level variable, statement at top level / in a function /
//	                   in a closure nested 1 / 2 deep), gb gbf gbc1 gbc2 (the same, BOXED: Comp.IntBindMax
//	                   forced), l (local of the enclosing function), c1..c4 (captured through 1..4 closures)
//	       places:     p (*P()), a (A[IX()] array), s (S[IX()] slice), m / m0 (M[K()], key present / absent),
//	                   f (T.F), pf (Q().F, implicit dereference), n (NN.H[IX()].F nested), blank (_)
//	                   P, IX, K, Q bump the evaluation log N (N = N*10+1)
//	rhs    c (constant) | v (variable) | f (call R() that bumps the log: N = N*10+2) | - (INC/DEC)
//	ykind  kind of the right operand (the shift count for SHL/SHR)
//	const  canonical value text or '-'
//	vals   rhs c / -: x values;  rhs v / f: x,y pairs
//
// Output: one item per value: "<new value>/<log>" or "P:<class>/<log>/<value after the panic>"
// ("-" when the place is a local and cannot be observed after the panic), "!F" appended when a
// neighbouring slot changed; "E" = compile error.
//
//	multi <kind> <stor> <i0> <stmt tokens...> | <vals: v0,v1,v2,v3,v4,v5 ...>
//	seq   <kind> <stor> <i0> <stmt tokens ; ...> | <vals ...>
//
// a statement list over the state X,Y,Z (kind T), I (int), A[0..2] (array of T), M["a"],M["b"] (map):
// see c02_multi.go.
//
// Oracle (the property): the new value must be the NATIVE Go operator (generic instantiation at
// exactly that type) applied to the old value and the operand, the log must show every operand
// evaluated exactly once in Go's order (place operands, then right-hand side), a run-time panic must
// occur exactly when native Go panics and must leave the place unchanged, the neighbouring slots
// (sentinels) must be unchanged; multi/seq lines are compared with the same source compiled by Go.

import (
	"fmt"
	"math/rand"
	"reflect"
	"sort"
	"strconv"
	"strings"

	"github.com/cosmos72/gomacro/fast"
)

var c02varPlaces = []string{"g", "gf", "gc1", "gc2", "gb", "gbf", "gbc1", "gbc2", "l", "c1", "c2", "c3", "c4"}
var c02memPlaces = []string{"p", "a", "s", "m", "m0", "f", "pf", "n"}
var c02ops = []string{"SET", "ADD", "SUB", "MUL", "QUO", "REM", "AND", "OR", "XOR", "AND_NOT", "SHL", "SHR", "INC", "DEC"}

func c02isVarPlace(p string) bool {
	for _, s := range c02varPlaces {
		if s == p {
			return true
		}
	}
	return false
}
func c02isMemPlace(p string) bool {
	for _, s := range c02memPlaces {
		if s == p {
			return true
		}
	}
	return false
}

// does evaluating the place call a logging function?
func c02placeLogs(p string) bool {
	switch p {
	case "p", "a", "s", "m", "m0", "pf", "n":
		return true
	}
	return false
}

type c02op struct {
	op         string
	k, yk      *bkind
	place, rhs string
	c          bval
	hasC       bool
	xs, ys     []bval
	prefix     string
}

func c02parse(f []string) (*c02op, error) {
	if len(f) < 7 {
		return nil, fmt.Errorf("short op")
	}
	o := &c02op{op: f[1], place: f[3], rhs: f[4]}
	okOp := false
	for _, s := range c02ops {
		okOp = okOp || s == o.op
	}
	if !okOp {
		return nil, fmt.Errorf("bad operator")
	}
	if o.k = bkinds[f[2]]; o.k == nil {
		return nil, fmt.Errorf("bad kind")
	}
	if o.yk = bkinds[f[5]]; o.yk == nil {
		return nil, fmt.Errorf("bad ykind")
	}
	if !c02isVarPlace(o.place) && !c02isMemPlace(o.place) && o.place != "blank" {
		return nil, fmt.Errorf("bad place")
	}
	o.prefix = strings.Join(f[:7], " ")
	var err error
	switch o.rhs {
	case "c":
		if o.c, err = o.yk.dec(f[6]); err != nil {
			return nil, err
		}
		o.hasC = true
		for _, p := range f[7:] {
			x, e := o.k.dec(p)
			if e != nil {
				return nil, e
			}
			o.xs, o.ys = append(o.xs, x), append(o.ys, o.c)
		}
	case "-":
		if o.op != "INC" && o.op != "DEC" {
			return nil, fmt.Errorf("rhs - needs INC/DEC")
		}
		for _, p := range f[7:] {
			x, e := o.k.dec(p)
			if e != nil {
				return nil, e
			}
			o.xs, o.ys = append(o.xs, x), append(o.ys, bval{})
		}
	case "v", "f":
		for _, p := range f[7:] {
			a, b, ok := strings.Cut(p, ",")
			if !ok {
				return nil, fmt.Errorf("bad pair")
			}
			x, e1 := o.k.dec(a)
			y, e2 := o.yk.dec(b)
			if e1 != nil || e2 != nil {
				return nil, fmt.Errorf("bad value")
			}
			o.xs, o.ys = append(o.xs, x), append(o.ys, y)
		}
	default:
		return nil, fmt.Errorf("bad rhs mode")
	}
	if (o.op == "INC" || o.op == "DEC") != (o.rhs == "-") {
		return nil, fmt.Errorf("INC/DEC take no operand")
	}
	return o, nil
}

func c02one(k *bkind) bval {
	switch k.cat {
	case catInt, catUint, catBool:
		return bval{u: 1}
	case catFloat:
		if k.bits == 32 {
			return bval{u: of32(1)}
		}
		return bval{u: of64(1)}
	case catComplex:
		if k.bits == 64 {
			return bval{u: of32(1)}
		}
		return bval{u: of64(1)}
	}
	return bval{s: "1"}
}

func c02zero(k *bkind) bval { return bval{} }

// sentinels stored in the neighbouring slots
func c02sentinels(k *bkind) (bval, bval) {
	switch k.cat {
	case catBool:
		return bval{u: 1}, bval{u: 0}
	case catInt, catUint:
		return bval{u: maskBits(0x5a5a5a5a5a5a5a5a, k.bits)}, bval{u: maskBits(0x3c3c3c3c3c3c3c3c, k.bits)}
	case catFloat:
		if k.bits == 32 {
			return bval{u: of32(1.5)}, bval{u: of32(-2.25)}
		}
		return bval{u: of64(1.5)}, bval{u: of64(-2.25)}
	case catComplex:
		if k.bits == 64 {
			return bval{u: of32(1.5), u2: of32(-3)}, bval{u: of32(-2.25), u2: of32(7)}
		}
		return bval{u: of64(1.5), u2: of64(-3)}, bval{u: of64(-2.25), u2: of64(7)}
	}
	return bval{s: "S1"}, bval{s: "S2"}
}

// is the statement defined in Go?  (kinds on which the operator exists; constant divisor zero and
// compound assignment to _ are compile errors)
func (o *c02op) defined() bool {
	if o.place == "blank" {
		return o.op == "SET"
	}
	switch o.op {
	case "SET":
		return o.k == o.yk
	case "INC", "DEC":
		return o.k.cat != catBool && o.k.cat != catString
	case "SHL", "SHR":
		return o.k.isInteger() && o.yk.isInteger()
	}
	if !binDefinedOn(o.op, o.k) || o.k != o.yk {
		return false
	}
	if (o.op == "QUO" || o.op == "REM") && o.hasC && o.c.u == 0 && o.c.u2 == 0 && o.k.cat != catString {
		// float -0 is also a zero constant (Go constants have no negative zero)
		return false
	}
	if (o.op == "QUO") && o.hasC && (o.k.cat == catFloat || o.k.cat == catComplex) && c02isZeroFloat(o.k, o.c) {
		return false
	}
	return true
}

func c02isZeroFloat(k *bkind, v bval) bool {
	switch {
	case k.cat == catFloat && k.bits == 32:
		return f32(v) == 0
	case k.cat == catFloat:
		return f64(v) == 0
	case k.cat == catComplex && k.bits == 64:
		return c64(v) == 0
	case k.cat == catComplex:
		return c128(v) == 0
	}
	return false
}

var c02assignTok = map[string]string{"SET": "=", "ADD": "+=", "SUB": "-=", "MUL": "*=", "QUO": "/=", "REM": "%=", "AND": "&=", "OR": "|=",
	"XOR": "^=", "AND_NOT": "&^=", "SHL": "<<=", "SHR": ">>="}

func (o *c02op) stmtSrc(place, rhs string) string {
	switch o.op {
	case "INC":
		return place + "++"
	case "DEC":
		return place + "--"
	}
	return place + " " + c02assignTok[o.op] + " " + rhs
}

// native Go: new value, panic class
func (o *c02op) native(x, y bval) (bval, string) {
	switch o.op {
	case "SET":
		return y, ""
	case "INC":
		return o.k.bin("ADD", x, c02one(o.k))
	case "DEC":
		return o.k.bin("SUB", x, c02one(o.k))
	case "SHL", "SHR":
		yk := o.yk
		if o.hasC {
			yk = bkinds["uint64"]
		}
		return o.k.shift[yk.name](o.op, x, y)
	}
	return o.k.bin(o.op, x, y)
}

// ---- compiled statements ----

type c02prog struct {
	err string
	// run returns value read back, sentinels, log; panicText != "" when the statement panicked;
	// observable = false when the place cannot be read after a panic
	run func(x, y bval) (val, sa, sb bval, log int, panicText string, observable bool)
}

var c02irs = map[bool]*fast.Interp{}
var c02cache = map[string]*c02prog{}
var c02seq int
var c02count = map[bool]int{}

func c02interp(boxed bool) *fast.Interp {
	c02count[boxed]++
	if c02irs[boxed] == nil || c02count[boxed]%1500 == 0 {
		ir := newQuietInterp()
		if boxed {
			evalSrc(ir, "var c02warm int")
			ir.Comp.IntBindMax = ir.Comp.IntBindNum
		}
		if _, e := evalSrc(ir, "var N int64\nfunc GN() int64 { return N }"); e != "" {
			panic("c02: prelude: " + e)
		}
		c02irs[boxed] = ir
	}
	return c02irs[boxed]
}

func c02compile(o *c02op) *c02prog {
	if p := c02cache[o.prefix]; p != nil {
		return p
	}
	if len(c02cache) > 20000 {
		c02cache = map[string]*c02prog{}
	}
	p := c02build(o)
	c02cache[o.prefix] = p
	return p
}

func c02callRecover(f func()) (panicText string) {
	defer func() {
		if e := recover(); e != nil {
			panicText = fmt.Sprint(e)
			if panicText == "" {
				panicText = "panic"
			}
		}
	}()
	f()
	return ""
}

func c02build(o *c02op) *c02prog {
	c02seq++
	n := strconv.Itoa(c02seq)
	boxed := strings.HasPrefix(o.place, "gb")
	ir := c02interp(boxed)
	T, U := o.k.name, o.yk.name
	if o.hasC || o.rhs == "-" {
		U = "int" // the variable Y is not used
	}
	rhsSrc := ""
	switch o.rhs {
	case "c":
		if o.op == "SHL" || o.op == "SHR" {
			rhsSrc = strconv.FormatUint(o.c.u, 10)
		} else if rhsSrc = o.yk.lit(o.c); rhsSrc == "" {
			return &c02prog{err: "no-such-constant"}
		}
	case "v":
		rhsSrc = "Y" + n
	case "f":
		rhsSrc = "R" + n + "()"
	}
	decl := fmt.Sprintf("var Y%s %s\nfunc R%s() %s { N = N*10 + 2; return Y%s }\n", n, U, n, U, n)
	yarg := func(y bval) reflect.Value {
		if o.hasC || o.rhs == "-" {
			return reflect.ValueOf(0)
		}
		return o.yk.toRV(y)
	}
	s1, s2 := c02sentinels(o.k)
	getN := ir.ValueOf("GN").ReflectValue()
	readN := func() int { return int(getN.Call(nil)[0].Int()) }

	if o.place == "l" || (len(o.place) == 2 && o.place[0] == 'c') {
		depth := 0
		if o.place != "l" {
			depth = int(o.place[1] - '0')
		}
		if o.rhs == "v" {
			rhsSrc = "yy"
		}
		body := o.stmtSrc("t", rhsSrc)
		for i := 0; i < depth; i++ {
			body = "func() { " + body + " }()"
		}
		src := decl + fmt.Sprintf("func L%s(x %s, y %s, s1 %s, s2 %s) (%s, %s, %s) {\n\tsa := s1; t := x; sb := s2; yy := y; Y%s = y; N = 0\n\t_ = yy\n\t%s\n\treturn t, sa, sb\n}\n",
			n, T, U, T, T, T, T, T, n, body)
		if _, e := evalSrc(ir, src); e != "" {
			return &c02prog{err: e}
		}
		fn := ir.ValueOf("L" + n).ReflectValue()
		return &c02prog{run: func(x, y bval) (val, sa, sb bval, log int, pt string, obs bool) {
			var out []reflect.Value
			pt = c02callRecover(func() { out = fn.Call([]reflect.Value{o.k.toRV(x), yarg(y), o.k.toRV(s1), o.k.toRV(s2)}) })
			log = readN()
			if pt != "" {
				return x, s1, s2, log, pt, false
			}
			return o.k.ofRV(out[0]), o.k.ofRV(out[1]), o.k.ofRV(out[2]), log, "", true
		}}
	}

	// state in package-level objects: init I(x,y,s1,s2), statement F(), getter G()
	var place, initSrc, getSrc string
	switch o.place {
	case "g", "gf", "gc1", "gc2", "gb", "gbf", "gbc1", "gbc2":
		decl += fmt.Sprintf("var SA%s %s\nvar X%s %s\nvar SB%s %s\n", n, T, n, T, n, T)
		place = "X" + n
		initSrc = fmt.Sprintf("SA%s = s1; X%s = x; SB%s = s2", n, n, n)
		getSrc = fmt.Sprintf("X%s, SA%s, SB%s", n, n, n)
	case "p", "a", "s":
		decl += fmt.Sprintf("var A%s [3]%s\nvar S%s = A%s[:]\nfunc P%s() *%s { N = N*10 + 1; return &A%s[1] }\nfunc IX%s() int { N = N*10 + 1; return 1 }\n", n, T, n, n, n, T, n, n)
		place = map[string]string{"p": "*P" + n + "()", "a": "A" + n + "[IX" + n + "()]", "s": "S" + n + "[IX" + n + "()]"}[o.place]
		initSrc = fmt.Sprintf("A%s[0] = s1; A%s[1] = x; A%s[2] = s2", n, n, n)
		getSrc = fmt.Sprintf("A%s[1], A%s[0], A%s[2]", n, n, n)
	case "m", "m0":
		decl += fmt.Sprintf("var M%s = map[string]%s{}\nfunc K%s() string { N = N*10 + 1; return \"k\" }\n", n, T, n)
		place = "M" + n + "[K" + n + "()]"
		if o.place == "m" {
			initSrc = fmt.Sprintf("M%s[\"a\"] = s1; M%s[\"k\"] = x; M%s[\"z\"] = s2", n, n, n)
		} else {
			initSrc = fmt.Sprintf("M%s[\"a\"] = s1; delete(M%s, \"k\"); M%s[\"z\"] = s2", n, n, n)
		}
		getSrc = fmt.Sprintf("M%s[\"k\"], M%s[\"a\"], M%s[\"z\"]", n, n, n)
	case "f", "pf":
		decl += fmt.Sprintf("type ST%s struct { A %s; F %s; B %s }\nvar T%s ST%s\nfunc Q%s() *ST%s { N = N*10 + 1; return &T%s }\n", n, T, T, T, n, n, n, n, n)
		place = "T" + n + ".F"
		if o.place == "pf" {
			place = "Q" + n + "().F"
		}
		initSrc = fmt.Sprintf("T%s.A = s1; T%s.F = x; T%s.B = s2", n, n, n)
		getSrc = fmt.Sprintf("T%s.F, T%s.A, T%s.B", n, n, n)
	case "n":
		decl += fmt.Sprintf("type ST%s struct { A %s; F %s; B %s }\ntype NT%s struct { H [3]ST%s }\nvar NN%s NT%s\nfunc IX%s() int { N = N*10 + 1; return 1 }\n", n, T, T, T, n, n, n, n, n)
		place = "NN" + n + ".H[IX" + n + "()].F"
		initSrc = fmt.Sprintf("NN%s.H[1].A = s1; NN%s.H[1].F = x; NN%s.H[1].B = s2", n, n, n)
		getSrc = fmt.Sprintf("NN%s.H[1].F, NN%s.H[1].A, NN%s.H[1].B", n, n, n)
	case "blank":
		place = "_"
		decl += fmt.Sprintf("var X%s %s\n", n, T)
		initSrc = fmt.Sprintf("X%s = x", n)
		getSrc = fmt.Sprintf("X%s, s1g%s, s2g%s", n, n, n)
		decl += fmt.Sprintf("var s1g%s, s2g%s %s\n", n, n, T)
		initSrc += fmt.Sprintf("; s1g%s = s1; s2g%s = s2", n, n)
	}
	decl += fmt.Sprintf("func I%s(x %s, y %s, s1 %s, s2 %s) int { %s; Y%s = y; N = 0; return 0 }\n", n, T, U, T, T, initSrc, n)
	decl += fmt.Sprintf("func G%s() (%s, %s, %s) { return %s }\n", n, T, T, T, getSrc)
	if _, e := evalSrc(ir, decl); e != "" {
		return &c02prog{err: "decl: " + e}
	}
	stmt := o.stmtSrc(place, rhsSrc)
	var exec func()
	switch o.place {
	case "g", "gb":
		var expr *fast.Expr
		if pt := c02callRecover(func() { expr = ir.Compile(stmt) }); pt != "" {
			return &c02prog{err: pt}
		}
		exec = func() {
			if expr != nil {
				ir.RunExpr(expr)
			}
		}
	default:
		body := stmt
		nest := 0
		switch o.place {
		case "gc1", "gbc1":
			nest = 1
		case "gc2", "gbc2":
			nest = 2
		}
		for i := 0; i < nest; i++ {
			body = "func() { " + body + " }()"
		}
		if _, e := evalSrc(ir, fmt.Sprintf("func F%s() int { %s; return 0 }", n, body)); e != "" {
			return &c02prog{err: e}
		}
		fn := ir.ValueOf("F" + n).ReflectValue()
		exec = func() { fn.Call(nil) }
	}
	initFn := ir.ValueOf("I" + n).ReflectValue()
	getFn := ir.ValueOf("G" + n).ReflectValue()
	return &c02prog{run: func(x, y bval) (val, sa, sb bval, log int, pt string, obs bool) {
		initFn.Call([]reflect.Value{o.k.toRV(x), yarg(y), o.k.toRV(s1), o.k.toRV(s2)})
		pt = c02callRecover(exec)
		log = readN()
		out := getFn.Call(nil)
		return o.k.ofRV(out[0]), o.k.ofRV(out[1]), o.k.ofRV(out[2]), log, pt, true
	}}
}

func c02panicClass(pt string) string {
	switch {
	case strings.Contains(pt, "divide by zero"):
		return "divide"
	case strings.Contains(pt, "negative shift amount"):
		return "negShift"
	}
	if len(pt) > 60 {
		pt = pt[:60]
	}
	return strings.ReplaceAll(pt, " ", "_")
}

func c02execSt(f []string) Result {
	o, err := c02parse(f)
	if err != nil {
		return Result{Out: "bad-op", Tags: []string{"bad-op", "bad-op:" + err.Error()}}
	}
	tags := []string{"op:" + o.op, "kind:" + o.k.name, "place:" + o.place, "rhs:" + o.rhs}
	key := fmt.Sprintf("%s-%s-%s-%s", o.op, o.k.name, o.place, o.rhs)
	if o.op == "SHL" || o.op == "SHR" {
		key = fmt.Sprintf("%s-%s.%s-%s-%s", o.op, o.k.name, o.yk.name, o.place, o.rhs)
	}
	if o.hasC {
		cc := constClass(o.yk, o.c)
		key += "-" + cc
		tags = append(tags, "const:"+cc)
	}
	defined := o.defined()
	p := c02compile(o)
	if p.err != "" {
		res := Result{Out: "E", Tags: append(tags, "compile-error"), Nontrivial: true}
		if defined && p.err != "no-such-constant" {
			res.Viol = fmt.Sprintf("gomacro rejects a valid statement (%s): %s", o.prefix, p.err)
			res.Key = key + "-rejected"
		}
		if !defined {
			res.Tags = append(res.Tags, "undefined-op-rejected")
		}
		return res
	}
	if !defined {
		return Result{Out: "ACCEPTED", Tags: append(tags, "undefined-op-accepted"), Nontrivial: true,
			Viol: "gomacro accepts a statement that Go rejects: " + o.prefix, Key: key + "-accepted"}
	}
	wantLog := 0
	if c02placeLogs(o.place) {
		wantLog = 1
	}
	if o.rhs == "f" {
		wantLog = wantLog*10 + 2
	}
	s1, s2 := c02sentinels(o.k)
	var outs []string
	viol := ""
	for i := range o.xs {
		x, y := o.xs[i], o.ys[i]
		if o.place == "m0" {
			x = c02zero(o.k)
		}
		val, sa, sb, log, pt, obs := p.run(x, y)
		want, wantPanic := o.native(x, y)
		if o.place == "blank" {
			want = x
		}
		var got, exp string
		if pt != "" {
			pc := c02panicClass(pt)
			tags = append(tags, "panic:"+strings.SplitN(pc, "_", 2)[0])
			vs := "-"
			if obs {
				vs = o.k.enc(val)
			}
			got = fmt.Sprintf("P:%s/%d/%s", pc, log, vs)
		} else {
			got = fmt.Sprintf("%s/%d", o.k.enc(val), log)
		}
		if wantPanic != "" {
			vs := "-"
			if obs || pt == "" {
				vs = o.k.enc(x)
				if o.place == "m0" && pt != "" {
					// the key stays absent: reads give the zero value
					vs = o.k.enc(c02zero(o.k))
				}
			}
			exp = fmt.Sprintf("P:%s/%d/%s", wantPanic, wantLog, vs)
		} else {
			exp = fmt.Sprintf("%s/%d", o.k.enc(want), wantLog)
		}
		if o.k.enc(sa) != o.k.enc(s1) || o.k.enc(sb) != o.k.enc(s2) {
			got += "!F"
		}
		if got != exp && viol == "" {
			ys := ""
			if o.rhs == "v" || o.rhs == "f" {
				ys = " y=" + o.yk.encIn(y)
			}
			viol = fmt.Sprintf("%s: x=%s%s: gomacro gives %s, Go gives %s (value/evaluation log)", o.prefix, o.k.encIn(x), ys, got, exp)
		}
		outs = append(outs, got)
	}
	sort.Strings(tags)
	tags = uniqStrings(tags)
	return Result{Out: strings.Join(outs, " "), Viol: viol, Key: key, Tags: tags, Nontrivial: true}
}

func c02exec(line string) Result {
	f := strings.Fields(line)
	if len(f) == 0 {
		return Result{Out: "bad-op", Tags: []string{"bad-op"}}
	}
	switch f[0] {
	case "st":
		return c02execSt(f)
	case "multi", "seq":
		return c02execMulti(line)
	case "fn":
		return c02execFn(line)
	case "mk":
		return c02execMk(line)
	}
	return Result{Out: "bad-op", Tags: []string{"bad-op"}}
}

// ---- generator ----

type c02gen struct {
	r     *rand.Rand
	tier  string
	quick bool
	emit  func(string)
	rot   int
}

func (g *c02gen) vals(k *bkind, n int) []bval {
	b := boundary(k)
	if len(b) > n {
		// a deterministic sample of the boundary set that always contains the extremes
		g.r.Shuffle(len(b), func(i, j int) { b[i], b[j] = b[j], b[i] })
		b = b[:n]
	}
	for i := 0; i < n/4+1; i++ {
		b = append(b, randomVal(g.r, k))
	}
	return b
}

func (g *c02gen) core(k *bkind) []bval {
	switch k.cat {
	case catInt:
		w := uint(k.bits)
		min := uint64(1) << (w - 1)
		return []bval{{u: 0}, {u: 1}, {u: maskBits(^uint64(0), k.bits)}, {u: min}, {u: min - 1}, {u: 2}, {u: maskBits(negU(2), k.bits)}, {u: min + 1}, {u: maskBits(0x55aa33cc0ff01234, k.bits)}}
	case catUint:
		w := uint(k.bits)
		return []bval{{u: 0}, {u: 1}, {u: maskBits(^uint64(0), k.bits)}, {u: uint64(1) << (w - 1)}, {u: 2}, {u: uint64(1)<<(w-1) - 1}, {u: maskBits(0x55aa33cc0ff01234, k.bits)}}
	}
	b := boundary(k)
	if len(b) > 8 {
		b = b[:8]
	}
	return b
}

func (g *c02gen) pairs(o string, k, yk *bkind, nx, ny int) []string {
	var xs, ys []bval
	xs = append(g.core(k), g.vals(k, nx)...)
	if o == "SHL" || o == "SHR" {
		ys = shiftCounts(yk, k.bits)
		if len(ys) > ny+6 {
			g.r.Shuffle(len(ys), func(i, j int) { ys[i], ys[j] = ys[j], ys[i] })
			ys = ys[:ny+6]
		}
	} else {
		ys = append(g.core(yk), g.vals(yk, ny)...)
	}
	var out []string
	seen := map[string]bool{}
	add := func(x, y bval) {
		s := k.encIn(x) + "," + yk.encIn(y)
		if !seen[s] {
			seen[s] = true
			out = append(out, s)
		}
	}
	// core x core, then a diagonal through the rest
	cx, cy := g.core(k), ys
	if len(cy) > 9 {
		cy = cy[:9]
	}
	if g.quick && len(cy) > 6 {
		cy = cy[:6]
	}
	for _, x := range cx {
		for _, y := range cy {
			add(x, y)
		}
	}
	for i := 0; i < len(xs) || i < len(ys); i++ {
		add(xs[i%len(xs)], ys[(i*7+3)%len(ys)])
		add(xs[(i*5+1)%len(xs)], ys[i%len(ys)])
	}
	return out
}

func (g *c02gen) xvals(k *bkind, n int) []string {
	var out []string
	seen := map[string]bool{}
	for _, x := range append(g.core(k), g.vals(k, n)...) {
		s := k.encIn(x)
		if !seen[s] {
			seen[s] = true
			out = append(out, s)
		}
	}
	return out
}

func (g *c02gen) line(op string, k *bkind, place, rhs string, yk *bkind, c string, vals []string) {
	g.emit(fmt.Sprintf("st %s %s %s %s %s %s %s", op, k.name, place, rhs, yk.name, c, strings.Join(vals, " ")))
}

var c02countKinds = []string{"uint", "uint8", "uint16", "uint32", "uint64", "uintptr", "int", "int8", "int16", "int32", "int64"}

func c02gen1(r *rand.Rand, tier string, emit func(string)) {
	g := &c02gen{r: r, tier: tier, quick: tier == "quick", emit: emit}
	nx, ny := 6, 5
	if !g.quick {
		nx, ny = 60, 40
	}
	allPlaces := append(append([]string{}, c02varPlaces...), c02memPlaces...)
	for _, kn := range bkindNames {
		k := bkinds[kn]
		for _, op := range c02ops {
			for _, place := range allPlaces {
				switch op {
				case "INC", "DEC":
					g.line(op, k, place, "-", k, "-", g.xvals(k, nx))
					continue
				case "SHL", "SHR":
					if !k.isInteger() {
						// undefined: one probe per place class
						if place == "g" || place == "a" {
							g.line(op, k, place, "v", bkinds["uint"], "-", g.pairs("ADD", k, bkinds["uint"], 1, 1)[:2])
							g.line(op, k, place, "c", bkinds["uint64"], "1", g.xvals(k, 1)[:1])
							g.line(op, k, place, "c", bkinds["uint64"], "0", g.xvals(k, 1)[:1])
						}
						continue
					}
					// constant counts
					counts := []uint64{0, 1, uint64(k.bits - 1), uint64(k.bits), 64, 200}
					if g.quick {
						counts = []uint64{0, counts[1+g.r.Intn(2)], counts[3+g.r.Intn(3)]}
					}
					for _, c := range counts {
						g.line(op, k, place, "c", bkinds["uint64"], strconv.FormatUint(c, 16), g.xvals(k, nx))
					}
					// variable counts of every integer kind (quick: two kinds per line set, rotating)
					yks := c02countKinds
					if g.quick {
						yks = []string{c02countKinds[g.rot%len(c02countKinds)], c02countKinds[(g.rot+5)%len(c02countKinds)]}
						g.rot++
					}
					for i, ykn := range yks {
						rhs := "v"
						if i%2 == 1 {
							rhs = "f"
						}
						g.line(op, k, place, rhs, bkinds[ykn], "-", g.pairs(op, k, bkinds[ykn], nx, ny))
					}
					continue
				}
				if op != "SET" && !binDefinedOn(op, k) {
					// undefined operator: must be rejected, also in the shortcut-prone constant shapes
					if place == "g" || place == "l" || place == "a" || place == "m" {
						g.line(op, k, place, "v", k, "-", g.pairs("ADD", k, k, 1, 1)[:2])
						for _, c := range []bval{c02zero(k), c02one(k)} {
							if k.cat == catString {
								c = bval{s: ""}
							}
							if k.lit(c) != "" {
								g.line(op, k, place, "c", k, k.encIn(c), g.xvals(k, 1)[:1])
							}
						}
					}
					continue
				}
				// expression operand: v and f alternate over places (both in the thorough tier)
				modes := []string{"v", "f"}
				if g.quick {
					modes = []string{modes[g.rot%2]}
					g.rot++
				}
				for _, m := range modes {
					g.line(op, k, place, m, k, "-", g.pairs(op, k, k, nx, ny))
				}
				// constant operands
				cs := constSet2(g.r, k, tier, true)
				if g.quick && len(cs) > 7 {
					// 0, 1, -1/max and a rotating sample of the rest
					keep := cs[:3]
					rest := cs[3:]
					g.r.Shuffle(len(rest), func(i, j int) { rest[i], rest[j] = rest[j], rest[i] })
					cs = append(append([]bval{}, keep...), rest[:4]...)
				}
				for ci, c := range cs {
					if k.lit(c) == "" {
						continue
					}
					if g.quick && ci >= 3 {
						// quick: the shortcut-prone constants on every place, the others on a rotating third
						g.rot++
						if g.rot%4 != 0 {
							continue
						}
					}
					g.line(op, k, place, "c", k, k.encIn(c), g.xvals(k, nx))
				}
			}
		}
		// blank identifier
		g.line("SET", k, "blank", "f", k, "-", g.pairs("SET", k, k, 1, 1)[:3])
		g.line("SET", k, "blank", "v", k, "-", g.pairs("SET", k, k, 1, 1)[:2])
		if c := c02one(k); k.lit(c) != "" {
			g.line("SET", k, "blank", "c", k, k.encIn(c), g.xvals(k, 1)[:1])
			g.line("ADD", k, "blank", "c", k, k.encIn(c), g.xvals(k, 1)[:1])
		}
		g.line("ADD", k, "blank", "v", k, "-", g.pairs("ADD", k, k, 1, 1)[:2])
	}
	c02genMulti(g)
	c02genFn(g)
	c02genMk(g)
	// malformed stream
	for _, s := range []string{"st", "st ADD int g v", "st FOO int g v int - 1,1", "st ADD int9 g v int - 1,1", "st ADD int zz v int - 1,1", "st ADD int g q int - 1,1",
		"st ADD int g v int - 1", "st ADD int g c int zz 1", "st INC int g v int - 1,1", "st ADD int g - int - 1", "xx", "multi", "multi int", "mk", "mk arr G K MK = k2", "mk zz G K MK = k2 #7", "mk arr G K MK = #7 k2", "fn", "fn zz cbc", "fn r1 cxc", "seq int G 0 X += | 1,2,3,4,5,6"} {
		emit(s)
	}
}

func init() {
	register(&Prop{
		ID:         "C02",
		Rule:       "every (operator incl. =, ++/--, shifts) x kind x place shape (13 variable storage classes, 8 non-variable places, _) x operand mode (constant / variable / logging call) with boundary x boundary + random operands; multi-assignments and random statement sequences against compiled Go; undefined operator/kind pairs must be rejected; malformed lines",
		Gen:        c02gen1,
		Exec:       c02exec,
		Prepare:    c02prepare,
		Exhaustive: func(string) bool { return false },
	})
}
