package main

// Additional program families of C18 (added after seeded bugs C18-2 and C18-3 were missed):
//
//   c18embedPrograms   methods and fields promoted through embedded fields, reached through unnamed
//                      struct values, pointers to unnamed structs, named structs and pointers to them,
//                      embedded pointers, two levels of embedding, embedded interfaces; used as call,
//                      method value, through an interface.  They matter for the etoken.GENERICS
//                      settings (xreflect method lookup has a separate path for GENERICS_V2_CTI).
//   c18constProgram    control flow on compile-time constants (if false / const verbose = false /
//                      1 > 2 / for false / constant switch) mixed with run-time conditions: constant
//                      conditions are folded at compile time, a path that depends on the compile
//                      options (OptDebugger keeps debug information per statement).

import (
	"fmt"
	"math/rand"
	"strings"
)

func c18embedPrograms(tier string) [][]string {
	decls := `type Counter struct{ n int }
func (c Counter) Get() int { return c.n }
func (c *Counter) Add(d int) int { c.n += d; return c.n }
type Mid struct{ Counter; m int }
type Getter interface { Get() int }
type AddGetter interface { Get() int; Add(int) int }
type H struct { Counter; tag string }
type HP struct { *Counter; tag string }
type H2 struct { Mid; tag string }
type HI struct { Getter; tag string }
type Nums []int
func (x Nums) Total() (t int) { for _, v := range x { t += v }; return }
type HN struct { Nums; tag string }`
	holders := []struct{ name, init string }{
		{"unnamed-value", `h := struct{ Counter; tag string }{Counter{40}, "t"}`},
		{"unnamed-pointer", `h := &struct{ Counter; tag string }{Counter{40}, "t"}`},
		{"named-value", `h := H{Counter{40}, "t"}`},
		{"named-pointer", `h := &H{Counter{40}, "t"}`},
		{"unnamed-value-embedded-pointer", `h := struct{ *Counter; tag string }{&Counter{40}, "t"}`},
		{"unnamed-pointer-embedded-pointer", `h := &struct{ *Counter; tag string }{&Counter{40}, "t"}`},
		{"named-embedded-pointer", `h := HP{&Counter{40}, "t"}`},
		{"named-pointer-embedded-pointer", `h := &HP{&Counter{40}, "t"}`},
		{"unnamed-value-two-levels", `h := struct{ Mid; tag string }{Mid{Counter{40}, 1}, "t"}`},
		{"unnamed-pointer-two-levels", `h := &struct{ Mid; tag string }{Mid{Counter{40}, 1}, "t"}`},
		{"named-two-levels", `h := H2{Mid{Counter{40}, 1}, "t"}`},
		{"named-pointer-two-levels", `h := &H2{Mid{Counter{40}, 1}, "t"}`},
		{"unnamed-value-embedded-interface", `h := struct{ Getter; tag string }{Counter{40}, "t"}`},
		{"unnamed-pointer-embedded-interface", `h := &struct{ Getter; tag string }{&Counter{40}, "t"}`},
		{"named-embedded-interface", `h := HI{Counter{40}, "t"}`},
		{"named-pointer-embedded-interface", `h := &HI{&Counter{40}, "t"}`},
		{"slice-of-unnamed-pointers", `hs := []*struct{ Counter; tag string }{{Counter{40}, "t"}}; h := hs[0]`},
		{"map-of-unnamed-pointers", `hm := map[string]*struct{ Counter; tag string }{"k": {Counter{40}, "t"}}; h := hm["k"]`},
		{"field-unnamed-pointer", `var w struct{ in *struct{ Counter; tag string } }; w.in = &struct{ Counter; tag string }{Counter{40}, "t"}; h := w.in`},
		{"func-result-unnamed-pointer", `mk := func() *struct{ Counter; tag string } { return &struct{ Counter; tag string }{Counter{40}, "t"} }; h := mk()`},
	}
	uses := []string{
		`h.Get()`,
		`h.Add(2)`,
		`h.Add(2); h.Get()`,
		`f := h.Get; f()`,
		`f := h.Add; f(2) + f(3)`,
		`var i Getter = h; i.Get()`,
		`var i AddGetter = h; i.Add(1); i.Get()`,
		`h.tag, h.Get() + len(h.tag)`,
		`func() int { return h.Get() * 2 }()`,
		`defer func() { out("deferred", h.Get()) }(); h.Get()`,
		`var x interface{} = h; g, ok := x.(Getter); ok && g.Get() == 40`,
		`var x interface{} = h; switch g := x.(type) { case AddGetter: out("ag", g.Add(1)); case Getter: out("g", g.Get()); default: out("none") }`,
		`gs := []Getter{h, h}; gs[0].Get() + gs[1].Get()`,
		`use := func(g Getter) int { return g.Get() + 1 }; use(h)`,
	}
	var out [][]string
	for hi, h := range holders {
		for ui, u := range uses {
			// quick tier: every holder and every use, half of the combinations
			if tier == "thorough" || (hi+ui)%2 == 0 || ui < 2 {
				out = append(out, []string{decls, h.init, u})
			}
		}
		// direct access to promoted fields
		if !strings.Contains(h.name, "interface") {
			out = append(out, []string{decls, h.init, `h.n`}, []string{decls, h.init, `h.n = 7; h.Counter.n + h.Get()`})
		}
	}
	// embedded named non-struct type with a method
	for _, init := range []string{`h := HN{Nums{1, 2, 3}, "t"}`, `h := &HN{Nums{1, 2, 3}, "t"}`,
		`h := struct{ Nums; tag string }{Nums{1, 2, 3}, "t"}`, `h := &struct{ Nums; tag string }{Nums{1, 2, 3}, "t"}`} {
		out = append(out, []string{decls, init, `h.Total()`}, []string{decls, init, `f := h.Total; f() + len(h.Nums)`})
	}
	return out
}

type c18cg struct {
	r   *rand.Rand
	tag int
}

func (g *c18cg) cond() string {
	consts := []string{"false", "true", "cb", "!cb", "ct", "!ct", "ci > 3", "ci < 3", "1 > 2", "2 > 1", "ci == ci", "ci != ci",
		"cs == \"x\"", "len(cs) > 5", "cb && ct", "cb || ct", "false && vb", "true || vb", "ci*2 > 100"}
	vars := []string{"vb", "!vb", "vi > 2", "vi < 2", "vb && ct", "vb || cb", "cb && vb", "vi > ci", "vi+ci > 9"}
	if g.r.Intn(3) == 0 {
		return vars[g.r.Intn(len(vars))]
	}
	return consts[g.r.Intn(len(consts))]
}

func (g *c18cg) mark() string { g.tag++; return fmt.Sprintf("out(%d)", g.tag) }

func (g *c18cg) stmts(n, depth int, inFunc bool) string {
	var out []string
	for i := 0; i < n; i++ {
		k := g.r.Intn(9)
		if depth <= 0 && k >= 6 {
			k = g.r.Intn(6)
		}
		switch k {
		case 0, 1:
			out = append(out, fmt.Sprintf("if %s { %s }", g.cond(), g.mark()))
		case 2:
			out = append(out, fmt.Sprintf("if %s { %s } else { %s }", g.cond(), g.mark(), g.mark()))
		case 3:
			if inFunc {
				g.tag++
				out = append(out, fmt.Sprintf("if %s { return \"r%d\" }", g.cond(), g.tag))
			} else {
				out = append(out, fmt.Sprintf("if %s { vi++; %s }", g.cond(), g.mark()))
			}
		case 4:
			out = append(out, fmt.Sprintf("for %s { %s; break }", g.cond(), g.mark()))
		case 5:
			out = append(out, fmt.Sprintf("switch { case %s: %s; case %s: %s; default: %s }", g.cond(), g.mark(), g.cond(), g.mark(), g.mark()))
		case 6:
			out = append(out, fmt.Sprintf("if %s { %s } else if %s { %s } else { %s }", g.cond(), g.stmts(1+g.r.Intn(2), depth-1, inFunc), g.cond(), g.mark(), g.stmts(1, depth-1, inFunc)))
		case 7:
			out = append(out, fmt.Sprintf("if x := ci * %d; x > %d { %s } else { %s }", 1+g.r.Intn(4), g.r.Intn(30), g.mark(), g.mark()))
		default:
			out = append(out, fmt.Sprintf("switch ci { case %d: %s; case 5, 6: %s; default: %s }", g.r.Intn(8), g.mark(), g.mark(), g.mark()))
		}
	}
	return strings.Join(out, "; ")
}

func c18constProgram(r *rand.Rand) []string {
	g := &c18cg{r: r}
	head := fmt.Sprintf("const cb = %v; const ct = %v; const ci = %d; const cs = %q; var vb = %v; var vi = %d",
		r.Intn(3) == 0, r.Intn(3) != 0, r.Intn(8), []string{"x", "hello!", ""}[r.Intn(3)], r.Intn(2) == 0, r.Intn(6))
	chunks := []string{head}
	chunks = append(chunks, fmt.Sprintf("func cf(a int) string { %s; return \"end\" }", g.stmts(2+r.Intn(4), 2, true)))
	chunks = append(chunks, "cf(1)")
	chunks = append(chunks, g.stmts(1+r.Intn(3), 1, false))
	if r.Intn(2) == 0 {
		chunks = append(chunks, fmt.Sprintf("g := func() int { %s; return vi }; g()", g.stmts(1+r.Intn(3), 1, false)))
	}
	return chunks
}

// fixed programs of the same family (run in every tier)
func c18constFixed() [][]string {
	return [][]string{
		{`const verbose = false`, `var trace []string`, `func work(n int) int { if verbose { trace = append(trace, "work") }; return n * 2 }`, `work(21), len(trace)`},
		{`func dead() string { if false { return "dead" }; return "alive" }`, `dead()`},
		{`func dead2() string { if 1 > 2 { return "dead" } else { out("else") }; return "alive" }`, `dead2()`},
		{`if false { out("dead") }`, `out("after")`},
		{`const dbg = false; x := 0`, `if dbg { x = 1 } else { x = 2 }`, `x`},
		{`x := 0; if true { x = 1 } else { x = 2 }; x`},
		{`n := 0; for false { n++ }; n`},
		{`n := 0; for i := 0; false; i++ { n++ }; n`},
		{`switch { case false: out("f"); case true: out("t"); default: out("d") }`},
		{`const k = 3; switch k { case 1: out(1); case 3: out(3); default: out(0) }`},
		{`func pick(a int) int { if false { a = 100 }; if true { a++ }; return a }`, `pick(1)`},
		{`func g2() (r int) { defer func() { if false { r = -1 } }(); if false { panic("dead") }; return 5 }`, `g2()`},
		{`const lim = 10; s := 0; for i := 0; i < lim; i++ { if lim > 100 { s = -1000 }; s += i }; s`},
		{`var f func() int; if false { f = func() int { return 1 } }; f == nil`},
		{`x := 1; if false && x > 0 { x = 2 }; if true || x > 5 { x += 10 }; x`},
		{`func lab() int { n := 0; if false { goto end }; n = 7; end: return n }`, `lab()`},
		{`const verbose = false`, `func lg2(s string) { if verbose { out(s) } }`, `lg2("a"); lg2("b"); out("done")`},
		{`if false { undefinedThing() }`, `out("next")`},
	}
}
