package main

// C11: interpreted functions and types interoperate with compiled code like Go values.
//
// Two op families:
//
//	cb <pattern> <sel> <args>   an interpreted function literal with the parameter pattern (u = used,
//	     _ = blank, v = variadic last) returning the selected parameters is evaluated in a real
//	     interpreter and CALLED FROM COMPILED CODE (reflect.Value.Call of the MakeFunc value
//	     fast.funcGeneric built); Out = the results.  The Lean driver runs Model/Interop.callGeneric
//	     (parameter i stored in its bind, result j read from its bind) on the same line.
//	     Oracle: the selection computed natively.
//	prog <kind> <seed>          a seeded program routes interpreted callbacks / interpreted types through
//	     compiled entry points (sort.Slice/Sort/Stable/Search, strings.Map/FieldsFunc/IndexFunc,
//	     fmt.Sprint on Stringer/error, io.ReadAll/io.Copy on Reader/Writer, sync.Once, time.AfterFunc,
//	     helpers of c11_helpers.go: repeated calls, foreign goroutines, variadic / multi-result
//	     callbacks, panics crossing the boundary in both directions).  The same source is compiled by the
//	     Go toolchain (runGoBatch) and both outputs must be identical.  Out = "ran" (the model has no
//	     interpreter for programs; the tie for this family is the compiled-Go oracle).

import (
	_ "embed"
	"fmt"
	"math/rand"
	r "reflect"
	"strconv"
	"strings"
	"time"

	"github.com/cosmos72/gomacro/fast"
)

//go:embed c11_helpers.go
var c11HelperFile string

func init() {
	register(&Prop{
		ID:         "C11",
		Rule:       "cb: every parameter pattern over {used, blank} up to 4 parameters (+ variadic last) with seeded result selections and arguments; cbk: typed parameters of every basic kind with boundary values on the generic calling path; prog: 15 program kinds x seeds with random data, compared with the same source compiled by Go; non-trivial = at least one value crossed the interpreter/compiled boundary",
		Gen:        c11Gen,
		Exec:       c11Exec,
		Prepare:    c11Prepare,
		Exhaustive: func(string) bool { return false },
	})
}

var c11Kinds = []string{"sortslice", "sortsort", "stringsfunc", "stringer", "reader", "once", "search", "closure", "goroutines", "variadic", "panics", "methodvalue", "sprint", "foreignpanic", "reassign"}

func c11Gen(rng *rand.Rand, tier string, emit func(string)) {
	// bounded-exhaustive patterns
	var pats []string
	var rec func(p string, n int)
	rec = func(p string, n int) {
		if p != "" {
			pats = append(pats, p)
			pats = append(pats, p+"v")
		}
		if n == 0 {
			return
		}
		rec(p+"u", n-1)
		rec(p+"_", n-1)
	}
	rec("", 4)
	pats = append(pats, "v", "")
	reps := 2
	seeds := 3
	if tier == "thorough" {
		reps, seeds = 20, 40
	}
	for _, p := range pats {
		for k := 0; k < reps; k++ {
			var used []int
			for i, c := range p {
				if c != '_' {
					used = append(used, i)
				}
			}
			nres := rng.Intn(4)
			if len(used) == 0 {
				nres = 0
			}
			var sel []string
			for j := 0; j < nres; j++ {
				sel = append(sel, strconv.Itoa(used[rng.Intn(len(used))]))
			}
			var args []string
			for _, c := range p {
				if c == 'v' {
					n := rng.Intn(4)
					var xs []string
					for q := 0; q < n; q++ {
						xs = append(xs, strconv.Itoa(rng.Intn(200)-100))
					}
					args = append(args, "["+strings.Join(xs, " ")+"]")
				} else {
					args = append(args, strconv.Itoa(rng.Intn(2000)-1000))
				}
			}
			named := "n"
			if rng.Intn(2) == 0 {
				named = "r"
			}
			emit(fmt.Sprintf("cb %s%s|%s|%s", named, p, strings.Join(sel, ","), strings.Join(args, ";")))
		}
	}
	c11GenK(rng, tier, emit)
	for s := 0; s < seeds; s++ {
		for k := range c11Kinds {
			emit(fmt.Sprintf("prog %s %d", c11Kinds[k], rng.Int63()))
		}
	}
	// malformed
	emit("cb nuu|7|1;2")
	emit("cb quu|0|1;2")
	emit("prog nosuch 1")
	emit("frob")
}

// ---------------- cb ----------------

func c11Cb(arg string) Result {
	parts := strings.Split(arg, "|")
	if len(parts) != 3 || len(parts[0]) == 0 || (parts[0][0] != 'n' && parts[0][0] != 'r') {
		return Result{Out: "bad-op", Tags: []string{"bad-op"}}
	}
	named := parts[0][0] == 'n'
	pat := parts[0][1:]
	var sel []int
	if parts[1] != "" {
		for _, s := range strings.Split(parts[1], ",") {
			n, err := strconv.Atoi(s)
			if err != nil || n < 0 || n >= len(pat) || pat[n] == '_' {
				return Result{Out: "bad-op", Tags: []string{"bad-op"}}
			}
			sel = append(sel, n)
		}
	}
	var argToks []string
	if parts[2] != "" {
		argToks = strings.Split(parts[2], ";")
	}
	if len(argToks) != len(pat) {
		return Result{Out: "bad-op", Tags: []string{"bad-op"}}
	}
	// source of the interpreted function
	var ps, rs, body, rets []string
	for i, c := range pat {
		switch c {
		case 'u':
			ps = append(ps, fmt.Sprintf("a%d int", i))
		case '_':
			ps = append(ps, "_ int")
		case 'v':
			if i != len(pat)-1 {
				return Result{Out: "bad-op", Tags: []string{"bad-op"}}
			}
			ps = append(ps, fmt.Sprintf("a%d ...int", i))
		default:
			return Result{Out: "bad-op", Tags: []string{"bad-op"}}
		}
	}
	for j, s := range sel {
		t := "int"
		if pat[s] == 'v' {
			t = "[]int"
		}
		if named {
			rs = append(rs, fmt.Sprintf("r%d %s", j, t))
			body = append(body, fmt.Sprintf("r%d = a%d", j, s))
		} else {
			rs = append(rs, t)
			rets = append(rets, fmt.Sprintf("a%d", s))
		}
	}
	src := "(func(" + strings.Join(ps, ", ") + ") (" + strings.Join(rs, ", ") + ") { " + strings.Join(body, "; ")
	if named {
		src += "; return })"
	} else {
		src += " return " + strings.Join(rets, ", ") + " })"
	}
	ir := c11CbInterp()
	vals, errText := evalSrc(ir, src)
	if errText != "" || len(vals) != 1 || vals[0].Kind() != r.Func {
		return Result{Out: "eval-error " + errText, Viol: "interpreted function literal does not evaluate: " + src + ": " + errText, Key: "c11-cb-eval", Tags: []string{"eval-error"}}
	}
	fn := vals[0]
	// arguments built and the call made by compiled code
	args := make([]r.Value, len(pat))
	want := make([]string, len(pat))
	for i, tok := range argToks {
		if pat[i] == 'v' {
			inner := strings.Trim(tok, "[]")
			xs := []int{}
			for _, f := range strings.Fields(inner) {
				n, _ := strconv.Atoi(f)
				xs = append(xs, n)
			}
			args[i] = r.ValueOf(xs)
			want[i] = fmt.Sprint(xs)
		} else {
			n, _ := strconv.Atoi(tok)
			args[i] = r.ValueOf(n)
			want[i] = strconv.Itoa(n)
		}
	}
	var outs []r.Value
	var perr interface{}
	func() {
		defer func() { perr = recover() }()
		if strings.HasSuffix(pat, "v") {
			outs = fn.CallSlice(args)
		} else {
			outs = fn.Call(args)
		}
	}()
	if perr != nil {
		return Result{Out: "panic", Viol: fmt.Sprintf("calling %s from compiled code panics: %v", src, perr), Key: "c11-cb-panic", Tags: []string{"panic"}}
	}
	var got, exp []string
	for _, o := range outs {
		got = append(got, fmt.Sprint(o.Interface()))
	}
	for _, s := range sel {
		exp = append(exp, want[s])
	}
	res := Result{Out: strings.Join(got, ";"), Nontrivial: true, Tags: []string{"cb", fmt.Sprintf("cb-params-%d", len(pat)), fmt.Sprintf("cb-results-%d", len(sel))}}
	if strings.Contains(pat, "_") {
		res.Tags = append(res.Tags, "cb-blank-param")
	}
	if strings.HasSuffix(pat, "v") {
		res.Tags = append(res.Tags, "cb-variadic")
	}
	if named {
		res.Tags = append(res.Tags, "cb-named-results")
	}
	if strings.Join(got, ";") != strings.Join(exp, ";") {
		res.Viol = fmt.Sprintf("%s called with (%s) from compiled code returned (%s), Go returns (%s)", src, strings.Join(want, ", "), strings.Join(got, ", "), strings.Join(exp, ", "))
		res.Key = fmt.Sprintf("c11-cb-%s-%s", pat, parts[1])
	}
	return res
}

var c11cbir *fast.Interp

func c11CbInterp() *fast.Interp {
	if c11cbir == nil {
		c11cbir = newQuietInterp()
	}
	return c11cbir
}

// ---------------- programs ----------------

type c11Prog struct {
	Imports []string
	Decls   string
	Body    string
}

func c11Ints(rng *rand.Rand, n, lim int) string {
	var xs []string
	for i := 0; i < n; i++ {
		xs = append(xs, strconv.Itoa(rng.Intn(2*lim)-lim))
	}
	return "[]int{" + strings.Join(xs, ", ") + "}"
}

func c11Word(rng *rand.Rand) string {
	n := 1 + rng.Intn(6)
	b := make([]byte, n)
	for i := range b {
		b[i] = "abcdeXYZ 0159_-"[rng.Intn(15)]
	}
	return string(b)
}

func c11Strs(rng *rand.Rand, n int) string {
	var xs []string
	for i := 0; i < n; i++ {
		xs = append(xs, strconv.Quote(c11Word(rng)))
	}
	return "[]string{" + strings.Join(xs, ", ") + "}"
}

func c11Program(kind string, seed int64) (c11Prog, bool) {
	rng := rand.New(rand.NewSource(seed))
	n := 3 + rng.Intn(30)
	switch kind {
	case "sortslice":
		return c11Prog{Imports: []string{"sort"}, Body: fmt.Sprintf(`
	xs := %s
	calls := 0
	sort.Slice(xs, func(i, j int) bool { calls++; return xs[i] < xs[j] })
	emit(fmt.Sprint("asc=", xs, calls))
	m := %d
	sort.SliceStable(xs, func(i, j int) bool { return (xs[i]%%m+m)%%m < (xs[j]%%m+m)%%m })
	emit(fmt.Sprint("mod=", xs))
	ss := %s
	sort.Slice(ss, func(i, j int) bool {
		if len(ss[i]) != len(ss[j]) {
			return len(ss[i]) > len(ss[j])
		}
		return ss[i] < ss[j]
	})
	emit(fmt.Sprintf("strs=%%q %%v", ss, sort.SliceIsSorted(xs, func(i, j int) bool { return xs[i] < xs[j] })))`,
			c11Ints(rng, n, 50), 2+rng.Intn(7), c11Strs(rng, n))}, true
	case "sortsort":
		return c11Prog{Imports: []string{"sort"}, Decls: `
type rec struct {
	k int
	s string
}
type byKey []rec

func (b byKey) Len() int           { return len(b) }
func (b byKey) Less(i, j int) bool { return b[i].k < b[j].k }
func (b byKey) Swap(i, j int)      { b[i], b[j] = b[j], b[i] }

type counting struct {
	byKey
	less, swap int
}

func (c *counting) Less(i, j int) bool { c.less++; return c.byKey.Less(i, j) }
func (c *counting) Swap(i, j int)      { c.swap++; c.byKey.Swap(i, j) }
`, Body: fmt.Sprintf(`
	ks := %s
	ws := %s
	var rs []rec
	for i, k := range ks {
		rs = append(rs, rec{k %% 7, ws[i%%len(ws)]})
	}
	a := append([]rec(nil), rs...)
	sort.Sort(byKey(a))
	emit(fmt.Sprint("sort=", a, sort.IsSorted(byKey(a))))
	b := append([]rec(nil), rs...)
	sort.Stable(byKey(b))
	emit(fmt.Sprint("stable=", b))
	c := &counting{byKey: append([]rec(nil), rs...)}
	sort.Sort(c)
	emit(fmt.Sprint("counting=", c.byKey, c.less, c.swap))
	d := append([]rec(nil), rs...)
	sort.Sort(sort.Reverse(byKey(d)))
	emit(fmt.Sprint("reverse=", d))
	var si sort.Interface = byKey(rs)
	emit(fmt.Sprint("iface=", si.Len(), si.Less(0, len(rs)-1)))`, c11Ints(rng, n, 100), c11Strs(rng, 5))}, true
	case "stringsfunc":
		return c11Prog{Imports: []string{"strings", "unicode"}, Body: fmt.Sprintf(`
	s := %s
	shift := rune(%d)
	seen := 0
	emit("map=" + strings.Map(func(c rune) rune {
		seen++
		if c == ' ' {
			return -1
		}
		if unicode.IsLower(c) {
			return 'a' + (c-'a'+shift)%%26
		}
		return c
	}, s) + fmt.Sprint(seen))
	sep := %q
	emit(fmt.Sprintf("fields=%%q", strings.FieldsFunc(s, func(c rune) bool { return strings.ContainsRune(sep, c) })))
	emit(fmt.Sprint("index=", strings.IndexFunc(s, unicode.IsDigit), strings.LastIndexFunc(s, func(c rune) bool { return c > 'b' && c < 'z' })))
	emit(fmt.Sprintf("trim=%%q", strings.TrimFunc(s, func(c rune) bool { return !unicode.IsLetter(c) })))`,
			strconv.Quote(c11Word(rng)+" "+c11Word(rng)+c11Word(rng)+" "+c11Word(rng)), rng.Intn(26), " _-"[rng.Intn(3):])}, true
	case "stringer":
		return c11Prog{Imports: []string{"errors"}, Decls: `
type pt struct {
	x, y int
	name string
}

func (p pt) String() string { return fmt.Sprintf("%s(%d,%d)", p.name, p.x, p.y) }

type myErr struct {
	code int
	msg  string
}

func (e *myErr) Error() string { return fmt.Sprintf("E%d: %s", e.code, e.msg) }

func mayFail(n int) error {
	if n%2 == 0 {
		return &myErr{n, "even"}
	}
	return nil
}
`, Body: fmt.Sprintf(`
	p := pt{%d, %d, %q}
	var s fmt.Stringer = p
	emit("helper=" + hStringer(s) + hStringer(pt{1, 2, "q"}))
	pp := &pt{7, 8, "ptr"}
	var sp fmt.Stringer = pp
	emit("ptrvalue=" + hStringer(sp) + hStringer(pp))
	var err error = &myErr{%d, %q}
	emit("err=" + err.Error() + "|" + hError(err))
	emit(fmt.Sprint("is=", errors.Is(err, err), errors.Unwrap(err) == nil, %d))
	for i := 0; i < 3; i++ {
		if e := mayFail(i + %d); e != nil {
			emit(fmt.Sprint("mayfail=", i, e.Error(), hError(e)))
		} else {
			emit(fmt.Sprint("mayfail=", i, "nil"))
		}
	}
	ss := []fmt.Stringer{p, pt{0, 0, "o"}}
	emit("slice=" + hStringer(ss[0]) + hStringer(ss[1]))`, rng.Intn(100), rng.Intn(100), c11Word(rng), rng.Intn(1000), c11Word(rng), 0, rng.Intn(10))}, true
	case "foreignpanic":
		// callbacks entered from FOREIGN goroutines that panic; the panic is recovered by a deferred NAMED
		// top-level function / method value (not a func literal), also nested and with state kept across
		// several callbacks running on the same foreign goroutine
		return c11Prog{Imports: []string{"errors", "strings"}, Decls: `
var notes []string

func note(s string) { notes = append(notes, s) }

func cleanup() {
	if e := recover(); e != nil {
		note(fmt.Sprint("cleanup recovered: ", e))
	}
}

type guard struct {
	name string
	hits int
}

func (g *guard) done() {
	if e := recover(); e != nil {
		g.hits++
		note(fmt.Sprint(g.name, " recovered: ", e, " #", g.hits))
	}
}

var errOdd = errors.New("odd input")

func risky(i, mod int) (res int) {
	defer cleanup()
	res = -1
	if i%mod == 0 {
		panic(fmt.Sprint("bad ", i))
	}
	return i * 10
}

func guarded(g *guard, i int) (res int) {
	defer g.done()
	if i%2 == 1 {
		panic(errOdd)
	}
	return i + 100
}

func inner(i int) int {
	defer cleanup()
	if i > 0 {
		panic(fmt.Sprint("inner ", i))
	}
	return 7
}
`, Body: fmt.Sprintf(`
	mod := %d
	n := %d
	emit(fmt.Sprint("named=", hGoSafe(func(i int) int { return risky(i, mod) }, n)))
	emit("notes1=" + strings.Join(notes, ";"))
	notes = nil
	g := &guard{name: %q}
	emit(fmt.Sprint("method=", hGoSafe(func(i int) int { return guarded(g, i) }, n), g.hits))
	emit("notes2=" + strings.Join(notes, ";"))
	notes = nil
	emit(fmt.Sprint("nested=", hGoSafe(func(i int) int { return hCallN(inner, 2)[1] + risky(i+1, mod) }, 3)))
	emit("notes3=" + strings.Join(notes, ";"))
	notes = nil
	shared := 0
	fs := []func() string{
		func() string { shared += risky(1, 5); return fmt.Sprint("a", shared) },
		func() string { shared += risky(5, 5); return fmt.Sprint("b", shared) },
		func() string { shared += guarded(g, 3); return fmt.Sprint("c", shared) },
		func() string { defer cleanup(); shared++; panic("direct") },
		func() string { return fmt.Sprint("e", shared, g.hits) },
	}
	emit(fmt.Sprint("many=", hGoMany(fs)))
	emit("notes4=" + strings.Join(notes, ";"))
	notes = nil
	emit(fmt.Sprint("literal=", hGoSafe(func(i int) (res int) {
		defer func() {
			if e := recover(); e != nil {
				res = -i
			}
		}()
		if i%%2 == 0 {
			panic("lit")
		}
		return i
	}, 4)))
	emit(fmt.Sprint("owner=", risky(%d, mod), guarded(g, 1), strings.Join(notes, ";")))`, 2+rng.Intn(3), 3+rng.Intn(6), c11Word(rng), rng.Intn(10))}, true
	case "reassign":
		// convert a VARIABLE to a compiled interface, reassign the variable, use the old interface value
		return c11Prog{Imports: []string{"sort", "strings"}, Decls: `
type nslice []int

func (s nslice) Len() int           { return len(s) }
func (s nslice) Less(i, j int) bool { return s[i] < s[j] }
func (s nslice) Swap(i, j int)      { s[i], s[j] = s[j], s[i] }
func (s nslice) String() string     { return fmt.Sprint("nslice", []int(s)) }

type nmap map[string]int

func (m nmap) String() string {
	keys := []string{}
	for k := range m {
		keys = append(keys, fmt.Sprint(k, ":", m[k]))
	}
	sort.Strings(keys)
	return "nmap{" + strings.Join(keys, ",") + "}"
}

type nfunc func() string

func (f nfunc) String() string { return "nfunc->" + f() }

type nchan chan int

func (c nchan) String() string { return fmt.Sprint("nchan cap=", cap(c), " len=", len(c)) }

type pstruct struct{ a int }

func (p *pstruct) String() string { return fmt.Sprint("pstruct", p.a) }

type vstruct struct{ a int }

func (v vstruct) String() string { return fmt.Sprint("vstruct", v.a) }

type narr [2]int

func (a narr) String() string { return fmt.Sprint("narr", a[0], a[1]) }

type nint int

func (n nint) String() string { return fmt.Sprint("nint", int(n)) }

type nstr string

func (s nstr) String() string { return "nstr:" + string(s) }
`, Body: fmt.Sprintf(`
	a := nslice(%s)
	var si sort.Interface = a
	var ss fmt.Stringer = a
	a0 := a
	b := nslice(%s)
	a = b
	sort.Sort(si)
	emit(fmt.Sprint("slice=", []int(a0), []int(b), sort.IsSorted(a0), hStringer(ss), hStringer(a)))
	m := nmap{"x": %d}
	var sm fmt.Stringer = m
	m = nmap{"y": 2, "z": 3}
	emit("map=" + hStringer(sm) + hStringer(m))
	word := %q
	f := nfunc(func() string { return word })
	var sf fmt.Stringer = f
	f = func() string { return "second" }
	emit("func=" + hStringer(sf) + hStringer(f))
	c := make(nchan, %d)
	var sc fmt.Stringer = c
	c = make(nchan, 9)
	c <- 1
	emit("chan=" + hStringer(sc) + hStringer(c))
	p := &pstruct{%d}
	var sp fmt.Stringer = p
	p = &pstruct{-1}
	emit("ptr=" + hStringer(sp) + hStringer(p))
	v := vstruct{%d}
	var sv fmt.Stringer = v
	v = vstruct{-2}
	v.a--
	emit("struct=" + hStringer(sv) + hStringer(v))
	ar := narr{%d, 2}
	var sa fmt.Stringer = ar
	ar = narr{7, 8}
	ar[0] = 9
	emit("array=" + hStringer(sa) + hStringer(ar))
	var list []fmt.Stringer
	var cur nslice
	var curp *pstruct
	var curm nmap
	for i := 0; i < %d; i++ {
		cur = nslice{i, i * i}
		curp = &pstruct{i}
		curm = nmap{"k": i}
		var s1 fmt.Stringer = cur
		var s2 fmt.Stringer = curp
		var s3 fmt.Stringer = curm
		list = append(list, s1, s2, s3)
	}
	out := []string{}
	for _, s := range list {
		out = append(out, hStringer(s))
	}
	emit("loop=" + strings.Join(out, ""))
	var ifs []sort.Interface
	var w nslice
	for i := 0; i < 3; i++ {
		w = nslice{3 - i, i, 5}
		var wi sort.Interface = w
		ifs = append(ifs, wi)
	}
	res := []string{}
	for _, x := range ifs {
		sort.Sort(x)
		res = append(res, fmt.Sprint(x.Len(), x.Less(0, 1)))
	}
	emit(fmt.Sprint("sortloop=", res, []int(w)))
	ni := nint(%d)
	var sn fmt.Stringer = ni
	ni = 99
	ns := nstr(word)
	var sns fmt.Stringer = ns
	ns = "changed"
	emit("basic=" + hStringer(sn) + hStringer(ni) + hStringer(sns) + hStringer(ns))`, c11Ints(rng, 3+rng.Intn(6), 50), c11Ints(rng, 3+rng.Intn(6), 50), rng.Intn(100), c11Word(rng), 1+rng.Intn(5), rng.Intn(100), rng.Intn(100), rng.Intn(100), 2+rng.Intn(4), rng.Intn(100))}, true
	case "sprint":
		// the value reaches compiled code as interface{} (fmt.Sprint's parameter type), not as fmt.Stringer
		return c11Prog{Imports: []string{"errors"}, Decls: `
type pt struct {
	x, y int
	name string
}

func (p pt) String() string { return fmt.Sprintf("%s(%d,%d)", p.name, p.x, p.y) }

type myErr struct {
	code int
	msg  string
}

func (e *myErr) Error() string { return fmt.Sprintf("E%d: %s", e.code, e.msg) }
`, Body: fmt.Sprintf(`
	p := pt{%d, %d, %q}
	var s fmt.Stringer = p
	emit("sprint=" + fmt.Sprint(s))
	emit("sprintf=" + fmt.Sprintf("%%v|%%s|%%10v|%%d", s, s, s, 5))
	emit(fmt.Sprint("slice=", []fmt.Stringer{p, pt{0, 0, "o"}}))
	var err error = &myErr{%d, "m"}
	emit("errsprint=" + fmt.Sprint(err))
	w := fmt.Errorf("wrap: %%w", err)
	emit(fmt.Sprint("wrap=", w, errors.Unwrap(w) == err, errors.Is(w, err)))`, rng.Intn(100), rng.Intn(100), c11Word(rng), rng.Intn(100))}, true
	case "reader":
		return c11Prog{Imports: []string{"io", "strings"}, Decls: `
type chunked struct {
	data  []byte
	pos   int
	chunk int
	reads int
}

func (c *chunked) Read(p []byte) (int, error) {
	c.reads++
	if c.pos >= len(c.data) {
		return 0, io.EOF
	}
	n := c.chunk
	if n > len(p) {
		n = len(p)
	}
	if n > len(c.data)-c.pos {
		n = len(c.data) - c.pos
	}
	copy(p, c.data[c.pos:c.pos+n])
	c.pos += n
	return n, nil
}

type sink struct {
	parts []string
}

func (s *sink) Write(p []byte) (int, error) {
	s.parts = append(s.parts, string(p))
	return len(p), nil
}
`, Body: fmt.Sprintf(`
	text := strings.Repeat(%q, %d)
	c := &chunked{data: []byte(text), chunk: %d}
	b, err := io.ReadAll(c)
	emit(fmt.Sprint("readall=", string(b) == text, len(b), err, c.reads > 0))
	emit("helper=" + hReadAll(&chunked{data: []byte(%q), chunk: 2}))
	w := &sink{}
	n, err := io.Copy(w, &chunked{data: []byte(text), chunk: %d})
	emit(fmt.Sprint("copy=", n, err, strings.Join(w.parts, "") == text))
	var rd io.Reader = &chunked{data: []byte("hello world"), chunk: 3}
	buf := make([]byte, 4)
	k, err := io.ReadFull(rd, buf)
	emit(fmt.Sprint("readfull=", k, err, string(buf)))
	lr := io.LimitReader(rd, 5)
	rest, _ := io.ReadAll(lr)
	emit(fmt.Sprintf("limit=%%q", rest))
	var wr io.Writer = w
	fmt.Fprintf(wr, "%%d-%%s", 42, "x")
	emit("fprintf=" + w.parts[len(w.parts)-1])
	io.WriteString(wr, "ws")
	emit("writestring=" + w.parts[len(w.parts)-1])`, c11Word(rng), 1+rng.Intn(40), 1+rng.Intn(9), c11Word(rng), 1+rng.Intn(600))}, true
	case "once":
		return c11Prog{Imports: []string{"sync", "time"}, Body: fmt.Sprintf(`
	var once sync.Once
	n := 0
	for i := 0; i < 3; i++ {
		once.Do(func() { n += %d })
	}
	emit(fmt.Sprint("once=", n))
	ch := make(chan int, 1)
	v := %d
	t := time.AfterFunc(time.Millisecond, func() { v *= 2; ch <- v })
	got := <-ch
	emit(fmt.Sprint("afterfunc=", got, v, t.Stop()))
	var mu sync.Mutex
	var wg sync.WaitGroup
	total := 0
	for i := 0; i < %d; i++ {
		wg.Add(1)
		i := i
		time.AfterFunc(time.Duration(i%%3)*time.Millisecond, func() {
			defer wg.Done()
			mu.Lock()
			total += i
			mu.Unlock()
		})
	}
	wg.Wait()
	emit(fmt.Sprint("timers=", total))`, 1+rng.Intn(9), rng.Intn(100), 2+rng.Intn(8))}, true
	case "search":
		return c11Prog{Imports: []string{"sort"}, Body: fmt.Sprintf(`
	xs := %s
	sort.Ints(xs)
	for _, t := range %s {
		calls := 0
		i := sort.Search(len(xs), func(i int) bool { calls++; return xs[i] >= t })
		emit(fmt.Sprint("search=", t, i, calls))
	}
	k := sort.Search(len(xs), func(i int) bool { return xs[i]*xs[i] >= 400 && xs[i] > 0 })
	emit(fmt.Sprint("square=", k))`, c11Ints(rng, n, 60), c11Ints(rng, 4, 70))}, true
	case "closure":
		return c11Prog{Body: fmt.Sprintf(`
	k := %d
	sum := 0
	hist := []int{}
	f := func(i int) int { sum += i * k; hist = append(hist, sum); return sum }
	emit(fmt.Sprint("calln=", hCallN(f, %d), sum, len(hist)))
	emit(fmt.Sprint("again=", hCallN(f, 3), sum))
	mk := func(step int) func(int) int {
		acc := 0
		return func(i int) int { acc += step; return acc + i }
	}
	g1, g2 := mk(%d), mk(%d)
	emit(fmt.Sprint("two=", hCallN(g1, 4), hCallN(g2, 4), hCallN(g1, 2)))
	lim := %d
	a, cnt := hFold(func(acc, x int) (int, bool) { return acc + x, acc+x < lim }, %s)
	emit(fmt.Sprint("fold=", a, cnt))`, 1+rng.Intn(9), n, 1+rng.Intn(5), 1+rng.Intn(5), 50+rng.Intn(200), c11Ints(rng, n, 40))}, true
	case "goroutines":
		return c11Prog{Imports: []string{"sync"}, Body: fmt.Sprintf(`
	table := %s
	pure := func(i int) int {
		s := 0
		for j := 0; j <= i %% len(table); j++ {
			s += table[j] * (j + 1)
		}
		return s
	}
	emit(fmt.Sprint("concurrent=", hGoCall(pure, %d)))
	cnt := 0
	emit(fmt.Sprint("sequential=", hGoSeq(func(i int) int { cnt += i; return cnt }, %d), cnt))
	var mu sync.Mutex
	total := 0
	hGoCall(func(i int) int { mu.Lock(); total += pure(i); mu.Unlock(); return 0 }, %d)
	emit(fmt.Sprint("locked=", total))
	nested := func(i int) int { return hGoSeq(pure, 3)[i%%3] + hCallN(pure, 2)[1] }
	emit(fmt.Sprint("nested=", hGoCall(nested, %d)))`, c11Ints(rng, 3+rng.Intn(10), 30), 2+rng.Intn(40), 2+rng.Intn(10), 2+rng.Intn(30), 2+rng.Intn(12))}, true
	case "variadic":
		return c11Prog{Imports: []string{"errors", "strings"}, Body: fmt.Sprintf(`
	f := func(prefix string, xs ...int) (int, string, error) {
		s := 0
		for _, x := range xs {
			s += x
		}
		if len(xs) == 0 {
			return 0, prefix, errors.New("empty " + prefix)
		}
		xs[0] = -1
		return s, prefix + strings.Repeat("!", len(xs)), nil
	}
	data := %s
	emit("variadic=" + hVariadic(f, %q, data) + fmt.Sprint(data[0]))
	emit("empty=" + hVariadic(f, %q, nil))
	g := func(a int, b string, c []int) (string, int, bool, []int) {
		return b + b, a * len(c), a > %d, append(c[:1:1], a)
	}
	emit("multi=" + hMulti(g, %d, %q, data))`, c11Ints(rng, 1+rng.Intn(8), 99), c11Word(rng), c11Word(rng), rng.Intn(50), rng.Intn(100), c11Word(rng))}, true
	case "panics":
		return c11Prog{Imports: []string{"sort", "errors"}, Decls: `
var errBoom = errors.New("boom error")
`, Body: fmt.Sprintf(`
	xs := %s
	func() {
		defer func() { emit(fmt.Sprint("insort=", recover())) }()
		n := 0
		sort.Slice(xs, func(i, j int) bool {
			n++
			if n == %d {
				panic(fmt.Sprint("less failed at ", n))
			}
			return xs[i] < xs[j]
		})
		emit("insort-no-panic")
	}()
	emit("compiled-recovers=" + hRecover(func() { panic("interpreted " + %q) }))
	emit("compiled-recovers-err=" + hRecover(func() { panic(errBoom) }))
	emit("no-panic=" + hRecover(func() {}))
	func() {
		defer func() { emit(fmt.Sprint("interp-recovers=", recover())) }()
		hPanic(%q)
		emit("unreachable")
	}()
	func() {
		defer func() {
			e := recover()
			err, isErr := e.(error)
			emit(fmt.Sprint("through=", e, isErr, isErr && errors.Is(err, errBoom)))
		}()
		emit(fmt.Sprint(hApply(func(x int) int {
			if x > 0 {
				panic(errBoom)
			}
			return x
		}, %d)))
	}()
	emit(fmt.Sprint("after=", hApply(func(x int) int { return x * 2 }, %d)))`, c11Ints(rng, 6+rng.Intn(10), 50), 1+rng.Intn(5), c11Word(rng), c11Word(rng), 1+rng.Intn(5), rng.Intn(50))}, true
	case "methodvalue":
		return c11Prog{Imports: []string{"sort", "strings"}, Decls: `
type acc struct {
	total int
	log   []string
}

func (a *acc) add(i int) int { a.total += i; a.log = append(a.log, fmt.Sprint(i)); return a.total }
func (a acc) scaled(i int) int { return a.total * i }
`, Body: fmt.Sprintf(`
	a := &acc{}
	emit(fmt.Sprint("methodvalue=", hCallN(a.add, %d), a.total, strings.Join(a.log, ",")))
	emit(fmt.Sprint("valuerecv=", hCallN(a.scaled, 4)))
	emit(fmt.Sprint("methodexpr=", hCallN(func(i int) int { return (*acc).add(a, i) }, 3), a.total))
	up := strings.ToUpper
	emit("compiledvalue=" + strings.Map(func(c rune) rune { return rune(up(string(c))[0]) }, %q))
	fs := []func(int) int{a.add, func(i int) int { return -i }, a.scaled}
	out := []int{}
	for _, f := range fs {
		out = append(out, hCallN(f, 2)...)
	}
	emit(fmt.Sprint("funcs=", out))
	idx := sort.Search(100, func(i int) bool { return a.scaled(i) >= %d })
	emit(fmt.Sprint("search=", idx))`, 2+rng.Intn(8), c11Word(rng), rng.Intn(500))}, true
	}
	return c11Prog{}, false
}

// helper source spliced into the compiled snippets: everything after the import block
func c11HelperDecls() string {
	i := strings.Index(c11HelperFile, ")\n")
	return c11HelperFile[i+2:]
}

var c11Oracle = map[string]string{}
var c11OracleErr string

func c11Prepare(ops []string) {
	var snippets []Snippet
	var keys []string
	seen := map[string]bool{}
	for _, op := range ops {
		f, arg, _ := strings.Cut(op, " ")
		if f != "prog" || seen[arg] {
			continue
		}
		fs := strings.Fields(arg)
		if len(fs) != 2 {
			continue
		}
		seed, _ := strconv.ParseInt(fs[1], 10, 64)
		p, ok := c11Program(fs[0], seed)
		if !ok {
			continue
		}
		seen[arg] = true
		imps := append([]string{"io", "sync"}, p.Imports...)
		uses := "\nvar _ = io.EOF\nvar _ sync.Mutex\n"
		for _, im := range p.Imports {
			switch im {
			case "sort":
				uses += "var _ = sort.Ints\n"
			case "strings":
				uses += "var _ = strings.Map\n"
			case "unicode":
				uses += "var _ = unicode.IsDigit\n"
			case "errors":
				uses += "var _ = errors.New\n"
			case "time":
				uses += "var _ = time.Now\n"
			}
		}
		// dedupe imports
		var uniq []string
		dup := map[string]bool{}
		for _, im := range imps {
			if !dup[im] {
				dup[im] = true
				uniq = append(uniq, im)
			}
		}
		snippets = append(snippets, Snippet{Imports: uniq, Decls: c11HelperDecls() + uses + p.Decls, Body: p.Body})
		keys = append(keys, arg)
	}
	if len(snippets) == 0 {
		return
	}
	outs, err := runGoBatch("C11", snippets)
	if err != nil {
		c11OracleErr = err.Error()
		return
	}
	for i, k := range keys {
		c11Oracle[k] = outs[i]
	}
}

func c11RunInterp(p c11Prog) (lines []string, errText string) {
	ir := newQuietInterp()
	ir.DeclFunc("hCallN", hCallN)
	ir.DeclFunc("hGoCall", hGoCall)
	ir.DeclFunc("hGoSeq", hGoSeq)
	ir.DeclFunc("hVariadic", hVariadic)
	ir.DeclFunc("hMulti", hMulti)
	ir.DeclFunc("hRecover", hRecover)
	ir.DeclFunc("hPanic", hPanic)
	ir.DeclFunc("hApply", hApply)
	ir.DeclFunc("hStringer", hStringer)
	ir.DeclFunc("hError", hError)
	ir.DeclFunc("hReadAll", hReadAll)
	ir.DeclFunc("hFold", hFold)
	ir.DeclFunc("hGoSafe", hGoSafe)
	ir.DeclFunc("hGoMany", hGoMany)
	var out []string
	ir.DeclFunc("emit", func(s string) { out = append(out, s) })
	pre := "import \"fmt\"\n"
	for _, im := range p.Imports {
		pre += fmt.Sprintf("import %q\n", im)
	}
	if _, e := evalSrc(ir, pre); e != "" {
		return out, "imports: " + e
	}
	if strings.TrimSpace(p.Decls) != "" {
		if _, e := evalSrc(ir, p.Decls); e != "" {
			return out, "decls: " + e
		}
	}
	if _, e := evalSrc(ir, "func run__() {\n"+p.Body+"\n}"); e != "" {
		return out, "body: " + e
	}
	_, e := evalSrc(ir, "run__()")
	return out, e
}

func c11Prog1(arg string) Result {
	fs := strings.Fields(arg)
	if len(fs) != 2 {
		return Result{Out: "bad-op", Tags: []string{"bad-op"}}
	}
	seed, _ := strconv.ParseInt(fs[1], 10, 64)
	p, ok := c11Program(fs[0], seed)
	if !ok {
		return Result{Out: "bad-op", Tags: []string{"bad-op"}}
	}
	kind := fs[0]
	res := Result{Out: "ran", Nontrivial: true, Tags: []string{"prog", "prog-" + kind}}
	if c11OracleErr != "" {
		res.Out = "oracle-error"
		res.Viol = "compiled-Go oracle could not be built: " + c11OracleErr
		res.Key = "c11-oracle-build"
		return res
	}
	want, ok := c11Oracle[arg]
	if !ok {
		res.Out = "no-oracle"
		return res
	}
	type outcome struct {
		lines []string
		err   string
	}
	done := make(chan outcome, 1)
	go func() {
		l, e := c11RunInterp(p)
		done <- outcome{l, e}
	}()
	var got outcome
	select {
	case got = <-done:
	case <-time.After(5 * time.Minute):
		res.Viol = "interpreted program did not finish within 5 minutes (compiled Go prints: " + truncate(oneLine(want), 300) + ")"
		res.Key = "c11-" + kind + "-timeout"
		res.Tags = append(res.Tags, "timeout")
		return res
	}
	lines := got.lines
	if got.err != "" {
		lines = append(lines, "PANIC: "+got.err)
		res.Tags = append(res.Tags, "interp-error")
	}
	wl := strings.Split(want, "\n")
	if want == "" {
		wl = nil
	}
	for i := 0; i < len(wl) || i < len(lines); i++ {
		a, b := "<missing>", "<missing>"
		if i < len(lines) {
			a = lines[i]
		}
		if i < len(wl) {
			b = wl[i]
		}
		if a != b {
			label := b
			if i >= len(wl) {
				label = a
			}
			if j := strings.IndexByte(label, '='); j > 0 {
				label = label[:j]
			} else if len(label) > 20 {
				label = label[:20]
			}
			label = strings.Map(func(c rune) rune {
				if c == ' ' || c == ':' {
					return '_'
				}
				return c
			}, label)
			res.Viol = fmt.Sprintf("line %d: interpreter prints %q, compiled Go prints %q", i, truncate(a, 400), truncate(b, 400))
			res.Key = "c11-" + kind + "-" + label
			break
		}
	}
	return res
}

func c11Exec(op string) Result {
	f, arg, _ := strings.Cut(op, " ")
	switch f {
	case "cb":
		return c11Cb(arg)
	case "cbk":
		kinds, rest, _ := strings.Cut(arg, " ")
		return c11CbK(strings.Split(kinds, ","), rest)
	case "prog":
		return c11Prog1(arg)
	}
	return Result{Out: "bad-op", Tags: []string{"bad-op"}}
}

// ---------------- cbk: typed parameters, boundary values, generic calling path ----------------

var c11KindList = []string{"bool", "int", "int8", "int16", "int32", "int64", "uint", "uint8", "uint16", "uint32", "uint64", "uintptr",
	"float32", "float64", "complex64", "complex128", "string", "rune", "byte"}

func c11KindType(k string) r.Type {
	switch k {
	case "bool":
		return r.TypeOf(false)
	case "int":
		return r.TypeOf(int(0))
	case "int8":
		return r.TypeOf(int8(0))
	case "int16":
		return r.TypeOf(int16(0))
	case "int32", "rune":
		return r.TypeOf(int32(0))
	case "int64":
		return r.TypeOf(int64(0))
	case "uint":
		return r.TypeOf(uint(0))
	case "uint8", "byte":
		return r.TypeOf(uint8(0))
	case "uint16":
		return r.TypeOf(uint16(0))
	case "uint32":
		return r.TypeOf(uint32(0))
	case "uint64":
		return r.TypeOf(uint64(0))
	case "uintptr":
		return r.TypeOf(uintptr(0))
	case "float32":
		return r.TypeOf(float32(0))
	case "float64":
		return r.TypeOf(float64(0))
	case "complex64":
		return r.TypeOf(complex64(0))
	case "complex128":
		return r.TypeOf(complex128(0))
	case "string":
		return r.TypeOf("")
	}
	return nil
}

// boundary values of a kind, rendered with fmt.Sprint (the token both sides print)
func c11Boundary(k string, rng *rand.Rand) string {
	t := c11KindType(k)
	v := r.New(t).Elem()
	switch t.Kind() {
	case r.Bool:
		v.SetBool(rng.Intn(2) == 0)
	case r.Int, r.Int8, r.Int16, r.Int32, r.Int64:
		bits := uint(t.Bits())
		cands := []int64{0, 1, -1, -1 << (bits - 1), 1<<(bits-1) - 1, 1 << 7, 1 << 8, 1<<15 - 1, 1 << 15, 1 << 16, 1<<16 + 1, -(1 << 16) - 5,
			1<<31 - 1, -1 << 31, 1 << 32, 0x1F600, 0x10000, 0x10FFFF, 'a', 0x4e16, rng.Int63() >> uint(rng.Intn(63))}
		x := cands[rng.Intn(len(cands))]
		v.SetInt(x) // truncated to the kind by reflect? no: SetInt stores the low bits
	case r.Uint, r.Uint8, r.Uint16, r.Uint32, r.Uint64, r.Uintptr:
		bits := uint(t.Bits())
		cands := []uint64{0, 1, 1<<bits - 1, 1 << (bits - 1), 255, 256, 1<<16 - 1, 1 << 16, 1<<16 + 1, 1<<32 - 1, 1 << 32, 1<<63 + 12345, rng.Uint64() >> uint(rng.Intn(64))}
		v.SetUint(cands[rng.Intn(len(cands))])
	case r.Float32, r.Float64:
		cands := []float64{0, 1.5, -2.25, 3.4028234663852886e+38, 1e-45, 16777217, 1e300, -1e-300, 65536.5, 4294967296.5, rng.NormFloat64() * 1e6}
		v.SetFloat(cands[rng.Intn(len(cands))])
	case r.Complex64, r.Complex128:
		cands := []complex128{0, complex(1.5, -2), complex(65537, 1e10), complex(-0.5, 3.4028234663852886e+38)}
		v.SetComplex(cands[rng.Intn(len(cands))])
	case r.String:
		cands := []string{"", "a", "hello world", "\U0001F600 emoji", "日本語", strings.Repeat("x", 70000%(1+rng.Intn(300))), "tab\there"}
		v.SetString(cands[rng.Intn(len(cands))])
	}
	return fmt.Sprint(v.Interface())
}

func c11ParseKind(k, tok string) (r.Value, bool) {
	t := c11KindType(k)
	if t == nil {
		return r.Value{}, false
	}
	v := r.New(t).Elem()
	switch t.Kind() {
	case r.Bool:
		b, err := strconv.ParseBool(tok)
		if err != nil {
			return v, false
		}
		v.SetBool(b)
	case r.Int, r.Int8, r.Int16, r.Int32, r.Int64:
		x, err := strconv.ParseInt(tok, 10, t.Bits())
		if err != nil {
			return v, false
		}
		v.SetInt(x)
	case r.Uint, r.Uint8, r.Uint16, r.Uint32, r.Uint64, r.Uintptr:
		x, err := strconv.ParseUint(tok, 10, t.Bits())
		if err != nil {
			return v, false
		}
		v.SetUint(x)
	case r.Float32, r.Float64:
		x, err := strconv.ParseFloat(tok, t.Bits())
		if err != nil {
			return v, false
		}
		v.SetFloat(x)
	case r.Complex64, r.Complex128:
		x, err := strconv.ParseComplex(tok, t.Bits())
		if err != nil {
			return v, false
		}
		v.SetComplex(x)
	case r.String:
		v.SetString(tok)
	}
	return v, true
}

// emitted by c11Gen (appended there through c11GenK)
func c11GenK(rng *rand.Rand, tier string, emit func(string)) {
	pats := []string{"uu", "uuu", "u_u", "_uu", "uu_", "uuuu", "u"}
	reps := 1
	if tier == "thorough" {
		reps = 12
	}
	line := func(kinds []string, p string) {
		var used []int
		for i, c := range p {
			if c != '_' {
				used = append(used, i)
			}
		}
		nres := 1 + rng.Intn(3)
		var sel, args []string
		for j := 0; j < nres; j++ {
			sel = append(sel, strconv.Itoa(used[rng.Intn(len(used))]))
		}
		for i := range p {
			tok := c11Boundary(kinds[i], rng)
			if len(p) == 1 && tok == "" {
				tok = "e" // a lone empty token is indistinguishable from "no arguments" in the line format
			}
			args = append(args, tok)
		}
		named := "n"
		if rng.Intn(2) == 0 {
			named = "r"
		}
		emit(fmt.Sprintf("cbk %s %s%s|%s|%s", strings.Join(kinds, ","), named, p, strings.Join(sel, ","), strings.Join(args, ";")))
	}
	for rep := 0; rep < reps; rep++ {
		// every kind, uniform parameters, every pattern
		for _, k := range c11KindList {
			for _, p := range pats {
				kinds := make([]string, len(p))
				for i := range kinds {
					kinds[i] = k
				}
				line(kinds, p)
				line(kinds, p)
			}
		}
		// mixed kinds
		for q := 0; q < 60; q++ {
			p := pats[rng.Intn(len(pats))]
			kinds := make([]string, len(p))
			for i := range kinds {
				kinds[i] = c11KindList[rng.Intn(len(c11KindList))]
			}
			line(kinds, p)
		}
	}
	emit("cbk int32,int ruu|0|1")
	emit("cbk int32,frob ruu|0|1;2")
	emit("cbk uint8,int8 ruu|0,1|256;-129")
}

func c11CbK(kinds []string, arg string) Result {
	bad := Result{Out: "bad-op", Tags: []string{"bad-op"}}
	parts := strings.Split(arg, "|")
	if len(parts) != 3 || len(parts[0]) == 0 || (parts[0][0] != 'n' && parts[0][0] != 'r') {
		return bad
	}
	named := parts[0][0] == 'n'
	pat := parts[0][1:]
	if len(kinds) != len(pat) || strings.Trim(pat, "u_") != "" {
		return bad
	}
	for _, k := range kinds {
		if c11KindType(k) == nil {
			return bad
		}
	}
	var sel []int
	if parts[1] != "" {
		for _, s := range strings.Split(parts[1], ",") {
			n, err := strconv.Atoi(s)
			if err != nil || n < 0 || n >= len(pat) || pat[n] == '_' {
				return bad
			}
			sel = append(sel, n)
		}
	}
	var argToks []string
	if parts[2] != "" || len(pat) == 1 {
		argToks = strings.Split(parts[2], ";")
	}
	if len(argToks) != len(pat) {
		return bad
	}
	args := make([]r.Value, len(pat))
	want := make([]string, len(pat))
	for i, tok := range argToks {
		v, ok := c11ParseKind(kinds[i], tok)
		if !ok {
			// malformed stream: the Lean side only shuffles tokens, it answers as for a well-formed line;
			// keep the two sides aligned by shuffling here too
			var exp []string
			for _, s := range sel {
				exp = append(exp, argToks[s])
			}
			return Result{Out: strings.Join(exp, ";"), Tags: []string{"cbk-unparsable-argument"}}
		}
		args[i] = v
		want[i] = fmt.Sprint(v.Interface())
	}
	var ps, rs, body, rets []string
	for i, c := range pat {
		if c == 'u' {
			ps = append(ps, fmt.Sprintf("a%d %s", i, kinds[i]))
		} else {
			ps = append(ps, "_ "+kinds[i])
		}
	}
	for j, s := range sel {
		if named {
			rs = append(rs, fmt.Sprintf("r%d %s", j, kinds[s]))
			body = append(body, fmt.Sprintf("r%d = a%d", j, s))
		} else {
			rs = append(rs, kinds[s])
			rets = append(rets, fmt.Sprintf("a%d", s))
		}
	}
	src := "(func(" + strings.Join(ps, ", ") + ") (" + strings.Join(rs, ", ") + ") { " + strings.Join(body, "; ")
	if named {
		src += "; return })"
	} else {
		src += " return " + strings.Join(rets, ", ") + " })"
	}
	vals, errText := evalSrc(c11CbInterp(), src)
	if errText != "" || len(vals) != 1 || vals[0].Kind() != r.Func {
		return Result{Out: "eval-error " + errText, Viol: "interpreted function literal does not evaluate: " + src + ": " + errText, Key: "c11-cbk-eval", Tags: []string{"eval-error"}}
	}
	var outs []r.Value
	var perr interface{}
	func() {
		defer func() { perr = recover() }()
		outs = vals[0].Call(args)
	}()
	if perr != nil {
		return Result{Out: "panic", Viol: fmt.Sprintf("calling %s from compiled code panics: %v", src, perr), Key: "c11-cbk-panic", Tags: []string{"panic"}}
	}
	var got, exp []string
	for _, o := range outs {
		got = append(got, fmt.Sprint(o.Interface()))
	}
	for _, s := range sel {
		exp = append(exp, want[s])
	}
	res := Result{Out: strings.Join(got, ";"), Nontrivial: true, Tags: []string{"cbk", fmt.Sprintf("cbk-params-%d", len(pat))}}
	seen := map[string]bool{}
	for _, k := range kinds {
		if !seen[k] {
			seen[k] = true
			res.Tags = append(res.Tags, "cbk-"+k)
		}
	}
	if len(seen) > 1 {
		res.Tags = append(res.Tags, "cbk-mixed-kinds")
	}
	if strings.Join(got, ";") != strings.Join(exp, ";") {
		bk := ""
		for j, s := range sel {
			if j < len(got) && got[j] != exp[j] {
				bk = kinds[s]
				break
			}
		}
		res.Viol = fmt.Sprintf("%s called with (%s) from compiled code returned (%s), Go returns (%s)", src, strings.Join(want, ", "), strings.Join(got, ", "), strings.Join(exp, ", "))
		res.Key = fmt.Sprintf("c11-cbk-%s-param-of-%d", bk, len(pat))
	}
	return res
}
