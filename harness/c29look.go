package main

// C29, field and method lookup: FieldByName / MethodByName of struct hierarchies with embedded fields
// (by value and by pointer, diamonds, sibling types with identical underlying structs, shadowing at
// different depths, self-referencing `type X struct{*X}`) against standard go/types
// LookupFieldOrMethod on the same declarations and against reflect.Type.FieldByName of the same
// declarations compiled by the Go toolchain.
//
//	look <decl;decl;...>      decl ::= Name=item,item,...[!M][!*N]
//	                          item ::= X | Y | v (a field of type int)  |  +T (embedded T)  |  *T (embedded *T)
//	                          !M = method M with value receiver, !*N = method N with pointer receiver
//
// Every declared type is looked up for every field and method name of the hierarchy, twice (the
// second call is answered from the per-type cache).

import (
	"fmt"
	"go/ast"
	"go/parser"
	"go/token"
	gotypes "go/types"
	"reflect"
	"strconv"
	"strings"

	xr "github.com/cosmos72/gomacro/xreflect"
)

type c29lookDecl struct {
	name    string
	items   []string
	methods []string // "M" or "*N"
}

func c29lookParse(spec string) []c29lookDecl {
	var out []c29lookDecl
	for _, d := range strings.Split(spec, ";") {
		eq := strings.IndexByte(d, '=')
		if eq < 0 {
			panic("bad look decl " + d)
		}
		ld := c29lookDecl{name: d[:eq]}
		rest := d[eq+1:]
		parts := strings.Split(rest, "!")
		if parts[0] != "" {
			ld.items = strings.Split(parts[0], ",")
		}
		ld.methods = parts[1:]
		out = append(out, ld)
	}
	return out
}

// c29lookSource renders the declarations as Go source; prefix makes the type names unique when
// several hierarchies share one compiled package.
func c29lookSource(decls []c29lookDecl, prefix string, withMethods bool) string {
	var sb strings.Builder
	for _, d := range decls {
		var fs []string
		for _, it := range d.items {
			switch it[0] {
			case '+':
				fs = append(fs, prefix+it[1:])
			case '*':
				fs = append(fs, "*"+prefix+it[1:])
			default:
				fs = append(fs, it+" int")
			}
		}
		fmt.Fprintf(&sb, "type %s%s struct{ %s }\n", prefix, d.name, strings.Join(fs, "; "))
		if withMethods {
			for _, m := range d.methods {
				if m[0] == '*' {
					fmt.Fprintf(&sb, "func (x *%s%s) %s() int { return 0 }\n", prefix, d.name, m[1:])
				} else {
					fmt.Fprintf(&sb, "func (x %s%s) %s() int { return 0 }\n", prefix, d.name, m)
				}
			}
		}
	}
	return sb.String()
}

func c29lookNames(decls []c29lookDecl) (fields, methods []string) {
	seenF, seenM := map[string]bool{}, map[string]bool{}
	for _, d := range decls {
		for _, it := range d.items {
			n := it
			if it[0] == '+' || it[0] == '*' {
				n = it[1:]
			}
			if !seenF[n] {
				seenF[n] = true
				fields = append(fields, n)
			}
		}
		for _, m := range d.methods {
			n := strings.TrimPrefix(m, "*")
			if !seenM[n] {
				seenM[n] = true
				methods = append(methods, n)
			}
		}
	}
	fields = append(fields, "Zz") // a name nobody declares
	return
}

// compiled-Go side: reflect.Type.FieldByName of every (type, field name); filled by c29prepare
var c29lookCompiled = map[string]map[string]string{} // op -> "Type.name" -> "ok|index"

func c29lookSnippet(ops []string) (Snippet, func(out string)) {
	var decls, body strings.Builder
	for i, op := range ops {
		spec := strings.TrimPrefix(op, "look ")
		ds := c29lookParse(spec)
		prefix := "L" + strconv.Itoa(i) + "_"
		decls.WriteString(c29lookSource(ds, prefix, true))
		fields, _ := c29lookNames(ds)
		for _, d := range ds {
			for _, n := range fields {
				rn := n
				for _, dd := range ds {
					if dd.name == n {
						rn = prefix + n // the field name of an embedded type is the (prefixed) type name
					}
				}
				fmt.Fprintf(&body, "\tc29lk(emit, %d, %q, %q, reflect.TypeOf(%s%s{}), %q)\n", i, d.name, n, prefix, d.name, rn)
			}
		}
	}
	helper := `
func c29lk(emit func(string), i int, tname, name string, t reflect.Type, rname string) {
	f, ok := t.FieldByName(rname)
	emit(fmt.Sprintf("%d %s.%s %v|%v", i, tname, name, ok, f.Index))
}
`
	sn := Snippet{Imports: []string{"reflect"}, Decls: decls.String() + helper, Body: body.String()}
	return sn, func(out string) {
		for _, l := range strings.Split(out, "\n") {
			f := strings.SplitN(l, " ", 3)
			if len(f) != 3 {
				continue
			}
			i, err := strconv.Atoi(f[0])
			if err != nil || i < 0 || i >= len(ops) {
				continue
			}
			m := c29lookCompiled[ops[i]]
			if m == nil {
				m = map[string]string{}
				c29lookCompiled[ops[i]] = m
			}
			m[f[1]] = f[2]
		}
	}
}

func c29look(spec string, add func(string, string, ...interface{}), res *Result) {
	decls := c29lookParse(spec)
	// ---- standard go/types: one package without methods (pure field lookup), one with
	check := func(withMethods bool) *gotypes.Package {
		fset := token.NewFileSet()
		file, err := parser.ParseFile(fset, "p.go", "package p\n"+c29lookSource(decls, "", withMethods), 0)
		if err != nil {
			panic(err)
		}
		pkg, err := (&gotypes.Config{}).Check("p", fset, []*ast.File{file}, nil)
		if err != nil {
			panic("look source rejected: " + err.Error())
		}
		return pkg
	}
	gpF, gpM := check(false), check(true)
	// ---- xreflect
	v := xr.NewUniverse()
	pkg := v.LoadPackage("p")
	tint := v.BasicTypes[reflect.Int]
	xt := map[string]xr.Type{}
	for _, d := range decls {
		xt[d.name] = v.NamedOf(d.name, "p")
	}
	for _, d := range decls {
		var fs []xr.StructField
		for _, it := range d.items {
			switch it[0] {
			case '+':
				fs = append(fs, xr.StructField{Type: xt[it[1:]]})
			case '*':
				fs = append(fs, xr.StructField{Type: v.PtrTo(xt[it[1:]])})
			default:
				f := xr.StructField{Name: it, Type: tint}
				if !ast.IsExported(it) {
					f.Pkg = pkg
				}
				fs = append(fs, f)
			}
		}
		xt[d.name].SetUnderlying(v.StructOf(fs))
	}
	for _, d := range decls {
		for _, m := range d.methods {
			recv := xt[d.name]
			name := m
			if m[0] == '*' {
				recv, name = v.PtrTo(recv), m[1:]
			}
			xt[d.name].AddMethod(name, v.MethodOf(recv, nil, []xr.Type{tint}, false))
		}
	}
	fields, methods := c29lookNames(decls)
	compiled := c29lookCompiled["look "+spec]
	qual := func(p *gotypes.Package) string { return p.Name() }
	idx := func(a []int) string { return fmt.Sprint(a) }
	for _, d := range decls {
		t := xt[d.name]
		gF := gpF.Scope().Lookup(d.name).Type()
		gM := gpM.Scope().Lookup(d.name).Type()
		for _, n := range fields {
			obj, index, _ := gotypes.LookupFieldOrMethod(gF, true, gpF, n)
			class := "none"
			if obj != nil {
				class = "one"
			} else if index != nil {
				class = "ambiguous"
			}
			for pass := 0; pass < 2; pass++ { // second call: from the cache
				f, count := t.FieldByName(n, "p")
				got := "none"
				if count == 1 {
					got = "one"
				} else if count > 1 {
					got = "ambiguous"
				}
				where := ""
				if pass == 1 {
					where = "-cached"
				}
				if got != class {
					add("fieldbyname-count"+where+":"+class+"-as-"+got, "%s.%s in {%s}: go/types says %s, FieldByName count=%d", d.name, n, spec, class, count)
					continue
				}
				if class == "one" {
					if idx(f.Index) != idx(index) {
						add("fieldbyname-index"+where, "%s.%s in {%s}: Index %v, go/types %v", d.name, n, spec, f.Index, index)
					}
					if want := gotypes.TypeString(obj.Type(), qual); f.Type.String() != want {
						add("fieldbyname-type"+where, "%s.%s in {%s}: type %v, go/types %s", d.name, n, spec, f.Type, want)
					}
				}
			}
			// compiled Go: reflect.Type.FieldByName says ok=false for "none" and for "ambiguous"
			if compiled != nil {
				if want, ok := compiled[d.name+"."+n]; ok {
					f, count := t.FieldByName(n, "p")
					got := fmt.Sprintf("%v|%v", count == 1, []int(nil))
					if count == 1 {
						got = fmt.Sprintf("%v|%v", true, f.Index)
					}
					if got != want {
						add("fieldbyname-vs-reflect", "%s.%s in {%s}: xreflect (found|index) %s, compiled reflect %s", d.name, n, spec, got, want)
					}
					res.Tags = append(res.Tags, "look-compiled")
				}
			}
			res.Tags = append(res.Tags, "look-field:"+class)
		}
		for _, n := range methods {
			obj, index, _ := gotypes.LookupFieldOrMethod(gM, true, gpM, n)
			class := "none"
			if _, isFunc := obj.(*gotypes.Func); isFunc {
				class = "one"
			} else if obj == nil && index != nil {
				class = "ambiguous"
			}
			for pass := 0; pass < 2; pass++ {
				m, count := t.MethodByName(n, "p")
				got := "none"
				if count == 1 {
					got = "one"
				} else if count > 1 {
					got = "ambiguous"
				}
				where := ""
				if pass == 1 {
					where = "-cached"
				}
				if got != class {
					add("methodbyname-count"+where+":"+class+"-as-"+got, "%s.%s in {%s}: go/types says %s, MethodByName count=%d", d.name, n, spec, class, count)
					continue
				}
				if class == "one" && idx(m.FieldIndex) != idx(index[:len(index)-1]) && !(len(m.FieldIndex) == 0 && len(index) == 1) {
					add("methodbyname-path"+where, "%s.%s in {%s}: FieldIndex %v, go/types %v", d.name, n, spec, m.FieldIndex, index)
				}
			}
			res.Tags = append(res.Tags, "look-method:"+class)
		}
	}
}

// c29lookGen: the bounded-exhaustive hierarchy universe.  Leaves A{X} B{X} (identical underlying
// structs) C{Y} D{X,Y} E{v}; level 1: a list of shapes over the leaves; level 2: T = struct{L; R}
// for every ordered pair of level-1 shapes (by value, and by pointer for the first), with and without
// an own field; level 3: U = struct{T; A} and W = struct{*T; Y}.
func c29lookGen(tier string, emit func(string)) {
	leaves := "A=X!M;B=X!M;C=Y!*N;D=X,Y;E=v"
	l1 := []string{"+A", "+B", "*A", "+A,Y", "+C", "+D", "+A,+B", "+A,+C", "+E,X", "*D,v", "+A,*C"}
	if tier == "quick" {
		l1 = l1[:8]
	}
	for i, a := range l1 {
		for j, b := range l1 {
			for variant := 0; variant < 2; variant++ {
				if tier == "quick" && variant == 1 && (i+j)%3 != 0 {
					continue
				}
				t := "+L,+R"
				if variant == 1 {
					t = "*L,+R,Y"
				}
				emit("look " + leaves + ";L=" + a + "!*K;R=" + b + ";T=" + t + ";U=+T,+A;W=*T,Y")
			}
		}
	}
	// self reference and mutual reference through embedded pointers
	emit("look A=X!M;S=*S,+A;P=*Q,X;Q=*P,Y")
	emit("look A=X;B=X;T=+A,+B;U=+T;V=+U,+A")
}
