package main

// C24: structural comparison of two go/ast trees (the fork's parser builds std go/ast nodes, so the two
// sides have the same Go types and can be walked in lock step with reflect).
//
// Compared: dynamic node types, every token.Pos, every string/bool/int/token field, slice lengths,
// nil-ness of every pointer/interface/slice (a nil slice and an empty slice are the same list), comment
// groups reachable from the nodes (Doc / Comment fields) down to the text and position of every comment.
// NOT compared here: *ast.Object and *ast.Scope values (identifier resolution; see c24objDiff for the
// separate, weaker check and notes/C24.md for the reason).

import (
	"fmt"
	"go/ast"
	"go/token"
	"reflect"
	"strings"
)

type c24diffT struct {
	key  string // stable slug: kind + type path without indexes
	desc string // human readable, with the indexed path and both values
}

var (
	c24typPos    = reflect.TypeOf(token.NoPos)
	c24typObj    = reflect.TypeOf((*ast.Object)(nil))
	c24typScope  = reflect.TypeOf((*ast.Scope)(nil))
	c24typCGroup = reflect.TypeOf((*ast.CommentGroup)(nil))
	c24typComment = reflect.TypeOf(ast.Comment{})
)

type c24cmp struct {
	diffs    []c24diffT
	max      int
	posOK    bool // compare positions exactly
	posValid bool // compare only whether a position is set (NoPos or not): it carries structure (grouping parentheses, alias '=', variadic '...')
	nodes    int  // number of struct nodes visited
	comments int  // number of comment groups compared
}

func (c *c24cmp) add(kind, tpath, ipath, desc string) {
	if len(c.diffs) < c.max {
		c.diffs = append(c.diffs, c24diffT{kind + ":" + tpath, ipath + ": " + desc})
	}
}

func c24short(t reflect.Type) string {
	s := t.String()
	s = strings.TrimPrefix(s, "*")
	s = strings.TrimPrefix(s, "ast.")
	return s
}

// walk compares a (reference) and b (fork).  tpath: path of struct type names and field names without
// indexes (the Key); ipath: the same with indexes (for the description).
func (c *c24cmp) walk(a, b reflect.Value, tpath, ipath string) {
	if len(c.diffs) >= c.max {
		return
	}
	if a.IsValid() != b.IsValid() {
		c.add("nil", tpath, ipath, fmt.Sprintf("want valid=%v got valid=%v", a.IsValid(), b.IsValid()))
		return
	}
	if !a.IsValid() {
		return
	}
	if a.Type() != b.Type() {
		c.add("type", tpath, ipath, fmt.Sprintf("want %v got %v", a.Type(), b.Type()))
		return
	}
	t := a.Type()
	switch {
	case t == c24typObj || t == c24typScope:
		return
	case t == c24typPos:
		if c.posOK && a.Int() != b.Int() {
			c.add("pos", tpath, ipath, fmt.Sprintf("want %d got %d", a.Int(), b.Int()))
		}
		if c.posValid && (a.Int() == 0) != (b.Int() == 0) {
			c.add("posvalid", tpath, ipath, fmt.Sprintf("want valid=%v got valid=%v", a.Int() != 0, b.Int() != 0))
		}
		return
	}
	switch a.Kind() {
	case reflect.Interface:
		if a.IsNil() != b.IsNil() {
			c.add("nil", tpath, ipath, fmt.Sprintf("want %s got %s", c24dyn(a), c24dyn(b)))
			return
		}
		if a.IsNil() {
			return
		}
		ea, eb := a.Elem(), b.Elem()
		if ea.Type() != eb.Type() {
			c.add("type", tpath, ipath, fmt.Sprintf("want %s got %s", c24dyn(a), c24dyn(b)))
			return
		}
		c.walk(ea, eb, tpath, ipath)
	case reflect.Ptr:
		if a.IsNil() != b.IsNil() {
			c.add("nil", tpath, ipath, fmt.Sprintf("want %s got %s", c24dyn(a), c24dyn(b)))
			return
		}
		if a.IsNil() {
			return
		}
		if t == c24typCGroup {
			c.comments++
		}
		c.walk(a.Elem(), b.Elem(), tpath, ipath)
	case reflect.Struct:
		c.nodes++
		name := c24short(t)
		if c.posValid && t == c24typComment {
			// shape mode: the printer re-indents comments; compare their text modulo white space
			x, y := strings.Join(strings.Fields(a.FieldByName("Text").String()), " "), strings.Join(strings.Fields(b.FieldByName("Text").String()), " ")
			if x != y {
				c.add("val", name+".Text", ipath+"/"+name+".Text", fmt.Sprintf("want %q got %q", c24trunc(x, 60), c24trunc(y, 60)))
			}
			return
		}
		// keep the Key short: only the innermost two struct names
		tp := c24tail(tpath, name)
		for i := 0; i < t.NumField(); i++ {
			f := t.Field(i)
			c.walk(a.Field(i), b.Field(i), tp+"."+f.Name, ipath+"/"+name+"."+f.Name)
		}
	case reflect.Slice:
		if a.Len() != b.Len() {
			c.add("len", tpath, ipath, fmt.Sprintf("want %d got %d", a.Len(), b.Len()))
			return
		}
		for i := 0; i < a.Len(); i++ {
			c.walk(a.Index(i), b.Index(i), tpath, fmt.Sprintf("%s[%d]", ipath, i))
		}
	case reflect.String:
		if a.String() != b.String() {
			c.add("val", tpath, ipath, fmt.Sprintf("want %q got %q", c24trunc(a.String(), 60), c24trunc(b.String(), 60)))
		}
	case reflect.Bool:
		if a.Bool() != b.Bool() {
			c.add("val", tpath, ipath, fmt.Sprintf("want %v got %v", a.Bool(), b.Bool()))
		}
	case reflect.Int, reflect.Int8, reflect.Int16, reflect.Int32, reflect.Int64:
		if a.Int() != b.Int() {
			c.add("val", tpath, ipath, fmt.Sprintf("want %s got %s", c24intStr(t, a.Int()), c24intStr(t, b.Int())))
		}
	case reflect.Uint, reflect.Uint8, reflect.Uint16, reflect.Uint32, reflect.Uint64:
		if a.Uint() != b.Uint() {
			c.add("val", tpath, ipath, fmt.Sprintf("want %d got %d", a.Uint(), b.Uint()))
		}
	case reflect.Map:
		// go/ast nodes below a declaration hold no maps (only ast.Package / ast.Scope do)
		if a.Len() != b.Len() {
			c.add("len", tpath, ipath, fmt.Sprintf("map want %d got %d", a.Len(), b.Len()))
		}
	default:
		c.add("kind", tpath, ipath, "unhandled kind "+a.Kind().String())
	}
}

func c24tail(tpath, name string) string {
	// the Key names only the innermost struct and field
	return name
}

func c24intStr(t reflect.Type, v int64) string {
	if t == reflect.TypeOf(token.ADD) {
		return token.Token(v).String()
	}
	return fmt.Sprint(v)
}

func c24dyn(v reflect.Value) string {
	if !v.IsValid() {
		return "<invalid>"
	}
	switch v.Kind() {
	case reflect.Interface, reflect.Ptr:
		if v.IsNil() {
			return "nil"
		}
		if v.Kind() == reflect.Interface {
			return v.Elem().Type().String()
		}
	}
	return v.Type().String()
}

func c24trunc(s string, n int) string {
	if len(s) > n {
		return s[:n] + "..."
	}
	return s
}

// c24nodeDiff compares two nodes; want is the reference (go/parser), got is the fork's.
func c24nodeDiff(want, got ast.Node, withPos bool, max int) (diffs []c24diffT, nodes, comments int) {
	c := &c24cmp{max: max, posOK: withPos}
	c.walk(reflect.ValueOf(&want).Elem(), reflect.ValueOf(&got).Elem(), "", "")
	return c.diffs, c.nodes, c.comments
}

// c24nodeDiffShape compares two nodes ignoring position VALUES (only set / not set is compared).
func c24nodeDiffShape(want, got ast.Node, max int) (diffs []c24diffT, nodes int) {
	c := &c24cmp{max: max, posValid: true}
	c.walk(reflect.ValueOf(&want).Elem(), reflect.ValueOf(&got).Elem(), "", "")
	return c.diffs, c.nodes
}

// c24nodeDiffNoPos compares two nodes ignoring positions altogether (trees built programmatically have none).
func c24nodeDiffNoPos(want, got ast.Node, max int) (diffs []c24diffT) {
	c := &c24cmp{max: max}
	c.walk(reflect.ValueOf(&want).Elem(), reflect.ValueOf(&got).Elem(), "", "")
	return c.diffs
}

// ---------------------------------------------------------------- identifier resolution (ast.Object)

// c24objDiff is the explicit treatment of the resolution fields.  The reference is go/parser WITH object
// resolution (resolver.go, a post-pass since go1.17); the fork resolves while parsing (go1.10 code) and its
// Parse() never runs parseFile's file-level phase, so identifiers not bound in a LOCAL scope keep the
// package-private sentinel `unresolved`, whereas go/parser resolves them against the file's package scope
// or leaves Obj nil.  What can be compared, and is: for every identifier that go/parser binds to an object
// declared in a LOCAL scope (function parameters/results, local var/const/type, labels), the fork must bind
// the identifier at the same position to an object of the same Kind and Name whose declaring node starts at
// the same position; and conversely an identifier the fork binds locally must be bound by go/parser to the
// same declaration.  Idents are paired by traversal order (the trees are already known to be equal).
func c24objDiff(want, got ast.Node, pkgLevel map[*ast.Object]bool) (key, desc string, nLocal int) {
	var wi, gi []*ast.Ident
	ast.Inspect(want, func(n ast.Node) bool {
		if id, ok := n.(*ast.Ident); ok {
			wi = append(wi, id)
		}
		return true
	})
	ast.Inspect(got, func(n ast.Node) bool {
		if id, ok := n.(*ast.Ident); ok {
			gi = append(gi, id)
		}
		return true
	})
	if len(wi) != len(gi) {
		return "obj:ident-count", fmt.Sprintf("want %d identifiers got %d", len(wi), len(gi)), 0
	}
	declPos := func(o *ast.Object) token.Pos {
		if o == nil {
			return token.NoPos
		}
		if n, ok := o.Decl.(ast.Node); ok && n != nil {
			return n.Pos()
		}
		return token.NoPos
	}
	for i, w := range wi {
		g := gi[i]
		wo, gobj := w.Obj, g.Obj
		wLocal := wo != nil && !pkgLevel[wo] && wo.Decl != nil
		// fork: sentinel has Kind Bad and empty name; a package-level object of the fork was declared in pkgScope
		gLocal := gobj != nil && gobj.Name != "" && gobj.Decl != nil && !c24forkPkgLevel(gobj)
		switch {
		case wLocal && gLocal:
			nLocal++
			if wo.Kind != gobj.Kind || wo.Name != gobj.Name || declPos(wo) != declPos(gobj) {
				return "obj:binding-differs:" + wo.Kind.String(), fmt.Sprintf("identifier %s at %d: go/parser binds it to %s %s declared at %d, fork to %s %s declared at %d",
					w.Name, w.Pos(), wo.Kind, wo.Name, declPos(wo), gobj.Kind, gobj.Name, declPos(gobj)), nLocal
			}
		case wLocal && !gLocal:
			return "obj:fork-unbound:" + wo.Kind.String(), fmt.Sprintf("identifier %s at %d: go/parser binds it to local %s declared at %d, fork does not (Obj=%v)",
				w.Name, w.Pos(), wo.Kind, declPos(wo), gobj != nil), nLocal
		case !wLocal && gLocal:
			return "obj:fork-binds-locally:" + gobj.Kind.String(), fmt.Sprintf("identifier %s at %d: fork binds it to local %s declared at %d, go/parser does not bind it locally",
				g.Name, g.Pos(), gobj.Kind, declPos(gobj)), nLocal
		}
	}
	return "", "", nLocal
}

// c24forkPkgLevel: objects the fork declared in its package scope are those whose Decl is a top-level spec
// or FuncDecl; the caller has no access to the scope, so it is decided by the declaring node's type and
// recorded by c24markForkTop before the comparison.
var c24forkTop = map[*ast.Object]bool{}

func c24forkPkgLevel(o *ast.Object) bool { return c24forkTop[o] }

// c24topObjects: the objects declared by top-level declarations (package level), found by the declarations'
// structure (the reference's file scope does not list `_`, the fork's package scope is not reachable).
func c24topObjects(nodes []ast.Node) map[*ast.Object]bool {
	m := map[*ast.Object]bool{}
	mark := func(id *ast.Ident) {
		if id != nil && id.Obj != nil {
			m[id.Obj] = true
		}
	}
	for _, n := range nodes {
		switch d := n.(type) {
		case *ast.GenDecl:
			for _, s := range d.Specs {
				switch s := s.(type) {
				case *ast.ValueSpec:
					for _, id := range s.Names {
						mark(id)
					}
				case *ast.TypeSpec:
					mark(s.Name)
				}
			}
		case *ast.FuncDecl:
			if d.Recv == nil {
				mark(d.Name)
			}
		}
	}
	return m
}
