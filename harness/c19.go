package main

// C19: debugging is transparent and step/next/finish/continue stop where documented.
//
// Op format (one line, blank separated, the last field may contain blanks):
//
//	run <kind> <script> <trace> <source>
//
//	kind    D = Interp.Debug(main) (starts single-stepping), E = Interp.Eval(main) (starts running)
//	script  the lines typed at the "debug>" prompt of the REAL fast/debug.Debugger, joined by ',',
//	        a blank inside a line written '_', "-" = no line at all (EOF at the first prompt)
//	trace   the complete single-step trace of the program: one event per executed statement,
//	        "<CallDepth>[b][y][e]" joined by ',' (b = breakpoint statement, y = synthetic statement
//	        without source position, e = end-of-code sentinel reached while single-stepping);
//	        recorded by Gen with a debugger that always answers `step`; "-" = empty
//	source  prelude lines and main expression, newline written as the two characters \n,
//	        prelude and main separated by the line "---"
//
// Exec: (1) runs the program without debugger (reference result and reference fingerprint t),
// (2) re-records the single-step trace and compares it with the op (and its result with the
// reference), (3) runs it under the real debug.Debugger fed with the script and records every
// At/Breakpoint callback.  Every statement of a generated program updates a global fingerprint
// `t = t*31 + K`, read by the callbacks, so each observed stop is matched to its unique index in
// the trace.  Out = the observed stops as trace indices (what the Lean model predicts from trace
// and script).  Oracle = the documented rule evaluated by linear scan on the trace.

import (
	"fmt"
	"go/ast"
	"go/parser"
	"go/token"
	"io"
	"math/rand"
	"os"
	"path/filepath"
	"regexp"
	"sort"
	"strconv"
	"strings"

	"github.com/cosmos72/gomacro/base"
	"github.com/cosmos72/gomacro/fast"
	"github.com/cosmos72/gomacro/fast/debug"
)

// ---------------------------------------------------------------- events

type c19Event struct {
	line, col, ip, depth int
	t                    uint64
	bp, syn, end         bool
}

func (e c19Event) sameStmt(o c19Event) bool {
	return e.line == o.line && e.col == o.col && e.ip == o.ip && e.t == o.t && e.end == o.end
}

func (e c19Event) String() string {
	s := strconv.Itoa(e.depth)
	if e.bp {
		s += "b"
	}
	if e.syn {
		s += "y"
	}
	if e.end {
		s += "e"
	}
	return s
}

func (e c19Event) where() string {
	return fmt.Sprintf("%d:%d/ip%d/d%d", e.line, e.col, e.ip, e.depth)
}

func c19mkEvent(ir *fast.Interp, env *fast.Env, tp *uint64) c19Event {
	ev := c19Event{ip: env.IP, depth: env.CallDepth}
	if tp != nil {
		ev.t = *tp
	}
	if env.IP >= len(env.DebugPos) {
		ev.end = true // the spinInterrupt appended by Code.Exec()
		return ev
	}
	p := env.DebugPos[env.IP]
	if p == token.NoPos {
		ev.syn = true
		return ev
	}
	pp := ir.Comp.Globals.Fileset.Position(p)
	ev.line, ev.col = pp.Line, pp.Column
	return ev
}

// ---------------------------------------------------------------- debuggers

const c19TraceCap = 700

// tracer: answers `step` at every callback and records the events.
type c19tracer struct {
	tp       *uint64
	events   []c19Event
	overflow bool
}

func (d *c19tracer) At(ir *fast.Interp, env *fast.Env) fast.DebugOp {
	ev := c19mkEvent(ir, env, d.tp)
	d.events = append(d.events, ev)
	if ev.end {
		// unrepaired tree: single-stepping never leaves the end-of-code sentinel.
		// Leave it the way spinInterrupt does when no debugger is active.
		env.Run.Signals.Sync = base.SigReturn
	}
	if len(d.events) > c19TraceCap {
		d.overflow = true
		return fast.DebugOpContinue
	}
	return fast.DebugOpStep
}

func (d *c19tracer) Breakpoint(ir *fast.Interp, env *fast.Env) fast.DebugOp {
	ev := c19mkEvent(ir, env, d.tp)
	if n := len(d.events); n > 0 && d.events[n-1].sameStmt(ev) && !d.overflow {
		d.events[n-1].bp = true
	} else {
		ev.bp = true
		d.events = append(d.events, ev)
	}
	if d.overflow {
		return fast.DebugOpContinue
	}
	return fast.DebugOpStep
}

// scripted prompt input of the real debugger
type c19script struct {
	lines []string
	i     int
}

func (s *c19script) Read(prompt string) ([]byte, error) {
	if s.i >= len(s.lines) {
		return nil, io.EOF
	}
	l := s.lines[s.i]
	s.i++
	return []byte(l + "\n"), nil
}

type c19Stop struct {
	ev           c19Event
	isBp         bool
	used0, used1 int // script lines consumed: before / after the prompt
	depthOut     int // DebugOp.Depth returned by the real debugger
	killed       bool
	promptPanic  bool
	idx          int // index in the trace (-1: not found)
}

// recorder: wraps the real fast/debug.Debugger
type c19rec struct {
	inner       *debug.Debugger
	tp          *uint64
	sc          *c19script
	stops       []c19Stop
	sawEnd      bool
	runaway     bool
	promptPanic string
}

func (d *c19rec) call(ir *fast.Interp, env *fast.Env, isBp bool) fast.DebugOp {
	ev := c19mkEvent(ir, env, d.tp)
	if ev.end && !isBp {
		d.sawEnd = true
		env.Run.Signals.Sync = base.SigReturn
		return fast.DebugOp{Depth: env.Run.DebugDepth}
	}
	if len(d.stops) > 20*c19TraceCap {
		d.runaway = true
		return fast.DebugOpContinue
	}
	st := c19Stop{ev: ev, isBp: isBp, used0: d.sc.i, idx: -1}
	var op fast.DebugOp
	done := false
	defer func() {
		if !done {
			// the real debugger panicked at its prompt (e.g. `kill EXPR` / `print EXPR` with a malformed EXPR)
			st.used1 = d.sc.i
			st.killed = true
			st.promptPanic = true
			d.stops = append(d.stops, st)
			e := recover()
			d.promptPanic = oneLine(fmt.Sprint(e))
			if os.Getenv("C19_LOG") != "" {
				fmt.Fprintf(os.Stderr, "C19PROMPTPANIC %v at %s\n", e, ev.where())
			}
			panic(e)
		}
	}()
	if isBp {
		op = d.inner.Breakpoint(ir, env)
	} else {
		op = d.inner.At(ir, env)
	}
	st.used1 = d.sc.i
	st.depthOut = op.Depth
	st.killed = op.Panic != nil
	d.stops = append(d.stops, st)
	done = true
	return op
}

func (d *c19rec) At(ir *fast.Interp, env *fast.Env) fast.DebugOp { return d.call(ir, env, false) }
func (d *c19rec) Breakpoint(ir *fast.Interp, env *fast.Env) fast.DebugOp {
	return d.call(ir, env, true)
}

type c19tpSetter interface{ setTp(p *uint64) }

func (d *c19tracer) setTp(p *uint64) { d.tp = p }
func (d *c19rec) setTp(p *uint64)    { d.tp = p }

// ---------------------------------------------------------------- running a program

var c19tops = map[bool]*fast.Interp{}
var c19uses = map[bool]int{}

func c19top(withDebugger bool) *fast.Interp {
	ir := c19tops[withDebugger]
	if ir == nil || c19uses[withDebugger] > 1500 {
		ir = newQuietInterp()
		g := &ir.Comp.Globals
		g.Options &^= base.OptShowPrompt | base.OptTrapPanic | base.OptShowEval | base.OptShowEvalType
		if withDebugger {
			g.Options |= base.OptDebugger
		}
		c19tops[withDebugger] = ir
		c19uses[withDebugger] = 0
	}
	c19uses[withDebugger]++
	return ir
}

type c19Outcome struct {
	res  string // values of main, or "panic: ..."
	t    uint64 // final fingerprint
	fail string // the prelude could not be evaluated
}

// c19run evaluates prelude (declares `var t uint64` and the functions) in a fresh inner interpreter,
// then main with Interp.Debug (kind 'D') or Interp.Eval (kind 'E').  dbg == nil: no debugger at all.
func c19run(prelude, main string, kind byte, dbg fast.Debugger, rl base.Readline) (out c19Outcome) {
	// (an inner interpreter per program would be cleaner, but closures nested two levels deep that use a
	// global panic with "index out of range" inside fast.NewInnerInterp -- unrelated to the debugger)
	ir := c19top(dbg != nil)
	g := &ir.Comp.Globals
	if dbg != nil {
		ir.SetDebugger(dbg)
		g.Readline = rl
	}
	if _, e := evalSrc(ir, prelude); e != "" {
		out.fail = "prelude: " + e
		return
	}
	var tp *uint64
	if vs, e := evalSrc(ir, "&t"); e != "" || len(vs) != 1 {
		out.fail = "no fingerprint variable: " + e
		return
	} else if p, ok := vs[0].Interface().(*uint64); ok {
		tp = p
	} else {
		out.fail = "fingerprint variable is not uint64"
		return
	}
	if s, ok := dbg.(c19tpSetter); ok {
		s.setTp(tp)
	}
	func() {
		defer func() {
			if e := recover(); e != nil {
				out.res = "panic: " + oneLine(fmt.Sprint(e))
			}
		}()
		if dbg != nil && kind == 'D' {
			vs, _ := ir.Debug(main)
			var sb []string
			for _, v := range vs {
				sb = append(sb, fmt.Sprint(v.ReflectValue().Interface()))
			}
			out.res = strings.Join(sb, " ")
		} else {
			vs, _ := ir.Eval(main)
			var sb []string
			for _, v := range vs {
				sb = append(sb, fmt.Sprint(v.ReflectValue().Interface()))
			}
			out.res = strings.Join(sb, " ")
		}
	}()
	out.t = *tp
	if dbg != nil {
		// leave the shared Run in the state Interp.RunExpr establishes
		ir.SetDebugger(nil)
	}
	return
}

// ---------------------------------------------------------------- the documented rule (oracle)

// the debugger's command language, as documented by `help`:
// "abbreviations are allowed if unambiguous. enter repeats last command."
var c19names = []string{"backtrace", "env", "?", "help", "inspect", "kill", "print", "list", "continue", "finish", "next", "step", "vars"}

func c19resolve(word string) string {
	if word == "" {
		return ""
	}
	var c []string
	for _, n := range c19names {
		if strings.HasPrefix(n, word) {
			c = append(c, n)
		}
	}
	if len(c) == 1 {
		return c[0]
	}
	return ""
}

// c19prompt: which resume command does one prompt end with, and how many script lines does it read?
// returns cmd in {step,next,finish,continue,kill}; EOF counts as continue.
func c19prompt(lines []string, i int, last string) (cmd string, ni int, nlast string) {
	for {
		if i >= len(lines) {
			return "continue", i, last
		}
		l := lines[i]
		i++
		if l == "" {
			l = last
		}
		l = strings.TrimSpace(l)
		word, _, _ := strings.Cut(l, " ")
		name := c19resolve(word)
		if name == "" {
			continue
		}
		last = l
		switch name {
		case "step", "next", "finish", "continue", "kill":
			return name, i, last
		}
	}
}

type c19DocStop struct {
	idx   int
	isBp  bool
	cmd   string // resume command given at this stop
	used1 int
}

// c19documented: the stops the documentation promises, by linear scan over the trace.
// step: the next executed statement at any depth; next: the next one at the same or a shallower
// depth; finish: the next one at a shallower depth; continue: none; an executed breakpoint
// statement always stops.
func c19documented(tr []c19Event, kind byte, lines []string) (stops []c19DocStop, killed bool) {
	cmd, d := "continue", 0
	if kind == 'D' {
		cmd = "step"
	}
	used, last := 0, ""
	for j, e := range tr {
		if !e.syn && !e.end {
			want := false
			switch cmd {
			case "step":
				want = true
			case "next":
				want = e.depth <= d
			case "finish":
				want = e.depth < d
			}
			if want {
				cmd, used, last = c19prompt(lines, used, last)
				d = e.depth
				stops = append(stops, c19DocStop{j, false, cmd, used})
				if cmd == "kill" {
					return stops, true
				}
			}
		}
		if e.bp {
			cmd, used, last = c19prompt(lines, used, last)
			d = e.depth
			stops = append(stops, c19DocStop{j, true, cmd, used})
			if cmd == "kill" {
				return stops, true
			}
		}
	}
	return stops, false
}

// ---------------------------------------------------------------- op encoding

func c19encTrace(tr []c19Event) string {
	if len(tr) == 0 {
		return "-"
	}
	s := make([]string, len(tr))
	for i, e := range tr {
		s[i] = e.String()
	}
	return strings.Join(s, ",")
}

func c19encScript(lines []string) string {
	if len(lines) == 0 {
		return "-"
	}
	s := make([]string, len(lines))
	for i, l := range lines {
		s[i] = strings.ReplaceAll(l, " ", "_")
	}
	return strings.Join(s, ",")
}

func c19decScript(s string) []string {
	if s == "-" {
		return nil
	}
	ls := strings.Split(s, ",")
	for i := range ls {
		ls[i] = strings.ReplaceAll(ls[i], "_", " ")
	}
	return ls
}

func c19splitSrc(src string) (prelude, main string) {
	src = strings.ReplaceAll(src, `\n`, "\n")
	i := strings.Index(src, "\n---\n")
	if i < 0 {
		return "var t uint64", src
	}
	return src[:i], src[i+5:]
}

var c19levelRe = regexp.MustCompile(`//L(\d+)(D?)\s*$`)

// static call depth of every prelude line (annotation written by the generator)
func c19levels(prelude string) map[int]int {
	m := map[int]int{}
	for i, l := range strings.Split(prelude, "\n") {
		if g := c19levelRe.FindStringSubmatch(l); g != nil {
			n, _ := strconv.Atoi(g[1])
			m[i+1] = n
		}
	}
	return m
}

// ---------------------------------------------------------------- Exec

type c19Ref struct {
	ref    c19Outcome
	trace  []c19Event
	tres   c19Outcome
	tracer *c19tracer
}

var c19refCache = map[string]*c19Ref{}
var c19keyCount = map[string]int{}

func c19reference(src string, prelude, main string) *c19Ref {
	if r := c19refCache[src]; r != nil {
		return r
	}
	if len(c19refCache) > 64 {
		c19refCache = map[string]*c19Ref{}
	}
	r := &c19Ref{}
	r.ref = c19run(prelude, main, 'E', nil, nil)
	r.tracer = &c19tracer{}
	r.tres = c19run(prelude, main, 'D', r.tracer, &c19script{})
	r.trace = r.tracer.events
	c19refCache[src] = r
	return r
}

func c19exec(op string) Result {
	f := strings.SplitN(op, " ", 5)
	if len(f) != 5 || f[0] != "run" || len(f[1]) != 1 || (f[1] != "D" && f[1] != "E") {
		return Result{Out: "bad-op", Tags: []string{"bad-op"}}
	}
	kind := f[1][0]
	lines := c19decScript(f[2])
	opTrace := f[3]
	prelude, main := c19splitSrc(f[4])

	r := Result{Tags: []string{"kind-" + f[1]}}
	viol := func(key, format string, a ...interface{}) {
		if r.Viol == "" {
			// the harness keeps the first 50 violations of a run only: report at most 5 per key, so that a
			// frequent (known) key cannot crowd out a different one; the rest is counted under the tag "more-<key>"
			c19keyCount[key]++
			if c19keyCount[key] > 5 {
				r.Tags = append(r.Tags, "more-"+key)
				return
			}
			r.Key, r.Viol = key, fmt.Sprintf(format, a...)
			if os.Getenv("C19_LOG") != "" {
				fmt.Fprintf(os.Stderr, "C19VIOL %s | %s | %s\n", key, r.Viol, op)
			}
		}
	}

	ref := c19reference(f[4], prelude, main)
	if ref.ref.fail != "" || ref.tres.fail != "" {
		r.Out = "invalid-program " + ref.ref.fail + ref.tres.fail
		r.Tags = append(r.Tags, "invalid-program")
		return r
	}
	tr := ref.trace
	if ref.tracer.overflow {
		r.Out = "trace-too-long"
		r.Tags = append(r.Tags, "trace-too-long")
		return r
	}
	// (a) transparency of the complete single-step run
	if ref.tres.res != ref.ref.res || ref.tres.t != ref.ref.t {
		viol("single-step-changes-result", "single-stepping every statement gives %q (fingerprint %d), without debugger %q (fingerprint %d)",
			ref.tres.res, ref.tres.t, ref.ref.res, ref.ref.t)
	}
	// (b) reported call depth = static call depth
	lv := c19levels(prelude)
	nprel := strings.Count(prelude, "\n") + 1
	panicked := strings.HasPrefix(ref.ref.res, "panic") || strings.Contains(prelude, "recover()") || strings.Contains(prelude, "panic(")
	hasEnd := false
	for _, e := range tr {
		if e.end {
			hasEnd = true
			continue
		}
		if e.syn {
			continue
		}
		want, ok := lv[e.line]
		if e.line > nprel {
			want, ok = 0, true // main source, padded with blank lines by the generator
		}
		if ok && (e.depth != want && !panicked || e.depth < want) {
			viol("call-depth-wrong", "statement at line %d col %d: debugger sees call depth %d, static call depth %d", e.line, e.col, e.depth, want)
		}
	}
	if enc := c19encTrace(tr); enc != opTrace {
		r.Out = "trace-differs " + enc
		r.Tags = append(r.Tags, "trace-differs")
		viol("trace-not-reproducible", "single-step trace differs from the one recorded in the op")
		return r
	}
	if hasEnd {
		// unrepaired tree: `step` at the last statement of a code block stops at the end-of-code sentinel
		// for ever (and `next`/`finish` spin there without any callback): no scripted run is attempted.
		r.Out = "end-of-code-in-trace"
		r.Tags = append(r.Tags, "end-of-code-in-trace")
		viol("step-never-leaves-end-of-code", "single-stepping reaches the end-of-code sentinel (IP=len(Code)-1) and stays there: "+
			"a function body without final return / a top-level statement never returns under step/next/finish")
		return r
	}

	// (c) the scripted run under the real debugger
	sc := &c19script{lines: lines}
	rec := &c19rec{inner: &debug.Debugger{}, sc: sc}
	got := c19run(prelude, main, kind, rec, sc)
	if got.fail != "" {
		r.Out = "invalid-program " + got.fail
		return r
	}
	// match the observed stops with the trace
	lastA, lastB := -1, -1
	var stops []c19Stop
	for _, s := range rec.stops {
		if s.ev.syn {
			// real debugger: Show() refuses statements without position and returns the unchanged depth
			if s.used1 != s.used0 {
				viol("synthetic-statement-prompted", "the debugger prompted at a synthetic statement (%s)", s.ev.where())
			}
			continue
		}
		from := lastA + 1
		if s.isBp {
			from = lastA // the At stop of the same statement, if any
			if from < lastB+1 {
				from = lastB + 1
			}
		} else if from < lastB+1 {
			from = lastB + 1
		}
		if from < 0 {
			from = 0
		}
		for j := from; j < len(tr); j++ {
			if tr[j].sameStmt(s.ev) && (!s.isBp || tr[j].bp) && !tr[j].syn {
				s.idx = j
				break
			}
		}
		if s.idx >= 0 && tr[s.idx].depth != s.ev.depth && !panicked {
			viol("call-depth-differs", "statement %s: call depth %d in the scripted run, %d in the complete single-step run", s.ev.where(), s.ev.depth, tr[s.idx].depth)
		}
		if s.idx >= 0 {
			if s.isBp {
				lastB = s.idx
			} else {
				lastA = s.idx
			}
		}
		stops = append(stops, s)
		if s.killed {
			// `kill` panics out of applyDebugOp with single-stepping still on: deferred functions that run
			// while the panic unwinds may stop again.  Outside the property; the comparison ends here.
			break
		}
	}
	doc, dockilled := c19documented(tr, kind, lines)

	// blind region (known limitation of the code, see notes/C19.md): frames that were running at full
	// speed when a breakpoint (re)activated single-stepping are not single-stepped.
	blind := -1
	{
		on := kind == 'D'
		for si, s := range stops {
			if s.idx < 0 {
				break
			}
			newOn := s.depthOut > 0 && !s.killed
			if !on && newOn && s.isBp {
				// a breakpoint hit at full speed switches single-stepping on: the callers are not single-stepped
				floor := s.ev.depth
				b := -1
				for j := s.idx + 1; j < len(tr); j++ {
					if tr[j].depth < floor {
						b = j
						break
					}
				}
				if b >= 0 {
					off := false // ... unless single-stepping is switched off again before
					for _, s2 := range stops[si+1:] {
						if s2.idx < 0 || s2.idx >= b {
							break
						}
						if s2.depthOut <= 0 || s2.killed {
							off = true
							break
						}
					}
					if !off {
						blind = b
						break
					}
				}
			}
			on = newOn
		}
	}

	// Out: observed stops as trace indices
	var sb []string
	used := 0
	killed := false
	for _, s := range stops {
		if blind >= 0 && (s.idx >= blind || s.idx < 0) {
			break
		}
		k := "A"
		if s.isBp {
			k = "B"
		}
		if s.idx < 0 {
			sb = append(sb, k+"?"+s.ev.where())
		} else {
			sb = append(sb, k+strconv.Itoa(s.idx))
		}
		used = s.used1
		killed = killed || s.killed
	}
	switch {
	case blind >= 0:
		sb = append(sb, "blind@"+strconv.Itoa(blind))
	case killed:
		sb = append(sb, "used="+strconv.Itoa(used), "killed")
	default:
		sb = append(sb, "used="+strconv.Itoa(sc.i), "end")
	}
	r.Out = strings.Join(sb, " ")

	// oracle 1: transparency
	for _, s := range stops {
		killed = killed || s.killed // also a kill beyond the blind point
	}
	if !killed && !dockilled {
		if got.res != ref.ref.res || got.t != ref.ref.t {
			if blind >= 0 {
				// beyond the region the model covers: a frame that was running at full speed
				viol("result-differs-after-breakpoint-in-fast-frame", "under the debugger main gives %q (fingerprint %d), without %q (fingerprint %d)", got.res, got.t, ref.ref.res, ref.ref.t)
			} else {
				viol("debugger-changes-result", "under the debugger main gives %q (fingerprint %d), without %q (fingerprint %d)", got.res, got.t, ref.ref.res, ref.ref.t)
				r.Out += " RESULT-DIFFERS"
			}
		}
	}
	if rec.runaway {
		viol("runaway-stops", "more than %d debugger callbacks", 20*c19TraceCap)
	}
	// oracle 2: observed stops = documented stops
	n := len(stops)
	if len(doc) > n {
		n = len(doc)
	}
	for i := 0; i < n; i++ {
		var why string
		switch {
		case i >= len(stops):
			why = fmt.Sprintf("documented stop #%d at trace index %d (%s) did not happen", i, doc[i].idx, tr[doc[i].idx].where())
		case i >= len(doc):
			why = fmt.Sprintf("undocumented stop #%d at %s", i, stops[i].ev.where())
		case stops[i].idx != doc[i].idx || stops[i].isBp != doc[i].isBp:
			kindOf := func(b bool) string {
				if b {
					return "Breakpoint"
				}
				return "At"
			}
			why = fmt.Sprintf("stop #%d is %s at trace index %d (%s), documented: %s at index %d (%s)", i, kindOf(stops[i].isBp), stops[i].idx, stops[i].ev.where(), kindOf(doc[i].isBp), doc[i].idx, tr[doc[i].idx].where())
		case stops[i].used1 != doc[i].used1:
			why = fmt.Sprintf("stop #%d consumed script lines up to %d, documented command language: %d", i, stops[i].used1, doc[i].used1)
			viol("command-language", "%s", why)
			why = ""
		}
		if why != "" {
			prev := "start"
			if i > 0 && i-1 < len(doc) {
				prev = doc[i-1].cmd
			}
			key := "stops-differ-after-" + prev
			if blind >= 0 && (i >= len(stops) || stops[i].idx < 0 || stops[i].idx >= blind || (i < len(doc) && doc[i].idx >= blind)) {
				key = "fast-frame-not-stepped-after-breakpoint"
			}
			viol(key, "%s", why)
			break
		}
		// the depth the real command table computed
		if i < len(doc) && i < len(stops) {
			want := map[string]int{"step": fast.MaxInt, "next": stops[i].ev.depth + 1, "finish": stops[i].ev.depth, "continue": 0, "kill": 0}[doc[i].cmd]
			if stops[i].depthOut != want || stops[i].killed != (doc[i].cmd == "kill") {
				viol("command-depth-"+doc[i].cmd, "command %s at call depth %d returned DebugOp depth %d, want %d", doc[i].cmd, stops[i].ev.depth, stops[i].depthOut, want)
			}
		}
	}
	if rec.sawEnd {
		viol("stop-at-end-of-code", "the debugger was invoked at the end-of-code sentinel")
	}

	// distribution
	cmds := map[string]bool{}
	for _, d := range doc {
		cmds[d.cmd] = true
		r.Tags = append(r.Tags, "cmd-"+d.cmd)
		if d.isBp {
			r.Tags = append(r.Tags, "stop-breakpoint")
		} else {
			r.Tags = append(r.Tags, "stop-at")
		}
	}
	if blind >= 0 {
		r.Tags = append(r.Tags, "blind")
	}
	if strings.HasPrefix(ref.ref.res, "panic") {
		r.Tags = append(r.Tags, "program-panics")
	}
	if strings.Contains(prelude, "defer") {
		r.Tags = append(r.Tags, "has-defer")
	}
	if strings.Contains(prelude, "recover()") {
		r.Tags = append(r.Tags, "has-recover")
	}
	maxd := 0
	for _, e := range tr {
		if e.depth > maxd {
			maxd = e.depth
		}
	}
	r.Tags = append(r.Tags, "maxdepth-"+strconv.Itoa(maxd))
	r.Nontrivial = len(doc) >= 2 && len(cmds) >= 2
	return r
}

// ---------------------------------------------------------------- program generator

type c19pg struct {
	r        *rand.Rand
	lines    []string
	k        int
	maxLevel int
	funcs    map[int][]c19fn
	allRet   bool // every void function ends with an explicit return
	panics   bool
	nbp      int
}

type c19fn struct {
	name string
	void bool
}

type c19ctx struct {
	level  int
	ret    string // return statement of the enclosing function
	budget int
	loops  int
	deferd bool
}

func (g *c19pg) emit(level int, deferd bool, s string) {
	d := ""
	if deferd {
		d = "D"
	}
	g.lines = append(g.lines, fmt.Sprintf("%s //L%d%s", s, level, d))
}

func (g *c19pg) upd(c c19ctx) {
	g.k++
	g.emit(c.level, c.deferd, fmt.Sprintf("t = t*31 + %d", g.k))
}

func (g *c19pg) callee(level int) (c19fn, bool) {
	fs := g.funcs[level+1]
	if len(fs) == 0 {
		return c19fn{}, false
	}
	return fs[g.r.Intn(len(fs))], true
}

func (g *c19pg) body(c c19ctx) {
	n := 1 + g.r.Intn(3)
	if c.budget <= 0 {
		n = 1
	}
	for i := 0; i < n; i++ {
		g.stmt(c)
	}
}

func (g *c19pg) stmt(c c19ctx) {
	r := g.r
	e := func(s string) { g.emit(c.level, c.deferd, s) }
	sub := c
	sub.budget--
	k := r.Intn(100)
	if c.budget <= 0 && k >= 20 && k < 62 {
		k = 0
	}
	switch {
	case k < 20:
		g.upd(c)
	case k < 40: // call
		fn, ok := g.callee(c.level)
		if !ok {
			g.upd(c)
			return
		}
		if fn.void {
			e(fmt.Sprintf("%s(x %% 5)", fn.name))
		} else {
			e(fmt.Sprintf("x += %s(x %% 4)", fn.name))
		}
	case k < 48: // if/else
		e(fmt.Sprintf("if (x+%d)%%2 == 0 {", r.Intn(2)))
		g.body(sub)
		if r.Intn(2) == 0 {
			e("} else {")
			g.body(sub)
		}
		e("}")
	case k < 56: // for
		if c.loops >= 2 {
			g.upd(c)
			return
		}
		sub.loops++
		g.k++
		e(fmt.Sprintf("for i%d := 0; i%d < %d; i%d++ {", g.k, g.k, r.Intn(4), g.k))
		g.upd(sub)
		if r.Intn(5) == 0 {
			e(fmt.Sprintf("if i%d == 1 {", g.k))
			e([]string{"break", "continue"}[r.Intn(2)])
			e("}")
		}
		g.body(sub)
		e("}")
	case k < 60: // block
		e("{")
		g.body(sub)
		e("}")
	case k < 62: // switch
		e("switch x % 3 {")
		e("case 0:")
		g.upd(sub)
		e("case 1:")
		g.body(sub)
		e("default:")
		g.upd(sub)
		e("}")
	case k < 72: // closure, called once or twice
		g.k++
		name := fmt.Sprintf("c%d", g.k)
		e(name + " :=")
		in := c19ctx{level: c.level + 1, ret: "return x", budget: c.budget - 1, deferd: c.deferd}
		g.emit(in.level, in.deferd, "func(k int) int {")
		g.emit(in.level, in.deferd, "x := k + 1")
		g.upd(in)
		g.body(in)
		g.emit(in.level, in.deferd, "return x")
		g.emit(in.level, in.deferd, "}")
		e(fmt.Sprintf("x = %s(x %% 3)", name))
		if r.Intn(3) == 0 {
			e(fmt.Sprintf("x += %s(1)", name))
		}
	case k < 80: // deferred closure (maybe recovering)
		if c.loops > 0 {
			g.upd(c)
			return
		}
		// (written `d := func() {...}; defer d()`: for `defer func() {...}()` the compiler records the position of
		// the last statement compiled inside the closure as position of the defer statement itself)
		g.k++
		name := fmt.Sprintf("d%d", g.k)
		e(name + " :=")
		in := c19ctx{level: c.level + 1, ret: "return", budget: c.budget - 1, deferd: true}
		g.emit(in.level, true, "func() {")
		if g.panics && r.Intn(2) == 0 {
			g.emit(in.level, true, "if e := recover(); e != nil {")
			g.upd(in)
			g.emit(in.level, true, "}")
		}
		g.emit(in.level, true, "x := 1")
		g.upd(in)
		g.body(in)
		g.emit(in.level, true, "}")
		e("defer " + name + "()")
	case k < 84: // deferred call
		fn, ok := g.callee(c.level)
		if !ok || c.loops > 0 {
			g.upd(c)
			return
		}
		e(fmt.Sprintf("defer %s(x %% 3)", fn.name))
	case k < 92: // breakpoint
		g.nbp++
		e([]string{`"break"`, `_ = "break"`}[r.Intn(2)])
	case k < 96: // early return
		e(fmt.Sprintf("if x%%4 == %d {", r.Intn(4)))
		g.upd(sub)
		e(c.ret)
		e("}")
	default: // panic
		if !g.panics {
			g.upd(c)
			return
		}
		g.k++
		e(fmt.Sprintf("if x%%3 == %d {", r.Intn(3)))
		e(fmt.Sprintf(`panic("p%d")`, g.k))
		e("}")
	}
}

// recovering emits a function with a named result that panics (often) and recovers in a deferred closure;
// the closure executes 0-3 statements (fingerprint updates, breakpoints, calls) BEFORE its recover() call, so
// that a script can stop inside the deferred function before the recover, and modifies the result after it.
func (g *c19pg) recovering(fn c19fn, c c19ctx) {
	r := g.r
	level := c.level
	g.emit(level, false, fmt.Sprintf("func %s(a int) (r int) {", fn.name))
	g.k++
	g.emit(level, false, fmt.Sprintf("x := a + %d", g.k%5))
	g.upd(c)
	g.k++
	name := fmt.Sprintf("d%d", g.k)
	g.emit(level, false, name+" :=")
	in := c19ctx{level: level + 1, ret: "return", budget: 1, deferd: true}
	g.emit(in.level, true, "func() {")
	for n := r.Intn(4); n > 0; n-- {
		switch k := r.Intn(10); {
		case k < 5:
			g.upd(in)
		case k < 8:
			g.nbp++
			g.emit(in.level, true, []string{`"break"`, `_ = "break"`}[r.Intn(2)])
		default:
			if fn2, ok := g.callee(in.level); ok && !fn2.void {
				g.emit(in.level, true, fmt.Sprintf("r += %s(r %% 4)", fn2.name))
			} else {
				g.upd(in)
			}
		}
	}
	g.emit(in.level, true, "if e := recover(); e != nil {")
	g.upd(in)
	g.emit(in.level, true, "r = r - x - 1")
	if r.Intn(3) == 0 {
		g.nbp++
		g.emit(in.level, true, `"break"`)
	}
	g.emit(in.level, true, "}")
	if r.Intn(2) == 0 {
		g.emit(in.level, true, "r += 1000")
	}
	if r.Intn(3) == 0 {
		g.emit(in.level, true, "x := 1")
		g.body(in)
	}
	g.upd(in)
	g.emit(in.level, true, "return")
	g.emit(in.level, true, "}")
	g.emit(level, false, "defer "+name+"()")
	if r.Intn(2) == 0 {
		g.body(c)
	}
	if r.Intn(10) < 8 {
		g.k++
		g.emit(level, false, fmt.Sprintf("if x%%2 == %d {", r.Intn(2)))
		g.upd(c)
		g.emit(level, false, fmt.Sprintf(`panic("p%d")`, g.k))
		g.emit(level, false, "}")
	}
	if r.Intn(2) == 0 {
		g.stmt(c)
	}
	g.emit(level, false, "r = x")
	g.emit(level, false, "return r")
	g.emit(level, false, "}")
}

// c19program returns (prelude, main)
func c19program(r *rand.Rand) (string, string) {
	g := &c19pg{r: r, funcs: map[int][]c19fn{}}
	g.maxLevel = 1 + r.Intn(3)
	g.allRet = r.Intn(2) == 0
	g.panics = r.Intn(3) == 0
	g.lines = append(g.lines, "var t uint64")
	for level := g.maxLevel; level >= 1; level-- {
		nf := 1 + r.Intn(2)
		for i := 0; i < nf; i++ {
			fn := c19fn{name: fmt.Sprintf("f%d_%d", level, i), void: r.Intn(3) == 0 && !(level == 1 && i == 0)}
			c := c19ctx{level: level, ret: "return x", budget: 3}
			if g.panics && !fn.void && r.Intn(2) == 0 {
				g.recovering(fn, c)
				g.funcs[level] = append(g.funcs[level], fn)
				continue
			}
			if fn.void {
				c.ret = "return"
				g.emit(level, false, fmt.Sprintf("func %s(a int) {", fn.name))
			} else {
				g.emit(level, false, fmt.Sprintf("func %s(a int) int {", fn.name))
			}
			g.k++
			g.emit(level, false, fmt.Sprintf("x := a + %d", g.k%5))
			g.upd(c)
			g.body(c)
			if r.Intn(3) == 0 {
				g.stmt(c)
			}
			if !fn.void {
				g.emit(level, false, "return x")
			} else if g.allRet || r.Intn(2) == 0 {
				g.emit(level, false, "return")
			}
			g.emit(level, false, "}")
			g.funcs[level] = append(g.funcs[level], fn)
		}
	}
	prelude := strings.Join(g.lines, "\n")
	pad := strings.Repeat("\n", len(g.lines))
	var main string
	switch k := r.Intn(10); {
	case k < 6 || g.allRet || g.panics:
		main = fmt.Sprintf("f1_0(%d)", r.Intn(6))
	case k < 8:
		main = pad + fmt.Sprintf(`a := f1_0(%d); t = t*31 + 1000; "break"; b := f1_0(a %% 3); a + b`, r.Intn(6))
	default:
		main = pad + fmt.Sprintf(`a := f1_0(%d); for i := 0; i < 2; i++ { t = t*31 + 1001; a += f1_0(i) }; a`, r.Intn(6))
	}
	return prelude, main
}

var c19words = []string{"s", "st", "step", "n", "ne", "next", "f", "fi", "finish", "c", "cont", "continue"}
var c19noise = []string{"", "x", "stepp", "nextt", "sx", "S", "Next", "h", "?", "l", "list", "v", "b", "backtrace", "p", "print 1+1", "e", "inspect", "i", "n 3", " s ", "  fin  ", "k x y", "step into", "ss", "ct"}

func c19randScript(r *rand.Rand, ntrace int, mayPanic bool) []string {
	n := r.Intn(12)
	if r.Intn(3) == 0 {
		n = r.Intn(2*ntrace + 2)
	}
	if n > 120 {
		n = 120
	}
	// weights of step/next/finish/continue for this script
	w := [4]int{1 + r.Intn(8), 1 + r.Intn(8), r.Intn(4), r.Intn(3)}
	if mayPanic {
		// While a panic unwinds frames that run at full speed, the call depth seen by deferred functions
		// differs from the one in single-stepped frames (run.CurrEnv is only restored by reExecWithFlags):
		// the trace is the reference only as long as every frame is single-stepped.
		w[3] = 0
	}
	tot := w[0] + w[1] + w[2] + w[3]
	var ls []string
	for i := 0; i < n; i++ {
		if r.Intn(8) == 0 {
			ls = append(ls, c19noise[r.Intn(len(c19noise))])
			continue
		}
		if r.Intn(150) == 0 && !mayPanic {
			ls = append(ls, []string{"kill", "k"}[r.Intn(2)])
			continue
		}
		x := r.Intn(tot)
		c := 0
		for x >= w[c] {
			x -= w[c]
			c++
		}
		ls = append(ls, c19words[3*c+r.Intn(3)])
	}
	return ls
}

func c19mkop(kind string, script []string, tr []c19Event, prelude, main string) string {
	src := strings.ReplaceAll(prelude+"\n---\n"+main, "\n", `\n`)
	return fmt.Sprintf("run %s %s %s %s", kind, c19encScript(script), c19encTrace(tr), src)
}

// small fixed programs for the bounded-exhaustive part
var c19fixed = []string{
	"var t uint64\nfunc g(a int) int { //L2\nt = t*31 + 1 //L2\n\"break\" //L2\nt = t*31 + 2 //L2\nreturn a + 1 //L2\n} //L2\nfunc f(a int) int { //L1\nx := g(a) //L1\nfor i := 0; i < 2; i++ { //L1\nt = t*31 + 3 //L1\nx += g(i) //L1\n} //L1\nt = t*31 + 4 //L1\nreturn x //L1\n} //L1\n---\nf(1)",
	"var t uint64\nfunc h(a int) int { //L3\nt = t*31 + 1 //L3\nreturn a //L3\n} //L3\nfunc g(a int) int { //L2\ndefer //L2\nfunc() { //L3D\nt = t*31 + 2 //L3D\n_ = \"break\" //L3D\nt = t*31 + 5 //L3D\n}() //L3D\nx := h(a) + h(a+1) //L2\nt = t*31 + 3 //L2\nreturn x //L2\n} //L2\nfunc f(a int) int { //L1\nx := g(a) //L1\nt = t*31 + 4 //L1\nx += g(x) //L1\nreturn x //L1\n} //L1\n---\nf(2)",
}

func init() {
	// early return in the caller of the function that contains the breakpoint (every body ends with an explicit return)
	c19fixed = append(c19fixed, "var t uint64\nfunc g(a int) int { //L2\nt = t*31 + 1 //L2\n\"break\" //L2\nreturn a //L2\n} //L2\nfunc f(a int) int { //L1\nx := g(a) //L1\nif x == 1 { //L1\nt = t*31 + 2 //L1\nreturn x //L1\n} //L1\nt = t*31 + 3 //L1\nreturn x + 10 //L1\n} //L1\n---\nf(1)")
}

func init() {
	// panic recovered in a deferred closure that stops (breakpoint) before its recover() and modifies the named result
	c19fixed = append(c19fixed, "var t uint64\nfunc safe(a int) (r int) { //L2\nd1 := //L2\nfunc() { //L3D\nt = t*31 + 1 //L3D\n\"break\" //L3D\nif e := recover(); e != nil { //L3D\nt = t*31 + 2 //L3D\nr = -a //L3D\n} //L3D\nr += 1000 //L3D\nreturn //L3D\n} //L3D\ndefer d1() //L2\nt = t*31 + 3 //L2\nif a%2 == 1 { //L2\npanic(\"odd\") //L2\n} //L2\nr = a * 2 //L2\nreturn r //L2\n} //L2\nfunc top(a int) int { //L1\nx := safe(a) //L1\nt = t*31 + 4 //L1\ny := safe(a + 1) //L1\nreturn x*100 + y //L1\n} //L1\n---\ntop(2)")
}

func c19traceOf(prelude, main string) ([]c19Event, bool) {
	tc := &c19tracer{}
	out := c19run(prelude, main, 'D', tc, &c19script{})
	if out.fail != "" || tc.overflow {
		return nil, false
	}
	return tc.events, true
}

func c19gen(r *rand.Rand, tier string, emit func(string)) {
	// (1) bounded-exhaustive: every command sequence over {s,n,f,c} up to length L on fixed programs
	L := 4
	if tier == "thorough" {
		L = 6
	}
	for _, src := range c19fixed {
		prelude, main := c19splitSrc(strings.ReplaceAll(src, "\n", `\n`))
		tr, ok := c19traceOf(prelude, main)
		if !ok {
			emit(c19mkop("D", nil, nil, prelude, main))
			continue
		}
		// programs that panic: Interp.Debug and no `continue`, so that every frame is single-stepped (see c19randScript)
		mayPanic := strings.Contains(prelude, "panic(")
		alphabet := []string{"s", "n", "f", "c"}
		if mayPanic {
			alphabet = []string{"s", "n", "f"}
		}
		var rec func(seq []string)
		rec = func(seq []string) {
			emit(c19mkop("D", seq, tr, prelude, main))
			if !mayPanic {
				emit(c19mkop("E", seq, tr, prelude, main))
			}
			if len(seq) == L {
				return
			}
			for _, c := range alphabet {
				rec(append(append([]string{}, seq...), c))
			}
		}
		rec(nil)
	}
	// (2) random programs x random scripts
	nprog, nscript := 120, 10
	if tier == "thorough" {
		nprog, nscript = 2500, 16
	}
	for p := 0; p < nprog; p++ {
		prelude, main := c19program(r)
		tr, ok := c19traceOf(prelude, main)
		if !ok {
			continue
		}
		// all-step and EOF scripts first
		all := make([]string, len(tr)+3)
		for i := range all {
			all[i] = "s"
		}
		emit(c19mkop("D", all, tr, prelude, main))
		emit(c19mkop("E", nil, tr, prelude, main))
		for s := 0; s < nscript; s++ {
			mayPanic := strings.Contains(prelude, "panic(")
			kind := "D"
			if r.Intn(3) == 0 && !mayPanic {
				kind = "E"
			}
			emit(c19mkop(kind, c19randScript(r, len(tr), mayPanic), tr, prelude, main))
		}
	}
	// (3) malformed stream: command-language noise only
	prelude0, main0 := c19splitSrc(strings.ReplaceAll(c19fixed[0], "\n", `\n`))
	tr0, ok0 := c19traceOf(prelude0, main0)
	for i := 0; i < 60 && ok0; i++ {
		prelude, main, tr := prelude0, main0, tr0
		var ls []string
		for j := r.Intn(10); j >= 0; j-- {
			ls = append(ls, c19noise[r.Intn(len(c19noise))])
			if r.Intn(3) == 0 {
				ls = append(ls, c19words[r.Intn(len(c19words))])
			}
		}
		emit(c19mkop("D", ls, tr, prelude, main))
	}
}

// ---------------------------------------------------------------- extractor: Gen/DebugCmds.lean

func c19extract(repo, genDir string) error {
	fset := token.NewFileSet()
	parse := func(rel string) (*ast.File, error) {
		return parser.ParseFile(fset, filepath.Join(repo, rel), nil, 0)
	}
	var sb strings.Builder
	sb.WriteString("/-! REGENERATED by harness extractor C19 from fast/debug/cmd.go, fast/debug.go, fast/global.go. Do not edit. -/\n")
	sb.WriteString("namespace Gen.DebugCmds\n\n")
	sb.WriteString("/-- what a debugger command function returns -/\ninductive Ret where\n  | repl                       -- DebugOpRepl: stay at the prompt\n  | depthConst (n : Nat)       -- DebugOp{n, nil}\n  | depthMaxInt                -- DebugOp{MaxInt, nil}\n  | depthCallPlus (k : Nat)    -- DebugOp{d.env.CallDepth + k, nil}\n  | kill                       -- DebugOp{0, &panick}\n  | unknown\n  deriving Repr, DecidableEq, Inhabited\n\n")

	// --- fast/debug/cmd.go: the table and the command functions
	f, err := parse("fast/debug/cmd.go")
	if err != nil {
		return err
	}
	rets := map[string]string{} // method name -> Ret
	var classify func(e ast.Expr) string
	classify = func(e ast.Expr) string {
		switch x := e.(type) {
		case *ast.Ident:
			switch x.Name {
			case "DebugOpRepl":
				return ".repl"
			case "DebugOpContinue":
				return "CONTINUE"
			case "DebugOpStep":
				return "STEP"
			}
		case *ast.CompositeLit:
			if len(x.Elts) == 2 {
				second := x.Elts[1]
				if id, ok := second.(*ast.Ident); ok && id.Name == "nil" {
					switch d := x.Elts[0].(type) {
					case *ast.BasicLit:
						return ".depthConst " + d.Value
					case *ast.SelectorExpr:
						if exprString(d) == "d.env.CallDepth" {
							return ".depthCallPlus 0"
						}
					case *ast.BinaryExpr:
						if d.Op == token.ADD && exprString(d.X) == "d.env.CallDepth" {
							if lit, ok := d.Y.(*ast.BasicLit); ok {
								return ".depthCallPlus " + lit.Value
							}
						}
					}
				} else if u, ok := second.(*ast.UnaryExpr); ok && u.Op == token.AND {
					if lit, ok := x.Elts[0].(*ast.BasicLit); ok && lit.Value == "0" {
						return ".kill"
					}
				}
			}
		}
		return ".unknown"
	}
	type entry struct {
		key  int
		name string
		fn   string
	}
	var table []entry
	for _, d := range f.Decls {
		switch d := d.(type) {
		case *ast.FuncDecl:
			if d.Recv == nil || d.Body == nil || !strings.HasPrefix(d.Name.Name, "cmd") {
				continue
			}
			// all return statements must agree
			kinds := map[string]bool{}
			ast.Inspect(d.Body, func(n ast.Node) bool {
				if _, ok := n.(*ast.FuncLit); ok {
					return false
				}
				if r, ok := n.(*ast.ReturnStmt); ok && len(r.Results) == 1 {
					kinds[classify(r.Results[0])] = true
				}
				return true
			})
			k := ".unknown"
			if len(kinds) == 1 {
				for x := range kinds {
					k = x
				}
			}
			rets[d.Name.Name] = k
		case *ast.GenDecl:
			for _, s := range d.Specs {
				vs, ok := s.(*ast.ValueSpec)
				if !ok || len(vs.Names) != 1 || vs.Names[0].Name != "cmds" || len(vs.Values) != 1 {
					continue
				}
				cl, ok := vs.Values[0].(*ast.CompositeLit)
				if !ok {
					return fmt.Errorf("cmds is not a composite literal")
				}
				for _, el := range cl.Elts {
					kv, ok := el.(*ast.KeyValueExpr)
					if !ok {
						return fmt.Errorf("cmds: unexpected element")
					}
					kl, ok := kv.Key.(*ast.BasicLit)
					if !ok || kl.Kind != token.CHAR {
						return fmt.Errorf("cmds: key is not a char literal")
					}
					ch, _, _, err := strconv.UnquoteChar(kl.Value[1:len(kl.Value)-1], '\'')
					if err != nil {
						return err
					}
					vl, ok := kv.Value.(*ast.CompositeLit)
					if !ok || len(vl.Elts) != 2 {
						return fmt.Errorf("cmds: unexpected value")
					}
					nl, ok := vl.Elts[0].(*ast.BasicLit)
					if !ok {
						return fmt.Errorf("cmds: name is not a literal")
					}
					name, _ := strconv.Unquote(nl.Value)
					fn := exprString(vl.Elts[1]) // (*Debugger).cmdX
					fn = fn[strings.LastIndex(fn, ".")+1:]
					table = append(table, entry{int(ch), name, fn})
				}
			}
		}
	}
	if len(table) == 0 {
		return fmt.Errorf("debugger command table not found")
	}
	// --- fast/global.go: DebugOpContinue / DebugOpStep
	gf, err := parse("fast/global.go")
	if err != nil {
		return err
	}
	consts := map[string]string{}
	ast.Inspect(gf, func(n ast.Node) bool {
		vs, ok := n.(*ast.ValueSpec)
		if !ok || len(vs.Names) != 1 || len(vs.Values) != 1 {
			return true
		}
		if nm := vs.Names[0].Name; nm == "DebugOpContinue" || nm == "DebugOpStep" {
			if cl, ok := vs.Values[0].(*ast.CompositeLit); ok && len(cl.Elts) == 2 && exprString(cl.Elts[1]) == "nil" {
				switch d := cl.Elts[0].(type) {
				case *ast.BasicLit:
					consts[nm] = ".depthConst " + d.Value
				case *ast.Ident:
					if d.Name == "MaxInt" {
						consts[nm] = ".depthMaxInt"
					}
				}
			}
		}
		return true
	})
	resolve := func(k string) string {
		switch k {
		case "CONTINUE":
			if c, ok := consts["DebugOpContinue"]; ok {
				return c
			}
			return ".unknown"
		case "STEP":
			if c, ok := consts["DebugOpStep"]; ok {
				return c
			}
			return ".unknown"
		}
		return k
	}
	sb.WriteString("/-- `var cmds = Cmds{...}` of fast/debug/cmd.go in source order: (map key byte, command name as bytes, result of its function) -/\n")
	sb.WriteString("def table : List (Nat × List Nat × Ret) := [\n")
	for i, e := range table {
		var bs []string
		for _, b := range []byte(e.name) {
			bs = append(bs, strconv.Itoa(int(b)))
		}
		sep := ","
		if i == len(table)-1 {
			sep = ""
		}
		fmt.Fprintf(&sb, "  (%d, [%s], %s)%s  -- %q %s\n", e.key, strings.Join(bs, ", "), resolve(rets[e.fn]), sep, e.name, e.fn)
	}
	sb.WriteString("]\n\n")

	// --- fast/debug.go: the stop condition of singleStep and the on/off condition of applyDebugOp
	df, err := parse("fast/debug.go")
	if err != nil {
		return err
	}
	stopCond, onCond, setDepth := "", "", ""
	endGuard := false
	for _, d := range df.Decls {
		fd, ok := d.(*ast.FuncDecl)
		if !ok || fd.Body == nil {
			continue
		}
		switch fd.Name.Name {
		case "singleStep":
			ast.Inspect(fd.Body, func(n ast.Node) bool {
				if is, ok := n.(*ast.IfStmt); ok {
					if be, ok := is.Cond.(*ast.BinaryExpr); ok {
						l, r := exprString(be.X), exprString(be.Y)
						if l == "env.CallDepth" && r == "run.DebugDepth" {
							stopCond = be.Op.String()
						}
						if l == "env.IP" && be.Op == token.EQL && r == "len(env.Code)-1" {
							endGuard = true
						}
					}
				}
				return true
			})
		case "applyDebugOp":
			ast.Inspect(fd.Body, func(n ast.Node) bool {
				switch x := n.(type) {
				case *ast.IfStmt:
					if be, ok := x.Cond.(*ast.BinaryExpr); ok && exprString(be.X) == "op.Depth" {
						onCond = be.Op.String() + " " + exprString(be.Y)
					}
				case *ast.AssignStmt:
					if len(x.Lhs) == 1 && exprString(x.Lhs[0]) == "run.DebugDepth" {
						setDepth = exprString(x.Rhs[0])
					}
				}
				return true
			})
		}
	}
	fmt.Fprintf(&sb, "/-- singleStep: `if env.CallDepth %s run.DebugDepth` invokes the debugger -/\ndef stopCond : String := %q\n\n", stopCond, stopCond)
	fmt.Fprintf(&sb, "/-- applyDebugOp: `if op.Depth %s` switches single-stepping on, else off with depth 0 -/\ndef onCond : String := %q\n\n", onCond, onCond)
	fmt.Fprintf(&sb, "/-- applyDebugOp: `run.DebugDepth = %s` -/\ndef setDepth : String := %q\n\n", setDepth, setDepth)
	fmt.Fprintf(&sb, "/-- singleStep returns at the end-of-code sentinel (repair C19-step-end-of-code applied) -/\ndef endGuard : Bool := %v\n\n", endGuard)
	sb.WriteString("end Gen.DebugCmds\n")
	return os.WriteFile(filepath.Join(genDir, "DebugCmds.lean"), []byte(sb.String()), 0o644)
}

func exprString(e ast.Expr) string {
	switch x := e.(type) {
	case *ast.Ident:
		return x.Name
	case *ast.BasicLit:
		return x.Value
	case *ast.SelectorExpr:
		return exprString(x.X) + "." + x.Sel.Name
	case *ast.BinaryExpr:
		return exprString(x.X) + x.Op.String() + exprString(x.Y)
	case *ast.CallExpr:
		var a []string
		for _, y := range x.Args {
			a = append(a, exprString(y))
		}
		return exprString(x.Fun) + "(" + strings.Join(a, ",") + ")"
	case *ast.ParenExpr:
		return "(" + exprString(x.X) + ")"
	case *ast.StarExpr:
		return "*" + exprString(x.X)
	case *ast.UnaryExpr:
		return x.Op.String() + exprString(x.X)
	}
	return fmt.Sprintf("<%T>", e)
}

func init() {
	_ = sort.Strings
	register(&Prop{
		ID: "C19",
		Rule: "bounded-exhaustive: 4 fixed programs (nested calls, loop, breakpoint, deferred closure, early return, panic recovered in a deferred closure with a breakpoint before recover(): {s,n,f} under Interp.Debug only) x every command sequence over {s,n,f,c} of length<=4 (quick) / <=6 (thorough) x {Interp.Debug, Interp.Eval}; " +
			"random: programs with 1-3 call levels, closures, loops, if/switch, deferred closures/calls, panic/recover, breakpoint statements, early returns x random scripts of (abbreviated) step/next/finish/continue, noise lines, empty lines, kill, EOF; " +
			"every statement updates a fingerprint so each observed stop is matched to its unique position in the complete single-step trace. Non-trivial: >=2 documented stops and >=2 distinct resume commands.",
		Gen:        c19gen,
		Exec:       c19exec,
		Exhaustive: func(tier string) bool { return false },
	})
	extractors["C19"] = c19extract
}
