package main

// C31 extractor: /repo/imports/*.go, imports/thirdparty/*.go, imports/syscall/*.go and every
// x_package.go  ->  lean/Gen/ImportTables<i>.lean (i = 0..c31NChunks-1) + lean/Gen/ImportTables.lean.
//
// For every table entry the key string and the SYNTAX of the bound expression are recorded
// (see lean/Model/Imports.lean); anything not recognised becomes `.opaque`, which no checker accepts.
// Strings are emitted as natural numbers (bytes as base-256 digits after a leading 1).
// The same parsed tables (c31ParseRepo) are used by the Go side of the correspondence only for
// choosing ops; the values compared at run time come from imports.Packages, not from here.

import (
	"bytes"
	"fmt"
	"go/ast"
	"go/build"
	"go/parser"
	"go/printer"
	"go/token"
	"math/big"
	"os"
	"path/filepath"
	"sort"
	"strconv"
	"strings"
)

const c31NChunks = 14

func init() { extractors["C31"] = c31Extract }

type c31XBind struct {
	Path, Key string
	Form      string // lean term
}
type c31XUntyped struct{ Path, Key, Val string }
type c31XWrapper struct {
	Path, Key string
	Methods   []string
}
type c31Param struct {
	Name, Ty string
	Variadic bool
}
type c31Field struct {
	Name            string
	IsFunc          bool
	Ty              string
	Params, Results []c31Param
}
type c31Method struct {
	RecvName, RecvType, Name string
	Params, Results          []c31Param
	Body                     string // lean term
}
type c31XProxy struct {
	Name    string
	Fields  []c31Field
	Methods []*c31Method
}
type c31File struct {
	Rel            string // path relative to the repo
	Active         bool   // compiled on this platform (build constraints, go/build default context)
	Inception      bool
	OwnPath        string
	ReflectAliases []string
	Aliases        [][2]string
	Pkgs           [][2]string
	Binds          []c31XBind
	Types          []c31XBind
	Proxies        []c31XBind
	Untypeds       []c31XUntyped
	Wrappers       []c31XWrapper
	Decls          []*c31XProxy
	Other          int // statements in init() that are not table assignments
}

func (f *c31File) size() int {
	n := len(f.Binds) + len(f.Types) + len(f.Proxies) + len(f.Untypeds) + len(f.Wrappers) + 4
	for _, d := range f.Decls {
		n += 3 * (1 + len(d.Methods))
	}
	return n
}

// c31LeanStr encodes a byte string as the natural number 1::bytes in base 256
func c31LeanStr(s string) string {
	if s == "" {
		return "1"
	}
	n := new(big.Int).SetBytes(append([]byte{1}, s...))
	return "0x" + n.Text(16)
}

const c31Module = "github.com/cosmos72/gomacro"

func c31SourceFiles(repo string) ([]string, error) {
	var files []string
	for _, pat := range []string{"imports/*.go", "imports/thirdparty/*.go", "imports/syscall/*.go"} {
		m, _ := filepath.Glob(filepath.Join(repo, pat))
		files = append(files, m...)
	}
	// x_package.go files (gomacro's own packages, output of an older generator: proxies without the
	// Object parameter, hand-edited keys) are outside the anchored tables; the run-time oracle still
	// visits them through imports.Packages.
	var err error
	sort.Strings(files)
	// dedupe
	out := files[:0]
	for i, f := range files {
		if i == 0 || f != files[i-1] {
			out = append(out, f)
		}
	}
	return out, err
}

func c31ParseRepo(repo string) ([]*c31File, error) {
	files, err := c31SourceFiles(repo)
	if err != nil {
		return nil, err
	}
	var res []*c31File
	fset := token.NewFileSet()
	for _, fn := range files {
		af, err := parser.ParseFile(fset, fn, nil, parser.SkipObjectResolution)
		if err != nil {
			return nil, err
		}
		rel, _ := filepath.Rel(repo, fn)
		f := c31ParseFile(fset, af, rel)
		if ok, err := build.Default.MatchFile(filepath.Dir(fn), filepath.Base(fn)); err == nil {
			f.Active = ok
		}
		if len(f.Pkgs) == 0 && len(f.Decls) == 0 {
			continue // util.go, a_package.go of syscall/thirdparty: no tables
		}
		res = append(res, f)
	}
	return res, nil
}

func c31ExprString(fset *token.FileSet, e ast.Expr) string {
	var b bytes.Buffer
	printer.Fprint(&b, fset, e)
	return strings.Join(strings.Fields(b.String()), " ")
}

func c31ParseFile(fset *token.FileSet, af *ast.File, rel string) *c31File {
	f := &c31File{Rel: rel}
	base := filepath.Base(rel)
	f.Inception = base == "x_package.go" || base == "a_package.go"
	dir := filepath.ToSlash(filepath.Dir(rel))
	if dir == "." {
		f.OwnPath = c31Module
	} else {
		f.OwnPath = c31Module + "/" + dir
	}
	for _, im := range af.Imports {
		p, _ := strconv.Unquote(im.Path.Value)
		alias := p[strings.LastIndexByte(p, '/')+1:]
		if im.Name != nil {
			alias = im.Name.Name
		}
		if p == "reflect" {
			f.ReflectAliases = append(f.ReflectAliases, alias)
		}
		if alias == "." || alias == "_" {
			alias = "?" + alias // never matches an identifier
		}
		f.Aliases = append(f.Aliases, [2]string{alias, p})
	}
	isReflect := func(e ast.Expr, name string) bool {
		switch e := e.(type) {
		case *ast.Ident:
			if e.Name != name {
				return false
			}
			for _, a := range f.ReflectAliases {
				if a == "." {
					return true
				}
			}
		case *ast.SelectorExpr:
			x, ok := e.X.(*ast.Ident)
			if !ok || e.Sel.Name != name {
				return false
			}
			for _, a := range f.ReflectAliases {
				if a == x.Name {
					return true
				}
			}
		}
		return false
	}
	// symbol reference: pkg.Sym or Sym
	sym := func(e ast.Expr) (pkg, s string, ok bool) {
		switch e := e.(type) {
		case *ast.Ident:
			return "", e.Name, true
		case *ast.SelectorExpr:
			if x, isid := e.X.(*ast.Ident); isid {
				return x.Name, e.Sel.Name, true
			}
		}
		return "", "", false
	}
	valForm := func(e ast.Expr) string {
		call, ok := e.(*ast.CallExpr)
		if !ok {
			return ".opaq"
		}
		// ValueOf(&X).Elem()
		if sel, ok := call.Fun.(*ast.SelectorExpr); ok && sel.Sel.Name == "Elem" && len(call.Args) == 0 {
			inner, ok := sel.X.(*ast.CallExpr)
			if !ok || !isReflect(inner.Fun, "ValueOf") || len(inner.Args) != 1 || inner.Ellipsis.IsValid() {
				return ".opaq"
			}
			u, ok := inner.Args[0].(*ast.UnaryExpr)
			if !ok || u.Op != token.AND {
				return ".opaq"
			}
			p, s, ok := sym(u.X)
			if !ok {
				return ".opaq"
			}
			if p == "" {
				return fmt.Sprintf(".localAddr %s", c31LeanStr(s))
			}
			return fmt.Sprintf(".addr %s %s", c31LeanStr(p), c31LeanStr(s))
		}
		if !isReflect(call.Fun, "ValueOf") || len(call.Args) != 1 || call.Ellipsis.IsValid() {
			return ".opaq"
		}
		arg := call.Args[0]
		if p, s, ok := sym(arg); ok {
			if p == "" {
				return fmt.Sprintf(".localPlain %s", c31LeanStr(s))
			}
			return fmt.Sprintf(".plain %s %s", c31LeanStr(p), c31LeanStr(s))
		}
		if conv, ok := arg.(*ast.CallExpr); ok && len(conv.Args) == 1 && !conv.Ellipsis.IsValid() {
			if t, ok := conv.Fun.(*ast.Ident); ok {
				if p, s, ok := sym(conv.Args[0]); ok {
					if p == "" {
						return fmt.Sprintf(".localConv %s %s", c31LeanStr(t.Name), c31LeanStr(s))
					}
					return fmt.Sprintf(".conv %s %s %s", c31LeanStr(t.Name), c31LeanStr(p), c31LeanStr(s))
				}
			}
		}
		return ".opaq"
	}
	typeForm := func(e ast.Expr) string {
		// TypeOf((*X)(nil)).Elem()
		call, ok := e.(*ast.CallExpr)
		if !ok || len(call.Args) != 0 {
			return ".opaq"
		}
		sel, ok := call.Fun.(*ast.SelectorExpr)
		if !ok || sel.Sel.Name != "Elem" {
			return ".opaq"
		}
		inner, ok := sel.X.(*ast.CallExpr)
		if !ok || !isReflect(inner.Fun, "TypeOf") || len(inner.Args) != 1 {
			return ".opaq"
		}
		conv, ok := inner.Args[0].(*ast.CallExpr)
		if !ok || len(conv.Args) != 1 {
			return ".opaq"
		}
		if id, ok := conv.Args[0].(*ast.Ident); !ok || id.Name != "nil" {
			return ".opaq"
		}
		par, ok := conv.Fun.(*ast.ParenExpr)
		if !ok {
			return ".opaq"
		}
		star, ok := par.X.(*ast.StarExpr)
		if !ok {
			return ".opaq"
		}
		p, s, ok := sym(star.X)
		if !ok {
			return ".opaq"
		}
		if p == "" {
			return fmt.Sprintf(".localNamed %s", c31LeanStr(s))
		}
		return fmt.Sprintf(".named %s %s", c31LeanStr(p), c31LeanStr(s))
	}
	strLit := func(e ast.Expr) (string, bool) {
		if bl, ok := e.(*ast.BasicLit); ok && bl.Kind == token.STRING {
			s, err := strconv.Unquote(bl.Value)
			return s, err == nil
		}
		return "", false
	}
	parseTable := func(path string, lit *ast.CompositeLit) {
		name := ""
		for _, el := range lit.Elts {
			kv, ok := el.(*ast.KeyValueExpr)
			if !ok {
				f.Other++
				continue
			}
			k, _ := kv.Key.(*ast.Ident)
			if k == nil {
				f.Other++
				continue
			}
			if k.Name == "Name" {
				if s, ok := strLit(kv.Value); ok {
					name = s
				} else {
					f.Other++
				}
				continue
			}
			m, ok := kv.Value.(*ast.CompositeLit)
			if !ok {
				f.Other++
				continue
			}
			for _, e := range m.Elts {
				ekv, ok := e.(*ast.KeyValueExpr)
				if !ok {
					f.Other++
					continue
				}
				key, ok := strLit(ekv.Key)
				if !ok {
					f.Other++
					continue
				}
				switch k.Name {
				case "Binds":
					f.Binds = append(f.Binds, c31XBind{path, key, valForm(ekv.Value)})
				case "Types":
					f.Types = append(f.Types, c31XBind{path, key, typeForm(ekv.Value)})
				case "Proxies":
					f.Proxies = append(f.Proxies, c31XBind{path, key, typeForm(ekv.Value)})
				case "Untypeds":
					v, ok := strLit(ekv.Value)
					if !ok {
						v = "?"
					}
					f.Untypeds = append(f.Untypeds, c31XUntyped{path, key, v})
				case "Wrappers":
					w := c31XWrapper{Path: path, Key: key}
					if sl, ok := ekv.Value.(*ast.CompositeLit); ok {
						for _, x := range sl.Elts {
							if s, ok := strLit(x); ok {
								w.Methods = append(w.Methods, s)
							} else {
								w.Methods = append(w.Methods, "?")
							}
						}
					}
					f.Wrappers = append(f.Wrappers, w)
				default:
					f.Other++
				}
			}
		}
		f.Pkgs = append(f.Pkgs, [2]string{path, name})
	}
	params := func(fl *ast.FieldList) []c31Param {
		var ps []c31Param
		if fl == nil {
			return nil
		}
		for _, fd := range fl.List {
			ty := fd.Type
			variadic := false
			if el, ok := ty.(*ast.Ellipsis); ok {
				variadic = true
				ty = el.Elt
			}
			ts := c31ExprString(fset, ty)
			if len(fd.Names) == 0 {
				ps = append(ps, c31Param{"", ts, variadic})
			}
			for _, n := range fd.Names {
				ps = append(ps, c31Param{n.Name, ts, variadic})
			}
		}
		return ps
	}
	decls := map[string]*c31XProxy{}
	for _, d := range af.Decls {
		switch d := d.(type) {
		case *ast.GenDecl:
			if d.Tok != token.TYPE {
				continue
			}
			for _, sp := range d.Specs {
				ts := sp.(*ast.TypeSpec)
				st, ok := ts.Type.(*ast.StructType)
				if !ok || ts.Assign.IsValid() || ts.TypeParams != nil {
					continue
				}
				p := &c31XProxy{Name: ts.Name.Name}
				for _, fd := range st.Fields.List {
					names := fd.Names
					if len(names) == 0 {
						names = []*ast.Ident{{Name: "?embedded"}}
					}
					for _, n := range names {
						cf := c31Field{Name: n.Name}
						if ft, ok := fd.Type.(*ast.FuncType); ok && ft.TypeParams == nil {
							cf.IsFunc = true
							cf.Params = params(ft.Params)
							cf.Results = params(ft.Results)
						} else {
							cf.Ty = c31ExprString(fset, fd.Type)
						}
						p.Fields = append(p.Fields, cf)
					}
				}
				decls[p.Name] = p
				f.Decls = append(f.Decls, p)
			}
		}
	}
	body := func(m *c31Method, b *ast.BlockStmt) string {
		if b == nil || len(b.List) != 1 {
			return ".opaq"
		}
		var call *ast.CallExpr
		kind := ""
		switch s := b.List[0].(type) {
		case *ast.ReturnStmt:
			if len(s.Results) == 1 {
				call, _ = s.Results[0].(*ast.CallExpr)
				kind = ".ret"
			}
		case *ast.ExprStmt:
			call, _ = s.X.(*ast.CallExpr)
			kind = ".expr"
		}
		if call == nil {
			return ".opaq"
		}
		sel, ok := call.Fun.(*ast.SelectorExpr)
		if !ok {
			return ".opaq"
		}
		recv, ok := sel.X.(*ast.Ident)
		if !ok {
			return ".opaq"
		}
		var args []string
		for i, a := range call.Args {
			switch a := a.(type) {
			case *ast.Ident:
				ell := "false"
				if call.Ellipsis.IsValid() && i == len(call.Args)-1 {
					ell = "true"
				}
				args = append(args, fmt.Sprintf(".ident %s %s", c31LeanStr(a.Name), ell))
			case *ast.SelectorExpr:
				if x, ok := a.X.(*ast.Ident); ok {
					args = append(args, fmt.Sprintf(".recvField %s %s", c31LeanStr(x.Name), c31LeanStr(a.Sel.Name)))
				} else {
					args = append(args, ".opaq")
				}
			default:
				args = append(args, ".opaq")
			}
		}
		return fmt.Sprintf("%s ⟨%s, %s, [%s]⟩", kind, c31LeanStr(recv.Name), c31LeanStr(sel.Sel.Name), strings.Join(args, ", "))
	}
	for _, d := range af.Decls {
		fd, ok := d.(*ast.FuncDecl)
		if !ok {
			continue
		}
		if fd.Recv != nil && len(fd.Recv.List) == 1 {
			rt := fd.Recv.List[0].Type
			tname := ""
			isPtr := false
			if st, ok := rt.(*ast.StarExpr); ok {
				isPtr = true
				rt = st.X
			}
			if id, ok := rt.(*ast.Ident); ok {
				tname = id.Name
			}
			p := decls[tname]
			if p == nil {
				continue
			}
			m := &c31Method{Name: fd.Name.Name, RecvType: tname}
			if !isPtr {
				m.RecvType = ""
			}
			if len(fd.Recv.List[0].Names) == 1 {
				m.RecvName = fd.Recv.List[0].Names[0].Name
			}
			if fd.Type.TypeParams != nil {
				m.RecvType = ""
			}
			m.Params = params(fd.Type.Params)
			m.Results = params(fd.Type.Results)
			m.Body = body(m, fd.Body)
			p.Methods = append(p.Methods, m)
			continue
		}
		if fd.Recv == nil && fd.Name.Name == "init" && fd.Body != nil {
			for _, st := range fd.Body.List {
				as, ok := st.(*ast.AssignStmt)
				if !ok || as.Tok != token.ASSIGN || len(as.Lhs) != 1 || len(as.Rhs) != 1 {
					f.Other++
					continue
				}
				ix, ok := as.Lhs[0].(*ast.IndexExpr)
				if !ok {
					f.Other++
					continue
				}
				// Packages[...] or imports.Packages[...]
				okTbl := false
				switch x := ix.X.(type) {
				case *ast.Ident:
					okTbl = x.Name == "Packages"
				case *ast.SelectorExpr:
					if id, ok := x.X.(*ast.Ident); ok && x.Sel.Name == "Packages" {
						for _, a := range f.Aliases {
							if a[0] == id.Name && a[1] == c31Module+"/imports" {
								okTbl = true
							}
						}
					}
				}
				path, ok2 := strLit(ix.Index)
				lit, ok3 := as.Rhs[0].(*ast.CompositeLit)
				if !okTbl || !ok2 || !ok3 {
					f.Other++
					continue
				}
				parseTable(path, lit)
			}
		}
	}
	return f
}

// ---- Lean output ----

func c31Params(ps []c31Param) string {
	var s []string
	for _, p := range ps {
		s = append(s, fmt.Sprintf("⟨%s, %s, %v⟩", c31LeanStr(p.Name), c31LeanStr(p.Ty), p.Variadic))
	}
	return "[" + strings.Join(s, ", ") + "]"
}

const c31ChunkLen = 250

func c31WriteFile(b *bytes.Buffer, id string, f *c31File) {
	chunked := func(kind string, n int, typ string, item func(i int) string) string {
		var names []string
		for lo := 0; lo < n; lo += c31ChunkLen {
			hi := lo + c31ChunkLen
			if hi > n {
				hi = n
			}
			name := fmt.Sprintf("%s_%s_%d", id, kind, lo/c31ChunkLen)
			fmt.Fprintf(b, "def %s : List %s := [\n", name, typ)
			for i := lo; i < hi; i++ {
				sep := ","
				if i == hi-1 {
					sep = ""
				}
				fmt.Fprintf(b, "  %s%s\n", item(i), sep)
			}
			b.WriteString("]\n")
			names = append(names, name)
		}
		return "[" + strings.Join(names, ", ") + "]"
	}
	ent := func(es []c31XBind) func(int) string {
		return func(i int) string {
			e := es[i]
			return fmt.Sprintf("⟨%s, %s, %s⟩", c31LeanStr(e.Path), c31LeanStr(e.Key), e.Form)
		}
	}
	binds := chunked("binds", len(f.Binds), "BindE", ent(f.Binds))
	types := chunked("types", len(f.Types), "TypeE", ent(f.Types))
	proxies := chunked("proxies", len(f.Proxies), "TypeE", ent(f.Proxies))
	untypeds := chunked("untypeds", len(f.Untypeds), "UntypedE", func(i int) string {
		e := f.Untypeds[i]
		return fmt.Sprintf("⟨%s, %s, %s⟩", c31LeanStr(e.Path), c31LeanStr(e.Key), c31LeanStr(e.Val))
	})
	wrappers := chunked("wrappers", len(f.Wrappers), "WrapperE", func(i int) string {
		e := f.Wrappers[i]
		var ms []string
		for _, m := range e.Methods {
			ms = append(ms, c31LeanStr(m))
		}
		return fmt.Sprintf("⟨%s, %s, [%s]⟩", c31LeanStr(e.Path), c31LeanStr(e.Key), strings.Join(ms, ", "))
	})
	var declNames []string
	for i, d := range f.Decls {
		name := fmt.Sprintf("%s_decl_%d", id, i)
		declNames = append(declNames, name)
		fmt.Fprintf(b, "def %s : ProxyDecl := {\n  name := %s\n  fields := [\n", name, c31LeanStr(d.Name))
		for j, fd := range d.Fields {
			sep := ","
			if j == len(d.Fields)-1 {
				sep = ""
			}
			fmt.Fprintf(b, "    ⟨%s, %v, %s, %s, %s⟩%s\n", c31LeanStr(fd.Name), fd.IsFunc, c31LeanStr(fd.Ty), c31Params(fd.Params), c31Params(fd.Results), sep)
		}
		b.WriteString("  ]\n  methods := [\n")
		for j, m := range d.Methods {
			sep := ","
			if j == len(d.Methods)-1 {
				sep = ""
			}
			fmt.Fprintf(b, "    ⟨%s, %s, %s, %s, %s, %s⟩%s\n", c31LeanStr(m.RecvName), c31LeanStr(m.RecvType), c31LeanStr(m.Name),
				c31Params(m.Params), c31Params(m.Results), m.Body, sep)
		}
		b.WriteString("  ] }\n")
	}
	kind := ".generated"
	if f.Inception {
		kind = ".inception"
	}
	var ra, al, pk []string
	for _, a := range f.ReflectAliases {
		ra = append(ra, c31LeanStr(a))
	}
	for _, a := range f.Aliases {
		al = append(al, fmt.Sprintf("(%s, %s)", c31LeanStr(a[0]), c31LeanStr(a[1])))
	}
	for _, a := range f.Pkgs {
		pk = append(pk, fmt.Sprintf("(%s, %s)", c31LeanStr(a[0]), c31LeanStr(a[1])))
	}
	fmt.Fprintf(b, "/-- %s -/\ndef %s : FileTbl := {\n  file := %s\n  active := %v\n  kind := %s\n  ownPath := %s\n  reflectAliases := [%s]\n  aliases := [%s]\n  pkgs := [%s]\n  binds := %s\n  types := %s\n  proxies := %s\n  untypeds := %s\n  wrappers := %s\n  decls := [%s] }\n\n",
		f.Rel, id, c31LeanStr(f.Rel), f.Active, kind, c31LeanStr(f.OwnPath), strings.Join(ra, ", "), strings.Join(al, ", "), strings.Join(pk, ", "),
		binds, types, proxies, untypeds, wrappers, strings.Join(declNames, ", "))
}

func c31Extract(repo, genDir string) error {
	files, err := c31ParseRepo(repo)
	if err != nil {
		return err
	}
	// distribute files over the chunk modules: largest first onto the lightest module (deterministic)
	order := make([]int, len(files))
	for i := range order {
		order[i] = i
	}
	sort.SliceStable(order, func(a, b int) bool { return files[order[a]].size() > files[order[b]].size() })
	load := make([]int, c31NChunks)
	assign := make([][]int, c31NChunks)
	for _, i := range order {
		best := 0
		for c := 1; c < c31NChunks; c++ {
			if load[c] < load[best] {
				best = c
			}
		}
		load[best] += files[i].size()
		assign[best] = append(assign[best], i)
	}
	for c := 0; c < c31NChunks; c++ {
		sort.Ints(assign[c])
		var b bytes.Buffer
		fmt.Fprintf(&b, "-- GENERATED by harness/c31_extract.go from %s/imports (and x_package.go files). DO NOT EDIT.\nimport Model.Imports\nset_option maxRecDepth 100000\nnamespace Gen.ImportTables%d\nopen Imports\n\n", "<repo>", c)
		var ids []string
		for _, i := range assign[c] {
			id := fmt.Sprintf("f%d", i)
			ids = append(ids, id)
			c31WriteFile(&b, id, files[i])
		}
		fmt.Fprintf(&b, "def files : List FileTbl := [%s]\n\n", strings.Join(ids, ", "))
		b.WriteString("/-- every table of this chunk is well formed: checked by the kernel on the regenerated table -/\ntheorem files_ok : files.all fileOk = true := by decide +kernel\n\n")
		fmt.Fprintf(&b, "end Gen.ImportTables%d\n", c)
		if err := os.WriteFile(filepath.Join(genDir, fmt.Sprintf("ImportTables%d.lean", c)), b.Bytes(), 0o644); err != nil {
			return err
		}
	}
	var b bytes.Buffer
	b.WriteString("-- GENERATED by harness/c31_extract.go. DO NOT EDIT.\n")
	for c := 0; c < c31NChunks; c++ {
		fmt.Fprintf(&b, "import Gen.ImportTables%d\n", c)
	}
	b.WriteString("namespace Gen.ImportTables\nopen Imports\n\ndef chunks : List (List FileTbl) := [")
	for c := 0; c < c31NChunks; c++ {
		if c > 0 {
			b.WriteString(", ")
		}
		fmt.Fprintf(&b, "Gen.ImportTables%d.files", c)
	}
	b.WriteString("]\n\ndef allFiles : List FileTbl := chunks.flatten\n\n")
	b.WriteString("theorem chunks_ok : chunks.all (·.all fileOk) = true := by\n  simp only [chunks, List.all_cons, List.all_nil, Bool.and_true")
	for c := 0; c < c31NChunks; c++ {
		fmt.Fprintf(&b, ", Gen.ImportTables%d.files_ok", c)
	}
	b.WriteString("]\n\nend Gen.ImportTables\n")
	return os.WriteFile(filepath.Join(genDir, "ImportTables.lean"), b.Bytes(), 0o644)
}
