package main

import (
	"fmt"
	"go/ast"
	"go/parser"
	"go/token"
	"os"
	"path/filepath"
	"strings"
)

// Extractor for C08: the per-element-kind arms of fast/index.go vectorIndex and mapIndex1
// (constant and variable index) -> lean/Gen/IndexArms.lean, plus three flags telling whether
// vectorIndex, vectorPlace/vectorPtrPlace, slice.go sliceIndex and builtin.go compileMake convert an
// index of any integer kind to int (Comp.convert(idx, c.TypeOfInt(), ...), directly or through
// a helper of the same package) -- the flags select the form of the model the driver runs.
//
// One arm =  case xr.K:  fun = func(env *Env) T { ... objv.Index(i).Acc() ... }
//   kind    = K                      (default: -> other)
//   ret     = T                      (xr.Value -> other)
//   acc     = the reflect accessor called on the element (Bool/Int/Uint/Float/Complex/String)
//   conv    = the conversion wrapped around the accessor call (none -> other)
//   usesIdx = the element is <obj>.Index(i) / <obj>.MapIndex(key), obj bound to objfun(env),
//             i / key bound to idxfun(env) / keyfun(env) (variable) or to the constant captured
//             before the switch
// Anything the extractor does not recognise becomes `.opaque`, which no obligation accepts.

var c08kinds = map[string]string{
	"Bool": "bool", "Int": "int", "Int8": "int8", "Int16": "int16", "Int32": "int32", "Int64": "int64",
	"Uint": "uint", "Uint8": "uint8", "Uint16": "uint16", "Uint32": "uint32", "Uint64": "uint64", "Uintptr": "uintptr",
	"Float32": "float32", "Float64": "float64", "Complex64": "complex64", "Complex128": "complex128", "String": "string",
}
var c08types = map[string]string{
	"bool": "bool", "int": "int", "int8": "int8", "int16": "int16", "int32": "int32", "int64": "int64",
	"uint": "uint", "uint8": "uint8", "uint16": "uint16", "uint32": "uint32", "uint64": "uint64", "uintptr": "uintptr",
	"float32": "float32", "float64": "float64", "complex64": "complex64", "complex128": "complex128", "string": "string",
}
var c08accs = map[string]string{"Bool": "bool", "Int": "int", "Uint": "uint", "Float": "float", "Complex": "complex", "String": "string"}

type c08arm struct {
	fn, kind, ret, acc, conv string
	uses                     bool
}

func c08typeName(e ast.Expr) string {
	switch t := e.(type) {
	case *ast.Ident:
		if k, ok := c08types[t.Name]; ok {
			return k
		}
	case *ast.SelectorExpr:
		if id, ok := t.X.(*ast.Ident); ok && id.Name == "xr" && t.Sel.Name == "Value" {
			return "other"
		}
	}
	return "opaque"
}

func c08ident(e ast.Expr) string {
	if id, ok := e.(*ast.Ident); ok {
		return id.Name
	}
	return ""
}

// c08oneArm analyses the closure assigned to `fun` in one case clause
func c08oneArm(fn string, variable bool, kind string, lit *ast.FuncLit) c08arm {
	a := c08arm{fn: fn, kind: kind, ret: "opaque", acc: "none", conv: "other"}
	if lit.Type.Results != nil && len(lit.Type.Results.List) == 1 {
		a.ret = c08typeName(lit.Type.Results.List[0].Type)
	}
	binds := map[string]string{} // local name -> text of the bound call's function
	elemVar := ""                // local bound to the Index / MapIndex call
	nIndex, accs, convs := 0, []string{}, []string{}
	indexOK := false
	ast.Inspect(lit.Body, func(n ast.Node) bool {
		switch x := n.(type) {
		case *ast.AssignStmt:
			if len(x.Lhs) == 1 && len(x.Rhs) == 1 {
				if call, ok := x.Rhs[0].(*ast.CallExpr); ok {
					if f := c08ident(call.Fun); f != "" && len(call.Args) == 1 && c08ident(call.Args[0]) == "env" {
						binds[c08ident(x.Lhs[0])] = f
					}
					if sel, ok := call.Fun.(*ast.SelectorExpr); ok && (sel.Sel.Name == "Index" || sel.Sel.Name == "MapIndex") {
						elemVar = c08ident(x.Lhs[0])
					}
				}
			}
		case *ast.CallExpr:
			if sel, ok := x.Fun.(*ast.SelectorExpr); ok {
				switch {
				case (sel.Sel.Name == "Index" || sel.Sel.Name == "MapIndex") && len(x.Args) == 1:
					nIndex++
					obj, idx := c08ident(sel.X), c08ident(x.Args[0])
					wantIdx, wantFun := "i", "idxfun"
					if sel.Sel.Name == "MapIndex" {
						wantIdx, wantFun = "key", "keyfun"
					}
					indexOK = (obj == "objv" || obj == "obj") && binds[obj] == "objfun" && idx == wantIdx &&
						((variable && binds[idx] == wantFun) || (!variable && binds[idx] == ""))
				case len(x.Args) == 0 && c08accs[sel.Sel.Name] != "":
					// accessor: receiver must be the element (directly the Index call, or the local bound to it)
					recvOK := false
					if c, ok := sel.X.(*ast.CallExpr); ok {
						if s2, ok := c.Fun.(*ast.SelectorExpr); ok && (s2.Sel.Name == "Index" || s2.Sel.Name == "MapIndex") {
							recvOK = true
						}
					} else if id := c08ident(sel.X); id != "" && id == elemVar {
						recvOK = true
					}
					if recvOK {
						accs = append(accs, c08accs[sel.Sel.Name])
					} else {
						accs = append(accs, "opaque")
					}
				}
			} else if id := c08ident(x.Fun); id != "" && c08types[id] != "" && len(x.Args) == 1 {
				// conversion: its argument must be the accessor call
				if c, ok := x.Args[0].(*ast.CallExpr); ok {
					if s2, ok := c.Fun.(*ast.SelectorExpr); ok && c08accs[s2.Sel.Name] != "" {
						convs = append(convs, c08types[id])
						break
					}
				}
				convs = append(convs, "opaque")
			}
		}
		return true
	})
	a.uses = nIndex == 1 && indexOK
	switch len(accs) {
	case 0:
	case 1:
		a.acc = accs[0]
	default:
		a.acc = "opaque"
	}
	switch len(convs) {
	case 0:
	case 1:
		a.conv = convs[0]
	default:
		a.conv = "opaque"
	}
	return a
}

// c08switchArms finds the `switch X.Kind()` in block and analyses every clause
func c08switchArms(fn string, variable bool, block *ast.BlockStmt) []c08arm {
	var arms []c08arm
	for _, st := range block.List {
		sw, ok := st.(*ast.SwitchStmt)
		if !ok {
			continue
		}
		for _, cl := range sw.Body.List {
			cc := cl.(*ast.CaseClause)
			var lit *ast.FuncLit
			for _, s := range cc.Body {
				if as, ok := s.(*ast.AssignStmt); ok && len(as.Lhs) == 1 && c08ident(as.Lhs[0]) == "fun" && len(as.Rhs) == 1 {
					if fl, ok := as.Rhs[0].(*ast.FuncLit); ok {
						lit = fl
					}
				}
			}
			kinds := []string{}
			if len(cc.List) == 0 {
				kinds = append(kinds, "other")
			}
			for _, e := range cc.List {
				k := "opaque"
				if sel, ok := e.(*ast.SelectorExpr); ok {
					if kk, ok := c08kinds[sel.Sel.Name]; ok {
						k = kk
					}
				}
				kinds = append(kinds, k)
			}
			for _, k := range kinds {
				if lit == nil {
					arms = append(arms, c08arm{fn: fn, kind: k, ret: "opaque", acc: "opaque", conv: "opaque"})
				} else {
					arms = append(arms, c08oneArm(fn, variable, k, lit))
				}
			}
		}
	}
	return arms
}

// c08callsConvert: does the body contain  c.convert(_, c.TypeOfInt(), _)  or a call of a method in `helpers`
func c08callsConvert(body *ast.BlockStmt, helpers map[string]bool) bool {
	found := false
	ast.Inspect(body, func(n ast.Node) bool {
		call, ok := n.(*ast.CallExpr)
		if !ok {
			return true
		}
		sel, ok := call.Fun.(*ast.SelectorExpr)
		if !ok {
			return true
		}
		if helpers != nil && helpers[sel.Sel.Name] {
			found = true
		}
		if sel.Sel.Name == "convert" && len(call.Args) == 3 {
			if c2, ok := call.Args[1].(*ast.CallExpr); ok {
				if s2, ok := c2.Fun.(*ast.SelectorExpr); ok && s2.Sel.Name == "TypeOfInt" {
					found = true
				}
			}
			if id := c08ident(call.Args[1]); id == "te" { // compileMake: te := c.TypeOfInt()
				found = true
			}
		}
		return true
	})
	return found
}

func c08extract(repo, genDir string) error {
	fset := token.NewFileSet()
	funcs := map[string]*ast.FuncDecl{}
	for _, name := range []string{"fast/index.go", "fast/slice.go", "fast/builtin.go", "fast/convert.go"} {
		f, err := parser.ParseFile(fset, filepath.Join(repo, name), nil, 0)
		if err != nil {
			return err
		}
		for _, d := range f.Decls {
			if fd, ok := d.(*ast.FuncDecl); ok && fd.Body != nil {
				// a method wins over a package-level function of the same name (convert)
				if old := funcs[fd.Name.Name]; old == nil || fd.Recv != nil {
					funcs[fd.Name.Name] = fd
				}
			}
		}
	}
	var arms []c08arm
	for _, spec := range []struct{ fn, cst, vr, cond string }{
		{"vectorIndex", "vecConst", "vecVar", "idx.Const()"},
		{"mapIndex1", "mapConst", "mapVar", "idxconst"},
	} {
		fd := funcs[spec.fn]
		if fd == nil {
			return fmt.Errorf("index.go: func %s not found", spec.fn)
		}
		n := 0
		for _, st := range fd.Body.List {
			ifs, ok := st.(*ast.IfStmt)
			if !ok {
				continue
			}
			els, ok := ifs.Else.(*ast.BlockStmt)
			if !ok {
				continue
			}
			a1 := c08switchArms(spec.cst, false, ifs.Body)
			a2 := c08switchArms(spec.vr, true, els)
			if len(a1) > 0 && len(a2) > 0 {
				arms = append(arms, a1...)
				arms = append(arms, a2...)
				n++
			}
		}
		if n != 1 {
			return fmt.Errorf("index.go: %s: expected one if/else with a kind switch in each branch, found %d", spec.fn, n)
		}
	}
	helpers := map[string]bool{}
	for name, fd := range funcs {
		if name != "convert" && fd.Recv != nil && c08callsConvert(fd.Body, nil) &&
			name != "vectorIndex" && name != "vectorPlace" && name != "vectorPtrPlace" && name != "sliceIndex" && name != "compileMake" {
			helpers[name] = true
		}
	}
	flag := func(names ...string) string {
		for _, n := range names {
			fd := funcs[n]
			if fd == nil || !c08callsConvert(fd.Body, helpers) {
				return "false"
			}
		}
		return "true"
	}
	var b strings.Builder
	b.WriteString("-- REGENERATED by harness/c08_extract.go from <repo>/fast/index.go, slice.go, builtin.go -- do not edit\n")
	b.WriteString("import Model.Composite\nnamespace Gen.IndexArms\nopen Composite\n\n")
	b.WriteString("def arms : List Arm := [\n")
	for i, a := range arms {
		sep := ","
		if i == len(arms)-1 {
			sep = ""
		}
		fmt.Fprintf(&b, "  ⟨.%s, .%s, .%s, .%s, .%s, %v⟩%s\n", a.fn, a.kind, a.ret, a.acc, a.conv, a.uses, sep)
	}
	b.WriteString("]\n\n")
	fmt.Fprintf(&b, "/-- vectorIndex converts its index to int -/\ndef readConverts : Bool := %s\n", flag("vectorIndex"))
	fmt.Fprintf(&b, "/-- vectorPlace and vectorPtrPlace convert their index to int -/\ndef placeConverts : Bool := %s\n", flag("vectorPlace", "vectorPtrPlace"))
	fmt.Fprintf(&b, "/-- slice.go sliceIndex converts a bound to int -/\ndef sliceConverts : Bool := %s\n", flag("sliceIndex"))
	fmt.Fprintf(&b, "/-- builtin.go compileMake converts a size to int -/\ndef makeConverts : Bool := %s\n", flag("compileMake"))
	// Comp.convert (fast/convert.go): is a typed constant checked for representability in the target
	// type (a call of convertNumericConst inside the `if e.Const()` branch) or just wrapped by reflect?
	checks := "false"
	if fd := funcs["convert"]; fd != nil && fd.Recv != nil {
		ast.Inspect(fd.Body, func(n ast.Node) bool {
			ifs, ok := n.(*ast.IfStmt)
			if !ok {
				return true
			}
			if call, ok := ifs.Cond.(*ast.CallExpr); ok {
				if sel, ok := call.Fun.(*ast.SelectorExpr); ok && sel.Sel.Name == "Const" && c08ident(sel.X) == "e" {
					ast.Inspect(ifs.Body, func(m ast.Node) bool {
						if c2, ok := m.(*ast.CallExpr); ok {
							if s2, ok := c2.Fun.(*ast.SelectorExpr); ok && s2.Sel.Name == "convertNumericConst" {
								checks = "true"
							}
						}
						return true
					})
				}
			}
			return true
		})
	} else {
		return fmt.Errorf("convert.go: method convert not found")
	}
	fmt.Fprintf(&b, "/-- convert.go Comp.convert checks that a typed constant is representable in the target type -/\ndef constConvChecks : Bool := %s\n", checks)
	b.WriteString("\nend Gen.IndexArms\n")
	return os.WriteFile(filepath.Join(genDir, "IndexArms.lean"), []byte(b.String()), 0o644)
}

func init() { extractors["C08"] = c08extract }
