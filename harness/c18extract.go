package main

// Extractor for C18: every use of an interpreter option flag (base.OptXxx) in the non-test
// sources of fast/, base/ and cmd/ -> lean/Gen/OptionUses.lean.
//
// One entry per (file, enclosing function, flag, how): `how` says in which syntactic position the
// flag is used and fingerprints what the guarded code does:
//
//	test:<names>    the flag is in the condition of an `if`; <names> = sorted set of the functions
//	                called and of the variables/fields assigned in the guarded branches (+ "return",
//	                "panic", "defer", "go" when present)
//	flag:<var>      the test is stored in a local variable
//	write:<op>      g.Options is written (|=, &^=, =)
//	const:<name>    the flag is part of a named constant
//	arg:<callee>    the test is passed to a function
//	table           the declaration of the flags and their name table (base/type.go)
//	other:<stmt>    anything else
//
// The hand classification in lean/Model/OptionSites.lean must list exactly these entries
// (theorem Options.all_sites_classified): a new, moved or re-purposed use of a flag breaks the
// proof obligation until it is classified.

import (
	"fmt"
	"go/ast"
	"go/parser"
	"go/token"
	"os"
	"path/filepath"
	"sort"
	"strings"
)

type c18site struct {
	file, fn, opt, how string
}

func c18optionNames(repo string) (map[string]bool, error) {
	fset := token.NewFileSet()
	f, err := parser.ParseFile(fset, filepath.Join(repo, "base/type.go"), nil, 0)
	if err != nil {
		return nil, err
	}
	names := map[string]bool{}
	for _, d := range f.Decls {
		gd, ok := d.(*ast.GenDecl)
		if !ok || gd.Tok != token.CONST {
			continue
		}
		isOpts := false
		for _, sp := range gd.Specs {
			vs := sp.(*ast.ValueSpec)
			if id, ok := vs.Type.(*ast.Ident); ok && id.Name == "Options" {
				isOpts = true
			}
		}
		if !isOpts {
			continue
		}
		for _, sp := range gd.Specs {
			for _, n := range sp.(*ast.ValueSpec).Names {
				names[n.Name] = true
			}
		}
	}
	if len(names) < 10 {
		return nil, fmt.Errorf("base/type.go: option constants not found")
	}
	return names, nil
}

func c18calleeName(e ast.Expr) string {
	switch f := e.(type) {
	case *ast.Ident:
		return f.Name
	case *ast.SelectorExpr:
		return f.Sel.Name
	case *ast.ParenExpr:
		return c18calleeName(f.X)
	case *ast.FuncLit:
		return "func"
	}
	return "?"
}

func c18lhsName(e ast.Expr) string {
	switch f := e.(type) {
	case *ast.Ident:
		return f.Name
	case *ast.SelectorExpr:
		return f.Sel.Name
	case *ast.IndexExpr:
		return c18lhsName(f.X) + "[]"
	case *ast.StarExpr:
		return "*" + c18lhsName(f.X)
	}
	return "?"
}

// what a guarded branch does
func c18fingerprint(nodes ...ast.Node) string {
	set := map[string]bool{}
	for _, n := range nodes {
		if n == nil {
			continue
		}
		ast.Inspect(n, func(x ast.Node) bool {
			switch s := x.(type) {
			case *ast.CallExpr:
				set[c18calleeName(s.Fun)+"()"] = true
			case *ast.AssignStmt:
				for _, l := range s.Lhs {
					set[c18lhsName(l)+"="] = true
				}
			case *ast.IncDecStmt:
				set[c18lhsName(s.X)+"="] = true
			case *ast.ReturnStmt:
				set["return"] = true
			case *ast.DeferStmt:
				set["defer"] = true
			case *ast.GoStmt:
				set["go"] = true
			case *ast.BranchStmt:
				set[s.Tok.String()] = true
			}
			return true
		})
	}
	var names []string
	for k := range set {
		names = append(names, k)
	}
	sort.Strings(names)
	return strings.Join(names, ",")
}

func c18contains(root ast.Node, target ast.Node) bool {
	if root == nil {
		return false
	}
	found := false
	ast.Inspect(root, func(x ast.Node) bool {
		if x == target {
			found = true
		}
		return !found
	})
	return found
}

func c18how(stack []ast.Node, id *ast.Ident) string {
	// innermost enclosing statement / declaration decides
	for i := len(stack) - 1; i >= 0; i-- {
		switch s := stack[i].(type) {
		case *ast.CallExpr:
			for _, a := range s.Args {
				if c18contains(a, id) {
					return "arg:" + c18calleeName(s.Fun)
				}
			}
		case *ast.IfStmt:
			if c18contains(s.Cond, id) || (s.Init != nil && c18contains(s.Init, id)) {
				var els ast.Node
				if s.Else != nil {
					els = s.Else
				}
				if els != nil {
					return "test:" + c18fingerprint(s.Body, els)
				}
				return "test:" + c18fingerprint(s.Body)
			}
		case *ast.AssignStmt:
			for _, r := range s.Rhs {
				if c18contains(r, id) {
					if len(s.Lhs) == 1 {
						if sel, ok := s.Lhs[0].(*ast.SelectorExpr); ok && sel.Sel.Name == "Options" {
							return "write:" + s.Tok.String()
						}
						return "flag:" + c18lhsName(s.Lhs[0])
					}
					return "flag:?"
				}
			}
		case *ast.ValueSpec:
			if len(s.Names) == 1 {
				// inside a const / var declaration
				for j := i - 1; j >= 0; j-- {
					if gd, ok := stack[j].(*ast.GenDecl); ok {
						if gd.Tok == token.CONST {
							return "const:" + s.Names[0].Name
						}
						return "flag:" + s.Names[0].Name
					}
				}
			}
		case *ast.ReturnStmt:
			return "other:return"
		case *ast.SwitchStmt, *ast.CaseClause:
			return "other:switch"
		case *ast.ExprStmt:
			return "other:expr"
		}
	}
	return "other:?"
}

func c18extractSites(repo string) ([]c18site, error) {
	names, err := c18optionNames(repo)
	if err != nil {
		return nil, err
	}
	var sites []c18site
	for _, dir := range []string{"fast", "base", "cmd"} {
		err := filepath.Walk(filepath.Join(repo, dir), func(path string, info os.FileInfo, err error) error {
			if err != nil {
				return err
			}
			if info.IsDir() || !strings.HasSuffix(path, ".go") || strings.HasSuffix(path, "_test.go") {
				return nil
			}
			rel, _ := filepath.Rel(repo, path)
			if filepath.Base(path) == "x_package.go" {
				return nil // generated tables exporting the constants to interpreted code
			}
			fset := token.NewFileSet()
			f, err := parser.ParseFile(fset, path, nil, 0)
			if err != nil {
				return fmt.Errorf("%s: %v", rel, err)
			}
			inBase := f.Name.Name == "base"
			for _, d := range f.Decls {
				fn := "<toplevel>"
				if fd, ok := d.(*ast.FuncDecl); ok {
					fn = fd.Name.Name
					if fd.Recv != nil && len(fd.Recv.List) == 1 {
						t := fd.Recv.List[0].Type
						if st, ok := t.(*ast.StarExpr); ok {
							t = st.X
						}
						if id, ok := t.(*ast.Ident); ok {
							fn = id.Name + "." + fn
						}
					}
				}
				var stack []ast.Node
				ast.Inspect(d, func(x ast.Node) bool {
					if x == nil {
						stack = stack[:len(stack)-1]
						return true
					}
					stack = append(stack, x)
					var id *ast.Ident
					descend := true
					switch e := x.(type) {
					case *ast.SelectorExpr:
						if p, ok := e.X.(*ast.Ident); ok && p.Name == "base" && names[e.Sel.Name] {
							id = e.Sel
							descend = false
						}
					case *ast.Ident:
						// package base itself, or a dot-import of it (cmd/cmd.go)
						if names[e.Name] {
							id = e
						}
					}
					_ = inBase
					if !descend {
						defer func() { stack = stack[:len(stack)-1] }()
					}
					if id != nil {
						how := ""
						if rel == "base/type.go" && fn == "<toplevel>" {
							how = "table"
						} else {
							how = c18how(stack, id)
						}
						sites = append(sites, c18site{rel, fn, id.Name, how})
					}
					return descend
				})
			}
			return nil
		})
		if err != nil {
			return nil, err
		}
	}
	return sites, nil
}

func c18extract(repo, genDir string) error {
	sites, err := c18extractSites(repo)
	if err != nil {
		return err
	}
	count := map[c18site]int{}
	for _, s := range sites {
		count[s]++
	}
	var keys []c18site
	for s := range count {
		keys = append(keys, s)
	}
	sort.Slice(keys, func(i, j int) bool {
		a, b := keys[i], keys[j]
		if a.file != b.file {
			return a.file < b.file
		}
		if a.fn != b.fn {
			return a.fn < b.fn
		}
		if a.opt != b.opt {
			return a.opt < b.opt
		}
		return a.how < b.how
	})
	var sb strings.Builder
	sb.WriteString("-- GENERATED by harness/c18extract.go from fast/, base/, cmd/ of the gomacro checkout; do not edit\n")
	sb.WriteString("namespace OptionUses\n")
	sb.WriteString("structure Site where\n  file : String\n  fn : String\n  opt : String\n  how : String\n  n : Nat\n  deriving DecidableEq, Repr\n\n")
	sb.WriteString("def sites : List Site := [\n")
	for i, k := range keys {
		sep := ","
		if i == len(keys)-1 {
			sep = ""
		}
		fmt.Fprintf(&sb, "  ⟨%q, %q, %q, %q, %d⟩%s\n", k.file, k.fn, k.opt, k.how, count[k], sep)
	}
	sb.WriteString("]\n\n")
	fe, err := c18forceEvalShape(repo)
	if err != nil {
		return err
	}
	sb.WriteString("/-- fast/repl.go cmdOptForceEval returns the whole constant `todisable` (code as found: the deferred\n    `g.Options |= toenable` then switches on all three flags) instead of the flags that were set -/\n")
	fmt.Fprintf(&sb, "def forceEvalReturnsConst : Bool := %v\n", fe)
	sb.WriteString("end OptionUses\n")
	return os.WriteFile(filepath.Join(genDir, "OptionUses.lean"), []byte(sb.String()), 0o644)
}

// does cmdOptForceEval contain `return todisable`?
func c18forceEvalShape(repo string) (bool, error) {
	fset := token.NewFileSet()
	f, err := parser.ParseFile(fset, filepath.Join(repo, "fast/repl.go"), nil, 0)
	if err != nil {
		return false, err
	}
	for _, d := range f.Decls {
		fd, ok := d.(*ast.FuncDecl)
		if !ok || fd.Name.Name != "cmdOptForceEval" || fd.Body == nil {
			continue
		}
		found := false
		ast.Inspect(fd.Body, func(x ast.Node) bool {
			if r, ok := x.(*ast.ReturnStmt); ok && len(r.Results) == 1 {
				if id, ok := r.Results[0].(*ast.Ident); ok && id.Name == "todisable" {
					found = true
				}
			}
			return true
		})
		return found, nil
	}
	return false, fmt.Errorf("fast/repl.go: func cmdOptForceEval not found")
}
