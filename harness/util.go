package main

// Shared helpers for the per-property harness files.

import (
	"fmt"
	"io"
	"os"
	"reflect"
	"strings"

	"github.com/cosmos72/gomacro/fast"
)

// workDir returns a scratch directory under $VERIF_DIR/.work (never /tmp), created on demand.
func workDir(name string) string {
	v := os.Getenv("VERIF_DIR")
	if v == "" {
		v = "/verif"
	}
	d := v + "/.work/" + name
	os.MkdirAll(d, 0o755)
	return d
}

// repoDir is the gomacro checkout under test.
func repoDir() string {
	if r := os.Getenv("VERIF_REPO"); r != "" {
		return r
	}
	return "/repo"
}

// newQuietInterp returns a fresh fast interpreter whose output is discarded.
func newQuietInterp() *fast.Interp {
	ir := fast.New()
	ir.Comp.Globals.Stdout = io.Discard
	ir.Comp.Globals.Stderr = io.Discard
	return ir
}

// evalSrc evaluates src (one or more statements/declarations) and returns the values of the
// last expression, or the error text of a compile error / run-time panic ("" if none).
// Interp.Eval panics on errors; the panic is recovered here.
func evalSrc(ir *fast.Interp, src string) (vals []reflect.Value, errText string) {
	defer func() {
		if e := recover(); e != nil {
			vals = nil
			errText = oneLine(fmt.Sprint(e))
			if errText == "" {
				errText = "panic"
			}
		}
	}()
	vs, _ := ir.Eval(src)
	for _, v := range vs {
		vals = append(vals, v.ReflectValue())
	}
	return vals, ""
}

// showVals renders values with %v separated by blanks; typed as %T when withType.
func showVals(vals []reflect.Value, withType bool) string {
	var sb strings.Builder
	for i, v := range vals {
		if i > 0 {
			sb.WriteByte(' ')
		}
		if !v.IsValid() {
			sb.WriteString("<invalid>")
			continue
		}
		if withType {
			fmt.Fprintf(&sb, "%v:%v", v.Type(), v.Interface())
		} else {
			fmt.Fprintf(&sb, "%v", v.Interface())
		}
	}
	return sb.String()
}
