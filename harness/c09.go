package main

// C09: methods, embedding, interfaces and type switches behave as in Go.
//
// ops (one line each; `decl` is the state boundary):
//   decl T=<kind>;<body>;<m>.<p>,..  ...  B=<name>.<emb>.<ptr>.<typ>,.. ...  N=<typenames,>  I=<iface>:<impl>,..
//   look <t> <name>     xtype.FieldByName + xtype.MethodByName + Comp.TryLookupFieldOrMethod (raw results)
//   sel <t> <name>      the selector v.<name> evaluated by the fast interpreter on an initialised value
//   impl <t> <p> <i>    does T (p=0) / *T (p=1) implement interface i; dynamic dispatch of every method
//   tsw <clauses> @ <dyn>   arm chosen by a type switch / comma-ok assertion on interface{}
//
// Oracles (Go side): go/types (standard library, NOT gomacro's fork) LookupFieldOrMethod /
// Implements on the same source text; compiled Go (runGoBatch) for every value.

import (
	"fmt"
	"go/ast"
	"go/parser"
	"go/token"
	gotypes "go/types"
	"math/rand"
	"os"
	"reflect"
	"runtime"
	"runtime/debug"
	"sort"
	"strconv"
	"strings"
	"time"

	"github.com/cosmos72/gomacro/fast"
	xr "github.com/cosmos72/gomacro/xreflect"
)

type c09Field struct {
	Name     string
	Emb, Ptr bool
	Typ      int
}
type c09Method struct {
	Name string
	Ptr  bool
}
type c09Type struct {
	Name    string
	Kind    byte // 's' struct, 'i' interface, 'o' other (type N int)
	Fields  []c09Field
	Methods []c09Method
	Impl    int // for interfaces: index of a struct type implementing it with value receivers
	Body    int
}
// vn is the name of the instance variable of type t (unique among the universes sharing an interpreter)
func (u *c09Univ) vn(t int) string { return fmt.Sprintf("v%s_%d", u.Suffix, t) }

type c09Univ struct {
	Suffix  string // appended to every type name; universes with different suffixes may share one interpreter
	Reuse   bool   // declare in the interpreter of the previous universe
	Types   []c09Type
	Bodies  [][]c09Field
	CycleOK bool // contains pointer cycles: only `look` ops are generated
}

// ---------- encoding / decoding of a universe ----------

func c09b(b bool) string {
	if b {
		return "1"
	}
	return "0"
}

func (u *c09Univ) computeBodies() {
	u.Bodies = nil
	seen := map[string]int{}
	for i := range u.Types {
		t := &u.Types[i]
		if t.Kind != 's' {
			t.Body = 0
			continue
		}
		var sb strings.Builder
		for _, f := range t.Fields {
			fmt.Fprintf(&sb, "%s.%v.%v.%d,", f.Name, f.Emb, f.Ptr, f.Typ)
		}
		k := sb.String()
		id, ok := seen[k]
		if !ok {
			id = len(u.Bodies)
			seen[k] = id
			u.Bodies = append(u.Bodies, t.Fields)
		}
		t.Body = id
	}
}

func (u *c09Univ) encode() string {
	u.computeBodies()
	var toks []string
	var names, impls []string
	for i, t := range u.Types {
		var ms []string
		for _, m := range t.Methods {
			ms = append(ms, m.Name+"."+c09b(m.Ptr))
		}
		toks = append(toks, fmt.Sprintf("T=%c;%d;%s", t.Kind, t.Body, strings.Join(ms, ",")))
		names = append(names, t.Name)
		if t.Kind == 'i' {
			impls = append(impls, fmt.Sprintf("%d:%d", i, t.Impl))
		}
	}
	for _, b := range u.Bodies {
		var fs []string
		for _, f := range b {
			fs = append(fs, fmt.Sprintf("%s.%s.%s.%d", f.Name, c09b(f.Emb), c09b(f.Ptr), f.Typ))
		}
		toks = append(toks, "B="+strings.Join(fs, ","))
	}
	toks = append(toks, "N="+strings.Join(names, ","))
	toks = append(toks, "I="+strings.Join(impls, ","))
	if u.CycleOK {
		toks = append(toks, "C=1")
	}
	toks = append(toks, "S="+u.Suffix)
	if u.Reuse {
		toks = append(toks, "R=1")
	}
	return strings.Join(toks, " ")
}

func c09decode(arg string) *c09Univ {
	u := &c09Univ{}
	var bodies [][]c09Field
	var names []string
	impl := map[int]int{}
	for _, tok := range strings.Fields(arg) {
		switch {
		case strings.HasPrefix(tok, "T="):
			p := strings.Split(tok[2:], ";")
			if len(p) != 3 || len(p[0]) != 1 {
				continue
			}
			t := c09Type{Kind: p[0][0]}
			t.Body, _ = strconv.Atoi(p[1])
			if p[2] != "" {
				for _, m := range strings.Split(p[2], ",") {
					q := strings.Split(m, ".")
					if len(q) == 2 {
						t.Methods = append(t.Methods, c09Method{q[0], q[1] == "1"})
					}
				}
			}
			u.Types = append(u.Types, t)
		case strings.HasPrefix(tok, "B="):
			var fs []c09Field
			if tok[2:] != "" {
				for _, f := range strings.Split(tok[2:], ",") {
					q := strings.Split(f, ".")
					if len(q) == 4 {
						ty, _ := strconv.Atoi(q[3])
						fs = append(fs, c09Field{q[0], q[1] == "1", q[2] == "1", ty})
					}
				}
			}
			bodies = append(bodies, fs)
		case strings.HasPrefix(tok, "N="):
			names = strings.Split(tok[2:], ",")
		case strings.HasPrefix(tok, "I="):
			if tok[2:] != "" {
				for _, x := range strings.Split(tok[2:], ",") {
					q := strings.Split(x, ":")
					if len(q) == 2 {
						a, _ := strconv.Atoi(q[0])
						b, _ := strconv.Atoi(q[1])
						impl[a] = b
					}
				}
			}
		case tok == "C=1":
			u.CycleOK = true
		case tok == "R=1":
			u.Reuse = true
		case strings.HasPrefix(tok, "S="):
			u.Suffix = tok[2:]
		}
	}
	u.Bodies = bodies
	for i := range u.Types {
		t := &u.Types[i]
		if i < len(names) {
			t.Name = names[i]
		} else {
			t.Name = fmt.Sprintf("T%d", i)
		}
		if t.Kind == 's' && t.Body < len(bodies) {
			t.Fields = bodies[t.Body]
		}
		t.Impl = impl[i]
	}
	return u
}

// ---------- Go source of a universe ----------

func c09base(ti, mi int) int { return (ti+1)*10 + mi + 1 } // method id, < 1000

func (u *c09Univ) typeDecl(i int) string {
	t := u.Types[i]
	var sb strings.Builder
	switch t.Kind {
	case 's':
		fmt.Fprintf(&sb, "type %s struct {", t.Name)
		for _, f := range t.Fields {
			if f.Emb {
				if f.Ptr {
					fmt.Fprintf(&sb, " *%s;", u.Types[f.Typ].Name)
				} else {
					fmt.Fprintf(&sb, " %s;", u.Types[f.Typ].Name)
				}
			} else {
				fmt.Fprintf(&sb, " %s int;", f.Name)
			}
		}
		sb.WriteString(" }")
	case 'o':
		fmt.Fprintf(&sb, "type %s int", t.Name)
	case 'i':
		fmt.Fprintf(&sb, "type %s interface {", t.Name)
		for _, m := range t.Methods {
			if m.Name == "String" || m.Name == "Error" {
				fmt.Fprintf(&sb, " %s() string;", m.Name)
			} else {
				fmt.Fprintf(&sb, " %s() int;", m.Name)
			}
		}
		sb.WriteString(" }")
	}
	return sb.String()
}

func (u *c09Univ) methodDecls(i int) []string {
	t := u.Types[i]
	if t.Kind == 'i' {
		return nil
	}
	var out []string
	for mi, m := range t.Methods {
		if m.Name == "String" || m.Name == "Error" {
			star := ""
			if m.Ptr {
				star = "*"
			}
			out = append(out, fmt.Sprintf("func (r %s%s) %s() string { return \"s%d\" }", star, t.Name, m.Name, c09base(i, mi)))
			continue
		}
		star, tag := "", "r.K"
		if m.Ptr {
			star = "*"
		}
		if t.Kind == 'o' {
			tag = "int(r)"
			if m.Ptr {
				tag = "int(*r)"
			}
		}
		out = append(out, fmt.Sprintf("func (r %s%s) %s() int { return %d + %s }", star, t.Name, m.Name, c09base(i, mi)*1000, tag))
	}
	return out
}

func (u *c09Univ) decls() []string {
	var out []string
	for i := range u.Types {
		out = append(out, u.typeDecl(i))
	}
	for i := range u.Types {
		out = append(out, u.methodDecls(i)...)
	}
	return out
}

// c09Loc says what a unique int value identifies inside the instance v<t>
type c09Loc struct {
	Path []int // index path of the named field, or of the receiver (embedded field) for recv
	Recv bool
}

// instance builds the statements initialising variable v<t> (already declared, zero) so that
// every reachable named field holds a unique value; table maps value -> location.
func (u *c09Univ) instance(t int) (stmts []string, table map[int]c09Loc) {
	table = map[int]c09Loc{}
	next := 0
	v := u.vn(t)
	var walk func(expr string, ti int, path []int, depth int)
	walk = func(expr string, ti int, path []int, depth int) {
		for i, f := range u.Types[ti].Fields {
			p := append(append([]int{}, path...), i)
			if !f.Emb {
				next++
				stmts = append(stmts, fmt.Sprintf("%s.%s = %d", expr, f.Name, next))
				table[next] = c09Loc{p, false}
				continue
			}
			tt := u.Types[f.Typ]
			sub := expr + "." + tt.Name
			switch tt.Kind {
			case 's':
				if depth >= 5 {
					continue
				}
				if f.Ptr {
					stmts = append(stmts, fmt.Sprintf("%s = &%s{}", sub, tt.Name))
				}
				walk(sub, f.Typ, p, depth+1)
			case 'o':
				next++
				if f.Ptr {
					stmts = append(stmts, fmt.Sprintf("%s = new(%s)", sub, tt.Name), fmt.Sprintf("*%s = %s(%d)", sub, tt.Name, next))
				} else {
					stmts = append(stmts, fmt.Sprintf("%s = %s(%d)", sub, tt.Name, next))
				}
				table[next] = c09Loc{p, true}
			case 'i':
				next++
				stmts = append(stmts, fmt.Sprintf("%s = %s(%s{K: %d})", sub, tt.Name, u.Types[tt.Impl].Name, next))
				table[next] = c09Loc{p, true}
			}
		}
	}
	switch u.Types[t].Kind {
	case 's':
		walk(v, t, nil, 0)
	case 'o':
		next++
		stmts = append(stmts, fmt.Sprintf("%s = %s(%d)", v, u.Types[t].Name, next))
		table[next] = c09Loc{nil, true}
	case 'i':
		next++
		stmts = append(stmts, fmt.Sprintf("%s = %s{K: %d}", v, u.Types[u.Types[t].Impl].Name, next))
		table[next] = c09Loc{nil, true}
	}
	return
}

func c09path(p []int) string {
	if len(p) == 0 {
		return "-"
	}
	s := make([]string, len(p))
	for i, x := range p {
		s[i] = strconv.Itoa(x)
	}
	return strings.Join(s, ".")
}

// decodeValue maps an int produced by a selector expression back to "field <path>" / "method <recv path>"
func c09decodeValue(val int, table map[int]c09Loc, embedded bool) string {
	if val >= 1000 {
		loc, ok := table[val%1000]
		if !ok {
			return fmt.Sprintf("value %d", val)
		}
		p := loc.Path
		if !loc.Recv {
			p = p[:len(p)-1] // K of the struct receiver
		}
		return "method " + c09path(p)
	}
	loc, ok := table[val]
	if !ok {
		return fmt.Sprintf("value %d", val)
	}
	p := loc.Path
	if embedded && !loc.Recv {
		p = p[:len(p)-1] // v.<EmbeddedStruct>.K identifies the embedded struct field
	}
	return "field " + c09path(p)
}

// ---------- per-universe state ----------

type c09State struct {
	u       *c09Univ
	ir      *fast.Interp
	declErr string
	xt      []xr.Type
	tables  []map[int]c09Loc
	inited  []bool
	pkg     *gotypes.Package // standard go/types view of the same source
	stdErr  string
	tswN    int
}

var c09cur *c09State
var c09batch map[string]string // "opindex" / "opindex.k" -> compiled-Go output
var c09batchErr string
var c09opIndex int

func (s *c09State) stdType(t int) gotypes.Type {
	if s.pkg == nil {
		return nil
	}
	o := s.pkg.Scope().Lookup(s.u.Types[t].Name)
	if o == nil {
		return nil
	}
	return o.Type()
}

func c09stdCheck(u *c09Univ) (*gotypes.Package, string) {
	src := "package main\n" + strings.Join(u.decls(), "\n") + "\n"
	fset := token.NewFileSet()
	f, err := parser.ParseFile(fset, "u.go", src, 0)
	if err != nil {
		return nil, err.Error()
	}
	conf := gotypes.Config{}
	pkg, err := conf.Check("main", fset, []*ast.File{f}, nil)
	if err != nil {
		return nil, err.Error()
	}
	return pkg, ""
}

func c09decl(arg string) *c09State {
	s := &c09State{u: c09decode(arg)}
	if s.u.Reuse && c09cur != nil && c09cur.ir != nil {
		s.ir = c09cur.ir
	} else {
		s.ir = newQuietInterp()
		evalSrc(s.ir, `import ("fmt"; "time"; "errors")`)
	}
	var tds []string
	for i := range s.u.Types {
		tds = append(tds, s.u.typeDecl(i))
	}
	if _, e := evalSrc(s.ir, strings.Join(tds, "\n")); e != "" {
		s.declErr = strings.Join(tds, "; ") + ": " + e
	}
	var mds []string
	for i := range s.u.Types {
		mds = append(mds, s.u.methodDecls(i)...)
	}
	if len(mds) > 0 && s.declErr == "" {
		if _, e := evalSrc(s.ir, strings.Join(mds, "\n")); e != "" {
			s.declErr = strings.Join(mds, "; ") + ": " + e
		}
	}
	n := len(s.u.Types)
	s.xt = make([]xr.Type, n)
	s.tables = make([]map[int]c09Loc, n)
	s.inited = make([]bool, n)
	for i, t := range s.u.Types {
		func() {
			defer func() { recover() }()
			s.xt[i] = s.ir.Comp.TryResolveType(t.Name)
		}()
	}
	s.pkg, s.stdErr = c09stdCheck(s.u)
	return s
}

// ensure v<t> exists and is initialised in the interpreter
func (s *c09State) ensureInstance(t int) string {
	if s.inited[t] {
		return ""
	}
	s.inited[t] = true
	stmts, table := s.u.instance(t)
	s.tables[t] = table
	if _, e := evalSrc(s.ir, fmt.Sprintf("var %s %s", s.u.vn(t), s.u.Types[t].Name)); e != "" {
		return e
	}
	if len(stmts) == 0 {
		return ""
	}
	// one Eval for the whole initialisation (an Eval costs tens of milliseconds)
	if _, e := evalSrc(s.ir, strings.Join(stmts, "; ")); e != "" {
		return strings.Join(stmts, "; ") + ": " + e
	}
	return ""
}

func c09int(vals []reflect.Value) (int, bool) {
	if len(vals) != 1 || !vals[0].IsValid() {
		return 0, false
	}
	switch vals[0].Kind() {
	case reflect.Int, reflect.Int64:
		return int(vals[0].Int()), true
	}
	return 0, false
}

// selector expression (of type int) for v<t>.<name> given what it denotes
func (s *c09State) selExpr(t int, name string, isMethod bool, ptr bool) (expr string, embedded bool) {
	v := s.u.vn(t) + "." + name
	if isMethod {
		return v + "()", false
	}
	for _, tt := range s.u.Types {
		if tt.Name == name {
			switch tt.Kind {
			case 's':
				return v + ".K", true
			case 'o':
				if ptr {
					return "int(*" + v + ")", true
				}
				return "int(" + v + ")", true
			case 'i':
				return v + ".(" + s.u.Types[tt.Impl].Name + ").K", true
			}
		}
	}
	return v, false
}

func c09isPtr(obj gotypes.Object) bool {
	if obj == nil {
		return false
	}
	_, ok := obj.Type().(*gotypes.Pointer)
	return ok
}

// std oracle for the selector v<t>.<name>: "field p" / "method p" / "none" / "err"
func (s *c09State) stdSel(t int, name string) (string, gotypes.Object) {
	T := s.stdType(t)
	if T == nil {
		return "?", nil
	}
	obj, index, _ := gotypes.LookupFieldOrMethod(T, true, s.pkg, name)
	switch o := obj.(type) {
	case *gotypes.Var:
		return "field " + c09path(index), o
	case *gotypes.Func:
		return "method " + c09path(index[:len(index)-1]), o
	}
	if index != nil {
		return "err", nil
	}
	return "none", nil
}

func c09key(kind, got, want, f string) string {
	g, _, _ := strings.Cut(got, " ")
	w, _, _ := strings.Cut(want, " ")
	if kind == "look" && g == "err" && w == "method" && !strings.HasPrefix(f, "F 0") && !strings.HasPrefix(f, "F 1") {
		return "ambiguous-fields-hide-shallower-method"
	}
	return kind + "-" + g + "-want-" + w
}

func c09exec(op string) Result {
	idx := c09opIndex
	c09opIndex++
	f, arg, _ := strings.Cut(op, " ")
	if f == "decl" {
		c09cur = c09decl(arg)
		r := Result{Out: "ok", Tags: []string{"decl"}}
		if c09cur.declErr != "" {
			r.Tags = append(r.Tags, "decl-error")
			if c09cur.stdErr == "" {
				r.Viol = "valid Go declarations rejected: " + c09cur.declErr
				r.Key = "decl-rejected"
			}
		}
		if c09cur.stdErr != "" {
			r.Tags = append(r.Tags, "decl-invalid-go")
		}
		return r
	}
	s := c09cur
	if s == nil {
		return Result{Out: "bad-op", Tags: []string{"bad-op"}}
	}
	switch f {
	case "look":
		return s.execLook(op, arg)
	case "sel":
		return s.execSel(idx, op, arg)
	case "impl":
		return s.execImpl(idx, op, arg)
	case "tsw":
		return s.execTsw(idx, op, arg)
	}
	return Result{Out: "bad-op", Tags: []string{"bad-op"}}
}

func (s *c09State) typeArg(a string) (int, bool) {
	t, err := strconv.Atoi(a)
	if err != nil || t < 0 || t >= len(s.u.Types) || s.xt[t] == nil {
		return 0, false
	}
	return t, true
}

func (s *c09State) execLook(op, arg string) Result {
	ta, name, _ := strings.Cut(arg, " ")
	t, ok := s.typeArg(ta)
	if !ok {
		return Result{Out: "bad-op", Tags: []string{"bad-op"}}
	}
	xt := s.xt[t]
	pkgpath := s.ir.Comp.FileComp().Path
	fld, fn := xt.FieldByName(name, pkgpath)
	mtd, mn := xt.MethodByName(name, pkgpath)
	fs := fmt.Sprintf("F %d %s", fn, c09path(fld.Index))
	mi := "+"
	if mtd.Index < 0 {
		mi = strconv.Itoa(mtd.Index)
	}
	ms := fmt.Sprintf("M %d %s %s", mn, mi, c09path(mtd.FieldIndex))
	f2, fok, m2, mok, err := s.ir.Comp.TryLookupFieldOrMethod(xt, name)
	var sel string
	switch {
	case err != nil:
		sel = "err"
	case fok:
		sel = "field " + c09path(f2.Index)
	case mok:
		sel = "method " + c09path(m2.FieldIndex)
	default:
		sel = "none"
	}
	r := Result{Out: fs + " | " + ms + " | " + sel, Nontrivial: fn+mn > 0}
	r.Tags = []string{"look", "look-" + strings.Fields(sel)[0], fmt.Sprintf("look-F%d-M%d", c09min(fn, 2), c09min(mn, 2)),
		fmt.Sprintf("look-depth%d", c09min(len(fld.Index)+len(mtd.FieldIndex), 4))}
	if want, _ := s.stdSel(t, name); want != "?" && want != sel {
		r.Viol = fmt.Sprintf("type %s selector %q: gomacro lookup says %q (%s | %s), go/types says %q; decls: %s",
			s.u.Types[t].Name, name, sel, fs, ms, want, strings.Join(s.u.decls(), "; "))
		r.Key = c09key("look", sel, want, fs)
	}
	return r
}

func c09min(a, b int) int {
	if a < b {
		return a
	}
	return b
}


func (s *c09State) execSel(idx int, op, arg string) Result {
	ta, name, _ := strings.Cut(arg, " ")
	t, ok := s.typeArg(ta)
	if !ok {
		return Result{Out: "bad-op", Tags: []string{"bad-op"}}
	}
	// Out = the static resolution by Comp.TryLookupFieldOrMethod (what the model predicts);
	// the evaluated selector is judged by the oracles only.
	static := "fail"
	if f2, fok, m2, mok, err := s.ir.Comp.TryLookupFieldOrMethod(s.xt[t], name); err == nil {
		if fok {
			static = "field " + c09path(f2.Index)
		} else if mok {
			static = "method " + c09path(m2.FieldIndex)
		}
	}
	if e := s.ensureInstance(t); e != "" {
		return Result{Out: static, Viol: "cannot initialise instance: " + e + "; decls: " + strings.Join(s.u.decls(), "; "), Key: "instance-init", Tags: []string{"sel", "init-error"}}
	}
	want, obj := s.stdSel(t, name)
	table := s.tables[t]
	out := "fail"
	var detail string
	try := func(isMethod bool) bool {
		expr, emb := s.selExpr(t, name, isMethod, c09isPtr(obj))
		vals, e := evalSrc(s.ir, expr)
		if e != "" {
			detail = e
			return false
		}
		v, ok := c09int(vals)
		if !ok {
			detail = "non-int result of " + expr
			return false
		}
		out = c09decodeValue(v, table, emb)
		return true
	}
	switch obj.(type) {
	case *gotypes.Var:
		try(false)
	case *gotypes.Func:
		try(true)
	default:
		if !try(false) {
			try(true)
		}
	}
	r := Result{Out: static, Nontrivial: true, Tags: []string{"sel", "sel-" + strings.Fields(out)[0]}}
	wantOut := want
	if want == "none" || want == "err" {
		wantOut = "fail"
	}
	if want != "?" && (out != wantOut || static != wantOut) {
		r.Viol = fmt.Sprintf("v_%d.%s on type %s: gomacro evaluates to %q (%s), resolves to %q, go/types says %q; decls: %s", t, name, s.u.Types[t].Name, out, truncate(detail, 200), static, want, strings.Join(s.u.decls(), "; "))
		r.Key = c09key("sel", out, wantOut, "")
		if _, fn := s.xt[t].FieldByName(name, s.ir.Comp.FileComp().Path); fn > 1 && out == "fail" && strings.HasPrefix(want, "method") {
			r.Key = "ambiguous-fields-hide-shallower-method"
		} else if strings.Contains(detail, "unaddressable") && static == wantOut {
			r.Key = "pointer-method-on-unaddressable-copy"
		}
		return r
	}
	// behaviour against compiled Go: value of the selector, method value, method expressions
	if out != "fail" && c09batch != nil {
		_, isM := obj.(*gotypes.Func)
		probes := s.selProbes(t, name, isM, c09isPtr(obj))
		// all probes in one Eval first (an Eval costs tens of milliseconds) ...
		var exs, wants []string
		for k, ex := range probes {
			if wantV, have := c09batch[fmt.Sprintf("%d.%d", idx, k)]; have && ex != "" {
				exs = append(exs, ex)
				wants = append(wants, wantV)
				r.Tags = append(r.Tags, fmt.Sprintf("sel-probe%d", k))
			}
		}
		if len(exs) == 0 {
			return r
		}
		if vals, e := evalSrc(s.ir, "[]int{"+strings.Join(exs, ", ")+"}"); e == "" && showVals(vals, false) == "["+strings.Join(wants, " ")+"]" {
			return r
		}
		// ... one by one to find the culprit
		for k, ex := range probes {
			wantV, have := c09batch[fmt.Sprintf("%d.%d", idx, k)]
			if !have || ex == "" {
				continue
			}
			src := ex
			vals, e := evalSrc(s.ir, src)
			got := "ERR " + truncate(e, 160)
			if e == "" {
				got = showVals(vals, false)
			}
			if got != wantV {
				r.Viol = fmt.Sprintf("%s: gomacro %q, compiled Go %q; decls: %s", src, got, wantV, strings.Join(s.u.decls(), "; "))
				r.Key = []string{"sel-value", "method-value", "method-expr-value-type", "method-expr-pointer-type"}[k]
				if strings.HasPrefix(got, "ERR") {
					r.Key += "-rejected"
				}
				return r
			}
		}
	}
	return r
}

// probes (Go expressions of type int) for a valid selector; index = kind
//   0 value of the selector / method call, 1 method value, 2 method expression T.m, 3 (*T).m
func (s *c09State) selProbes(t int, name string, isMethod bool, ptr bool) []string {
	expr, _ := s.selExpr(t, name, isMethod, ptr)
	out := []string{expr}
	if !isMethod {
		return out
	}
	T := s.stdType(t)
	tn := s.u.Types[t].Name
	out = append(out, fmt.Sprintf("(func() int { f := %s.%s; return f() })()", s.u.vn(t), name))
	if T != nil && gotypes.NewMethodSet(T).Lookup(s.pkg, name) != nil {
		out = append(out, fmt.Sprintf("%s.%s(%s)", tn, name, s.u.vn(t)))
	} else {
		out = append(out, "")
	}
	if T != nil && s.u.Types[t].Kind != 'i' && gotypes.NewMethodSet(gotypes.NewPointer(T)).Lookup(s.pkg, name) != nil {
		out = append(out, fmt.Sprintf("(*%s).%s(&%s)", tn, name, s.u.vn(t)))
	} else {
		out = append(out, "")
	}
	return out
}

func (s *c09State) execImpl(idx int, op, arg string) Result {
	p := strings.Fields(arg)
	if len(p) != 3 {
		return Result{Out: "bad-op", Tags: []string{"bad-op"}}
	}
	t, ok1 := s.typeArg(p[0])
	i, ok2 := s.typeArg(p[2])
	if !ok1 || !ok2 || s.u.Types[i].Kind != 'i' {
		return Result{Out: "bad-op", Tags: []string{"bad-op"}}
	}
	ptr := p[1] == "1"
	xt := s.xt[t]
	if ptr {
		xt = s.ir.Comp.Universe.PtrTo(xt)
	}
	got := false
	func() {
		defer func() { recover() }()
		got = xt.Implements(s.xt[i])
	}()
	r := Result{Out: fmt.Sprintf("impl %v", got), Nontrivial: true, Tags: []string{"impl", fmt.Sprintf("impl-%v", got)}}
	T, I := s.stdType(t), s.stdType(i)
	if T == nil || I == nil {
		return r
	}
	if ptr {
		T = gotypes.NewPointer(T)
	}
	want := gotypes.Implements(T, I.Underlying().(*gotypes.Interface))
	decls := strings.Join(s.u.decls(), "; ")
	if got != want {
		r.Viol = fmt.Sprintf("Implements(%v, %v): gomacro %v, go/types %v; decls: %s", T, I, got, want, decls)
		r.Key = fmt.Sprintf("implements-%v-want-%v", got, want)
		return r
	}
	// the same through the compiler of the interpreter: assignment + dynamic dispatch
	if e := s.ensureInstance(t); e != "" {
		return r
	}
	src := s.implProbe(t, ptr, i, 0)
	vals, e := evalSrc(s.ir, src)
	if want {
		wantV, have := c09batch[fmt.Sprint(idx)]
		if !have {
			return r
		}
		gotV := "ERR " + truncate(e, 160)
		if e == "" {
			gotV = showVals(vals, false)
		}
		r.Tags = append(r.Tags, "impl-dispatch")
		if gotV != wantV {
			r.Viol = fmt.Sprintf("%s: gomacro %q, compiled Go %q; decls: %s", src, gotV, wantV, decls)
			r.Key = "interface-dispatch"
			if e != "" {
				r.Key = "interface-assign-rejected"
			}
			return r
		}
		if s.u.Types[t].Kind != 'i' {
			src = s.implProbe(t, ptr, i, 1)
			vals, e = evalSrc(s.ir, src)
			gotV = "ERR " + truncate(e, 160)
			if e == "" {
				gotV = showVals(vals, false)
			}
			if gotV != wantV {
				r.Viol = fmt.Sprintf("%s: gomacro %q, compiled Go %q; decls: %s", src, gotV, wantV, decls)
				r.Key = "assign-concrete-to-interface-field"
			}
		}
	} else if e == "" {
		r.Viol = fmt.Sprintf("%s compiles but %v does not implement %v; decls: %s", src, T, I, decls)
		r.Key = "interface-assign-accepted"
	}
	return r
}

// expression (type string) assigning v<t> / &v<t> to interface i and calling every method;
// variant 1 assigns to a struct field of the interface type instead of a variable
func (s *c09State) implProbe(t int, ptr bool, i int, variant int) string {
	amp := ""
	if ptr {
		amp = "&"
	}
	var calls []string
	for _, m := range s.u.Types[i].Methods {
		calls = append(calls, "x."+m.Name+"()")
	}
	if variant == 1 {
		for k := range calls {
			calls[k] = "h.F" + calls[k][1:]
		}
		return fmt.Sprintf("(func() string { var h struct{ F %s }; h.F = %s%s; return fmt.Sprint(%s) })()", s.u.Types[i].Name, amp, s.u.vn(t), strings.Join(calls, ", "))
	}
	return fmt.Sprintf("(func() string { var x %s = %s%s; return fmt.Sprint(%s) })()", s.u.Types[i].Name, amp, s.u.vn(t), strings.Join(calls, ", "))
}

// ---------- type switches ----------
// type codes: k = T_k (struct, named int, or interpreted interface as a case), 100+k = *T_k,
// 200 int, 201 string, 300 fmt.Stringer, 301 error, 310 time.Duration, 311 time.Month,
// 312 the dynamic type of errors.New(..) (operand only), n = nil.
// tag: "e" = the switch operand has static type interface{}, k = interpreted interface T_k.

func (s *c09State) tyName(code string, asCase bool) (string, bool) {
	if code == "n" {
		return "nil", true
	}
	k, err := strconv.Atoi(code)
	if err != nil {
		return "", false
	}
	switch {
	case k == 200:
		return "int", true
	case k == 201:
		return "string", true
	case k == 300 && asCase:
		return "fmt.Stringer", true
	case k == 301 && asCase:
		return "error", true
	case k == 310:
		return "time.Duration", true
	case k == 311:
		return "time.Month", true
	case k == 312 && !asCase:
		return "*errors.errorString", true
	case k >= 200:
		return "", false
	case k >= 100 && k-100 < len(s.u.Types) && s.u.Types[k-100].Kind != 'i':
		return "*" + s.u.Types[k-100].Name, true
	case k >= 0 && k < len(s.u.Types) && (s.u.Types[k].Kind != 'i' || asCase):
		return s.u.Types[k].Name, true
	}
	return "", false
}

func (s *c09State) tyValue(code string) string {
	if code == "n" {
		return "nil"
	}
	k, _ := strconv.Atoi(code)
	switch {
	case k == 200:
		return "7"
	case k == 201:
		return `"s"`
	case k == 310:
		return "time.Second"
	case k == 311:
		return "time.March"
	case k == 312:
		return `errors.New("x")`
	case k >= 100 && s.u.Types[k-100].Kind == 's':
		return "&" + s.u.vn(k-100) // initialised instance: no nil embedded pointers
	case k >= 100:
		return "new(" + s.u.Types[k-100].Name + ")"
	case s.u.Types[k].Kind == 'o':
		return s.u.Types[k].Name + "(3)"
	}
	return s.u.vn(k)
}

// index of the struct type whose instance variable the operand of a tsw op uses (-1: none)
func (s *c09State) tswInstance(dyn string) int {
	k, err := strconv.Atoi(dyn)
	if err != nil || k >= 200 {
		return -1
	}
	if k >= 100 {
		k -= 100
	}
	if k < len(s.u.Types) && s.u.Types[k].Kind == 's' {
		return k
	}
	return -1
}

func c09tswSplit(arg string) (cl, dyn, tag string, ok bool) {
	p := strings.Split(arg, " @ ")
	switch len(p) {
	case 2:
		return p[0], p[1], "e", true
	case 3:
		return p[0], p[1], p[2], true
	}
	return "", "", "", false
}

// Go function literal for the switch, returning the clause index (or -1), plus the argument
func (s *c09State) tswSource(arg string) (fn string, val string, ok bool) {
	cl, dyn, tag, found := c09tswSplit(arg)
	if !found {
		return "", "", false
	}
	if _, ok := s.tyName(dyn, false); !ok {
		return "", "", false
	}
	param := "interface{}"
	if tag != "e" {
		k, err := strconv.Atoi(tag)
		if err != nil || k < 0 || k >= len(s.u.Types) || s.u.Types[k].Kind != 'i' {
			return "", "", false
		}
		param = s.u.Types[k].Name
	}
	var sb strings.Builder
	sb.WriteString("func(e " + param + ") int { switch e.(type) {")
	for i, c := range strings.Split(cl, "/") {
		if c == "d" {
			fmt.Fprintf(&sb, " default: return %d;", i)
			continue
		}
		var names []string
		for _, ty := range strings.Split(c, ",") {
			n, ok := s.tyName(ty, true)
			if !ok {
				return "", "", false
			}
			names = append(names, n)
		}
		fmt.Fprintf(&sb, " case %s: return %d;", strings.Join(names, ", "), i)
	}
	sb.WriteString(" }; return -1 }")
	return sb.String(), s.tyValue(dyn), true
}

// the reflect.Type identity of a type code (interpreted named types are emulated: a named
// struct IS its unnamed struct type, `type N int` IS int) -- mirrors Drv/C09.lean `rtOf`
func (s *c09State) execTsw(idx int, op, arg string) Result {
	fn, val, ok := s.tswSource(arg)
	if !ok {
		return Result{Out: "bad-op", Tags: []string{"bad-op"}}
	}
	s.tswN++
	name := fmt.Sprintf("tsw%d", s.tswN)
	_, dynCode, tagCode, _ := c09tswSplit(arg)
	if t := s.tswInstance(dynCode); t >= 0 {
		s.ensureInstance(t)
	}
	out := "arm ?"
	_ = name
	vals, e := evalSrc(s.ir, "("+fn+")("+val+")")
	if v, ok := c09int(vals); ok && e == "" {
		out = "arm " + strconv.Itoa(v)
		if v < 0 {
			out = "arm -"
		}
	}
	r := Result{Out: out, Nontrivial: true, Tags: []string{"tsw", "tsw-" + strings.ReplaceAll(out, " ", "")}}
	if wantV, have := c09batch[fmt.Sprint(idx)]; have {
		want := "arm " + wantV
		if wantV == "-1" {
			want = "arm -"
		}
		if out != want {
			r.Viol = fmt.Sprintf("%s (%s): gomacro %q (%s), compiled Go %q; decls: %s", fn, val, out, truncate(e, 160), want, strings.Join(s.u.decls(), "; "))
			r.Key = "typeswitch-arm"
			cl, dyn, tag, _ := c09tswSplit(arg)
			dk, _ := strconv.Atoi(dyn)
			_ = tagCode
			switch {
			case tag != "e" && dyn == "n":
				r.Key = "typeswitch-nil-interpreted-interface"
			case tag != "e" && dk < 100 && s.u.Types[dk].Kind == 'o':
				r.Key = "named-basic-value-to-interpreted-interface"
			case e != "":
				r.Key = "typeswitch-rejected"
			case s.tswIdentical(arg):
				r.Key = "typeswitch-identical-underlying-type"
			case tag == "e" && dyn != "n" && dk < 200 && c09clauseHas(cl, wantV, "300", "301"):
				r.Key = "typeswitch-compiled-interface-case-on-interpreted-value"
			}
		}
	}
	return r
}

// does clause number w (decimal string) of cl contain one of the given type codes?
func c09clauseHas(cl, w string, codes ...string) bool {
	i, err := strconv.Atoi(w)
	cs := strings.Split(cl, "/")
	if err != nil || i < 0 || i >= len(cs) {
		return false
	}
	for _, ty := range strings.Split(cs[i], ",") {
		for _, c := range codes {
			if ty == c {
				return true
			}
		}
	}
	return false
}

// does the dynamic type share its reflect.Type with a DIFFERENT case type (emulated named types)?
func (s *c09State) tswIdentical(arg string) bool {
	cl, dyn, _, _ := c09tswSplit(arg)
	rd := s.rtOf(dyn)
	for _, c := range strings.Split(cl, "/") {
		for _, ty := range strings.Split(c, ",") {
			if ty != "d" && ty != dyn && s.rtOf(ty) == rd {
				return true
			}
		}
	}
	return false
}

func (s *c09State) rtOf(code string) string {
	if code == "n" {
		return "nil"
	}
	k, _ := strconv.Atoi(code)
	switch {
	case k >= 200:
		return code
	case k >= 100:
		return "*" + s.rtOf(strconv.Itoa(k-100))
	case s.u.Types[k].Kind == 'o':
		return "200"
	case s.u.Types[k].Kind == 'i':
		return "iface" + code
	}
	return fmt.Sprintf("body%d", s.u.Types[k].Body)
}

// ---------- compiled-Go batch ----------

func c09prepare(ops []string) {
	if os.Getenv("C09_GENONLY") != "" {
		return
	}
	// the interpreter allocates a lot; on a loaded machine GC threads dominate
	runtime.GOMAXPROCS(4)
	debug.SetGCPercent(400)
	c09batch = map[string]string{}
	c09opIndex = 0
	var snippets []Snippet
	var cur *c09State
	var body strings.Builder
	var inited map[int]bool
	flush := func() {
		if cur != nil && cur.stdErr == "" && body.Len() > 0 {
			snippets = append(snippets, Snippet{Imports: []string{"time", "errors"}, Decls: strings.Join(cur.u.decls(), "\n") + "\nvar _ = time.Second\nvar _ = errors.New\n", Body: body.String()})
		}
		body.Reset()
	}
	probe := func(key, expr string) {
		fmt.Fprintf(&body, "func() { defer func() { if e := recover(); e != nil { emit(%q + \" PANIC\") } }(); emit(%q + \" \" + fmt.Sprint(%s)) }()\n", key, key, expr)
	}
	ensure := func(t int) {
		if inited[t] {
			return
		}
		inited[t] = true
		stmts, _ := cur.u.instance(t)
		fmt.Fprintf(&body, "var %s %s\n_ = %s\n", cur.u.vn(t), cur.u.Types[t].Name, cur.u.vn(t))
		for _, st := range stmts {
			body.WriteString(st + "\n")
		}
	}
	for idx, op := range ops {
		f, arg, _ := strings.Cut(op, " ")
		if f == "decl" {
			flush()
			cur = &c09State{u: c09decode(arg)}
			cur.pkg, cur.stdErr = c09stdCheck(cur.u)
			inited = map[int]bool{}
			continue
		}
		if cur == nil || cur.stdErr != "" {
			continue
		}
		validT := func(a string) (int, bool) {
			t, err := strconv.Atoi(a)
			return t, err == nil && t >= 0 && t < len(cur.u.Types)
		}
		switch f {
		case "sel":
			ta, name, _ := strings.Cut(arg, " ")
			t, ok := validT(ta)
			if !ok {
				continue
			}
			_, obj := cur.stdSel(t, name)
			if obj == nil {
				continue
			}
			ensure(t)
			_, isM := obj.(*gotypes.Func)
			for k, ex := range cur.selProbes(t, name, isM, c09isPtr(obj)) {
				if ex != "" {
					probe(fmt.Sprintf("%d.%d", idx, k), ex)
				}
			}
		case "impl":
			p := strings.Fields(arg)
			if len(p) != 3 {
				continue
			}
			t, ok1 := validT(p[0])
			i, ok2 := validT(p[2])
			if !ok1 || !ok2 || cur.u.Types[i].Kind != 'i' {
				continue
			}
			T, I := cur.stdType(t), cur.stdType(i)
			if T == nil || I == nil {
				continue
			}
			if p[1] == "1" {
				T = gotypes.NewPointer(T)
			}
			if !gotypes.Implements(T, I.Underlying().(*gotypes.Interface)) {
				continue
			}
			ensure(t)
			probe(fmt.Sprint(idx), cur.implProbe(t, p[1] == "1", i, 0))
		case "tsw":
			fn, val, ok := cur.tswSource(arg)
			if !ok {
				continue
			}
			// duplicate case types do not compile: skip those (generator avoids them)
			if c09dupCases(arg) {
				continue
			}
			if _, d, _, ok := c09tswSplit(arg); ok {
				if t := cur.tswInstance(d); t >= 0 {
					ensure(t)
				}
			}
			probe(fmt.Sprint(idx), "("+fn+")("+val+")")
		}
	}
	flush()
	if len(snippets) == 0 {
		return
	}
	t0 := time.Now()
	outs, err := runGoBatch("C09", snippets)
	if os.Getenv("C09_DEBUG") != "" {
		fmt.Fprintf(os.Stderr, "C09 batch: %d snippets in %v\n", len(snippets), time.Since(t0))
	}
	if err != nil {
		c09batchErr = err.Error()
		c09batch = nil
		return
	}
	for _, o := range outs {
		for _, l := range strings.Split(o, "\n") {
			k, v, ok := strings.Cut(l, " ")
			if ok {
				c09batch[k] = v
			}
		}
	}
}

func c09dupCases(arg string) bool {
	cl, _, _, _ := c09tswSplit(arg)
	seen := map[string]bool{}
	nd := 0
	for _, c := range strings.Split(cl, "/") {
		if c == "d" {
			nd++
			continue
		}
		for _, ty := range strings.Split(c, ",") {
			if seen[ty] {
				return true
			}
			seen[ty] = true
		}
	}
	return nd > 1
}

// ---------- generator ----------

var c09fieldPool = []string{"X", "Y", "Z"}
var c09methodPool = []string{"X", "Y", "M", "P"}
var c09typeNames = []string{"A", "B", "C", "D", "E", "F", "G", "H", "J", "L", "N", "R", "S", "U", "V", "W", "AA", "BB", "CC", "DD"}

// addAny gives every non-interface type a value-receiver method T and appends the interpreted
// interface Any = interface{ T() int } (the tag type of type switches on an interpreted interface).
// Returns the index of Any, or -1 if there is no struct type to implement it.
func (u *c09Univ) addAny() int {
	impl := -1
	for i := range u.Types {
		t := &u.Types[i]
		if t.Kind == 'i' {
			continue
		}
		t.Methods = append(append([]c09Method{}, t.Methods...), c09Method{"T", false})
		if impl < 0 && t.Kind == 's' {
			impl = i
		}
	}
	if impl < 0 {
		return -1
	}
	u.Types = append(u.Types, c09Type{Name: "Any" + u.Suffix, Kind: 'i', Methods: []c09Method{{"T", false}}, Impl: impl})
	return len(u.Types) - 1
}

// chainUniv: every embedding chain of depth 3 over one bottom type A with method M
// (value or pointer receiver): B_e1{A}, C_e1e2{B}, D_e1e2e3{C} for all 8 value/pointer
// combinations, plus interface I{M} with an implementing struct.
func c09chainUniv(ptrRecv bool, suffix string) *c09Univ {
	u := &c09Univ{Suffix: suffix}
	nm := func(i int) string { return c09typeNames[i] + suffix }
	K := c09Field{Name: "K"}
	u.Types = append(u.Types, c09Type{Name: nm(0), Kind: 's', Fields: []c09Field{K}, Methods: []c09Method{{"M", ptrRecv}}})
	prev := []int{0}
	for level := 0; level < 3; level++ {
		var cur []int
		for _, p := range prev {
			for _, ptr := range []bool{false, true} {
				i := len(u.Types)
				u.Types = append(u.Types, c09Type{Name: nm(i), Kind: 's', Fields: []c09Field{K, {Name: nm(p), Emb: true, Ptr: ptr, Typ: p}}})
				cur = append(cur, i)
			}
		}
		prev = cur
	}
	i := len(u.Types)
	u.Types = append(u.Types, c09Type{Name: nm(i), Kind: 's', Fields: []c09Field{K}, Methods: []c09Method{{"M", false}}})
	u.Types = append(u.Types, c09Type{Name: nm(i + 1), Kind: 'i', Methods: []c09Method{{"M", false}}, Impl: i})
	return u
}

func c09genUniv(r *rand.Rand, cyclic bool, suffix string) *c09Univ {
	u := &c09Univ{CycleOK: cyclic, Suffix: suffix}
	n := 3 + r.Intn(5)
	nameOf := func(i int) string { return c09typeNames[i] + suffix }
	for len(u.Types) < n {
		i := len(u.Types)
		k := r.Intn(10)
		switch {
		case k < 1 && i > 0 && !cyclic:
			// interface with 1-2 methods + its implementation (a struct with value receivers)
			var ms []c09Method
			for _, m := range c09methodPool {
				if r.Intn(3) == 0 {
					ms = append(ms, c09Method{m, false})
				}
			}
			if len(ms) == 0 {
				ms = []c09Method{{"M", false}}
			}
			if i+2 > len(c09typeNames) {
				return u
			}
			impl := c09Type{Name: nameOf(i), Kind: 's', Fields: []c09Field{{Name: "K"}}, Methods: append([]c09Method{}, ms...)}
			u.Types = append(u.Types, impl)
			sort.Slice(ms, func(a, b int) bool { return ms[a].Name < ms[b].Name })
			u.Types = append(u.Types, c09Type{Name: nameOf(i + 1), Kind: 'i', Methods: ms, Impl: i})
		case k < 2:
			t := c09Type{Name: nameOf(i), Kind: 'o'}
			for _, m := range c09methodPool {
				if r.Intn(3) == 0 {
					t.Methods = append(t.Methods, c09Method{m, r.Intn(3) == 0})
				}
			}
			if r.Intn(3) == 0 {
				t.Methods = append(t.Methods, c09Method{"String", r.Intn(3) == 0})
			}
			u.Types = append(u.Types, t)
		default:
			t := c09Type{Name: nameOf(i), Kind: 's', Fields: []c09Field{{Name: "K"}}}
			used := map[string]bool{"K": true}
			for _, f := range c09fieldPool {
				if r.Intn(3) == 0 {
					t.Fields = append(t.Fields, c09Field{Name: f})
					used[f] = true
				}
			}
			// embed up to 3 earlier types (any type when cyclic, then only by pointer for j >= i)
			ne := r.Intn(4)
			if i == 0 && !cyclic {
				ne = 0
			}
			for e := 0; e < ne; e++ {
				lim := i
				if cyclic {
					lim = n
				}
				if lim == 0 {
					break
				}
				j := r.Intn(lim)
				if used[nameOf(j)] {
					continue
				}
				used[nameOf(j)] = true
				ptr := r.Intn(3) == 0 || j >= i
				if j < len(u.Types) && u.Types[j].Kind == 'i' {
					ptr = false
				}
				t.Fields = append(t.Fields, c09Field{Name: nameOf(j), Emb: true, Ptr: ptr, Typ: j})
			}
			r.Shuffle(len(t.Fields)-1, func(a, b int) { t.Fields[a+1], t.Fields[b+1] = t.Fields[b+1], t.Fields[a+1] })
			for _, m := range c09methodPool {
				if !used[m] && r.Intn(4) == 0 {
					t.Methods = append(t.Methods, c09Method{m, r.Intn(2) == 0})
				}
			}
			if r.Intn(4) == 0 {
				t.Methods = append(t.Methods, c09Method{"String", r.Intn(3) == 0})
			}
			if r.Intn(8) == 0 {
				t.Methods = append(t.Methods, c09Method{"Error", r.Intn(3) == 0})
			}
			u.Types = append(u.Types, t)
		}
	}
	if cyclic {
		// forward references must be structs (embedded by pointer): make every type a struct
		for i := range u.Types {
			if u.Types[i].Kind != 's' {
				u.Types[i].Kind = 's'
				u.Types[i].Fields = []c09Field{{Name: "K"}}
			}
		}
	}
	return u
}

func c09gen(r *rand.Rand, tier string, emit func(string)) {
	nu, nlook, ncyc := 10, 25, 12
	if tier == "thorough" {
		nu, nlook, ncyc = 400, 600, 300
	}
	names := append(append([]string{"K", "_", "Q"}, c09fieldPool...), "M", "P", "T")
	pick := func(l []string) string { return l[r.Intn(len(l))] }
	// one switch: clauses over `concrete` case codes (several per clause allowed) and `ifaces`
	// (single-type clauses only; with probability 0.6 one of them is forced among the first two
	// clauses, i.e. BEFORE concrete cases), default anywhere
	genSwitch := func(concrete, ifaces []string) []string {
		pool := append([]string{}, concrete...)
		r.Shuffle(len(pool), func(a, b int) { pool[a], pool[b] = pool[b], pool[a] })
		ncl := 2 + r.Intn(4)
		var cls []string
		pi := 0
		for c := 0; c < ncl && pi < len(pool); c++ {
			nt := 1
			if r.Intn(4) == 0 {
				nt = 2 + r.Intn(2)
			}
			var tys []string
			for x := 0; x < nt && pi < len(pool); x++ {
				tys = append(tys, pool[pi])
				pi++
			}
			cls = append(cls, strings.Join(tys, ","))
		}
		if len(ifaces) > 0 {
			ifs := append([]string{}, ifaces...)
			r.Shuffle(len(ifs), func(a, b int) { ifs[a], ifs[b] = ifs[b], ifs[a] })
			n := r.Intn(3)
			if r.Intn(5) < 3 && n == 0 {
				n = 1
			}
			for x := 0; x < n && x < len(ifs); x++ {
				at := r.Intn(len(cls) + 1)
				if x == 0 && r.Intn(5) < 3 {
					at = r.Intn(2)
				}
				cls = append(cls[:at], append([]string{ifs[x]}, cls[at:]...)...)
			}
		}
		if r.Intn(2) == 0 {
			at := r.Intn(len(cls) + 1)
			cls = append(cls[:at], append([]string{"d"}, cls[at:]...)...)
		}
		return cls
	}
	// operands: mostly types that occur as a concrete case
	pickDyn := func(cls []string, dyns []string) string {
		if r.Intn(3) > 0 {
			var in []string
			ok := map[string]bool{}
			for _, d := range dyns {
				ok[d] = true
			}
			for _, c := range cls {
				for _, ty := range strings.Split(c, ",") {
					if ok[ty] {
						in = append(in, ty)
					}
				}
			}
			if len(in) > 0 {
				return pick(in)
			}
		}
		return pick(dyns)
	}
	emitUniv := func(u *c09Univ, full bool) {
		anyIdx := -1
		if full && !u.CycleOK {
			anyIdx = u.addAny()
		}
		emit("decl " + u.encode())
		all := append([]string{}, names...)
		for _, t := range u.Types {
			all = append(all, t.Name)
		}
		for t := range u.Types {
			for _, nm := range all {
				emit(fmt.Sprintf("look %d %s", t, nm))
			}
		}
		// again: now through the caches
		for t := range u.Types {
			for _, nm := range all {
				if r.Intn(3) == 0 {
					emit(fmt.Sprintf("look %d %s", t, nm))
				}
			}
		}
		if u.CycleOK || !full {
			return
		}
		for t := range u.Types {
			for _, nm := range all {
				if strings.HasPrefix(u.Suffix, "c") {
					if nm == "M" && t >= 7 && t < 15 {
						emit(fmt.Sprintf("sel %d %s", t, nm))
					}
					continue
				}
				if nm != "_" && r.Intn(3) == 0 {
					emit(fmt.Sprintf("sel %d %s", t, nm))
				}
			}
		}
		for i, ti := range u.Types {
			if ti.Kind != 'i' || i == anyIdx {
				continue
			}
			for t, tt := range u.Types {
				if tt.Kind == 'i' && t != i {
					continue // interface -> interface: documented limitation
				}
				emit(fmt.Sprintf("impl %d 0 %d", t, i))
				if tt.Kind != 'i' {
					emit(fmt.Sprintf("impl %d 1 %d", t, i))
				}
			}
		}
		// type switches
		var interp, ifaces []string // interpreted concrete codes, interpreted interface codes
		for t, tt := range u.Types {
			if tt.Kind != 'i' {
				interp = append(interp, strconv.Itoa(t), strconv.Itoa(100+t))
			} else {
				ifaces = append(ifaces, strconv.Itoa(t))
			}
		}
		chain := strings.HasPrefix(u.Suffix, "c")
		if chain {
			// method sets through every depth-3 embedding chain, seen by a type switch on an
			// interpreted interface value: `case I` (needs M) before the concrete types
			iI := ifaces[0]
			for t := 1; t < 15; t++ {
				for _, d := range []int{t, 100 + t} {
					emit(fmt.Sprintf("tsw %s/%d/0,100/d @ %d @ %d", iI, d, d, anyIdx))
				}
			}
			return
		}
		// (a) operand of static type interface{}: compiled and interpreted concrete types,
		//     compiled interfaces (interface -> interpreted interface is a documented limitation)
		caseE := append(append([]string{}, interp...), "200", "201", "310", "311", "n")
		dynE := append(append([]string{}, interp...), "200", "201", "310", "311", "312", "n")
		for k := 0; k < 3; k++ {
			cls := genSwitch(caseE, []string{"300", "301"})
			for x := 0; x < 3; x++ {
				emit(fmt.Sprintf("tsw %s @ %s", strings.Join(cls, "/"), pickDyn(cls, dynE)))
			}
		}
		// (b) operand of the interpreted interface type Any: interpreted concrete types,
		//     interpreted and compiled interfaces as cases
		if anyIdx >= 0 {
			caseK := append(append([]string{}, interp...), "n")
			for k := 0; k < 3; k++ {
				cls := genSwitch(caseK, append(append([]string{}, ifaces...), "300", "301"))
				for x := 0; x < 3; x++ {
					d := pickDyn(cls, interp)
					if r.Intn(12) == 0 {
						d = "n"
					}
					emit(fmt.Sprintf("tsw %s @ %s @ %d", strings.Join(cls, "/"), d, anyIdx))
				}
			}
		}
	}
	// regression shapes first (F12 and friends)
	ord := 0
	nextU := func(u *c09Univ) *c09Univ {
		u.Reuse = ord%8 != 0 // a fresh interpreter every 8 universes (fast.New costs ~0.5 s)
		ord++
		return u
	}
	sfx := func() string { return strconv.Itoa(ord) }
	for k, u := range c09fixedUnivs() {
		// fixed shapes get their own suffix
		u.Suffix = fmt.Sprintf("f%d", k)
		for i := range u.Types {
			u.Types[i].Name += u.Suffix
			for j := range u.Types[i].Fields {
				if u.Types[i].Fields[j].Emb {
					fs := append([]c09Field{}, u.Types[i].Fields...)
					fs[j].Name += u.Suffix
					u.Types[i].Fields = fs
				}
			}
		}
		emitUniv(nextU(u), true)
	}
	// every depth-3 value/pointer embedding chain x receiver kind (method sets, C09-2 shape)
	emitUniv(nextU(c09chainUniv(false, "c0")), true)
	emitUniv(nextU(c09chainUniv(true, "c1")), true)
	for i := 0; i < nu; i++ {
		emitUniv(nextU(c09genUniv(r, false, sfx())), true)
	}
	for i := 0; i < nlook; i++ {
		emitUniv(nextU(c09genUniv(r, false, sfx())), false)
	}
	for i := 0; i < ncyc; i++ {
		emitUniv(nextU(c09genUniv(r, true, sfx())), false)
	}
	// malformed stream
	emit("decl T=s;0; B= N=Azz I= S=zz")
	for _, op := range []string{"look 7 X", "look x X", "sel 9 X", "impl 0 0 0", "tsw 5 @ 9", "tsw", "frob", "look 0 _", "look 0 "} {
		emit(op)
	}
}

func c09fixedUnivs() []*c09Univ {
	K := c09Field{Name: "K"}
	X := c09Field{Name: "X"}
	emb := func(n string, t int, p bool) c09Field { return c09Field{Name: n, Emb: true, Ptr: p, Typ: t} }
	return []*c09Univ{
		// F12: two ambiguous promoted fields X at depth 1, method X declared on C itself
		{Types: []c09Type{
			{Name: "A", Kind: 's', Fields: []c09Field{K, X}},
			{Name: "B", Kind: 's', Fields: []c09Field{K, X}},
			{Name: "C", Kind: 's', Fields: []c09Field{K, emb("A", 0, false), emb("B", 1, false)}, Methods: []c09Method{{"X", false}}},
			{Name: "D", Kind: 's', Fields: []c09Field{K, emb("C", 2, true)}},
		}},
		// ambiguous fields at depth 2, method promoted from depth 1
		{Types: []c09Type{
			{Name: "A", Kind: 's', Fields: []c09Field{K, X}},
			{Name: "B", Kind: 's', Fields: []c09Field{K, X}},
			{Name: "C", Kind: 's', Fields: []c09Field{K, emb("A", 0, false), emb("B", 1, true)}},
			{Name: "D", Kind: 's', Fields: []c09Field{K}, Methods: []c09Method{{"X", true}}},
			{Name: "E", Kind: 's', Fields: []c09Field{K, emb("C", 2, false), emb("D", 3, false)}},
		}},
		// self-referencing through a pointer
		{CycleOK: true, Types: []c09Type{
			{Name: "A", Kind: 's', Fields: []c09Field{K, emb("A", 0, true)}, Methods: []c09Method{{"M", true}}},
			{Name: "B", Kind: 's', Fields: []c09Field{emb("A", 0, false), K}},
		}},
	}
}

func init() {
	register(&Prop{
		ID:         "C09",
		Rule:       "random embedding graphs of 3-7 named types (structs with fields K/X/Y/Z and value/pointer embedded earlier types, named ints, interfaces + implementing struct; methods X/Y/M/P with value/pointer receivers; same name at several depths and in siblings; a second family with pointer cycles) declared in the real fast interpreter; every (type, name) is looked up raw (twice: cold and cached), ~half are evaluated as selectors on an instance whose every field holds a unique value, every (type, *type) x interface pair is tested for satisfaction + dynamic dispatch, 18 type switches per universe. Non-trivial: lookups that find something, all sel/impl/tsw ops; distinct by universe+op.",
		Gen:        c09gen,
		Exec:       c09execSig,
		Prepare:    c09prepare,
		Exhaustive: func(tier string) bool { return false },
	})
}

var c09declSig string

func c09execSig(op string) Result {
	if os.Getenv("C09_GENONLY") != "" { // debugging aid: only write ops.txt
		return Result{Out: "-"}
	}
	if strings.HasPrefix(op, "decl ") {
		c09declSig = op
	}
	r := c09exec(op)
	if c09batchErr != "" && r.Viol == "" && strings.HasPrefix(op, "decl ") {
		r.Viol, r.Key = "compiled-Go oracle batch failed: "+truncate(c09batchErr, 1500), "oracle-batch-failed"
		c09batchErr = ""
	}
	r.Sig = c09declSig + "|" + op
	if r.Viol != "" && os.Getenv("C09_DEBUG") != "" {
		if f, err := os.OpenFile(os.Getenv("C09_DEBUG"), os.O_APPEND|os.O_CREATE|os.O_WRONLY, 0o644); err == nil {
			fmt.Fprintf(f, "%s\t%s\t%s\n", r.Key, op, r.Viol)
			f.Close()
		}
	}
	return r
}
