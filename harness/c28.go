package main

// C28: type identity (typeutil.Identical), type hash (typeutil.Hasher) and type map (typeutil.Map).
//
// Types travel as text (grammar below); Exec builds them through the fork's go/types API
// (NewStruct, NewSignature, NewInterface + Complete, NewNamed ...), every occurrence a fresh
// object unless prefixed with '~' (shared object -> pointer shortcuts / Hasher memo hits).
//
//	T ::= b<kind>['] | A<len>(T) | S(T) | P(T) | M(T,T) | C<dir>(T) | N<id> | Z
//	    | T(f;f..)   f ::= name:pkg:anon:tag:T
//	    | U[T,..]    (tuple)
//	    | F<v>(R[T,..][T,..])    R ::= - | =T
//	    | I(m;m..|e;e..)   m ::= name:pkg:v:R'[T,..][T,..]   R' ::= @ | =T     e ::= <id>=I(..)
//	pkg ::= p | q | r (a second *Package with path "p") | - (nil)
//
// Oracles (the property, on the real code): Identical returns without panic, is reflexive,
// symmetric (both orders of every pair), transitive (triples); Identical(x,y) => Hash(x)==Hash(y);
// Map behaves as an association list scanned linearly with Identical.

import (
	"fmt"
	"go/token"
	"math/rand"
	"os"
	"reflect"
	"sort"
	"strconv"
	"strings"

	"github.com/cosmos72/gomacro/go/types"
	"github.com/cosmos72/gomacro/go/typeutil"
)

// ---------------------------------------------------------------- fixed named universe

var c28pkgP = types.NewPackage("p", "p")
var c28pkgQ = types.NewPackage("q", "q")
var c28pkgR = types.NewPackage("p", "p") // different object, same path

// named types: ids 0..3 plain, ids 4..8 interfaces (definitions in the op grammar)
var c28namedDef = map[int]string{
	4: "I(|)",
	5: "I(M:p:0:@[][]|)",
	6: "I(n:p:0:@[][]|)",
	7: "I(K:p:0:@[][]|4=I(|))",
	8: "I(M:p:0:@[][]|)",
}
var c28named = map[int]*types.Named{}

const c28maxNamed = 10

func c28getNamed(id int) *types.Named {
	if n := c28named[id]; n != nil {
		return n
	}
	obj := types.NewTypeName(token.NoPos, c28pkgP, "N"+strconv.Itoa(id), nil)
	var under types.Type
	if def, ok := c28namedDef[id]; ok {
		p := &c28parser{s: def}
		under = p.typ()
	} else {
		switch id % 3 {
		case 0:
			under = types.Typ[types.Int]
		case 1:
			under = types.NewStruct(nil, nil)
		default:
			under = types.NewPointer(types.Typ[types.Int])
		}
	}
	n := types.NewNamed(obj, under, nil)
	c28named[id] = n
	return n
}

func c28hashNamed(id int) uint32 {
	n := uint64(reflect.ValueOf(c28getNamed(id).Obj()).Pointer())
	return uint32(n ^ n>>32)
}

// side channel for the Lean driver: the pointer-derived hashes of the type names of this process
func c28writeNH() {
	var sb strings.Builder
	for i := 0; i < c28maxNamed; i++ {
		fmt.Fprintf(&sb, "%d ", c28hashNamed(i))
	}
	os.WriteFile(workDir("C28-side")+"/nh.txt", []byte(strings.TrimSpace(sb.String())+"\n"), 0o644)
}

// ---------------------------------------------------------------- parser text -> real types

type c28parser struct {
	s string
	i int
}

func (p *c28parser) peek() byte {
	if p.i < len(p.s) {
		return p.s[p.i]
	}
	return 0
}
func (p *c28parser) eat(c byte) {
	if p.peek() != c {
		panic(fmt.Sprintf("c28 parse: want %q at %d in %q", c, p.i, p.s))
	}
	p.i++
}
func (p *c28parser) num() int {
	j := p.i
	for p.i < len(p.s) && p.s[p.i] >= '0' && p.s[p.i] <= '9' {
		p.i++
	}
	n, err := strconv.Atoi(p.s[j:p.i])
	if err != nil {
		panic("c28 parse: number expected in " + p.s)
	}
	return n
}
func (p *c28parser) word() string {
	j := p.i
	for p.i < len(p.s) {
		c := p.s[p.i]
		if c == '_' || c >= 'a' && c <= 'z' || c >= 'A' && c <= 'Z' {
			p.i++
		} else {
			break
		}
	}
	return p.s[j:p.i]
}
func (p *c28parser) pkg() *types.Package {
	c := p.peek()
	p.i++
	switch c {
	case 'p':
		return c28pkgP
	case 'q':
		return c28pkgQ
	case 'r':
		return c28pkgR
	case '-':
		return nil
	}
	panic("c28 parse: bad pkg in " + p.s)
}
func (p *c28parser) list() []types.Type {
	p.eat('[')
	var l []types.Type
	for p.peek() != ']' {
		if len(l) > 0 {
			p.eat(',')
		}
		l = append(l, p.typ())
	}
	p.eat(']')
	return l
}
func c28tuple(l []types.Type) *types.Tuple {
	vars := make([]*types.Var, len(l))
	for i, t := range l {
		vars[i] = types.NewVar(token.NoPos, nil, "", t)
	}
	return types.NewTuple(vars...)
}

var c28shared = map[string]types.Type{}

func (p *c28parser) typ() types.Type {
	if p.peek() == '~' {
		p.i++
		j := p.i
		t := p.typ1()
		txt := p.s[j:p.i]
		if s, ok := c28shared[txt]; ok {
			return s
		}
		c28shared[txt] = t
		return t
	}
	return p.typ1()
}

func (p *c28parser) typ1() types.Type {
	c := p.peek()
	p.i++
	switch c {
	case 'b':
		k := p.num()
		if p.peek() == '\'' {
			p.i++
			switch types.BasicKind(k) {
			case types.Uint8:
				return types.Universe.Lookup("byte").Type()
			case types.Int32:
				return types.Universe.Lookup("rune").Type()
			}
			panic("c28: no alias for kind")
		}
		return types.Typ[k]
	case 'A':
		n := p.num()
		p.eat('(')
		e := p.typ()
		p.eat(')')
		return types.NewArray(e, int64(n))
	case 'S', 'P':
		p.eat('(')
		e := p.typ()
		p.eat(')')
		if c == 'S' {
			return types.NewSlice(e)
		}
		return types.NewPointer(e)
	case 'M':
		p.eat('(')
		k := p.typ()
		p.eat(',')
		e := p.typ()
		p.eat(')')
		return types.NewMap(k, e)
	case 'C':
		d := p.num()
		p.eat('(')
		e := p.typ()
		p.eat(')')
		return types.NewChan(types.ChanDir(d), e)
	case 'N':
		return c28getNamed(p.num())
	case 'Z':
		return nil
	case 'U':
		return c28tuple(p.list())
	case 'T':
		p.eat('(')
		var fields []*types.Var
		var tags []string
		anyTag := false
		for p.peek() != ')' {
			if len(fields) > 0 {
				p.eat(';')
			}
			name := p.word()
			p.eat(':')
			pk := p.pkg()
			p.eat(':')
			anon := p.num() == 1
			p.eat(':')
			tag := p.word()
			p.eat(':')
			t := p.typ()
			fields = append(fields, types.NewField(token.NoPos, pk, name, t, anon))
			tags = append(tags, tag)
			anyTag = anyTag || tag != ""
		}
		p.eat(')')
		if !anyTag {
			tags = nil
		} else {
			// NewStruct: "len(tags) may be only as long as required to hold the tag with the largest index"
			for len(tags) > 0 && tags[len(tags)-1] == "" {
				tags = tags[:len(tags)-1]
			}
		}
		return types.NewStruct(fields, tags)
	case 'F':
		v := p.num() == 1
		p.eat('(')
		var recv *types.Var
		if p.peek() == '-' {
			p.i++
		} else {
			p.eat('=')
			recv = types.NewVar(token.NoPos, nil, "", p.typ())
		}
		ps := p.list()
		rs := p.list()
		p.eat(')')
		return types.NewSignature(recv, c28tuple(ps), c28tuple(rs), v)
	case 'I':
		p.eat('(')
		var ms []*types.Func
		for p.peek() != '|' {
			if len(ms) > 0 {
				p.eat(';')
			}
			name := p.word()
			p.eat(':')
			pk := p.pkg()
			p.eat(':')
			v := p.num() == 1
			p.eat(':')
			var recv *types.Var
			if p.peek() == '@' {
				p.i++
			} else {
				p.eat('=')
				recv = types.NewVar(token.NoPos, pk, "", p.typ())
			}
			ps := p.list()
			rs := p.list()
			ms = append(ms, types.NewFunc(token.NoPos, pk, name, types.NewSignature(recv, c28tuple(ps), c28tuple(rs), v)))
		}
		p.eat('|')
		var embs []*types.Named
		for p.peek() != ')' {
			if len(embs) > 0 {
				p.eat(';')
			}
			id := p.num()
			p.eat('=')
			j := p.i
			(&c28parser{s: p.s, i: p.i}).skipTo(&p.i)
			if p.s[j:p.i] != c28namedDef[id] {
				panic(fmt.Sprintf("c28: embedded N%d defined as %q, table says %q", id, p.s[j:p.i], c28namedDef[id]))
			}
			embs = append(embs, c28getNamed(id))
		}
		p.eat(')')
		return types.NewInterface(ms, embs).Complete()
	}
	panic(fmt.Sprintf("c28 parse: bad type char %q at %d in %q", c, p.i-1, p.s))
}

// skipTo advances *end over one balanced type text starting at p.i (no objects are built)
func (p *c28parser) skipTo(end *int) {
	depth := 0
	for p.i < len(p.s) {
		c := p.s[p.i]
		switch c {
		case '(', '[':
			depth++
		case ')', ']':
			if depth == 0 {
				*end = p.i
				return
			}
			depth--
			if depth == 0 && c == ')' {
				p.i++
				*end = p.i
				return
			}
		case ';', ',', '|':
			if depth == 0 {
				*end = p.i
				return
			}
		}
		p.i++
	}
	*end = p.i
}

func c28parse(s string) types.Type {
	p := &c28parser{s: s}
	t := p.typ()
	if p.i != len(s) {
		panic("c28 parse: trailing text in " + s)
	}
	return t
}

// ---------------------------------------------------------------- running the real code

// c28ident calls typeutil.Identical and reports "true"/"false"/"panic"
func c28ident(x, y types.Type, tags bool) (res string) {
	defer func() {
		if e := recover(); e != nil {
			res = "panic"
		}
	}()
	if tags {
		return strconv.FormatBool(typeutil.Identical(x, y))
	}
	return strconv.FormatBool(typeutil.IdenticalIgnoreTags(x, y))
}

var c28hasher = typeutil.MakeHasher()

func c28hash(t types.Type) (h uint32, res string) {
	defer func() {
		if e := recover(); e != nil {
			res = "panic"
		}
	}()
	h = c28hasher.Hash(t)
	return h, strconv.FormatUint(uint64(h), 10)
}

// key of a law violation on a pair: derived from the shape of the inputs
func c28pairKey(sym string, x, y types.Type) string {
	xi, ok1 := x.(*types.Interface)
	yi, ok2 := y.(*types.Interface)
	if ok1 && ok2 && xi.NumEmbeddeds() != yi.NumEmbeddeds() {
		return "iface-numembeddeds-mismatch"
	}
	return sym
}

type c28entry struct {
	key types.Type
	val int
}

var c28map *typeutil.Map
var c28alist []c28entry

// after the first violation of a history the association list and the map may differ for good:
// later ops of the same history are executed but not judged (no cascade of secondary reports)
var c28diverged bool

func c28find(k types.Type) int {
	for i, e := range c28alist {
		if typeutil.Identical(k, e.key) {
			return i
		}
	}
	return -1
}

// c28state compares the whole map with the association list (same key objects, same values)
func c28state() string {
	n := 0
	bad := ""
	c28map.Iterate(func(k types.Type, v interface{}) {
		n++
		ok := false
		for _, e := range c28alist {
			if e.key == k && e.val == v.(int) {
				ok = true
			}
		}
		if !ok {
			bad = fmt.Sprintf("the map holds (%v, %v), the association list does not", k, v)
		}
	})
	if bad == "" && n != len(c28alist) {
		bad = fmt.Sprintf("the map holds %d entries, the association list %d", n, len(c28alist))
	}
	if bad == "" && c28map.Len() != n {
		bad = fmt.Sprintf("Len()=%d but Iterate visits %d entries", c28map.Len(), n)
	}
	return bad
}

func c28val(v interface{}) string {
	if v == nil {
		return "nil"
	}
	return strconv.Itoa(v.(int))
}

func c28kind(t types.Type) string {
	if t == nil {
		return "nil"
	}
	s := fmt.Sprintf("%T", t)
	return strings.ToLower(s[strings.LastIndex(s, ".")+1:])
}

func c28exec(op string) (r Result) {
	f := strings.Split(op, " ")
	defer func() {
		if strings.HasPrefix(f[0], "m") {
			if c28diverged && r.Viol != "" {
				r.Viol, r.Key = "", ""
				r.Tags = append(r.Tags, "diverged")
			} else if r.Viol != "" {
				c28diverged = true
			}
		}
	}()
	defer func() {
		if e := recover(); e != nil {
			msg := fmt.Sprint(e)
			if strings.HasPrefix(msg, "c28") {
				panic(e) // harness problem, not a finding
			}
			r = Result{Out: "panic", Viol: "operation panicked: " + oneLine(msg), Key: "panic-" + f[0], Tags: []string{"panic"}}
		}
	}()
	switch f[0] {
	case "id":
		x, y := c28parse(f[1]), c28parse(f[2])
		xy, yx := c28ident(x, y, true), c28ident(y, x, true)
		txy := c28ident(x, y, false)
		hx, shx := c28hash(x)
		hy, shy := c28hash(y)
		r = Result{Out: xy + " " + yx + " " + txy + " " + shx + " " + shy, Nontrivial: true,
			Tags: []string{"id-" + xy, "x-" + c28kind(x)}}
		if c28kind(x) == c28kind(y) {
			r.Tags = append(r.Tags, "same-kind-"+xy)
		}
		switch {
		case xy == "panic" || yx == "panic" || txy == "panic":
			r.Viol, r.Key = fmt.Sprintf("Identical(x,y)=%s Identical(y,x)=%s IdenticalIgnoreTags(x,y)=%s", xy, yx, txy), c28pairKey("ident-panic", x, y)
		case shx == "panic" || shy == "panic":
			r.Viol, r.Key = "Hasher.Hash panicked", "hash-panic"
		case xy != yx:
			r.Viol, r.Key = fmt.Sprintf("not symmetric: Identical(x,y)=%s Identical(y,x)=%s", xy, yx), c28pairKey("ident-asym", x, y)
		case f[1] == f[2] && xy != "true":
			r.Viol, r.Key = "not reflexive: two copies of the same type are not identical", "ident-not-refl"
		case xy == "true" && hx != hy:
			r.Viol, r.Key = fmt.Sprintf("Identical(x,y) but Hash(x)=%d Hash(y)=%d", hx, hy), c28pairKey("hash-inconsistent", x, y)
		case xy == "true" && txy != "true":
			r.Viol, r.Key = "Identical but not IdenticalIgnoreTags", "ignoretags-finer"
		}
		if fh := typeutil.MakeHasher().Hash(x); r.Viol == "" && fh != hx {
			r.Viol, r.Key = fmt.Sprintf("shared Hasher says %d, fresh Hasher says %d", hx, fh), "hash-memo"
		}
		if same := c28ident(x, x, true); r.Viol == "" && same != "true" {
			r.Viol, r.Key = "Identical(x,x)="+same, "ident-not-refl"
		}
		return r
	case "tr":
		x, y, z := c28parse(f[1]), c28parse(f[2]), c28parse(f[3])
		xy, yz, xz := c28ident(x, y, true), c28ident(y, z, true), c28ident(x, z, true)
		r = Result{Out: xy + " " + yz + " " + xz, Nontrivial: xy == "true" && yz == "true", Tags: []string{"tr-" + xy + "-" + yz}}
		if xy == "panic" || yz == "panic" || xz == "panic" {
			r.Viol, r.Key = "Identical panicked: "+r.Out, "ident-panic"
			for _, pr := range [][2]types.Type{{x, y}, {y, z}, {x, z}} {
				if k := c28pairKey("", pr[0], pr[1]); k != "" {
					r.Key = k
				}
			}
		} else if xy == "true" && yz == "true" && xz != "true" {
			r.Viol, r.Key = "not transitive: x~y, y~z but not x~z", "ident-not-trans"
			for _, pr := range [][2]types.Type{{x, y}, {y, z}, {x, z}} {
				if k := c28pairKey("", pr[0], pr[1]); k != "" {
					r.Key = k
				}
			}
		}
		return r
	case "reset":
		c28map = new(typeutil.Map)
		if len(f) > 1 && f[1] == "nil" {
			c28map = nil // a nil *Map is a valid read-only empty map
		}
		c28alist = nil
		c28diverged = false
		return Result{Out: "ok", Tags: []string{"reset"}}
	case "mset":
		k := c28parse(f[1])
		v, _ := strconv.Atoi(f[2])
		prev := c28map.Set(k, v)
		r = Result{Out: c28val(prev), Nontrivial: true, Tags: []string{"mset"}}
		want := "nil"
		if i := c28find(k); i >= 0 {
			want = strconv.Itoa(c28alist[i].val)
			c28alist[i].val = v
			r.Tags = append(r.Tags, "mset-replace")
		} else {
			c28alist = append(c28alist, c28entry{k, v})
		}
		if r.Out != want {
			r.Viol, r.Key = fmt.Sprintf("Set returned previous value %s, association list says %s", r.Out, want), "map-set"
		} else if bad := c28state(); bad != "" {
			r.Viol, r.Key = "after Set: "+bad, "map-set-state"
		}
		return r
	case "mat":
		k := c28parse(f[1])
		r = Result{Out: c28val(c28map.At(k)), Nontrivial: len(c28alist) > 0, Tags: []string{"mat"}}
		want := "nil"
		if i := c28find(k); i >= 0 {
			want = strconv.Itoa(c28alist[i].val)
			r.Tags = append(r.Tags, "mat-hit")
		}
		if r.Out != want {
			r.Viol, r.Key = fmt.Sprintf("At returned %s, association list (%d entries) says %s", r.Out, len(c28alist), want), "map-at"
		}
		return r
	case "mdel":
		k := c28parse(f[1])
		r = Result{Out: strconv.FormatBool(c28map.Delete(k)), Nontrivial: len(c28alist) > 0, Tags: []string{"mdel"}}
		want := "false"
		before := c28alist
		if i := c28find(k); i >= 0 {
			want = "true"
			c28alist = append(c28alist[:i:i], c28alist[i+1:]...)
			r.Tags = append(r.Tags, "mdel-hit")
		}
		if bad := c28state(); r.Out != want || bad != "" {
			r.Viol, r.Key = fmt.Sprintf("Delete returned %s, association list says %s; %s", r.Out, want, bad), "map-delete"
			// diagnosis: did Delete remove an entry that only types.Identical (not typeutil.Identical) relates to k?
			held := map[types.Type]bool{}
			c28map.Iterate(func(kk types.Type, _ interface{}) { held[kk] = true })
			for _, e := range before {
				if !held[e.key] && types.Identical(k, e.key) && !typeutil.Identical(k, e.key) {
					r.Viol += "; Delete removed an entry whose key is types.Identical but not typeutil.Identical to the argument"
					r.Key = "map-delete-types-identical"
					break
				}
			}
		}
		return r
	case "mlen":
		r = Result{Out: strconv.Itoa(c28map.Len()), Tags: []string{"mlen"}}
		if c28map.Len() != len(c28alist) {
			r.Viol, r.Key = fmt.Sprintf("Len()=%d, association list has %d entries", c28map.Len(), len(c28alist)), "map-len"
		}
		return r
	case "miter":
		var got []int
		bad := ""
		c28map.Iterate(func(k types.Type, v interface{}) {
			got = append(got, v.(int))
			if i := c28find(k); i < 0 || c28alist[i].val != v.(int) {
				bad = fmt.Sprintf("Iterate yields (%v, %v) which is not in the association list", k, v)
			}
		})
		sort.Ints(got)
		var want []int
		for _, e := range c28alist {
			want = append(want, e.val)
		}
		sort.Ints(want)
		r = Result{Out: strings.Trim(strings.ReplaceAll(fmt.Sprint(got), " ", ","), "[]"), Nontrivial: len(got) > 1, Tags: []string{"miter"}}
		if r.Out == "" {
			r.Out = "-"
		}
		if bad == "" && fmt.Sprint(got) != fmt.Sprint(want) {
			bad = fmt.Sprintf("Iterate yields values %v, association list has %v", got, want)
		}
		if bad == "" && len(c28map.Keys()) != len(c28alist) {
			bad = "Keys() has the wrong length"
		}
		if bad != "" {
			r.Viol, r.Key = bad, "map-iterate"
		}
		return r
	case "cyc":
		return c28cyclic()
	}
	return Result{Out: "bad-op"}
}

// cyclic interface types (outside the tree model): the laws are checked on the real code only.
func c28cyclic() Result {
	mk := func(name string) (outer, inner *types.Interface, named *types.Named) {
		// type T interface { m() interface{T} }
		obj := types.NewTypeName(token.NoPos, c28pkgP, name, nil)
		named = types.NewNamed(obj, types.NewStruct(nil, nil), nil)
		inner = types.NewInterface(nil, []*types.Named{named})
		m := types.NewFunc(token.NoPos, c28pkgP, "m", types.NewSignature(nil, nil, c28tuple([]types.Type{inner}), false))
		outer = types.NewInterface([]*types.Func{m}, nil)
		named.SetUnderlying(outer)
		outer.Complete()
		inner.Complete()
		return
	}
	o1, i1, n1 := mk("T")
	o2, i2, n2 := mk("T")
	// an anonymous interface whose method has an explicit receiver of another anonymous interface type
	i3 := types.NewInterface([]*types.Func{types.NewFunc(token.NoPos, c28pkgP, "m", types.NewSignature(nil, nil, nil, false))}, nil).Complete()
	i4 := types.NewInterface([]*types.Func{types.NewFunc(token.NoPos, c28pkgP, "m",
		types.NewSignature(types.NewVar(token.NoPos, c28pkgP, "", i3), nil, nil, false))}, nil).Complete()
	i5 := types.NewInterface([]*types.Func{types.NewFunc(token.NoPos, c28pkgP, "m", types.NewSignature(nil, nil, nil, false))}, nil).Complete()
	fam := []types.Type{o1, o2, i1, i2, n1, n2, i3, i4, i5, types.NewPointer(o1), types.NewPointer(o2), types.NewSlice(i4), types.NewSlice(i5)}
	r := Result{Out: "ok", Tags: []string{"cyc"}, Nontrivial: true}
	n := len(fam)
	rel := make([][]string, n)
	for a := range fam {
		rel[a] = make([]string, n)
		for b := range fam {
			rel[a][b] = c28ident(fam[a], fam[b], true)
		}
	}
	for a := range fam {
		for b := range fam {
			ha, _ := c28hash(fam[a])
			hb, _ := c28hash(fam[b])
			switch {
			case rel[a][b] == "panic":
				r.Viol, r.Key = fmt.Sprintf("Identical panics on cyclic family members %d,%d", a, b), "cyclic-panic"
			case a == b && rel[a][b] != "true":
				r.Viol, r.Key = "cyclic type not identical to itself", "cyclic-not-refl"
			case rel[a][b] != rel[b][a]:
				r.Viol, r.Key = fmt.Sprintf("cyclic family members %d,%d: %s one way, %s the other", a, b, rel[a][b], rel[b][a]), "cyclic-asym"
			case rel[a][b] == "true" && ha != hb:
				r.Viol, r.Key = fmt.Sprintf("cyclic family members %d,%d identical but hashes differ", a, b), "cyclic-hash"
			}
			for c := range fam {
				if rel[a][b] == "true" && rel[b][c] == "true" && rel[a][c] != "true" {
					r.Viol, r.Key = fmt.Sprintf("cyclic family members %d,%d,%d not transitive", a, b, c), "cyclic-not-trans"
				}
			}
		}
	}
	return r
}

// ---------------------------------------------------------------- generator

func c28universe(tier string) (d1, d2 []string) {
	leaves := []string{"b2", "b17", "b8", "b8'", "N0", "N1"}
	few := []string{"b2", "b17", "N0", "b8'"}
	d1 = append(d1, leaves...)
	d1 = append(d1, "Z", "N5", "b5", "b5'")
	for _, x := range few {
		d1 = append(d1, "A1("+x+")", "A2("+x+")", "S("+x+")", "P("+x+")", "C0("+x+")", "C1("+x+")", "C2("+x+")")
	}
	for _, k := range []string{"b2", "N0", "b8"} {
		for _, e := range []string{"b2", "N0", "b8'"} {
			d1 = append(d1, "M("+k+","+e+")")
		}
	}
	// structs
	fields := []string{"a:p:0::b2", "a:q:0::b2", "a:r:0::b2", "a:-:0::b2", "B:p:0::b2", "B:q:0::b2", "B:-:0::b2", "a:p:1::b2",
		"a:p:0:t:b2", "a:p:0:u:b2", "a:p:0::N0", "B:p:0::b17", "_:p:0::b2", "c:p:0::b2"}
	d1 = append(d1, "T()")
	for _, f := range fields {
		d1 = append(d1, "T("+f+")")
	}
	fa := []string{"a:p:0::b2", "a:q:0::b2", "a:p:0::N0", "a:p:0:t:b2"}
	fb := []string{"B:p:0::b2", "B:q:0::b2", "B:p:0::b17", "B:p:0:t:b2"}
	for _, f := range fa {
		for _, g := range fb {
			d1 = append(d1, "T("+f+";"+g+")", "T("+g+";"+f+")")
		}
	}
	// signatures and tuples
	for _, recv := range []string{"-", "=b2", "=N0", "=P(N0)"} {
		for _, ps := range []string{"[]", "[b2]", "[b2,b17]", "[S(b2)]"} {
			for _, rs := range []string{"[]", "[b2]"} {
				d1 = append(d1, "F0("+recv+ps+rs+")")
			}
		}
	}
	for _, recv := range []string{"-", "=N0"} {
		for _, ps := range []string{"[S(b2)]", "[b2,S(b2)]"} {
			for _, rs := range []string{"[]", "[b2]"} {
				d1 = append(d1, "F1("+recv+ps+rs+")")
			}
		}
	}
	d1 = append(d1, "U[]", "U[b2]", "U[b2,b17]", "U[b17,b2]", "U[N0]")
	// interfaces: explicit method sets x embedded sets (names must stay unique in the method set)
	type mset struct {
		txt   string
		names string
	}
	m := map[string]string{
		"m1": "M:p:0:@[][]", "m2": "M:q:0:@[][]", "m3": "M:p:0:@[b2][]", "m4": "M:p:0:@[][b2]", "m5": "n:p:0:@[][]",
		"m6": "n:q:0:@[][]", "m7": "M:p:1:@[S(b2)][]", "m8": "M:p:0:@[S(b2)][]", "m9": "M:p:0:=N0[][]", "m10": "K:p:0:@[][]",
		"m11": "n:r:0:@[][]", "m12": "n:-:0:@[][]", "m13": "K:p:0:=P(N0)[][]",
	}
	expl := []mset{{"", ""}, {m["m1"], "M"}, {m["m2"], "M"}, {m["m3"], "M"}, {m["m4"], "M"}, {m["m5"], "n"}, {m["m6"], "n"},
		{m["m7"], "M"}, {m["m8"], "M"}, {m["m9"], "M"}, {m["m10"], "K"}, {m["m11"], "n"}, {m["m12"], "n"}, {m["m13"], "K"},
		{m["m1"] + ";" + m["m5"], "Mn"}, {m["m5"] + ";" + m["m1"], "Mn"}, {m["m2"] + ";" + m["m6"], "Mn"}, {m["m10"] + ";" + m["m5"], "Kn"}}
	type eset struct {
		ids   []int
		names string
	}
	embs := []eset{{nil, ""}, {[]int{4}, ""}, {[]int{5}, "M"}, {[]int{6}, "n"}, {[]int{8}, "M"}, {[]int{4, 5}, "M"}, {[]int{5, 4}, "M"},
		{[]int{4, 6}, "n"}, {[]int{5, 6}, "Mn"}, {[]int{6, 8}, "Mn"}, {[]int{7}, "K"}, {[]int{4, 7}, "K"}}
	for _, e := range expl {
		for _, b := range embs {
			if strings.ContainsAny(e.names, b.names) && b.names != "" && e.names != "" {
				continue
			}
			var es []string
			for _, id := range b.ids {
				es = append(es, strconv.Itoa(id)+"="+c28namedDef[id])
			}
			d1 = append(d1, "I("+e.txt+"|"+strings.Join(es, ";")+")")
		}
	}
	// depth 2: unary constructors and containers over depth 1
	for _, x := range d1 {
		d2 = append(d2, "S("+x+")", "P("+x+")", "A1("+x+")", "C2("+x+")", "M(b2,"+x+")", "T(a:p:0::"+x+")", "F0(-["+x+"][])", "F0(="+x+"[][])",
			"I(M:p:0:@["+x+"][]|)", "I(K:p:0:@[]["+x+"]|5="+c28namedDef[5]+")")
	}
	return
}

func c28gen(r *rand.Rand, tier string, emit func(string)) {
	d1, d2 := c28universe(tier)
	emit("cyc")
	// (1) all ordered pairs (one op covers both orders) over the depth-1 universe
	for i := range d1 {
		for j := i; j < len(d1); j++ {
			emit("id " + d1[i] + " " + d1[j])
		}
	}
	// (2) depth 2: quick = all pairs over a seeded sample, thorough = all pairs
	u2 := d2
	n2 := 160
	if tier == "thorough" {
		n2 = 700
	}
	if len(u2) > n2 {
		idx := r.Perm(len(u2))[:n2]
		sort.Ints(idx)
		var s []string
		for _, i := range idx {
			s = append(s, u2[i])
		}
		u2 = s
	}
	for i := range u2 {
		for j := i; j < len(u2); j++ {
			emit("id " + u2[i] + " " + u2[j])
		}
	}
	// shared objects (pointer shortcuts, memo hits)
	for i := 0; i < 300; i++ {
		a, b := d1[r.Intn(len(d1))], d1[r.Intn(len(d1))]
		if r.Intn(2) == 0 {
			b = a
		}
		emit("id ~" + a + " ~" + b)
	}
	// (3) transitivity: triples inside classes of equal hash (where x~y, y~z can happen) + random triples
	all := append(append([]string{}, d1...), u2...)
	byHash := map[uint32][]string{}
	hs := typeutil.MakeHasher()
	var order []uint32
	for _, s := range all {
		h := uint32(0)
		func() {
			defer func() { recover() }()
			h = hs.Hash(c28parse(s))
		}()
		if len(byHash[h]) == 0 {
			order = append(order, h)
		}
		byHash[h] = append(byHash[h], s)
	}
	ntr := 0
	maxtr := 8000
	if tier == "thorough" {
		maxtr = 100000
	}
	for _, h := range order {
		c := byHash[h]
		if len(c) < 2 {
			continue
		}
		for _, x := range c {
			for _, y := range c {
				for _, z := range c {
					if ntr < maxtr && (len(c) <= 6 || r.Intn(len(c)*len(c)/30+1) == 0) {
						emit("tr " + x + " " + y + " " + z)
						ntr++
					}
				}
			}
		}
	}
	// triples over all interfaces (the arm with two loops and two guards)
	var ifs []string
	for _, s := range d1 {
		if strings.HasPrefix(s, "I(") {
			ifs = append(ifs, s)
		}
	}
	nif := 10000
	if tier == "thorough" {
		nif = 150000
	}
	for i := 0; i < nif; i++ {
		emit("tr " + ifs[r.Intn(len(ifs))] + " " + ifs[r.Intn(len(ifs))] + " " + ifs[r.Intn(len(ifs))])
	}
	for i := 0; i < 3000; i++ {
		emit("tr " + all[r.Intn(len(all))] + " " + all[r.Intn(len(all))] + " " + all[r.Intn(len(all))])
	}
	// (4) map histories: keys from pools rich in identical-but-distinct and same-hash-but-different types
	pools := [][]string{
		{"b8", "b8'", "T(B:p:0::b2)", "T(B:q:0::b2)", "T(a:p:0::b2)", "T(a:q:0::b2)", "T(a:r:0::b2)", "T(a:-:0::b2)",
			"I(n:p:0:@[][]|)", "I(n:q:0:@[][]|)", "I(n:r:0:@[][]|)", "I(M:p:0:@[][]|)", "I(M:q:0:@[][]|)", "I(M:p:0:=N0[][]|)",
			"I(K:p:0:@[][]|)", "I(K:p:0:@[][]|4=I(|))", "I(K:p:0:=P(N0)[][]|)", "I(|5=" + c28namedDef[5] + ")", "I(|8=" + c28namedDef[8] + ")",
			"N0", "N1", "P(N0)", "F0(-[b2][])", "F0(=b2[b2][])", "F0(=N0[b2][])", "S(Z)", "U[]", "U[b2]"},
		d1,
		all,
	}
	nh, nops := 120, 60
	if tier == "thorough" {
		nh, nops = 1500, 120
	}
	for h := 0; h < nh; h++ {
		if h%40 == 39 {
			emit("reset nil")
			emit("mlen")
			emit("mat b2")
			emit("mdel b2")
			emit("miter")
		}
		emit("reset")
		pool := pools[h%len(pools)]
		if len(pool) > 24 {
			// a small working set so that keys repeat
			var w []string
			for i := 0; i < 16; i++ {
				w = append(w, pool[r.Intn(len(pool))])
			}
			pool = w
		}
		val := 0
		for i := 0; i < nops; i++ {
			k := pool[r.Intn(len(pool))]
			if k == "Z" {
				k = "P(Z)" // the nil type is not a key: entry.key == nil marks an unused slot
			}
			if r.Intn(4) == 0 {
				k = "~" + k
			}
			switch x := r.Intn(20); {
			case x < 8:
				val++
				emit(fmt.Sprintf("mset %s %d", k, val))
			case x < 13:
				emit("mat " + k)
			case x < 17:
				emit("mdel " + k)
			case x < 18:
				emit("mlen")
			default:
				emit("miter")
			}
		}
		emit("mlen")
		emit("miter")
	}
}

func init() {
	register(&Prop{
		ID: "C28",
		Rule: "bounded-exhaustive: every ordered pair (both orders in one op) of the depth-1 universe (6 leaves incl. byte/uint8 alias and 2 named; arrays, slices, pointers, chans, maps, structs over 14 field shapes, signatures with receivers/variadic, tuples, interfaces = 18 explicit method sets x 12 sets of embedded named interfaces) and of a depth-2 universe (10 constructors over depth 1; quick: seeded sample of 160, thorough: 700); transitivity triples inside hash classes and random triples of interfaces; random Set/At/Delete/Len/Iterate histories on typeutil.Map against a linear-scan association list. Non-trivial: every id op, triples with x~y and y~z, map ops on non-empty maps.",
		Gen:        c28gen,
		Exec:       c28exec,
		Exhaustive: func(tier string) bool { return true },
		Prepare:    func(ops []string) { c28writeNH() },
	})
}
