package main

// Generator of structured programs for C05 (one seeded PRNG).

import (
	"fmt"
	"math/rand"
	"strings"
	"unicode/utf8"
)

type c05target struct {
	label string
	loop  bool // continue allowed
}

type c05scope struct {
	vars     []string        // readable/assignable int variables in scope
	declared map[string]bool // declared in the current block
	targets  []*c05target    // enclosing breakable statements, innermost last
	depth    int
	noDef    bool // the list contains a goto label: no direct declarations
	top      bool
}

type c05g struct {
	r       *rand.Rand
	nvar    int
	nlab    int
	ntag    int
	size    int
	special bool // allow the shapes of the known-defect families (range `=` form, key written in body, top-level label)
	maxd    int
}

func (g *c05g) fresh() string { g.nvar++; return fmt.Sprintf("v%d", g.nvar) }
func (g *c05g) label() string { g.nlab++; return fmt.Sprintf("L%d", g.nlab) }
func (g *c05g) tag() *sx      { g.ntag++; return A(fmt.Sprint(g.ntag)) }
func (g *c05g) pick(xs []string) string { return xs[g.r.Intn(len(xs))] }
func (g *c05g) chance(pct int) bool     { return g.r.Intn(100) < pct }

func (sc *c05scope) child() *c05scope {
	return &c05scope{vars: append([]string(nil), sc.vars...), declared: map[string]bool{}, targets: sc.targets, depth: sc.depth + 1}
}

func (g *c05g) expr(sc *c05scope) *sx {
	v := A(g.pick(sc.vars))
	switch g.r.Intn(6) {
	case 0:
		return A(fmt.Sprint(g.r.Intn(5)))
	case 1:
		return Lst(A("+"), v, A(fmt.Sprint(g.r.Intn(4))))
	case 2:
		return Lst(A("-"), v, A(fmt.Sprint(g.r.Intn(3))))
	case 3:
		return Lst(A("+"), v, A(g.pick(sc.vars)))
	}
	return v
}

func (g *c05g) varExpr(sc *c05scope) *sx { // never constant
	v := A(g.pick(sc.vars))
	if g.chance(30) {
		return Lst(A("+"), v, A(fmt.Sprint(g.r.Intn(3))))
	}
	return v
}

func (g *c05g) cond(sc *c05scope) *sx {
	if g.chance(12) {
		if g.chance(50) {
			return A("T")
		}
		return A("F")
	}
	ops := []string{"<", "<=", "==", "!="}
	return Lst(A(g.pick(ops)), g.varExpr(sc), g.expr(sc))
}

func (g *c05g) emit(sc *c05scope) *sx { return Lst(A("e"), g.tag(), g.expr(sc)) }

// jump statement towards one of the enclosing targets (nil if none applicable)
func (g *c05g) jump(sc *c05scope) *sx {
	if len(sc.targets) == 0 {
		return nil
	}
	inner := sc.targets[len(sc.targets)-1]
	wantCont := g.chance(45)
	if g.chance(60) { // unlabelled
		if wantCont {
			for i := len(sc.targets) - 1; i >= 0; i-- {
				if sc.targets[i].loop {
					return Lst(A("co"), A("_"))
				}
			}
		}
		_ = inner
		return Lst(A("br"), A("_"))
	}
	t := sc.targets[g.r.Intn(len(sc.targets))]
	if wantCont && !t.loop {
		wantCont = false
	}
	if t.label == "" {
		t.label = g.label()
	}
	if wantCont {
		return Lst(A("co"), A(t.label))
	}
	return Lst(A("br"), A(t.label))
}

func lbl(t *c05target) *sx {
	if t.label == "" {
		return Lst()
	}
	return Lst(A(t.label))
}

func (g *c05g) body(sc *c05scope, t *c05target, pre ...*sx) []*sx {
	c := sc.child()
	if t != nil {
		c.targets = append(append([]*c05target(nil), sc.targets...), t)
	}
	out := append([]*sx(nil), pre...)
	return append(out, g.stmts(c, 1+g.r.Intn(3))...)
}

func (g *c05g) stmts(sc *c05scope, n int) []*sx {
	var out []*sx
	for i := 0; i < n; i++ {
		out = append(out, g.stmt(sc)...)
	}
	return out
}

func (g *c05g) guarded(sc *c05scope, s *sx) *sx { // if cond { s }
	if g.chance(20) {
		return s
	}
	return Lst(A("if"), A("_"), g.cond(sc), Lst(s), A("_"))
}

// stmt returns one statement (sometimes a small group that must stay together)
func (g *c05g) stmt(sc *c05scope) []*sx {
	g.size--
	compound := sc.depth < g.maxd && g.size > 0
	k := g.r.Intn(100)
	switch {
	case k < 14:
		return []*sx{g.emit(sc)}
	case k < 24:
		// only the pool variables are assigned: loop counters and range keys stay under the generator's control
		return []*sx{Lst(A("="), A(g.pick([]string{"v0", "v1", "v2", "v3", "v4", "v5"})), g.expr(sc))}
	case k < 32 && !sc.noDef:
		// declaration: new name or shadowing of an outer one
		// (named results cannot be shadowed: Go rejects a naked return where a result is shadowed)
		x := g.pick([]string{"v4", "v5"})
		if sc.declared[x] {
			return []*sx{g.emit(sc)}
		}
		e := g.expr(sc)
		sc.declared[x] = true
		has := false
		for _, v := range sc.vars {
			has = has || v == x
		}
		if !has {
			sc.vars = append(sc.vars, x)
		}
		return []*sx{Lst(A(":"), A(x), e)}
	case k < 40 && len(sc.targets) > 0:
		if j := g.jump(sc); j != nil {
			return []*sx{g.guarded(sc, j)}
		}
	case k < 44:
		return []*sx{g.guarded(sc, Lst(A("ret")))}
	}
	if !compound {
		return []*sx{g.emit(sc)}
	}
	switch k = g.r.Intn(100); {
	case k < 10:
		return []*sx{Lst(append([]*sx{A("b")}, g.body(sc, nil)...)...)}
	case k < 32:
		return []*sx{g.ifStmt(sc)}
	case k < 60:
		return g.forStmt(sc)
	case k < 78:
		return []*sx{g.switchStmt(sc)}
	case k < 90:
		return []*sx{g.rangeStmt(sc)}
	default:
		if !sc.top || g.special {
			return g.gotoPattern(sc)
		}
		return g.forStmt(sc)
	}
}

func (g *c05g) ifStmt(sc *c05scope) *sx {
	init := A("_")
	c := sc
	var cnd *sx
	if g.chance(30) {
		x := g.fresh()
		init = Lst(A(":"), A(x), g.expr(sc))
		c = sc.child()
		c.depth = sc.depth
		c.vars = append(c.vars, x)
		cnd = Lst(A(g.pick([]string{"<", "<=", "==", "!="})), A(x), g.expr(sc))
	} else {
		cnd = g.cond(sc)
	}
	thn := Lst(g.body(c, nil)...)
	els := A("_")
	switch g.r.Intn(10) {
	case 0, 1, 2:
		els = Lst(append([]*sx{A("b")}, g.body(c, nil)...)...)
	case 3:
		if c.depth < g.maxd {
			c2 := c.child()
			c2.depth = c.depth + 1
			c2.declared = c.declared
			els = g.ifStmt(c2)
		}
	case 4:
		els = Lst(A("b"))
	}
	return Lst(A("if"), init, cnd, thn, els)
}

func (g *c05g) forStmt(sc *c05scope) []*sx {
	t := &c05target{loop: true}
	n := fmt.Sprint(1 + g.r.Intn(3))
	ctr := g.fresh()
	inc := Lst(A("="), A(ctr), Lst(A("+"), A(ctr), A("1")))
	bound := Lst(A("<"), A(ctr), A(n))
	c := sc.child()
	c.depth = sc.depth
	c.vars = append(c.vars, ctr)
	mk := func(init, cond, post *sx, body []*sx) *sx {
		return Lst(append([]*sx{A("for"), lbl(t), init, cond, post}, body...)...)
	}
	decl := Lst(A(":"), A(ctr), A("0"))
	switch g.r.Intn(10) {
	case 0, 1, 2, 3: // for i := 0; i < n; i++
		b := g.body(c, t, g.emit(c))
		return []*sx{mk(decl, bound, inc, b)}
	case 4: // init is a plain assignment, counter declared before
		if sc.noDef {
			b := g.body(c, t, g.emit(c))
			return []*sx{mk(decl, bound, inc, b)}
		}
		b := g.body(c, t, g.emit(c))
		return []*sx{decl, mk(Lst(A("="), A(ctr), A("0")), bound, inc, b)}
	case 5, 6: // for cond { ctr++ ... }
		if sc.noDef {
			b := g.body(c, t, g.emit(c))
			return []*sx{mk(decl, bound, inc, b)}
		}
		b := g.body(c, t, inc, g.emit(c))
		return []*sx{decl, mk(A("_"), bound, A("_"), b)}
	case 7: // for { ctr++; if ctr > n { break } ... }   (also `for true`)
		if sc.noDef {
			b := g.body(c, t, g.emit(c))
			return []*sx{mk(decl, bound, inc, b)}
		}
		stop := Lst(A("if"), A("_"), Lst(A("<"), A(n), A(ctr)), Lst(Lst(A("br"), A("_"))), A("_"))
		b := g.body(c, t, inc, stop, g.emit(c))
		cond := A("_")
		if g.chance(40) {
			cond = A("T")
		}
		return []*sx{decl, mk(A("_"), cond, A("_"), b)}
	case 8: // for ; cond; post
		if sc.noDef {
			b := g.body(c, t, g.emit(c))
			return []*sx{mk(decl, bound, inc, b)}
		}
		b := g.body(c, t, g.emit(c))
		return []*sx{decl, mk(A("_"), bound, inc, b)}
	default: // for false { ... }, with or without init / post
		b := g.body(c, t, Lst(A("e"), g.tag(), A(ctr)))
		if g.chance(50) {
			return []*sx{mk(decl, A("F"), inc, b)}
		}
		if sc.noDef {
			return []*sx{mk(decl, A("F"), A("_"), b)}
		}
		return []*sx{decl, mk(A("_"), A("F"), A("_"), b)}
	}
}

func (g *c05g) switchStmt(sc *c05scope) *sx {
	t := &c05target{loop: false}
	init := A("_")
	c := sc.child()
	c.depth = sc.depth
	var tag *sx
	tagless := g.chance(25)
	if g.chance(20) {
		x := g.fresh()
		if tagless {
			init = Lst(A("="), A(g.pick([]string{"v0", "v1", "v2", "v3"})), g.expr(sc))
		} else {
			init = Lst(A(":"), A(x), g.expr(sc))
			c.vars = append(c.vars, x)
			tag = A(x)
		}
	} else {
		tag = g.varExpr(sc)
	}
	if tagless {
		tag = A("_")
	}
	ncl := 1 + g.r.Intn(4)
	if !tagless && !init.isl && g.chance(40) {
		// tag = small value so that listed constants are hit often
		tag = Lst(A("-"), Lst(A("+"), A(g.pick([]string{"v0", "v1", "v2", "v3"})), A(fmt.Sprint(g.r.Intn(5)))), A("1"))
	}
	sparse := g.chance(35)
	vals := g.r.Perm(7)
	vi := 0
	dflt := -1
	if g.chance(60) {
		dflt = g.r.Intn(ncl)
	}
	var cls []*sx
	for i := 0; i < ncl; i++ {
		ft := "_"
		if i < ncl-1 && g.chance(25) {
			ft = "ft"
		}
		var body []*sx
		if g.chance(85) {
			body = g.body(c, t, g.emit(c))
		}
		if i == dflt {
			cls = append(cls, Lst(append([]*sx{A("default"), A(ft)}, body...)...))
			continue
		}
		ng := 1 + g.r.Intn(3)
		var gs []*sx
		for j := 0; j < ng; j++ {
			switch {
			case tagless:
				gs = append(gs, Lst(A("c"), Lst(A(g.pick([]string{"<", "<=", "==", "!="})), g.varExpr(sc), g.expr(sc))))
			case g.chance(12):
				gs = append(gs, g.varExpr(sc)) // non-constant case expression
			case g.chance(18):
				// non-constant case expression with a side effect; its value may equal a constant listed later
				gs = append(gs, Lst(A("g"), g.tag(), A(fmt.Sprint(g.r.Intn(6)-1))))
			case vi < len(vals):
				v := vals[vi] - 1
				vi++
				if sparse {
					v = (vals[vi-1] - 2) * 1000
				}
				gs = append(gs, A(fmt.Sprint(v)))
			}
		}
		if len(gs) == 0 {
			gs = append(gs, g.varExpr(sc))
		}
		cls = append(cls, Lst(append([]*sx{A("case"), Lst(gs...), A(ft)}, body...)...))
	}
	return Lst(append([]*sx{A("sw"), lbl(t), init, tag}, cls...)...)
}

func (g *c05g) rangeStmt(sc *c05scope) *sx {
	t := &c05target{loop: true}
	n := g.r.Intn(4)
	str := g.chance(40)
	var keys, vals []*sx
	if str {
		runes := []rune{'a', 'b', 'é', '世', 'z'}
		off := 0
		for i := 0; i < n; i++ {
			r := runes[g.r.Intn(len(runes))]
			keys = append(keys, A(fmt.Sprint(off)))
			vals = append(vals, A(fmt.Sprint(int(r))))
			off += utf8.RuneLen(r)
		}
	} else {
		for i := 0; i < n; i++ {
			keys = append(keys, A(fmt.Sprint(i)))
			vals = append(vals, A(fmt.Sprint(g.r.Intn(9))))
		}
	}
	kind := "sl"
	if str {
		kind = "str"
	}
	c := sc.child()
	c.depth = sc.depth
	k, v, dfn := "_", "_", ":"
	var pre []*sx
	if g.special && g.chance(50) {
		// `=` form: existing variables
		dfn = "="
		if g.chance(70) {
			k = g.pick([]string{"v0", "v1", "v2", "v3"})
		}
		if g.chance(60) {
			if str {
				v = "v6"
			} else {
				v = g.pick([]string{"v0", "v1", "v2", "v3"})
				if v == k {
					v = "_"
				}
			}
		}
	} else {
		if g.chance(75) {
			k = g.fresh()
			c.vars = append(c.vars, k)
		}
		if g.chance(60) {
			v = g.fresh()
			c.vars = append(c.vars, v)
		}
		if g.special && k != "_" && g.chance(50) {
			pre = append(pre, Lst(A("="), A(k), Lst(A("+"), A(k), A("1"))))
		}
	}
	pre = append([]*sx{g.emit(c)}, pre...)
	b := g.body(c, t, pre...)
	return Lst(append([]*sx{A("rng"), lbl(t), A(kind), A(dfn), A(k), A(v), Lst(keys...), Lst(vals...)}, b...)...)
}

func (g *c05g) gotoPattern(sc *c05scope) []*sx {
	if sc.noDef {
		return []*sx{g.emit(sc)}
	}
	ctr := g.fresh()
	l := g.label()
	n := fmt.Sprint(1 + g.r.Intn(2))
	c := *sc
	c.noDef = true
	c.vars = append(append([]string(nil), sc.vars...), ctr)
	first := Lst(A("lab"), A(l), g.emit(&c))
	mid := g.stmts(&c, g.r.Intn(3))
	inc := Lst(A("="), A(ctr), Lst(A("+"), A(ctr), A("1")))
	jmp := Lst(A("if"), A("_"), Lst(A("<"), A(ctr), A(n)), Lst(Lst(A("goto"), A(l))), A("_"))
	switch g.r.Intn(4) {
	case 0: // leave one Env
		jmp = Lst(A("b"), Lst(A(":"), A(g.fresh()), A("1")), jmp)
	case 1: // leave a loop
		x := g.fresh()
		jmp = Lst(A("for"), Lst(), Lst(A(":"), A(x), A("0")), Lst(A("<"), A(x), A("2")), Lst(A("="), A(x), Lst(A("+"), A(x), A("1"))), g.emit(&c), jmp)
	}
	sc.noDef = true // the rest of this list follows a label as well
	out := []*sx{Lst(A(":"), A(ctr), A("0")), first}
	out = append(out, mid...)
	return append(out, inc, jmp)
}

// stripLabels removes loop labels nobody refers to (Go rejects unused labels)
func c05used(ns []*sx, used map[string]bool) {
	for _, n := range ns {
		if !n.isl {
			continue
		}
		switch n.head() {
		case "br", "co", "goto":
			used[n.list[1].atom] = true
		}
		c05used(n.list, used)
	}
}

func (g *c05g) program() []*sx {
	sc := &c05scope{vars: []string{"v0", "v1", "v2", "v3", "v4", "v5"}, declared: map[string]bool{"v4": true, "v5": true}, top: true}
	prog := []*sx{Lst(A(":"), A("v4"), A("0")), Lst(A(":"), A("v5"), A("1"))}
	if g.special {
		prog = append(prog, Lst(A(":"), A("v6"), A("0")))
	}
	prog = append(prog, g.stmts(sc, 2+g.r.Intn(4))...)
	prog = append(prog, g.emit(sc))
	return prog
}

func c05gen(r *rand.Rand, tier string, emit func(string)) {
	n := 1000
	if tier == "thorough" {
		n = 30000
	}
	for _, p := range c05systematic() {
		emit("prog 20000 " + p)
	}
	for _, p := range c05switchFamily() {
		emit("prog 20000 " + p)
	}
	for _, src := range c05srcPrograms() {
		emit("gosrc " + c05srcEncode(src))
	}
	for i := 0; i < n; i++ {
		g := &c05g{r: r, nvar: 9, size: 10 + r.Intn(25), maxd: 2 + r.Intn(3), special: r.Intn(100) < 8}
		prog := g.program()
		parts := make([]string, len(prog))
		for i, s := range prog {
			parts[i] = s.String()
		}
		emit("prog 20000 " + strings.Join(parts, " "))
	}
}

// c05switchFamily: case clauses mixing constants and side-effecting expressions in all orders, every tag value
// (Go: case expressions are evaluated left to right, top to bottom, until one matches)
func c05switchFamily() []string {
	as := []string{"0", "0 1", "(g 6 0)", "1 (g 6 0)"}
	bs := []string{"(g 7 1) 2", "2 (g 7 1)", "(g 7 2) 2", "(g 7 9) 2 3", "2 (g 7 9) 3", "(g 7 5) 2 (g 8 6) 3", "v1 2", "2 3"}
	cs := []string{"4", "(g 9 4)", "4 (g 9 3)", "(g 9 3) 4"}
	var out []string
	n := 0
	for _, a := range as {
		for _, b := range bs {
			for _, c := range cs {
				for d := 0; d <= 4; d += 2 {
					n++
					cl := []string{
						"(case (" + a + ") _ (e 1 v10))",
						"(case (" + b + ") " + []string{"_", "ft"}[n%2] + " (e 2 v10))",
						"(case (" + c + ") _ (e 3 v10))",
					}
					if d < 4 {
						dc := "(default _ (e 4 v10))"
						cl = append(cl[:d], append([]string{dc}, cl[d:]...)...)
					}
					tag := []string{"v10", "(+ v10 0)", "(- v10 1)"}[n%3]
					out = append(out, "(for () (: v10 0) (< v10 7) (= v10 (+ v10 1)) (sw () _ "+tag+" "+strings.Join(cl, " ")+")) (e 9 v0)")
				}
			}
		}
	}
	return out
}

// c05systematic enumerates loop form x nesting shape x jump kind (bounded-exhaustive core family)
func c05systematic() []string {
	var out []string
	loops := []string{
		"(for (L1) (: v10 0) (< v10 3) (= v10 (+ v10 1)) (e 1 v10) %s (e 2 v10))",
		"(: v10 0) (for (L1) _ (< v10 3) _ (= v10 (+ v10 1)) (e 1 v10) %s (e 2 v10))",
		"(: v10 0) (for (L1) _ _ _ (= v10 (+ v10 1)) (if _ (< 3 v10) ((br _)) _) (e 1 v10) %s (e 2 v10))",
		"(: v10 0) (for (L1) _ (< v10 3) (= v10 (+ v10 1)) (e 1 v10) %s (e 2 v10))",
		"(rng (L1) sl : v10 v11 (0 1 2) (5 6 7) (e 1 v11) %s (e 2 v10))",
		"(rng (L1) str : v10 v11 (0 1 3) (97 233 98) (e 1 v11) %s (e 2 v10))",
	}
	wraps := []string{
		"%s",
		"(b %s)",
		"(b (: v4 1) %s)",
		"(b (: v4 1) (b (: v5 2) %s))",
		"(b (: v4 1) (b (b (: v5 2) %s)))",
		"(if _ T (%s) _)",
		"(if _ F ((e 8 0)) (b %s))",
		"(if (: v12 1) (== v12 1) ((: v4 2) %s) _)",
		"(for () (: v13 0) (< v13 2) (= v13 (+ v13 1)) (e 3 v13) %s)",
		"(for () (: v13 0) (< v13 2) (= v13 (+ v13 1)) (: v5 v13) (e 3 v5) %s)",
		"(sw () _ v10 (case (0 1) _ (e 4 0) %s) (default _ (: v4 3) %s))",
		"(sw () (: v14 v10) v14 (case (1) ft (e 4 0)) (case (2) _ (: v4 3) %s) (default _ (e 5 0)))",
		"(rng () sl : _ v15 (0) (4) (e 6 v15) %s)",
	}
	jumps := []string{
		"(e 7 0)",
		"(if _ (== v10 1) ((br _)) _)",
		"(if _ (== v10 1) ((co _)) _)",
		"(if _ (== v10 1) ((br L1)) _)",
		"(if _ (== v10 1) ((co L1)) _)",
		"(if _ (== v10 1) ((ret)) _)",
		"(if _ (== v10 1) ((: v5 9) (= v0 (+ v0 v5)) (co L1)) (b (= v1 (+ v1 1))))",
	}
	for _, l := range loops {
		for _, w := range wraps {
			for _, j := range jumps {
				if strings.Contains(j, "L1") || !strings.Contains(w, "for") && !strings.Contains(w, "rng") {
					// keep the loop label only when it is used
				}
				inner := strings.ReplaceAll(w, "%s", j)
				p := strings.ReplaceAll(l, "%s", inner)
				if !strings.Contains(inner, "L1") {
					p = strings.ReplaceAll(p, "(L1)", "()")
				}
				out = append(out, p+" (e 9 v0)")
			}
		}
	}
	return out
}
