package main

// extractors["C23"]: regenerates lean/Gen/ScanSwitch.lean from
//   <repo>/go/scanner/scanner.go, <repo>/go/etoken/token.go   (the fork)
//   GOROOT/src/go/scanner/scanner.go, GOROOT/src/go/token/token.go (the reference)
//
// For both scanner.go files: every top-level declaration and every arm of the two switches of
// Scanner.Scan, as (label, hash).  The hash is taken over the declaration's / arm's TOKEN sequence
// (go/scanner, comments dropped, so layout and comments do not matter), after the renamings
//   etoken -> token            (package qualifier; fork side)
//   eof    -> - 1              (reference side, only if GOROOT declares `eof = -1`)
// The keyword tables: GOROOT's keywords, the fork's etoken.Lookup if-chain, the LookupSpecial map.
// Anything the translator does not understand becomes an entry named "opaque:..." which no
// obligation accepts.

import (
	"crypto/sha256"
	"fmt"
	"go/ast"
	"go/parser"
	goscanner "go/scanner"
	"go/token"
	"os"
	"path/filepath"
	"sort"
	"strconv"
	"strings"
)

type c23entry struct{ label, hash, text string }

// c23tokText returns the normalised token text of src[from:to)
func c23tokText(src []byte, rename map[string]string) string {
	fset := token.NewFileSet()
	f := fset.AddFile("", 1, len(src))
	var s goscanner.Scanner
	s.Init(f, src, nil, 0)
	var parts []string
	for {
		_, tok, lit := s.Scan()
		if tok == token.EOF {
			break
		}
		if tok == token.SEMICOLON && lit == "\n" {
			parts = append(parts, ";")
			continue
		}
		if (tok == token.RBRACE || tok == token.RPAREN) && len(parts) > 0 && parts[len(parts)-1] == ";" {
			parts = parts[:len(parts)-1] // "x }" and "x\n}" are the same code
		}
		t := tok.String()
		if lit != "" && tok != token.SEMICOLON {
			t = lit
		}
		if tok == token.IDENT {
			if r, ok := rename[lit]; ok {
				t = r
			}
		}
		parts = append(parts, t)
	}
	// a trailing automatic semicolon depends on what follows the excerpt
	for len(parts) > 0 && parts[len(parts)-1] == ";" {
		parts = parts[:len(parts)-1]
	}
	return strings.Join(parts, " ")
}

func c23hash(text string) string {
	h := sha256.Sum256([]byte(text))
	return fmt.Sprintf("%x", h[:8])
}

type c23scanFile struct {
	decls []c23entry // top-level declarations
	arms  []c23entry // arms of the switches in Scan + prologue / epilogue
}

func c23parseScanner(path string, rename map[string]string, eofInline bool) (*c23scanFile, error) {
	src, err := os.ReadFile(path)
	if err != nil {
		return nil, err
	}
	fset := token.NewFileSet()
	file, err := parser.ParseFile(fset, path, src, 0)
	if err != nil {
		return nil, err
	}
	off := func(p token.Pos) int { return fset.Position(p).Offset }
	rn := map[string]string{}
	for k, v := range rename {
		rn[k] = v
	}
	if eofInline {
		// only if the file really declares eof = -1
		ok := false
		ast.Inspect(file, func(n ast.Node) bool {
			if vs, isVS := n.(*ast.ValueSpec); isVS {
				for i, nm := range vs.Names {
					if nm.Name == "eof" && i < len(vs.Values) && c23tokText(src[off(vs.Values[i].Pos()):off(vs.Values[i].End())], nil) == "- 1" {
						ok = true
					}
				}
			}
			return true
		})
		if ok {
			rn["eof"] = "- 1"
		}
	}
	text := func(a, b token.Pos) string { return c23tokText(src[off(a):off(b)], rn) }
	mk := func(label string, a, b token.Pos) c23entry {
		t := text(a, b)
		return c23entry{label, c23hash(t), t}
	}
	out := &c23scanFile{}
	for _, d := range file.Decls {
		switch d := d.(type) {
		case *ast.FuncDecl:
			name := d.Name.Name
			if d.Recv != nil {
				name = "Scanner." + name
			}
			if name == "Scanner.Scan" {
				if err := c23scanArms(d, mk, out); err != nil {
					out.arms = append(out.arms, c23entry{"opaque:" + err.Error(), "", ""})
				}
				out.decls = append(out.decls, mk("func "+name+" (signature)", d.Pos(), d.Body.Lbrace))
				continue
			}
			out.decls = append(out.decls, mk("func "+name, d.Pos(), d.End()))
		case *ast.GenDecl:
			if d.Tok == token.IMPORT {
				continue
			}
			for _, sp := range d.Specs {
				switch sp := sp.(type) {
				case *ast.TypeSpec:
					out.decls = append(out.decls, mk("type "+sp.Name.Name, sp.Pos(), sp.End()))
				case *ast.ValueSpec:
					if len(sp.Names) == 1 && sp.Names[0].Name == "eof" && eofInline {
						continue // inlined
					}
					var names []string
					for _, n := range sp.Names {
						names = append(names, n.Name)
					}
					out.decls = append(out.decls, mk(d.Tok.String()+" "+strings.Join(names, ","), sp.Pos(), sp.End()))
				}
			}
		}
	}
	return out, nil
}

// c23scanArms splits Scan into: prologue (statements before the outer switch), the arms of the outer
// tagless switch, the head of its default arm (statements before the inner switch), the arms of
// the inner `switch ch`, and the epilogue.
func c23scanArms(d *ast.FuncDecl, mk func(string, token.Pos, token.Pos) c23entry, out *c23scanFile) error {
	body := d.Body.List
	outerIdx := -1
	var outer *ast.SwitchStmt
	for i, st := range body {
		if ls, ok := st.(*ast.LabeledStmt); ok {
			st = ls.Stmt
		}
		if sw, ok := st.(*ast.SwitchStmt); ok {
			outerIdx, outer = i, sw
			break
		}
	}
	if outer == nil {
		return fmt.Errorf("Scan: no switch")
	}
	out.arms = append(out.arms, mk("Scan prologue", d.Body.Lbrace+1, outer.Pos()))
	hdrEnd := outer.Body.Lbrace
	out.arms = append(out.arms, mk("outer switch header", outer.Pos(), hdrEnd))
	var inner *ast.SwitchStmt
	for _, cl := range outer.Body.List {
		cc := cl.(*ast.CaseClause)
		label := "outer default"
		if cc.List != nil {
			label = "outer case " + mk("", cc.List[0].Pos(), cc.List[len(cc.List)-1].End()).text
		}
		// does this clause contain the inner switch?
		var in *ast.SwitchStmt
		for _, st := range cc.Body {
			if sw, ok := st.(*ast.SwitchStmt); ok {
				in = sw
			}
		}
		if in == nil {
			if len(cc.Body) == 0 {
				out.arms = append(out.arms, c23entry{label, c23hash(""), ""})
			} else {
				out.arms = append(out.arms, mk(label, cc.Body[0].Pos(), cc.Body[len(cc.Body)-1].End()))
			}
			continue
		}
		if inner != nil {
			return fmt.Errorf("Scan: two inner switches")
		}
		inner = in
		if in != cc.Body[len(cc.Body)-1] {
			return fmt.Errorf("Scan: statements after the inner switch")
		}
		out.arms = append(out.arms, mk(label+" head", cc.Colon+1, in.Body.Lbrace))
	}
	if inner == nil {
		return fmt.Errorf("Scan: no inner switch")
	}
	for _, cl := range inner.Body.List {
		cc := cl.(*ast.CaseClause)
		label := "default"
		if cc.List != nil {
			label = "case " + mk("", cc.List[0].Pos(), cc.List[len(cc.List)-1].End()).text
		}
		if len(cc.Body) == 0 {
			out.arms = append(out.arms, c23entry{label, c23hash(""), ""})
		} else {
			out.arms = append(out.arms, mk(label, cc.Body[0].Pos(), cc.Body[len(cc.Body)-1].End()))
		}
	}
	if outerIdx+1 < len(body) {
		out.arms = append(out.arms, mk("Scan epilogue", body[outerIdx+1].Pos(), d.Body.Rbrace))
	} else {
		out.arms = append(out.arms, c23entry{"Scan epilogue", c23hash(""), ""})
	}
	return nil
}

// ---- keyword tables

// GOROOT go/token/token.go: names of the constants between keyword_beg and keyword_end, mapped through
// the `tokens` array literal.
func c23stdKeywords(path string) ([]string, error) {
	src, err := os.ReadFile(path)
	if err != nil {
		return nil, err
	}
	fset := token.NewFileSet()
	file, err := parser.ParseFile(fset, path, src, 0)
	if err != nil {
		return nil, err
	}
	var consts []string
	names := map[string]string{}
	for _, d := range file.Decls {
		gd, ok := d.(*ast.GenDecl)
		if !ok {
			continue
		}
		for _, sp := range gd.Specs {
			vs, ok := sp.(*ast.ValueSpec)
			if !ok {
				continue
			}
			if gd.Tok == token.CONST {
				for _, n := range vs.Names {
					consts = append(consts, n.Name)
				}
			}
			if gd.Tok == token.VAR && len(vs.Names) == 1 && vs.Names[0].Name == "tokens" && len(vs.Values) == 1 {
				cl, ok := vs.Values[0].(*ast.CompositeLit)
				if !ok {
					return nil, fmt.Errorf("tokens: not a composite literal")
				}
				for _, e := range cl.Elts {
					kv, ok := e.(*ast.KeyValueExpr)
					if !ok {
						return nil, fmt.Errorf("tokens: element without key")
					}
					k, ok1 := kv.Key.(*ast.Ident)
					v, ok2 := kv.Value.(*ast.BasicLit)
					if !ok1 || !ok2 || v.Kind != token.STRING {
						return nil, fmt.Errorf("tokens: unexpected element")
					}
					s, err := strconv.Unquote(v.Value)
					if err != nil {
						return nil, err
					}
					names[k.Name] = s
				}
			}
		}
	}
	var kws []string
	in := false
	for _, c := range consts {
		switch c {
		case "keyword_beg":
			in = true
		case "keyword_end":
			in = false
		default:
			if in {
				s, ok := names[c]
				if !ok {
					return nil, fmt.Errorf("keyword %s has no string", c)
				}
				kws = append(kws, s)
			}
		}
	}
	if len(kws) == 0 {
		return nil, fmt.Errorf("no keywords found")
	}
	return kws, nil
}

type c23lookupArm struct {
	word, tok string
	generics  bool
}

// fork go/etoken/token.go: the `tokens` map built in init(), the `keywords` map derived from it,
// and the if-chain of Lookup.
func c23etoken(path string) (arms []c23lookupArm, special [][2]string, fallback string, err error) {
	src, e := os.ReadFile(path)
	if e != nil {
		return nil, nil, "", e
	}
	fset := token.NewFileSet()
	file, e := parser.ParseFile(fset, path, src, 0)
	if e != nil {
		return nil, nil, "", e
	}
	txt := func(n ast.Node) string {
		return c23tokText(src[fset.Position(n.Pos()).Offset:fset.Position(n.End()).Offset], nil)
	}
	tokens := map[string]string{} // const name -> string
	var order []string
	keywordsBuilt := false
	for _, d := range file.Decls {
		fd, ok := d.(*ast.FuncDecl)
		if !ok {
			continue
		}
		switch fd.Name.Name {
		case "init":
			for _, st := range fd.Body.List {
				switch st := st.(type) {
				case *ast.AssignStmt:
					l := txt(st.Lhs[0])
					switch {
					case l == "tokens" && len(st.Rhs) == 1:
						cl, ok := st.Rhs[0].(*ast.CompositeLit)
						if !ok {
							return nil, nil, "", fmt.Errorf("init: tokens = not a literal")
						}
						for _, e := range cl.Elts {
							kv := e.(*ast.KeyValueExpr)
							s, err := strconv.Unquote(txt(kv.Value))
							if err != nil {
								return nil, nil, "", fmt.Errorf("init: tokens literal value %s", txt(kv.Value))
							}
							tokens[txt(kv.Key)] = s
							order = append(order, txt(kv.Key))
						}
					case l == "keywords" && txt(st.Rhs[0]) == "make ( map [ string ] Token )":
						// keywords = make(map[string]Token)
					case strings.HasPrefix(l, "tokens [ ") && strings.HasSuffix(l, " ]"):
						s, err := strconv.Unquote(txt(st.Rhs[0]))
						if err != nil {
							return nil, nil, "", fmt.Errorf("init: %s", txt(st))
						}
						k := strings.TrimSuffix(strings.TrimPrefix(l, "tokens [ "), " ]")
						tokens[k] = s
						order = append(order, k)
					default:
						return nil, nil, "", fmt.Errorf("init: unexpected statement %s", txt(st))
					}
				case *ast.RangeStmt:
					if txt(st) != "for k , v := range tokens { keywords [ v [ 1 : ] ] = k }" {
						return nil, nil, "", fmt.Errorf("init: unexpected loop %s", txt(st))
					}
					if keywordsBuilt {
						return nil, nil, "", fmt.Errorf("init: two loops")
					}
					keywordsBuilt = true
					for _, k := range order {
						v := tokens[k]
						if len(v) < 1 {
							return nil, nil, "", fmt.Errorf("init: empty token string")
						}
						special = append(special, [2]string{v[1:], k})
					}
				default:
					return nil, nil, "", fmt.Errorf("init: unexpected statement %s", txt(st))
				}
			}
		case "Lookup":
			// if lit == "w" { return T } else if G && lit == "w" { return T } ... ; return token.Lookup(lit)
			if len(fd.Body.List) != 2 {
				return nil, nil, "", fmt.Errorf("Lookup: expected if-chain + return")
			}
			var walk func(st ast.Stmt) error
			walk = func(st ast.Stmt) error {
				is, ok := st.(*ast.IfStmt)
				if !ok || is.Init != nil {
					return fmt.Errorf("Lookup: not an if: %s", txt(st))
				}
				cond := txt(is.Cond)
				arm := c23lookupArm{}
				const g = "GENERICS == GENERICS_V1_CXX && "
				if strings.HasPrefix(cond, g) {
					arm.generics = true
					cond = strings.TrimPrefix(cond, g)
				}
				if !strings.HasPrefix(cond, "lit == ") {
					return fmt.Errorf("Lookup: condition %s", cond)
				}
				w, err := strconv.Unquote(strings.TrimPrefix(cond, "lit == "))
				if err != nil {
					return fmt.Errorf("Lookup: condition %s", cond)
				}
				arm.word = w
				if len(is.Body.List) != 1 {
					return fmt.Errorf("Lookup: body")
				}
				rs, ok := is.Body.List[0].(*ast.ReturnStmt)
				if !ok || len(rs.Results) != 1 {
					return fmt.Errorf("Lookup: body")
				}
				arm.tok = txt(rs.Results[0])
				arms = append(arms, arm)
				if is.Else != nil {
					return walk(is.Else)
				}
				return nil
			}
			if err := walk(fd.Body.List[0]); err != nil {
				return nil, nil, "", err
			}
			fallback = txt(fd.Body.List[1])
		}
	}
	// token constant names -> printed names
	for i := range arms {
		s, ok := tokens[arms[i].tok]
		if !ok {
			return nil, nil, "", fmt.Errorf("Lookup returns %s which has no string", arms[i].tok)
		}
		arms[i].tok = s
	}
	for i := range special {
		special[i][1] = tokens[special[i][1]]
	}
	sort.Slice(special, func(i, j int) bool { return special[i][0] < special[j][0] })
	if !keywordsBuilt {
		return nil, nil, "", fmt.Errorf("init: keywords loop not found")
	}
	return
}

func c23leanStr(s string) string {
	var sb strings.Builder
	sb.WriteByte('"')
	for _, c := range s {
		switch {
		case c == '"':
			sb.WriteString("\\\"")
		case c == '\\':
			sb.WriteString("\\\\")
		case c == '\n':
			sb.WriteString("\\n")
		case c == '\t':
			sb.WriteString("\\t")
		case c == '\r':
			sb.WriteString("\\r")
		case c < 0x20 || c == 0x7f:
			fmt.Fprintf(&sb, "\\x%02x", c)
		default:
			sb.WriteRune(c)
		}
	}
	sb.WriteByte('"')
	return sb.String()
}

func c23extract(repo, genDir string) error {
	gr := goroot()
	fork, err := c23parseScanner(filepath.Join(repo, "go/scanner/scanner.go"), map[string]string{"etoken": "token"}, false)
	if err != nil {
		return err
	}
	std, err := c23parseScanner(filepath.Join(gr, "src/go/scanner/scanner.go"), nil, true)
	if err != nil {
		return err
	}
	kws, err := c23stdKeywords(filepath.Join(gr, "src/go/token/token.go"))
	if err != nil {
		return err
	}
	arms, special, fallback, err := c23etoken(filepath.Join(repo, "go/etoken/token.go"))
	if err != nil {
		// the translator does not understand the file: emit a table no obligation accepts
		arms = []c23lookupArm{{"opaque:" + err.Error(), "opaque", false}}
		special, fallback = nil, "opaque"
	}
	var sb strings.Builder
	sb.WriteString("/- GENERATED by harness/c23_extract.go -- do not edit.\n")
	fmt.Fprintf(&sb, "   fork: %s/go/scanner/scanner.go, go/etoken/token.go; reference: %s/src/go/scanner/scanner.go, go/token/token.go -/\n", "<repo>", "GOROOT")
	sb.WriteString("namespace Gen.ScanSwitch\n\n")
	list := func(name string, es []c23entry) {
		fmt.Fprintf(&sb, "def %s : List (String × String) := [\n", name)
		for i, e := range es {
			sep := ","
			if i == len(es)-1 {
				sep = ""
			}
			fmt.Fprintf(&sb, "  (%s, %s)%s\n", c23leanStr(e.label), c23leanStr(e.hash), sep)
		}
		sb.WriteString("]\n\n")
	}
	list("forkArms", fork.arms)
	list("stdArms", std.arms)
	list("forkDecls", fork.decls)
	list("stdDecls", std.decls)
	fmt.Fprintf(&sb, "def stdKeywords : List String := [")
	for i, k := range kws {
		if i > 0 {
			sb.WriteString(", ")
		}
		sb.WriteString(c23leanStr(k))
	}
	sb.WriteString("]\n\n")
	sb.WriteString("/-- etoken.Lookup: (word, token returned, guarded by GENERICS == GENERICS_V1_CXX) in if-chain order -/\n")
	sb.WriteString("def etokenLookupArms : List (String × String × Bool) := [")
	for i, a := range arms {
		if i > 0 {
			sb.WriteString(", ")
		}
		fmt.Fprintf(&sb, "(%s, %s, %v)", c23leanStr(a.word), c23leanStr(a.tok), a.generics)
	}
	sb.WriteString("]\n\n")
	fmt.Fprintf(&sb, "def etokenLookupFallback : String := %s\n\n", c23leanStr(fallback))
	sb.WriteString("/-- etoken.LookupSpecial: the `keywords` map, sorted by key -/\n")
	sb.WriteString("def etokenSpecial : List (String × String) := [")
	for i, a := range special {
		if i > 0 {
			sb.WriteString(", ")
		}
		fmt.Fprintf(&sb, "(%s, %s)", c23leanStr(a[0]), c23leanStr(a[1]))
	}
	sb.WriteString("]\n\nend Gen.ScanSwitch\n")
	if err := os.WriteFile(filepath.Join(genDir, "ScanSwitch.lean"), []byte(sb.String()), 0o644); err != nil {
		return err
	}
	// human-readable companion (not compiled): the normalised text behind every hash
	var tb strings.Builder
	for _, g := range []struct {
		n string
		e []c23entry
	}{{"forkArms", fork.arms}, {"stdArms", std.arms}, {"forkDecls", fork.decls}, {"stdDecls", std.decls}} {
		for _, e := range g.e {
			fmt.Fprintf(&tb, "%s\t%s\t%s\t%s\n", g.n, e.label, e.hash, e.text)
		}
	}
	os.WriteFile(filepath.Join(workDir("C23-extract"), "ScanSwitch.txt"), []byte(tb.String()), 0o644)
	return nil
}

func init() { extractors["C23"] = c23extract }
