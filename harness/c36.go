package main

// C36: code completion returns exactly the matching in-scope names, sorted and unique.
//
// Ops (tokens separated by one blank; see lean/Drv/C36.lean for the grammar):
//   reset / type / itype / method / var / func / const / import / complete (cursor = index in runes)
// The generator builds random interpreter states through real declarations and describes every
// declaration to the Lean model in the op itself.  The oracle for `complete` is independent of
// the completion code: a linear scan over the names the harness declared (+ Go keywords from the
// language spec) for single words, gomacro's import table for package members, and a go/types
// mirror package (same declarations, type-checked from GOROOT sources) for fields and methods:
// a name n is valid after `a.b.` iff go/types accepts the expression `a.b.n`.

import (
	"bytes"
	"fmt"
	"go/ast"
	"go/importer"
	"go/parser"
	"go/token"
	"go/types"
	"math/rand"
	"os"
	"path/filepath"
	"sort"
	"strconv"
	"strings"
	"time"
	"unicode"
	"unicode/utf8"

	"github.com/cosmos72/gomacro/fast"
	"github.com/cosmos72/gomacro/go/etoken"
	"github.com/cosmos72/gomacro/imports"
)

// ---------------------------------------------------------------- type descriptors

type c36ty struct {
	k    byte // 'B' basic, 'N' named, 'P' pointer, 'I' interface literal, 'E' error, 'X' invalid
	b    string
	name string // 'N': main type name or "path.Name"
	elem *c36ty
	ms   []string
}

func (t *c36ty) toks() []string {
	switch t.k {
	case 'B':
		return []string{"B" + t.b}
	case 'N':
		return []string{"N", t.name}
	case 'P':
		return append([]string{"P"}, t.elem.toks()...)
	case 'I':
		return append([]string{"I", strconv.Itoa(len(t.ms))}, t.ms...)
	case 'E':
		return []string{"E"}
	}
	return []string{"X"}
}

var c36basicSrc = map[string]string{"": "int", "s": "string", "f": "func()", "l": "[]int", "m": "map[string]int", "a": "interface{}", "c": "chan int", "b": "bool"}

func c36parseTy(ts []string) (*c36ty, []string) {
	if len(ts) == 0 {
		panic("c36: type expected")
	}
	switch t := ts[0]; {
	case t[0] == 'B':
		return &c36ty{k: 'B', b: t[1:]}, ts[1:]
	case t == "N":
		return &c36ty{k: 'N', name: ts[1]}, ts[2:]
	case t == "P":
		e, rest := c36parseTy(ts[1:])
		return &c36ty{k: 'P', elem: e}, rest
	case t == "I":
		n, _ := strconv.Atoi(ts[1])
		return &c36ty{k: 'I', ms: ts[2 : 2+n]}, ts[2+n:]
	case t == "E":
		return &c36ty{k: 'E'}, ts[1:]
	case t == "X":
		return &c36ty{k: 'X'}, ts[1:]
	}
	panic("c36: bad type token " + ts[0])
}

// Go source of a type; qual maps "path.Name" to "alias.Name"
func (t *c36ty) src(aliases map[string]string) string {
	switch t.k {
	case 'B':
		return c36basicSrc[t.b]
	case 'N':
		if i := strings.LastIndexByte(t.name, '.'); i >= 0 {
			return aliases[t.name[:i]] + "." + t.name[i+1:]
		}
		return t.name
	case 'P':
		return "*" + t.elem.src(aliases)
	case 'I':
		var sb strings.Builder
		sb.WriteString("interface{")
		for i, m := range t.ms {
			if i > 0 {
				sb.WriteString("; ")
			}
			sb.WriteString(m + "()")
		}
		sb.WriteString("}")
		return sb.String()
	case 'E':
		return "error"
	}
	return "int"
}

type c36field struct {
	name      string
	anon, acc bool
	ty        *c36ty
}

// ---------------------------------------------------------------- builtin scope of a fresh interpreter
// (fast/builtin.go addBuiltins: the names the harness knows to be predeclared)

var c36builtinBinds = []string{"Eval", "EvalKeepUntyped", "EvalType", "Interp", "MacroExpand", "MacroExpand1",
	"MacroExpandCodeWalk", "Parse", "append", "cap", "close", "complex", "copy", "delete", "false", "imag", "len",
	"make", "new", "nil", "panic", "print", "println", "real", "recover", "true"}
var c36builtinTypes = []string{"Pointer", "any", "bool", "byte", "complex128", "complex64", "error", "float32", "float64",
	"int", "int16", "int32", "int64", "int8", "rune", "string", "uint", "uint16", "uint32", "uint64", "uint8", "uintptr"}

// the 25 keywords of the Go language specification
var c36goKeywords = strings.Fields("break default func interface select case defer go map struct chan else goto package switch const fallthrough if range type continue for import return var")

// identifiers gomacro's scanner may treat as keywords (decided by etoken.Lookup at run time)
var c36extraKeywordCandidates = []string{"macro", "template", "function", "lambda", "typecase", "quote", "quasiquote", "unquote", "unquote_splice"}

func c36keywords() []string {
	kw := append([]string{}, c36goKeywords...)
	for _, k := range c36extraKeywordCandidates {
		if etoken.Lookup(k) != token.IDENT {
			kw = append(kw, k)
		}
	}
	return kw
}

func c36resetOp() string {
	ts := []string{"reset", strconv.Itoa(len(c36builtinBinds))}
	for _, n := range c36builtinBinds {
		t := "B"
		if n == "nil" {
			t = "X"
		}
		ts = append(ts, n, t)
	}
	ts = append(ts, strconv.Itoa(len(c36builtinTypes)))
	for _, n := range c36builtinTypes {
		t := "B"
		if n == "error" {
			t = "E"
		}
		ts = append(ts, n, t)
	}
	return strings.Join(ts, " ")
}

// ---------------------------------------------------------------- description of imported packages (go/types, GOROOT sources)

var c36fset = token.NewFileSet()
var c36importer types.Importer

func c36import(path string) *types.Package {
	if c36importer == nil {
		c36importer = importer.ForCompiler(c36fset, "source", nil)
	}
	p, err := c36importer.Import(path)
	if err != nil {
		panic("c36: cannot import " + path + ": " + err.Error())
	}
	return p
}

type c36pkgDesc struct {
	path   string
	itypes []string // itype ops, dependencies first is not needed (ids are allocated on first mention)
	binds  [][2]string
	btys   []*c36ty
	types  []string
	// member knowledge for the generator: type name -> member names
	members map[string][]string
}

var c36pkgCache = map[string]*c36pkgDesc{}

type c36describer struct {
	itypes  []string
	done    map[string]bool
	members map[string][]string
}

func (d *c36describer) ty(t types.Type) *c36ty {
	// (type aliases are not materialised: the harness is built with gotypesalias=0)
	switch t := t.(type) {
	case *types.Named:
		if t.TypeArgs() != nil || t.TypeParams() != nil {
			return &c36ty{k: 'B'}
		}
		obj := t.Obj()
		if obj.Pkg() == nil {
			if obj.Name() == "error" {
				return &c36ty{k: 'E'}
			}
			return &c36ty{k: 'B'}
		}
		q := obj.Pkg().Path() + "." + obj.Name()
		d.named(q, t)
		return &c36ty{k: 'N', name: q}
	case *types.Pointer:
		return &c36ty{k: 'P', elem: d.ty(t.Elem())}
	case *types.Interface:
		var ms []string
		for i := 0; i < t.NumMethods(); i++ {
			ms = append(ms, t.Method(i).Name())
		}
		if len(ms) == 0 {
			return &c36ty{k: 'B', b: "a"}
		}
		return &c36ty{k: 'I', ms: ms}
	}
	return &c36ty{k: 'B'}
}

func (d *c36describer) named(q string, t *types.Named) {
	if d.done[q] {
		return
	}
	d.done[q] = true
	ts := []string{"itype", q}
	var mem []string
	switch u := t.Underlying().(type) {
	case *types.Struct:
		ts = append(ts, "S", strconv.Itoa(u.NumFields()))
		for i := 0; i < u.NumFields(); i++ {
			f := u.Field(i)
			ts = append(ts, f.Name(), c36b(f.Embedded()), c36b(f.Exported()))
			ts = append(ts, d.ty(f.Type()).toks()...)
			mem = append(mem, f.Name())
		}
	case *types.Interface:
		ts = append(ts, "I", strconv.Itoa(u.NumMethods()))
		for i := 0; i < u.NumMethods(); i++ {
			ts = append(ts, u.Method(i).Name())
			mem = append(mem, u.Method(i).Name())
		}
	default:
		ts = append(ts, "B")
	}
	if _, isIface := t.Underlying().(*types.Interface); isIface {
		ts = append(ts, "0")
	} else {
		ts = append(ts, strconv.Itoa(t.NumMethods()))
		for i := 0; i < t.NumMethods(); i++ {
			m := t.Method(i)
			ts = append(ts, m.Name(), c36b(m.Exported()))
			mem = append(mem, m.Name())
		}
	}
	d.members[q] = mem
	d.itypes = append(d.itypes, strings.Join(ts, " "))
}

func c36b(b bool) string {
	if b {
		return "1"
	}
	return "0"
}

func c36describePkg(path string) *c36pkgDesc {
	if d := c36pkgCache[path]; d != nil {
		return d
	}
	gp, ok := imports.Packages[path]
	if !ok {
		panic("c36: gomacro has no import table for " + path)
	}
	tp := c36import(path)
	d := &c36describer{done: map[string]bool{}, members: map[string][]string{}}
	pd := &c36pkgDesc{path: path}
	var bn []string
	for n := range gp.Binds {
		bn = append(bn, n)
	}
	sort.Strings(bn)
	for _, n := range bn {
		obj := tp.Scope().Lookup(n)
		t := &c36ty{k: 'B'}
		if obj != nil {
			untyped := false
			if c, isConst := obj.(*types.Const); isConst {
				if b, ok := c.Type().(*types.Basic); ok && b.Info()&types.IsUntyped != 0 {
					untyped = true
				}
			}
			if !untyped {
				t = d.ty(obj.Type())
			}
		}
		pd.binds = append(pd.binds, [2]string{n, strings.Join(t.toks(), " ")})
		pd.btys = append(pd.btys, t)
	}
	var tn []string
	for n := range gp.Types {
		tn = append(tn, n)
	}
	sort.Strings(tn)
	for _, n := range tn {
		obj := tp.Scope().Lookup(n)
		if obj == nil {
			panic("c36: " + path + "." + n + " unknown to go/types")
		}
		d.ty(obj.Type())
		pd.types = append(pd.types, n)
	}
	pd.itypes = d.itypes
	pd.members = d.members
	c36pkgCache[path] = pd
	return pd
}

func (pd *c36pkgDesc) importOp(alias string) string {
	ts := []string{"import", alias, pd.path, strconv.Itoa(len(pd.binds))}
	for _, b := range pd.binds {
		ts = append(ts, b[0], b[1])
	}
	ts = append(ts, strconv.Itoa(len(pd.types)))
	for _, n := range pd.types {
		ts = append(ts, n, "N", pd.path+"."+n)
	}
	return strings.Join(ts, " ")
}

// ---------------------------------------------------------------- the world (Exec side)

type c36typeDecl struct {
	name    string
	under   string // "S", "I", "B"
	fields  []c36field
	ims     []string
	methods [][2]string // name, "1" if pointer receiver
}

type c36world struct {
	ir       *fast.Interp
	out      *bytes.Buffer
	aliases  map[string]string // path -> alias
	impOrder []string          // paths
	types    []*c36typeDecl
	binds    map[string]string // name -> Go declaration
	bindOrd  []string
	names    map[string]bool // every name declared in main
	mirror   *types.Package
	mpos     token.Pos
	mfset    *token.FileSet
	dirty    bool
	merr     string
	nth      int
	pool     map[string]bool // every identifier seen in any declaration (candidate member names)
}

var c36w *c36world
var c36worlds int
var c36reported = map[string]int{}

func c36newWorld() *c36world {
	etoken.GENERICS = etoken.GENERICS_NONE
	w := &c36world{aliases: map[string]string{}, binds: map[string]string{}, names: map[string]bool{}, dirty: true, pool: map[string]bool{}}
	w.ir = fast.New()
	w.out = &bytes.Buffer{}
	w.ir.Comp.Globals.Stdout = w.out
	w.ir.Comp.Globals.Stderr = w.out
	c36worlds++
	w.nth = c36worlds
	return w
}

func (w *c36world) typeSrc(td *c36typeDecl) string {
	var sb strings.Builder
	sb.WriteString("type " + td.name + " ")
	switch td.under {
	case "S":
		sb.WriteString("struct {")
		for i, f := range td.fields {
			if i > 0 {
				sb.WriteString("; ")
			}
			if f.anon {
				sb.WriteString(f.ty.src(w.aliases))
			} else {
				sb.WriteString(f.name + " " + f.ty.src(w.aliases))
			}
		}
		sb.WriteString("}")
	case "I":
		sb.WriteString((&c36ty{k: 'I', ms: td.ims}).src(w.aliases))
	default:
		sb.WriteString("int")
	}
	return sb.String()
}

func (w *c36world) mirrorSrc() string {
	var sb strings.Builder
	sb.WriteString("package main\n")
	for _, p := range w.impOrder {
		fmt.Fprintf(&sb, "import %s %q\n", w.aliases[p], p)
	}
	for _, td := range w.types {
		sb.WriteString(w.typeSrc(td) + "\n")
		for _, m := range td.methods {
			star := ""
			if m[1] == "1" {
				star = "*"
			}
			fmt.Fprintf(&sb, "func (r %s%s) %s() {}\n", star, td.name, m[0])
		}
	}
	for _, n := range w.bindOrd {
		sb.WriteString(w.binds[n] + "\n")
	}
	sb.WriteString("func ºoracle() {\n}\n")
	return sb.String()
}

func (w *c36world) remirror() {
	if !w.dirty {
		return
	}
	w.dirty = false
	w.merr = ""
	w.mfset = c36fset
	src := w.mirrorSrc()
	f, err := parser.ParseFile(c36fset, fmt.Sprintf("mirror%d_%p.go", w.nth, &src), src, 0)
	if err != nil {
		w.merr = err.Error()
		w.mirror = nil
		return
	}
	conf := types.Config{Importer: c36importer, Error: func(err error) {
		msg := err.Error()
		if strings.Contains(msg, "and not used") {
			return
		}
		if w.merr == "" {
			w.merr = msg
		}
	}}
	pkg, _ := conf.Check("main", c36fset, []*ast.File{f}, nil)
	w.mirror = pkg
	// a position inside the body of the last function: file scope (imports) is visible there
	last := f.Decls[len(f.Decls)-1].(*ast.FuncDecl)
	w.mpos = last.Body.Lbrace + 1
}

// checkExpr: does go/types accept expr in the scope of package main?
func (w *c36world) checkExpr(expr string) (types.TypeAndValue, error) {
	e, err := parser.ParseExpr(expr)
	if err != nil {
		return types.TypeAndValue{}, err
	}
	info := &types.Info{Types: map[ast.Expr]types.TypeAndValue{}}
	var first error
	// CheckExpr reports only the first error through its return value
	first = types.CheckExpr(w.mfset, w.mirror, w.mpos, e, info)
	return info.Types[e], first
}

// gomacroAccepts: second opinion for names go/types rejects -- gomacro is a superset of Go in places
// (e.g. the method expression T.PtrMethod).  Compiles, never runs.
func (w *c36world) gomacroAccepts(expr string) (ok bool) {
	defer func() {
		if recover() != nil {
			ok = false
		}
	}()
	n := w.out.Len()
	defer w.out.Truncate(n)
	w.ir.Compile(expr) // panics when the expression does not compile
	return true
}

// ---------------------------------------------------------------- Exec

var c36times = map[string]time.Duration{}

func c36exec(op string) Result {
	t0 := time.Now()
	ts := strings.Split(op, " ")
	defer func() {
		c36times[ts[0]] += time.Since(t0)
		if ts[0] == "reset" && os.Getenv("C36_DEBUG") == "time" {
			fmt.Fprintln(os.Stderr, "C36 times", c36times)
		}
	}()
	switch ts[0] {
	case "reset":
		c36w = c36newWorld()
		return Result{Out: "ok", Tags: []string{"reset"}}
	}
	w := c36w
	if w == nil {
		return Result{Out: "no-world"}
	}
	decl := func(src string) Result {
		w.dirty = true
		n := w.out.Len()
		_, errText := evalSrc(w.ir, src)
		if printed := w.out.String()[n:]; errText == "" && strings.HasPrefix(printed, "// warning: redefined identifier: ") && strings.Count(printed, "\n") == 1 {
			// redeclaring a variable / function / constant is allowed at the REPL
			w.out.Truncate(n)
		}
		if errText != "" || w.out.Len() != n {
			return Result{Out: "err " + errText + " " + oneLine(w.out.String()[n:]) + " <- " + src, Tags: []string{"decl-error"}}
		}
		return Result{Out: "ok", Tags: []string{ts[0]}}
	}
	for _, t := range ts[1:] {
		if c36isIdent(t) {
			w.pool[t] = true
		}
	}
	switch ts[0] {
	case "itype":
		return Result{Out: "ok", Tags: []string{"itype"}}
	case "import":
		alias, path := ts[1], ts[2]
		w.aliases[path] = alias
		w.impOrder = append(w.impOrder, path)
		w.names[alias] = true
		return decl(fmt.Sprintf("import %s %q", alias, path))
	case "type":
		td := &c36typeDecl{name: ts[1], under: ts[2]}
		rest := ts[3:]
		switch td.under {
		case "S":
			n, _ := strconv.Atoi(rest[0])
			rest = rest[1:]
			for i := 0; i < n; i++ {
				f := c36field{name: rest[0], anon: rest[1] == "1", acc: rest[2] == "1"}
				f.ty, rest = c36parseTy(rest[3:])
				td.fields = append(td.fields, f)
			}
		case "I":
			n, _ := strconv.Atoi(rest[0])
			td.ims = rest[1 : 1+n]
		}
		w.types = append(w.types, td)
		w.names[td.name] = true
		return decl(w.typeSrc(td))
	case "method":
		// method <type> <name> ; the receiver kind is chosen from the name's spelling: see c36ptrRecv
		var td *c36typeDecl
		for _, t := range w.types {
			if t.name == ts[1] {
				td = t
			}
		}
		if td == nil {
			return Result{Out: "no-type"}
		}
		star, p := "", "0"
		if c36ptrRecv(ts[2]) {
			star, p = "*", "1"
		}
		td.methods = append(td.methods, [2]string{ts[2], p})
		return decl(fmt.Sprintf("func (r %s%s) %s() {}", star, td.name, ts[2]))
	case "var", "func", "const":
		name := ts[1]
		t, _ := c36parseTy(ts[2:])
		var src string
		switch ts[0] {
		case "var":
			src = "var " + name + " " + t.src(w.aliases)
		case "func":
			src = "func " + name + "() {}"
		default:
			src = "const " + name + " = 7"
		}
		if _, dup := w.binds[name]; !dup {
			w.bindOrd = append(w.bindOrd, name)
		}
		w.binds[name] = src
		w.names[name] = true
		return decl(src)
	case "complete":
		return c36complete(w, ts)
	}
	return Result{Out: "bad-op"}
}

// methods whose name ends in 'p' or 'P' or a digit get a pointer receiver (so that the op needs no extra token
// and the Lean model, which does not distinguish receivers, reads the same op)
func c36ptrRecv(name string) bool {
	c := name[len(name)-1]
	return c == 'p' || c == 'P' || (c >= '0' && c <= '9')
}

func c36isIdent(s string) bool {
	if s == "" {
		return false
	}
	for i, r := range s {
		if r == '_' || unicode.IsLetter(r) || (i > 0 && unicode.IsDigit(r)) {
			continue
		}
		return false
	}
	return true
}

func c36identChar(r rune) bool { return r == '_' || unicode.IsLetter(r) || unicode.IsDigit(r) }

func c36decodeLine(tok string) string {
	if tok == "-" {
		return ""
	}
	var sb strings.Builder
	for _, n := range strings.Split(tok, ",") {
		v, _ := strconv.Atoi(n)
		sb.WriteRune(rune(v))
	}
	return sb.String()
}

func c36encodeLine(s string) string {
	if s == "" {
		return "-"
	}
	var p []string
	for _, r := range s {
		p = append(p, strconv.Itoa(int(r)))
	}
	return strings.Join(p, ",")
}

// the oracle's own reading of the text before the cursor: the trailing identifier (the typed prefix) and the
// dotted chain of identifiers before it (blanks allowed around the dots).
//   onWord=false : the text ends in blanks that do not follow a dot -- the cursor is not on a word
//   dotted=true  : the typed prefix follows a '.'; chain==nil then means the receiver is not an identifier chain
//   glued=true   : digits directly precede the typed prefix ("12ab": the number 12, then the identifier ab)
func c36parseHead(head string) (chain []string, typed string, dotted, onWord, glued bool) {
	rs := []rune(head)
	i := len(rs)
	ident := func() (string, bool) {
		j := i
		for j > 0 && c36identChar(rs[j-1]) {
			j--
		}
		k := j
		for k < i && unicode.IsDigit(rs[k]) {
			k++
		}
		id := string(rs[k:i])
		i = j
		return id, k > j
	}
	skipSpace := func() {
		for i > 0 && unicode.IsSpace(rs[i-1]) {
			i--
		}
	}
	typed, glued = ident()
	if glued {
		return nil, typed, false, true, true
	}
	save := i
	skipSpace()
	if i == 0 || rs[i-1] != '.' {
		_ = save
		if typed == "" {
			// no identifier at the cursor and no dot before it: not on a word
			return nil, "", false, false, false
		}
		return nil, typed, false, true, false
	}
	dotted = true
	for i > 0 && rs[i-1] == '.' {
		i--
		skipSpace()
		id, g := ident()
		if id == "" {
			return nil, typed, true, true, false
		}
		chain = append([]string{id}, chain...)
		if g {
			glued = true
			break
		}
		skipSpace()
	}
	return chain, typed, true, true, glued
}

func c36complete(w *c36world, ts []string) Result {
	pos, _ := strconv.Atoi(ts[1])
	line := c36decodeLine(ts[2])
	n0 := w.out.Len()
	tc := time.Now()
	head, comps, tail := w.ir.CompleteWords(line, pos)
	c36times["CompleteWords"] += time.Since(tc)
	printed := w.out.String()[n0:]
	w.out.Truncate(n0)
	panicked := strings.Contains(printed, "panic in Interp.CompleteWords")
	var out string
	if panicked {
		out = "panic"
	} else {
		out = fmt.Sprintf("h=%d t=%d c=%s", len(head), len(tail), strings.Join(comps, ","))
	}
	res := Result{Out: out, Sig: fmt.Sprintf("%d|%s", w.nth, strings.Join(ts[:3], " "))}
	tag := func(t string) { res.Tags = append(res.Tags, t) }
	viol := func(key, msg string) {
		// the harness keeps only the first 50 violations of a run: report every Key at most 3 times so that
		// a frequent (known) shape cannot push a new one out of the report; the tags count all of them
		if res.Viol == "" && c36reported[key] < 3 {
			c36reported[key]++
			res.Key = key
			res.Viol = fmt.Sprintf("CompleteWords(%q, %d) = (%q, %q, %q): %s", line, pos, head, comps, tail, msg)
			if dbg := os.Getenv("C36_DEBUG"); dbg != "" && strings.Contains(key, dbg) {
				fmt.Fprintf(os.Stderr, "C36_DEBUG %s | %s\n%s\n", key, res.Viol, w.mirrorSrc())
			}
		}
		tag("viol-" + key)
	}

	// --- the cursor: an index in runes, as liner defines it
	rs := []rune(line)
	cur := pos
	if cur > len(rs) {
		cur = len(rs)
		tag("pos>len")
	}
	if cur < 0 {
		tag("pos<0")
		cur = 0
	}
	before, after := string(rs[:cur]), string(rs[cur:])
	if len(before) != cur {
		tag("nonascii-before-cursor")
	}
	nonascii := len(before) != utf8.RuneCountInString(before)
	if panicked {
		viol("panic", "the completer panicked (recovered): "+oneLine(printed))
		return res
	}
	// --- (1) reassembly: head is a prefix of the text before the cursor, tail is the text after it
	if tail != after || !strings.HasPrefix(before, head) {
		if nonascii {
			viol("cursor-is-a-rune-index", fmt.Sprintf("liner passes the cursor in runes: text before the cursor is %q, after it %q; head+tail must rebuild the line around the cursor", before, after))
		} else {
			viol("head-tail-not-line", fmt.Sprintf("text before the cursor is %q, after it %q", before, after))
		}
		return res
	}
	dropped := before[len(head):]
	// --- (2) sorted and unique
	for i := 1; i < len(comps); i++ {
		if !(comps[i-1] < comps[i]) {
			viol("not-sorted-unique", fmt.Sprintf("%q before %q", comps[i-1], comps[i]))
		}
	}
	// --- (3) exactly the valid names with the typed prefix
	chain, typed, dotted, onWord, glued := c36parseHead(before)
	var want []string
	kind := "word"
	var why = map[string]string{}
	switch {
	case !onWord:
		kind = "no-word"
	case glued && len(chain) == 0:
		if typed != "" {
			want = c36wantWord(w, typed)
		}
	case len(chain) == 0 && dotted:
		// ".x" after something that is not an identifier chain (a call, an index, a literal): the completer
		// cannot know the receiver, global names are certainly not valid there
		kind = "unknown-receiver"
	case len(chain) == 0:
		if typed != "" {
			want = c36wantWord(w, typed)
		} else {
			kind = "no-word"
		}
	default:
		kind, want, why = c36wantMembers(w, chain, typed, comps)
	}
	tag(kind)
	if typed == "" {
		tag("empty-prefix")
	}
	if glued {
		tag("after-digits")
	}
	if len(comps) > 0 {
		tag("some-completions")
		if dropped != typed {
			viol("head-does-not-end-at-typed-prefix", fmt.Sprintf("typed prefix is %q but head drops %q", typed, dropped))
		}
	} else if dropped != "" {
		viol("head-shortened-without-completion", "")
	}
	res.Nontrivial = len(want) > 0 || len(comps) > 0
	got := map[string]bool{}
	for _, c := range comps {
		got[c] = true
		if !strings.HasPrefix(c, typed) {
			viol("completion-lacks-typed-prefix", c)
		}
	}
	wantSet := map[string]bool{}
	for _, n := range want {
		wantSet[n] = true
	}
	sort.Strings(want)
	for _, n := range want {
		if !got[n] {
			key := c36slug(kind, "missing", why[n])
			if glued {
				key = "after-digits-missing"
			}
			viol(key, fmt.Sprintf("%q is valid here (%s) and has the prefix %q but is not offered; valid: %q", n, why[n], typed, want))
			break
		}
	}
	for _, c := range comps {
		if !wantSet[c] {
			key := c36slug(kind, "offered-invalid", why[c])
			if kind == "word" && c == "template" {
				key += "-template"
			}
			viol(key, fmt.Sprintf("%q is offered but is not valid here (%s); valid: %q", c, why[c], want))
			break
		}
	}
	return res
}

func c36slug(kind, what, why string) string {
	s := kind + "-" + what
	if why != "" && kind == "member" {
		s += "-" + why
	}
	return s
}

// single word: linear scan over keywords, predeclared names and the names declared by this history
func c36wantWord(w *c36world, typed string) []string {
	set := map[string]bool{}
	add := func(names []string) {
		for _, n := range names {
			if strings.HasPrefix(n, typed) {
				set[n] = true
			}
		}
	}
	add(c36keywords())
	add(c36builtinBinds)
	add(c36builtinTypes)
	for n := range w.names {
		if strings.HasPrefix(n, typed) {
			set[n] = true
		}
	}
	var out []string
	for n := range set {
		out = append(out, n)
	}
	sort.Strings(out)
	return out
}

// members: the expression chain is judged by go/types on the mirror package
func c36wantMembers(w *c36world, chain []string, typed string, offered []string) (kind string, want []string, why map[string]string) {
	why = map[string]string{}
	w.remirror()
	if w.mirror == nil || w.merr != "" {
		panic("c36: mirror package does not type-check: " + w.merr + "\n" + w.mirrorSrc())
	}
	// package members: gomacro's own import table is what the harness knows about the package
	if len(chain) == 1 {
		for path, alias := range w.aliases {
			if alias == chain[0] && !c36shadowed(w, alias) {
				gp := imports.Packages[path]
				for n := range gp.Binds {
					if strings.HasPrefix(n, typed) {
						want = append(want, n)
					}
				}
				for n := range gp.Types {
					if strings.HasPrefix(n, typed) {
						want = append(want, n)
					}
				}
				return "package-member", want, why
			}
		}
	}
	expr := strings.Join(chain, ".")
	// is the chain rooted at a type (T.x, pkg.T.x)?  Only method expressions are valid there.
	typeRooted := false
	if tv0, err := w.checkExpr(chain[0]); err == nil && tv0.IsType() {
		typeRooted = true
	} else if len(chain) > 1 {
		if tv1, err := w.checkExpr(chain[0] + "." + chain[1]); err == nil && tv1.IsType() {
			typeRooted = true
		}
	}
	tv, err := w.checkExpr(expr)
	if err != nil || tv.Type == nil {
		// the receiver does not compile: no member can be valid
		if typeRooted {
			return "type-receiver", nil, why
		}
		return "invalid-receiver", nil, why
	}
	kind = "member"
	if typeRooted {
		kind = "type-receiver"
	}
	// candidate names: every field / method name reachable from the receiver type, the generator's name
	// pools (names that exist elsewhere in the state but must NOT be offered here), and what was offered
	cands := map[string]bool{}
	for _, l := range [][]string{c36fieldNames, c36methodNames, c36ifaceMethods, c36typeNames} {
		for _, n := range l {
			cands[n] = true
		}
	}
	for _, c := range offered {
		cands[c] = true
	}
	c36collectNames(tv.Type, cands, map[types.Type]bool{}, 0)
	for n := range cands {
		if !strings.HasPrefix(n, typed) || !c36isIdent(n) || n == "_" {
			continue
		}
		_, err := w.checkExpr(expr + "." + n)
		if err == nil {
			want = append(want, n)
			why[n] = c36whyValid(w, tv.Type, n)
			continue
		}
		why[n] = c36whyInvalid(w, tv, n)
	}
	// leniency: a name go/types rejects is tolerated when gomacro itself compiles the expression
	for _, c := range offered {
		if !strings.HasPrefix(c, typed) {
			continue
		}
		found := false
		for _, n := range want {
			if n == c {
				found = true
			}
		}
		if !found && w.gomacroAccepts(expr+"."+c) {
			want = append(want, c)
			why[c] = "gomacro-extension"
		}
	}
	return kind, want, why
}

func c36shadowed(w *c36world, alias string) bool {
	_, isBind := w.binds[alias]
	return isBind
}

// every field and method name reachable from t (candidates for the validity test)
func c36collectNames(t types.Type, into map[string]bool, seen map[types.Type]bool, depth int) {
	if t == nil || seen[t] || depth > 6 {
		return
	}
	seen[t] = true
	if p, ok := t.Underlying().(*types.Pointer); ok {
		c36collectNames(p.Elem(), into, seen, depth+1)
	}
	if n, ok := t.(*types.Named); ok {
		for i := 0; i < n.NumMethods(); i++ {
			into[n.Method(i).Name()] = true
		}
	}
	switch u := t.Underlying().(type) {
	case *types.Struct:
		for i := 0; i < u.NumFields(); i++ {
			into[u.Field(i).Name()] = true
			c36collectNames(u.Field(i).Type(), into, seen, depth+1)
		}
	case *types.Interface:
		for i := 0; i < u.NumMethods(); i++ {
			into[u.Method(i).Name()] = true
		}
	}
}

// stable slug saying through what a valid member is reached (used in the Key of a "missing" violation)
func c36whyValid(w *c36world, t types.Type, name string) string {
	viaPtrValue := false
	if p, ok := t.Underlying().(*types.Pointer); ok {
		viaPtrValue = true
		t = p.Elem()
	}
	obj, index, indirect := types.LookupFieldOrMethod(t, true, w.mirror, name)
	if obj == nil {
		// unexported names need the package
		return "member"
	}
	what := "field"
	if _, isFunc := obj.(*types.Func); isFunc {
		what = "method"
	}
	s := what
	if len(index) > 1 {
		s = "promoted-" + what
		if indirect {
			s += "-through-embedded-pointer"
		}
	}
	if viaPtrValue {
		s += "-of-pointer-value"
	}
	return s
}

func c36whyInvalid(w *c36world, tv types.TypeAndValue, name string) string {
	t := tv.Type
	depthPtr := 0
	for {
		p, ok := t.Underlying().(*types.Pointer)
		if !ok {
			break
		}
		t = p.Elem()
		depthPtr++
	}
	obj, index, _ := types.LookupFieldOrMethod(t, true, w.mirror, name)
	switch {
	case obj == nil && index != nil:
		return "ambiguous-selector"
	case obj == nil && !token.IsExported(name) && c36foreignMember(w, t, name):
		return "unexported-name-of-other-package"
	case obj == nil:
		return "not-a-member"
	case depthPtr > 1:
		return "pointer-to-pointer-receiver"
	case tv.IsType():
		if _, isVar := obj.(*types.Var); isVar {
			return "field-of-a-type"
		}
		return "method-not-in-method-set-of-type"
	case depthPtr == 1 && types.IsInterface(t):
		return "pointer-to-interface"
	}
	return "not-selectable"
}

// name is an unexported field/method of t (possibly promoted) declared in an imported package
func c36foreignMember(w *c36world, t types.Type, name string) bool {
	for _, imp := range w.mirror.Imports() {
		if obj, _, _ := types.LookupFieldOrMethod(t, true, imp, name); obj != nil {
			return true
		}
	}
	for _, path := range []string{"sync", "sync/atomic", "io", "bytes", "strings"} {
		if obj, _, _ := types.LookupFieldOrMethod(t, true, c36import(path), name); obj != nil {
			return true
		}
	}
	return false
}

// ---------------------------------------------------------------- Gen

var c36typeNames = []string{"A", "B", "Ab", "Abc", "T1", "Node", "Pt", "Éa", "node"}
var c36fieldNames = []string{"X", "Y", "x", "y", "Foo", "Fo", "foo", "Next", "Len", "M", "Name", "Na", "val", "Val", "λ1"}
var c36methodNames = []string{"M", "Mp", "Foo", "String", "Len", "Lenp", "m", "Fo", "Get", "Getp", "Set1", "X", "Name"}
var c36varNames = []string{"a", "b", "ab", "abc", "p", "pp", "x", "foo", "fo", "f1", "len", "any", "λ", "é1", "a1", "_x", "x_1", "app", "str", "cap", "err", "v", "va", "var1", "fun", "ty", "imp"}
var c36ifaceMethods = []string{"Foo", "Bar", "Len", "String", "M", "Close"}
var c36pkgs = [][2]string{{"strings", "strings"}, {"bytes", "bytes"}, {"sort", "sort"}, {"container/list", "list"}, {"errors", "errors"}, {"time", "time"}, {"math", "math"}, {"sync", "sync"}, {"bufio", "bufio"}}
var c36altAlias = []string{"str", "s2", "pk", "ab"}

type c36genType struct {
	name    string
	under   string
	fields  []c36field
	ims     []string
	methods []string
}

type c36genWorld struct {
	types   []*c36genType
	imports [][2]string            // path, alias
	pkgs    map[string]*c36pkgDesc // by path
	binds   []string               // names
	bindTy  map[string]*c36ty
}

func pick[T any](r *rand.Rand, l []T) T { return l[r.Intn(len(l))] }

// members one can type after a value of type t: name -> type (nil for methods / unknown)
func (g *c36genWorld) membersOf(t *c36ty, depth int, into map[string]*c36ty) {
	if t == nil || depth > 3 {
		return
	}
	switch t.k {
	case 'P':
		if depth == 0 || t.elem.k == 'N' {
			g.membersOf(t.elem, depth+1, into)
		}
	case 'I':
		for _, m := range t.ms {
			into[m] = nil
		}
	case 'E':
		into["Error"] = nil
	case 'N':
		if i := strings.LastIndexByte(t.name, '.'); i >= 0 {
			if pd := g.pkgs[t.name[:i]]; pd != nil {
				for _, m := range pd.members[t.name] {
					if _, dup := into[m]; !dup {
						into[m] = nil
					}
				}
			}
			return
		}
		for _, gt := range g.types {
			if gt.name != t.name {
				continue
			}
			for _, m := range gt.methods {
				if _, dup := into[m]; !dup {
					into[m] = nil
				}
			}
			for _, m := range gt.ims {
				into[m] = nil
			}
			for _, f := range gt.fields {
				if _, dup := into[f.name]; !dup {
					into[f.name] = f.ty
				}
			}
			for _, f := range gt.fields {
				if f.anon {
					g.membersOf(f.ty, depth+1, into)
				}
			}
		}
	}
}

func (g *c36genWorld) randomValueType(r *rand.Rand) *c36ty {
	k := r.Intn(20)
	switch {
	case k < 8 && len(g.types) > 0:
		t := &c36ty{k: 'N', name: pick(r, g.types).name}
		switch r.Intn(8) {
		case 0, 1, 2:
			return &c36ty{k: 'P', elem: t}
		case 3:
			if r.Intn(4) == 0 {
				return &c36ty{k: 'P', elem: &c36ty{k: 'P', elem: t}}
			}
		}
		return t
	case k < 11 && len(g.imports) > 0:
		imp := pick(r, g.imports)
		pd := g.pkgs[imp[0]]
		if len(pd.types) > 0 {
			t := &c36ty{k: 'N', name: imp[0] + "." + pick(r, pd.types)}
			if r.Intn(2) == 0 {
				return &c36ty{k: 'P', elem: t}
			}
			return t
		}
	case k < 13:
		n := 1 + r.Intn(3)
		perm := r.Perm(len(c36ifaceMethods))[:n]
		var ms []string
		for _, i := range perm {
			ms = append(ms, c36ifaceMethods[i])
		}
		sort.Strings(ms) // go/types and gomacro both sort interface methods by name
		return &c36ty{k: 'I', ms: ms}
	case k < 14:
		return &c36ty{k: 'E'}
	}
	return &c36ty{k: 'B', b: pick(r, []string{"", "", "s", "f", "l", "m", "a", "c", "b"})}
}

func c36exported(name string) bool { return token.IsExported(name) }

func (g *c36genWorld) genType(r *rand.Rand, name string, emit func(string)) {
	gt := &c36genType{name: name}
	switch k := r.Intn(20); {
	case k < 14:
		gt.under = "S"
		used := map[string]bool{}
		nf := r.Intn(5)
		for i := 0; i < nf; i++ {
			var f c36field
			if r.Intn(5) < 2 {
				// embedded field: an earlier type, itself through a pointer, an imported type, or error
				f.anon = true
				switch e := r.Intn(10); {
				case e < 6 && len(g.types) > 0:
					et := pick(r, g.types)
					f.name = et.name
					f.ty = &c36ty{k: 'N', name: et.name}
					if et.under != "I" && r.Intn(2) == 0 {
						f.ty = &c36ty{k: 'P', elem: f.ty}
					}
				case e < 7:
					f.name = name
					f.ty = &c36ty{k: 'P', elem: &c36ty{k: 'N', name: name}}
				case e < 9 && len(g.imports) > 0:
					imp := pick(r, g.imports)
					pd := g.pkgs[imp[0]]
					if len(pd.types) == 0 {
						continue
					}
					tn := pick(r, pd.types)
					f.name = tn
					f.ty = &c36ty{k: 'N', name: imp[0] + "." + tn}
					if !c36isIfaceDesc(pd, imp[0]+"."+tn) && r.Intn(2) == 0 {
						f.ty = &c36ty{k: 'P', elem: f.ty}
					}
				default:
					f.name = "error"
					f.ty = &c36ty{k: 'E'}
				}
			} else {
				f.name = pick(r, c36fieldNames)
				f.ty = g.randomValueType(r)
				if f.ty.k == 'N' && f.ty.name == name {
					f.ty = &c36ty{k: 'P', elem: f.ty}
				}
			}
			if used[f.name] || f.name == "_" {
				continue
			}
			used[f.name] = true
			f.acc = true // declared in main
			gt.fields = append(gt.fields, f)
		}
	case k < 17:
		gt.under = "I"
		n := r.Intn(4)
		for _, i := range r.Perm(len(c36ifaceMethods))[:n] {
			gt.ims = append(gt.ims, c36ifaceMethods[i])
		}
		sort.Strings(gt.ims)
	default:
		gt.under = "B"
	}
	ts := []string{"type", name, gt.under}
	switch gt.under {
	case "S":
		ts = append(ts, strconv.Itoa(len(gt.fields)))
		for _, f := range gt.fields {
			ts = append(ts, f.name, c36b(f.anon), c36b(f.acc))
			ts = append(ts, f.ty.toks()...)
		}
	case "I":
		ts = append(ts, strconv.Itoa(len(gt.ims)))
		ts = append(ts, gt.ims...)
	}
	g.types = append(g.types, gt)
	emit(strings.Join(ts, " "))
	if gt.under != "I" {
		nm := r.Intn(4)
		for i := 0; i < nm; i++ {
			m := pick(r, c36methodNames)
			dup := false
			for _, f := range gt.fields {
				dup = dup || f.name == m
			}
			for _, x := range gt.methods {
				dup = dup || x == m
			}
			if dup {
				continue
			}
			gt.methods = append(gt.methods, m)
			emit("method " + name + " " + m)
		}
	}
}

func c36isIfaceDesc(pd *c36pkgDesc, q string) bool {
	for _, it := range pd.itypes {
		if strings.HasPrefix(it, "itype "+q+" I ") {
			return true
		}
	}
	return false
}

func (g *c36genWorld) genImport(r *rand.Rand, emit func(string), emitted map[string]bool) {
	p := pick(r, c36pkgs)
	if g.pkgs[p[0]] != nil {
		return
	}
	alias := p[1]
	if r.Intn(4) == 0 {
		alias = pick(r, c36altAlias)
	}
	for _, i := range g.imports {
		if i[1] == alias {
			return
		}
	}
	pd := c36describePkg(p[0])
	for _, it := range pd.itypes {
		if !emitted[it] {
			emitted[it] = true
			emit(it)
		}
	}
	g.pkgs[p[0]] = pd
	g.imports = append(g.imports, [2]string{p[0], alias})
	emit(pd.importOp(alias))
}

var c36contexts = []string{"", "", "", "x := ", "f(", "a + ", "  ", "\t", "if ", "go ", "return ", "[]", "&", "*", "1+", "(", "x, ", "s := \"é\" + ", "λ := ", "/* 世 */ ", "x = ", "12", "1", "0x", "x.y().", "f().", "a[0].", "\"s\".", ").", "3.", "..", "世", "٣", "x ٣", "é"}
var c36tails = []string{"", "", "", ")", " + 1", "()", ".x", " ", "z", "é)", "世"}

func (g *c36genWorld) genLine(r *rand.Rand) (line string, pos int) {
	var sb strings.Builder
	sb.WriteString(pick(r, c36contexts))
	dot := func() {
		sb.WriteString(pick(r, []string{"", "", "", " ", "  ", "\t"}))
		sb.WriteByte('.')
		sb.WriteString(pick(r, []string{"", "", "", " ", " \t"}))
	}
	cut := func(name string) string {
		rs := []rune(name)
		switch r.Intn(6) {
		case 0:
			return ""
		case 1:
			return name
		case 2:
			return name + pick(r, []string{"x", "1", "_", "é"})
		}
		return string(rs[:r.Intn(len(rs)+1)])
	}
	var allNames []string
	allNames = append(allNames, g.binds...)
	for _, t := range g.types {
		allNames = append(allNames, t.name)
	}
	for _, i := range g.imports {
		allNames = append(allNames, i[1])
	}
	allNames = append(allNames, c36builtinBinds...)
	allNames = append(allNames, c36builtinTypes...)
	allNames = append(allNames, c36goKeywords...)
	allNames = append(allNames, "macro", "template", "nosuch", "zz")
	switch k := r.Intn(10); {
	case k < 3:
		// a single word
		sb.WriteString(cut(pick(r, allNames)))
	default:
		// a chain
		var t *c36ty
		var start string
		var pd *c36pkgDesc
		switch s := r.Intn(10); {
		case s < 6 && len(g.binds) > 0:
			start = pick(r, g.binds)
			if _, fam := g.bindTy["q"]; fam && r.Intn(3) == 0 {
				start = pick(r, []string{"q", "qp"})
			}
			t = g.bindTy[start]
		case s < 8 && len(g.types) > 0:
			start = pick(r, g.types).name
			t = &c36ty{k: 'N', name: start}
		case len(g.imports) > 0:
			imp := pick(r, g.imports)
			start = imp[1]
			pd = g.pkgs[imp[0]]
		default:
			start = pick(r, allNames)
		}
		sb.WriteString(start)
		steps := r.Intn(4)
		for s := 0; ; s++ {
			dot()
			// candidate members at this point
			var names []string
			mem := map[string]*c36ty{}
			if pd != nil {
				for i, b := range pd.binds {
					names = append(names, b[0])
					mem[b[0]] = pd.btys[i]
				}
				for _, n := range pd.types {
					names = append(names, n)
					mem[n] = &c36ty{k: 'N', name: pd.path + "." + n}
				}
			} else {
				g.membersOf(t, 0, mem)
				for n := range mem {
					names = append(names, n)
				}
				sort.Strings(names)
			}
			var next string
			if len(names) > 0 && r.Intn(10) < 8 {
				next = pick(r, names)
			} else {
				next = pick(r, append(append([]string{}, c36fieldNames...), c36methodNames...))
			}
			if s >= steps {
				sb.WriteString(cut(next))
				break
			}
			sb.WriteString(next)
			t = mem[next]
			pd = nil
		}
	}
	if r.Intn(12) == 0 {
		sb.WriteString(pick(r, []string{" ", "  ", "\t", "+", "(", " "}))
	}
	head := sb.String()
	pos = utf8.RuneCountInString(head)
	line = head + pick(r, c36tails)
	switch r.Intn(25) {
	case 0:
		pos = r.Intn(utf8.RuneCountInString(line) + 1)
	case 1:
		pos = utf8.RuneCountInString(line) + 1 + r.Intn(3)
	case 2:
		if r.Intn(4) == 0 {
			pos = -1 - r.Intn(2)
		}
	}
	return line, pos
}

func (g *c36genWorld) genBind(r *rand.Rand, emit func(string)) {
	name := pick(r, c36varNames)
	for _, im := range g.imports {
		if im[1] == name {
			return
		}
	}
	kind := pick(r, []string{"var", "var", "var", "var", "var", "func", "const"})
	t := &c36ty{k: 'B'}
	if kind == "var" {
		t = g.randomValueType(r)
	}
	if _, dup := g.bindTy[name]; !dup {
		g.binds = append(g.binds, name)
	}
	g.bindTy[name] = t
	emit(kind + " " + name + " " + strings.Join(t.toks(), " "))
}

// genFamily declares a wide AND deep embedding tree: every inner node embeds 2-3 structs (by value or
// through a pointer), 3 levels, own fields and methods at every node -- so that the breadth-first walk of
// VisitFields meets levels of different sizes, and names promoted from a LATER embedded struct exist.
// Children are declared before their parent.  Returns the name of the root type.
func (g *c36genWorld) genFamily(r *rand.Rand, root string, emit func(string)) string {
	var build func(name string, level int)
	build = func(name string, level int) {
		gt := &c36genType{name: name, under: "S"}
		if level < 2 {
			nkids := 2 + r.Intn(2)
			for k := 0; k < nkids; k++ {
				kid := name + string(rune('a'+k))
				build(kid, level+1)
				ty := &c36ty{k: 'N', name: kid}
				if r.Intn(3) == 0 {
					ty = &c36ty{k: 'P', elem: ty}
				}
				gt.fields = append(gt.fields, c36field{name: kid, anon: true, acc: true, ty: ty})
			}
		}
		// own fields: one unique to the node, sometimes one shared with other nodes (shadowing / duplicates)
		own := []c36field{{name: "F" + name, acc: true, ty: &c36ty{k: 'B'}}}
		if r.Intn(2) == 0 {
			own = append(own, c36field{name: pick(r, []string{"Name", "X", "val", "Len"}), acc: true, ty: &c36ty{k: 'B', b: "s"}})
		}
		// fields before, between or after the embedded ones
		at := r.Intn(len(gt.fields) + 1)
		fs := append([]c36field{}, gt.fields[:at]...)
		fs = append(fs, own...)
		gt.fields = append(fs, gt.fields[at:]...)
		ts := []string{"type", name, "S", strconv.Itoa(len(gt.fields))}
		for _, f := range gt.fields {
			ts = append(ts, f.name, c36b(f.anon), c36b(f.acc))
			ts = append(ts, f.ty.toks()...)
		}
		g.types = append(g.types, gt)
		emit(strings.Join(ts, " "))
		for _, m := range []string{"M" + name, "M" + name + "p", pick(r, []string{"String", "Get", "Foo"})} {
			dup := false
			for _, f := range gt.fields {
				dup = dup || f.name == m
			}
			if dup || r.Intn(3) == 0 {
				continue
			}
			gt.methods = append(gt.methods, m)
			emit("method " + name + " " + m)
		}
	}
	build(root, 0)
	return root
}

func c36genWorldOps(r *rand.Rand, emit func(string), nlines int, emitted map[string]bool) {
	emit(c36resetOp())
	for k := range emitted {
		delete(emitted, k)
	}
	g := &c36genWorld{pkgs: map[string]*c36pkgDesc{}, bindTy: map[string]*c36ty{}}
	for i, n := 0, r.Intn(3); i < n; i++ {
		g.genImport(r, emit, emitted)
	}
	nt := r.Intn(6)
	perm := r.Perm(len(c36typeNames))
	for i := 0; i < nt; i++ {
		g.genType(r, c36typeNames[perm[i]], emit)
	}
	nv := 2 + r.Intn(6)
	for i := 0; i < nv; i++ {
		g.genBind(r, emit)
	}
	// every other state: a wide and deep embedding tree with a value and a pointer variable of the root type
	if r.Intn(2) == 0 {
		root := g.genFamily(r, pick(r, []string{"Q", "W", "Tr"}), emit)
		for _, v := range [][2]string{{"q", ""}, {"qp", "P "}} {
			name := v[0]
			if _, dup := g.bindTy[name]; !dup {
				g.binds = append(g.binds, name)
			}
			t, _ := c36parseTy(strings.Fields(v[1] + "N " + root))
			g.bindTy[name] = t
			emit("var " + name + " " + strings.Join(t.toks(), " "))
		}
	}
	used := nt
	for i := 0; i < nlines; i++ {
		line, pos := g.genLine(r)
		emit(fmt.Sprintf("complete %d %s # %s", pos, c36encodeLine(line), strconv.QuoteToASCII(line)))
		// keep declaring in the middle of a history: the state a line is completed in keeps changing
		if i%15 == 14 {
			if r.Intn(2) == 0 && used < len(c36typeNames) {
				g.genType(r, c36typeNames[perm[used]], emit)
				used++
			} else {
				g.genBind(r, emit)
			}
		}
	}
}

// bounded-exhaustive part: every cursor position of a set of short lines over a fixed small state
func c36genExhaustive(emit func(string)) {
	emit(c36resetOp())
	emit("type A S 2 X 0 1 B Fo 0 1 B")
	emit("method A Foo")
	emit("method A Mp")
	emit("type B S 3 A 1 1 P N A Y 0 1 N A X 0 1 Bs")
	emit("var a N A")
	emit("var ab P N B")
	emit("var fo B")
	emit("func foo B")
	emit("func println B")
	// wide and deep embedding: Outer{Left; Right}, Left{LeafA; LeafB}
	emit("type LeafA S 1 Alpha 0 1 B")
	emit("type LeafB S 1 Beta 0 1 B")
	emit("type Left S 3 LeafA 1 1 N LeafA LeafB 1 1 N LeafB Lfield 0 1 B")
	emit("type Right S 2 Rfield 0 1 B Rother 0 1 Bs")
	emit("method Right Rmethod")
	emit("type Outer S 3 Left 1 1 N Left Right 1 1 N Right Own 0 1 B")
	emit("var outer N Outer")
	lines := []string{"a.F", "ab.A.Fo", "ab . Y . M", "fo", "fo ", " fo", "x+fo)", "ab.", "ab. ", "a.X.", "1ab", "12ab", "a.1F", "é+fo", "\"世\".F", "fo.é", "f(ab.Y.F, a.", "ab..A", ".fo", "a.Foo.x", "A.F", "B.A.", "nil.", "fo ", "goto", "ma", "te", "x.y().F", "outer.R", "outer.", "outer. R", "outer.Left.", "pr", "ab. X", "ab.\tFo"}
	for _, l := range lines {
		n := utf8.RuneCountInString(l)
		for p := 0; p <= n+1; p++ {
			emit(fmt.Sprintf("complete %d %s # %s", p, c36encodeLine(l), strconv.QuoteToASCII(l)))
		}
	}
}

func c36gen(r *rand.Rand, tier string, emit func(string)) {
	c36genExhaustive(emit)
	nw, nl := 40, 150
	if tier == "thorough" {
		nw, nl = 400, 200
	}
	emitted := map[string]bool{}
	for i := 0; i < nw; i++ {
		c36genWorldOps(r, emit, nl, emitted)
	}
}

// ---------------------------------------------------------------- extractor: keyword table of fast/repl.go

func c36extract(repo, genDir string) error {
	fset := token.NewFileSet()
	f, err := parser.ParseFile(fset, filepath.Join(repo, "fast", "repl.go"), nil, 0)
	if err != nil {
		return err
	}
	var lo, hi string
	var extras []string
	size := -1
	found := false
	for _, d := range f.Decls {
		fd, ok := d.(*ast.FuncDecl)
		if !ok || fd.Name.Name != "init" || fd.Recv != nil {
			continue
		}
		uses := false
		ast.Inspect(fd, func(n ast.Node) bool {
			if id, ok := n.(*ast.Ident); ok && id.Name == "keywords" {
				uses = true
			}
			return true
		})
		if !uses {
			continue
		}
		found = true
		for _, st := range fd.Body.List {
			switch st := st.(type) {
			case *ast.AssignStmt:
				// lo, hi := token.BREAK, token.VAR
				if len(st.Lhs) == 2 && len(st.Rhs) == 2 && st.Tok == token.DEFINE {
					l, ok1 := st.Rhs[0].(*ast.SelectorExpr)
					h, ok2 := st.Rhs[1].(*ast.SelectorExpr)
					if ok1 && ok2 {
						lo, hi = l.Sel.Name, h.Sel.Name
					}
					continue
				}
				// keywords = make([]string, hi-lo+K)
				if len(st.Lhs) == 1 && len(st.Rhs) == 1 {
					if call, ok := st.Rhs[0].(*ast.CallExpr); ok && len(call.Args) == 2 {
						if be, ok := call.Args[1].(*ast.BinaryExpr); ok {
							if lit, ok := be.Y.(*ast.BasicLit); ok {
								size, _ = strconv.Atoi(lit.Value)
							}
						}
						continue
					}
					// keywords[hi-lo+K] = "lit"
					if ix, ok := st.Lhs[0].(*ast.IndexExpr); ok {
						lit, ok2 := st.Rhs[0].(*ast.BasicLit)
						be, ok3 := ix.Index.(*ast.BinaryExpr)
						if ok2 && ok3 {
							k, _ := strconv.Atoi(be.Y.(*ast.BasicLit).Value)
							s, _ := strconv.Unquote(lit.Value)
							if k != len(extras)+1 {
								return fmt.Errorf("keywords: extra entries are not assigned at consecutive indices")
							}
							extras = append(extras, s)
							continue
						}
					}
				}
				return fmt.Errorf("keywords init: unrecognised statement at %v", fset.Position(st.Pos()))
			case *ast.ForStmt:
				// for tok := lo; tok <= hi; tok++ { keywords[tok-lo] = tok.String() }
			default:
				return fmt.Errorf("keywords init: unrecognised statement at %v", fset.Position(st.Pos()))
			}
		}
	}
	if !found || lo == "" || hi == "" {
		return fmt.Errorf("keywords init not found in fast/repl.go")
	}
	byName := map[string]token.Token{}
	for t := token.Token(0); t < 200; t++ {
		if t.IsKeyword() {
			byName[strings.ToUpper(t.String())] = t
		}
	}
	tlo, ok1 := byName[lo]
	thi, ok2 := byName[hi]
	if !ok1 || !ok2 {
		return fmt.Errorf("keywords init: token.%s / token.%s are not keyword tokens", lo, hi)
	}
	var kws []string
	for t := tlo; t <= thi; t++ {
		kws = append(kws, t.String())
	}
	if size != len(extras)+1 {
		return fmt.Errorf("keywords init: make size hi-lo+%d does not match %d extra entries", size, len(extras))
	}
	kws = append(kws, extras...)
	var sb strings.Builder
	sb.WriteString("-- GENERATED by harness extract -prop C36 from fast/repl.go (func init: keywords). Do not edit.\n")
	sb.WriteString("namespace Gen\n\n/-- `keywords` of fast/repl.go, in table order, as code points -/\ndef completeKeywords : List (List Nat) := [\n")
	for i, k := range kws {
		var cp []string
		for _, r := range k {
			cp = append(cp, strconv.Itoa(int(r)))
		}
		sep := ","
		if i == len(kws)-1 {
			sep = ""
		}
		fmt.Fprintf(&sb, "  [%s]%s -- %s\n", strings.Join(cp, ", "), sep, k)
	}
	sb.WriteString("]\n\nend Gen\n")
	return os.WriteFile(filepath.Join(genDir, "CompleteKw.lean"), []byte(sb.String()), 0o644)
}

func init() {
	extractors["C36"] = c36extract
	register(&Prop{
		ID: "C36",
		Rule: "random interpreter states (0-2 imports of 9 std packages, 0-6 named types: structs with plain/embedded/pointer-embedded/self-embedded/imported-embedded fields, interfaces, other named types, value and pointer methods; 2-7 vars/funcs/consts incl. names shadowing builtins) built through real declarations; per state 40 (quick) / 60 (thorough) lines = context + word or dotted chain following the declared structure (80% valid steps) cut at a random point + tail, cursor at the cut (92%), random, past the end or negative; plus every cursor position of 28 fixed lines over a fixed state. Non-trivial: the oracle expects or the completer offers at least one name; distinct by (state, line, cursor).",
		Gen:        c36gen,
		Exec:       c36exec,
		Exhaustive: func(tier string) bool { return false },
	})
}
