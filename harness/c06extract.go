package main

// Extractor for C06: every place in fast/*.go where an interpreted function value is built, i.e.
// every function literal that calls newEnv4Func.  The model's operations makeClosure / call / ret
// assume the same protocol at all of them (616 sites, most of them generated arms of
// func1ret1.go / func2ret0.go that random programs reach only rarely):
//
//	func(env *Env) xr.Value {            // creator P, runs when the func literal/declaration is evaluated
//		env.MarkUsedByClosure()          //   marks      : before the closure is built
//		return ...(func(args) results {  // wrapper L, runs at every call
//			env := newEnv4Func(env, ...) //   allocFirst : first statement, Outer = the captured env
//			...
//			env.freeEnv4Func()           //   frees      : released, and no return before the release
//			                             //   reachable  : not in the default clause of a switch listing all optimized kinds
//			return
//		})
//	}
//
// The table goes to lean/Gen/C06Sites.lean; Props/C06.lean proves by `decide` that every row
// satisfies the protocol.

import (
	"fmt"
	"go/ast"
	"go/parser"
	"go/token"
	"os"
	"path/filepath"
	"sort"
	"strings"
)

type c06Site struct {
	file                                 string
	line                                 int
	allocFirst, marks, frees, outerParam bool
	reachable                            bool // false: inside the default clause of a switch over ALL optimized kinds
}

// c06OptimizedKinds parses base/reflect/reflect.go: the kinds listed by IsOptimizedKind.
// funcCreate (fast/function.go) enters the funcXretY specialisations only when every parameter
// and result kind satisfies IsOptimizedKind.
func c06OptimizedKinds(repo string) (map[string]bool, error) {
	fset := token.NewFileSet()
	f, err := parser.ParseFile(fset, filepath.Join(repo, "base", "reflect", "reflect.go"), nil, 0)
	if err != nil {
		return nil, err
	}
	kinds := map[string]bool{}
	for _, d := range f.Decls {
		fd, ok := d.(*ast.FuncDecl)
		if !ok || fd.Name.Name != "IsOptimizedKind" || fd.Body == nil {
			continue
		}
		ast.Inspect(fd.Body, func(n ast.Node) bool {
			if cc, ok := n.(*ast.CaseClause); ok {
				for _, e := range cc.List {
					if sel, ok := e.(*ast.SelectorExpr); ok {
						kinds[sel.Sel.Name] = true
					}
				}
			}
			return true
		})
	}
	if len(kinds) == 0 {
		return nil, fmt.Errorf("IsOptimizedKind not found in base/reflect/reflect.go")
	}
	return kinds, nil
}

// c06Unreachable: pos lies in the default clause of a switch on a plain identifier whose other
// clauses list every optimized kind
func c06Unreachable(sw *ast.SwitchStmt, pos token.Pos, optimized map[string]bool) bool {
	if _, ok := sw.Tag.(*ast.Ident); !ok {
		return false
	}
	listed := map[string]bool{}
	inDefault := false
	for _, st := range sw.Body.List {
		cc, ok := st.(*ast.CaseClause)
		if !ok {
			continue
		}
		if cc.List == nil {
			inDefault = cc.Pos() <= pos && pos < cc.End()
			continue
		}
		for _, e := range cc.List {
			if sel, ok := e.(*ast.SelectorExpr); ok {
				listed[sel.Sel.Name] = true
			}
		}
	}
	if !inDefault {
		return false
	}
	for k := range optimized {
		if !listed[k] {
			return false
		}
	}
	return true
}

func c06IsCall(e ast.Expr, recv, name string) bool {
	call, ok := e.(*ast.CallExpr)
	if !ok {
		return false
	}
	if recv == "" {
		id, ok := call.Fun.(*ast.Ident)
		return ok && id.Name == name
	}
	sel, ok := call.Fun.(*ast.SelectorExpr)
	if !ok || sel.Sel.Name != name {
		return false
	}
	id, ok := sel.X.(*ast.Ident)
	return ok && id.Name == recv
}

func c06ExtractSites(repo string) ([]c06Site, error) {
	files, err := filepath.Glob(filepath.Join(repo, "fast", "*.go"))
	if err != nil {
		return nil, err
	}
	sort.Strings(files)
	optimized, err := c06OptimizedKinds(repo)
	if err != nil {
		return nil, err
	}
	var sites []c06Site
	fset := token.NewFileSet()
	for _, fn := range files {
		base := filepath.Base(fn)
		if strings.HasSuffix(base, "_test.go") || strings.HasPrefix(base, "verif_") {
			continue
		}
		f, err := parser.ParseFile(fset, fn, nil, 0)
		if err != nil {
			return nil, err
		}
		var stack []ast.Node // enclosing FuncLit / FuncDecl
		var switches []*ast.SwitchStmt
		var visit func(n ast.Node) bool
		visit = func(n ast.Node) bool {
			switch x := n.(type) {
			case *ast.SwitchStmt:
				switches = append(switches, x)
				if x.Init != nil {
					ast.Inspect(x.Init, visit)
				}
				ast.Inspect(x.Body, visit)
				switches = switches[:len(switches)-1]
				return false
			case *ast.FuncLit:
				stack = append(stack, x)
				ast.Inspect(x.Body, visit)
				stack = stack[:len(stack)-1]
				return false
			case *ast.FuncDecl:
				if x.Body == nil {
					return false
				}
				stack = append(stack, x)
				ast.Inspect(x.Body, visit)
				stack = stack[:len(stack)-1]
				return false
			case *ast.CallExpr:
				if !c06IsCall(x, "", "newEnv4Func") || len(stack) == 0 {
					return true
				}
				site := c06Site{file: base, line: fset.Position(x.Pos()).Line, reachable: true}
				for _, sw := range switches {
					if c06Unreachable(sw, x.Pos(), optimized) {
						site.reachable = false
					}
				}
				l, isLit := stack[len(stack)-1].(*ast.FuncLit)
				if isLit && len(l.Body.List) > 0 {
					// allocFirst: `env := newEnv4Func(env, ...)` is the first statement
					if as, ok := l.Body.List[0].(*ast.AssignStmt); ok && as.Tok == token.DEFINE && len(as.Lhs) == 1 && len(as.Rhs) == 1 && as.Rhs[0] == ast.Expr(x) {
						lhs, ok1 := as.Lhs[0].(*ast.Ident)
						arg, ok2 := ast.Expr(nil), false
						if len(x.Args) > 0 {
							arg, ok2 = x.Args[0], true
						}
						if ok1 && ok2 && lhs.Name == "env" {
							if id, ok := arg.(*ast.Ident); ok && id.Name == "env" {
								site.allocFirst = true
							}
						}
					}
					// frees: a top-level `env.freeEnv4Func()` and no return statement before it
					freePos := token.NoPos
					for _, st := range l.Body.List {
						if es, ok := st.(*ast.ExprStmt); ok && c06IsCall(es.X, "env", "freeEnv4Func") {
							freePos = es.Pos()
							break
						}
					}
					if freePos != token.NoPos {
						site.frees = true
						ast.Inspect(l.Body, func(m ast.Node) bool {
							if _, ok := m.(*ast.FuncLit); ok {
								return false
							}
							if r, ok := m.(*ast.ReturnStmt); ok && r.Pos() < freePos {
								site.frees = false
							}
							return true
						})
					}
					// the creator
					if len(stack) >= 2 {
						var pbody *ast.BlockStmt
						var ptype *ast.FuncType
						switch p := stack[len(stack)-2].(type) {
						case *ast.FuncLit:
							pbody, ptype = p.Body, p.Type
						case *ast.FuncDecl:
							pbody, ptype = p.Body, p.Type
						}
						if ptype != nil && ptype.Params != nil && len(ptype.Params.List) > 0 && len(ptype.Params.List[0].Names) > 0 &&
							ptype.Params.List[0].Names[0].Name == "env" {
							site.outerParam = true
						}
						if pbody != nil {
							for _, st := range pbody.List {
								if st.Pos() > l.Pos() {
									break
								}
								if st.End() >= l.End() {
									break // the statement containing the wrapper
								}
								if es, ok := st.(*ast.ExprStmt); ok && c06IsCall(es.X, "env", "MarkUsedByClosure") {
									site.marks = true
								}
							}
						}
					}
				}
				sites = append(sites, site)
				return true
			}
			return true
		}
		ast.Inspect(f, visit)
	}
	return sites, nil
}

func c06Extract(repo, genDir string) error {
	sites, err := c06ExtractSites(repo)
	if err != nil {
		return err
	}
	var sb strings.Builder
	sb.WriteString("/- REGENERATED by harness/c06extract.go from fast/*.go: every function literal calling newEnv4Func -/\n")
	sb.WriteString("namespace Gen.C06\n\nstructure Site where\n  file : String\n  line : Nat\n  allocFirst : Bool\n  marks : Bool\n  frees : Bool\n  outerParam : Bool\n  reachable : Bool\n  deriving Repr\n\n")
	const chunk = 64
	nchunks := 0
	for i := 0; i < len(sites); i += chunk {
		fmt.Fprintf(&sb, "def sites%d : List Site := [\n", nchunks)
		end := i + chunk
		if end > len(sites) {
			end = len(sites)
		}
		for j := i; j < end; j++ {
			s := sites[j]
			sep := ","
			if j == end-1 {
				sep = ""
			}
			fmt.Fprintf(&sb, "  ⟨%q, %d, %v, %v, %v, %v, %v⟩%s\n", s.file, s.line, s.allocFirst, s.marks, s.frees, s.outerParam, s.reachable, sep)
		}
		sb.WriteString("]\n\n")
		nchunks++
	}
	sb.WriteString("def sites : List Site :=\n  ")
	if nchunks == 0 {
		sb.WriteString("[]")
	}
	for k := 0; k < nchunks; k++ {
		if k > 0 {
			sb.WriteString(" ++ ")
		}
		fmt.Fprintf(&sb, "sites%d", k)
	}
	sb.WriteString("\n\nend Gen.C06\n")
	return os.WriteFile(filepath.Join(genDir, "C06Sites.lean"), []byte(sb.String()), 0o644)
}

func init() {
	extractors["C06"] = c06Extract
}
