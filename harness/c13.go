package main

// C13: interrupting running code stops it promptly and leaves the interpreter usable.
//
// Go side.  (1) extractor: go/ast over fast/code.go, fast/repl.go, base/ -> lean/Gen/ExecLoop.lean
// (unroll structure + every examination of the signal word in exec / reExecWithFlags, the writers of
// Signals.Async).  (2) correspondence: interpreted programs of fixed shapes call the compiled function
// hook(), which calls Interp.Interrupt synchronously at its K-th call and counts the calls made
// afterwards; the count is compared with the prediction of the Lean model (Drv/C13.lean) for every K.
// (3) oracle (the property on the real code): the evaluation ends with the interrupt panic, at most
// c13Bound hook statements run after the interrupt, and afterwards a fixed battery of evaluations gives
// the same results as on a fresh interpreter.  (4) asynchronous interrupts from another goroutine at
// seeded random delays: termination + bounded overshoot after the request became visible + battery.
// (5) optional race-detector probe for the mixed atomic/plain access to Signals.Async (F18).

import (
	"bytes"
	"fmt"
	"go/ast"
	"go/parser"
	"go/printer"
	"go/token"
	"math/rand"
	"os"
	"os/exec"
	"path/filepath"
	"sort"
	"strconv"
	"strings"
	"sync/atomic"
	"time"

	"github.com/cosmos72/gomacro/base"
	"github.com/cosmos72/gomacro/fast"
)

// ---------------------------------------------------------------- extractor

type c13Loop struct {
	entryPoll             bool
	rounds, chain         int
	chainPoll, chainDefer bool
	spin                  int
	spinPoll, spinDefer   bool
	exitPoll              bool
}

func c13src(fset *token.FileSet, n ast.Node) string {
	var b bytes.Buffer
	printer.Fprint(&b, fset, n)
	return strings.Join(strings.Fields(b.String()), " ")
}

// `stmt, env = stmt(env)`
func c13isStep(fset *token.FileSet, s ast.Stmt) bool {
	a, ok := s.(*ast.AssignStmt)
	return ok && c13src(fset, a) == "stmt, env = stmt(env)"
}

// `if sig := run.Signals.Async; sig <op> base.<Sig> { run.applyAsyncSignal(sig) }`
func c13isAsyncPoll(fset *token.FileSet, s ast.Stmt, cond string) bool {
	if l, ok := s.(*ast.LabeledStmt); ok {
		s = l.Stmt
	}
	i, ok := s.(*ast.IfStmt)
	if !ok || i.Init == nil {
		return false
	}
	if c13src(fset, i.Init) != "sig := run.Signals.Async" || c13src(fset, i.Cond) != cond {
		return false
	}
	found := false
	ast.Inspect(i.Body, func(n ast.Node) bool {
		if c, ok := n.(*ast.CallExpr); ok && c13src(fset, c) == "run.applyAsyncSignal(sig)" {
			found = true
		}
		return true
	})
	return found
}

func c13isDeferLoop(fset *token.FileSet, s ast.Stmt) (*ast.ForStmt, bool) {
	f, ok := s.(*ast.ForStmt)
	if !ok || f.Cond == nil || f.Init != nil {
		return nil, false
	}
	return f, c13src(fset, f.Cond) == "run.Signals.Sync == base.SigDefer"
}

func c13loopOf(fset *token.FileSet, name string, body []ast.Stmt) (c13Loop, error) {
	var L c13Loop
	stage := 0 // 0: before first phase, 1: after first phase, 2: after endless loop
	for _, s := range body {
		if l, ok := s.(*ast.LabeledStmt); ok && stage < 2 {
			s = l.Stmt
		}
		switch {
		case stage == 0 && c13isAsyncPoll(fset, s, "sig != base.SigNone"):
			L.entryPoll = true
		case stage == 2 && c13isAsyncPoll(fset, s, "sig != base.SigNone"):
			L.exitPoll = true
		}
		f, ok := s.(*ast.ForStmt)
		if !ok {
			continue
		}
		if stage == 0 && f.Cond != nil && f.Init != nil {
			// for j := 0; j < N; j++
			be, ok := f.Cond.(*ast.BinaryExpr)
			if !ok || be.Op != token.LSS {
				return L, fmt.Errorf("%s: first loop condition is %s", name, c13src(fset, f.Cond))
			}
			n, err := strconv.Atoi(c13src(fset, be.Y))
			if err != nil || c13src(fset, f.Init) != "j := 0" || c13src(fset, f.Post) != "j++" {
				return L, fmt.Errorf("%s: first loop header not of the form j := 0; j < N; j++", name)
			}
			L.rounds = n
			// chain of `if stmt, env = stmt(env); stmt != nil {`
			cur := f.Body.List
			for len(cur) > 0 {
				i, ok := cur[0].(*ast.IfStmt)
				if !ok || i.Init == nil || !c13isStep(fset, i.Init) || c13src(fset, i.Cond) != "stmt != nil" {
					break
				}
				if len(cur) > 1 && L.chain > 0 {
					return L, fmt.Errorf("%s: statement after nested if at depth %d", name, L.chain)
				}
				L.chain++
				cur = i.Body.List
			}
			// innermost: if run.Signals.IsEmpty() { continue }
			if len(cur) == 1 {
				if i, ok := cur[0].(*ast.IfStmt); ok && c13src(fset, i.Cond) == "run.Signals.IsEmpty()" &&
					len(i.Body.List) == 1 && c13src(fset, i.Body.List[0]) == "continue" && i.Else == nil {
					L.chainPoll = true
				}
			} else if len(cur) != 0 {
				return L, fmt.Errorf("%s: unexpected innermost chain body", name)
			}
			// rest of the round body
			for _, t := range f.Body.List[1:] {
				if d, ok := c13isDeferLoop(fset, t); ok {
					L.chainDefer = true
					for _, u := range d.Body.List {
						if c13isStep(fset, u) {
							return L, fmt.Errorf("%s: first-phase defer loop executes a statement", name)
						}
					}
				}
			}
			stage = 1
			continue
		}
		if stage == 1 && f.Cond == nil && f.Init == nil {
			for _, t := range f.Body.List {
				if c13isStep(fset, t) {
					if L.spinPoll || L.spinDefer {
						return L, fmt.Errorf("%s: statement executed after the examination in the endless loop", name)
					}
					L.spin++
				} else if d, ok := c13isDeferLoop(fset, t); ok {
					L.spinDefer = true
					k := 0
					for _, u := range d.Body.List {
						if c13isStep(fset, u) {
							k++
						}
					}
					if k != 1 {
						return L, fmt.Errorf("%s: second-phase defer loop executes %d statements, model assumes 1", name, k)
					}
				} else if i, ok := t.(*ast.IfStmt); ok && c13src(fset, i.Cond) == "!run.Signals.IsEmpty()" {
					L.spinPoll = true
				} else {
					return L, fmt.Errorf("%s: unexpected statement in endless loop: %s", name, c13src(fset, t))
				}
			}
			stage = 2
		}
	}
	if stage != 2 {
		return L, fmt.Errorf("%s: did not find both loop phases", name)
	}
	return L, nil
}

func c13findFunc(f *ast.File, name string) *ast.FuncDecl {
	for _, d := range f.Decls {
		if fd, ok := d.(*ast.FuncDecl); ok && fd.Name.Name == name {
			return fd
		}
	}
	return nil
}

func c13anyPoll(fset *token.FileSet, fd *ast.FuncDecl, cond string) bool {
	found := false
	ast.Inspect(fd.Body, func(n ast.Node) bool {
		if s, ok := n.(ast.Stmt); ok && c13isAsyncPoll(fset, s, cond) {
			found = true
		}
		return true
	})
	return found
}

func c13lean(L c13Loop) string {
	return fmt.Sprintf("{ entryPoll := %v, rounds := %d, chain := %d, chainPoll := %v, chainDefer := %v, spin := %d, spinPoll := %v, spinDefer := %v, exitPoll := %v }",
		L.entryPoll, L.rounds, L.chain, L.chainPoll, L.chainDefer, L.spin, L.spinPoll, L.spinDefer, L.exitPoll)
}

func extractC13(repo, genDir string) error {
	fset := token.NewFileSet()
	code, err := parser.ParseFile(fset, filepath.Join(repo, "fast", "code.go"), nil, 0)
	if err != nil {
		return err
	}
	// exec: the closure returned
	fexec := c13findFunc(code, "exec")
	fre := c13findFunc(code, "reExecWithFlags")
	if fexec == nil || fre == nil {
		return fmt.Errorf("exec / reExecWithFlags not found in fast/code.go")
	}
	var lit *ast.FuncLit
	ast.Inspect(fexec.Body, func(n ast.Node) bool {
		if l, ok := n.(*ast.FuncLit); ok && lit == nil {
			lit = l
		}
		return lit == nil
	})
	if lit == nil {
		return fmt.Errorf("exec does not return a closure")
	}
	lfast, err := c13loopOf(fset, "exec", lit.Body.List)
	if err != nil {
		return err
	}
	lflags, err := c13loopOf(fset, "reExecWithFlags", fre.Body.List)
	if err != nil {
		return err
	}
	// exec delegates to reExecWithFlags when ExecFlags != 0, before its own entry poll
	delegates := false
	for _, s := range lit.Body.List {
		if i, ok := s.(*ast.IfStmt); ok && c13src(fset, i.Cond) == "run.ExecFlags != 0" {
			delegates = strings.Contains(c13src(fset, i.Body), "reExecWithFlags(env, all, pos, all[0], 0) return")
		}
	}
	restore := c13findFunc(code, "restore")
	spinI := c13findFunc(code, "spinInterrupt")
	apply := c13findFunc(code, "applyAsyncSignal")
	intr := c13findFunc(code, "interrupt")
	if restore == nil || spinI == nil || apply == nil || intr == nil {
		return fmt.Errorf("restore / spinInterrupt / applyAsyncSignal / interrupt not found")
	}
	restorePoll := c13anyPoll(fset, restore, "sig == base.SigInterrupt")
	spinPoll := c13anyPoll(fset, spinI, "sig != base.SigNone")
	// applyAsyncSignal: first statement clears Async; default arm panics with SigInterrupt
	applyClears := len(apply.Body.List) > 0 && c13src(fset, apply.Body.List[0]) == "run.Signals.Async = base.SigNone"
	applyPanics := false
	ast.Inspect(apply.Body, func(n ast.Node) bool {
		if cc, ok := n.(*ast.CaseClause); ok && cc.List == nil {
			applyPanics = len(cc.Body) == 1 && c13src(fset, cc.Body[0]) == "panic(base.SigInterrupt)"
		}
		return true
	})
	// every assignment to a field named Async (and every composite write of Signals) in non-test files
	var writers []string
	for _, dir := range []string{"fast", "base", "fast/debug", "cmd", "."} {
		ents, _ := os.ReadDir(filepath.Join(repo, dir))
		for _, e := range ents {
			if e.IsDir() || !strings.HasSuffix(e.Name(), ".go") || strings.HasSuffix(e.Name(), "_test.go") {
				continue
			}
			f, err := parser.ParseFile(fset, filepath.Join(repo, dir, e.Name()), nil, 0)
			if err != nil {
				continue
			}
			for _, d := range f.Decls {
				fd, ok := d.(*ast.FuncDecl)
				if !ok || fd.Body == nil {
					continue
				}
				ast.Inspect(fd.Body, func(n ast.Node) bool {
					a, ok := n.(*ast.AssignStmt)
					if !ok {
						return true
					}
					for i, l := range a.Lhs {
						sel, ok := l.(*ast.SelectorExpr)
						if !ok || (sel.Sel.Name != "Async" && sel.Sel.Name != "Signals") {
							continue
						}
						rhs := "?"
						if i < len(a.Rhs) {
							rhs = c13src(fset, a.Rhs[i])
						}
						writers = append(writers, fmt.Sprintf("(%q, %q, %q)", filepath.ToSlash(filepath.Join(dir, e.Name()))+":"+fd.Name.Name, sel.Sel.Name, rhs))
					}
					return true
				})
			}
		}
	}
	sort.Strings(writers)
	// Run.interrupt: which options turn the interrupt into a debugger request
	maskConst, maskCond, maskThen, maskElse := "", "", "", ""
	ast.Inspect(intr.Body, func(n ast.Node) bool {
		switch x := n.(type) {
		case *ast.ValueSpec:
			if len(x.Names) == 1 && x.Names[0].Name == "CtrlCDebug" && len(x.Values) == 1 {
				maskConst = c13src(fset, x.Values[0])
			}
		case *ast.IfStmt:
			if maskCond == "" {
				maskCond = c13src(fset, x.Cond)
				maskThen = c13src(fset, x.Body)
				if x.Else != nil {
					maskElse = c13src(fset, x.Else)
				}
			}
		}
		return true
	})
	var b strings.Builder
	b.WriteString("-- REGENERATED by harness/c13.go (extractC13) from fast/code.go, fast/repl.go, base/*.go. Do not edit.\n")
	b.WriteString("import Model.Interrupt\nnamespace Gen.ExecLoop\nopen Interrupt\n\n")
	fmt.Fprintf(&b, "def fast : Loop :=\n  %s\n\n", c13lean(lfast))
	fmt.Fprintf(&b, "def flags : Loop :=\n  %s\n\n", c13lean(lflags))
	fmt.Fprintf(&b, "def sites : Sites := { fast := fast, flags := flags, restorePoll := %v, spinStmtPoll := %v }\n\n", restorePoll, spinPoll)
	fmt.Fprintf(&b, "/-- `exec` hands over to `reExecWithFlags` when `run.ExecFlags != 0` -/\ndef execDelegates : Bool := %v\n\n", delegates)
	fmt.Fprintf(&b, "/-- `applyAsyncSignal` first stores `SigNone` into `Async` -/\ndef applyClears : Bool := %v\n\n", applyClears)
	fmt.Fprintf(&b, "/-- the default arm of `applyAsyncSignal` is `panic(base.SigInterrupt)` -/\ndef applyPanics : Bool := %v\n\n", applyPanics)
	fmt.Fprintf(&b, "/-- `Run.interrupt()`: the option mask, the test that selects `SigDebug`, and both arms -/\ndef interruptMask : String := %q\ndef interruptCond : String := %q\ndef interruptThen : String := %q\ndef interruptElse : String := %q\n\n", maskConst, maskCond, maskThen, maskElse)
	b.WriteString("/-- every assignment to a field `Async` / `Signals` in the non-test sources: (file:function, field, right-hand side) -/\n")
	fmt.Fprintf(&b, "def asyncWriters : List (String × String × String) :=\n  [%s]\n\nend Gen.ExecLoop\n", strings.Join(writers, ",\n   "))
	return os.WriteFile(filepath.Join(genDir, "ExecLoop.lean"), []byte(b.String()), 0o644)
}

// ---------------------------------------------------------------- shapes

type c13shape struct {
	name  string
	decl  string // declarations evaluated once after reset
	call  string // the evaluation that is interrupted
	desc  string // the same program for the Lean model: functions f0/f1/..., `prefix|cycle`, tokens s h r cN dN eN, `tok*count`
	kmin  int    // interrupts before the kmin-th hook call are outside the property (see notes)
	kmax  int    // 0: any K (non-terminating program); else the program makes kmax hook calls in total
	drun  int    // longest run of consecutive defer statements in the program text
}

const c13chk = `func chk(n int) int { s := 0; for i := 0; i < n; i++ { s += i }; return s }; `

func c13rep(s string, n int) string { return strings.Repeat(s, n) }

var c13shapes = []c13shape{
	{name: "straight", decl: "func f() { " + c13rep("hook(); ", 200) + "}", call: "f()", desc: "h*200|r", kmax: 200},
	{name: "forever", decl: "func f() { for { hook() } }", call: "f()", desc: "|h,s"},
	{name: "for3", decl: "func f() { for i := 0; i < 100000000; i++ { hook() } }", call: "f()", desc: "s,s|s,h,s,s"},
	{name: "toplevel", decl: "", call: "for { hook() }", desc: "|h,s"},
	{name: "nested", decl: "func g() { hook() }; func f() { for { g() } }", call: "f()", desc: "|c1,s/h|r"},
	{name: "nested3", decl: "func g() { hook(); hook(); hook() }; func f() { for { g(); hook() } }", call: "f()", desc: "|c1,h,s/h,h,h|r"},
	{name: "callret", decl: "func g() { for i := 0; i < 30; i++ { hook() } }; func f() { for { g(); hook() } }", call: "f()",
		desc: "|c1,h,s/s,s," + c13rep("s,h,s,s,", 30) + "s,s|r"},
	{name: "deferloop", decl: "func f() { defer func() { for { hook() } }(); hook(); hook(); hook() }", call: "f()", desc: "d1,h,h,h|r/|h,s", kmin: 4},
	{name: "defernest", decl: "func g() { hook() }; func f() { hook(); defer func() { for { g() } }(); hook() }", call: "f()", desc: "h,d2,h|r/h|r/|c1,s", kmin: 3},
	{name: "range", decl: "var arr [100000000]int8; func f() { for range arr { hook() } }", call: "f()", desc: "s,s|s,h,s,s"},
	{name: "switch", decl: "func f() { for i := 0; ; i++ { switch i % 3 { case 0: hook(); case 1: hook(); hook(); default: } } }", call: "f()",
		// pushenv, i:=0 | tag, goto-map, [case 0: hook, break] / [case 1: hook, hook, break] / [3 failing headers, jump to default, break], i++, jump
		desc: "s,s|s,s,h,s,s,s,s,s,h,h,s,s,s,s*9"},
	{name: "defers", decl: "func dn(x int) { hookd() }; func f() { " + c13rep("hook(); ", 80) + c13rep("defer dn(hv()); ", 40) + "}", call: "f()",
		desc: "h*80,e1*40|r/g|r", kmax: 120, drun: 40},
}

func c13shapeByName(n string) *c13shape {
	for i := range c13shapes {
		if c13shapes[i].name == n {
			return &c13shapes[i]
		}
	}
	return nil
}

// the oracle's bound on hook statements executed after the interrupting call:
// "polling every 15 statements" (properties.jsonl, C13), plus the longest run of consecutive defer
// statements of the program (they are installed by one loop that does not examine the signals; see notes)
const c13Bound = 15

// ---------------------------------------------------------------- state

var c13 struct {
	ir     *fast.Interp
	shape  *c13shape
	fresh  []string // battery results of a fresh interpreter with the same declarations
	calls  int
	after  int
	dafter int
	k      int
	fired  bool
	async  bool         // asynchronous mode
	req    atomic.Bool  // set by the interrupter after Interp.Interrupt returned
	start  atomic.Bool  // set by the first hook call of an asynchronous run
	areq   int          // hook calls made after the request was observed
	atCalls int         // calls of the scripted debugger
	run     *fast.Run   // the interpreter's Run (exported bookkeeping), read after an interrupted evaluation
}

// scripted debugger of the option runs: counts, and terminates the evaluation
type c13dbg struct{}

var c13kill interface{} = "dbg-kill"

func (c13dbg) Breakpoint(ir *fast.Interp, env *fast.Env) fast.DebugOp {
	c13.atCalls++
	return fast.DebugOp{Depth: 0, Panic: &c13kill}
}
func (c13dbg) At(ir *fast.Interp, env *fast.Env) fast.DebugOp {
	c13.atCalls++
	return fast.DebugOp{Depth: 0, Panic: &c13kill}
}

func c13options(mask int) base.Options {
	var o base.Options
	if mask&1 != 0 {
		o |= base.OptDebugger
	}
	if mask&2 != 0 {
		o |= base.OptCtrlCEnterDebugger
	}
	return o
}

func c13hook() {
	s := &c13
	s.calls++
	if s.async {
		if s.calls == 1 {
			s.start.Store(true)
		}
		if s.req.Load() {
			s.areq++
			if s.areq > 1000 {
				panic("runaway")
			}
		}
		if s.calls > 2000000000 {
			panic("runaway")
		}
		return
	}
	if s.fired {
		s.after++
		if s.after > 1000 {
			panic("runaway")
		}
	}
	if s.calls == s.k {
		s.fired = true
		s.ir.Interrupt(nil)
	}
}

func c13hv() int { c13hook(); return 0 }

// clean-up hook: called only by deferred functions of the shapes; counts, never interrupts
func c13hookd() {
	if c13.fired {
		c13.dafter++
	}
}

var c13battery = []string{
	`1+2`,
	`chk(200)`,
	`func() (r int) { defer func() { r = recover().(int) * 2 }(); panic(21) }()`,
	`func() string { s := ""; for _, c := range "abc" { s = string(c) + s }; return s }()`,
	`func() int { var fib func(int) int; fib = func(n int) int { if n < 2 { return n }; return fib(n-1) + fib(n-2) }; return fib(12) }()`,
	`func() int { n := 0; func() { defer func() { n += 10 }(); defer func() { n *= 3 }(); n = 1 }(); return n }()`,
	`func() int { c := 0; f := func() { c++ }; for i := 0; i < 100; i++ { f() }; return c }()`,
	`func() (s string) { defer func() { s = fmt.Sprint(recover()) }(); var m map[string]int; m["a"] = 1; return "none" }()`,
	`counter()`,
}

const c13common = `import "fmt"; var cnt int; func counter() int { cnt++; return cnt }; ` + c13chk

func c13new(sh *c13shape) *fast.Interp { return c13newOpt(sh, 0, false) }

func c13newOpt(sh *c13shape, mask int, dbg bool) *fast.Interp {
	ir := newQuietInterp()
	ir.Comp.Globals.Options |= c13options(mask)
	if dbg {
		ir.SetDebugger(c13dbg{})
	}
	ir.DeclFunc("hook", c13hook)
	ir.DeclFunc("hv", c13hv)
	ir.DeclFunc("hookd", c13hookd)
	if _, e := evalSrc(ir, c13common+sh.decl); e != "" {
		panic("c13: declarations of shape " + sh.name + " failed: " + e)
	}
	return ir
}

func c13runBattery(ir *fast.Interp) []string {
	out := make([]string, len(c13battery))
	for i, src := range c13battery {
		v, e := evalSrc(ir, src)
		if e != "" {
			out[i] = "ERR " + e
		} else {
			out[i] = showVals(v, true)
		}
	}
	return out
}

// evaluate and classify how the evaluation ended
func c13eval(ir *fast.Interp, src string) (end string) {
	defer func() {
		if e := recover(); e != nil {
			switch v := e.(type) {
			case base.Signal:
				if v == base.SigInterrupt {
					end = "interrupt"
					return
				}
			case string:
				if v == "runaway" {
					end = "runaway"
					return
				}
				if v == "dbg-kill" {
					end = "dbgkill"
					return
				}
			}
			end = "panic:" + truncate(oneLine(fmt.Sprint(e)), 80)
		}
	}()
	ir.Eval(src)
	return "normal"
}

// the used interpreter must answer the battery like the fresh one did (modulo the shared counter)
func c13checkBattery(r *Result) {
	got := c13runBattery(c13.ir)
	for i := range got {
		want := c13.fresh[i]
		if c13battery[i] == "counter()" {
			continue // depends on the number of batteries run so far; checked to be an int below
		}
		if got[i] != want {
			r.Viol = fmt.Sprintf("after the interrupt, %s = %s but a fresh interpreter gives %s", c13battery[i], got[i], want)
			r.Key = "battery-differs"
			return
		}
	}
	if !strings.HasPrefix(got[len(got)-1], "int:") {
		r.Viol, r.Key = "after the interrupt, counter() = "+got[len(got)-1], "battery-differs"
	}
}

func c13exec(op string) Result {
	f, arg, _ := strings.Cut(op, " ")
	switch f {
	case "reset":
		sh := c13shapeByName(arg)
		if sh == nil {
			return Result{Out: "bad-shape"}
		}
		c13.shape = sh
		c13.async = false
		c13.k = 0
		fresh := c13new(sh)
		c13.fresh = c13runBattery(fresh)
		c13.ir = c13new(sh)
		c13.run = c13.ir.PrepareEnv().Run
		return Result{Out: "ok", Tags: []string{"reset"}}
	case "run":
		// run <shape> <K> <desc>
		fs := strings.SplitN(arg, " ", 3)
		sh := c13.shape
		if len(fs) != 3 || sh == nil || sh.name != fs[0] {
			return Result{Out: "bad-op"}
		}
		k, _ := strconv.Atoi(fs[1])
		s := &c13
		s.async, s.calls, s.after, s.dafter, s.fired, s.k = false, 0, 0, 0, false, k
		end := c13eval(s.ir, sh.call)
		r := Result{Out: fmt.Sprintf("after=%d dafter=%d calls=%d end=%s", s.after, s.dafter, s.calls, end), Nontrivial: k > 0,
			Tags: []string{"run-" + sh.name, "end-" + strings.SplitN(end, ":", 2)[0]}}
		inProperty := k >= sh.kmin && k > 0 && (sh.kmax == 0 || k <= sh.kmax)
		switch {
		case strings.HasPrefix(end, "panic:"):
			r.Viol, r.Key = "evaluation ended with an unexpected panic: "+end, "unexpected-panic"
		case inProperty && s.after > c13Bound+sh.drun:
			r.Tags = append(r.Tags, "overshoot>bound")
			r.Viol = fmt.Sprintf("shape %s: %d hook statements executed after the interrupt delivered in hook call %d (bound %d)", sh.name, s.after, k, c13Bound+sh.drun)
			r.Key = "overshoot-" + sh.name
		case inProperty && end != "interrupt":
			// the interrupt was delivered while interpreted code was running, yet the evaluation
			// did not end with the interrupt panic.  Exception allowed by the statement: none.
			r.Viol = fmt.Sprintf("shape %s: interrupt delivered in hook call %d, evaluation ended with %q", sh.name, k, end)
			r.Key = "not-interrupted-" + sh.name
		case k == 0 && end != "normal":
			r.Viol, r.Key = "uninterrupted evaluation ended with "+end, "spurious-interrupt"
		}
		if r.Viol == "" && end == "interrupt" && s.run != nil && s.run.Signals.Async != base.SigNone {
			// raising the interrupt consumes it: a signal left pending would abort deferred clean-up functions and
			// interpreted functions called directly by compiled code before the next evaluation
			r.Viol = fmt.Sprintf("shape %s: after the interrupt panic Signals.Async is still %v", sh.name, s.run.Signals.Async)
			r.Key = "async-left-pending-after-interrupt"
		}
		if !inProperty {
			r.Tags = append(r.Tags, "outside-property")
		}
		if s.after > c13Bound {
			r.Tags = append(r.Tags, "overshoot>15-consecutive-defers")
		}
		if r.Viol == "" {
			c13checkBattery(&r)
		}
		return r
	case "resetopt":
		// resetopt <shape> <mask> <dbg>
		fs := strings.Fields(arg)
		if len(fs) != 3 || c13shapeByName(fs[0]) == nil {
			return Result{Out: "bad-op"}
		}
		sh := c13shapeByName(fs[0])
		mask, _ := strconv.Atoi(fs[1])
		c13.shape, c13.async, c13.k = sh, false, 0
		c13.fresh = c13runBattery(c13newOpt(sh, mask, fs[2] == "1"))
		c13.ir = c13newOpt(sh, mask, fs[2] == "1")
		c13.run = c13.ir.PrepareEnv().Run
		return Result{Out: "ok", Tags: []string{"resetopt"}}
	case "runopt":
		// runopt <shape> <K> <mask> <dbg> <desc>: as run, interpreter options per mask (1 = OptDebugger, 2 = OptCtrlCEnterDebugger)
		fs := strings.SplitN(arg, " ", 5)
		sh := c13.shape
		if len(fs) != 5 || sh == nil || sh.name != fs[0] {
			return Result{Out: "bad-op"}
		}
		k, _ := strconv.Atoi(fs[1])
		mask, _ := strconv.Atoi(fs[2])
		s := &c13
		s.async, s.calls, s.after, s.dafter, s.fired, s.k, s.atCalls = false, 0, 0, 0, false, k, 0
		end := c13eval(s.ir, sh.call)
		r := Result{Nontrivial: true, Tags: []string{fmt.Sprintf("runopt-mask%d-dbg%s", mask, fs[3]), "end-" + strings.SplitN(end, ":", 2)[0]}}
		if mask == 3 {
			// documented: with OptDebugger AND OptCtrlCEnterDebugger the interrupt enters the debugger
			r.Out = "end=debugger"
			if end != "dbgkill" || s.atCalls == 0 {
				r.Out = fmt.Sprintf("end=%s at=%d", end, s.atCalls)
				r.Viol = fmt.Sprintf("shape %s, OptDebugger|OptCtrlCEnterDebugger: interrupt in hook call %d did not enter the debugger (end %q, %d debugger calls)", sh.name, k, end, s.atCalls)
				r.Key = "ctrlc-does-not-enter-debugger"
			} else if s.after > c13Bound+sh.drun {
				r.Viol = fmt.Sprintf("shape %s: debugger entered only after %d hook statements", sh.name, s.after)
				r.Key = "overshoot-debugger-" + sh.name
			}
		} else {
			r.Out = fmt.Sprintf("after=%d dafter=%d calls=%d end=%s", s.after, s.dafter, s.calls, end)
			switch {
			case end != "interrupt":
				r.Viol = fmt.Sprintf("shape %s, options mask %d (1=OptDebugger 2=OptCtrlCEnterDebugger), debugger installed=%s: interrupt delivered in hook call %d, evaluation ended with %q (%d debugger calls)", sh.name, mask, fs[3], k, end, s.atCalls)
				r.Key = fmt.Sprintf("not-interrupted-options-mask%d", mask)
			case s.after > c13Bound+sh.drun:
				r.Viol = fmt.Sprintf("shape %s, options mask %d: %d hook statements after the interrupt", sh.name, mask, s.after)
				r.Key = "overshoot-" + sh.name
			case s.atCalls != 0:
				r.Viol = fmt.Sprintf("shape %s, options mask %d: the debugger was entered %d times", sh.name, mask, s.atCalls)
				r.Key = fmt.Sprintf("debugger-entered-options-mask%d", mask)
			}
		}
		if r.Viol == "" {
			c13checkBattery(&r)
		}
		return r
	case "async":
		// async <shape> <delay-us>
		fs := strings.Fields(arg)
		sh := c13.shape
		if len(fs) != 2 || sh == nil || sh.name != fs[0] {
			return Result{Out: "bad-op"}
		}
		us, _ := strconv.Atoi(fs[1])
		s := &c13
		s.async, s.calls, s.areq = true, 0, 0
		s.req.Store(false)
		s.start.Store(false)
		done := make(chan struct{})
		ir := s.ir
		go func() {
			defer close(done)
			for !s.start.Load() {
				time.Sleep(20 * time.Microsecond)
			}
			if us > 0 {
				time.Sleep(time.Duration(us) * time.Microsecond)
			}
			ir.Interrupt(nil)
			s.req.Store(true)
		}()
		t0 := time.Now()
		end := c13eval(ir, sh.call)
		<-done
		el := time.Since(t0)
		s.async = false
		r := Result{Out: "ok", Nontrivial: true, Tags: []string{"async-" + sh.name, "async-end-" + strings.SplitN(end, ":", 2)[0]}}
		switch {
		case end != "interrupt":
			r.Out = "async end=" + end
			r.Viol = fmt.Sprintf("shape %s: asynchronous interrupt after %dus: evaluation ended with %q after %v", sh.name, us, end, el)
			r.Key = "async-not-interrupted-" + sh.name
		case s.areq > c13Bound:
			r.Out = fmt.Sprintf("async overshoot=%d", s.areq)
			r.Viol = fmt.Sprintf("shape %s: %d hook statements executed after the interrupt request was visible (bound %d)", sh.name, s.areq, c13Bound)
			r.Key = "async-overshoot-" + sh.name
		}
		if r.Viol == "" {
			c13checkBattery(&r)
		}
		return r
	case "race":
		return c13race()
	}
	return Result{Out: "bad-op"}
}

// ---------------------------------------------------------------- race probe (F18)

const c13raceMain = `//go:debug gotypesalias=0
package main

import (
	"fmt"
	"io"
	"sync/atomic"
	"time"

	"github.com/cosmos72/gomacro/fast"
)

func main() {
	ir := fast.New()
	ir.Comp.Globals.Stdout = io.Discard
	ir.Comp.Globals.Stderr = io.Discard
	var started atomic.Bool
	ir.DeclFunc("hook", func() { started.Store(true) })
	for i := 0; i < 3; i++ {
		started.Store(false)
		done := make(chan struct{})
		go func() {
			defer close(done)
			for !started.Load() {
				time.Sleep(50 * time.Microsecond)
			}
			time.Sleep(time.Millisecond)
			ir.Interrupt(nil)
		}()
		func() {
			defer func() { fmt.Println("recovered:", recover()) }()
			ir.Eval("for { hook() }")
		}()
		<-done
	}
}
`

func c13race() Result {
	r := Result{Out: "done", Tags: []string{"race-probe"}}
	dir := workDir("c13-race")
	os.WriteFile(filepath.Join(dir, "main.go"), []byte(c13raceMain), 0o644)
	os.WriteFile(filepath.Join(dir, "go.mod"), []byte("module raceprobe\n\ngo 1.21\n\nrequire github.com/cosmos72/gomacro v0.0.0\n\nreplace github.com/cosmos72/gomacro => "+repoDir()+"\n"), 0o644)
	if b, err := os.ReadFile(filepath.Join(repoDir(), "go.sum")); err == nil {
		os.WriteFile(filepath.Join(dir, "go.sum"), b, 0o644)
	}
	env := append(os.Environ(), "GOFLAGS=-mod=mod", "GOPROXY=off", "GOSUMDB=off", "GOTOOLCHAIN=local", "CGO_ENABLED=1")
	build := exec.Command("go", "build", "-race", "-o", "probe.bin", ".")
	build.Dir, build.Env = dir, env
	if out, err := build.CombinedOutput(); err != nil {
		r.Tags = append(r.Tags, "race-build-failed")
		r.Viol, r.Key = "race probe does not build: "+truncate(string(out), 500), "race-probe-build"
		return r
	}
	logs, _ := filepath.Glob(filepath.Join(dir, "race.*"))
	for _, l := range logs {
		os.Remove(l)
	}
	run := exec.Command(filepath.Join(dir, "probe.bin"))
	run.Dir = dir
	run.Env = append(env, "GORACE=log_path="+filepath.Join(dir, "race")+" exitcode=0")
	done := make(chan error, 1)
	var out bytes.Buffer
	run.Stdout, run.Stderr = &out, &out
	if err := run.Start(); err != nil {
		r.Viol, r.Key = "race probe does not start: "+err.Error(), "race-probe-build"
		return r
	}
	go func() { done <- run.Wait() }()
	select {
	case <-done:
	case <-time.After(5 * time.Minute):
		run.Process.Kill()
		r.Viol, r.Key = "race probe did not terminate: an interrupt delivered from another goroutine was lost", "race-probe-hang"
		return r
	}
	if n := strings.Count(out.String(), "recovered: // signal: interrupt"); n != 3 {
		r.Viol, r.Key = "race probe: not every evaluation was interrupted: "+truncate(oneLine(out.String()), 300), "race-probe-hang"
		return r
	}
	logs, _ = filepath.Glob(filepath.Join(dir, "race.*"))
	for _, l := range logs {
		b, _ := os.ReadFile(l)
		txt := string(b)
		if strings.Contains(txt, "DATA RACE") && strings.Contains(txt, "(*Run).interrupt") {
			i := strings.Index(txt, "WARNING: DATA RACE")
			r.Tags = append(r.Tags, "race-detected")
			r.Viol = "the race detector reports a data race on Signals.Async between Run.interrupt (plain store from the interrupting goroutine) and the executor: " +
				truncate(oneLine(txt[i:]), 700)
			r.Key = "async-signal-data-race"
			return r
		}
	}
	r.Tags = append(r.Tags, "race-clean")
	return r
}

// ---------------------------------------------------------------- generator

func c13gen(r *rand.Rand, tier string, emit func(string)) {
	kmax, nasync := 125, 6
	if tier == "thorough" {
		kmax, nasync = 400, 60
	}
	for i := range c13shapes {
		sh := &c13shapes[i]
		emit("reset " + sh.name)
		if sh.kmax != 0 {
			emit(fmt.Sprintf("run %s 0 %s", sh.name, sh.desc))
		}
		top := kmax
		if sh.kmax != 0 && sh.kmax < top {
			top = sh.kmax
		}
		for k := 1; k <= top; k++ {
			emit(fmt.Sprintf("run %s %d %s", sh.name, k, sh.desc))
		}
		// a few large K chosen at random (second phase, far from the start)
		for j := 0; j < 3 && sh.kmax == 0; j++ {
			emit(fmt.Sprintf("run %s %d %s", sh.name, 1000+r.Intn(4000), sh.desc))
		}
		if sh.kmax == 0 && sh.kmin == 0 {
			for j := 0; j < nasync; j++ {
				emit(fmt.Sprintf("async %s %d", sh.name, r.Intn(3000)))
			}
		}
	}
	// interrupts under the four combinations of OptDebugger / OptCtrlCEnterDebugger, with and without a debugger
	for _, name := range []string{"straight", "forever", "nested3", "for3"} {
		sh := c13shapeByName(name)
		for mask := 0; mask <= 3; mask++ {
			for _, dbg := range []string{"0", "1"} {
				if mask == 3 && dbg == "0" {
					continue // no debugger to enter: the stub debugger resumes execution
				}
				emit(fmt.Sprintf("resetopt %s %d %s", name, mask, dbg))
				ks := []int{}
				for k := 1; k <= 16; k++ {
					ks = append(ks, k)
				}
				for k := 70; k <= 86; k++ {
					ks = append(ks, k)
				}
				if tier == "thorough" {
					for k := 17; k < 70; k++ {
						ks = append(ks, k)
					}
				}
				for _, k := range ks {
					emit(fmt.Sprintf("runopt %s %d %d %s %s", name, k, mask, dbg, sh.desc))
				}
			}
		}
	}
	if tier == "thorough" || os.Getenv("VERIF_C13_RACE") != "" {
		emit("race")
	}
}

func init() {
	extractors["C13"] = extractC13
	register(&Prop{
		ID:   "C13",
		Rule: "bounded-exhaustive: for every program shape (straight-line, endless for, 3-clause for, top-level loop, nested calls, call returning in the second phase, loop in a deferred call, nested call in a deferred loop, range, switch, consecutive defers) the compiled hook calls Interp.Interrupt synchronously at its K-th call for every K in 1..125 (quick) / 1..400 (thorough) plus 3 random K in 1000..5000; then asynchronous interrupts from another goroutine after seeded random delays. Non-trivial: K>0 and all asynchronous ops; distinct by op text.",
		Gen:  c13gen,
		Exec: c13exec,
		Exhaustive: func(tier string) bool { return true },
	})
}
