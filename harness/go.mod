module verif/harness

go 1.21

require (
	github.com/cosmos72/gomacro v0.0.0
	github.com/mattn/go-runewidth v0.0.15
	github.com/peterh/liner v1.2.2
	golang.org/x/tools v0.14.0
)

require (
	github.com/rivo/uniseg v0.2.0 // indirect
	golang.org/x/mod v0.13.0 // indirect
	golang.org/x/sys v0.13.0 // indirect
)

replace github.com/cosmos72/gomacro => /repo
