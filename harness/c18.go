package main

// C18: program results do not depend on semantics-neutral interpreter options.
//
// Ops
//
//	reset                         state boundary: fresh interpreters for every option configuration
//	m <cfg> | <mini program>      mini-language program (c18mini.go); Out = the full trace (semantic
//	                              part + observation part) under the initial option bits <cfg>,
//	                              compared with the Lean model; the program also takes part in the
//	                              differential below
//	s <n> | <source chunks>       Go/gomacro source program, chunks separated by " ¶¶ ", newlines
//	                              written " ¶ "; Out = "src <n>"
//
// Oracle (the failing-input search): every program of a group is evaluated under every option
// configuration of c18configs (all 2^6 combinations of Debugger, Collect.Declarations,
// Collect.Statements, Trap.Panic, StackTrace.OnPanic, Untyped.Keep on the REPL path
// Interp.ParseEvalPrint, the 2^4 combinations that matter on the Interp.Eval path, plus sampled
// Show*/?Debug*/CtrlC options and the three settings of etoken.GENERICS), each configuration in an
// interpreter of its own that sees the same programs in the same order.  Results must be identical
// to the all-options-off run: values and types, panics and compile errors (text), the program's own
// output, warnings; options that print may only ADD lines on Stdout; OptKeepUntyped may only turn a
// final constant into the untyped.Lit of the same value; no program may change g.Options.

import (
	"bytes"
	"fmt"
	"math/rand"
	"os"
	"reflect"
	"sort"
	"strings"

	"github.com/cosmos72/gomacro/base"
	"github.com/cosmos72/gomacro/base/untyped"
	"github.com/cosmos72/gomacro/fast"
	"github.com/cosmos72/gomacro/go/etoken"
)

// ---------------------------------------------------------------- configurations

type c18cfg struct {
	opts base.Options
	gen  etoken.Generics
	repl bool // REPL path (ParseEvalPrint) or Eval path
}

func (c c18cfg) name() string {
	s := c.opts.String()
	if s == "" {
		s = "none"
	}
	s = strings.ReplaceAll(s, " ", "+")
	if c.gen != etoken.GENERICS_NONE {
		s += fmt.Sprintf("+generics%d", int(c.gen))
	}
	return s
}

const c18core = base.OptDebugger | base.OptCollectDeclarations | base.OptCollectStatements |
	base.OptTrapPanic | base.OptPanicStackTrace | base.OptKeepUntyped

// options that only print (on Stdout): the run may have additional Stdout lines
const c18printing = base.OptShowCompile | base.OptShowEval | base.OptShowEvalType | base.OptShowMacroExpand |
	base.OptShowParse | base.OptShowPrompt | base.OptShowTime | base.OptDebugCallStack | base.OptDebugDebugger |
	base.OptDebugField | base.OptDebugFromReflect | base.OptDebugMacroExpand | base.OptDebugMethod |
	base.OptDebugRecover | base.OptDebugQuasiquote | base.OptDebugSleepOnSwitch | base.OptDebugGenerics

// bit numbering of the op lines (m <cfg>, tog <bits>)
var c18bits = []base.Options{
	base.OptDebugger, base.OptCollectDeclarations, base.OptCollectStatements, base.OptTrapPanic,
	base.OptPanicStackTrace, base.OptKeepUntyped, base.OptShowEval, base.OptShowEvalType, base.OptShowTime,
	base.OptMacroExpandOnly,
}

func c18optsOf(bits int) base.Options {
	var o base.Options
	for i, b := range c18bits {
		if bits&(1<<i) != 0 {
			o |= b
		}
	}
	return o
}

func c18popcount(o base.Options) int {
	n := 0
	for ; o != 0; o &= o - 1 {
		n++
	}
	return n
}

// configurations of the differential, baseline first, then by number of set options
func c18configs(tier string) []c18cfg {
	var out []c18cfg
	six := []base.Options{base.OptDebugger, base.OptCollectDeclarations, base.OptCollectStatements,
		base.OptTrapPanic, base.OptPanicStackTrace, base.OptKeepUntyped}
	four := []base.Options{base.OptDebugger, base.OptCollectDeclarations, base.OptCollectStatements, base.OptKeepUntyped}
	subsets := func(bits []base.Options) []base.Options {
		var r []base.Options
		for m := 0; m < 1<<len(bits); m++ {
			var o base.Options
			for i, b := range bits {
				if m&(1<<i) != 0 {
					o |= b
				}
			}
			r = append(r, o)
		}
		sort.SliceStable(r, func(i, j int) bool { return c18popcount(r[i]) < c18popcount(r[j]) })
		return r
	}
	extra := []base.Options{
		base.OptShowEval, base.OptShowEval | base.OptShowEvalType, base.OptShowTime, base.OptShowCompile,
		base.OptShowMacroExpand, base.OptShowParse, base.OptShowPrompt,
		base.OptDebugger | base.OptCtrlCEnterDebugger, base.OptCtrlCEnterDebugger,
		base.OptDebugCallStack, base.OptDebugDebugger, base.OptDebugField, base.OptDebugFromReflect,
		base.OptDebugMacroExpand, base.OptDebugMethod, base.OptDebugRecover, base.OptDebugQuasiquote,
		base.OptDebugGenerics,
		c18printing &^ base.OptDebugSleepOnSwitch,
		(c18printing &^ base.OptDebugSleepOnSwitch) | c18core | base.OptCtrlCEnterDebugger,
	}
	if tier == "thorough" {
		extra = append(extra, base.OptDebugSleepOnSwitch)
	}
	for _, repl := range []bool{true, false} {
		bits := six
		if !repl {
			bits = four
		}
		for _, o := range subsets(bits) {
			out = append(out, c18cfg{o, etoken.GENERICS_NONE, repl})
		}
		for _, o := range extra {
			out = append(out, c18cfg{o, etoken.GENERICS_NONE, repl})
		}
		for _, g := range []etoken.Generics{etoken.GENERICS_V1_CXX, etoken.GENERICS_V2_CTI} {
			out = append(out, c18cfg{0, g, repl})
			out = append(out, c18cfg{c18core, g, repl})
		}
	}
	return out
}

// ---------------------------------------------------------------- programs

type c18chunk struct {
	src string       // one REPL input
	tog base.Options // != 0: no input, the embedder flips these option bits instead
}

type c18prog struct {
	chunks []c18chunk
	bad    bool // malformed op
}

const c18prelude = `import ("fmt"; "strconv"; "sort"; "strings"; "errors")
var _, _, _, _, _ = fmt.Sprint, strconv.Itoa, sort.Ints, strings.Join, errors.New
var g0, g1, g2, g3, p, l int
var LOG []string
func lg(s string) { out(s) }
func lgi(n int) { out("e" + strconv.Itoa(n)) }
type PV struct{ n int }
func (t PV) Show() { out("e" + strconv.Itoa(t.n)) }
func show(e interface{}) string {
	switch x := e.(type) {
	case nil:
		return "-"
	case int:
		return strconv.Itoa(x)
	case string:
		return "S:" + x
	case PV:
		return "T:" + strconv.Itoa(x.n)
	case error:
		return "E:" + x.Error()
	}
	return "?"
}
`

// one interpreter of one configuration
type c18rt struct {
	cfg    c18cfg
	ir     *fast.Interp
	so, se bytes.Buffer
	emits  []string
	brk    []bool
	expect base.Options // what g.Options must be (initial options xor the toggles so far)
}

type c18dbg struct{ rt *c18rt }

func (d c18dbg) Breakpoint(ir *fast.Interp, env *fast.Env) fast.DebugOp {
	d.rt.brk = append(d.rt.brk, env.DebugComp != nil)
	return fast.DebugOpContinue
}
func (d c18dbg) At(ir *fast.Interp, env *fast.Env) fast.DebugOp { return fast.DebugOpContinue }

const c18emitBudget = 5000

func c18newRT(cfg c18cfg) *c18rt {
	etoken.GENERICS = cfg.gen
	defer func() { etoken.GENERICS = etoken.GENERICS_NONE }()
	rt := &c18rt{cfg: cfg}
	ir := fast.New()
	rt.ir = ir
	g := &ir.Comp.Globals
	g.Stdout = &rt.so
	g.Stderr = &rt.se
	g.Options = 0
	emit := func(s string) {
		if len(rt.emits) >= c18emitBudget {
			panic("emit budget exceeded")
		}
		rt.emits = append(rt.emits, s)
	}
	ir.DeclFunc("out", func(args ...interface{}) { emit(fmt.Sprint(args...)) })
	ir.DeclFunc("emit", func(tag, v int) { emit(fmt.Sprintf("%d:%d", tag, v)) })
	ir.DeclFunc("em", func(v int) { emit(fmt.Sprint(v)) })
	ir.DeclFunc("k", func(v int) int { return v })
	ir.DeclFunc("srcof", func(x interface{}) string { return g.Sprintf("%v", x) })
	if _, e := evalSrc(ir, c18prelude); e != "" {
		panic("c18: prelude rejected: " + e)
	}
	ir.SetDebugger(c18dbg{rt})
	g.Line = 0
	g.Options = cfg.opts
	rt.expect = cfg.opts
	rt.so.Reset()
	rt.se.Reset()
	return rt
}

// observable outcome of one chunk
type c18out struct {
	panicked bool
	panicTxt string
	trapped  bool
	stack    bool
	vals     string // Eval path: values with types
	untyped  bool   // some value is an untyped.Lit
	emits    string
	stdout   []string
	warn     string // "// warning" lines on Stderr
}

func c18lines(s string) []string {
	s = strings.TrimSuffix(s, "\n")
	if s == "" {
		return nil
	}
	return strings.Split(s, "\n")
}

func c18showVal(v reflect.Value, t interface{}) (string, bool) {
	if !v.IsValid() {
		return fmt.Sprintf("<invalid>:%v", t), false
	}
	if v.CanInterface() {
		if lit, ok := v.Interface().(untyped.Lit); ok {
			// the value the constant has in its default type
			dv := fmt.Sprint(lit.Convert(lit.DefaultType()))
			return fmt.Sprintf("%v:%v", dv, lit.DefaultType()), true
		}
	}
	k := v.Kind()
	if k == reflect.Func || k == reflect.Ptr || k == reflect.Chan || k == reflect.UnsafePointer || k == reflect.Map {
		if !v.IsNil() && k != reflect.Map {
			return fmt.Sprintf("<%v>:%v", k, t), false // addresses differ from run to run
		}
	}
	return fmt.Sprintf("%v:%v", v, t), false
}

func (rt *c18rt) run(ch c18chunk) (o c18out) {
	g := &rt.ir.Comp.Globals
	if ch.tog != 0 {
		g.Options ^= ch.tog
		rt.expect ^= ch.tog
		return
	}
	rt.so.Reset()
	rt.se.Reset()
	rt.emits = rt.emits[:0]
	etoken.GENERICS = rt.cfg.gen
	func() {
		defer func() {
			etoken.GENERICS = etoken.GENERICS_NONE
			if e := recover(); e != nil {
				o.panicked = true
				o.panicTxt = fmt.Sprint(e)
			}
		}()
		if rt.cfg.repl {
			rt.ir.ParseEvalPrint(ch.src + "\n")
		} else {
			vs, ts := rt.ir.Eval(ch.src)
			var parts []string
			for i, v := range vs {
				var t interface{}
				if i < len(ts) {
					t = ts[i]
				}
				s, u := c18showVal(v.ReflectValue(), t)
				o.untyped = o.untyped || u
				parts = append(parts, s)
			}
			o.vals = strings.Join(parts, " ")
		}
	}()
	o.emits = strings.Join(rt.emits, ",")
	o.stdout = c18lines(rt.so.String())
	for i, l := range o.stdout {
		if strings.HasPrefix(l, "// debug: eval time ") {
			o.stdout[i] = "TIME" // OptShowTime: the duration differs from run to run
		}
	}
	// Stderr: warnings, and the panic that afterEval trapped
	se := rt.se.String()
	var rest []string
	var warn []string
	for _, l := range strings.SplitAfter(se, "\n") {
		if strings.HasPrefix(l, "// warning:") {
			warn = append(warn, strings.TrimSuffix(l, "\n"))
		} else {
			rest = append(rest, l)
		}
	}
	o.warn = strings.Join(warn, "\n")
	if r := strings.Join(rest, ""); r != "" && !o.panicked {
		o.panicked, o.trapped = true, true
		if i := strings.Index(r, "\ngoroutine "); i >= 0 {
			o.stack = true
			r = r[:i] // "%v\n%s": the newline belongs to the format
		} else {
			r = strings.TrimSuffix(r, "\n") // "%v\n"
		}
		o.panicTxt = r
	}
	return o
}

// ---------------------------------------------------------------- batch execution (Prepare)

type c18result struct {
	outs    [][]c18out // [config][chunk]
	options []base.Options
	expect  []base.Options
	line    []int
	decls   []int
	stmts   []int
	brk     [][]bool
	g       []string // g0..g3 afterwards
}

var c18cfgs []c18cfg
var c18results = map[int]*c18result{} // by op index
var c18progs = map[int]*c18prog{}
var c18tier = "quick"
var c18execIndex int

func c18parseOp(op string, idx int) *c18prog {
	f, rest, _ := strings.Cut(op, " ")
	switch f {
	case "m":
		cfg, src, ok := strings.Cut(rest, " | ")
		if n, okn := c18nat(cfg); !ok || !okn || n >= 1024 {
			return &c18prog{bad: true}
		}
		mp := c18miniParse(src)
		if mp == nil {
			return &c18prog{bad: true}
		}
		return mp.render(fmt.Sprintf("f%d_", idx))
	case "s":
		n, src, ok := strings.Cut(rest, " | ")
		if _, okn := c18nat(n); !ok || !okn {
			return &c18prog{bad: true}
		}
		pr := &c18prog{}
		for _, c := range strings.Split(src, " ¶¶ ") {
			pr.chunks = append(pr.chunks, c18chunk{src: strings.ReplaceAll(c, " ¶ ", "\n")})
		}
		return pr
	}
	return nil
}

func c18encode(chunks []string) string {
	var parts []string
	for _, c := range chunks {
		parts = append(parts, strings.ReplaceAll(strings.TrimSpace(c), "\n", " ¶ "))
	}
	return strings.Join(parts, " ¶¶ ")
}

func c18prepare(ops []string) {
	c18cfgs = c18configs(c18tier)
	c18results = map[int]*c18result{}
	c18progs = map[int]*c18prog{}
	c18execIndex = 0
	// groups of ops between "reset" lines
	var group []int
	flush := func() {
		if len(group) == 0 {
			return
		}
		for _, i := range group {
			n := len(c18cfgs)
			c18results[i] = &c18result{outs: make([][]c18out, n), options: make([]base.Options, n), expect: make([]base.Options, n),
				line: make([]int, n), decls: make([]int, n), stmts: make([]int, n), brk: make([][]bool, n), g: make([]string, n)}
		}
		for ci, cfg := range c18cfgs {
			rt := c18newRT(cfg)
			g := &rt.ir.Comp.Globals
			for _, i := range group {
				pr := c18progs[i]
				res := c18results[i]
				if os.Getenv("VERIF_DEBUG") != "" {
					fmt.Fprintln(os.Stderr, "C18RUN", ci, i, ops[i])
				}
				// every program starts from the configuration's options, line 0, nothing collected
				g.Options = cfg.opts
				rt.expect = cfg.opts
				if strings.HasPrefix(ops[i], "m ") {
					// the mini programs name their initial options themselves (bits of the semantic
					// options included); the configuration's neutral options are added on top
					var bits int
					fmt.Sscanf(ops[i], "m %d", &bits)
					g.Options = cfg.opts ^ c18optsOf(bits)
					rt.expect = g.Options
					evalMini := "g0, g1, g2, g3 = 0, 0, 0, 0"
					save := g.Options
					g.Options = 0
					evalSrc(rt.ir, evalMini)
					g.Options = save
				}
				g.Line = 0
				g.Declarations, g.Statements, g.Imports = nil, nil, nil
				rt.brk = nil
				for _, ch := range pr.chunks {
					res.outs[ci] = append(res.outs[ci], rt.run(ch))
				}
				res.options[ci] = g.Options
				res.expect[ci] = rt.expect
				res.line[ci] = g.Line
				res.decls[ci] = len(g.Declarations)
				res.stmts[ci] = len(g.Statements)
				res.brk[ci] = rt.brk
				var gs []string
				for _, name := range []string{"g0", "g1", "g2", "g3"} {
					gs = append(gs, fmt.Sprint(rt.ir.ValueOf(name).ReflectValue()))
				}
				res.g[ci] = strings.Join(gs, ",")
			}
		}
		group = group[:0]
	}
	for i, op := range ops {
		if op == "reset" {
			flush()
			continue
		}
		pr := c18parseOp(op, i)
		if pr == nil || pr.bad {
			continue
		}
		c18progs[i] = pr
		group = append(group, i)
	}
	flush()
}

// ---------------------------------------------------------------- oracle

func c18subseq(a, b []string) bool { // a is a subsequence of b
	j := 0
	for _, x := range a {
		for j < len(b) && b[j] != x {
			j++
		}
		if j == len(b) {
			return false
		}
		j++
	}
	return true
}

// compare configuration ci with the baseline of the same path; "" = identical
func c18compare(res *c18result, pr *c18prog, base0, ci int, mini bool, bits int) (what, desc string) {
	cfg := c18cfgs[ci]
	b, c := res.outs[base0], res.outs[ci]
	printing := cfg.opts&c18printing != 0
	softWhat, softDesc := "", ""
	for i := range pr.chunks {
		x, y := b[i], c[i]
		where := fmt.Sprintf("chunk %d %q", i, truncate(pr.chunks[i].src, 120))
		if cfg.opts&base.OptKeepUntyped != 0 && x.panicTxt != y.panicTxt &&
			(x.panicked && strings.Contains(x.panicTxt, "overflows <") || y.panicked && strings.Contains(y.panicTxt, "overflows <")) {
			// the default type cannot hold the final constant: without OptKeepUntyped that is a
			// compile error of the whole chunk, with it the untyped form is returned.  (For the mini
			// programs, whose own option bits may contain Untyped.Keep, the configuration switches it off.)
			return softWhat, softDesc
		}
		if x.panicked != y.panicked {
			return "panic-differs", fmt.Sprintf("%s: baseline panic=%v %q, here panic=%v %q", where, x.panicked, truncate(x.panicTxt, 150), y.panicked, truncate(y.panicTxt, 150))
		}
		if x.panicTxt != y.panicTxt {
			return "panic-text-differs", fmt.Sprintf("%s: baseline %q, here %q", where, truncate(x.panicTxt, 200), truncate(y.panicTxt, 200))
		}
		if x.emits != y.emits {
			return "output-differs", fmt.Sprintf("%s: baseline emitted %q, here %q", where, truncate(x.emits, 200), truncate(y.emits, 200))
		}
		if x.vals != y.vals {
			return "value-differs", fmt.Sprintf("%s: baseline values %q, here %q", where, truncate(x.vals, 200), truncate(y.vals, 200))
		}
		if y.untyped && cfg.opts&base.OptKeepUntyped == 0 {
			return "untyped-result-without-keepuntyped", where
		}
		if x.warn != y.warn && softWhat == "" {
			// reported only if nothing else deviates
			softWhat, softDesc = "warnings-differ", fmt.Sprintf("%s: baseline %q, here %q", where, truncate(x.warn, 200), truncate(y.warn, 200))
		}
		if mini && (printing || cfg.opts&base.OptKeepUntyped != 0) {
			// the mini programs switch the printing options themselves (cfg bits, tog): the
			// configuration flips them again, and OptShowEvalType / OptKeepUntyped change how Print
			// renders a value ("5" / "5\t// int" / "{int 5}").  Their Stdout is tied to the model
			// in the baseline run instead.
		} else if printing {
			if !c18subseq(x.stdout, y.stdout) {
				return "stdout-lines-lost", fmt.Sprintf("%s: baseline stdout %q, here %q", where, x.stdout, y.stdout)
			}
		} else if strings.Join(x.stdout, "\n") != strings.Join(y.stdout, "\n") {
			return "stdout-differs", fmt.Sprintf("%s: baseline stdout %q, here %q", where, x.stdout, y.stdout)
		}
		if !mini && (y.trapped && cfg.opts&base.OptTrapPanic == 0 || y.stack && cfg.opts&base.OptPanicStackTrace == 0) {
			return "trap-without-option", where
		}
	}
	if res.options[ci] != res.expect[ci] {
		return "options-changed-by-program", fmt.Sprintf("g.Options is %q afterwards, expected %q", res.options[ci].String(), res.expect[ci].String())
	}
	if res.line[ci] != res.line[base0] {
		return "line-differs", fmt.Sprintf("g.Line is %d afterwards, baseline %d", res.line[ci], res.line[base0])
	}
	return softWhat, softDesc
}

func c18tags(pr *c18prog, res *c18result, base0 int) []string {
	tags := map[string]bool{}
	for i, ch := range pr.chunks {
		if ch.tog != 0 {
			tags["toggle"] = true
			continue
		}
		o := res.outs[base0][i]
		switch {
		case o.panicked && strings.Contains(o.panicTxt, "repl.go:"):
			tags["compile-error"] = true
		case o.panicked:
			tags["panic"] = true
		}
		if strings.HasPrefix(strings.TrimSpace(ch.src), ":") {
			tags["forced-eval"] = true
		}
		for _, kw := range []string{"defer", "recover", "func", "for ", "switch", "select", "chan", "struct", "interface", "macro", "quote", "goto", "range", "map[", "type ", "const ", "import"} {
			if strings.Contains(ch.src, kw) {
				tags["kw:"+strings.TrimSpace(kw)] = true
			}
		}
	}
	var out []string
	for t := range tags {
		out = append(out, t)
	}
	sort.Strings(out)
	return out
}

func c18bitsStr(bs []bool) string {
	var sb strings.Builder
	for _, b := range bs {
		if b {
			sb.WriteByte('1')
		} else {
			sb.WriteByte('0')
		}
	}
	return sb.String()
}

// the trace of a mini program under configuration ci, in the format of Drv/C18.lean runOp
func c18miniOut(op string, pr *c18prog, res *c18result, ci int) string {
	var bits int
	fmt.Sscanf(op, "m %d", &bits)
	rt := res.outs[ci]
	var rs, emits, trap, stack, stdout []string
	for i, ch := range pr.chunks {
		if ch.tog != 0 {
			rs = append(rs, "ok")
			continue
		}
		o := rt[i]
		if o.panicked {
			msg := o.panicTxt
			switch {
			case strings.Contains(msg, "undefined identifier"):
				msg = "cerr-undef"
			case strings.Contains(msg, "overflows"):
				msg = "cerr-overflow"
			}
			rs = append(rs, "p["+msg+"]")
			if o.trapped {
				trap = append(trap, "1")
				if o.stack {
					stack = append(stack, "1")
				} else {
					stack = append(stack, "0")
				}
			} else {
				trap = append(trap, "0")
			}
		} else {
			rs = append(rs, "ok")
		}
		if o.emits != "" {
			emits = append(emits, o.emits)
		}
		for _, l := range o.stdout {
			stdout = append(stdout, l)
		}
	}
	out := strings.Join(stdout, "⏎")
	if bits&(1<<9) != 0 {
		out = ""
	}
	meo := "0"
	if res.options[ci]&base.OptMacroExpandOnly != 0 {
		meo = "1"
	}
	return "R=" + strings.Join(rs, ",") +
		" | g=" + res.globals(ci) +
		" | line=" + fmt.Sprint(res.line[ci]) +
		" | meo=" + meo +
		" | e=" + strings.Join(emits, ",") +
		" | d=" + fmt.Sprint(res.decls[ci]) + " s=" + fmt.Sprint(res.stmts[ci]) +
		" | brk=" + c18bitsStr(res.brk[ci]) +
		" | trap=" + strings.Join(trap, "") + " stack=" + strings.Join(stack, "") +
		" | out=" + out
}

func (res *c18result) globals(ci int) string { return res.g[ci] }

func c18exec(op string) Result {
	idx := c18execIndex
	c18execIndex++
	if op == "reset" {
		return Result{Out: "ok", Tags: []string{"reset"}}
	}
	pr := c18progs[idx]
	res := c18results[idx]
	if pr == nil || res == nil {
		return Result{Out: "bad-op", Tags: []string{"malformed"}}
	}
	var r Result
	// baselines: first configuration of each path
	baseRepl, baseEval := -1, -1
	for ci, cfg := range c18cfgs {
		if cfg.opts == 0 && cfg.gen == etoken.GENERICS_NONE {
			if cfg.repl && baseRepl < 0 {
				baseRepl = ci
			}
			if !cfg.repl && baseEval < 0 {
				baseEval = ci
			}
		}
	}
	isMini := strings.HasPrefix(op, "m ")
	miniBits := 0
	if isMini {
		fmt.Sscanf(op, "m %d", &miniBits)
	}
	if isMini {
		r.Out = c18miniOut(op, pr, res, baseRepl)
		r.Tags = append(r.Tags, "mini")
	} else {
		n, _, _ := strings.Cut(op[2:], " | ")
		r.Out = "src " + n
		r.Tags = append(r.Tags, "source")
	}
	r.Tags = append(r.Tags, c18tags(pr, res, baseRepl)...)
	r.Nontrivial = len(pr.chunks) > 0
	for ci, cfg := range c18cfgs {
		b := baseRepl
		path := "repl"
		if !cfg.repl {
			b = baseEval
			path = "eval"
		}
		if ci == b {
			continue
		}
		if isMini && !cfg.repl {
			continue // ':' chunks and toggles are REPL-path features
		}
		if what, desc := c18compare(res, pr, b, ci, isMini, miniBits); what != "" {
			if cfg.gen != etoken.GENERICS_NONE {
				// the two recorded consequences of the implicit CTI methods keep their keys; any other
				// deviation under a GENERICS setting gets a key of its own, so that it cannot hide
				// behind them
				switch {
				case what == "panic-differs" && strings.Contains(desc, "baseline panic=false") && strings.Contains(desc, "methods named"):
				case what == "warnings-differ" && strings.Contains(desc, "redefined method"):
				default:
					what = "generics-" + what
				}
			}
			r.Key = what + "-under-" + cfg.name()
			r.Viol = fmt.Sprintf("%s path, options %s: %s: %s", path, cfg.name(), what, desc)
			r.Tags = append(r.Tags, "deviates")
			break
		}
	}
	return r
}

// ---------------------------------------------------------------- generator

func c18gen(r *rand.Rand, tier string, emit func(string)) {
	c18tier = tier
	ncfg := len(c18configs(tier))
	n := 0
	group := 240
	put := func(op string) {
		if n%group == 0 {
			emit("reset")
		}
		n++
		emit(op)
	}
	src := func(chunks []string) { put(fmt.Sprintf("s %d | %s", ncfg, c18encode(chunks))) }
	// 1. hand-written corpus
	for _, p := range c18corpus() {
		src(p)
	}
	for _, p := range c18constFixed() {
		src(p)
	}
	for _, p := range c18embedPrograms(tier) {
		src(p)
	}
	nc := 40
	if tier == "thorough" {
		nc = 1500
	}
	for i := 0; i < nc; i++ {
		src(c18constProgram(r))
	}
	// 2. mini-language programs: systematic, then random
	for _, m := range c18miniSystematic() {
		put(m)
	}
	nm, n05, n07 := 110, 40, 40
	if tier == "thorough" {
		nm, n05, n07 = 4000, 1500, 1500
	}
	for i := 0; i < nm; i++ {
		put(c18miniRandom(r))
	}
	// 3. programs of the C05 (control flow) and C07 (defer/panic/recover) generators as source
	for _, p := range c18fromC05(r, n05) {
		src(p)
	}
	for _, p := range c18fromC07(r, n07) {
		src(p)
	}
	// 4. malformed ops
	for _, m := range []string{"m 0 | do emit", "m 0 | do end", "m 0 | do brk end", "m 5000 | do emit n 1 end", "m x | do emit n 1 end",
		"m 0 | def 1 ret p end ;; def 1 ret p end", "m 0 | tog 32", "m 0 | def 0 ret call 0 p end", "m 0 | def 2 if p emit call 2 n 1 else end ret p end", "m 0 | do set 9 n 1 end", "m 0 do", "m 0 | do emit n 1 end ;;", "q", "s", "m 0 | : tog 1"} {
		put(m)
	}
}

func init() {
	register(&Prop{
		ID:      "C18",
		Rule:    "hand-written corpus (arithmetic, assignment, control flow, closures, defer/recover, composite types, methods/interfaces, channels, macros/quasiquote, REPL ':' commands), systematic + seeded random mini-language programs (tied to the Lean model), programs of the C05/C07 generators; every program under every option configuration of c18configs (2^6 REPL-path and 2^4 Eval-path combinations of the core options, sampled Show*/?Debug*/CtrlC options, etoken.GENERICS settings), compared with the all-options-off run; non-trivial = program with at least one chunk",
		Gen:     c18gen,
		Exec:    c18exec,
		Prepare: c18prepare,
		Exhaustive: func(tier string) bool {
			return false
		},
	})
	extractors["C18"] = c18extract
}
