package main

// C17: the dependency sorter base/dep returns a deterministic, source-stable topological order.
//
// op     := "sort" R item*          R = how many times the real sorter sorts the same input
// item   := "P" | "I" k | "S" stmt | "X" expr | "C" n spec^n | "V" n spec^n | "T" n (k type)^n
//         | "F" k ftype block | "M" recvname(k) ptr(0|1) recvtype(k) k ftype block
// spec   := nn k^nn ht [type] nv expr^nv
// ftype  := np field^np nr field^nr            field := nn k^nn type
// block  := n stmt^n
// expr   := "i" k | "l" | "s" expr k | "b" expr expr | "a" expr n expr^n | "f" ftype block
//         | "k" type n elt^n | "n" type          elt := "e" expr | "kv" expr expr
// type   := "i" k | "int" | "p" type | "r" expr type | "m" type type | "u" ftype
//         | "st" n field^n | "it" n (k ftype)^n
// stmt   := "e" expr | "ret" n expr^n | "blk" block | "var" spec | "con" spec | "typ" k type
//         | "def" n k^n m expr^m | "asg" expr expr | "if" hi [stmt] expr block he [block]
//         | "for" hi [stmt] hc [expr] hp [stmt] block | "rng" isdef hk [expr] hv [expr] expr block
//         | "lbl" k stmt | "brk" k | "sw" hi [stmt] ht [expr] n (ne expr^ne ns stmt^ns)^n
//
// identifier k is rendered "x<k>", except 900 = "_" and 901 = "iota".  The op is rendered to Go source, parsed
// with gomacro's own parser and sorted R times by the real dep.Sorter (in a child process, so
// that a sorter that never returns is reported instead of taking the harness down).
// Oracle (independent of the model): go/types Info.Uses restricted to package-level objects
// gives the reference free names of every declaration; on top of them linear-scan checks of
// permutation, topological order (forward type declarations allowed), least-position choice,
// phase preservation, determinism over the R runs, and declaration-loop reporting.

import (
	"bufio"
	"encoding/json"
	"fmt"
	"go/ast"
	goparser "go/parser"
	"go/token"
	"go/types"
	"io"
	"os"
	"os/exec"
	"sort"
	"strconv"
	"strings"
	"time"

	"github.com/cosmos72/gomacro/base/dep"
	"github.com/cosmos72/gomacro/go/etoken"
	mparser "github.com/cosmos72/gomacro/go/parser"
)

// ---------------------------------------------------------------- rendering op -> Go source

type c17rd struct {
	t   []string
	i   int
	bad bool
}

func (p *c17rd) next() string {
	if p.i >= len(p.t) {
		p.bad = true
		return ""
	}
	s := p.t[p.i]
	p.i++
	return s
}

func (p *c17rd) num() int {
	n, err := strconv.Atoi(p.next())
	if err != nil || n < 0 || n > 1000 {
		p.bad = true
		return 0
	}
	return n
}

func c17ident(k int) string {
	if k == 900 {
		return "_"
	}
	if k == 901 {
		return "iota"
	}
	return "x" + strconv.Itoa(k)
}

func (p *c17rd) ident() string { return c17ident(p.num()) }

func (p *c17rd) field() string {
	nn := p.num()
	var names []string
	for i := 0; i < nn && !p.bad; i++ {
		names = append(names, p.ident())
	}
	t := p.typ()
	if nn == 0 {
		return t
	}
	return strings.Join(names, ", ") + " " + t
}

func (p *c17rd) fields(sep string) string {
	n := p.num()
	var fs []string
	for i := 0; i < n && !p.bad; i++ {
		fs = append(fs, p.field())
	}
	return strings.Join(fs, sep)
}

func (p *c17rd) ftype() string {
	params := p.fields(", ")
	results := p.fields(", ")
	if results == "" {
		return "(" + params + ")"
	}
	return "(" + params + ") (" + results + ")"
}

func (p *c17rd) block() string {
	n := p.num()
	var ss []string
	for i := 0; i < n && !p.bad; i++ {
		ss = append(ss, p.stmt())
	}
	return "{ " + strings.Join(ss, "; ") + " }"
}

func (p *c17rd) exprs() string {
	n := p.num()
	var es []string
	for i := 0; i < n && !p.bad; i++ {
		es = append(es, p.expr())
	}
	return strings.Join(es, ", ")
}

func (p *c17rd) expr() string {
	if p.bad {
		return ""
	}
	switch p.next() {
	case "i":
		return p.ident()
	case "l":
		return "1"
	case "s":
		x := p.expr()
		return x + "." + p.ident()
	case "b":
		x := p.expr()
		y := p.expr()
		return "(" + x + " + " + y + ")"
	case "a":
		f := p.expr()
		return f + "(" + p.exprs() + ")"
	case "f":
		ft := p.ftype()
		return "func" + ft + " " + p.block()
	case "k":
		t := p.typ()
		n := p.num()
		var es []string
		for i := 0; i < n && !p.bad; i++ {
			switch p.next() {
			case "e":
				es = append(es, p.expr())
			case "kv":
				k := p.expr()
				es = append(es, k+": "+p.expr())
			default:
				p.bad = true
			}
		}
		return "(" + t + "{" + strings.Join(es, ", ") + "})"
	case "n":
		return "len([1]" + p.typ() + "{})"
	}
	p.bad = true
	return ""
}

func (p *c17rd) typ() string {
	if p.bad {
		return ""
	}
	switch p.next() {
	case "i":
		return p.ident()
	case "int":
		return "int"
	case "p":
		return "*" + p.typ()
	case "r":
		n := p.expr()
		return "[" + n + "]" + p.typ()
	case "m":
		k := p.typ()
		return "map[" + k + "]" + p.typ()
	case "u":
		return "func" + p.ftype()
	case "st":
		return "struct{ " + p.fields("; ") + " }"
	case "it":
		n := p.num()
		var ms []string
		for i := 0; i < n && !p.bad; i++ {
			m := p.ident()
			ms = append(ms, m+p.ftype())
		}
		return "interface{ " + strings.Join(ms, "; ") + " }"
	}
	p.bad = true
	return ""
}

func (p *c17rd) spec() string {
	nn := p.num()
	var names []string
	for i := 0; i < nn && !p.bad; i++ {
		names = append(names, p.ident())
	}
	s := strings.Join(names, ", ")
	if p.num() == 1 {
		s += " " + p.typ()
	}
	if vals := p.exprs(); vals != "" {
		s += " = " + vals
	}
	return s
}

func (p *c17rd) optStmt() string {
	if p.num() == 1 {
		return p.stmt()
	}
	return ""
}

func (p *c17rd) optExpr() string {
	if p.num() == 1 {
		return p.expr()
	}
	return ""
}

func (p *c17rd) stmt() string {
	if p.bad {
		return ""
	}
	switch p.next() {
	case "e":
		return "_ = " + p.expr()
	case "ret":
		return strings.TrimSpace("return " + p.exprs())
	case "blk":
		return p.block()
	case "var":
		return "var " + p.spec()
	case "con":
		return "const " + p.spec()
	case "typ":
		n := p.ident()
		return "type " + n + " " + p.typ()
	case "def":
		n := p.num()
		var names []string
		for i := 0; i < n && !p.bad; i++ {
			names = append(names, p.ident())
		}
		return strings.Join(names, ", ") + " := " + p.exprs()
	case "asg":
		l := p.expr()
		return l + " = " + p.expr()
	case "if":
		s := "if "
		if init := p.optStmt(); init != "" {
			s += init + "; "
		}
		s += p.expr() + " " + p.block()
		if p.num() == 1 {
			s += " else " + p.block()
		}
		return s
	case "for":
		init := p.optStmt()
		cond := p.optExpr()
		post := p.optStmt()
		return "for " + init + "; " + cond + "; " + post + " " + p.block()
	case "rng":
		def := p.num()
		k := p.optExpr()
		v := p.optExpr()
		x := p.expr()
		b := p.block()
		tok := " = "
		if def == 1 {
			tok = " := "
		}
		switch {
		case k == "" && v == "":
			return "for range " + x + " " + b
		case v == "":
			return "for " + k + tok + "range " + x + " " + b
		case k == "":
			return "for _, " + v + tok + "range " + x + " " + b
		}
		return "for " + k + ", " + v + tok + "range " + x + " " + b
	case "lbl":
		l := p.ident()
		return l + ": " + p.stmt()
	case "brk":
		return "break " + p.ident()
	case "sw":
		s := "switch "
		if init := p.optStmt(); init != "" {
			s += init + "; "
		}
		s += p.optExpr() + " { "
		n := p.num()
		for i := 0; i < n && !p.bad; i++ {
			es := p.exprs()
			if es == "" {
				s += "default: "
			} else {
				s += "case " + es + ": "
			}
			ns := p.num()
			for j := 0; j < ns && !p.bad; j++ {
				s += p.stmt() + "; "
			}
		}
		return s + "}"
	}
	p.bad = true
	return ""
}

// c17item is one element of the sorter's input queue
type c17item struct {
	class byte // 'P' package, 'I' import, 'D' declaration, 'S' statement or expression
	src   string
	kind  string // for non-declarations: the expected Kind ...
	name  string // ... and the expected name ("" = generated <kindN>)
}

func c17render(op string) (reps int, items []c17item, ok bool) {
	p := &c17rd{t: strings.Split(op, " ")}
	if p.next() != "sort" {
		return 0, nil, false
	}
	reps = p.num()
	for p.i < len(p.t) && !p.bad {
		switch p.next() {
		case "P":
			items = append(items, c17item{'P', "package main", "Package", ""})
		case "I":
			n := p.ident()
			items = append(items, c17item{'I', "import " + n + " \"p/" + n + "\"", "Import", n})
		case "S":
			items = append(items, c17item{'S', p.stmt(), "Stmt", ""})
		case "X":
			items = append(items, c17item{'S', p.expr(), "Expr", ""})
		case "C", "V":
			kw := "const"
			if p.t[p.i-1] == "V" {
				kw = "var"
			}
			n := p.num()
			var ss []string
			for i := 0; i < n && !p.bad; i++ {
				ss = append(ss, p.spec())
			}
			if n == 1 {
				items = append(items, c17item{'D', kw + " " + ss[0], "", ""})
			} else {
				items = append(items, c17item{'D', kw + " ( " + strings.Join(ss, "; ") + " )", "", ""})
			}
		case "T":
			n := p.num()
			var ss []string
			for i := 0; i < n && !p.bad; i++ {
				nm := p.ident()
				ss = append(ss, nm+" "+p.typ())
			}
			if n == 1 {
				items = append(items, c17item{'D', "type " + ss[0], "", ""})
			} else {
				items = append(items, c17item{'D', "type ( " + strings.Join(ss, "; ") + " )", "", ""})
			}
		case "F":
			n := p.ident()
			ft := p.ftype()
			items = append(items, c17item{'D', "func " + n + ft + " " + p.block(), "", ""})
		case "M":
			rn := p.ident()
			ptr := p.num()
			rt := p.ident()
			if ptr == 1 {
				rt = "*" + rt
			}
			n := p.ident()
			ft := p.ftype()
			items = append(items, c17item{'D', "func (" + rn + " " + rt + ") " + n + ft + " " + p.block(), "", ""})
		default:
			p.bad = true
		}
	}
	return reps, items, !p.bad && reps >= 1 && reps <= 500
}

// ---------------------------------------------------------------- the real sorter (worker process)

type c17rec struct {
	Kind, Name string
	Deps       []string
}

func (r c17rec) String() string { return r.Kind + ":" + r.Name + "[" + strings.Join(r.Deps, ",") + "]" }

func c17showRecs(rs []c17rec) string {
	ss := make([]string, len(rs))
	for i, r := range rs {
		ss[i] = r.String()
	}
	return strings.Join(ss, " ")
}

// one run of the real sorter; result is the record list rendered as text, or "loop <text>" / "panic <text>"
func c17sortOnce(src string) (out string) {
	defer func() {
		if e := recover(); e != nil {
			msg := fmt.Sprint(e)
			if strings.Contains(msg, "declaration loop") {
				out = "loop " + oneLine(msg)
			} else {
				out = "panic " + oneLine(msg)
			}
		}
	}()
	var p mparser.Parser
	fset := etoken.NewFileSet()
	p.Init(fset, "c17.go", 0, []byte(src))
	nodes, err := p.Parse()
	if err != nil {
		return "parse-error " + oneLine(err.Error())
	}
	s := dep.NewSorter()
	s.LoadNodes(nodes)
	var rs []c17rec
	for _, d := range s.All() {
		rs = append(rs, c17rec{d.Kind.String(), d.Name, d.Deps})
	}
	return c17showRecs(rs)
}

// a sort of a handful of declarations takes well under a millisecond
const c17deadline = 4 * time.Second

// after this many sorts that did not return, the remaining ops are not run (each costs the deadline)
const c17maxHangs = 8

var c17hangs int

type c17req struct {
	Src  string
	Reps int
}

// worker: reads one JSON request per line, answers one JSON array of results per line;
// a sort that does not return within the deadline is answered with ["hang"] and the worker exits.
func c17workerMain() {
	in := bufio.NewReaderSize(os.Stdin, 1<<20)
	out := bufio.NewWriter(os.Stdout)
	for {
		line, err := in.ReadString('\n')
		if line == "" && err != nil {
			return
		}
		var rq c17req
		if json.Unmarshal([]byte(line), &rq) != nil {
			return
		}
		done := make(chan []string, 1)
		go func() {
			var res []string
			for i := 0; i < rq.Reps; i++ {
				res = append(res, c17sortOnce(rq.Src))
			}
			done <- res
		}()
		var res []string
		hang := false
		select {
		case res = <-done:
		case <-time.After(c17deadline + time.Duration(rq.Reps)*50*time.Millisecond):
			res, hang = []string{"hang"}, true
		}
		b, _ := json.Marshal(res)
		out.Write(b)
		out.WriteByte('\n')
		out.Flush()
		if hang {
			os.Exit(3)
		}
	}
}

func init() {
	if len(os.Args) > 1 && os.Args[1] == "c17-worker" {
		c17workerMain()
		os.Exit(0)
	}
}

var c17w struct {
	cmd *exec.Cmd
	in  io.WriteCloser
	out *bufio.Reader
}

func c17stopWorker() {
	if c17w.cmd != nil {
		c17w.in.Close()
		c17w.cmd.Process.Kill()
		c17w.cmd.Wait()
		c17w.cmd = nil
	}
}

func c17runReal(src string, reps int) []string {
	for attempt := 0; attempt < 2; attempt++ {
		if c17w.cmd == nil {
			exe, err := os.Executable()
			if err != nil {
				exe = os.Args[0]
			}
			cmd := exec.Command(exe, "c17-worker")
			cmd.Env = append(os.Environ(), "GOMEMLIMIT=3GiB")
			in, _ := cmd.StdinPipe()
			outp, _ := cmd.StdoutPipe()
			if err := cmd.Start(); err != nil {
				panic("cannot start c17 worker: " + err.Error())
			}
			c17w.cmd, c17w.in, c17w.out = cmd, in, bufio.NewReaderSize(outp, 1<<20)
		}
		b, _ := json.Marshal(c17req{src, reps})
		c17w.in.Write(append(b, '\n'))
		line, err := c17w.out.ReadString('\n')
		var res []string
		if err == nil && json.Unmarshal([]byte(line), &res) == nil && len(res) > 0 {
			if res[0] == "hang" {
				c17stopWorker()
			}
			return res
		}
		c17stopWorker() // worker died (out of memory?): treat like a hang, once
		if attempt == 0 {
			return []string{"hang"}
		}
	}
	return []string{"hang"}
}

func c17parseRecs(s string) []c17rec {
	var rs []c17rec
	for _, f := range strings.Fields(s) {
		kind, rest, _ := strings.Cut(f, ":")
		name, deps, _ := strings.Cut(rest, "[")
		deps = strings.TrimSuffix(deps, "]")
		r := c17rec{Kind: kind, Name: name}
		if deps != "" {
			r.Deps = strings.Split(deps, ",")
		}
		rs = append(rs, r)
	}
	return rs
}

// ---------------------------------------------------------------- reference analysis (go/types)

type c17decl struct {
	kind  string // Const Var VarMulti Type Func Method
	name  string
	pos   int      // source order of the declared identifier inside the run
	deps  []string // reference: package-level names occurring free (sorted, restricted to declared names, own name removed for Func/Type/Method)
	notes map[string]string
}

type c17ref struct {
	info    *types.Info
	pkg     *types.Package
	defKind map[token.Pos]string // how a local object is declared: param result receiver define range localvar localconst localtype label field imethod
}

func (r *c17ref) collectDefKinds(f *ast.File) {
	r.defKind = map[token.Pos]string{}
	mark := func(fl *ast.FieldList, k string) {
		if fl == nil {
			return
		}
		for _, fd := range fl.List {
			for _, n := range fd.Names {
				r.defKind[n.Pos()] = k
			}
		}
	}
	depth := 0
	var walk func(n ast.Node)
	walk = func(n ast.Node) {
		ast.Inspect(n, func(n ast.Node) bool {
			switch n := n.(type) {
			case *ast.FuncDecl:
				mark(n.Recv, "receiver")
				depth++
				if n.Type != nil {
					walk(n.Type)
				}
				if n.Body != nil {
					walk(n.Body)
				}
				depth--
				return false
			case *ast.FuncLit:
				depth++
				walk(n.Type)
				walk(n.Body)
				depth--
				return false
			case *ast.FuncType:
				mark(n.Params, "param")
				mark(n.Results, "result")
			case *ast.StructType:
				mark(n.Fields, "field")
			case *ast.InterfaceType:
				mark(n.Methods, "imethod")
			case *ast.AssignStmt:
				if n.Tok == token.DEFINE {
					for _, l := range n.Lhs {
						if id, ok := l.(*ast.Ident); ok {
							r.defKind[id.Pos()] = "define"
						}
					}
				}
			case *ast.RangeStmt:
				if n.Tok == token.DEFINE {
					for _, l := range []ast.Expr{n.Key, n.Value} {
						if id, ok := l.(*ast.Ident); ok {
							r.defKind[id.Pos()] = "range"
						}
					}
				}
			case *ast.LabeledStmt:
				r.defKind[n.Label.Pos()] = "label"
			case *ast.GenDecl:
				if depth > 0 {
					for _, sp := range n.Specs {
						switch sp := sp.(type) {
						case *ast.ValueSpec:
							k := "localvar"
							if n.Tok == token.CONST {
								k = "localconst"
							}
							if len(sp.Names) > 1 {
								k += "-multi"
							}
							for _, id := range sp.Names {
								r.defKind[id.Pos()] = k
							}
						case *ast.TypeSpec:
							r.defKind[sp.Name.Pos()] = "localtype"
						}
					}
				}
			}
			return true
		})
	}
	walk(f)
}

// free package-level names of node; notes[name] records, for names that ALSO occur bound or as
// non-references inside node, how (used to derive a stable key when the sorter disagrees)
func (r *c17ref) uses(node ast.Node, into map[string]bool, notes map[string]string) {
	if node == nil {
		return
	}
	selSkip := map[*ast.Ident]bool{}
	ast.Inspect(node, func(n ast.Node) bool {
		switch n := n.(type) {
		case *ast.SelectorExpr:
			selSkip[n.Sel] = true
			if x, ok := n.X.(*ast.Ident); ok {
				if tn, ok := r.info.Uses[x].(*types.TypeName); ok && tn.Parent() == r.pkg.Scope() {
					if sel := r.info.Selections[n]; sel != nil && sel.Kind() == types.MethodExpr {
						into[x.Name+"."+n.Sel.Name] = true
					}
				}
			}
			if notes[n.Sel.Name] == "" {
				notes[n.Sel.Name] = "selector"
			}
		case *ast.BranchStmt:
			if n.Label != nil {
				notes[n.Label.Name] = "label"
			}
		case *ast.Ident:
			if n.Name == "_" {
				notes["_"] = "blank"
				return true
			}
			if obj := r.info.Uses[n]; obj != nil {
				if obj.Parent() == r.pkg.Scope() {
					into[n.Name] = true
				} else if k := r.defKind[obj.Pos()]; k != "" && !selSkip[n] {
					notes[n.Name] = k
				} else if v, ok := obj.(*types.Var); ok && v.IsField() {
					notes[n.Name] = "field"
				}
			} else if obj := r.info.Defs[n]; obj != nil {
				if k := r.defKind[n.Pos()]; k != "" && notes[n.Name] == "" {
					notes[n.Name] = k
				}
			} else if k := r.defKind[n.Pos()]; k != "" && notes[n.Name] == "" {
				notes[n.Name] = k // e.g. labels, symbolic variable of a type switch
			}
		}
		return true
	})
}

// c17reference type-checks one run of declarations and returns its declarations in source order
func c17reference(src string) ([]*c17decl, error) {
	fset := token.NewFileSet()
	f, err := goparser.ParseFile(fset, "run.go", "package p\n"+src, goparser.SkipObjectResolution)
	if err != nil {
		return nil, err
	}
	r := &c17ref{info: &types.Info{Uses: map[*ast.Ident]types.Object{}, Defs: map[*ast.Ident]types.Object{}, Selections: map[*ast.SelectorExpr]*types.Selection{}}}
	conf := types.Config{Error: func(error) {}, DisableUnusedImportCheck: true}
	r.pkg, _ = conf.Check("p", fset, []*ast.File{f}, r.info)
	if r.pkg == nil {
		return nil, fmt.Errorf("go/types returned no package")
	}
	r.collectDefKinds(f)
	var ds []*c17decl
	add := func(kind, name string, self bool, nodes ...ast.Node) {
		d := &c17decl{kind: kind, name: name, pos: len(ds), notes: map[string]string{}}
		set := map[string]bool{}
		for _, n := range nodes {
			if n != nil {
				r.uses(n, set, d.notes)
			}
		}
		if self {
			delete(set, name)
		}
		for n := range set {
			d.deps = append(d.deps, n)
		}
		ds = append(ds, d)
	}
	for _, decl := range f.Decls {
		switch decl := decl.(type) {
		case *ast.FuncDecl:
			if decl.Recv != nil && len(decl.Recv.List) != 0 {
				var tn string
				ast.Inspect(decl.Recv.List[0].Type, func(n ast.Node) bool {
					if id, ok := n.(*ast.Ident); ok && tn == "" {
						tn = id.Name
					}
					return true
				})
				add("Method", tn+"."+decl.Name.Name, true, decl.Recv, decl.Type, c17nilBlock(decl.Body))
			} else {
				add("Func", decl.Name.Name, true, decl.Type, c17nilBlock(decl.Body))
			}
		case *ast.GenDecl:
			var lastType ast.Expr
			var lastValues []ast.Expr
			for _, sp := range decl.Specs {
				switch sp := sp.(type) {
				case *ast.TypeSpec:
					add("Type", sp.Name.Name, true, sp.Type)
				case *ast.ValueSpec:
					typ, values := sp.Type, sp.Values
					if decl.Tok == token.CONST {
						if sp.Type != nil || sp.Values != nil {
							lastType, lastValues = sp.Type, sp.Values
						}
						typ, values = lastType, lastValues
					}
					for i, id := range sp.Names {
						nodes := []ast.Node{}
						if typ != nil {
							nodes = append(nodes, typ)
						}
						kind := "Var"
						if decl.Tok == token.CONST {
							kind = "Const"
						}
						if decl.Tok == token.VAR && len(sp.Names) > 1 && len(values) == 1 {
							kind = "VarMulti"
							nodes = append(nodes, values[0])
						} else if i < len(values) {
							nodes = append(nodes, values[i])
						}
						add(kind, id.Name, false, nodes...)
					}
				}
			}
		}
	}
	declared := map[string]bool{}
	for _, d := range ds {
		declared[d.name] = true
	}
	for _, d := range ds {
		var keep []string
		for _, n := range d.deps {
			if declared[n] {
				keep = append(keep, n)
			}
		}
		sort.Strings(keep)
		d.deps = keep
	}
	return ds, nil
}

func c17nilBlock(b *ast.BlockStmt) ast.Node {
	if b == nil {
		return nil
	}
	return b
}

// ---------------------------------------------------------------- oracle

type c17group struct {
	name   string
	decls  []*c17decl
	isType bool
	deps   map[string]bool
}

// c17checkRun checks the records the sorter returned for one run of declarations against the
// reference.  Returns "" or (key, description).
func c17checkRun(ds []*c17decl, recs []c17rec) (string, string) {
	groups := map[string]*c17group{}
	var order []*c17group
	for _, d := range ds {
		g := groups[d.name]
		if g == nil {
			g = &c17group{name: d.name, deps: map[string]bool{}}
			groups[d.name] = g
			order = append(order, g)
		}
		g.decls = append(g.decls, d)
		if d.kind == "Type" {
			g.isType = true
		}
		for _, n := range d.deps {
			g.deps[n] = true
		}
	}
	emitted := map[string]bool{}
	fwd := map[string]bool{}
	fwdBatch := map[string]bool{} // forward declarations known when the current batch of TypeFwd started
	ready := func(g *c17group, f map[string]bool) bool {
		for n := range g.deps {
			if emitted[n] || (g.isType && f[n]) {
				continue
			}
			return false
		}
		return true
	}
	onCycle := func(start string) bool { // start reaches itself through not yet emitted groups
		seen := map[string]bool{}
		stack := []string{start}
		for len(stack) > 0 {
			n := stack[len(stack)-1]
			stack = stack[:len(stack)-1]
			for m := range groups[n].deps {
				if emitted[m] {
					continue
				}
				if m == start {
					return true
				}
				if !seen[m] {
					seen[m] = true
					stack = append(stack, m)
				}
			}
		}
		return false
	}
	inBatch := false
	batchCount := map[string]int{}
	for i := 0; i < len(recs); {
		r := recs[i]
		g := groups[r.Name]
		if g == nil {
			return "decl-unknown", fmt.Sprintf("the sorter returned %v, which is not declared", r)
		}
		if r.Kind == "TypeFwd" {
			if !inBatch {
				inBatch = true
				fwdBatch = map[string]bool{}
				for k := range fwd {
					fwdBatch[k] = true
				}
				batchCount = map[string]int{}
			}
			ntypes := 0 // (malformed input) a name declared several times is forward-declared once per type declaration
			for _, d := range g.decls {
				if d.kind == "Type" {
					ntypes++
				}
			}
			batchCount[r.Name]++
			switch {
			case !g.isType:
				return "typefwd-not-a-type", fmt.Sprintf("forward declaration of %s, which is not a type", r.Name)
			case emitted[r.Name]:
				return "typefwd-after-type", fmt.Sprintf("forward declaration of %s after its declaration", r.Name)
			case fwdBatch[r.Name] || batchCount[r.Name] > ntypes:
				return "typefwd-duplicate", fmt.Sprintf("second forward declaration of %s", r.Name)
			case !onCycle(r.Name):
				return "typefwd-not-on-cycle", fmt.Sprintf("forward declaration of %s, which is not on a dependency cycle", r.Name)
			}
			for _, h := range order {
				if !emitted[h.name] && ready(h, fwdBatch) {
					return "typefwd-while-ready", fmt.Sprintf("forward declaration of %s although %s has no pending dependency", r.Name, h.name)
				}
			}
			fwd[r.Name] = true
			i++
			continue
		}
		inBatch = false
		if emitted[r.Name] {
			return "decl-duplicate", fmt.Sprintf("%s returned twice", r.Name)
		}
		if !ready(g, fwd) {
			var missing []string
			for n := range g.deps {
				if !(emitted[n] || (g.isType && fwd[n])) {
					missing = append(missing, n)
				}
			}
			sort.Strings(missing)
			return "order-not-topological", fmt.Sprintf("%s is placed before %v, which occur free in it", r.Name, missing)
		}
		for _, h := range order {
			if h != g && !emitted[h.name] && ready(h, fwd) && h.decls[0].pos < g.decls[0].pos {
				return "order-not-least-position", fmt.Sprintf("%s is placed although %s comes earlier in the source and has no pending dependency", r.Name, h.name)
			}
		}
		for _, d := range g.decls {
			if i >= len(recs) || recs[i].Name != d.name || recs[i].Kind != d.kind {
				return "decl-group", fmt.Sprintf("expected %s:%s at index %d of the result", d.kind, d.name, i)
			}
			i++
		}
		emitted[r.Name] = true
	}
	for _, g := range order {
		if !emitted[g.name] {
			return "decl-missing", fmt.Sprintf("%s is not in the result", g.name)
		}
	}
	return "", ""
}

// a declaration loop may be reported only if some dependency cycle contains a declaration that is not a type
func c17loopAllowed(ds []*c17decl) bool {
	deps := map[string]map[string]bool{}
	isType := map[string]bool{}
	for _, d := range ds {
		if deps[d.name] == nil {
			deps[d.name] = map[string]bool{}
		}
		for _, n := range d.deps {
			deps[d.name][n] = true
		}
		if d.kind == "Type" {
			isType[d.name] = true
		}
	}
	for start := range deps {
		if isType[start] {
			continue
		}
		seen := map[string]bool{}
		stack := []string{start}
		for len(stack) > 0 {
			n := stack[len(stack)-1]
			stack = stack[:len(stack)-1]
			for m := range deps[n] {
				if m == start {
					return true
				}
				if !seen[m] {
					seen[m] = true
					stack = append(stack, m)
				}
			}
		}
	}
	return false
}

// the cycle printed by the declaration-loop error must be a real dependency cycle
func c17loopTextOK(all [][]*c17decl, text string) bool {
	deps := map[string]bool{}
	for _, ds := range all {
		for _, d := range ds {
			for _, n := range d.deps {
				deps[d.name+">"+n] = true
			}
		}
	}
	var first, last string
	n := 0
	for _, l := range strings.Split(strings.ReplaceAll(text, "\\t", ""), "\\n") {
		a, b, ok := strings.Cut(strings.TrimSpace(l), " uses ")
		if !ok {
			continue
		}
		if !deps[a+">"+b] || (n > 0 && a != last) {
			return false
		}
		if n == 0 {
			first = a
		}
		last = b
		n++
	}
	return n > 0 && first == last
}

func c17depsKey(d *c17decl, got []string, ds []*c17decl) (string, string) {
	have := map[string]bool{}
	for _, n := range got {
		have[n] = true
	}
	want := map[string]bool{}
	for _, n := range d.deps {
		want[n] = true
	}
	pos := map[string]int{}
	for _, e := range ds {
		if _, ok := pos[e.name]; !ok {
			pos[e.name] = e.pos
		}
	}
	for _, n := range got {
		if !want[n] {
			why := d.notes[n]
			if why == "" {
				why = "unknown"
			}
			return "deps-extra-" + why, fmt.Sprintf("%s %s: the sorter reports a dependency on %s, but no free occurrence of %s exists (it is bound by / occurs only as: %s)", d.kind, d.name, n, n, why)
		}
	}
	for _, n := range d.deps {
		if !have[n] {
			where := "later"
			if pos[n] < d.pos {
				where = "earlier"
			}
			return "deps-missing-" + where + "-decl", fmt.Sprintf("%s %s: %s occurs free in it (go/types resolves it to the package-level declaration, which is %s in the source) but the sorter reports no dependency", d.kind, d.name, n, where)
		}
	}
	return "", ""
}

func c17exec(op string) Result {
	reps, items, ok := c17render(op)
	if !ok {
		return Result{Out: "bad-op", Tags: []string{"bad-op"}}
	}
	var srcs []string
	for _, it := range items {
		srcs = append(srcs, it.src)
	}
	src := strings.Join(srcs, "\n")
	res := Result{Nontrivial: true}
	if c17hangs >= c17maxHangs {
		return Result{Out: "not-run", Tags: []string{"not-run-after-hangs"}}
	}
	results := c17runReal(src, reps)
	viol := func(key, desc string) {
		if res.Viol == "" {
			res.Key, res.Viol = key, desc+"   source: "+oneLine(src)
			res.Tags = append(res.Tags, "viol-"+key)
		}
	}
	first := results[0]
	switch {
	case first == "hang":
		c17hangs++
		res.Out = "hang"
		res.Tags = append(res.Tags, "hang")
		viol("sorter-does-not-terminate", fmt.Sprintf("dep.Sorter.All() did not return within %v", c17deadline))
		return res
	case strings.HasPrefix(first, "parse-error"), strings.HasPrefix(first, "panic "):
		res.Out = first
		res.Tags = append(res.Tags, "harness-bad-source")
		viol("harness-bad-source", "generated source rejected: "+first)
		return res
	}
	for _, r := range results[1:] {
		if r != first {
			viol("nondeterministic-order", fmt.Sprintf("sorting the same declarations %d times gave different results, e.g. %q and %q", reps, first, r))
			res.Tags = append(res.Tags, "nondeterministic")
			break
		}
	}
	// reference analysis, one run of declarations at a time
	var runs [][]*c17decl
	type phase struct {
		class byte
		items []c17item
	}
	var phases []phase
	for _, it := range items {
		if n := len(phases); n > 0 && phases[n-1].class == it.class {
			phases[n-1].items = append(phases[n-1].items, it)
		} else {
			phases = append(phases, phase{it.class, []c17item{it}})
		}
	}
	for _, ph := range phases {
		if ph.class != 'D' {
			continue
		}
		var ss []string
		for _, it := range ph.items {
			ss = append(ss, it.src)
		}
		ds, err := c17reference(strings.Join(ss, "\n"))
		if err != nil {
			res.Out = "reference-error"
			viol("harness-bad-source", "go/parser rejects the generated source: "+err.Error())
			return res
		}
		runs = append(runs, ds)
	}
	if len(phases) > 1 {
		res.Tags = append(res.Tags, "phases")
	}
	if strings.HasPrefix(first, "loop ") {
		res.Out = "loop"
		res.Tags = append(res.Tags, "loop")
		allowed := false
		for _, ds := range runs {
			if c17loopAllowed(ds) {
				allowed = true
			}
		}
		if !allowed {
			viol("loop-without-cycle", "declaration loop reported, but no dependency cycle contains a declaration that is not a type: "+first)
		} else if !c17loopTextOK(runs, first) {
			viol("loop-text-not-a-cycle", "the reported loop is not a dependency cycle: "+first)
		}
		return res
	}
	res.Out = first
	recs := c17parseRecs(first)
	// phases: the result is the concatenation of the phases in source order
	i := 0
	gensym := 0
	run := 0
	for _, ph := range phases {
		if ph.class != 'D' {
			for _, it := range ph.items {
				name := it.name
				if name == "" {
					name = fmt.Sprintf("<%s%d>", strings.ToLower(it.kind), gensym)
					gensym++
				}
				if i >= len(recs) || recs[i].Kind != it.kind || recs[i].Name != name {
					viol("phase-moved", fmt.Sprintf("expected %s:%s at index %d of the result %q", it.kind, name, i, first))
					return res
				}
				i++
			}
			continue
		}
		ds := runs[run]
		run++
		j := i
		for j < len(recs) && (recs[j].Kind != "Package" && recs[j].Kind != "Import" && recs[j].Kind != "Stmt" && recs[j].Kind != "Expr") {
			j++
		}
		seg := recs[i:j]
		i = j
		// dependencies of every declaration = reference free names
		byName := map[string][]*c17decl{}
		for _, d := range ds {
			byName[d.name] = append(byName[d.name], d)
		}
		cnt := map[string]int{}
		for _, r := range seg {
			if r.Kind == "TypeFwd" {
				res.Tags = append(res.Tags, "typefwd")
				continue
			}
			l := byName[r.Name]
			if cnt[r.Name] < len(l) {
				d := l[cnt[r.Name]]
				cnt[r.Name]++
				if strings.Join(d.deps, ",") != strings.Join(r.Deps, ",") {
					k, desc := c17depsKey(d, r.Deps, ds)
					if k != "" {
						viol(k, desc)
					}
				}
				for n, why := range d.notes {
					_ = n
					res.Tags = append(res.Tags, "bound-"+why)
				}
			}
		}
		if k, desc := c17checkRun(ds, seg); k != "" {
			viol(k, desc+"; result "+first)
		}
	}
	if i != len(recs) {
		viol("phase-moved", "unexpected trailing records in "+first)
	}
	sort.Strings(res.Tags)
	res.Tags = c17uniq(res.Tags)
	return res
}

func c17uniq(s []string) []string {
	var out []string
	for i, x := range s {
		if i == 0 || x != s[i-1] {
			out = append(out, x)
		}
	}
	return out
}
