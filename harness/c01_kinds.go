package main

// Basic kinds, value codec and NATIVE Go operators per kind (the specification side of C01:
// "the same value that the compiled Go program computes").  Shared with C02/C03/C34.
//
// A value of any basic kind is carried as bval: integers/bools/floats as the bit pattern in u
// (complex: real part bits in u, imaginary in u2), strings in s.  The native operators are
// instantiated once per kind from generic functions, so every result below is computed by
// the Go compiler's own code for exactly that operand type.

import (
	"encoding/hex"
	"fmt"
	"math"
	"reflect"
	"strconv"
	"strings"
)

type bval struct {
	u, u2 uint64
	s     string
}

type kcat int

const (
	catBool kcat = iota
	catInt
	catUint
	catFloat
	catComplex
	catString
)

type bkind struct {
	name string
	cat  kcat
	bits int // total width: 8..64, complex 64/128
	rt   reflect.Type
	// native binary operator: result, result is bool, runtime panic class ("" none)
	bin func(op string, x, y bval) (bval, string)
	cmp func(op string, x, y bval) bool
	un  func(op string, x bval) bval
	// shift[ykind](op, x, y)
	shift map[string]func(op string, x, y bval) (bval, string)
	toRV  func(v bval) reflect.Value
	ofRV  func(v reflect.Value) bval
	lit   func(v bval) string // Go source text of an UNTYPED constant with this value ("" if none exists)
}

var bkinds = map[string]*bkind{}
var bkindNames = []string{"bool", "int", "int8", "int16", "int32", "int64", "uint", "uint8", "uint16", "uint32", "uint64", "uintptr",
	"float32", "float64", "complex64", "complex128", "string"}

type integer interface {
	~int | ~int8 | ~int16 | ~int32 | ~int64 | ~uint | ~uint8 | ~uint16 | ~uint32 | ~uint64 | ~uintptr
}

func nativePanicClass(e interface{}) string {
	s := fmt.Sprint(e)
	switch {
	case strings.Contains(s, "divide by zero"):
		return "divide"
	case strings.Contains(s, "negative shift amount"):
		return "negShift"
	}
	return "other:" + s
}

func intBinNative[T integer](op string, x, y T) (r T, pc string) {
	defer func() {
		if e := recover(); e != nil {
			pc = nativePanicClass(e)
		}
	}()
	switch op {
	case "ADD":
		r = x + y
	case "SUB":
		r = x - y
	case "MUL":
		r = x * y
	case "QUO":
		r = x / y
	case "REM":
		r = x % y
	case "AND":
		r = x & y
	case "OR":
		r = x | y
	case "XOR":
		r = x ^ y
	case "AND_NOT":
		r = x &^ y
	default:
		panic("intBinNative: bad op " + op)
	}
	return
}

func cmpNative[T integer | ~float32 | ~float64 | ~string](op string, x, y T) bool {
	switch op {
	case "EQL":
		return x == y
	case "NEQ":
		return x != y
	case "LSS":
		return x < y
	case "LEQ":
		return x <= y
	case "GTR":
		return x > y
	case "GEQ":
		return x >= y
	}
	panic("cmpNative: bad op " + op)
}

func shiftNative[T, U integer](op string, x T, y U) (r T, pc string) {
	defer func() {
		if e := recover(); e != nil {
			pc = nativePanicClass(e)
		}
	}()
	switch op {
	case "SHL":
		r = x << y
	case "SHR":
		r = x >> y
	default:
		panic("shiftNative: bad op " + op)
	}
	return
}

func mkShift[T, U integer](k *bkind, yname string) {
	k.shift[yname] = func(op string, x, y bval) (bval, string) {
		r, pc := shiftNative(op, T(x.u), U(y.u))
		return bval{u: maskBits(uint64(r), k.bits)}, pc
	}
}

func maskBits(u uint64, bits int) uint64 {
	if bits >= 64 {
		return u
	}
	return u & (1<<uint(bits) - 1)
}

func mkInt[T integer](name string, bits int, signed bool) {
	var zero T
	k := &bkind{name: name, bits: bits, rt: reflect.TypeOf(zero), shift: map[string]func(string, bval, bval) (bval, string){}}
	if signed {
		k.cat = catInt
	} else {
		k.cat = catUint
	}
	k.bin = func(op string, x, y bval) (bval, string) {
		r, pc := intBinNative(op, T(x.u), T(y.u))
		return bval{u: maskBits(uint64(r), bits)}, pc
	}
	k.cmp = func(op string, x, y bval) bool { return cmpNative(op, T(x.u), T(y.u)) }
	k.un = func(op string, x bval) bval {
		v := T(x.u)
		switch op {
		case "PLUS":
			v = +v
		case "NEG":
			v = -v
		case "XOR":
			v = ^v
		default:
			panic("int un: bad op " + op)
		}
		return bval{u: maskBits(uint64(v), bits)}
	}
	mkShift[T, int](k, "int")
	mkShift[T, int8](k, "int8")
	mkShift[T, int16](k, "int16")
	mkShift[T, int32](k, "int32")
	mkShift[T, int64](k, "int64")
	mkShift[T, uint](k, "uint")
	mkShift[T, uint8](k, "uint8")
	mkShift[T, uint16](k, "uint16")
	mkShift[T, uint32](k, "uint32")
	mkShift[T, uint64](k, "uint64")
	mkShift[T, uintptr](k, "uintptr")
	k.toRV = func(v bval) reflect.Value {
		rv := reflect.New(k.rt).Elem()
		if signed {
			rv.SetInt(int64(T(v.u)))
		} else {
			rv.SetUint(uint64(T(v.u)))
		}
		return rv
	}
	k.ofRV = func(v reflect.Value) bval {
		if signed {
			return bval{u: maskBits(uint64(v.Int()), bits)}
		}
		return bval{u: maskBits(v.Uint(), bits)}
	}
	k.lit = func(v bval) string {
		if signed {
			return strconv.FormatInt(int64(T(v.u)), 10)
		}
		return strconv.FormatUint(uint64(T(v.u)), 10)
	}
	bkinds[name] = k
}

func floatBinNative[T ~float32 | ~float64](op string, x, y T) T {
	switch op {
	case "ADD":
		return x + y
	case "SUB":
		return x - y
	case "MUL":
		return x * y
	case "QUO":
		return x / y
	}
	panic("floatBinNative: bad op " + op)
}

func complexBinNative[T ~complex64 | ~complex128](op string, x, y T) T {
	switch op {
	case "ADD":
		return x + y
	case "SUB":
		return x - y
	case "MUL":
		return x * y
	case "QUO":
		return x / y
	}
	panic("complexBinNative: bad op " + op)
}

func f32(v bval) float32     { return math.Float32frombits(uint32(v.u)) }
func f64(v bval) float64     { return math.Float64frombits(v.u) }
func of32(f float32) uint64  { return uint64(math.Float32bits(f)) }
func of64(f float64) uint64  { return math.Float64bits(f) }
func c64(v bval) complex64   { return complex(f32(bval{u: v.u}), f32(bval{u: v.u2})) }
func c128(v bval) complex128 { return complex(f64(bval{u: v.u}), f64(bval{u: v.u2})) }
func ofc64(c complex64) bval { return bval{u: of32(real(c)), u2: of32(imag(c))} }
func ofc128(c complex128) bval {
	return bval{u: of64(real(c)), u2: of64(imag(c))}
}

func floatLit(f float64, bits int) string {
	if math.IsNaN(f) || math.IsInf(f, 0) || (f == 0 && math.Signbit(f)) {
		return "" // no such constant in Go
	}
	s := strconv.FormatFloat(f, 'g', -1, bits)
	if !strings.ContainsAny(s, ".e") {
		s += ".0"
	}
	return s
}

func init() {
	mkInt[int]("int", 64, true)
	mkInt[int8]("int8", 8, true)
	mkInt[int16]("int16", 16, true)
	mkInt[int32]("int32", 32, true)
	mkInt[int64]("int64", 64, true)
	mkInt[uint]("uint", 64, false)
	mkInt[uint8]("uint8", 8, false)
	mkInt[uint16]("uint16", 16, false)
	mkInt[uint32]("uint32", 32, false)
	mkInt[uint64]("uint64", 64, false)
	mkInt[uintptr]("uintptr", 64, false)

	bkinds["bool"] = &bkind{name: "bool", cat: catBool, bits: 1, rt: reflect.TypeOf(false),
		bin: func(op string, x, y bval) (bval, string) {
			a, b := x.u != 0, y.u != 0
			var r bool
			switch op {
			case "LAND":
				r = a && b
			case "LOR":
				r = a || b
			default:
				panic("bool bin: bad op " + op)
			}
			return boolVal(r), ""
		},
		cmp: func(op string, x, y bval) bool {
			a, b := x.u != 0, y.u != 0
			switch op {
			case "EQL":
				return a == b
			case "NEQ":
				return a != b
			}
			panic("bool cmp: bad op " + op)
		},
		un: func(op string, x bval) bval {
			if op != "NOT" {
				panic("bool un: bad op " + op)
			}
			a := x.u != 0
			return boolVal(!a)
		},
		toRV: func(v bval) reflect.Value { return reflect.ValueOf(v.u != 0) },
		ofRV: func(v reflect.Value) bval { return boolVal(v.Bool()) },
		lit: func(v bval) string {
			if v.u != 0 {
				return "true"
			}
			return "false"
		},
	}
	bkinds["float32"] = &bkind{name: "float32", cat: catFloat, bits: 32, rt: reflect.TypeOf(float32(0)),
		bin: func(op string, x, y bval) (bval, string) { return bval{u: of32(floatBinNative(op, f32(x), f32(y)))}, "" },
		cmp: func(op string, x, y bval) bool { return cmpNative(op, f32(x), f32(y)) },
		un: func(op string, x bval) bval {
			v := f32(x)
			switch op {
			case "PLUS":
				v = +v
			case "NEG":
				v = -v
			default:
				panic("float un: bad op " + op)
			}
			return bval{u: of32(v)}
		},
		toRV: func(v bval) reflect.Value { return reflect.ValueOf(f32(v)) },
		ofRV: func(v reflect.Value) bval { return bval{u: of32(float32(v.Float()))} },
		lit:  func(v bval) string { return floatLit(float64(f32(v)), 32) },
	}
	bkinds["float64"] = &bkind{name: "float64", cat: catFloat, bits: 64, rt: reflect.TypeOf(float64(0)),
		bin: func(op string, x, y bval) (bval, string) { return bval{u: of64(floatBinNative(op, f64(x), f64(y)))}, "" },
		cmp: func(op string, x, y bval) bool { return cmpNative(op, f64(x), f64(y)) },
		un: func(op string, x bval) bval {
			v := f64(x)
			switch op {
			case "PLUS":
				v = +v
			case "NEG":
				v = -v
			default:
				panic("float un: bad op " + op)
			}
			return bval{u: of64(v)}
		},
		toRV: func(v bval) reflect.Value { return reflect.ValueOf(f64(v)) },
		ofRV: func(v reflect.Value) bval { return bval{u: of64(v.Float())} },
		lit:  func(v bval) string { return floatLit(f64(v), 64) },
	}
	complexLit := func(re, im float64, bits int) string {
		a, b := floatLit(re, bits), floatLit(im, bits)
		if a == "" || b == "" {
			return ""
		}
		return "(" + a + " + " + b + "i)"
	}
	bkinds["complex64"] = &bkind{name: "complex64", cat: catComplex, bits: 64, rt: reflect.TypeOf(complex64(0)),
		bin: func(op string, x, y bval) (bval, string) { return ofc64(complexBinNative(op, c64(x), c64(y))), "" },
		cmp: func(op string, x, y bval) bool {
			switch op {
			case "EQL":
				return c64(x) == c64(y)
			case "NEQ":
				return c64(x) != c64(y)
			}
			panic("complex cmp: bad op " + op)
		},
		un: func(op string, x bval) bval {
			v := c64(x)
			switch op {
			case "PLUS":
				v = +v
			case "NEG":
				v = -v
			default:
				panic("complex un: bad op " + op)
			}
			return ofc64(v)
		},
		toRV: func(v bval) reflect.Value { return reflect.ValueOf(c64(v)) },
		ofRV: func(v reflect.Value) bval { return ofc64(complex64(v.Complex())) },
		lit: func(v bval) string {
			c := c64(v)
			return complexLit(float64(real(c)), float64(imag(c)), 32)
		},
	}
	bkinds["complex128"] = &bkind{name: "complex128", cat: catComplex, bits: 128, rt: reflect.TypeOf(complex128(0)),
		bin: func(op string, x, y bval) (bval, string) { return ofc128(complexBinNative(op, c128(x), c128(y))), "" },
		cmp: func(op string, x, y bval) bool {
			switch op {
			case "EQL":
				return c128(x) == c128(y)
			case "NEQ":
				return c128(x) != c128(y)
			}
			panic("complex cmp: bad op " + op)
		},
		un: func(op string, x bval) bval {
			v := c128(x)
			switch op {
			case "PLUS":
				v = +v
			case "NEG":
				v = -v
			default:
				panic("complex un: bad op " + op)
			}
			return ofc128(v)
		},
		toRV: func(v bval) reflect.Value { return reflect.ValueOf(c128(v)) },
		ofRV: func(v reflect.Value) bval { return ofc128(v.Complex()) },
		lit: func(v bval) string {
			c := c128(v)
			return complexLit(real(c), imag(c), 64)
		},
	}
	bkinds["string"] = &bkind{name: "string", cat: catString, bits: 0, rt: reflect.TypeOf(""),
		bin: func(op string, x, y bval) (bval, string) {
			if op != "ADD" {
				panic("string bin: bad op " + op)
			}
			return bval{s: x.s + y.s}, ""
		},
		cmp:  func(op string, x, y bval) bool { return cmpNative(op, x.s, y.s) },
		toRV: func(v bval) reflect.Value { return reflect.ValueOf(v.s) },
		ofRV: func(v reflect.Value) bval { return bval{s: v.String()} },
		lit:  func(v bval) string { return strconv.Quote(v.s) },
	}
}

func boolVal(b bool) bval {
	if b {
		return bval{u: 1}
	}
	return bval{}
}

// ---- canonical text codec (shared with the Lean driver) ----
// int kinds: hex of the bit pattern (no leading zeros); bool: t/f; float: hex bits, any NaN -> "nan";
// complex: re_im; string: 's' + hex bytes.

func encFloatBits(u uint64, bits int) string {
	if bits == 32 {
		if f := math.Float32frombits(uint32(u)); f != f {
			return "nan"
		}
	} else if f := math.Float64frombits(u); f != f {
		return "nan"
	}
	return strconv.FormatUint(u, 16)
}

func (k *bkind) enc(v bval) string {
	switch k.cat {
	case catBool:
		if v.u != 0 {
			return "t"
		}
		return "f"
	case catInt, catUint:
		return strconv.FormatUint(v.u, 16)
	case catFloat:
		return encFloatBits(v.u, k.bits)
	case catComplex:
		return encFloatBits(v.u, k.bits/2) + "_" + encFloatBits(v.u2, k.bits/2)
	case catString:
		return "s" + fmt.Sprintf("%x", v.s)
	}
	panic("enc")
}

// encIn encodes an INPUT value (NaN payloads are kept: the model receives the exact bits)
func (k *bkind) encIn(v bval) string {
	switch k.cat {
	case catFloat:
		return strconv.FormatUint(v.u, 16)
	case catComplex:
		return strconv.FormatUint(v.u, 16) + "_" + strconv.FormatUint(v.u2, 16)
	}
	return k.enc(v)
}

func (k *bkind) dec(s string) (bval, error) {
	switch k.cat {
	case catBool:
		switch s {
		case "t":
			return bval{u: 1}, nil
		case "f":
			return bval{}, nil
		}
		return bval{}, fmt.Errorf("bad bool %q", s)
	case catInt, catUint, catFloat:
		u, err := strconv.ParseUint(s, 16, 64)
		return bval{u: maskBits(u, k.bits)}, err
	case catComplex:
		a, b, ok := strings.Cut(s, "_")
		if !ok {
			return bval{}, fmt.Errorf("bad complex %q", s)
		}
		u, err := strconv.ParseUint(a, 16, 64)
		if err != nil {
			return bval{}, err
		}
		u2, err := strconv.ParseUint(b, 16, 64)
		return bval{u: u, u2: u2}, err
	case catString:
		if !strings.HasPrefix(s, "s") {
			return bval{}, fmt.Errorf("bad string %q", s)
		}
		b, err := hex.DecodeString(s[1:])
		return bval{s: string(b)}, err
	}
	panic("dec")
}

func (k *bkind) isInteger() bool { return k.cat == catInt || k.cat == catUint }

// definedOn mirrors the Go specification: kinds on which a binary operator is defined
func binDefinedOn(op string, k *bkind) bool {
	switch op {
	case "ADD":
		return k.cat != catBool
	case "SUB", "MUL", "QUO":
		return k.cat != catBool && k.cat != catString
	case "REM", "AND", "OR", "XOR", "AND_NOT", "SHL", "SHR":
		return k.isInteger()
	case "LAND", "LOR":
		return k.cat == catBool
	case "EQL", "NEQ":
		return true
	case "LSS", "LEQ", "GTR", "GEQ":
		return k.cat != catBool && k.cat != catComplex
	}
	return false
}

func unDefinedOn(op string, k *bkind) bool {
	switch op {
	case "PLUS", "NEG":
		return k.cat != catBool && k.cat != catString
	case "NOT":
		return k.cat == catBool
	case "XOR":
		return k.isInteger()
	}
	return false
}

var binOpTok = map[string]string{"ADD": "+", "SUB": "-", "MUL": "*", "QUO": "/", "REM": "%", "AND": "&", "OR": "|", "XOR": "^",
	"AND_NOT": "&^", "SHL": "<<", "SHR": ">>", "LAND": "&&", "LOR": "||", "EQL": "==", "NEQ": "!=", "LSS": "<", "LEQ": "<=", "GTR": ">", "GEQ": ">="}
var binOpNames = []string{"ADD", "SUB", "MUL", "QUO", "REM", "AND", "OR", "XOR", "AND_NOT", "SHL", "SHR", "LAND", "LOR", "EQL", "NEQ", "LSS", "LEQ", "GTR", "GEQ"}
var unOpTok = map[string]string{"PLUS": "+", "NEG": "-", "NOT": "!", "XOR": "^"}
var unOpNames = []string{"PLUS", "NEG", "NOT", "XOR"}

func isCmpOp(op string) bool {
	switch op {
	case "EQL", "NEQ", "LSS", "LEQ", "GTR", "GEQ":
		return true
	}
	return false
}
func isShiftOp(op string) bool { return op == "SHL" || op == "SHR" }
