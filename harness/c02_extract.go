package main

// C02 statement-closure extractor: a copy of the walker of closure_extract.go (shared file, not
// edited) with the statement syntax of the assignment arms added.  Differences from the original:
//
//   * closure bodies are FLATTENED into a list of StmtIR.St:  a block `{ a; b }` is inlined
//     (the only definitions inside such blocks are `lhs := ...`), `var x T` becomes
//     `.define x (.decl "T")`, `if v := e; c { s }` becomes `.define v e` followed by `.ifThen c s`,
//     and `for i := a; i < b; i++ { s }` becomes `.forLt i a b s`;
//   * closures of any signature are recorded; a signature other than `func(env *Env) R` is kept in
//     `ret` as `.other "params:<signature>"` (as the original does);
//   * anything else is `.opaque "<source>"` as before.
//
// extractors["C02"] regenerates lean/Gen/C02*.lean: per Go function the arm table (`List SEntry`),
// the action list (shortcuts / guards / error calls with their paths) and the source text of
// the hand-transcribed dispatch functions (setVar, setPlace, Assign, assign2, assignMulti, IncDec ...).

import (
	"bytes"
	"fmt"
	"go/ast"
	"go/parser"
	"go/printer"
	"go/token"
	"os"
	"path/filepath"
	"strconv"
	"strings"
)

var _ = strconv.Itoa

type c02Extractor struct {
	fset    *token.FileSet
	fn      string
	entries []irEntry
	actions []irAction
}

func (x *c02Extractor) src(n ast.Node) string {
	var b bytes.Buffer
	printer.Fprint(&b, x.fset, n)
	// canonical: single line, single blanks
	return strings.Join(strings.Fields(b.String()), " ")
}

func (x *c02Extractor) opaque(n ast.Node) string { return "(.opaque " + leanStr(x.src(n)) + ")" }

// expr translates a Go expression into a ClosureIR E term
func (x *c02Extractor) expr(e ast.Expr) string {
	switch e := e.(type) {
	case *ast.ParenExpr:
		return x.expr(e.X)
	case *ast.Ident:
		return "(.var " + leanStr(e.Name) + ")"
	case *ast.BasicLit:
		switch e.Kind {
		case token.INT:
			if n, err := strconv.ParseInt(e.Value, 0, 64); err == nil {
				return fmt.Sprintf("(.int %d)", n)
			}
		case token.STRING:
			if s, err := strconv.Unquote(e.Value); err == nil {
				return "(.str " + leanStr(s) + ")"
			}
		}
		return x.opaque(e)
	case *ast.BinaryExpr:
		if op, ok := goBinOps[e.Op]; ok {
			return "(.bin ." + op + " " + x.expr(e.X) + " " + x.expr(e.Y) + ")"
		}
		return x.opaque(e)
	case *ast.UnaryExpr:
		switch e.Op {
		case token.SUB:
			return "(.un .neg " + x.expr(e.X) + ")"
		case token.ADD:
			return "(.un .plus " + x.expr(e.X) + ")"
		case token.NOT:
			return "(.un .not " + x.expr(e.X) + ")"
		case token.XOR:
			return "(.un .xor " + x.expr(e.X) + ")"
		case token.AND:
			return "(.addr " + x.expr(e.X) + ")"
		}
		return x.opaque(e)
	case *ast.StarExpr:
		return "(.deref " + x.expr(e.X) + ")"
	case *ast.SelectorExpr:
		return "(.sel " + x.expr(e.X) + " " + leanStr(e.Sel.Name) + ")"
	case *ast.IndexExpr:
		return "(.index " + x.expr(e.X) + " " + x.expr(e.Index) + ")"
	case *ast.TypeAssertExpr:
		if e.Type != nil {
			if k, ok := funcEnvResult(e.Type); ok {
				return "(.assertFun " + x.expr(e.X) + " ." + k + ")"
			}
		}
		return x.opaque(e)
	case *ast.CallExpr:
		// closure application f(env)
		if len(e.Args) == 1 {
			if a, ok := e.Args[0].(*ast.Ident); ok && a.Name == "env" {
				if _, isSel := e.Fun.(*ast.SelectorExpr); !isSel {
					return "(.app " + x.expr(e.Fun) + ")"
				}
			}
		}
		// conversion to a basic type T(a)
		if id, ok := e.Fun.(*ast.Ident); ok && len(e.Args) == 1 {
			if k, ok := basicKindNames[id.Name]; ok {
				return "(.conv ." + k + " " + x.expr(e.Args[0]) + ")"
			}
		}
		// pointer cast (*T)(p) with basic T
		if p, ok := e.Fun.(*ast.ParenExpr); ok && len(e.Args) == 1 {
			if st, ok := p.X.(*ast.StarExpr); ok {
				if id, ok := st.X.(*ast.Ident); ok {
					if k, ok := basicKindNames[id.Name]; ok {
						return "(.ptrCast ." + k + " " + x.expr(e.Args[0]) + ")"
					}
				}
			}
		}
		// method call a.m(args) (receiver is not a package) or function call f(args) / pkg.f(args)
		if sel, ok := e.Fun.(*ast.SelectorExpr); ok {
			if id, ok := sel.X.(*ast.Ident); ok && (id.Name == "xr" || id.Name == "unsafe" || id.Name == "reflect" || id.Name == "r") {
				name := id.Name + "." + sel.Sel.Name
				switch len(e.Args) {
				case 1:
					return "(.call1 " + leanStr(name) + " " + x.expr(e.Args[0]) + ")"
				case 2:
					return "(.call2 " + leanStr(name) + " " + x.expr(e.Args[0]) + " " + x.expr(e.Args[1]) + ")"
				}
				return x.opaque(e)
			}
			switch len(e.Args) {
			case 2:
				// a.m(b, c)  ->  .meth1 a m (.call2 "," b c)
				return "(.meth1 " + x.expr(sel.X) + " " + leanStr(sel.Sel.Name) + " (.call2 \",\" " + x.expr(e.Args[0]) + " " + x.expr(e.Args[1]) + "))"
			case 0:
				return "(.meth0 " + x.expr(sel.X) + " " + leanStr(sel.Sel.Name) + ")"
			case 1:
				return "(.meth1 " + x.expr(sel.X) + " " + leanStr(sel.Sel.Name) + " " + x.expr(e.Args[0]) + ")"
			}
			return x.opaque(e)
		}
		if id, ok := e.Fun.(*ast.Ident); ok {
			switch len(e.Args) {
			case 1:
				return "(.call1 " + leanStr(id.Name) + " " + x.expr(e.Args[0]) + ")"
			case 2:
				return "(.call2 " + leanStr(id.Name) + " " + x.expr(e.Args[0]) + " " + x.expr(e.Args[1]) + ")"
			}
		}
		return x.opaque(e)
	}
	return x.opaque(e)
}

// stmt translates a statement of a closure body into a ClosureIR S term
func (x *c02Extractor) stmt(s ast.Stmt) string {
	switch s := s.(type) {
	case *ast.ReturnStmt:
		switch len(s.Results) {
		case 0:
			return ".retNamed"
		case 1:
			return "(.ret " + x.expr(s.Results[0]) + ")"
		case 2:
			return "(.ret2 " + x.expr(s.Results[0]) + " " + x.expr(s.Results[1]) + ")"
		}
	case *ast.ExprStmt:
		return "(.expr " + x.expr(s.X) + ")"
	case *ast.IncDecStmt:
		if s.Tok == token.INC {
			return "(.inc " + x.expr(s.X) + ")"
		}
	case *ast.AssignStmt:
		if len(s.Lhs) == 1 && len(s.Rhs) == 1 {
			switch {
			case s.Tok == token.DEFINE:
				if id, ok := s.Lhs[0].(*ast.Ident); ok {
					return "(.define " + leanStr(id.Name) + " " + x.expr(s.Rhs[0]) + ")"
				}
			case s.Tok == token.ASSIGN:
				return "(.assign " + x.expr(s.Lhs[0]) + " " + x.expr(s.Rhs[0]) + ")"
			default:
				if op, ok := goAssignOps[s.Tok]; ok {
					return "(.opAssign " + x.expr(s.Lhs[0]) + " ." + op + " " + x.expr(s.Rhs[0]) + ")"
				}
			}
		}
		if len(s.Lhs) == 2 && len(s.Rhs) == 1 && s.Tok == token.DEFINE {
			a, ok1 := s.Lhs[0].(*ast.Ident)
			b, ok2 := s.Lhs[1].(*ast.Ident)
			if ok1 && ok2 {
				return "(.define2 " + leanStr(a.Name) + " " + leanStr(b.Name) + " " + x.expr(s.Rhs[0]) + ")"
			}
		}
	case *ast.IfStmt:
		if s.Init == nil && s.Else == nil && len(s.Body.List) == 1 {
			return "(.ifThen " + x.expr(s.Cond) + " " + x.stmt(s.Body.List[0]) + ")"
		}
	}
	return "(.opaque " + leanStr(x.src(s)) + ")"
}

// stmts translates one statement of a closure body into a list of StmtIR.St terms (flattening)
func (x *c02Extractor) stmts(s ast.Stmt) []string {
	wrap := func(t string) []string { return []string{"(.s " + t + ")"} }
	switch s := s.(type) {
	case *ast.EmptyStmt:
		return nil
	case *ast.BlockStmt:
		var out []string
		for _, t := range s.List {
			out = append(out, x.stmts(t)...)
		}
		return out
	case *ast.DeclStmt:
		if gd, ok := s.Decl.(*ast.GenDecl); ok && gd.Tok == token.VAR && len(gd.Specs) == 1 {
			vs := gd.Specs[0].(*ast.ValueSpec)
			if len(vs.Names) == 1 && len(vs.Values) == 0 && vs.Type != nil {
				return wrap("(.define " + leanStr(vs.Names[0].Name) + " (.decl " + leanStr(x.src(vs.Type)) + "))")
			}
		}
	case *ast.IfStmt:
		if s.Else == nil && len(s.Body.List) == 1 {
			inner := x.stmts(s.Body.List[0])
			if len(inner) == 1 && strings.HasPrefix(inner[0], "(.s ") {
				in := strings.TrimSuffix(strings.TrimPrefix(inner[0], "(.s "), ")")
				cond := "(.ifThen " + x.expr(s.Cond) + " " + in + ")"
				if s.Init == nil {
					return wrap(cond)
				}
				if as, ok := s.Init.(*ast.AssignStmt); ok && as.Tok == token.DEFINE && len(as.Lhs) == 1 && len(as.Rhs) == 1 {
					if id, ok := as.Lhs[0].(*ast.Ident); ok {
						return append(wrap("(.define "+leanStr(id.Name)+" "+x.expr(as.Rhs[0])+")"), wrap(cond)...)
					}
				}
			}
		}
	case *ast.ForStmt:
		// for i := a; i < b; i++ { single statement }
		init, ok1 := s.Init.(*ast.AssignStmt)
		cond, ok2 := s.Cond.(*ast.BinaryExpr)
		post, ok3 := s.Post.(*ast.IncDecStmt)
		if ok1 && ok2 && ok3 && init.Tok == token.DEFINE && len(init.Lhs) == 1 && len(init.Rhs) == 1 && cond.Op == token.LSS && post.Tok == token.INC && len(s.Body.List) == 1 {
			i, ok4 := init.Lhs[0].(*ast.Ident)
			ci, ok5 := cond.X.(*ast.Ident)
			pi, ok6 := post.X.(*ast.Ident)
			if ok4 && ok5 && ok6 && ci.Name == i.Name && pi.Name == i.Name {
				inner := x.stmts(s.Body.List[0])
				if len(inner) == 1 && strings.HasPrefix(inner[0], "(.s ") {
					in := strings.TrimSuffix(strings.TrimPrefix(inner[0], "(.s "), ")")
					return []string{"(.forLt " + leanStr(i.Name) + " " + x.expr(init.Rhs[0]) + " " + x.expr(cond.Y) + " " + in + ")"}
				}
			}
		}
	default:
		return wrap(x.stmt(s))
	}
	return wrap("(.opaque " + leanStr(x.src(s)) + ")")
}

func (x *c02Extractor) closure(path []string, binds []irBind, lit *ast.FuncLit) {
	e := irEntry{fn: x.fn, path: append([]string(nil), path...)}
	// result type
	res := lit.Type.Results
	switch {
	case res == nil || len(res.List) == 0:
		e.ret = "(.other \"\")"
	case len(res.List) == 1:
		e.ret = x.retType(res.List[0].Type)
		e.named = len(res.List[0].Names) > 0
	default:
		var ts []string
		for _, f := range res.List {
			ts = append(ts, x.src(f.Type))
		}
		e.ret = "(.other " + leanStr("("+strings.Join(ts, ", ")+")") + ")"
	}
	// parameters must be exactly (env *Env) / (*Env)
	if p := lit.Type.Params; p == nil || len(p.List) != 1 || x.src(p.List[0].Type) != "*Env" {
		e.ret = "(.other " + leanStr("params:"+x.src(lit.Type)) + ")"
	}
	for _, s := range lit.Body.List {
		e.body = append(e.body, x.stmts(s)...)
	}
	// slice of the bindings: those transitively referenced by the closure body
	need := map[string]bool{}
	ast.Inspect(lit.Body, func(n ast.Node) bool {
		if id, ok := n.(*ast.Ident); ok {
			need[id.Name] = true
		}
		return true
	})
	var keep []irBind
	for i := len(binds) - 1; i >= 0; i-- {
		b := binds[i]
		if !need[b.name] {
			continue
		}
		keep = append(keep, b)
		if b.expr != nil {
			// names used by the defining expression refer to EARLIER bindings
			refs := map[string]bool{}
			ast.Inspect(b.expr, func(n ast.Node) bool {
				if id, ok := n.(*ast.Ident); ok {
					refs[id.Name] = true
				}
				return true
			})
			// an earlier binding of the same name is still needed only if the expression refers to it
			if !refs[b.name] {
				delete(need, b.name)
			}
			for r := range refs {
				need[r] = true
			}
		} else {
			delete(need, b.name)
		}
	}
	for i, j := 0, len(keep)-1; i < j; i, j = i+1, j-1 {
		keep[i], keep[j] = keep[j], keep[i]
	}
	e.binds = keep
	x.entries = append(x.entries, e)
}

func (x *c02Extractor) retType(t ast.Expr) string {
	if id, ok := t.(*ast.Ident); ok {
		if k, ok := basicKindNames[id.Name]; ok {
			return "(.kind ." + k + ")"
		}
	}
	return "(.other " + leanStr(x.src(t)) + ")"
}

func (x *c02Extractor) action(path []string, text string) {
	x.actions = append(x.actions, irAction{fn: x.fn, path: append([]string(nil), path...), text: text})
}

func (x *c02Extractor) terminates(list []ast.Stmt) bool {
	if len(list) == 0 {
		return false
	}
	switch s := list[len(list)-1].(type) {
	case *ast.ReturnStmt:
		return true
	case *ast.ExprStmt:
		if c, ok := s.X.(*ast.CallExpr); ok {
			if n, ok := selName(c.Fun); ok && terminatorCalls[n] {
				return true
			}
		}
	case *ast.IfStmt:
		if s.Else == nil {
			return false
		}
		thenT := x.terminates(s.Body.List)
		switch e := s.Else.(type) {
		case *ast.BlockStmt:
			return thenT && x.terminates(e.List)
		case *ast.IfStmt:
			return thenT && x.terminates([]ast.Stmt{e})
		}
	}
	return false
}

// block walks a statement list; returns the path extended by the negated conditions of
// `if`s whose body always returns (the code after them runs only when the condition is false)
func (x *c02Extractor) block(path []string, binds []irBind, list []ast.Stmt) {
	path = append([]string(nil), path...)
	binds = append([]irBind(nil), binds...)
	for _, s := range list {
		switch s := s.(type) {
		case *ast.EmptyStmt:
		case *ast.DeclStmt:
			if gd, ok := s.Decl.(*ast.GenDecl); ok && gd.Tok == token.VAR {
				for _, sp := range gd.Specs {
					vs := sp.(*ast.ValueSpec)
					for i, n := range vs.Names {
						if len(vs.Values) > i {
							binds = append(binds, irBind{name: n.Name, expr: vs.Values[i], lean: x.expr(vs.Values[i])})
						} else {
							binds = append(binds, irBind{name: n.Name, lean: "(.decl " + leanStr(x.src(vs.Type)) + ")"})
						}
					}
				}
				continue
			}
			x.action(path, x.src(s))
		case *ast.AssignStmt:
			x.assign(path, &binds, s)
		case *ast.BlockStmt:
			x.block(path, binds, s.List)
		case *ast.IfStmt:
			x.ifStmt(path, binds, s)
			if s.Else == nil && x.terminates(s.Body.List) {
				if s.Init != nil {
					path = append(path, "init "+x.src(s.Init))
				}
				path = append(path, "not("+x.src(s.Cond)+")")
			} else if s.Else != nil {
				// if-else-if chain where every branch but the implicit last one returns
				if conds, ok := x.chainAllReturn(s); ok {
					path = append(path, conds...)
				}
			}
		case *ast.SwitchStmt:
			tag := ""
			if s.Tag != nil {
				tag = x.src(s.Tag)
			}
			if s.Init != nil {
				tag = x.src(s.Init) + "; " + tag
			}
			for _, cl := range s.Body.List {
				cc := cl.(*ast.CaseClause)
				lbl := "default"
				if cc.List != nil {
					var ls []string
					for _, e := range cc.List {
						ls = append(ls, x.src(e))
					}
					lbl = "case " + strings.Join(ls, ", ")
				}
				x.block(append(append([]string(nil), path...), "switch "+tag, lbl), binds, cc.Body)
			}
		case *ast.TypeSwitchStmt:
			tag := x.src(s.Assign)
			for _, cl := range s.Body.List {
				cc := cl.(*ast.CaseClause)
				lbl := "default"
				var b2 = binds
				if cc.List != nil {
					var ls []string
					for _, e := range cc.List {
						ls = append(ls, x.src(e))
					}
					lbl = "case " + strings.Join(ls, ", ")
					// `switch x := x.(type) { case func(env *Env) T:` binds x at that type
					if as, ok := s.Assign.(*ast.AssignStmt); ok && len(cc.List) == 1 {
						if id, ok := as.Lhs[0].(*ast.Ident); ok {
							ta := as.Rhs[0].(*ast.TypeAssertExpr)
							if k, ok := funcEnvResult(cc.List[0]); ok {
								b2 = append(append([]irBind(nil), binds...), irBind{name: id.Name, expr: ta.X, lean: "(.assertFun " + x.expr(ta.X) + " ." + k + ")"})
							} else if t := x.src(cc.List[0]); t == "func(*Env) xr.Value" || t == "func(env *Env) xr.Value" {
								b2 = append(append([]irBind(nil), binds...), irBind{name: id.Name, expr: ta.X, lean: "(.assertFunX " + x.expr(ta.X) + ")"})
							} else if t == "func(*Env) (xr.Value, []xr.Value)" || t == "func(env *Env) (xr.Value, []xr.Value)" {
								b2 = append(append([]irBind(nil), binds...), irBind{name: id.Name, expr: ta.X, lean: "(.assertFunXV " + x.expr(ta.X) + ")"})
							} else {
								b2 = append(append([]irBind(nil), binds...), irBind{name: id.Name, expr: ta.X, lean: "(.opaque " + leanStr(x.src(as)+" : "+x.src(cc.List[0])) + ")"})
							}
						}
					}
				}
				x.block(append(append([]string(nil), path...), "typeswitch "+tag, lbl), b2, cc.Body)
			}
		case *ast.ReturnStmt:
			if len(s.Results) == 1 {
				if lit, ok := s.Results[0].(*ast.FuncLit); ok {
					x.closure(append(append([]string(nil), path...), "return"), binds, lit)
					continue
				}
				// return wrap(func(env *Env) T {...})
				if call, ok := s.Results[0].(*ast.CallExpr); ok && len(call.Args) == 1 {
					if lit, ok := call.Args[0].(*ast.FuncLit); ok {
						x.closure(append(append([]string(nil), path...), "return "+x.src(call.Fun)), binds, lit)
						continue
					}
				}
			}
			x.action(path, x.src(s))
		default:
			x.action(path, x.src(s))
		}
	}
}

// chainAllReturn: for `if A {..return} else if B {..return}` (no final else) gives [not(A), not(B)]
func (x *c02Extractor) chainAllReturn(s *ast.IfStmt) ([]string, bool) {
	var conds []string
	for {
		if !x.terminates(s.Body.List) {
			return nil, false
		}
		if s.Init != nil {
			conds = append(conds, "init "+x.src(s.Init))
		}
		conds = append(conds, "not("+x.src(s.Cond)+")")
		switch e := s.Else.(type) {
		case nil:
			return conds, true
		case *ast.IfStmt:
			s = e
		default:
			return nil, false
		}
	}
}

func (x *c02Extractor) ifStmt(path []string, binds []irBind, s *ast.IfStmt) {
	p := append([]string(nil), path...)
	b := binds
	if s.Init != nil {
		p = append(p, "init "+x.src(s.Init))
		if as, ok := s.Init.(*ast.AssignStmt); ok {
			b = append([]irBind(nil), binds...)
			x.assignBinds(&b, as)
		}
	}
	x.block(append(append([]string(nil), p...), "if "+x.src(s.Cond)), b, s.Body.List)
	neg := append(append([]string(nil), p...), "not("+x.src(s.Cond)+")")
	switch e := s.Else.(type) {
	case *ast.BlockStmt:
		x.block(neg, b, e.List)
	case *ast.IfStmt:
		x.ifStmt(neg, b, e)
	}
}

func (x *c02Extractor) assignBinds(binds *[]irBind, s *ast.AssignStmt) bool {
	if s.Tok != token.DEFINE {
		return false
	}
	if len(s.Lhs) == len(s.Rhs) {
		// parallel definition: every right-hand side refers to the OLD bindings
		var nb []irBind
		for i := range s.Lhs {
			if id, ok := s.Lhs[i].(*ast.Ident); ok {
				nb = append(nb, irBind{name: id.Name, expr: s.Rhs[i], lean: x.expr(s.Rhs[i])})
			}
		}
		*binds = append(*binds, nb...)
		return true
	}
	if len(s.Rhs) == 1 {
		for i := range s.Lhs {
			if id, ok := s.Lhs[i].(*ast.Ident); ok {
				*binds = append(*binds, irBind{name: id.Name, expr: s.Rhs[0], lean: fmt.Sprintf("(.tuple %d %s)", i, x.expr(s.Rhs[0]))})
			}
		}
		return true
	}
	return false
}

func (x *c02Extractor) assign(path []string, binds *[]irBind, s *ast.AssignStmt) {
	// arm: IDENT = func(env *Env) ... {...}
	if s.Tok == token.ASSIGN && len(s.Lhs) == 1 && len(s.Rhs) == 1 {
		if lit, ok := s.Rhs[0].(*ast.FuncLit); ok {
			x.closure(path, *binds, lit)
			return
		}
	}
	if x.assignBinds(binds, s) {
		return
	}
	// plain assignment to an outer variable (e.g. `y = uint64(-sy)`, `ypositive = false`): part of the
	// hand-transcribed prologue; recorded as action so that a change is visible
	x.action(path, x.src(s))
}

// ---- extraction driver ----

func c02extractFuncs(file string, names []string) (map[string]*c02Extractor, error) {
	fset := token.NewFileSet()
	f, err := parser.ParseFile(fset, file, nil, 0)
	if err != nil {
		return nil, err
	}
	want := map[string]bool{}
	for _, n := range names {
		want[n] = true
	}
	out := map[string]*c02Extractor{}
	for _, d := range f.Decls {
		fd, ok := d.(*ast.FuncDecl)
		if !ok || fd.Body == nil || !want[fd.Name.Name] {
			continue
		}
		x := &c02Extractor{fset: fset, fn: fd.Name.Name}
		x.block(nil, nil, fd.Body.List)
		out[fd.Name.Name] = x
	}
	for _, n := range names {
		if out[n] == nil {
			return nil, fmt.Errorf("%s: function %s not found", file, n)
		}
	}
	return out, nil
}

func c02entryLean(e *irEntry) string {
	var ps, bs []string
	for _, p := range e.path {
		ps = append(ps, leanStr(p))
	}
	for _, b := range e.binds {
		bs = append(bs, "("+leanStr(b.name)+", "+b.lean+")")
	}
	return fmt.Sprintf("{ fn := %s, path := [%s],\n     binds := %s,\n     ret := %s,\n     body := %s }",
		leanStr(e.fn), strings.Join(ps, ", "), leanList(bs, "       "), e.ret, leanList(e.body, "       "))
}

type c02src struct {
	module string
	file   string
	funcs  []string // arms + actions
	texts  []string // source text only
}

var c02sources = []c02src{
	{"C02VarOpsA", "var_ops.go", []string{"varAddConst", "varAddExpr", "varSubConst", "varSubExpr", "varMulConst", "varMulExpr"}, nil},
	{"C02VarOpsB", "var_ops.go", []string{"varQuoPow2", "varQuoConst", "varQuoExpr", "varRemConst", "varRemExpr"}, nil},
	{"C02VarOpsC", "var_ops.go", []string{"varAndConst", "varAndExpr", "varOrConst", "varOrExpr"}, nil},
	{"C02VarOpsD", "var_ops.go", []string{"varXorConst", "varXorExpr", "varAndnotConst", "varAndnotExpr"}, []string{"setVar"}},
	{"C02VarShifts", "var_shifts.go", []string{"varShlConst", "varShlExpr", "varShrConst", "varShrExpr"}, nil},
	{"C02VarSet", "var_set.go", []string{"varSetConst", "varSetExpr"}, []string{"varSetZero"}},
	{"C02VarSetValue", "var_set_value.go", []string{"varSetValue"}, nil},
	{"C02PlaceOps", "place_ops.go", []string{"placeAddConst", "placeAddExpr", "placeSubConst", "placeSubExpr", "placeMulConst", "placeMulExpr",
		"placeQuoConst", "placeQuoExpr", "placeRemConst", "placeRemExpr", "placeAndConst", "placeAndExpr", "placeOrConst", "placeOrExpr",
		"placeXorConst", "placeXorExpr", "placeAndnotConst", "placeAndnotExpr"}, []string{"setPlace"}},
	{"C02PlaceShifts", "place_shifts.go", []string{"placeShlConst", "placeShlExpr", "placeShrConst", "placeShrExpr", "placeQuoPow2"}, nil},
	{"C02PlaceSet", "place_set.go", []string{"placeSetConst", "placeSetExpr"}, []string{"placeSetZero"}},
	{"C02PlaceSetValue", "place_set_value.go", []string{"placeSetValue"}, nil},
	{"C02Assignment", "assignment.go", []string{"placeForSideEffects"}, []string{"Assign", "assignPrepareRhs", "assign2", "assignMulti", "assign1", "SetVar", "SetPlace", "setPlaceShift", "dup", "isBlank", "init"}},
	{"C02Statement", "statement.go", nil, []string{"IncDec"}},
	{"C02Index", "index.go", nil, []string{"vectorPlace", "mapPlace"}},
}

func c02GenFiles() []string {
	var out []string
	for _, s := range c02sources {
		out = append(out, s.module+".lean")
	}
	return out
}

func c02extract(repo, genDir string) error {
	for _, s := range c02sources {
		file := filepath.Join(repo, "fast", s.file)
		var b bytes.Buffer
		fmt.Fprintf(&b, "import Model.StmtSyntax\n/-! REGENERATED by `harness extract` from fast/%s — do not edit. -/\nnamespace Gen.%s\nopen ClosureIR StmtIR\nset_option maxRecDepth 100000\n\n", s.file, s.module)
		if len(s.funcs) > 0 {
			xs, err := c02extractFuncs(file, s.funcs)
			if err != nil {
				return err
			}
			for _, fn := range s.funcs {
				x := xs[fn]
				var items []string
				for i := range x.entries {
					items = append(items, c02entryLean(&x.entries[i]))
				}
				fmt.Fprintf(&b, "def %s : List SEntry :=\n  %s\n\n", leanIdent(fn), leanList(items, "   "))
				items = nil
				for i := range x.actions {
					items = append(items, x.actions[i].lean())
				}
				fmt.Fprintf(&b, "def %sActions : List Action :=\n  %s\n\n", leanIdent(fn), leanList(items, "   "))
			}
		}
		for _, fn := range s.texts {
			src, err := funcSource(file, fn)
			if err != nil {
				return err
			}
			var items []string
			for _, t := range src {
				items = append(items, leanStr(t))
			}
			fmt.Fprintf(&b, "def %sSrc : List String :=\n  %s\n\n", leanIdent(fn), leanList(items, "   "))
		}
		fmt.Fprintf(&b, "end Gen.%s\n", s.module)
		if err := os.WriteFile(filepath.Join(genDir, s.module+".lean"), b.Bytes(), 0o644); err != nil {
			return err
		}
	}
	return nil
}

func init() { extractors["C02"] = c02extract }
