package main

// C25: the deliberate simplifications of the printer (gofmt behaviour inherited from go/printer) as an explicit
// canonicalisation, so that everything else is still compared exactly:
//   * a ParenExpr is dropped or added (control-clause conditions, parameter and result types, `((x))`, conversions
//     to function / receive-channel types get parentheses);
//   * an EmptyStmt in a statement list prints as nothing;
//   * an empty result list `()` prints as nothing; a single unnamed result loses its parentheses.
// c25canon rewrites a tree IN PLACE to the canonical form and returns how often each rule could apply.

import (
	"go/ast"
	"go/token"
	"reflect"
)

type c25stats struct {
	parens       int // ParenExpr nodes
	emptyStmts   int // EmptyStmt nodes inside statement lists
	emptyResults int // FuncType.Results != nil with an empty list
	resultParens int // single unnamed result written with parentheses
}

var (
	c25typExpr  = reflect.TypeOf((*ast.Expr)(nil)).Elem()
	c25typStmts = reflect.TypeOf([]ast.Stmt(nil))
)

func c25canon(n ast.Node) (st c25stats) {
	var walk func(v reflect.Value)
	unparen := func(v reflect.Value) {
		// v is a settable ast.Expr interface value
		for !v.IsNil() {
			p, ok := v.Interface().(*ast.ParenExpr)
			if !ok {
				return
			}
			st.parens++
			if p.X == nil {
				v.Set(reflect.Zero(c25typExpr))
				return
			}
			v.Set(reflect.ValueOf(p.X))
		}
	}
	walk = func(v reflect.Value) {
		switch v.Kind() {
		case reflect.Interface:
			if v.IsNil() {
				return
			}
			if v.Type() == c25typExpr && v.CanSet() {
				unparen(v)
				if v.IsNil() {
					return
				}
			}
			walk(v.Elem())
		case reflect.Ptr:
			if v.IsNil() || v.Type() == c24typObj || v.Type() == c24typScope {
				return
			}
			if ls, ok := v.Interface().(*ast.LabeledStmt); ok {
				// `L: ;` prints as `L:` (the empty statement becomes implicit)
				if es, ok := ls.Stmt.(*ast.EmptyStmt); ok && !es.Implicit {
					st.emptyStmts++
					es.Implicit = true
				}
			}
			if ft, ok := v.Interface().(*ast.FuncType); ok && ft.Results != nil {
				if len(ft.Results.List) == 0 {
					st.emptyResults++
					ft.Results = nil
				} else {
					if len(ft.Results.List) == 1 && len(ft.Results.List[0].Names) == 0 && ft.Results.Opening.IsValid() {
						st.resultParens++
					}
					ft.Results.Opening, ft.Results.Closing = token.NoPos, token.NoPos
				}
			}
			walk(v.Elem())
		case reflect.Struct:
			for i := 0; i < v.NumField(); i++ {
				walk(v.Field(i))
			}
		case reflect.Slice:
			if v.Type() == c25typStmts && v.CanSet() {
				list := v.Interface().([]ast.Stmt)
				var kept []ast.Stmt
				for _, s := range list {
					if _, ok := s.(*ast.EmptyStmt); ok {
						st.emptyStmts++
						continue
					}
					kept = append(kept, s)
				}
				if len(kept) != len(list) {
					v.Set(reflect.ValueOf(kept))
				}
			}
			for i := 0; i < v.Len(); i++ {
				walk(v.Index(i))
			}
		}
	}
	walk(reflect.ValueOf(&n).Elem())
	return
}
