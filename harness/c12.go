package main

// C12: a panic escaping an evaluation at any point leaves later evaluations unaffected.
//
// Fault enumeration.  A probe program is a small table of interpreted functions built from the statements
// pad / hook() / call / defer / recover() / panic(v) / try(f) (try = compiled function that calls f and
// recovers).  For every k the k-th call of the compiled hook panics.  After every evaluation the exported
// fields of fast.Run are snapshotted and compared, together with the outcome and the values seen by
// recover()/try, with the prediction of the Lean model (Drv/C12.lean, same op lines).
// Oracles on the real code: (1) the same program compiled by the Go toolchain (runGoBatch) must give the
// same outcome and the same recover()/try values -- in particular in evaluations that FOLLOW an aborted
// one in the same interpreter; (2) a fixed battery of evaluations must give the results of a fresh interpreter.

import (
	"fmt"
	"go/ast"
	"go/parser"
	"go/token"
	"math/rand"
	"os"
	"path/filepath"
	"runtime"
	"sort"
	"strconv"
	"strings"

	"github.com/cosmos72/gomacro/base"
	"github.com/cosmos72/gomacro/fast"
)

// ---------------------------------------------------------------- state

var c12 struct {
	ir     *fast.Interp
	run    *fast.Run
	top    *fast.Env
	evalNo int
	calls  int
	k      int
	log    []int
	fresh  []string
	oracle map[string]string // op text -> "out=.. log=.." from compiled Go
	oerr   string
	at     int  // calls of the scripted debugger during the current op
	dbg    bool // interpreter created by resetd (OptDebugger + scripted debugger)
}

// scripted debugger: counts its calls and always answers "step"
type c12debugger struct{}

func (c12debugger) Breakpoint(ir *fast.Interp, env *fast.Env) fast.DebugOp { c12.at++; return fast.DebugOpStep }
func (c12debugger) At(ir *fast.Interp, env *fast.Env) fast.DebugOp         { c12.at++; return fast.DebugOpStep }

func c12val(e interface{}) int {
	switch v := e.(type) {
	case nil:
		return 0
	case int:
		return v
	case runtime.Error:
		if strings.Contains(v.Error(), "nil pointer") {
			return 901
		}
	}
	return 777
}

func c12hook() {
	c12.calls++
	if c12.calls == c12.k {
		panic(900)
	}
}
func c12rec(v interface{}) { c12.log = append(c12.log, c12val(v)) }
func c12try(f func()) {
	defer func() { c12.log = append(c12.log, c12val(recover())) }()
	f()
}

const c12common = `import "fmt"; var nop int; var bat interface{}; func chk(n int) int { s := 0; for i := 0; i < n; i++ { s += i }; return s }`

var c12battery = []string{
	`1+2`,
	`chk(200)`,
	`func() (r interface{}) { r = 5; defer func() { r = recover() }(); return 6 }()`,
	`func() (r int) { defer func() { r = recover().(int) * 2 }(); panic(21) }()`,
	`bat = 7; { defer func() { bat = recover() }(); nop++ }; bat`,
	`func() int { n := 0; func() { defer func() { n += 10 }(); defer func() { n *= 3 }(); n = 1 }(); return n }()`,
	`func() (s string) { defer func() { s = fmt.Sprint(recover()) }(); var m map[string]int; m["a"] = 1; return "none" }()`,
	`func() (r interface{}) { defer func() { r = recover() }(); func() { defer func() { recover() }(); panic(1) }(); panic(2) }()`,
	`func() int { c := 0; f := func() { c++ }; for i := 0; i < 100; i++ { f() }; return c }()`,
}

func c12new() *fast.Interp { return c12newDbg(false) }

func c12newDbg(dbg bool) *fast.Interp {
	ir := newQuietInterp()
	if dbg {
		ir.Comp.Globals.Options |= base.OptDebugger
		ir.SetDebugger(c12debugger{})
	}
	ir.DeclFunc("hook", c12hook)
	ir.DeclFunc("rec", c12rec)
	ir.DeclFunc("try", c12try)
	if _, e := evalSrc(ir, c12common); e != "" {
		panic("c12: common declarations failed: " + e)
	}
	return ir
}

func c12runBattery(ir *fast.Interp) []string {
	out := make([]string, len(c12battery))
	for i, src := range c12battery {
		v, e := evalSrc(ir, src)
		if e != "" {
			out[i] = "ERR " + e
		} else {
			out[i] = showVals(v, true)
		}
	}
	return out
}

// ---------------------------------------------------------------- program text

type c12prog [][]string // functions -> statements (tokens)

func c12parse(desc string) c12prog {
	var p c12prog
	for _, f := range strings.Split(desc, "/") {
		var st []string
		for _, t := range strings.Split(f, ",") {
			if t != "" {
				st = append(st, t)
			}
		}
		p = append(p, st)
	}
	return p
}

// statements of function i as Go / gomacro source; name(j) gives the name of function j
func c12stmts(st []string, name func(int) string) string {
	var b strings.Builder
	for _, t := range st {
		n, _ := strconv.Atoi(t[1:])
		switch t[0] {
		case 'p':
			b.WriteString(strings.Repeat("nop++; ", n))
		case 'h':
			b.WriteString("hook(); ")
		case 'r':
			b.WriteString("rec(recover()); ")
		case 'c':
			b.WriteString(name(n) + "(); ")
		case 'd':
			b.WriteString("defer " + name(n) + "(); ")
		case 'x':
			fmt.Fprintf(&b, "panic(%d); ", n)
		case 't':
			b.WriteString("try(" + name(n) + "); ")
		}
	}
	return b.String()
}

func c12logStr(l []int) string {
	s := make([]string, len(l))
	for i, v := range l {
		s[i] = strconv.Itoa(v)
	}
	return strings.Join(s, ",")
}

// ---------------------------------------------------------------- compiled-Go oracle

func c12prepare(ops []string) {
	c12.oracle = map[string]string{}
	var decls, body strings.Builder
	decls.WriteString(`
var calls, K int
var log []int
var nop int
func val(e interface{}) int {
	switch v := e.(type) {
	case nil:
		return 0
	case int:
		return v
	}
	return 777
}
func hook() { calls++; if calls == K { panic(900) } }
func rec(v interface{}) { log = append(log, val(v)) }
func try(f func()) { defer func() { log = append(log, val(recover())) }(); f() }
func run1(k int, f func()) (out string) {
	calls, K, log = 0, k, nil
	defer func() {
		e := recover()
		o := "ok"
		if e != nil { o = fmt.Sprint("panic ", val(e)) }
		s := ""
		for i, v := range log { if i > 0 { s += "," }; s += fmt.Sprint(v) }
		out = "out=" + o + " log=" + s
	}()
	f()
	return
}
`)
	var evals []string
	seen := map[string]bool{}
	for _, op := range ops {
		f, arg, _ := strings.Cut(op, " ")
		if f == "evald" {
			f, op = "eval", "eval "+arg
		}
		if f != "eval" || seen[op] {
			continue
		}
		fs := strings.SplitN(arg, " ", 3)
		if len(fs) != 3 {
			continue
		}
		seen[op] = true
		idx := len(evals)
		evals = append(evals, op)
		p := c12parse(fs[2])
		name := func(j int) string { return fmt.Sprintf("g%d_%d", idx, j) }
		for j := range p {
			fmt.Fprintf(&decls, "func %s() { %s}\n", name(j), c12stmts(p[j], name))
		}
		fmt.Fprintf(&body, "emit(run1(%s, %s))\n", fs[0], name(0))
	}
	if len(evals) == 0 {
		return
	}
	outs, err := runGoBatch("C12", []Snippet{{Decls: decls.String(), Body: body.String()}})
	if err != nil {
		c12.oerr = err.Error()
		return
	}
	lines := strings.Split(outs[0], "\n")
	for i, op := range evals {
		if i < len(lines) {
			c12.oracle[op] = lines[i]
		}
	}
}

// ---------------------------------------------------------------- exec

func c12snap() string {
	r := c12.run
	b := func(x bool) string {
		if x {
			return "1"
		}
		return "0"
	}
	pf := "n"
	if r.PanicFun != nil {
		pf = "f"
		if r.PanicFun == c12.top {
			pf = "t"
		}
	}
	opt := func(e *fast.Env) string {
		if e == nil {
			return "n"
		}
		return "x"
	}
	in := "n"
	if r.Interrupt != nil {
		in = "s"
	}
	dd := "0"
	if r.DebugDepth != 0 {
		dd = "M"
		if r.DebugDepth != fast.MaxInt {
			dd = strconv.Itoa(r.DebugDepth)
		}
	}
	return fmt.Sprintf("es=%s ed=%s dof=%s pf=%s pv=%d ce=%s in=%s dbg=%s dd=%s sd=%s at=%s", b(r.ExecFlags.StartDefer()), b(r.ExecFlags.IsDefer()),
		opt(r.DeferOfFun), pf, c12val(r.Panic), opt(r.CurrEnv), in, b(r.ExecFlags.IsDebug()), dd, b(r.Signals.Debug != base.SigNone), b(c12.at > 0))
}

func c12exec(op string) Result {
	f, arg, _ := strings.Cut(op, " ")
	switch f {
	case "reset", "resetd":
		if c12.fresh == nil {
			c12.fresh = c12runBattery(c12new())
		}
		c12.dbg = f == "resetd"
		c12.ir = c12newDbg(c12.dbg)
		c12.top = c12.ir.PrepareEnv()
		c12.run = c12.top.Run
		return Result{Out: "ok", Tags: []string{"reset"}}
	case "battery":
		c12.at = 0
		got := c12runBattery(c12.ir)
		r := Result{Out: "same", Tags: []string{"battery"}}
		if c12.at > 0 {
			r.Viol = fmt.Sprintf("the debugger was called %d times during the battery of plain evaluations", c12.at)
			r.Key = "debugger-mode-left-armed"
			return r
		}
		for i := range got {
			if got[i] != c12.fresh[i] {
				r.Viol = fmt.Sprintf("after the aborted evaluation(s), %s = %s but a fresh interpreter gives %s", c12battery[i], got[i], c12.fresh[i])
				r.Key = "battery-differs"
				if strings.Contains(c12battery[i], "bat = recover()") {
					r.Key = "stale-panic-recovered-by-later-evaluation"
				}
				break
			}
		}
		return r
	case "eval", "evald":
		fs := strings.SplitN(arg, " ", 3)
		if len(fs) != 3 || c12.ir == nil {
			return Result{Out: "bad-op"}
		}
		k, _ := strconv.Atoi(fs[0])
		p := c12parse(fs[2])
		c12.evalNo++
		no := c12.evalNo
		name := func(j int) string { return fmt.Sprintf("e%d_%d", no, j) }
		// declarations: callees first (functions only refer to higher-numbered ones)
		var decl strings.Builder
		first := 1
		if fs[1] == "F" {
			first = 0
		}
		for j := len(p) - 1; j >= first; j-- {
			fmt.Fprintf(&decl, "func %s() { %s}\n", name(j), c12stmts(p[j], name))
		}
		c12.at = 0
		if decl.Len() > 0 {
			if _, e := evalSrc(c12.ir, decl.String()); e != "" {
				return Result{Out: "decl-error " + e, Viol: "probe declarations rejected: " + e, Key: "probe-decl"}
			}
		}
		src := name(0) + "()"
		if fs[1] == "T" {
			src = "{ " + c12stmts(p[0], name) + "}"
		}
		c12.calls, c12.k, c12.log = 0, k, nil
		out := "ok"
		func() {
			defer func() {
				if e := recover(); e != nil {
					v := c12val(e)
					out = fmt.Sprint("panic ", v)
					if v == 777 {
						out += " " + truncate(oneLine(fmt.Sprint(e)), 80)
					}
				}
			}()
			if f == "evald" {
				c12.ir.Debug(src) // Interp.DebugExpr: single-step mode, the scripted debugger answers "step"
			} else {
				c12.ir.Eval(src)
			}
		}()
		sem := "out=" + out + " log=" + c12logStr(c12.log)
		r := Result{Out: sem + " " + c12snap(), Nontrivial: true,
			Tags: []string{"eval-" + fs[1], "out-" + strings.Fields(out)[0]}}
		if strings.HasPrefix(out, "panic 901") {
			r.Tags = append(r.Tags, "nil-stmt-crash")
		}
		want, ok := c12.oracle["eval "+arg]
		if f == "eval" && c12.at > 0 {
			// a plain Eval never enters the debugger on a fresh interpreter (no breakpoints in the probes)
			r.Viol = fmt.Sprintf("the debugger was called %d times during a plain Eval: single-step mode left armed by an earlier (aborted) evaluation", c12.at)
			r.Key = "debugger-mode-left-armed"
			return r
		}
		switch {
		case c12.oerr != "":
			r.Viol, r.Key = "compiled-Go oracle unavailable: "+truncate(c12.oerr, 300), "oracle-build"
		case !ok:
			// replayed op that was not part of the prepared batch
		case want != sem:
			r.Viol = fmt.Sprintf("evaluation gives %q, the same program compiled by Go gives %q", sem, want)
			r.Key = "semantics-differs"
			switch {
			case strings.Contains(sem, "901"):
				r.Key = "nil-statement-after-panic-recovered-by-compiled-code"
			case strings.HasPrefix(want, "out=panic") && strings.HasPrefix(sem, "out=ok"):
				r.Key = "nested-recover-swallows-outer-panic"
			case strings.HasPrefix(want, "out="+out+" "):
				r.Key = "stale-or-wrong-recover-value"
			}
		}
		return r
	}
	return Result{Out: "bad-op"}
}

// ---------------------------------------------------------------- generator

var c12templates = []string{
	"h,c1,h/h,h",
	"d1,h,c2,h/r,h/h,h",
	"d1,d2,h,x5/h,r/h",
	"d1,h,x5/c2,h/d3,h,x6/r",
	"d1,d2,x5/r,h/c3/d4,x6/r",
	"p80,t1,h/h,x7",
	"p69,t1,h/h,x7",
	"p84,t1,h/h,x7",
	"t1,h/d2,h,x7/h,r",
	"p75,t1,h/d2,h,x7/h",
	"d1,h,x5/h,x6",
	"d1,d2,x5/r,h/x6",
	"c1,h/d2,c3,h/r,h/d4,h/h",
	"d1,t2,h/r/d3,h,x8/h",
	"d1,h/t2,r,h/x9",
	"p72,c1,h/p75,h,x4",
	"d1,p72,c2,h/r/p75,h",
	"d1,x5/c2,h/d3,p1,h/r", // recover() in a deferred call of a function that is NOT panicking, while an outer panic is in flight: nil in Go
	"d1,d2,x5/r/c3/d4,p1/r",
}

func c12random(r *rand.Rand) string {
	nf := 2 + r.Intn(4)
	var fs []string
	for i := 0; i < nf; i++ {
		var st []string
		n := 1 + r.Intn(5)
		// defers first (first phase), then the rest
		for j := 0; j < n; j++ {
			k := r.Intn(12)
			switch {
			case k < 2 && i+1 < nf && j < 2:
				st = append(st, fmt.Sprintf("d%d", i+1+r.Intn(nf-i-1)))
			case k < 5:
				st = append(st, "h")
			case k < 7 && i+1 < nf:
				st = append(st, fmt.Sprintf("c%d", i+1+r.Intn(nf-i-1)))
			case k < 8 && i+1 < nf:
				st = append(st, fmt.Sprintf("t%d", i+1+r.Intn(nf-i-1)))
			case k < 9:
				st = append(st, "r")
			case k < 10:
				st = append(st, fmt.Sprintf("x%d", 1+r.Intn(9)))
			case k < 11:
				st = append(st, fmt.Sprintf("p%d", 60+r.Intn(40)))
			default:
				st = append(st, "h")
			}
		}
		fs = append(fs, strings.Join(st, ","))
	}
	return strings.Join(fs, "/")
}

// top-level code consisting of a single expression statement is evaluated as an expression, not by the
// statement executor: top-level probes start with one simple statement so that they are run by exec
func c12top(kind, d string) string {
	if kind == "T" {
		return "p1," + d
	}
	return d
}

func c12hooks(desc string) int { return strings.Count(","+strings.ReplaceAll(desc, "/", ",")+",", ",h,") }

func c12gen(r *rand.Rand, tier string, emit func(string)) {
	nrand, nseq := 40, 25
	if tier == "thorough" {
		nrand, nseq = 800, 500
	}
	progs := append([]string{}, c12templates...)
	for i := 0; i < nrand; i++ {
		progs = append(progs, c12random(r))
	}
	// (1) every fault point of every program, fresh interpreter each, followed by the battery
	for pi, d := range progs {
		kinds := []string{"F", "T"}
		if pi >= len(c12templates) {
			kinds = []string{kinds[r.Intn(2)]}
		}
		for _, kind := range kinds {
			for k := 0; k <= c12hooks(d)+1; k++ {
				emit("reset")
				emit(fmt.Sprintf("eval %d %s %s", k, kind, c12top(kind, d)))
				emit("battery")
			}
		}
	}
	// (1b) debugger: OptDebugger + scripted debugger; an evaluation started with Interp.Debug (single-step mode) is
	// aborted at every fault point, then a plain evaluation and the battery follow in the same interpreter
	dprogs := []string{"h,c1,h/h,h", "d1,h,c2,h/r,h/h,h", "d1,h,x5/h,r", "t1,h/d2,h,x7/h,r", "c1,h/d2,c3,h/r,h/h", "h,x3"}
	for _, d := range dprogs {
		for _, kind := range []string{"F", "T"} {
			for k := 0; k <= c12hooks(d)+1; k++ {
				emit("resetd")
				emit(fmt.Sprintf("evald %d %s %s", k, kind, c12top(kind, d)))
				emit(fmt.Sprintf("eval 0 F %s", dprogs[(k+1)%len(dprogs)]))
				emit("battery")
			}
		}
	}
	for i := 0; i < nseq/2; i++ {
		emit("resetd")
		n := 2 + r.Intn(4)
		for j := 0; j < n; j++ {
			d := dprogs[r.Intn(len(dprogs))]
			kind := []string{"F", "T"}[r.Intn(2)]
			op := []string{"eval", "evald"}[r.Intn(2)]
			emit(fmt.Sprintf("%s %d %s %s", op, r.Intn(c12hooks(d)+2), kind, c12top(kind, d)))
		}
		emit("battery")
	}
	// (2) histories: several evaluations in ONE interpreter (later evaluations see what earlier aborted ones left)
	for i := 0; i < nseq; i++ {
		emit("reset")
		n := 2 + r.Intn(4)
		for j := 0; j < n; j++ {
			d := progs[r.Intn(len(progs))]
			kind := []string{"F", "T"}[r.Intn(2)]
			emit(fmt.Sprintf("eval %d %s %s", r.Intn(c12hooks(d)+2), kind, c12top(kind, d)))
		}
		emit("battery")
	}
}

// ---------------------------------------------------------------- extractor: read/write sites of every Run field

func extractC12(repo, genDir string) error {
	// Drv/C12.lean takes the unroll constants from Gen/ExecLoop.lean (C13's extractor)
	if err := extractC13(repo, genDir); err != nil {
		return err
	}
	fset := token.NewFileSet()
	fields := []string{"Interrupt", "Signals", "ExecFlags", "CurrEnv", "InstallDefer", "DeferOfFun", "PanicFun", "Panic", "DebugDepth"}
	isField := map[string]bool{}
	for _, f := range fields {
		isField[f] = true
	}
	type site struct{ where, field, kind string }
	var sites []site
	for _, dir := range []string{"fast", "fast/debug"} {
		ents, _ := os.ReadDir(filepath.Join(repo, dir))
		for _, e := range ents {
			if e.IsDir() || !strings.HasSuffix(e.Name(), ".go") || strings.HasSuffix(e.Name(), "_test.go") {
				continue
			}
			file, err := parser.ParseFile(fset, filepath.Join(repo, dir, e.Name()), nil, 0)
			if err != nil {
				return err
			}
			for _, d := range file.Decls {
				fd, ok := d.(*ast.FuncDecl)
				if !ok || fd.Body == nil {
					continue
				}
				where := dir + "/" + e.Name() + ":" + fd.Name.Name
				written := map[*ast.SelectorExpr]bool{}
				ast.Inspect(fd.Body, func(n ast.Node) bool {
					if a, ok := n.(*ast.AssignStmt); ok {
						for _, l := range a.Lhs {
							if s, ok := l.(*ast.SelectorExpr); ok && isField[s.Sel.Name] {
								written[s] = true
							}
						}
					}
					return true
				})
				ast.Inspect(fd.Body, func(n ast.Node) bool {
					s, ok := n.(*ast.SelectorExpr)
					if !ok || !isField[s.Sel.Name] {
						return true
					}
					// only selections on something that can be a *Run: run / g / env.Run / tg / r ...
					// (struct literal keys and unrelated types with equal field names are filtered by the expected table)
					kind := "read"
					if written[s] {
						kind = "write"
					}
					sites = append(sites, site{where, s.Sel.Name, kind})
					return true
				})
			}
		}
	}
	// de-duplicate and count
	cnt := map[site]int{}
	for _, s := range sites {
		cnt[s]++
	}
	var keys []site
	for s := range cnt {
		keys = append(keys, s)
	}
	sort.Slice(keys, func(i, j int) bool {
		a, b := keys[i], keys[j]
		if a.field != b.field {
			return a.field < b.field
		}
		if a.where != b.where {
			return a.where < b.where
		}
		return a.kind < b.kind
	})
	var b strings.Builder
	b.WriteString("-- REGENERATED by harness/c12.go (extractC12) from fast/*.go, fast/debug/*.go. Do not edit.\n")
	b.WriteString("namespace Gen.RunFields\n\n")
	b.WriteString("/-- every selector `.F` with F a bookkeeping field of fast.Run, in non-test sources:\n    (field, file:function, read|write, occurrences) -/\n")
	b.WriteString("def sites : List (String × String × String × Nat) :=\n  [")
	for i, s := range keys {
		if i > 0 {
			b.WriteString(",\n   ")
		}
		fmt.Fprintf(&b, "(%q, %q, %q, %d)", s.field, s.where, s.kind, cnt[s])
	}
	b.WriteString("]\n\n")
	// where RunExpr / DebugExpr rewrite the debugger mode relative to running the code: (function, argument, position)
	var dbgCalls []string
	if file, err := parser.ParseFile(fset, filepath.Join(repo, "fast", "repl.go"), nil, 0); err == nil {
		for _, d := range file.Decls {
			fd, ok := d.(*ast.FuncDecl)
			if !ok || fd.Body == nil || (fd.Name.Name != "RunExpr" && fd.Name.Name != "DebugExpr") {
				continue
			}
			ran := false
			for _, st := range fd.Body.List {
				txt := c13src(fset, st)
				if strings.Contains(txt, "fun(env)") {
					ran = true
					continue
				}
				ast.Inspect(st, func(n ast.Node) bool {
					c, ok := n.(*ast.CallExpr)
					if !ok || !strings.HasSuffix(c13src(fset, c.Fun), ".applyDebugOp") || len(c.Args) != 1 {
						return true
					}
					pos := "before"
					if ran {
						pos = "after"
					}
					if _, isDefer := st.(*ast.DeferStmt); isDefer {
						pos = "deferred"
					}
					if _, isExpr := st.(*ast.ExprStmt); !isExpr && pos != "deferred" {
						pos = "nested-" + pos
					}
					dbgCalls = append(dbgCalls, fmt.Sprintf("(%q, %q, %q)", fd.Name.Name, c13src(fset, c.Args[0]), pos))
					return true
				})
			}
		}
	}
	fmt.Fprintf(&b, "/-- calls of `applyDebugOp` in `Interp.RunExpr` / `Interp.DebugExpr`: (function, argument, before|after|deferred w.r.t. `fun(env)`) -/\ndef debugOpCalls : List (String × String × String) :=\n  [%s]\n\n", strings.Join(dbgCalls, ", "))
	// does reExecWithFlags remember Panic / PanicFun when it starts panicking and reinstate them on exit? (a642365)
	saves := false
	if src, err := os.ReadFile(filepath.Join(repo, "fast", "code.go")); err == nil {
		txt := strings.Join(strings.Fields(string(src)), " ")
		i := strings.Index(txt, "rundefer := func(fun func()) {")
		j := strings.Index(txt, "run.Panic = recover()")
		k := strings.Index(txt, "panicking, panicking2 := true, false")
		if k >= 0 && i > k && j > i {
			saves = strings.Contains(txt[i:j], "if !saved { saved = true savedPanic, savedPanicFun = run.Panic, run.PanicFun }") &&
				strings.Contains(txt[k:i], "defer func() { if saved { run.Panic, run.PanicFun = savedPanic, savedPanicFun } }()")
		}
	}
	fmt.Fprintf(&b, "/-- `reExecWithFlags` saves `run.Panic`, `run.PanicFun` when it starts panicking and reinstates them when it is left -/\ndef savesPanic : Bool := %v\n\nend Gen.RunFields\n", saves)
	return os.WriteFile(filepath.Join(genDir, "RunFields.lean"), []byte(b.String()), 0o644)
}

func init() {
	extractors["C12"] = extractC12
	register(&Prop{
		ID:   "C12",
		Rule: "fault enumeration: 19 template programs + 40 (quick) / 800 (thorough) random programs over pad/hook/call/defer/recover/panic/try, as function call and as top-level code; for every k in 0..#hooks+1 the k-th hook call panics, in a fresh interpreter, followed by the battery; then 25 / 500 random histories of 2-5 evaluations in one interpreter. Non-trivial: every eval op; distinct by op text.",
		Gen:  c12gen,
		Exec: c12exec,
		Prepare: c12prepare,
		Exhaustive: func(tier string) bool { return true },
	})
}
