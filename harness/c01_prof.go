package main

import (
	"os"
	"runtime/pprof"
)

func init() {
	if p := os.Getenv("C01_PROF"); p != "" {
		f, _ := os.Create(p)
		pprof.StartCPUProfile(f)
		c01profStop = func() { pprof.StopCPUProfile(); f.Close() }
	}
}

var c01profStop = func() {}
