package main

import (
	"fmt"
	"io"
	"math/rand"
	"sort"
	"strings"

	"github.com/cosmos72/gomacro/base"
	"github.com/cosmos72/gomacro/fast"
)

// C37: REPL command lookup.  The real table is the exported global fast.Commands
// (Cmds has no exported constructor); "reset" deletes every registered command.
// Oracle: linear scan over the set of registered names (the property's own wording).

var c37names = map[string]bool{}
var c37interp *fast.Interp
var c37called string

func c37name(s string) string {
	if s == `""` {
		return ""
	}
	return s
}
func c37show(s string) string {
	if s == "" {
		return `""`
	}
	return s
}

func c37lookupStr(p string) string {
	cmd, err := fast.Commands.Lookup(p)
	switch {
	case err == nil:
		return "one " + c37show(cmd.Name)
	case err == io.EOF:
		return "none"
	default:
		return "ambig " + err.Error()
	}
}

// specification: linear scan
func c37spec(p string) string {
	if p == "" {
		return "none"
	}
	if c37names[p] {
		return "one " + p
	}
	var c []string
	for n := range c37names {
		if strings.HasPrefix(n, p) {
			c = append(c, n)
		}
	}
	sort.Strings(c)
	switch len(c) {
	case 0:
		return "none"
	case 1:
		return "one " + c[0]
	}
	return "ambig " + strings.Join(c, " ")
}

func c37exec(op string) Result {
	f, arg, _ := strings.Cut(op, " ")
	switch f {
	case "reset":
		for _, c := range fast.Commands.List() {
			fast.Commands.Del(c.Name)
		}
		c37names = map[string]bool{}
		return Result{Out: "ok", Tags: []string{"reset"}}
	case "add":
		n := c37name(arg)
		name := n
		ok := fast.Commands.Add(fast.Cmd{Name: n, Func: func(ir *fast.Interp, a string, opt base.CmdOpt) (string, base.CmdOpt) {
			c37called = "call " + c37show(name) + "|" + a
			return "", opt
		}})
		r := Result{Out: fmt.Sprint(ok), Tags: []string{"add"}, Nontrivial: true}
		if ok != (n != "") {
			r.Viol, r.Key = "Add returned "+fmt.Sprint(ok), "add-result"
		}
		if n != "" {
			c37names[n] = true
		}
		return r
	case "del":
		n := c37name(arg)
		ok := fast.Commands.Del(n)
		r := Result{Out: fmt.Sprint(ok), Tags: []string{"del", "del-" + fmt.Sprint(ok)}, Nontrivial: true}
		if ok != c37names[n] {
			r.Viol, r.Key = fmt.Sprintf("Del(%q) returned %v but registered=%v", n, ok, c37names[n]), "del-result"
		}
		delete(c37names, n)
		return r
	case "lookup":
		p := c37name(arg)
		out := c37lookupStr(p)
		spec := c37spec(p)
		r := Result{Out: out, Tags: []string{"lookup-" + strings.Fields(out)[0]}, Nontrivial: len(c37names) > 1}
		if out != spec {
			key := "lookup"
			if c37names[p] && strings.HasPrefix(out, "ambig") {
				key = "lookup-exact-name-ambiguous"
			}
			r.Viol, r.Key = fmt.Sprintf("Lookup(%q) = %q, linear scan over %v says %q", p, out, c37sorted(), spec), key
		}
		return r
	case "list":
		var l []string
		for _, c := range fast.Commands.List() {
			l = append(l, c37show(c.Name))
		}
		out := strings.Join(l, " ")
		r := Result{Out: out, Tags: []string{"list"}}
		if out != strings.Join(c37sorted(), " ") {
			r.Viol, r.Key = "List() = "+out+" want "+strings.Join(c37sorted(), " "), "list"
		}
		return r
	case "cmd":
		if c37interp == nil {
			c37interp = fast.New()
			c37interp.Comp.Globals.Stderr = io.Discard
			c37interp.Comp.Globals.Stdout = io.Discard
		}
		c37called = ""
		src, opt := c37interp.Cmd(arg)
		var out string
		trim := strings.TrimSpace(arg)
		isCmd := len(trim) > 0 && trim[0] == ':'
		switch {
		case c37called != "":
			out = c37called
		case opt&base.CmdOptForceEval != 0:
			out = "eval " + src
		case isCmd && src == "":
			out = "ambiguous"
		default:
			out = "pass " + src
		}
		r := Result{Out: out, Tags: []string{"cmd-" + strings.Fields(out)[0]}, Nontrivial: isCmd}
		// property: an unknown ':'-prefixed input is evaluated as code
		if isCmd {
			word, _, _ := strings.Cut(trim[1:], " ")
			if c37spec(word) == "none" {
				want := "eval " + " " + trim[1:]
				if strings.TrimSpace(strings.TrimPrefix(out, "eval")) != strings.TrimSpace(trim[1:]) || !strings.HasPrefix(out, "eval ") {
					key := "cmd-unknown"
					if arg != trim {
						key = "cmd-unknown-leading-space"
					}
					r.Viol, r.Key = fmt.Sprintf("Cmd(%q): unknown command not returned as code: got %q want %q", arg, out, want), key
				}
			}
		}
		return r
	}
	return Result{Out: "bad-op"}
}

func c37sorted() []string {
	var l []string
	for n := range c37names {
		l = append(l, n)
	}
	sort.Strings(l)
	return l
}

func c37allNames(alpha string, maxlen int) []string {
	var out []string
	var rec func(p string)
	rec = func(p string) {
		if len(p) > 0 {
			out = append(out, p)
		}
		if len(p) == maxlen {
			return
		}
		for _, c := range alpha {
			rec(p + string(c))
		}
	}
	rec("")
	return out
}

func c37gen(r *rand.Rand, tier string, emit func(string)) {
	// (1) bounded-exhaustive: every table (subset) of names over {a,b} of length<=L,
	//     every prefix of length <= L+1, built by adds in a random order.
	names := c37allNames("ab", 2) // 6 names -> 64 tables
	if tier == "thorough" {
		names = c37allNames("ab", 3) // 14 names -> 16384 tables
	}
	prefixes := append(c37allNames("ab", 3), `""`, "c", "ac")
	if tier == "thorough" {
		prefixes = append(c37allNames("ab", 4), `""`, "c", "ac")
	}
	for mask := 0; mask < 1<<len(names); mask++ {
		emit("reset")
		idx := r.Perm(len(names))
		for _, i := range idx {
			if mask&(1<<i) != 0 {
				emit("add " + names[i])
			}
		}
		for _, p := range prefixes {
			emit("lookup " + p)
		}
		if mask%16 == 0 {
			emit("list")
		}
	}
	// (1b) random tables of longer names over a tiny alphabet (names up to length 5, so that a typed
	//      prefix can be LONGER than a registered name that sorts after the matching run, and deletions
	//      hit every position of a longer per-letter vector); every prefix of every name, each also
	//      extended by one byte, is looked up before and after deleting a random entry.
	nt := 300
	if tier == "thorough" {
		nt = 6000
	}
	randName := func() string {
		n := 1 + r.Intn(5)
		b := make([]byte, n)
		for i := range b {
			b[i] = "aab"[r.Intn(3)]
			if r.Intn(12) == 0 {
				b[i] = 'c'
			}
		}
		return string(b)
	}
	for t := 0; t < nt; t++ {
		emit("reset")
		k := 2 + r.Intn(7)
		var tbl []string
		for i := 0; i < k; i++ {
			n := randName()
			tbl = append(tbl, n)
			emit("add " + n)
		}
		probe := func() {
			seen := map[string]bool{}
			for _, n := range tbl {
				for l := 1; l <= len(n); l++ {
					for _, ext := range []string{"", "a", "b"} {
						q := n[:l] + ext
						if !seen[q] {
							seen[q] = true
							emit("lookup " + q)
						}
					}
				}
			}
		}
		probe()
		emit("del " + tbl[r.Intn(len(tbl))])
		probe()
		emit("list")
	}
	// (2) random add/del histories over longer names sharing prefixes, several first letters
	nh, nops := 150, 60
	if tier == "thorough" {
		nh, nops = 3000, 120
	}
	pool := []string{"env", "envx", "e", "en", "enx", "help", "he", "h", "hel", "helq", "quit", "q", "qu", "a", "ab", "abc", "abd", "b", "ba", "_x", "_", "Zz", "z", "zz", "zzz", "zza", "zy", `""`}
	for h := 0; h < nh; h++ {
		emit("reset")
		for i := 0; i < nops; i++ {
			n := pool[r.Intn(len(pool))]
			switch k := r.Intn(10); {
			case k < 4:
				emit("add " + n)
			case k < 6:
				emit("del " + n)
			case k < 9:
				emit("lookup " + n)
			default:
				if r.Intn(3) == 0 {
					emit("list")
				} else {
					lead := []string{"", "", "", " ", "\t"}[r.Intn(5)]
					args := []string{"", " x", " 1 + 2 ", "  foo  bar"}[r.Intn(4)]
					if r.Intn(6) == 0 {
						emit("cmd " + lead + n + args)
					} else {
						emit("cmd " + lead + ":" + n + args)
					}
				}
			}
		}
	}
}

func init() {
	register(&Prop{
		ID:   "C37",
		Rule: "bounded-exhaustive: every table over names of length<=2 (quick) / <=3 (thorough) on alphabet {a,b}, built in a random insertion order, x every prefix one byte longer; plus random tables of 2-8 names of length<=5 over {a,b,c} probed with every prefix of every name (also extended by one byte) before and after a deletion; plus random Add/Del/Lookup/List/Cmd histories over 28 names sharing prefixes. Non-trivial: add/del ops, lookups in tables with >=2 names, ':'-prefixed Cmd lines; distinct by op text.",
		Gen:  c37gen,
		Exec: c37exec,
		Exhaustive: func(tier string) bool { return true },
	})
}
