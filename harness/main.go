// Command harness is the Go side of the correspondence checks.
//
//	harness run -prop C37 -tier quick -seed 1 -out DIR [-replay FILE]
//
// For the chosen property it generates a list of one-line operations (corpus first, then
// a seeded random / bounded-exhaustive stream), executes every operation against the real
// gomacro code in-process, and writes
//
//	DIR/ops.txt     the operations, one per line (the input of the Lean model driver)
//	DIR/impl.txt    the canonical output of the real code, one line per operation
//	DIR/report.json counts, input distribution, samples and the concrete property
//	                violations found by the Go-side oracle (real code vs. specification)
//
// The python driver /verif/check pipes ops.txt through the Lean model
// (`lake env lean --run Drv/Cxx.lean`) and diffs the result with impl.txt.
//go:debug gotypesalias=0
package main

import (
	"bufio"
	"encoding/json"
	"flag"
	"fmt"
	"hash/fnv"
	"math/rand"
	"os"
	"path/filepath"
	"runtime/debug"
	"sort"
	"strings"
)

// Result of executing one operation on the real code.
type Result struct {
	Out        string   // canonical single-line output, compared with the Lean model
	Viol       string   // non-empty: the real code contradicts the property on this op
	Key        string   // canonical key of the violation (matched against KNOWN_FINDINGS.txt)
	Tags       []string // distribution tags (branches / error kinds hit)
	Nontrivial bool     // counts towards distinct_nontrivial
	Sig        string   // identity used for "distinct" (default: the op text); stateful props add the state
}

// Prop is the harness side of one property.
type Prop struct {
	ID   string
	Rule string // how ops are generated and what makes one non-trivial
	// Gen emits the operation stream for one run.
	Gen func(r *rand.Rand, tier string, emit func(op string))
	// Exec runs one operation on the real code.  It may keep state between ops
	// (ops such as "reset" are the property's own business).
	Exec func(op string) Result
	// Exhaustive reports whether Gen enumerated a finite space completely.
	Exhaustive func(tier string) bool
	// Prepare (optional) sees the whole op list before the first Exec, e.g. to compile
	// all oracle programs in one batch (see gobatch.go).
	Prepare func(ops []string)
}

var props = map[string]*Prop{}

func register(p *Prop) { props[p.ID] = p }

type violation struct {
	Index int    `json:"index"`
	Op    string `json:"op"`
	Key   string `json:"key"`
	Desc  string `json:"desc"`
	Out   string `json:"out"`
}

type report struct {
	Property    string         `json:"property"`
	Tier        string         `json:"tier"`
	Seed        int64          `json:"seed"`
	Evaluations int            `json:"evaluations"`
	Distinct    int            `json:"distinct_nontrivial"`
	Rule        string         `json:"rule"`
	Exhaustive  bool           `json:"exhaustive"`
	Samples     []string       `json:"samples"`
	Dist        map[string]int `json:"distribution"`
	Violations  []violation    `json:"violations"`
	Corpus      int            `json:"corpus_ops"`
}

func safeExec(p *Prop, op string) (res Result) {
	defer func() {
		if e := recover(); e != nil {
			msg := fmt.Sprint(e)
			if len(msg) > 200 {
				msg = msg[:200]
			}
			res = Result{Out: "HARNESS-PANIC " + oneLine(msg), Tags: []string{"harness-panic"}}
			if os.Getenv("VERIF_DEBUG") != "" {
				debug.PrintStack()
			}
		}
	}()
	return p.Exec(op)
}

func oneLine(s string) string {
	s = strings.ReplaceAll(s, "\n", "\\n")
	s = strings.ReplaceAll(s, "\r", "\\r")
	return s
}

func main() {
	if len(os.Args) < 2 {
		fmt.Fprintln(os.Stderr, "usage: harness run|list|extract ...")
		os.Exit(2)
	}
	switch os.Args[1] {
	case "list":
		ids := []string{}
		for id := range props {
			ids = append(ids, id)
		}
		sort.Strings(ids)
		fmt.Println(strings.Join(ids, " "))
	case "run":
		run(os.Args[2:])
	case "extract":
		extractMain(os.Args[2:])
	default:
		fmt.Fprintln(os.Stderr, "unknown subcommand", os.Args[1])
		os.Exit(2)
	}
}

func run(args []string) {
	fs := flag.NewFlagSet("run", flag.ExitOnError)
	id := fs.String("prop", "", "property id")
	tier := fs.String("tier", "quick", "quick|thorough")
	seed := fs.Int64("seed", 1, "PRNG seed")
	out := fs.String("out", "", "output directory")
	replay := fs.String("replay", "", "file with ops to replay instead of generating")
	corpusDir := fs.String("corpus", "/verif/corpus", "corpus root")
	fs.Parse(args)
	p := props[*id]
	if p == nil {
		fmt.Fprintln(os.Stderr, "unknown property", *id)
		os.Exit(2)
	}
	os.MkdirAll(*out, 0o755)
	var ops []string
	ncorpus := 0
	if *replay != "" {
		ops = readLines(*replay)
	} else {
		files, _ := filepath.Glob(filepath.Join(*corpusDir, p.ID, "*.txt"))
		sort.Strings(files)
		for _, f := range files {
			for _, l := range readLines(f) {
				if l != "" && !strings.HasPrefix(l, "#") {
					ops = append(ops, l)
				}
			}
		}
		ncorpus = len(ops)
		r := rand.New(rand.NewSource(*seed))
		p.Gen(r, *tier, func(op string) {
			if strings.ContainsAny(op, "\n\r") {
				panic("op contains newline: " + op)
			}
			ops = append(ops, op)
		})
	}
	fo, _ := os.Create(filepath.Join(*out, "ops.txt"))
	fi, _ := os.Create(filepath.Join(*out, "impl.txt"))
	wo, wi := bufio.NewWriter(fo), bufio.NewWriter(fi)
	rep := report{Property: p.ID, Tier: *tier, Seed: *seed, Rule: p.Rule, Dist: map[string]int{}, Corpus: ncorpus}
	if p.Exhaustive != nil && *replay == "" {
		rep.Exhaustive = p.Exhaustive(*tier)
	}
	if p.Prepare != nil {
		p.Prepare(ops)
	}
	seen := map[uint64]bool{}
	perKey := map[string]int{}
	sr := rand.New(rand.NewSource(*seed + 7))
	for i, op := range ops {
		res := safeExec(p, op)
		fmt.Fprintln(wo, op)
		fmt.Fprintln(wi, oneLine(res.Out))
		rep.Evaluations++
		for _, t := range res.Tags {
			rep.Dist[t]++
		}
		if res.Nontrivial {
			h := fnv.New64a()
			if res.Sig != "" {
				h.Write([]byte(res.Sig))
			} else {
				h.Write([]byte(op))
			}
			if !seen[h.Sum64()] {
				seen[h.Sum64()] = true
				rep.Distinct++
			}
		}
		if res.Viol != "" {
			// keep the first few violations of EVERY distinct key, so that a new kind of
			// violation cannot hide behind many instances of a known finding
			perKey[res.Key]++
			if perKey[res.Key] <= 5 && len(rep.Violations) < 1000 {
				rep.Violations = append(rep.Violations, violation{i, op, res.Key, res.Viol, res.Out})
			}
			rep.Dist["violation"]++
		}
		if len(rep.Samples) < 3 || (len(rep.Samples) < 8 && sr.Intn(len(ops)/8+1) == 0) {
			s := op
			if len(s) > 300 {
				s = s[:300] + "..."
			}
			rep.Samples = append(rep.Samples, s+"  =>  "+truncate(oneLine(res.Out), 200))
		}
	}
	wo.Flush()
	wi.Flush()
	fo.Close()
	fi.Close()
	b, _ := json.MarshalIndent(rep, "", " ")
	os.WriteFile(filepath.Join(*out, "report.json"), b, 0o644)
}

func truncate(s string, n int) string {
	if len(s) > n {
		return s[:n] + "..."
	}
	return s
}

func readLines(path string) []string {
	f, err := os.Open(path)
	if err != nil {
		fmt.Fprintln(os.Stderr, err)
		os.Exit(2)
	}
	defer f.Close()
	sc := bufio.NewScanner(f)
	sc.Buffer(make([]byte, 1<<20), 1<<26)
	var ls []string
	for sc.Scan() {
		ls = append(ls, sc.Text())
	}
	return ls
}

// ---- extractors (translators /repo -> lean/Gen/*.lean) register here ----

var extractors = map[string]func(repo, genDir string) error{}

func extractMain(args []string) {
	fs := flag.NewFlagSet("extract", flag.ExitOnError)
	id := fs.String("prop", "", "property id")
	repo := fs.String("repo", "/repo", "repository root")
	gen := fs.String("gen", "/verif/lean/Gen", "output dir")
	fs.Parse(args)
	ex := extractors[*id]
	if ex == nil {
		return // nothing to extract for this property
	}
	os.MkdirAll(*gen, 0o755)
	if err := ex(*repo, *gen); err != nil {
		fmt.Fprintln(os.Stderr, "extract:", err)
		os.Exit(1)
	}
}
