package main

import (
	"fmt"
	"math/rand"
	"strconv"
	"strings"
)

// Rich programs for C08 (outside the Lean model): each generator returns one Go function body
// (result variable `out`, shared declarations c08decls).  Compiled Go is the oracle.

type c08richGen struct {
	name string
	gen  func(r *rand.Rand) string
}

func c08ints(r *rand.Rand, n int) string {
	var v []string
	for i := 0; i < n; i++ {
		v = append(v, strconv.Itoa(r.Intn(50)))
	}
	return strings.Join(v, ", ")
}

func c08pick(r *rand.Rand, xs ...string) string { return xs[r.Intn(len(xs))] }

// programs the Go compiler rejects (checked by hand with go vet / go build): gomacro must reject them
// too, or at least panic -- it must not evaluate them to a value
var c08rejected = []string{
	`struct-dup-field x := P{X: 1, X: 2}; return fmt.Sprint(x)`,
	`struct-too-many x := P{1, 2, 3}; return fmt.Sprint(x)`,
	`struct-too-few x := P{1}; return fmt.Sprint(x)`,
	`struct-mixed x := P{X: 1, 2}; return fmt.Sprint(x)`,
	`struct-unknown-field x := P{Z: 1}; return fmt.Sprint(x)`,
	`map-dup-key x := map[string]int{"a": 1, "a": 2}; return fmt.Sprint(x)`,
	`map-missing-key x := map[string]int{1}; return fmt.Sprint(x)`,
	`array-index-oob x := [2]int{1, 2}; return fmt.Sprint(x[2])`,
	`array-lit-oob x := [2]int{2: 1}; return fmt.Sprint(x)`,
	`string-byte-assign s := "abc"; s[0] = 'x'; return s`,
	`map-elem-address m := map[string]int{"a": 1}; p := &m["a"]; return fmt.Sprint(*p)`,
	`map-elem-field-assign m := map[string]P{"a": {1, 2}}; m["a"].X = 5; return fmt.Sprint(m)`,
	`slice-of-unaddressable-array s := three()[:]; return fmt.Sprint(s)`,
	`append-to-array a := [2]int{1, 2}; b := append(a, 3); return fmt.Sprint(b)`,
	`copy-elem-type-mismatch a := []int{1}; b := []string{"a"}; n := copy(a, b); return fmt.Sprint(n)`,
	`index-float-var s := []int{1, 2}; f := 1.0; return fmt.Sprint(s[f])`,
	`len-of-int x := 5; return fmt.Sprint(len(x))`,
	`cap-of-map m := map[int]int{}; return fmt.Sprint(cap(m))`,
	`delete-wrong-key m := map[int]int{}; delete(m, "a"); return fmt.Sprint(m)`,
	`make-array x := make([3]int, 3); return fmt.Sprint(x)`,
	`slice3-string s := "abc"; lo, hi := 0, 1; return s[lo:hi:hi]`,
	`negative-const-index s := []int{1}; return fmt.Sprint(s[-1])`,
	`make-const-uint64-overflow const k uint64 = 1 << 63; s := make([]int, k); return fmt.Sprint(len(s))`,
	`make-const-negative const k int64 = -1; s := make([]int, k); return fmt.Sprint(len(s))`,
	`make-const-len-gt-cap s := make([]int, 3, 2); return fmt.Sprint(len(s))`,
	`index-const-uint64-overflow s := []int{1}; const k uint64 = 1<<64 - 1; return fmt.Sprint(s[k])`,
	`place-const-uint-overflow s := []int{1}; const k uint = 1 << 63; s[k] = 2; return fmt.Sprint(s)`,
}

var c08rich = []c08richGen{
	// every evaluation of a literal / new / make yields a FRESH value: evaluate each site several
	// times (loop, function called twice), write through one result, read through the others
	{"fresh-per-evaluation", func(r *rand.Rand) string {
		v := 1 + r.Intn(9)
		switch r.Intn(4) {
		case 0:
			return fmt.Sprintf(`mk := func() *P { return &P{} }; a, b := mk(), mk(); a.X = %d; ps := []*P{}; for i := 0; i < 3; i++ { ps = append(ps, &P{}) }; ps[0].Y = %d; ps[2].X = 1; qs := []*Q{}; for i := 0; i < 2; i++ { qs = append(qs, &Q{}) }; qs[1].A[0] = %d; vs := []P{}; for i := 0; i < 2; i++ { x := P{}; x.X = i + %d; vs = append(vs, x) }; return fmt.Sprint(*a, *b, a == b, *ps[0], *ps[1], *ps[2], qs[0].A, qs[1].A, vs)`, v, v, v, v)
		case 1:
			return fmt.Sprintf(`el := func() []*P { return []*P{{}, {}} }; x, y := el(), el(); x[0].X = %d; y[1].Y = %d; arr := []*[2]int{}; for i := 0; i < 2; i++ { arr = append(arr, &[2]int{}) }; arr[0][1] = %d; mp := func() map[string]*P { return map[string]*P{"a": {}} }; m1, m2 := mp(), mp(); m1["a"].X = %d; return fmt.Sprint(*x[0], *x[1], *y[0], *y[1], x[0] == x[1], *arr[0], *arr[1], *m1["a"], *m2["a"])`, v, v, v, v)
		case 2:
			return fmt.Sprintf(`ms := []map[string]int{}; ss := [][]int{}; ns := []*int{}; as := [][2]int{}; for i := 0; i < 3; i++ { ms = append(ms, map[string]int{}); ss = append(ss, []int{0, 0}); ns = append(ns, new(int)); as = append(as, [2]int{}) }; ms[0]["a"] = %d; ss[1][0] = %d; *ns[2] = %d; as[0][1] = %d; mk := func() []int { return make([]int, 2) }; s1, s2 := mk(), mk(); s1[0] = %d; e1, e2 := []int{}, []int{}; e1 = append(e1, 1); return fmt.Sprint(ms, ss, *ns[0], *ns[1], *ns[2], as, s1, s2, e1, e2)`, v, v, v, v, v)
		}
		return fmt.Sprintf(`type pair struct{ a, b *P }; mk := func(n int) pair { return pair{&P{n, 0}, &P{}} }; p1, p2 := mk(1), mk(2); p1.b.Y = %d; p2.a.X += %d; st := func() interface{} { return &struct{ V []int }{} }; i1 := st().(*struct{ V []int }); i2 := st().(*struct{ V []int }); (*i1).V = append((*i1).V, %d); return fmt.Sprint(*p1.a, *p1.b, *p2.a, *p2.b, (*i1).V, (*i2).V, len((*i2).V))`, v, v, v)
	}},
	{"anon-struct-pointer", func(r *rand.Rand) string {
		v := r.Intn(9)
		return fmt.Sprintf(`x := &struct { V int; W []int }{%d, nil}; x.W = append(x.W, x.V); y := x; y.V++; ps := []*struct{ A, B int }{{1, 2}, {B: %d}}; m := map[string]*struct{ N int }{"a": {%d}}; m["a"].N++; return fmt.Sprint(x.V, x.W, (*y).V, ps[1].B, ps[0].A, m["a"].N, len(x.W))`, v, v, v)
	}},
	// a call site of a builtin / literal re-entered (recursion) while its arguments are being evaluated
	{"reentrant-call-site", func(r *rand.Rand) string {
		n := 2 + r.Intn(3)
		switch r.Intn(4) {
		case 0:
			return fmt.Sprintf(`var f func(n int) []int; f = func(n int) []int { if n == 0 { return nil }; return append([]int{n * 10}, len(f(n-1)), n) }; return fmt.Sprint(f(%d), f(1))`, n)
		case 1:
			return fmt.Sprintf(`var g func(n int) []P; g = func(n int) []P { if n == 0 { return nil }; return append([]P{{n, len(g(n - 1))}}, g(n-1)...) }; var h func(n int) [2]int; h = func(n int) [2]int { if n == 0 { return [2]int{} }; return [2]int{n, h(n - 1)[0] + 1} }; return fmt.Sprint(g(%d), h(%d))`, n, n)
		case 2:
			return fmt.Sprintf(`var c func(n int) int; buf := make([]int, 8); c = func(n int) int { if n == 0 { return 0 }; return copy(buf[n:], []int{n, c(n - 1), n}) + n }; var m func(n int) map[int]int; m = func(n int) map[int]int { if n == 0 { return map[int]int{} }; return map[int]int{n: len(m(n - 1)), -n: n} }; return fmt.Sprint(c(%d), buf, m(%d))`, n, n)
		}
		return fmt.Sprintf(`var d func(n int) *N; d = func(n int) *N { var z *N; if n == 0 { return z }; return &N{n, d(n - 1)} }; s := 0; for x := d(%d); x != nil; x = x.Next { s = s*10 + x.V }; var ix func(n int) int; tab := []int{0, 1, 2, 3, 4, 5, 6}; ix = func(n int) int { if n == 0 { return 0 }; return tab[n] + tab[ix(n-1)%%7] }; var sl func(n int) []int; sl = func(n int) []int { if n == 0 { return tab }; return sl(n - 1)[1 : len(sl(n-1))-0] }; return fmt.Sprint(s, ix(%d), sl(%d))`, n, n, n)
	}},
	{"map-identity-assign", func(r *rand.Rand) string {
		k := 3 + r.Intn(3)
		if r.Intn(4) == 0 {
			return `var m map[int]int; pc = 1; m[1] += 0; return "no panic"`
		}
		return fmt.Sprintf(`m := map[int]int{3: 1}; m[%d] += 0; m[%d] *= 1; m[%d] |= 0; m[%d] -= 0; f := map[string]float64{}; f["a"] *= 1; s := map[int]string{}; s[1] += ""; return fmt.Sprint(m, len(m), f, len(s))`, k, k+1, k+2, k)
	}},
	{"call-arg-single-value", func(r *rand.Rand) string {
		k := r.Intn(3)
		return fmt.Sprintf(`m := map[int]string{1: "a"}; var e interface{} = 7; c := make(chan int, 1); c <- 5; one := func(x string) string { return x + "!" }; return fmt.Sprint(m[%d]) + "|" + one(m[%d]) + "|" + fmt.Sprint(e.(int)) + "|" + fmt.Sprint(<-c) + "|" + fmt.Sprint(len(m[1]))`, k, k)
	}},
	{"nil-to-recursive-pointer", func(r *rand.Rand) string {
		if r.Intn(3) == 0 {
			return fmt.Sprintf(`f := func(n int) *N { if n == 0 { return nil }; return &N{V: n} }; return fmt.Sprint(f(0) == nil, f(%d).V)`, 1+r.Intn(9))
		}
		return fmt.Sprintf(`n2 := &N{%d, &N{3, nil}}; n2.Next = nil; var q *N = n2; q = nil; return fmt.Sprint(n2.V, n2.Next == nil, q == nil)`, r.Intn(9))
	}},
	{"place-xor-shift", func(r *rand.Rand) string {
		a, b, n := r.Intn(256), r.Intn(256), r.Intn(9)
		return fmt.Sprintf(`s := []int{%d, -8, 3}; ar := [2]uint8{%d, 200}; m := map[string]uint16{"a": %d}; p := &P{%d, 1}; i := 1; var u uint = %d; var n8 int8 = 2; s[0] ^= %d; s[i] >>= 1; s[2] <<= u; ar[0] ^= 0xf0; ar[i] <<= 1; ar[1] >>= n8; m["a"] ^= 0xff; m["a"] <<= 3; m["b"] ^= 5; p.X ^= p.Y; p.X <<= 2; p.Y |= 6; p.Y &^= 2; x := %d; x ^= %d; return fmt.Sprint(s, ar, m, *p, x)`, a, b, a, b, n, b, a, b)
	}},
	{"map-of-structs", func(r *rand.Rand) string {
		a, b, c := r.Intn(9), r.Intn(9), r.Intn(9)
		k := c08pick(r, `"a"`, `"b"`, `"zz"`)
		return fmt.Sprintf(`m := map[string]P{"a": {%d, %d}, "b": {Y: %d}}; v := m[%s]; v.X = 9; w, ok := m[%s]; m["c"] = P{X: v.Y}; return fmt.Sprint(m, v, w, ok, len(m), m["a"].X+m["b"].Y)`, a, b, c, k, k)
	}},
	{"map-ops", func(r *rand.Rand) string {
		var b strings.Builder
		if r.Intn(6) == 0 {
			b.WriteString("var m map[int]int; ")
		} else {
			fmt.Fprintf(&b, "m := map[int]int{%d: 1, %d: 2}; ", r.Intn(4), 4+r.Intn(4))
		}
		b.WriteString("var log []int; ")
		for i, n := 0, 2+r.Intn(6); i < n; i++ {
			k := r.Intn(8)
			switch r.Intn(6) {
			case 0:
				fmt.Fprintf(&b, "pc = %d; m[%d] = %d; ", i, k, r.Intn(100))
			case 1:
				fmt.Fprintf(&b, "delete(m, %d); ", k)
			case 2:
				fmt.Fprintf(&b, "if v, ok := m[%d]; ok { log = append(log, v) } else { log = append(log, -1) }; ", k)
			case 3:
				fmt.Fprintf(&b, "pc = %d; m[%d]++; ", i, k)
			case 4:
				fmt.Fprintf(&b, "pc = %d; m[%d] += %d; ", i, k, r.Intn(5))
			default:
				fmt.Fprintf(&b, "log = append(log, len(m), m[%d]); ", k)
			}
		}
		b.WriteString("return fmt.Sprint(m, log, len(m))")
		return b.String()
	}},
	{"nil-map", func(r *rand.Rand) string {
		switch r.Intn(4) {
		case 0:
			return `var m map[string]int; v, ok := m["a"]; delete(m, "a"); return fmt.Sprint(v, ok, len(m), m == nil)`
		case 1:
			return `var m map[string]int; pc = 1; m["a"] = 1; return fmt.Sprint(m)`
		case 2:
			return `var m map[string][]int; m2 := map[string][]int{}; m2["a"] = append(m2["a"], 1, 2); return fmt.Sprint(len(m["x"]), m2, m["x"] == nil)`
		}
		return `var m map[P]string; pc = 1; m[P{1, 2}] += "x"; return fmt.Sprint(m)`
	}},
	{"struct-compare", func(r *rand.Rand) string {
		a, b := r.Intn(3), r.Intn(3)
		return fmt.Sprintf(`x := T{%d, "s", [2]int{1, %d}, P{1, 2}}; y := T{%d, "s", [2]int{1, %d}, P{1, 2}}; p, q := &x, &x; var e1, e2 interface{} = x, y; return fmt.Sprint(x == y, x != y, p == q, p == &y, [2]int{%d, 1} == [2]int{%d, 1}, e1 == e2, P{%d, 0} == P{X: %d}, x.Q == y.Q)`, a, b, b, a, a, b, a, b)
	}},
	{"nested-literals", func(r *rand.Rand) string {
		k1, k2 := 1+r.Intn(3), r.Intn(3)
		switch r.Intn(5) {
		case 0:
			return fmt.Sprintf(`t := [][]int{%d: {%d: 5, 6}, {}, 0: {1}}; return fmt.Sprint(len(t), t, len(t[%d]), cap(t[%d]))`, k1, k2, k1, k1)
		case 1:
			return fmt.Sprintf(`t := [...][2]int{{1}, %d: {1, 2}, {1: 7}}; return fmt.Sprint(len(t), t)`, 1+k1)
		case 2:
			return fmt.Sprintf(`t := map[string][]P{"a": {{1, 2}, {X: %d}}, "b": {%d: {Y: 1}}}; return fmt.Sprint(t, len(t["b"]))`, k1, k2)
		case 3:
			return fmt.Sprintf(`t := []*P{{1, 2}, nil, %d: {Y: 3}}; s := ""; for _, p := range t { if p == nil { s += "nil " } else { s += fmt.Sprint(*p, " ") } }; return s`, 2+k1)
		}
		return fmt.Sprintf(`t := map[P][2]string{{1, %d}: {"a"}, {Y: 1}: {1: "b"}}; u := [2]map[string]int{{"a": 1}, {}}; v := struct{ A []int; B map[int]P }{[]int{%d: 1}, map[int]P{1: {2, 3}}}; return fmt.Sprint(t, u, v, len(v.A))`, k1, k2)
	}},
	{"address-of-literal", func(r *rand.Rand) string {
		a := r.Intn(9)
		return fmt.Sprintf(`p := &P{%d, 2}; q := &[]int{1, %d}; w := &[3]int{%d}; m := &map[string]int{"a": %d}; p.X++; (*q)[0] = 7; w[1] = 8; (*m)["b"] = 2; p2 := p; p2.Y = 5; return fmt.Sprint(*p, *q, *w, *m, w[0], len(w), len(*q))`, a, a, a, a)
	}},
	{"array-value-semantics", func(r *rand.Rand) string {
		v := r.Intn(9)
		switch r.Intn(6) {
		case 0:
			return fmt.Sprintf(`a := [3]int{1, 2, %d}; b := a; b[0] = 9; c := modArr(a); modPtr(&b); return fmt.Sprint(a, b, c)`, v)
		case 1:
			return fmt.Sprintf(`a := [3]int{1, 2, %d}; r := 0; for i, v := range a { a[2] = 10; if i == 2 { r = v } }; return fmt.Sprint(a, r)`, v)
		case 2:
			return fmt.Sprintf(`a := [3]int{1, 2, %d}; r := 0; for i, v := range &a { a[2] = 10; if i == 2 { r = v } }; s := a[:]; for i, v := range s { s[2] = 20; if i == 2 { r += v } }; return fmt.Sprint(a, r)`, v)
		case 3:
			return fmt.Sprintf(`q := Q{P{1, 2}, []int{1, 2}, map[string]int{"a": 1}, [3]int{%d}}; q2 := q; q2.A[0] = 7; q2.S[0] = 7; q2.M["a"] = 7; q2.X = 7; q3 := modStruct(q); return fmt.Sprint(q, q2, q3)`, v)
		case 4:
			return fmt.Sprintf(`var g [3][3]int; g[1][%d] = 5; h := g; h[1][1]++; row := g[1]; row[0] = 9; pr := &g[2]; pr[0] = 4; return fmt.Sprint(g, h, row)`, v%3)
		}
		return fmt.Sprintf(`m := map[string][3]int{"a": {1, 2, %d}}; x := m["a"]; x[0] = 9; s := [][2]int{{1, 2}}; y := s[0]; y[0] = 9; s[0][1] = 8; f := three(); f[0] = 5; return fmt.Sprint(m, x, s, y, f, three()[1], m["a"][2])`, v)
	}},
	{"pointers", func(r *rand.Rand) string {
		switch r.Intn(6) {
		case 0:
			return `p := new(int); *p = 3; q := p; *q += 4; pp := &p; **pp *= 2; s := new(P); s.X = 1; t := new([2]int); t[1] = 5; u := new([]int); *u = append(*u, 1); return fmt.Sprint(*p, *s, *t, *u, p == q)`
		case 1:
			return `var p *P; pc = 1; return fmt.Sprint(p.X)`
		case 2:
			return `var p *int; pc = 1; *p = 1; return "no"`
		case 3:
			return `var p *[3]int; pc = 1; return fmt.Sprint(len(p), cap(p), p == nil)`
		case 4:
			return `n3 := &N{3, nil}; n2 := &N{2, n3}; n1 := &N{V: 1, Next: n2}; s := 0; for n := n1; n != nil; n = n.Next { s = s*10 + n.V }; n2.Next = n2.Next.Next; c := 0; for n := n1; n != nil; n = n.Next { c++ }; return fmt.Sprint(s, c, n1.Next.V)`
		}
		return `var p *[3]int; pc = 1; for i := range p { pc = 2 + i }; pc = 7; return fmt.Sprint(p[1])`
	}},
	{"strings", func(r *rand.Rand) string {
		i := r.Intn(8)
		return fmt.Sprintf(`s := "héllo"; b := []byte(s); b[0] = 'H'; n := copy(b[1:], "ab"); t := string(b); u := s[1:3]; var k uint8 = %d; pc = 1; c := s[k]; return fmt.Sprint(len(s), t, n, []byte(u), c, s[len(s)-1], s[:0] == "", string(b[:2]))`, i)
	}},
	{"append-idioms", func(r *rand.Rand) string {
		i := r.Intn(4)
		switch r.Intn(7) {
		case 0:
			return fmt.Sprintf(`s := []int{0, 1, 2, 3, 4}; i := %d; s = append(s[:i], s[i+1:]...); return fmt.Sprint(s, len(s), cap(s))`, i)
		case 1:
			return fmt.Sprintf(`s := []int{0, 1, 2, 3, 4}; i := %d; s = append(s[:i], append([]int{9}, s[i:]...)...); return fmt.Sprint(s, len(s))`, i)
		case 2:
			return fmt.Sprintf(`s := make([]int, 5, 10); for i := range s { s[i] = i }; i := %d; s = append(s[:i+1], s[i:]...); s[i] = 9; return fmt.Sprint(s, len(s), cap(s))`, i)
		case 3:
			return `var s []string; s = append(s, "a", "b"); t := append(s[:1], "c"); ps := append([]P(nil), P{1, 2}, P{X: 3}); ss := append([][]int{}, []int{1}, nil); return fmt.Sprint(s, t, ps, ss, len(ss))`
		case 4:
			return `b := append([]byte("ab"), "cd"...); b = append(b, 'e'); return fmt.Sprint(string(b), len(b))`
		case 5:
			return fmt.Sprintf(`s := []int{1, 2, 3}; s = append(s, s...); s = append(s[%d:], s[:2]...); return fmt.Sprint(s, len(s))`, i)
		}
		return `var s IS = IS{1, 2}; t := append(s, 3); u := append([]int{0}, s...); var e []interface{}; e = append(e, 1, "a", nil, P{1, 2}); return fmt.Sprint(t, u, e, len(e))`
	}},
	{"copy-variants", func(r *rand.Rand) string {
		i, j := r.Intn(4), r.Intn(4)
		return fmt.Sprintf(`s := []int{1, 2, 3, 4, 5}; n1 := copy(s[%d:], s); t := []int{1, 2, 3, 4, 5}; n2 := copy(t, t[%d:]); a := [4]int{9, 8, 7, 6}; n3 := copy(a[1:], s); var z []int; n4 := copy(z, s); n5 := copy(s, z); ps := make([]P, 2); n6 := copy(ps, []P{{1, 2}, {3, 4}, {5, 6}}); return fmt.Sprint(s, n1, t, n2, a, n3, n4, n5, ps, n6)`, i, j)
	}},
	{"make-variants", func(r *rand.Rand) string {
		switch r.Intn(6) {
		case 0:
			return `var n uint8 = 3; var c int64 = 5; s := make([]int, n, c); m := make(map[string]int, n); m["a"] = 1; t := make([]string, n); return fmt.Sprint(s, len(s), cap(s), m, t, len(t))`
		case 1:
			return `n := -1; pc = 1; s := make([]int, n); return fmt.Sprint(s)`
		case 2:
			return `n, c := 3, 2; pc = 1; s := make([]int, n, c); return fmt.Sprint(len(s), cap(s))`
		case 3:
			return `var n uint64 = 1<<63 + 1; pc = 1; s := make([]int, n); return fmt.Sprint(len(s))`
		case 4:
			return `s := make([][]int, 2); s[0] = make([]int, 1, 4); s[1] = s[0][:2]; s[1][1] = 5; s[0] = append(s[0], 6); return fmt.Sprint(s, len(s[0]), cap(s[1]))`
		}
		return `const n = 2; s := make([]P, n, n+1); m := make(map[P][]int); m[P{1, 2}] = append(m[P{1, 2}], 3); return fmt.Sprint(s, m, len(m))`
	}},
	{"len-cap", func(r *rand.Rand) string {
		return `var ns []int; var nm map[int]int; var np *[5]int; a := [4]int{}; s := a[1:2]; c := make(chan int, 3); str := "héllo"; return fmt.Sprint(len(ns), cap(ns), len(nm), len(np), cap(np), len(a), cap(a), len(s), cap(s), len(c), cap(c), len(str), len(a[:0]), cap(a[2:]), len(&a), cap(&a))`
	}},
	{"compound-element-assign", func(r *rand.Rand) string {
		i := r.Intn(3)
		return fmt.Sprintf(`s := []int{1, 2, 3}; a := [3]uint8{250, 2, 3}; m := map[string]string{"a": "x"}; p := &P{2, 3}; i := %d; s[i] += 10; s[i] <<= 1; a[0] += 10; a[i] *= 3; m["a"] += "y"; m["b"] += "z"; p.X *= 3; p.Y--; s[0], s[2] = s[2], s[0]; i, s[i] = 1, 5; sm := []map[string]int{{}}; sm[0]["k"]++; ms := map[string][]int{"a": {1, 2}}; ms["a"][0] = 5; return fmt.Sprint(s, a, m, *p, i, sm, ms)`, i)
	}},
	{"index-kinds", func(r *rand.Rand) string {
		v := r.Intn(5)
		return fmt.Sprintf(`s := []int{10, 11, 12, 13}; a := [4]int{20, 21, 22, 23}; var i8 int8 = %d; var u16 uint16 = %d; var mi MyInt = %d; var up uintptr = 1; const c8 uint8 = 2; pc = 1; s[i8] = 1; pc = 2; a[u16]++; pc = 3; s[mi] += a[mi]; pc = 4; x := s[up] + a[c8] + s[c8]; pc = 5; t := s[i8:u16+2]; pc = 6; pa := &a; pa[u16] = 7; return fmt.Sprint(s, a, x, t)`, v, v%4, v%4)
	}},
	{"index-wrap", func(r *rand.Rand) string {
		u := r.Intn(3)
		return fmt.Sprintf(`s := make([]int, 300); var u uint8 = %d; pc = 1; s[u-1] = 1; pc = 2; s[u+255] = 2; var w uint64 = 1<<63 + 1; _ = w; return fmt.Sprint(s[:3], s[254:256])`, u)
	}},
	{"slice-sharing", func(r *rand.Rand) string {
		i := 1 + r.Intn(3)
		return fmt.Sprintf(`s := []int{1, 2, 3, 4, 5}; t := s[:%d:%d]; t = append(t, 9); u := s[:%d]; u = append(u, 8); v := s[%d:]; v[0] = 7; w := s[:0]; w = append(w, 6); return fmt.Sprint(s, t, u, v, w, len(t), cap(u))`, i, i, i, i)
	}},
	{"multi-dim", func(r *rand.Rand) string {
		i, j := r.Intn(3), r.Intn(3)
		return fmt.Sprintf(`g := make([][]int, 3); for i := range g { g[i] = make([]int, 3) }; g[%d][%d] = 5; h := g; h[%d][%d]++; row := g[%d]; row = append(row, 1); row[0] = 9; var a [2][2][2]int; a[1][0][1] = 3; b := a; b[1][0][1]++; pc = 1; g[%d][%d+2] = 1; return fmt.Sprint(g, a, b)`, i, j, i, j, i, i, j)
	}},
	{"struct-fields", func(r *rand.Rand) string {
		v := r.Intn(9)
		return fmt.Sprintf(`o := Out{In{[2]int{1, %d}, []int{1}}, &In{}, map[string]In{"k": {S: []int{3}}}}; o2 := o; o2.I.A[0] = 9; o2.I.S[0] = 9; o2.P.A[1] = 9; o.M["k"].S[0] = 8; x := o.M["k"]; x.A[0] = 4; o.M["j"] = x; return fmt.Sprint(o.I, *o.P, o.M, o2.I, len(o.M))`, v)
	}},
	{"slice-of-array-expr", func(r *rand.Rand) string {
		lo, hi := r.Intn(3), 1+r.Intn(4)
		return fmt.Sprintf(`a := [4]int{1, 2, 3, 4}; p := &a; lo, hi := %d, %d; pc = 1; s := a[lo:hi]; pc = 2; t := p[lo:hi:4]; s[0] = 9; q := Q{A: [3]int{5, 6, 7}}; u := q.A[1:]; u[0] = 0; ar := [][3]int{{1, 2, 3}}; v := ar[0][:2]; v[1] = 0; return fmt.Sprint(a, s, t, len(t), cap(t), q.A, ar)`, lo, hi)
	}},
	{"string-slicing-kinds", func(r *rand.Rand) string {
		lo, hi := r.Intn(4), r.Intn(7)
		return fmt.Sprintf(`s := "abcdef"; var lo uint8 = %d; var hi int64 = %d; pc = 1; t := s[lo:hi]; pc = 2; u := s[lo:]; pc = 3; v := s[:hi]; return fmt.Sprint(t, "|", u, "|", v)`, lo, hi)
	}},
	{"interface-elements", func(r *rand.Rand) string {
		return `s := []interface{}{1, "a", nil, P{1, 2}, []int{1}}; m := map[interface{}]int{1: 1, "a": 2, P{1, 2}: 3}; s[0] = 2.5; m[P{1, 2}]++; a := [2]interface{}{}; a[1] = s[3]; n := 0; for _, e := range s { if e != nil { n++ } }; return fmt.Sprint(s, m, a, n, a[1] == s[3])`
	}},
	{"delete-and-len", func(r *rand.Rand) string {
		k := r.Intn(4)
		return fmt.Sprintf(`m := map[int][]int{0: {0}, 1: {1}, 2: {2}}; keys := []int{}; for k := range m { keys = append(keys, k) }; sort.Ints(keys); for _, k := range keys { if k != %d { delete(m, k) } }; delete(m, 77); return fmt.Sprint(m, len(m), keys)`, k)
	}},
	{"struct-literal-forms", func(r *rand.Rand) string {
		v := r.Intn(9)
		return fmt.Sprintf(`q := Q{P: P{1, 2}, A: [3]int{2: %d}}; z := Q{}; pq := &Q{S: []int{1}}; an := struct{ A, B int; C []string }{1, 2, []string{"x"}}; arr := []struct{ K string; V int }{{"a", 1}, {V: 2}}; return fmt.Sprint(q, z.S == nil, z.M == nil, z.A, pq.S, an, arr, q.X, q.P.Y)`, v)
	}},
}
