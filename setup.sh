#!/bin/sh
# Build the framework from files on disk only (offline).
set -e
export GOFLAGS=-mod=mod GOPROXY=off GOSUMDB=off GOTOOLCHAIN=local
cd /verif
mkdir -p bin evidence replay .work
cp /repo/go.sum harness/go.sum
(cd harness && go build -tags verif -o /verif/bin/harness .)
# regenerate every Gen/*.lean from the current /repo before the first lake build
rm -f lean/Gen/*.lean
for p in $(./bin/harness list); do ./bin/harness extract -prop "$p" -repo /repo -gen /verif/lean/Gen; done
(cd lean && lake build GoSpec Model Gen Proofs Props Drv Audit)
