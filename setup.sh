#!/bin/sh
# Build the framework from files on disk only (offline).
set -e
export GOFLAGS=-mod=mod GOPROXY=off GOSUMDB=off GOTOOLCHAIN=local
V=$(cd "$(dirname "$0")" && pwd)
REPO=${VERIF_REPO:-/repo}
cd "$V"
mkdir -p bin evidence replay .work lean/Gen
mkdir -p .work/gomod
sed "s|^replace github.com/cosmos72/gomacro => .*|replace github.com/cosmos72/gomacro => $REPO|" harness/go.mod > .work/gomod/harness.mod
cp "$REPO/go.sum" .work/gomod/harness.sum
(cd harness && go build -modfile="$V/.work/gomod/harness.mod" -tags verif -o "$V/bin/harness" .)
# regenerate every Gen/*.lean from the current repo before the first lake build
rm -f lean/Gen/*.lean
for p in $(./bin/harness list); do ./bin/harness extract -prop "$p" -repo "$REPO" -gen "$V/lean/Gen"; done
# Pre-build everything; a module that fails to build must not stop the setup:
# every check builds (and reports on) its own targets.
(cd lean && lake build Props Drv Audit) || echo "setup: some Lean targets failed to build; the affected checks will report it" >&2
exit 0
