#!/bin/sh
# Build the framework from files on disk only (offline).
set -e
export GOFLAGS=-mod=mod GOPROXY=off GOSUMDB=off GOTOOLCHAIN=local
V=$(cd "$(dirname "$0")" && pwd)
REPO=${VERIF_REPO:-/repo}
cd "$V"
mkdir -p bin evidence replay .work lean/Gen
cp "$REPO/go.sum" harness/go.sum
(cd harness && go mod edit -replace github.com/cosmos72/gomacro="$REPO" && go build -tags verif -o "$V/bin/harness" .)
# regenerate every Gen/*.lean from the current repo before the first lake build
rm -f lean/Gen/*.lean
for p in $(./bin/harness list); do ./bin/harness extract -prop "$p" -repo "$REPO" -gen "$V/lean/Gen"; done
(cd lean && lake build Props Drv Audit)
