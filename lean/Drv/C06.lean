import Model.Frames
import Drv.Common
open Frames Drv

/-! Monitor driver for C06.  The harness translates the real alloc/free/mark event stream of a
    program run by gomacro into operations that name frames by their serial number; this driver
    maps them to the model's root-relative operations, executes `Frames.step true` (the
    PoolMachine) and prints what the model predicts: identity of the frame returned by the
    allocator, whether it came from the pool, the pool size, the flags seen by `freeEnv`,
    whether the frame was pooled and whether its `Ints` were dropped.  `disabled` = the real
    event is not an enabled transition of the model. -/

structure Mon where
  s : State
  n : Nat := 0

def nats (arg : String) : List Nat := (arg.splitOn " ").filterMap (·.toNat?)

def b01 (b : Bool) : String := if b then "1" else "0"

def small (s : State) : Bool := s.clos.length + s.stack.flatten.length + s.pool.length ≤ 40

def invStr (s : State) : String := if small s then " inv=" ++ b01 (poolInvB s) else ""

def findUp (h : List Frame) (c target : Nat) : Nat → Nat → Option Nat
  | 0, _ => none
  | fuel + 1, up =>
    match walkUp h up c with
    | none => none
    | some e => if e == target then some up else findUp h c target fuel (up + 1)

def allocOut (s s' : State) : String :=
  let e := match s'.stack with | (e :: _) :: _ => e | _ => 0
  "id=" ++ toString e ++ " fp=" ++ b01 (s'.pool.length < s.pool.length) ++ " pool=" ++ toString s'.pool.length ++ invStr s'

def freeOut (s s' : State) (e : Nat) : String :=
  let fr := getF s.heap e
  let pooled := s.pool.length < s'.pool.length
  "used=" ++ b01 fr.used ++ " addr=" ++ b01 fr.addr ++ " pooled=" ++ b01 pooled ++ " pool=" ++ toString s'.pool.length ++
    (if pooled then " intsnil=" ++ b01 ((getF s'.heap e).ints.isNone) else "") ++ invStr s'

def stepC06 (m : Mon) (line : String) : Mon × String :=
  let (op, arg) := cut line
  let s := m.s
  let dis : Mon × String := (m, "disabled")
  let go (o : Op) (out : State → String) : Mon × String :=
    match step true s o with
    | none => dis
    | some (s', _) => ({ m with s := s', n := m.n + 1 }, out s')
  match op, nats arg with
  | "reset", _ => ({ s := init }, "ok")
  | "prog", _ => (m, "prog")
  | "call", [o, nb, ni] =>
    match s.clos.idxOf? o with
    | none => dis
    | some k => go (.call k nb ni) (allocOut s)
  | "block", [o, nb, ni] =>
    if cur s == some o then go (.blockEnter nb ni) (allocOut s) else dis
  | "ret", [e] =>
    match s.stack with
    | a :: _ => if a.getLast? == some e then go .ret (fun s' => freeOut s s' e) else dis
    | [] => dis
  | "bexit", [e] =>
    if cur s == some e then go .blockExit (fun s' => freeOut s s' e) else dis
  | "jump", [n] => go (.jumpOut n) (fun s' => "ok pool=" ++ toString s'.pool.length)
  | "unwind", [n] => go (.panicUnwind n) (fun s' => "ok pool=" ++ toString s'.pool.length)
  | "clos", [e] =>
    if cur s == some e then go .makeClosure (fun s' => "ok pool=" ++ toString s'.pool.length ++ " marked=" ++ b01 (getF s.heap e).used) else dis
  | "addr", [e] =>
    match cur s with
    | none => dis
    | some c =>
      match findUp s.heap c e (s.heap.length + 1) 0 with
      | none => dis
      | some up => go (.takeAddr up 0) (fun _ => "ok")
  | "end", _ =>
    (m, "end inv=" ++ b01 (poolInvB s) ++ " pool=" ++ toString s.pool.length ++ " clos=" ++ toString s.clos.length ++
      " ptrs=" ++ toString s.ptrs.length ++ " heap=" ++ toString s.heap.length ++ " depth=" ++ toString s.stack.length)
  | _, _ => (m, "bad-op")

def main : IO Unit := run ({ s := init } : Mon) stepC06
