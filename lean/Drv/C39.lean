import Model.Collect
import Drv.Common
open Collect Drv

/-! Driver for C39.  Ops:
  `ast <d><s> <pkg0> <tokens>`      direct `CollectAst` on one synthesized tree
  `file <d><s> <seed> <descriptor>` one .gomacro file through `gomacro -m -w`
  `dir <d><s> <seed> <descriptor> || <descriptor> ...`  a directory of files -/

def tokOfStr : String → Tok
  | "import" => .import_ | "package" => .package_ | "type" => .type_ | "var" => .var_ | "const" => .const_ | _ => .other
def tokStr : Tok → String
  | .import_ => "import" | .package_ => "package" | .type_ => "type" | .var_ => "var" | .const_ => "const" | .other => "other"

def recvOf : String → Recv
  | "none" => .none | "empty" => .empty | _ => .nonempty

def specOf : String → SpecKind
  | "import" => .importSpec | "type" => .typeSpec | "value" => .valueSpec | _ => .otherSpec

def optName (s : String) : Option String := if s == "-" then none else some s

/-- one leaf token of an `ast` op -/
def leafOf (t : String) : Option Node :=
  match t.splitOn ":" with
  | ["G", tok, id] => some (.genDecl (tokOfStr tok) none id.toNat!)
  | ["GP", name, id] => some (.genDecl .package_ (some name) id.toNat!)
  | ["F", r, id] => some (.funcDecl (recvOf r) id.toNat!)
  | ["SP", k, id] => some (.spec (specOf k) id.toNat!)
  | ["BD", id] => some (.otherDecl id.toNat!)
  | ["A", d, l, id] => some (.assign (d == "d") (l == "i") id.toNat!)
  | ["ST", id] => some (.stmt id.toNat!)
  | ["PE", name, id] => some (.pkgExpr (optName name) id.toNat!)
  | ["U", id] => some (.unaryExpr id.toNat!)
  | ["E", id] => some (.expr id.toNat!)
  | ["O", id] => some (.other id.toNat!)
  | _ => none

/-- parse a token list into trees; `[` opens a slice, `]` closes it.  Fuel = number of tokens. -/
def parseSeq : Nat → List String → Option (List Ast × List String)
  | 0, _ => none
  | _ + 1, [] => some ([], [])
  | _ + 1, "]" :: rest => some ([], "]" :: rest)
  | f + 1, "[" :: rest =>
    match parseSeq f rest with
    | some (inner, "]" :: rest') =>
      (parseSeq f rest').map (fun (more, r) => (Ast.slice inner :: more, r))
    | _ => none
  | f + 1, "BAD" :: rest => (parseSeq f rest).map (fun (more, r) => (Ast.bad :: more, r))
  | f + 1, t :: rest =>
    match leafOf t with
    | some n => (parseSeq f rest).map (fun (more, r) => (Ast.node n :: more, r))
    | none => none

def words (s : String) : List String := (s.splitOn " ").filter (· != "")

def itemStr : Item → String
  | .orig id => "o" ++ toString id
  | .wrapSpec tok id => "w" ++ tokStr tok ++ toString id
  | .wrapDefine id => "d" ++ toString id
  | .wrapExpr id => "e" ++ toString id

def errStr : Option Err → String
  | none => "-"
  | some .badTok => "badTok" | some .badSpec => "badSpec" | some .badNode => "badNode"
  | some .badAst => "badAst" | some .lhsNotIdent => "lhsNotIdent"

def optsOf (s : String) : Opts := ⟨s.toList.getD 0 '0' == '1', s.toList.getD 1 '0' == '1'⟩

def showAst (s : State) (e : Option Err) : String :=
  "pkg=" ++ s.pkg ++ " I=" ++ ",".intercalate (s.imports.map itemStr) ++ " D=" ++ ",".intercalate (s.decls.map itemStr)
    ++ " S=" ++ ",".intercalate (s.stmts.map itemStr) ++ " err=" ++ errStr e

def runAstOp (arg : String) : String :=
  match words arg with
  | o :: pkg :: toks =>
    match parseSeq (toks.length + 1) toks with
    | some ([a], []) =>
      let (s, e) := collectTop (optsOf o) ⟨pkg, [], [], []⟩ a
      showAst s e
    | _ => "bad-tree"
  | _ => "bad-op"

/-! ### file descriptors -/

structure FileAcc where
  next : Nat := 1
  names : List (Nat × String) := []
  tbl : List (Nat × Ast) := []

/-- one descriptor item -> leaves (an item may be several nodes: a macro call is ONE leaf with a table entry) -/
def itemNode (acc : FileAcc) (t : String) : Option (FileAcc × Ast) :=
  let id := acc.next
  let named (n : Node) (label : String) : Option (FileAcc × Ast) :=
    some ({ acc with next := id + 1, names := (id, label) :: acc.names }, .node n)
  match t.splitOn ":" with
  | ["P", name] => named (.genDecl .package_ (some name) id) ""
  | ["I", specs] => named (.genDecl .import_ none id) ("import(" ++ specs ++ ")")
  | ["T", ns] => named (.genDecl .type_ none id) ("type(" ++ ns ++ ")")
  | ["V", ns] => named (.genDecl .var_ none id) ("var(" ++ ns ++ ")")
  | ["C", ns] => named (.genDecl .const_ none id) ("const(" ++ ns ++ ")")
  | ["F", n] => named (.funcDecl .none id) ("func(" ++ n ++ ")")
  | ["M", n] => named (.funcDecl .nonempty id) ("method(" ++ n ++ ")")
  | ["MD", n] => named (.funcDecl .empty id) ("macro(" ++ n ++ ")")
  | ["D", ns] => named (.assign true true id) ("var(" ++ ns ++ ")")
  | ["SV", ns] => named (.spec .valueSpec id) ("var(" ++ ns ++ ")")     -- naked ValueSpec (macro-generated const/var)
  | ["SY", ns] => named (.spec .typeSpec id) ("type(" ++ ns ++ ")")
  | ["SI", ns] => named (.spec .importSpec id) ("import(" ++ ns ++ ")")
  | ["S"] => named (.stmt id) "stmt"
  | ["AS"] => named (.assign false true id) "stmt"
  | ["E"] => named (.expr id) "stmt"
  | _ => none

/-- items of one chunk; `X{` ... `}` = macro call with its expansion -/
def parseItems : Nat → FileAcc → List String → Option (FileAcc × List Ast × List String)
  | 0, _, _ => none
  | _ + 1, acc, [] => some (acc, [], [])
  | _ + 1, acc, "|" :: rest => some (acc, [], "|" :: rest)
  | _ + 1, acc, "}" :: rest => some (acc, [], "}" :: rest)
  | f + 1, acc, "X{" :: rest =>
    let id := acc.next
    match parseItems f { acc with next := id + 1 } rest with
    | some (acc', inner, "}" :: rest') =>
      let acc'' := { acc' with tbl := (id, Ast.slice inner) :: acc'.tbl }
      (parseItems f acc'' rest').map (fun (a, more, r) => (a, Ast.node (.expr id) :: more, r))
    | _ => none
  | f + 1, acc, t :: rest =>
    match itemNode acc t with
    | some (acc', a) => (parseItems f acc' rest).map (fun (a2, more, r) => (a2, a :: more, r))
    | none => none

def parseChunks : Nat → FileAcc → List String → Option (FileAcc × List Chunk)
  | 0, _, _ => none
  | _ + 1, acc, [] => some (acc, [])
  | f + 1, acc, "|" :: rest => parseChunks f acc rest
  | f + 1, acc, "Z" :: rest => (parseChunks f acc rest).map (fun (a, cs) => (a, .forced (.slice []) :: cs))
  | f + 1, acc, "Q" :: rest => (parseChunks f acc rest).map (fun (a, cs) => (a, .quit :: cs))
  | f + 1, acc, "FAIL" :: rest => (parseChunks f acc rest).map (fun (a, cs) => (a, .failed :: cs))
  | f + 1, acc, toks =>
    match parseItems (toks.length + 1) acc toks with
    | some (acc', items, rest) =>
      let a : Ast := match items with | [x] => x | xs => .slice xs
      (parseChunks f acc' rest).map (fun (a2, cs) => (a2, .code a :: cs))
    | none => none

def label (names : List (Nat × String)) (i : Item) : String := (names.lookup (itemId i)).getD "?"

def showFile (names : List (Nat × String)) (s : State) : String :=
  "pkg=" ++ s.pkg ++ " I=" ++ ";".intercalate (s.imports.map (label names)) ++ " D=" ++ ";".intercalate (s.decls.map (label names))
    ++ " S=" ++ toString s.stmts.length

/-- split the token list at "||" -/
def splitFiles (toks : List String) : List (List String) :=
  toks.foldr (fun t acc => if t == "||" then [] :: acc else match acc with | [] => [[t]] | x :: xs => (t :: x) :: xs) [[]]

def runFiles (o : Opts) (unfixed : Bool) (files : List (List String)) : String :=
  let rec go (s : State) (acc : FileAcc) : List (List String) → List String
    | [] => []
    | toks :: rest =>
      match parseChunks (toks.length + 2) acc toks with
      | some (acc', cs) =>
        let s' := if unfixed then evalFileUnfixed (substExpand acc'.tbl) o s cs else evalFile (substExpand acc'.tbl) o s cs
        showFile acc'.names s' :: go s' acc' rest
      | none => ["bad-descriptor"]
  " ## ".intercalate (go State.init {} files)

def runFileOp (arg : String) : String :=
  match words arg with
  | o :: _seed :: toks => runFiles (optsOf o) (o.toList.getD 2 ' ' == 'u') (splitFiles toks)
  | _ => "bad-op"

def stepC39 (_ : Unit) (line : String) : Unit × String :=
  let (op, arg) := cut line
  match op with
  | "ast" => ((), runAstOp arg)
  | "file" => ((), runFileOp arg)
  | "dir" => ((), runFileOp arg)
  | _ => ((), "bad-op")

def main : IO Unit := run () stepC39
