import Model.Debug
import Drv.Common
open Debug Drv

/-- "<depth>[b][y][e]" -/
def parseEvent (s : String) : Event :=
  let digits := s.toList.takeWhile Char.isDigit
  let flags := s.toList.dropWhile Char.isDigit
  { depth := (String.ofList digits).toNat!, bp := flags.contains 'b', syn := flags.contains 'y', fin := flags.contains 'e' }

def parseTrace (s : String) : List Event :=
  if s == "-" then [] else (s.splitOn ",").map parseEvent

def parseScript (s : String) : List Bytes :=
  if s == "-" then [] else (s.splitOn ",").map (fun l => bytes (l.replace "_" " "))

def showOut : Out → String
  | .at i => "A" ++ toString i
  | .bp i => "B" ++ toString i
  | .blind i => "blind@" ++ toString i
  | .killed => "killed"

def stepC19 (_ : Unit) (line : String) : Unit × String :=
  match line.splitOn " " with
  | "run" :: kind :: script :: trace :: _ :: _ =>
    if kind != "D" && kind != "E" then ((), "bad-op") else
    let tr := parseTrace trace
    if tr.any (·.fin) then ((), "end-of-code-in-trace") else
    let lines := parseScript script
    let (outs, fin, _) := runScript (kind == "D") tr lines
    let body := outs.filter (· != .killed) |>.map showOut
    let isBlind := outs.any (fun o => match o with | .blind _ => true | _ => false)
    let isKilled := outs.contains .killed
    let tail :=
      if isBlind then []
      else ["used=" ++ toString fin.p.used, if isKilled then "killed" else "end"]
    ((), " ".intercalate (body ++ tail))
  | _ => ((), "bad-op")

def main : IO Unit := run () stepC19
