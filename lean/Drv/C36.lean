import Model.Complete
import Gen.CompleteKw
import Drv.Common
open Complete Drv

/-! Driver for C36.  Ops (tokens separated by one blank):
  reset <nb> {name ty}* <nt> {name ty}*          builtin scope (outer), empty main scope
  type <name> S <k> {fname anon acc ty}*         named struct type declared in main
  type <name> I <k> m*                           named interface type
  type <name> B                                  other named type
  itype <qualname> (S..|I..|B) <nm> {mname acc}* type of an imported package (table entry only)
  method <typename> <mname>                      explicitly declared method (any receiver)
  var|func|const <name> <ty>                     bind in main
  import <alias> <nb> {name ty}* <nt> {name ty}* import constant in main
  complete <pos> <cp,cp,..|-> [# comment]      pos = cursor as an index in runes (liner)
 ty ::= B | N <typename> | P ty | I <k> m* | X
-/

structure DState where
  st : State
  ids : List (String × Nat)

def cps (s : String) : Str := s.toList.map (·.toNat)
def ofCps (s : Str) : String := String.ofList (s.map Char.ofNat)

def idOf (d : DState) (name : String) : DState × Nat :=
  match d.ids.lookup name with
  | some i => (d, i)
  | none =>
    let i := d.st.tbl.length
    ({ st := { d.st with tbl := d.st.tbl ++ [⟨.basic, []⟩] }, ids := (name, i) :: d.ids }, i)

def takeN {α} (n : Nat) (f : DState → List String → DState × α × List String) :
    DState → List String → DState × List α × List String :=
  fun d ts => Id.run do
    let mut d := d
    let mut ts := ts
    let mut out : Array α := #[]
    for _ in [0:n] do
      let (d', a, ts') := f d ts
      d := d'; ts := ts'; out := out.push a
    return (d, out.toList, ts)

partial def pTy (d : DState) : List String → DState × Ty × List String
  | "X" :: ts => (d, .invalid, ts)
  | "E" :: ts => (d, .iface [cps "Error"], ts)
  | "N" :: n :: ts => let (d, i) := idOf d n; (d, .named i, ts)
  | "P" :: ts => let (d, t, ts) := pTy d ts; (d, .ptr t, ts)
  | "I" :: k :: ts => (d, .iface ((ts.take k.toNat!).map cps), ts.drop k.toNat!)
  | _ :: ts => (d, .basic, ts)     -- "B", "Bs", "Bf", ...: a type without fields and methods
  | [] => (d, .basic, [])

def pField (d : DState) : List String → DState × Field × List String
  | n :: an :: ac :: ts => let (d, t, ts) := pTy d ts; (d, ⟨cps n, an == "1", t, ac == "1"⟩, ts)
  | ts => (d, default, ts)

def pUnder (d : DState) : List String → DState × Under × List String
  | "S" :: k :: ts => let (d, fs, ts) := takeN k.toNat! pField d ts; (d, .struct fs, ts)
  | "I" :: k :: ts => (d, .iface ((ts.take k.toNat!).map cps), ts.drop k.toNat!)
  | "B" :: ts => (d, .basic, ts)
  | ts => (d, .basic, ts)

def pNamedTy (d : DState) : List String → DState × (Str × Ty) × List String
  | n :: ts => let (d, t, ts) := pTy d ts; (d, (cps n, t), ts)
  | ts => (d, ([], .basic), ts)

def pMethod (d : DState) : List String → DState × Method × List String
  | n :: ac :: ts => (d, ⟨cps n, ac == "1"⟩, ts)
  | ts => (d, default, ts)

def pList {α} (f : DState → List String → DState × α × List String) (d : DState) :
    List String → DState × List α × List String
  | k :: ts => takeN k.toNat! f d ts
  | ts => (d, [], ts)

def insertAL {β} (k : Str) (v : β) (l : List (Str × β)) : List (Str × β) :=
  if (l.lookup k).isSome then l.map (fun kv => if kv.1 == k then (k, v) else kv) else l ++ [(k, v)]

def setUnder (tbl : Table) (i : Nat) (u : Under) : Table :=
  tbl.set i ⟨u, (tbl.getD i default).methods⟩

def addMethod (tbl : Table) (i : Nat) (m : Method) : Table :=
  let td := tbl.getD i default
  tbl.set i ⟨td.under, td.methods ++ [m]⟩

def mainBind (st : State) (n : Str) (b : BindV) : State :=
  match st.chain with
  | main :: outer => { st with chain := { main with binds := insertAL n b main.binds } :: outer }
  | [] => st

def mainType (st : State) (n : Str) (t : Ty) : State :=
  match st.chain with
  | main :: outer => { st with chain := { main with types := insertAL n t main.types } :: outer }
  | [] => st

def cl : Classes where
  letter := fun c => c == 201 || c == 233 || c == 955 || c == 19990
  digit := fun c => c == 1635 || c == 2409
  space := fun c => c == 133 || c == 160 || c == 12288

def showAnswer : Answer → String
  | .panic => "panic"
  | .ok h c t => s!"h={h} t={t} c=" ++ ",".intercalate (c.map ofCps)

def empty : DState := ⟨⟨[⟨[], []⟩, ⟨[], []⟩], [], []⟩, []⟩

def stepC36 (d : DState) (line : String) : DState × String :=
  match line.splitOn " " with
  | "reset" :: ts =>
    let d := empty
    let (d, bs, ts) := pList pNamedTy d ts
    let (d, tys, _) := pList pNamedTy d ts
    let outer : Scope := ⟨bs.map (fun (n, t) => (n, BindV.val t)), tys⟩
    ({ d with st := { d.st with chain := [⟨[], []⟩, outer] } }, "ok")
  | "type" :: n :: ts =>
    let (d, i) := idOf d n
    let (d, u, _) := pUnder d ts
    ({ d with st := mainType { d.st with tbl := setUnder d.st.tbl i u } (cps n) (.named i) }, "ok")
  | "itype" :: n :: ts =>
    let (d, i) := idOf d n
    let (d, u, ts) := pUnder d ts
    let (d, ms, _) := pList pMethod d ts
    let tbl := setUnder d.st.tbl i u
    let tbl := tbl.set i ⟨u, ms⟩
    ({ d with st := { d.st with tbl := tbl } }, "ok")
  | ["method", tn, m] =>
    let (d, i) := idOf d tn
    ({ d with st := { d.st with tbl := addMethod d.st.tbl i ⟨cps m, true⟩ } }, "ok")
  | "var" :: n :: ts | "func" :: n :: ts | "const" :: n :: ts =>
    let (d, t, _) := pTy d ts
    ({ d with st := mainBind d.st (cps n) (.val t) }, "ok")
  | "import" :: alias :: _path :: ts =>
    let (d, bs, ts) := pList pNamedTy d ts
    let (d, tys, _) := pList pNamedTy d ts
    let idx := d.st.imports.length
    let st := { d.st with imports := d.st.imports ++ [⟨bs, tys⟩] }
    ({ d with st := mainBind st (cps alias) (.imp idx) }, "ok")
  | "complete" :: pos :: l :: _ =>
    let lineCps : Str := if l == "-" then [] else (l.splitOn ",").map String.toNat!
    (d, showAnswer (interpCompleteWords cl Gen.completeKeywords d.st lineCps pos.toInt!))
  | _ => (d, "bad-op")

def main : IO Unit := run empty stepC36
