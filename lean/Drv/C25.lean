import Drv.Common
import Model.PrintPrec
import Gen.ParseDispatch
/-! Driver for C25: `pp` ops run the model's print / normalize / parse; the differential ops answer `same`. -/
open ParseExpr PrintPrec Gen.ParseDispatch

namespace DrvC25

def forkPrecOf (v : Nat) : Nat :=
  match forkPrecEval.find? (·.1 == v) with
  | some a => a.2
  | none =>
    match forkExtTokens.find? (·.2.1 == v) with
    | some a => a.2.2
    | none => 0

def goTables : Tables :=
  { binPrec := forkPrecOf
    isUnary := fun o => forkUnaryArms.flatten.any fun n => tokNames.idxOf n == o }

/-- Polish notation reader (fuel = number of words) -/
def readTree : Nat → List String → Option (Expr × List String)
  | 0, _ => none
  | _+1, [] => none
  | f+1, w :: ws =>
    if w == "p" then
      match readTree f ws with
      | some (x, r) => some (.paren x, r)
      | none => none
    else if w == "s" then
      match readTree f ws with
      | some (x, r) =>
        match readTree f r with
        | some (.atom n, r') => some (.sel x n, r')
        | _ => none
      | none => none
    else if w == "i" || w == "c" then
      match readTree f ws with
      | some (x, r) =>
        match readTree f r with
        | some (y, r') => some (if w == "i" then .index x y else .call x y, r')
        | none => none
      | none => none
    else if w.startsWith "a" then (w.drop 1).toNat?.map fun n => (.atom n, ws)
    else if w.startsWith "b" then
      match (w.drop 1).toNat?, readTree f ws with
      | some o, some (x, r) =>
        match readTree f r with
        | some (y, r') => some (.bin x o y, r')
        | none => none
      | _, _ => none
    else if w.startsWith "u" then
      match (w.drop 1).toNat?, readTree f ws with
      | some o, some (x, r) => some (.un o x, r)
      | _, _ => none
    else none

def showTok : Tok → String
  | .atom n => s!"a{n}"
  | .op o => s!"o{o}"
  | .lparen => "(" | .rparen => ")" | .lbrack => "[" | .rbrack => "]" | .period => "."

def step (_ : Unit) (line : String) : Unit × String :=
  let (op, rest) := Drv.cut line
  let out :=
    if op == "pp" then
      let ws := (rest.splitOn " ").filter (· != "")
      match readTree (ws.length + 1) ws with
      | some (e, []) =>
        let toks := print goTables e
        let shown := " ".intercalate (toks.map showTok)
        -- the theorem, re-checked at run time on this input
        let n := normalize goTables e
        if validb goTables e && parseExpr goTables toks != some n then shown ++ " => MODEL-INCONSISTENT"
        else shown ++ " => " ++ render n
      | _ => "bad-op"
    else if op == "file" || op == "src" || op == "ext" || op == "tree" then "same"
    else "bad-op"
  ((), out)

end DrvC25

def main : IO Unit := Drv.run () DrvC25.step
