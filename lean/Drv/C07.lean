import Model.Defer
import Drv.Common
open Defer Drv

/-! Driver for C07.  Op line:  `T <cfg> <hint> <tok> <tok> ...`
    cfg  = `s<0|1>m<0|1>`  s: executor saves/restores Run.Panic/PanicFun per frame (repaired code)
                           m: a method value copies its value receiver when it is evaluated
    hint = rendering seed used only by the Go renderer (ignored here)
    toks = e<n> p<v> r s<v> a<v> R V<v> C( ... ) D( ... )  and the sugar
           L<k>,<n>,<base>  (n defers issued by a for loop, kind k)   M<a>,<b> (defer of a method value)
    Output: the event log of `Interp.run cfg`, blank separated:
           e<n>  r-|r<v>  c<result>  and a final P<v> if the panic escapes. -/

structure DCfg where
  save : Bool
  mcopy : Bool

def parseCfg (s : String) : DCfg :=
  { save := s.contains "s1", mcopy := s.contains "m1" }

/-- strict decimal number: digits only, at most 7 -/
def natOf? (s : String) : Option Nat :=
  if s.isEmpty || s.length > 7 || !s.all Char.isDigit then none else s.toNat?

def loopActs (c : DCfg) (k n base : Nat) : List Act :=
  (List.range n).map fun i =>
    match k with
    | 0 => Act.deferFn [.emit (base + n)]
    | 1 => Act.deferFn [.emit (base + i), .addRes (i % 10)]
    | 2 => Act.deferFn [.emit (base + i)]
    | _ => if c.mcopy then Act.deferFn [.emit (base + i)] else Act.deferFn [.emit (base + n - 1)]

/-- parse a body; depth > 0: up to the matching ")".  Unbalanced or unknown input: none. -/
partial def parseBody (c : DCfg) (depth : Nat) : List String → Option (List Act × List String)
  | [] => if depth == 0 then some ([], []) else none
  | t :: ts =>
    if t == ")" then (if depth > 0 then some ([], ts) else none)
    else
      let one (a : List Act) (ts : List String) : Option (List Act × List String) := do
        let (r, ts') ← parseBody c depth ts
        pure (a ++ r, ts')
      if t == "r" then one [.recover] ts
      else if t == "R" then one [.ret] ts
      else if t == "C(" then do
        let (b, ts1) ← parseBody c (depth + 1) ts
        one [.call b] ts1
      else if t == "D(" then do
        let (b, ts1) ← parseBody c (depth + 1) ts
        one [.deferFn b] ts1
      else
        let arg := (t.drop 1).toString
        match t.front with
        | 'e' => do let n ← natOf? arg; one [.emit n] ts
        | 'p' => do let n ← natOf? arg; one [.panic n] ts
        | 's' => do let n ← natOf? arg; one [.setRes n] ts
        | 'a' => do let n ← natOf? arg; one [.addRes n] ts
        | 'V' => do let n ← natOf? arg; one [.retv n] ts
        | 'L' =>
          match arg.splitOn "," with
          | [k, n, b] => do
            let k ← natOf? k; let n ← natOf? n; let b ← natOf? b
            if n > 8 then none else one (loopActs c k n b) ts
          | _ => none
        | 'M' =>
          match arg.splitOn "," with
          | [a, b] => do
            let a ← natOf? a; let b ← natOf? b
            one [.deferFn [.emit (if c.mcopy then a else b)]] ts
          | _ => none
        | _ => none

def showEv : Ev → String
  | .emit n => "e" ++ toString n
  | .recov none => "r-"
  | .recov (some v) => "r" ++ toString v
  | .ret r => "c" ++ toString r

def showRun (p : Option Val) (sh : Sh) : String :=
  let evs := sh.evs.map showEv
  let evs := match p with
    | some v => evs ++ ["P" ++ toString v]
    | none => evs
  let evs := if sh.res.isEmpty then evs else evs ++ ["RESSTACK"]
  " ".intercalate evs

def stepC07 (_ : Unit) (line : String) : Unit × String :=
  match line.splitOn " " with
  | "T" :: cfg :: hint :: toks =>
    let c := parseCfg cfg
    match natOf? hint, parseBody c 0 toks with
    | some _, some (b, _) =>
      let (p, run) := Interp.run { savePanic := c.save } b
      ((), showRun p run.sh)
    | _, _ => ((), "bad-op")
  | "H" :: cfg :: _hint :: toks =>   -- the specification's log (used by tools/tests, not by the harness)
    let c := parseCfg cfg
    match parseBody c 0 toks with
    | some (b, _) =>
      let (p, sh) := Host.run b
      ((), showRun p sh)
    | none => ((), "bad-op")
  | ["Q", name] => ((), "q " ++ name)
  | ["reset"] => ((), "ok")
  | _ => ((), "bad-op")

def main : IO Unit := run () stepC07
