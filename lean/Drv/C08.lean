import Model.Composite
import GoSpec.Heap
import Gen.IndexArms
import Drv.Common
open Composite Drv

/-! Driver for C08: runs the model's executable definitions on the op lines of harness/c08.go. -/

def parseIKind : String → Option IKind
  | "int" => some .int | "int8" => some .int8 | "int16" => some .int16 | "int32" => some .int32
  | "int64" => some .int64 | "uint" => some .uint | "uint8" => some .uint8 | "uint16" => some .uint16
  | "uint32" => some .uint32 | "uint64" => some .uint64 | "uintptr" => some .uintptr
  | "untyped" => some .untyped | _ => none

def parseEKind : String → Option EKind
  | "bool" => some .bool | "int" => some .int | "int8" => some .int8 | "int16" => some .int16
  | "int32" => some .int32 | "int64" => some .int64 | "uint" => some .uint | "uint8" => some .uint8
  | "uint16" => some .uint16 | "uint32" => some .uint32 | "uint64" => some .uint64
  | "uintptr" => some .uintptr | "float32" => some .float32 | "float64" => some .float64
  | "complex64" => some .complex64 | "complex128" => some .complex128 | "string" => some .string
  | "other" => some .other | _ => none

def parseCont : String → Option Cont
  | "slice" => some .slice | "array" => some .array | "parray" => some .parray
  | "nilparray" => some .nilparray | "str" => some .str | "cstr" => some .cstr | _ => none

def parseArg (k cv v : String) : Option Arg := do
  let kind ← parseIKind k
  let val ← v.toInt?
  if cv == "c" then some ⟨kind, true, val⟩ else if cv == "v" then some ⟨kind, false, val⟩ else none

def parseBound (s : String) : Option (Option Arg) :=
  if s == "-" then some none
  else match s.splitOn ":" with
    | [k, cv, v] => (parseArg k cv v).map some
    | _ => none

/-- integer element at position j (harness: c08elemInt) -/
def elemInt (ek : EKind) (j : Nat) : Int :=
  match ek.intInfo with
  | some (true, b) => if j % 2 == 0 then 2 ^ (b - 1) - 1 - j else -(2 ^ (b - 1)) + j
  | some (false, b) => if j % 2 == 0 then 2 ^ b - 1 - j else j
  | none => 0

def elemText (ek : EKind) (j : Nat) : String :=
  match ek with
  | .bool => if j % 2 == 0 then "true" else "false"
  | .float32 => s!"{j}.5"
  | .float64 => s!"{j}.25"
  | .complex64 => s!"({j}.5+1i)"
  | .complex128 => s!"({j}.25+2i)"
  | .string => s!"s{j}"
  | .other => "{" ++ s!"{j} {j+1}" ++ "}"
  | _ => toString (elemInt ek j)

def zeroText (ek : EKind) : String :=
  match ek with
  | .bool => "false"
  | .complex64 | .complex128 => "(0+0i)"
  | .string => ""
  | .other => "{0 0}"
  | _ => "0"

/-- read element j of kind ek through the regenerated arm of `fn` -/
def armRead (fn : ArmFn) (ek : EKind) (j : Nat) : Option String :=
  match findArm Gen.IndexArms.arms fn ek with
  | none => none
  | some a =>
    match ek.intInfo with
    | some _ =>
      -- the arm found may be the default arm (kind other): then the xr.Value is returned as is
      if a.kind = .other then (if a.acc = .none ∧ a.usesIdx then some (toString (elemInt ek j)) else none)
      else ({ a with kind := ek }.readInt (elemInt ek j)).map toString
    | none =>
      if a.acc = accOf a.kind ∧ a.usesIdx ∧ (a.conv = .other ∨ a.conv = a.kind) ∧ a.ret = a.kind then some (elemText ek j)
      else none

def showList (xs : List String) : String := "[" ++ " ".intercalate xs ++ "]"

def letters : List Char := "abcdefghijklmnopqrstuvwxyz".toList

def doIdx (f : List String) : String :=
  match f with
  | [cont, ek, l, _c, ik, cv, v, rw] =>
    match parseCont cont, parseEKind ek, l.toNat?, parseArg ik cv v with
    | some c, some ek, some len, some a =>
      let write := rw == "w"
      let conv : Conv := ⟨if write then Gen.IndexArms.placeConverts else Gen.IndexArms.readConverts,
        Gen.IndexArms.constConvChecks⟩
      match indexOutcome conv c len write a with
      | .cerr => "cerr"
      | .panic => "panic"
      | .ok k =>
        if c = .str ∨ c = .cstr then s!"ok {97 + k}"
        else if write then
          "ok " ++ showList ((List.range len).map (fun j => if j = k then "77" else elemText ek j))
        else
          match armRead (if a.const then .vecConst else .vecVar) ek k with
          | some t => "ok " ++ t
          | none => "panic"
    | _, _, _, _ => "bad-op"
  | _ => "bad-op"

def doMidx (f : List String) : String :=
  match f with
  | [ek, cv, present] =>
    match parseEKind ek with
    | some ek =>
      let fn := if cv == "c" then ArmFn.mapConst else ArmFn.mapVar
      if present == "1" then
        match armRead fn ek 2 with
        | some t => "ok " ++ t
        | none => "panic"
      else
        match findArm Gen.IndexArms.arms fn ek with
        | some a => if a.usesIdx then "ok " ++ zeroText ek else "panic"
        | none => "panic"
    | none => "bad-op"
  | _ => "bad-op"

def doSlc (f : List String) : String :=
  match f with
  | [cont, l, c, lo, hi, mx] =>
    match parseCont cont, l.toNat?, c.toNat?, parseBound lo, parseBound hi, parseBound mx with
    | some ct, some len, some cap, some lo, some hi, some mx =>
      let three := mx.isSome
      match sliceOutcome ⟨Gen.IndexArms.sliceConverts, Gen.IndexArms.constConvChecks⟩ ⟨ct, len, cap, lo, hi, mx, three⟩ with
      | .cerr => "cerr"
      | .panic => "panic"
      | .ok r =>
        if ct = .str ∨ ct = .cstr then
          s!"ok {r.len} \"" ++ String.ofList ((letters.drop r.off).take r.len) ++ "\""
        else
          s!"ok {r.len} {r.cap} " ++ showList ((List.range r.cap).map (fun j => toString (elemInt .int (r.off + j))))
    | _, _, _, _, _, _ => "bad-op"
  | _ => "bad-op"

def parseElt (s : String) : Option Elt :=
  if s == "p" then some .pos
  else if s == "n" then some .nonconst
  else if s.startsWith "k" then
    match (s.drop 1).toString.splitOn ":" with
    | [k, v] => do
      let kind ← parseIKind k
      let key ← v.toInt?
      some (.keyed kind key)
    | _ => none
  else none

def doLit (f : List String) : String :=
  let go (arrLen : Option Nat) (es : List String) (ell : Bool := false) : String :=
    match es.mapM parseElt with
    | none => "bad-op"
    | some elts =>
      let vals : List Int := (List.range elts.length).map (fun (j : Nat) => (100 : Int) + (j : Int))
      -- a literal whose size reflect cannot allocate (MakeSlice / ArrayOf panic, "len out of range")
      -- is a run-time panic; the driver does not build such a list
      match litElements arrLen elts with
      | .error _ => "cerr"
      | .ok (size, _) =>
        -- `[...]T{huge: x}`: Universe.ArrayOf panics while compiling; `[]T{huge: x}`: MakeSlice panics at run time
        if arrLen.isNone ∧ size > 4294967296 then (if ell then "cerr" else "panic")
        else match litValue arrLen elts vals with
          | .error _ => "cerr"
          | .ok xs => s!"ok {xs.length} " ++ showList (xs.map toString)
  match f with
  | "arr" :: n :: es => match n.toNat? with
    | some n => go (some n) es
    | none => "bad-op"
  | "ell" :: es => go none es true
  | "slice" :: es => go none es
  | _ => "bad-op"

/-! ### heap programs run on GoSpec.Heap -/

open GoSpec.Heap in
structure HState where
  heap : Heap := [[0, 0, 0, 0], [0, 0, 0, 0]]
  s : List Slice := [nilSlice, nilSlice, nilSlice, nilSlice]
  n : Int := 0

open GoSpec.Heap in
def HState.get (st : HState) (i : Nat) : Slice := st.s.getD i nilSlice
def HState.set (st : HState) (i : Nat) (x : GoSpec.Heap.Slice) : HState := { st with s := st.s.set i x }

def parseInts (s : String) : Option (List Int) :=
  if s == "" then some [] else (s.splitOn ",").mapM (·.toInt?)

def optInt (s : String) : Option (Option Int) :=
  if s == "_" then some none else s.toInt?.map some

open GoSpec.Heap in
/-- one statement; none = panic -/
def heapStmt (st : HState) (f : List String) : Option HState :=
  match f with
  | ["mk", x, l, c] => do
    let x ← x.toNat?; let l ← l.toInt?; let c ← c.toInt?
    if 0 ≤ l ∧ l ≤ c then
      some ({ st with heap := st.heap ++ [List.replicate c.toNat 0] }.set x ⟨st.heap.length, 0, l.toNat, c.toNat⟩)
    else none
  | ["lit", x, vs] => do
    let x ← x.toNat?; let vs ← parseInts vs
    some ({ st with heap := st.heap ++ [vs] }.set x ⟨st.heap.length, 0, vs.length, vs.length⟩)
  | ["sl", x, y, lo, hi] => do
    let x ← x.toNat?; let y ← y.toNat?; let lo ← optInt lo; let hi ← optInt hi
    let sy := st.get y
    let r ← slice2 sy (lo.getD 0) (hi.getD sy.len)
    some (st.set x r)
  | ["sl3", x, y, lo, hi, mx] => do
    let x ← x.toNat?; let y ← y.toNat?; let lo ← optInt lo; let hi ← hi.toInt?; let mx ← mx.toInt?
    let r ← slice3 (st.get y) (lo.getD 0) hi mx
    some (st.set x r)
  | ["sa", x, a, lo, hi] => do
    let x ← x.toNat?; let a ← a.toNat?; let lo ← optInt lo; let hi ← optInt hi
    let r ← sliceArr st.heap a (lo.getD 0) (hi.getD 4)
    some (st.set x r)
  | ["app", x, y, vs] => do
    let x ← x.toNat?; let y ← y.toNat?; let vs ← parseInts vs
    let (h, r) := append goGrow st.heap (st.get y) vs
    some ({ st with heap := h }.set x r)
  | ["apps", x, y, z] => do
    let x ← x.toNat?; let y ← y.toNat?; let z ← z.toNat?
    let (h, r) := appendSlice goGrow st.heap (st.get y) (st.get z)
    some ({ st with heap := h }.set x r)
  | ["cp", x, y] => do
    let x ← x.toNat?; let y ← y.toNat?
    let (h, n) := copy st.heap (st.get x) (st.get y)
    some { st with heap := h, n := n }
  | ["set", x, i, v] => do
    let x ← x.toNat?; let i ← i.toInt?; let v ← v.toInt?
    let h ← setIndex st.heap (st.get x) i v
    some { st with heap := h }
  | ["seta", a, i, v] => do
    let a ← a.toNat?; let i ← i.toInt?; let v ← v.toInt?
    let h ← setIndex st.heap ⟨a, 0, 4, 4⟩ i v
    some { st with heap := h }
  | ["get", x, i] => do
    let x ← x.toNat?; let i ← i.toInt?
    let v ← index st.heap (st.get x) i
    some { st with n := v }
  | ["asg", a, b] => do
    let a ← a.toNat?; let b ← b.toNat?
    some { st with heap := assignArr st.heap a b }
  | ["nil", x] => do
    let x ← x.toNat?
    some (st.set x nilSlice)
  | _ => none

def heapRun : HState → Nat → List String → Sum Nat HState
  | st, _, [] => .inr st
  | st, k, s :: ss =>
    match heapStmt st (s.splitOn ":") with
    | none => .inl k
    | some st' => heapRun st' (k + 1) ss

open GoSpec.Heap in
def showSlice (h : Heap) (s : Slice) : String :=
  s!"{s.len} {s.cap} " ++ showList ((readBlock (getArr h s.arr) s.off s.cap).map toString)

open GoSpec.Heap in
def doHeap (arg : String) : String :=
  match heapRun {} 0 (arg.splitOn ";") with
  | .inl k => s!"panic@{k}"
  | .inr st =>
    let arr (a : Nat) := showList ((getArr st.heap a).map toString)
    s!"ok {arr 0} {arr 1} {st.n}|" ++ "|".intercalate ((List.range 4).map (fun i => showSlice st.heap (st.get i)))

def stepC08 (_ : Unit) (line : String) : Unit × String :=
  let (op, arg) := cut line
  let f := arg.splitOn " " |>.filter (· ≠ "")
  ((), match op with
    | "idx" => doIdx f
    | "midx" => doMidx f
    | "slc" => doSlc f
    | "lit" => doLit f
    | "heap" => doHeap arg
    | "rich" => "rich"
    | "rej" => "rej"
    | _ => "bad-op")

def main : IO Unit := run () stepC08
