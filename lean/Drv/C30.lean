import Model.Converter
import Drv.Common
open Converter Drv

/-! Driver for C30: parses the `syn` ops of harness/c30syn.go (declarations + objects of a synthetic
    package in the prefix token grammar), runs the converter model from the initial state (the fork
    universe knows `error`) and prints the canonical dump of the converted package in the same
    grammar.  All other ops are judged on the Go side only: "ok". -/

abbrev Toks := List String

def unq (s : String) : String := (s.drop 1).toString

def tnat (s : String) : Nat := s.toNat!

/-- take `n` quoted strings -/
def takeQ : Nat → Toks → List String × Toks
  | 0, ts => ([], ts)
  | n + 1, t :: ts => let (l, r) := takeQ n ts; (unq t :: l, r)
  | _, [] => ([], [])

def ofList : List CTy → CTy
  | [] => .nil
  | a :: l => .cons a (ofList l)

def toList : CTy → List CTy
  | .cons a b => a :: toList b
  | _ => []

mutual
partial def pTy : Toks → CTy × Toks
  | "b" :: k :: n :: ts => (.basic (tnat k) (unq n), ts)
  | "n" :: i :: ts => (.named (tnat i), ts)
  | "tp" :: ts => (.typeparam, ts)
  | "N" :: "arr" :: n :: k :: ts => let (cs, ts) := pTys (tnat k) ts; (.node (.array (tnat n)) (ofList cs), ts)
  | "N" :: "sl" :: k :: ts => let (cs, ts) := pTys (tnat k) ts; (.node .slice (ofList cs), ts)
  | "N" :: "pt" :: k :: ts => let (cs, ts) := pTys (tnat k) ts; (.node .ptr (ofList cs), ts)
  | "N" :: "ch" :: d :: k :: ts => let (cs, ts) := pTys (tnat k) ts; (.node (.chan (tnat d)) (ofList cs), ts)
  | "N" :: "mp" :: k :: ts => let (cs, ts) := pTys (tnat k) ts; (.node .map (ofList cs), ts)
  | "N" :: "sg" :: v :: r :: np :: ts =>
      -- names: receiver (if any), parameters, then results; their number is k (next after the names)
      let rec names (acc : List String) : Toks → List String × Toks
        | t :: ts => if t.startsWith "'" then names (unq t :: acc) ts else (acc.reverse, t :: ts)
        | [] => (acc.reverse, [])
      let (ns, ts) := names [] ts
      match ts with
      | k :: ts => let (cs, ts) := pTys (tnat k) ts; (.node (.sig (v == "1") (r == "1") (tnat np) ns) (ofList cs), ts)
      | [] => (.nil, [])
  | "N" :: "st" :: nf :: ts =>
      let rec fields : Nat → Toks → List (String × String × Bool × String) × Toks
        | 0, ts => ([], ts)
        | n + 1, a :: b :: c :: d :: ts => let (l, r) := fields n ts; ((unq a, unq b, c == "1", unq d) :: l, r)
        | _, _ => ([], [])
      let (fs, ts) := fields (tnat nf) ts
      match ts with
      | k :: ts => let (cs, ts) := pTys (tnat k) ts; (.node (.struct fs) (ofList cs), ts)
      | [] => (.nil, [])
  | "N" :: "if" :: nm :: ts =>
      let rec meths : Nat → Toks → List (String × String) × Toks
        | 0, ts => ([], ts)
        | n + 1, a :: b :: ts => let (l, r) := meths n ts; ((unq a, unq b) :: l, r)
        | _, _ => ([], [])
      let (ms, ts) := meths (tnat nm) ts
      match ts with
      | k :: ts => let (cs, ts) := pTys (tnat k) ts; (.node (.iface ms ms.length) (ofList cs), ts)
      | [] => (.nil, [])
  | ts => (.nil, ts)
partial def pTys : Nat → Toks → List CTy × Toks
  | 0, ts => ([], ts)
  | n + 1, ts => let (t, ts) := pTy ts; let (l, ts) := pTys n ts; (t :: l, ts)
end

partial def pMethods : Nat → Toks → List (String × CTy) × Toks
  | 0, ts => ([], ts)
  | n + 1, name :: ts => let (t, ts) := pTy ts; let (l, ts) := pMethods n ts; ((unq name, t) :: l, ts)
  | _, [] => ([], [])

partial def pDecls : Nat → Toks → List SDecl × Toks
  | 0, ts => ([], ts)
  | n + 1, pkg :: name :: ts =>
      let (u, ts) := pTy ts
      match ts with
      | nm :: ts =>
        let (ms, ts) := pMethods (tnat nm) ts
        let (l, ts) := pDecls n ts
        (⟨unq pkg, unq name, u, ms⟩ :: l, ts)
      | [] => ([], [])
  | _, _ => ([], [])

partial def pObjs : Nat → Toks → List Obj × Toks
  | 0, ts => ([], ts)
  | n + 1, kind :: name :: ts =>
      let (t, ts) := pTy ts
      let (l, ts) := pObjs n ts
      (⟨kind, unq name, t⟩ :: l, ts)
  | _, _ => ([], [])

/-! printing -/

def q (s : String) : String := "'" ++ s
def b01 (b : Bool) : String := if b then "1" else "0"

def labToks : Lab → List String
  | .array n => ["arr", toString n]
  | .slice => ["sl"]
  | .ptr => ["pt"]
  | .chan d => ["ch", toString d]
  | .map => ["mp"]
  | .tuple => ["tu"]
  | .sig v r np ns => ["sg", b01 v, b01 r, toString np] ++ ns.map q
  | .struct fs => ["st", toString fs.length] ++ fs.flatMap fun (a, b, c, d) => [q a, q b, b01 c, q d]
  | .iface ms _ => ["if", toString ms.length] ++ ms.flatMap fun (a, b) => [q a, q b]

structure Dump where
  seen : List Nat
  order : List Nat

partial def dTy (fd : Array FDecl) (t : CTy) (d : Dump) : List String × Dump :=
  match t with
  | .basic k n => (["b", toString k, q n], d)
  | .named fid =>
      let x := fd.getD fid default
      let d := if d.seen.contains fid || x.pkg == "" then d else { seen := fid :: d.seen, order := d.order ++ [fid] }
      (["n", x.pkg ++ "." ++ x.name], d)
  | .typeparam => (["tp"], d)
  | .node lab cs =>
      let l := toList cs
      let (out, d) := l.foldl (fun (acc : List String × Dump) c => let (o, d) := dTy fd c acc.2; (acc.1 ++ o, d)) ([], d)
      (["N"] ++ labToks lab ++ [toString l.length] ++ out, d)
  | .nil => (["nil"], d)
  | .cons _ _ => (["cons"], d)

partial def dDecls (fd : Array FDecl) (i : Nat) (d : Dump) (acc : List String) : List String :=
  match d.order[i]? with
  | none => acc
  | some fid =>
    let x := fd.getD fid default
    let (u, d) := match x.under with
      | some u => dTy fd u d
      | none => (["nil"], d)
    let (ms, d) := x.methods.foldl (fun (acc : List String × Dump) (m : String × CTy) =>
        let (o, d) := dTy fd m.2 acc.2; (acc.1 ++ [q m.1] ++ o, d)) ([], d)
    dDecls fd (i + 1) d (acc ++ ["|", "T", q x.pkg, q x.name] ++ u ++ [toString x.methods.length] ++ ms)

/-- the fork universe: `error` is predeclared -/
def initSt : St :=
  { scope := [(("", "error"), 0)], fdecls := [⟨"", "error", some .nil, []⟩], cache := [], toadd := [] }

def stepC30 (_ : Unit) (line : String) : Unit × String :=
  match line.splitOn " " with
  | "syn" :: rest =>
    let toks := rest.takeWhile (· != "##")
    match toks with
    | nd :: ts =>
      let (env, ts) := pDecls (tnat nd) ts
      match ts with
      | no :: ts =>
        let (objs, _) := pObjs (tnat no) ts
        match convPackage true env 10000 initSt objs with
        | none => ((), "model-none")
        | some (st, os) =>
          let fd := st.fdecls.toArray
          let (out, d) := os.foldl (fun (acc : List String × Dump) o =>
              let (t, d) := dTy fd o.ty acc.2; (acc.1 ++ [o.kind, q o.name] ++ t, d)) ([], ⟨[], []⟩)
          ((), " ".intercalate (dDecls fd 0 d out))
      | [] => ((), "bad-op")
    | [] => ((), "bad-op")
  | _ => ((), "ok")

def main : IO Unit := run () stepC30
