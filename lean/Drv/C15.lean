import Model.Journal
import Drv.Common
open Journal Drv

def itemOf (ws : List String) : Option Item :=
  match ws with
  | ["var", n, t, v] => do pure (.var (← n.toNat?) (← t.toNat?) (← v.toNat?))
  | ["varT", n, t, v] => do pure (.varT (← n.toNat?) (← t.toNat?) (← v.toNat?))
  | ["const", n, t, v] => do pure (.const (← n.toNat?) (← t.toNat?) (← v.toNat?))
  | ["func", n, t, b, ok] => do pure (.func (← n.toNat?) (← t.toNat?) (← b.toNat?) (ok == "ok"))
  | ["typ", t, d] => do pure (.typ (← t.toNat?) (← d.toNat?))
  | ["alias", t, u] => do pure (.alias (← t.toNat?) (← u.toNat?))
  | ["bad", _] => some .bad
  | ["boom"] => some .boom
  | _ => none

def inputOf (arg : String) : Option Input :=
  if arg == "SYNTAX" then some .syntaxError else
  (arg.splitOn "|").mapM (fun s => itemOf (s.splitOn " ")) |>.map .items

def showCls : Cls → String
  | .ivar => "ivar" | .bvar => "bvar" | .const => "const" | .func => "func"

def showOpt : Option Nat → String
  | none => "-"
  | some n => toString n

def showObs : Option Obs → String
  | none => "none"
  | some o =>
    let ty := if o.ty = 0 then "int" else if o.ty = 1 then "string" else if o.ty = 2 then "float64"
              else if o.ty = 3 then "bool" else "T"
    -- a variable whose named type lost its definition cannot be read through its field
    -- an IntBind slot that was never written reads as 0
    let v := if o.cls == .ivar && o.val == none then some 0 else o.val
    let val := if o.typeOk then showOpt v else "-"
    s!"{showCls o.cls} {ty} idx={showOpt o.idx} val={val} typeOk={o.typeOk}"

def stepC15 (s : St) (line : String) : St × String :=
  let (op, arg) := cut line
  match op with
  | "reset" => (St.init, "ok")
  | "in" =>
    match inputOf arg with
    | none => (s, "bad-op")
    | some i =>
      let r := eval Cfg.fixed s i
      (r.1, match r.2 with | .ok => "ok" | .cfail => "cfail" | .panic => "panic")
  | "get" =>
    match arg.toNat? with
    | none => (s, "bad-op")
    | some n => (s, showObs (resolve s n))
  | "gett" =>
    match arg.toNat? with
    | none => (s, "bad-op")
    | some t => (s, match resolveType s t with
      | none => "none"
      | some (_, d) => s!"type def={showOpt d}")
  | "stat" => (s, s!"stat bn={s.nV} ibn={s.nI}")
  | _ => (s, "bad-op")

def main : IO Unit := run St.init stepC15
