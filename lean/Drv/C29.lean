import Model.Universe
import Drv.Common
open TypeId Universe Drv

/-! Driver for C29: runs the universe model on the constructor histories of harness/c29.go.
    `$k` refers to the result of the k-th op line after the last `reset`.  Ops that only the Go-side
    oracle judges (`ty`, `pair`, `impl`, `imp`, `kinds`, `meth`) are answered `ok`. -/

structure St where
  u : U
  res : Array (Option Nat)      -- result (rep index) of every op line of the current history

def ops : Ops := ⟨identB, hash (fun i => UInt32.ofNat (i * 40503 + 7))⟩

def St.ref (s : St) (w : String) : Option Nat :=
  match w.toList with
  | '$' :: ds => (s.res.getD (String.ofList ds).toNat! none)
  | _ => none

def refs (s : St) (w : String) : Option (List Nat) :=
  if w == "-" then some [] else (w.splitOn ",").mapM s.ref

def showOffs (l : List Nat) : String :=
  if l.isEmpty then "f-" else "f" ++ ",".intercalate (l.map toString)

def facts (u : U) (i : Nat) : String :=
  let x := u.rep i
  let rk := if x.r = .forward then "F" else toString (rKind x.r)
  let cmp := if comparable u (u.under.length + 1000) x.g then "1" else "0"
  let extra :=
    if x.kind == 25 then (match x.r with | .node (.struct _) _ => showOffs (rOffsets x.r) | _ => "f?")
    else if x.kind == 17 then (match u.underlying x.g with | .array n _ => "n" ++ toString n | _ => "-")
    else if x.kind == 19 then (match u.underlying x.g with
      | .sig v _ ps rs => "i" ++ toString ps.length ++ "o" ++ toString rs.length ++ "v" ++ (if v then "1" else "0")
      | _ => "-")
    else if x.kind == 18 then (match u.underlying x.g with | .chan d _ => "d" ++ toString (gdirToDir d) | _ => "-")
    else "-"
  "#" ++ toString i ++ " k" ++ toString x.kind ++ " r" ++ rk ++ " s" ++ toString (rSize x.r) ++ " a" ++ toString (rAlign x.r)
    ++ " c" ++ cmp ++ " " ++ extra

def done (s : St) (r : Option (U × Nat)) : St × String :=
  match r with
  | some (u, i) => ({ u := u, res := s.res.push (some i) }, facts u i)
  | none => ({ s with res := s.res.push none }, "ERR")

def parseField (s : St) (w : String) : Option FieldArg :=
  match w.splitOn ":" with
  | [name, pkg, tag, r] =>
    match s.ref r with
    | some t => some ⟨name, if pkg == "" then none else some pkg, tag, t⟩
    | none => none
  | _ => none

def step (s : St) (line : String) : St × String :=
  let bad : St × String := ({ s with res := s.res.push none }, "ERR")
  match line.splitOn " " with
  | ["reset"] => (⟨initU ops, #[]⟩, "ok")
  | ["basic", k] =>
    match basicIndex k.toNat! with
    | some i => done s (some (s.u, i))
    | none => bad
  | ["special", k] => if k.toNat! < 3 then done s (some (s.u, 18 + k.toNat!)) else bad
  | ["arr", n, a] => match s.ref a with | some x => done s (arrayOf ops s.u n.toNat! x) | none => bad
  | ["slice", a] => match s.ref a with | some x => done s (sliceOf ops s.u x) | none => bad
  | ["ptr", a] => match s.ref a with | some x => done s (ptrTo ops s.u x) | none => bad
  | ["chan", d, a] => match s.ref a with | some x => done s (chanOf ops s.u d.toNat! x) | none => bad
  | ["map", a, b] =>
    match s.ref a, s.ref b with
    | some k, some e => done s (mapOf ops s.u k e)
    | _, _ => bad
  | ["func", v, a, b] =>
    match refs s a, refs s b with
    | some ins, some outs => done s (funcOf ops s.u (v == "1") ins outs)
    | _, _ => bad
  | ["struct", fs] =>
    match (if fs == "-" then some [] else (fs.splitOn ";").mapM (parseField s)) with
    | some l => done s (structOf ops s.u l)
    | none => bad
  | ["named", name] => done s (some (namedOf ops s.u name))
  | ["setu", a, b] =>
    match s.ref a, s.ref b with
    | some t, some u =>
      match setUnderlying s.u t u with
      | some u' => ({ u := u', res := s.res.push none }, "ok")
      | none => bad
    | _, _ => bad
  | ["elem", a] => match s.ref a with | some x => done s (elem ops s.u x) | none => bad
  | ["key", a] => match s.ref a with | some x => done s (key ops s.u x) | none => bad
  | ["field", a, i] => match s.ref a with | some x => done s (field ops s.u x i.toNat!) | none => bad
  | ["in", a, i] => match s.ref a with | some x => done s (inp ops s.u x i.toNat!) | none => bad
  | ["out", a, i] => match s.ref a with | some x => done s (outp ops s.u x i.toNat!) | none => bad
  | ["rel", a, b] =>
    match s.ref a, s.ref b with
    | some t, some u => ({ s with res := s.res.push none }, toString (identicalTo ops s.u t u))
    | _, _ => bad
  | _ => (s, "ok")

def main : IO Unit := run (⟨initU ops, #[]⟩ : St) step
