import Model.Eval
import Drv.Common
open Eval Drv

/-! Driver for C16: parses the op grammar of harness/c16.go and prints, for every textual order of
    the op, what one evaluation gives according to the model (sorter model + evaluator). -/

abbrev P := StateT (List String) Option

def tok : P String := do
  match (← get) with
  | [] => failure
  | t :: r => set r; pure t

def num : P Nat := do
  match (← tok).toNat? with
  | some n => pure n
  | none => failure

def int : P Int := do
  match (← tok).toInt? with
  | some n => pure n
  | none => failure

def ident : P String := do pure ("x" ++ toString (← num))

partial def many {α : Type} (p : P α) : Nat → P (List α)
  | 0 => pure []
  | n + 1 => do let a ← p; let r ← many p n; pure (a :: r)

def counted {α : Type} (p : P α) : P (List α) := do many p (← num)

partial def pEx : P Ex := do
  match (← tok) with
  | "l" => do pure (.lit (← int))
  | "r" => do pure (.ref (← ident))
  | "io" => pure .iota
  | "+" => do let a ← pEx; let b ← pEx; pure (.add a b)
  | "*" => do let a ← pEx; let b ← pEx; pure (.mul a b)
  | "a" => do let f ← ident; let args ← counted pEx; pure (.call f args)
  | "m" => do let x ← ident; let m ← ident; let args ← counted pEx; pure (.mcall x m args)
  | "c" => do let t ← ident; let e ← pEx; pure (.conv t e)
  | "let" => do let x ← ident; let a ← pEx; let b ← pEx; pure (.letIn x a b)
  | "if" => do let c ← pEx; let a ← pEx; let b ← pEx; pure (.ite c a b)
  | "fn" => do pure (.fn (← pEx))
  | _ => failure

def pItem : P Item := do
  match (← tok) with
  | "C" => do let x ← ident; let e ← pEx; pure (.const x e)
  | "G" => do
    let xs ← counted ident
    let m ← num
    let t ← (do if m != 0 then do let t ← ident; pure [t] else pure [])
    let e ← pEx
    pure (.group xs t (m == 2) e)
  | "V" => do
    let x ← ident
    let t ← (do if (← num) == 1 then do let t ← ident; pure [t] else pure [])
    let e ← pEx
    pure (.var x t e)
  | "T" => do
    let x ← ident
    let u ← (do if (← num) == 1 then do let t ← ident; pure [t] else pure [])
    pure (.typ x u)
  | "S" => do let x ← ident; let fs ← counted ident; pure (.struct x fs)
  | "F" => do let f ← ident; let ps ← counted ident; let e ← pEx; pure (.func f ps e)
  | "M" => do
    let t ← ident; let r ← ident; let m ← ident
    let ps ← counted ident
    let e ← pEx
    pure (.method t r m ps e)
  | _ => failure

partial def pItems : P (List Item) := do
  if (← get).isEmpty then pure [] else do
    let i ← pItem
    let r ← pItems
    pure (i :: r)

def parsePerm (s : String) : Option (List Nat) := (s.splitOn ",").mapM (·.toNat?)

def parseOp (line : String) : Option (List (List Nat) × List Item) :=
  match line.splitOn " " with
  | "eval" :: np :: rest => do
    let n ← np.toNat?
    let perms ← (rest.take n).mapM parsePerm
    match rest.drop n with
    | "|" :: its => do
      let (items, _) ← pItems.run its
      pure (perms, items)
    | _ => none
  | _ => none

def valueNames : List Item → List String
  | [] => []
  | .const x _ :: r => x :: valueNames r
  | .group xs _ _ _ :: r => xs ++ valueNames r
  | .var x _ _ :: r => x :: valueNames r
  | _ :: r => valueNames r

def showOutcome (names : List String) : Outcome → String
  | .loop => "loop"
  | .error => "error"
  | .values vs => " ".intercalate (names.map fun n => n ++ "=" ++ (match lookup n vs with | some v => toString v | none => "?"))

def stepC16 (_ : Unit) (line : String) : Unit × String :=
  match parseOp line with
  | none => ((), "bad-op")
  | some (perms, items) =>
    let names := valueNames items
    let outs := perms.map fun p =>
      let its := p.filterMap fun i => items[i]?
      let a := showOutcome names (evalItems Dep.Ord.id its)
      let b := showOutcome names (evalItems ⟨fun _ l => l.reverse⟩ its)
      if a == b then a else "MODEL-NONDETERMINISTIC"
    ((), " | ".intercalate outs)

def main : IO Unit := run () stepC16
