import Model.Dep
import Drv.Common
open DepScope Dep Drv

/-! Driver for C17: parses the op grammar of harness/c17.go into the model's AST (children in
    ast2 order) and prints what `Sorter.All()` returns according to the model, under several
    map-iteration orders (all must agree). -/

abbrev P := StateT (List String) Option

def tok : P String := do
  match (← get) with
  | [] => failure
  | t :: r => set r; pure t

def num : P Nat := do
  match (← tok).toNat? with
  | some n => pure n
  | none => failure

def nameOf (k : Nat) : Name := if k == 900 then "_" else if k == 901 then "iota" else "x" ++ toString k

def ident : P Name := do pure (nameOf (← num))

partial def many {α : Type} (p : P α) : Nat → P (List α)
  | 0 => pure []
  | n + 1 => do let a ← p; let r ← many p n; pure (a :: r)

def counted {α : Type} (p : P α) : P (List α) := do many p (← num)

def opt {α : Type} (p : P α) : P (List α) := do
  if (← num) == 1 then do let a ← p; pure [a] else pure []

mutual
partial def pField : P Node := do
  let names ← counted ident
  let t ← pType
  pure (.field names t)

partial def pFType : P (List Node × List Node) := do
  let ps ← counted pField
  let rs ← counted pField
  pure (ps, rs)

partial def pBlock : P (List Node) := counted pStmt

partial def pExpr : P Node := do
  match (← tok) with
  | "i" => do pure (.ident (← ident))
  | "l" => pure (.other [])
  | "s" => do let x ← pExpr; let s ← ident; pure (.sel x s)
  | "b" => do let x ← pExpr; let y ← pExpr; pure (.other [x, y])
  | "a" => do let f ← pExpr; let args ← counted pExpr; pure (.other [f, .other args])
  | "f" => do let (ps, rs) ← pFType; let b ← pBlock; pure (.funcLit ps rs b)
  | "k" => do
    let t ← pType
    let elts ← counted (do
      match (← tok) with
      | "e" => pExpr
      | "kv" => do let k ← pExpr; let v ← pExpr; pure (.kv k v)
      | _ => failure)
    pure (.other [t, .other elts])
  | "n" => do
    -- len([1]T{})
    let t ← pType
    pure (.other [.ident "len", .other [.other [.other [.other [], t], .other []]]])
  | _ => failure

partial def pType : P Node := do
  match (← tok) with
  | "i" => do pure (.ident (← ident))
  | "int" => pure (.ident "int")
  | "p" => do let t ← pType; pure (.other [t])
  | "r" => do let n ← pExpr; let t ← pType; pure (.other [n, t])
  | "m" => do let k ← pType; let v ← pType; pure (.other [k, v])
  | "u" => do let (ps, rs) ← pFType; pure (.funcType ps rs)
  | "st" => do pure (.structType (← counted pField))
  | "it" => do
    let ms ← counted (do let m ← ident; let (ps, rs) ← pFType; pure (Node.field [m] (.funcType ps rs)))
    pure (.structType ms)
  | _ => failure

partial def pSpec : P Spec := do
  let names ← counted ident
  let t ← opt pType
  let vs ← counted pExpr
  pure { names := names, type := t, values := vs }

partial def pStmt : P Node := do
  match (← tok) with
  | "e" => do let e ← pExpr; pure (.other [.other [.ident "_"], .other [e]])
  | "ret" => do pure (.other (← counted pExpr))
  | "blk" => do pure (.scope (← pBlock))
  | "var" => do let s ← pSpec; pure (.localVar s.names s.type s.values)
  | "con" => do let s ← pSpec; pure (.localVar s.names s.type s.values)
  | "typ" => do let n ← ident; let t ← pType; pure (.localType n t)
  | "def" => do
    let names ← counted ident
    let rhs ← counted pExpr
    pure (.define (names.map .ident) rhs)
  | "asg" => do let l ← pExpr; let r ← pExpr; pure (.other [.other [l], .other [r]])
  | "if" => do
    let init ← opt pStmt
    let c ← pExpr
    let b ← pBlock
    let e ← opt pBlock
    pure (.scope (init ++ [c, .scope b] ++ e.map .scope))
  | "for" => do
    let init ← opt pStmt
    let c ← opt pExpr
    let post ← opt pStmt
    let b ← pBlock
    pure (.scope (init ++ c ++ post ++ [.scope b]))
  | "rng" => do
    let d ← num
    let k ← opt pExpr
    let v ← opt pExpr
    let x ← pExpr
    let b ← pBlock
    pure (.range (d == 1) k v x b)
  | "lbl" => do let l ← ident; let s ← pStmt; pure (.labeled l s)
  | "brk" => do pure (.branch (← ident))
  | "sw" => do
    let init ← opt pStmt
    let tag ← opt pExpr
    let clauses ← counted (do
      let es ← counted pExpr
      let ss ← counted pStmt
      pure (Node.scope (es ++ ss)))
    pure (.scope (init ++ tag ++ [.scope clauses]))
  | _ => failure
end

partial def pItem : P Item2 := do
  match (← tok) with
  | "P" => pure .pkg
  | "I" => do pure (.imp (← ident))
  | "S" => do let _ ← pStmt; pure .stmt
  | "X" => do let _ ← pExpr; pure .expr
  | "C" => do pure (.decl (.consts (← counted pSpec)))
  | "V" => do pure (.decl (.vars (← counted pSpec)))
  | "T" => do pure (.decl (.types (← counted (do let n ← ident; let t ← pType; pure (n, t)))))
  | "F" => do
    let n ← ident
    let (ps, rs) ← pFType
    let b ← pBlock
    pure (.decl (.func n ps rs b))
  | "M" => do
    let rn ← ident
    let ptr ← num
    let rt ← ident
    let n ← ident
    let (ps, rs) ← pFType
    let b ← pBlock
    let t : Node := if ptr == 1 then .other [.ident rt] else .ident rt
    pure (.decl (.method [.field [rn] t] n ps rs b))
  | _ => failure

partial def pItems : P (List Item2) := do
  if (← get).isEmpty then pure [] else do
    let i ← pItem
    let r ← pItems
    pure (i :: r)

def parseOp (line : String) : Option (Nat × List Item2) :=
  match line.splitOn " " with
  | "sort" :: reps :: rest => (pItems.run rest).map (fun r => (reps.toNat?.getD 5, r.1))
  | _ => none

def showKind : Kind → String
  | .const => "Const" | .expr => "Expr" | .func => "Func" | .imp => "Import" | .method => "Method"
  | .pkg => "Package" | .stmt => "Stmt" | .type => "Type" | .typeFwd => "TypeFwd" | .var => "Var"
  | .varMulti => "VarMulti"

def showDecl (d : Decl) : String := showKind d.kind ++ ":" ++ d.name ++ "[" ++ ",".intercalate d.deps ++ "]"

def showRes : Option (List Decl) → String
  | none => "loop"
  | some ds => " ".intercalate (ds.map showDecl)

/-- some map iteration orders -/
def rotate {α : Type} (k : Nat) (l : List α) : List α :=
  if l.isEmpty then l else l.drop (k % l.length) ++ l.take (k % l.length)
def riffle {α : Type} (k : Nat) (l : List α) : List α :=
  let n := l.length
  let idx := (List.range n).map (fun i => ((i * 7 + k * 13 + (i * i * (k + 3)) % 11) % 1000003, i))
  let sorted := idx.toArray.qsort (fun a b => a.1 < b.1 || (a.1 == b.1 && a.2 < b.2))
  sorted.toList.filterMap (fun p => l[p.2]?)

def ords : List Ord := [Ord.id, ⟨fun _ l => l.reverse⟩, ⟨fun k l => rotate (k + 1) l⟩, ⟨fun k l => riffle k l⟩,
  ⟨fun k l => (riffle (k * 5 + 1) l).reverse⟩]

def stepC17 (_ : Unit) (line : String) : Unit × String :=
  match parseOp line with
  | none => ((), "bad-op")
  | some (reps, items) =>
    -- as many map iteration orders as the real sorter is run times on this op (2 to 5)
    let rs := (ords.take (max 2 reps)).map (fun o => showRes (Dep.all o (items.length + 1) {} items))
    match rs with
    | [] => ((), "bad-op")
    | r :: rest => if rest.all (· == r) then ((), r) else ((), "MODEL-NONDETERMINISTIC " ++ " | ".intercalate rs)

def main : IO Unit := run () stepC17
