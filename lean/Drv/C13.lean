import Model.Interrupt
import Gen.ExecLoop
import Drv.Common
open Interrupt Drv

/-! Driver for C13.  Ops:
    `reset <shape>`                -> ok
    `run <shape> <K> <desc>`       -> after=.. dafter=.. calls=.. end=interrupt|normal|runaway   (model run with the extracted `Gen.ExecLoop.sites`)
    `async <shape> <delay>`        -> ok   (the model's claim for asynchronous delivery is the bound theorem; nothing to compute)
    `race`                         -> done
    `<desc>` = functions separated by `/`, each `prefix|cycle`, tokens separated by `,`:
    s simple, h hook, g clean-up hook, r return/end, cN call fN, dN defer fN, eN defer fN(hook()), `tok*count`. -/

def parseTok (t : String) : List Stmt :=
  let (b, cnt) := match t.splitOn "*" with
    | [b, n] => (b, n.toNat!)
    | _ => (t, 1)
  let s : Option Stmt :=
    if b == "s" then some .simple
    else if b == "h" then some (.hook false)
    else if b == "g" then some (.hook true)
    else if b == "r" then some .ret
    else if b.startsWith "c" then some (.call (b.drop 1).toNat!)
    else if b.startsWith "d" then some (.dfr (b.drop 1).toNat! false)
    else if b.startsWith "e" then some (.dfr (b.drop 1).toNat! true)
    else none
  match s with
  | some s => List.replicate cnt s
  | none => []

def parsePart (p : String) : Array Stmt :=
  ((p.splitOn ",").flatMap parseTok).toArray

def parseFunc (f : String) : Array Stmt × Array Stmt :=
  match f.splitOn "|" with
  | [a, b] => (parsePart a, parsePart b)
  | [a] => (parsePart a, #[])
  | _ => (#[], #[])

def isDfr : Stmt → Bool
  | .dfr _ _ => true
  | _ => false

def mkProg (desc : String) : Prog :=
  let fs := ((desc.splitOn "/").map parseFunc).toArray
  { body := fun f n =>
      match fs[f]? with
      | none => .ret
      | some (pre, cyc) =>
        if n < pre.size then pre.getD n .ret
        else if cyc.size == 0 then .ret
        else cyc.getD ((n - pre.size) % cyc.size) .ret
    withDefers := fun f =>
      match fs[f]? with
      | none => false
      | some (pre, cyc) => pre.any isDfr || cyc.any isDfr }

def runLoop (P : Prog) : Nat → Cfg → Cfg × String
  | 0, c => (c, "fuel")
  | k + 1, c =>
    if c.after > 1000 then (c, "runaway")
    else match c.stack with
      | [] => (c, if c.panic then "interrupt" else "normal")
      | _ => runLoop P k (step Gen.ExecLoop.sites P c)

def stepC13 (_ : Unit) (line : String) : Unit × String :=
  let (op, arg) := cut line
  match op with
  | "reset" => ((), "ok")
  | "resetopt" => ((), "ok")
  | "runopt" =>
    -- runopt <shape> <K> <mask> <dbg> <desc>: mask 3 = OptDebugger|OptCtrlCEnterDebugger (the interrupt enters the
    -- debugger, not modelled); otherwise `Run.interrupt` stores SigInterrupt and the model applies unchanged
    match arg.splitOn " " with
    | [_, k, mask, _, desc] =>
      if mask == "3" then ((), "end=debugger")
      else
        let P := mkProg desc
        let (c, e) := runLoop P 3000000 (start 0 k.toNat!)
        ((), s!"after={c.after} dafter={c.dafter} calls={c.hooks} end={e}")
    | _ => ((), "bad-op")
  | "async" => ((), "ok")
  | "race" => ((), "done")
  | "run" =>
    match arg.splitOn " " with
    | [_, k, desc] =>
      let P := mkProg desc
      let (c, e) := runLoop P 3000000 (start 0 k.toNat!)
      ((), s!"after={c.after} dafter={c.dafter} calls={c.hooks} end={e}")
    | _ => ((), "bad-op")
  | _ => ((), "bad-op")

def main : IO Unit := run () stepC13
