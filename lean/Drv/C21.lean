import Model.Quasi
import Drv.Sx
import Drv.Common
open MacroExpand Quasi Drv Sx

/-- `(env (v NAME VALUE)...)`: the value each variable evaluates to, already converted to a tree -/
def valOf : SX → Option Tree
  | .paren [.atom "node", t] => toTree t
  | .paren (.atom "list" :: ts) => (ts.mapM toTree).map (fun ts => Tree.list (.other "NodeSlice") .slice "-" .node ts)
  | .paren [.atom "int", .atom n, t] => if n.toInt?.isSome then toTree t else none
  | .paren [.atom "str", .atom _, t] => toTree t
  | .paren [.atom "bool", .atom _, t] => toTree t
  | .paren [.atom "nil"] => some .nil
  | _ => none

def varOf : SX → Option (String × Tree)
  | .paren [.atom "v", .atom name, v] => (valOf v).map (fun t => ("n" ++ name, t))
  | _ => none

/-- the unquoted code of the generated templates is a variable, a `~quote` or again a `~quasiquote` -/
partial def evOf (vars : List (String × Tree)) : Ev := fun body =>
  match body with
  | .list .blockStmt _ _ _ [x] =>
    match unwrap true x with
    | .node .ident _ a _ _ =>
      match vars.find? (·.1 == a) with
      | some (_, t) => .ok t
      | none => .error .malformed
    | .node .unaryExpr c a ss [k] =>
      match bodyOf (.node .unaryExpr c a ss [k]) with
      | .ok b =>
        if a == opQuote then .ok (quoteEval b)
        else if a == opQuasiquote then quasiEval (evOf vars) 100000 b
        else .error .malformed
      | .error e => .error e
    | _ => .error .malformed
  | _ => .error .malformed

def envOf : SX → Option (List (String × Tree))
  | .paren (.atom "env" :: vs) => vs.mapM varOf
  | _ => none

/-- the output is compared without parentheses and without empty statements in blocks -/
partial def norm : Tree → Tree
  | .nil => .nil
  | .node .parenExpr _ _ _ [x] => norm x
  | .node k c a ss ks => .node k c a ss (ks.map norm)
  | .list k c a es ks =>
    let ks' := if k == .blockStmt then ks.filter (fun t => match t with | .node .emptyStmt _ _ _ _ => false | _ => true) else ks
    .list k c a es (ks'.map norm)

def stepC21 (_ : Unit) (line : String) : Unit × String :=
  let (op, rest) := cut line
  let out :=
    if op != "qq" then "bad-op" else
    match readAll rest.toList with
    | some [e, tr] =>
      match envOf e, toTree tr with
      | some vars, some t =>
        match t with
        | .node .unaryExpr _ a _ [_] =>
          match bodyOf t with
          | .ok body =>
            if a == opQuote then "qq " ++ showTree (norm (quoteEval body))
            else if a == opQuasiquote then
              match quasiEval (evOf vars) 100000 body with
              | .ok r => "qq " ++ showTree (norm r)
              | .error _ => "qq err"
            else "bad-op"
          | .error _ => "bad-op"
        | _ => "bad-op"
      | _, _ => "bad-op"
    | _ => "bad-op"
  ((), out)

def main : IO Unit := run () stepC21
