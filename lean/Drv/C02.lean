import GoSpec.Val
import Model.StmtIR
import Model.C02Arms
import Model.C02Dispatch
import Model.Places
import Gen.C02VarOpsA
import Gen.C02VarOpsB
import Gen.C02VarOpsC
import Gen.C02VarOpsD
import Gen.C02VarShifts
import Gen.C02VarSet
import Gen.C02PlaceOps
import Gen.C02PlaceShifts
import Gen.C02PlaceSet
import Gen.C02Assignment
import Drv.Common
import Drv.FloatHW
open GoSpec Drv ClosureIR StmtIR

/-! Driver of C02: `st` lines evaluate the arm the dispatch model selects FROM THE REGENERATED
TABLES (bindings and body) on a synthetic machine (target slot surrounded by garbage, poison
frames); `multi`/`seq` lines run the statement-level model `Places`.  (Value codec copied from
Drv/C01.lean, which defines its own `main` and cannot be imported.) -/

namespace C02Drv

def hexDigit (c : Char) : Option Nat :=
  if '0' ≤ c ∧ c ≤ '9' then some (c.toNat - '0'.toNat)
  else if 'a' ≤ c ∧ c ≤ 'f' then some (c.toNat - 'a'.toNat + 10)
  else none

def parseHex (s : String) : Option Nat :=
  if s.isEmpty then none
  else s.foldl (fun acc c => match acc, hexDigit c with
    | some a, some d => some (a * 16 + d)
    | _, _ => none) (some 0)

def hexBytes : List Char → Option (List UInt8)
  | [] => some []
  | a :: b :: rest => do
    let x ← hexDigit a
    let y ← hexDigit b
    let r ← hexBytes rest
    pure (UInt8.ofNat (x * 16 + y) :: r)
  | _ => none

def decVal (k : Kind) (s : String) : Option Val :=
  match k with
  | .bool => if s == "t" then some (.bool true) else if s == "f" then some (.bool false) else none
  | .float32 => (parseHex s).map (fun n => .f32 (BitVec.ofNat 32 n))
  | .float64 => (parseHex s).map (fun n => .f64 (BitVec.ofNat 64 n))
  | .complex64 =>
    match s.splitOn "_" with
    | [a, b] => do
      let x ← parseHex a
      let y ← parseHex b
      pure (.c64 (BitVec.ofNat 32 x) (BitVec.ofNat 32 y))
    | _ => none
  | .complex128 =>
    match s.splitOn "_" with
    | [a, b] => do
      let x ← parseHex a
      let y ← parseHex b
      pure (.c128 (BitVec.ofNat 64 x) (BitVec.ofNat 64 y))
    | _ => none
  | .string =>
    match s.toList with
    | 's' :: rest => (hexBytes rest).map .str
    | _ => none
  | k =>
    match k.ikind? with
    | some ik => (parseHex s).map (fun n => .int ik (BitVec.ofNat ik.w n))
    | none => none

def hexOfNat (n : Nat) : String := String.ofList (Nat.toDigits 16 n)
def enc32 (b : BitVec 32) : String := if isNaN32 b then "nan" else hexOfNat b.toNat
def enc64 (b : BitVec 64) : String := if isNaN64 b then "nan" else hexOfNat b.toNat
def hex2 (b : UInt8) : String :=
  let d := Nat.toDigits 16 b.toNat
  String.ofList (if d.length < 2 then '0' :: d else d)

def encVal : Val → String
  | .bool b => if b then "t" else "f"
  | .int _ v => hexOfNat v.toNat
  | .f32 b => enc32 b
  | .f64 b => enc64 b
  | .c64 r i => enc32 r ++ "_" ++ enc32 i
  | .c128 r i => enc64 r ++ "_" ++ enc64 i
  | .str s => "s" ++ String.join (s.map hex2)

def panicName : Panic → String
  | .divide => "divide"
  | .negShift => "negShift"

def tables : List SEntry :=
  Gen.C02VarOpsA.varAddConst ++ Gen.C02VarOpsA.varAddExpr ++ Gen.C02VarOpsA.varSubConst ++ Gen.C02VarOpsA.varSubExpr ++
  Gen.C02VarOpsA.varMulConst ++ Gen.C02VarOpsA.varMulExpr ++
  Gen.C02VarOpsB.varQuoPow2 ++ Gen.C02VarOpsB.varQuoConst ++ Gen.C02VarOpsB.varQuoExpr ++ Gen.C02VarOpsB.varRemConst ++ Gen.C02VarOpsB.varRemExpr ++
  Gen.C02VarOpsC.varAndConst ++ Gen.C02VarOpsC.varAndExpr ++ Gen.C02VarOpsC.varOrConst ++ Gen.C02VarOpsC.varOrExpr ++
  Gen.C02VarOpsD.varXorConst ++ Gen.C02VarOpsD.varXorExpr ++ Gen.C02VarOpsD.varAndnotConst ++ Gen.C02VarOpsD.varAndnotExpr ++
  Gen.C02VarShifts.varShlConst ++ Gen.C02VarShifts.varShlExpr ++ Gen.C02VarShifts.varShrConst ++ Gen.C02VarShifts.varShrExpr ++
  Gen.C02VarSet.varSetConst ++ Gen.C02VarSet.varSetExpr ++
  Gen.C02PlaceOps.placeAddConst ++ Gen.C02PlaceOps.placeAddExpr ++ Gen.C02PlaceOps.placeSubConst ++ Gen.C02PlaceOps.placeSubExpr ++
  Gen.C02PlaceOps.placeMulConst ++ Gen.C02PlaceOps.placeMulExpr ++ Gen.C02PlaceOps.placeQuoConst ++ Gen.C02PlaceOps.placeQuoExpr ++
  Gen.C02PlaceOps.placeRemConst ++ Gen.C02PlaceOps.placeRemExpr ++ Gen.C02PlaceOps.placeAndConst ++ Gen.C02PlaceOps.placeAndExpr ++
  Gen.C02PlaceOps.placeOrConst ++ Gen.C02PlaceOps.placeOrExpr ++ Gen.C02PlaceOps.placeXorConst ++ Gen.C02PlaceOps.placeXorExpr ++
  Gen.C02PlaceOps.placeAndnotConst ++ Gen.C02PlaceOps.placeAndnotExpr ++
  Gen.C02PlaceShifts.placeShlConst ++ Gen.C02PlaceShifts.placeShlExpr ++ Gen.C02PlaceShifts.placeShrConst ++ Gen.C02PlaceShifts.placeShrExpr ++
  Gen.C02PlaceShifts.placeQuoPow2 ++ Gen.C02PlaceSet.placeSetConst ++ Gen.C02PlaceSet.placeSetExpr ++
  Gen.C02Assignment.placeForSideEffects

/-! ## machines -/

def garbage : BitVec 64 := 0xA5A5A5A5A5A5A5A5#64

def slotsOf : Val → List (BitVec 64)
  | .bool b => [(garbage &&& ~~~0xFF#64) ||| (if b then 1 else 0)]
  | .int k v => [if k.w < 64 then (garbage <<< k.w) ||| v.setWidth 64 else v.setWidth 64]
  | .f32 b => [(garbage <<< 32) ||| b.setWidth 64]
  | .f64 b => [b]
  | .c64 r i => [(i.setWidth 64 <<< 32) ||| r.setWidth 64]
  | .c128 r i => [r, i]
  | .str _ => [garbage]

def junk : Val := .str [0x21]

def poison : Frame :=
  { ints := [0xDEADBEEFDEADBEEF#64, 0x0123456789ABCDEF#64, 0xFFFFFFFFFFFFFFFF#64, 0x8000000000000001#64],
    vals := [junk, junk, junk] }

structure Shape where
  pl : C02Dispatch.Place
  ids : C02Dispatch.Ids       -- place id (1 if the place has a logging operand), rhs id filled later
  observable : Bool           -- can the place be read after a panic?
  keyPresent : Bool := true

def shapeOf (name : String) (k : Kind) : Option Shape :=
  let ib := k != .string
  let v (upn : Nat) (u : C02Arms.Upn) (ib : Bool) (obs : Bool) : Option Shape :=
    some { pl := .var upn u ib, ids := ⟨0, 0⟩, observable := obs }
  match name with
  | "g" => v 0 .u0 ib true | "gf" => v 1 .u1 ib true | "gc1" => v 2 .u2 ib true | "gc2" => v 3 .file ib true
  | "gb" => v 0 .u0 false true | "gbf" => v 1 .u1 false true | "gbc1" => v 2 .u2 false true | "gbc2" => v 3 .file false true
  | "l" => v 0 .u0 ib false | "c1" => v 1 .u1 ib false | "c2" => v 2 .u2 ib false
  | "c3" => v 3 .loop ib false | "c4" => v 4 .loop ib false
  | "p" | "a" | "s" | "pf" | "n" => some { pl := .mem, ids := ⟨1, 0⟩, observable := true }
  | "f" => some { pl := .mem, ids := ⟨0, 0⟩, observable := true }
  | "m" => some { pl := .map, ids := ⟨1, 0⟩, observable := true }
  | "m0" => some { pl := .map, ids := ⟨1, 0⟩, observable := true, keyPresent := false }
  | "blank" => some { pl := .blank, ids := ⟨0, 0⟩, observable := true }
  | _ => none

def keyK : List UInt8 := [0x6b]

/-- the machine for one run: the target holds `x` -/
def mkMach (sh : Shape) (k : Kind) (x : Val) : Mach :=
  let s1 := Val.zero k
  match sh.pl with
  | .var upn u _ =>
    let fr : Frame := { ints := garbage :: slotsOf x ++ [garbage], vals := [junk, x, junk] }
    let frames := List.replicate upn poison ++ fr :: [poison, poison]
    { frames := frames, fileIdx := (if u == .file then upn else upn + 1), ip := 7, heap := [], maps := [], log := [] }
  | .mem => { frames := [poison, poison], fileIdx := 1, ip := 7, heap := [s1, x, s1], maps := [], log := [] }
  | .map =>
    let mp : GoMap := [([0x61], s1)] ++ (if sh.keyPresent then [(keyK, x)] else []) ++ [([0x7a], s1)]
    { frames := [poison, poison], fileIdx := 1, ip := 7, heap := [], maps := [mp], log := [] }
  | .blank => { frames := [poison, poison], fileIdx := 1, ip := 7, heap := [], maps := [], log := [] }

def readTarget (sh : Shape) (k : Kind) (m : Mach) : Option Val :=
  match sh.pl with
  | .var upn _ ib => if ib then readPtr m k upn 1 else readRef m (.box upn 1)
  | .mem => m.heap[1]?
  | .map => (m.maps[0]?).map (fun g => (mapGet g keyK).getD (Val.zero k))
  | .blank => none

/-- everything but the target, as text (frame condition) -/
def otherSig (sh : Shape) (k : Kind) (m : Mach) : String :=
  let w : Nat := match k with
    | .bool => 8 | .float32 => 32 | .complex128 => 128
    | k => match k.ikind? with | some ik => ik.w | none => 64
  let frameSig (h : Nat) (f : Frame) : String :=
    let ints := f.ints.zipIdx.map fun (b, i) =>
      match sh.pl with
      | .var upn _ true => if h == upn && i == 1 then (if w < 64 then hexOfNat (b >>> w).toNat else "T")
                           else if h == upn && i == 2 && w == 128 then "T" else hexOfNat b.toNat
      | _ => hexOfNat b.toNat
    let vals := f.vals.zipIdx.map fun (v, i) =>
      match sh.pl with
      | .var upn _ false => if h == upn && i == 1 then "T" else encVal v
      | _ => encVal v
    ",".intercalate ints ++ "|" ++ ",".intercalate vals
  let fs := m.frames.zipIdx.map fun (f, h) => frameSig h f
  let heap := m.heap.zipIdx.map fun (v, i) => if sh.pl == .mem && i == 1 then "T" else encVal v
  let maps := m.maps.map fun g => ",".intercalate ((g.filter fun (kk, _) => kk != keyK).map fun (_, v) => encVal v)
  ";".intercalate fs ++ "#" ++ ",".intercalate heap ++ "#" ++ ";".intercalate maps ++ "#" ++ toString m.fileIdx

def logText (l : List Nat) : String :=
  let ds := l.filter (· != 0)
  if ds.isEmpty then "0" else String.join (ds.map toString)

/-! ## one `st` line -/

structure Line where
  aop : C02Dispatch.AOp
  k : Kind
  yk : Kind
  sh : Shape
  rhsMode : String
  c : Option Val

def aopOf (s : String) : Option C02Dispatch.AOp :=
  match s with
  | "SET" => some .set | "INC" => some .inc | "DEC" => some .dec
  | s => (BinOp.ofName s).bind fun op =>
    match op with
    | .add | .sub | .mul | .quo | .rem | .and | .or | .xor | .andNot | .shl | .shr => some (.bin op)
    | _ => none

def isShiftA : C02Dispatch.AOp → Bool
  | .bin op => op.isShift
  | _ => false

/-- is the statement well-typed as far as `setVar`/`setPlace` check before choosing a function? -/
def typeOK (ln : Line) : Bool :=
  match ln.aop with
  | .inc | .dec => true
  | .set => ln.k == ln.yk
  | .bin op => if op.isShift then ln.yk.isInteger else ln.k == ln.yk

/-- the operand outcome handed to the arm as the closure's result (`AsUint64` for shift counts) -/
def rhsOutcome (ln : Line) (y : Val) : Outcome Val :=
  if isShiftA ln.aop then
    match y with
    | .int kc c => if kc.signed && c.msb then .panic .negShift else .ok (.int ⟨64, false⟩ (I.conv kc.signed c 64))
    | v => .ok v
  else .ok y

def compileLine (ln : Line) (ry : Outcome Val) : C02Dispatch.Compiled :=
  if !typeOK ln then .error else
  let ids : C02Dispatch.Ids := ⟨ln.sh.ids.place, if ln.rhsMode == "f" then 2 else 0⟩
  let rhs : C02Dispatch.Operand := match ln.c with
    | some c => .const c
    | none => .expr ln.yk
  C02Dispatch.compile ln.aop ln.k ln.sh.pl rhs ids ry

def sideEffectsArm (isMap : Bool) : Option SEntry :=
  C02Dispatch.findArm tables "placeForSideEffects" [if isMap then "if mapkey != nil" else "not(mapkey != nil)"]

/-- run one value through the compiled statement -/
def runOne (ln : Line) (arm : Option SEntry) (x : Val) (y : Val) : String :=
  let ry := rhsOutcome ln y
  let x := if ln.sh.keyPresent then x else Val.zero ln.k
  let m0 := mkMach ln.sh ln.k x
  let sig0 := otherSig ln.sh ln.k m0
  let render (m : Mach) (p : Option Panic) : String :=
    let v := if ln.sh.pl == .blank then encVal x else match readTarget ln.sh ln.k m with | some v => encVal v | none => "?"
    let fr := if otherSig ln.sh ln.k m == sig0 then "" else "!F"
    match p with
    | none => v ++ "/" ++ logText m.log ++ fr ++ (if m.ip == m0.ip + 1 then "" else "!IP")
    | some p => "P:" ++ panicName p ++ "/" ++ logText m.log ++ "/" ++ (if ln.sh.observable then v else "-") ++ fr
  match compileLine ln ry with
  | .error => "E"
  | .nop => render { m0 with ip := m0.ip + 1 } none
  | .evalRhs =>
    (match ry with
     | .ok _ => render { m0 with ip := m0.ip + 1, log := if ln.rhsMode == "f" then [2] else [] } none
     | .panic p => render m0 (some p))
  | .sideEffects =>
    (match sideEffectsArm (ln.sh.pl == .map) with
     | none => "no-arm"
     | some e =>
       match runArm hwFloat (C02Dispatch.placeStore ln.k (ln.sh.pl == .map) ⟨ln.sh.ids.place, 0⟩) m0 e with
       | .done m => render m none
       | .panic p m => render m (some p)
       | .stuck => "stuck")
  | .arm _ _ st =>
    match arm with
    | none => "no-arm"
    | some e =>
      match runArm hwFloat st m0 e with
      | .done m => render m none
      | .panic p m => render m (some p)
      | .stuck => "stuck"

def stepSt (f : List String) : String :=
  match f with
  | opS :: kS :: plS :: rhsS :: ykS :: cS :: vals =>
    match aopOf opS, Kind.ofName kS, Kind.ofName ykS with
    | some aop, some k, some yk =>
      match shapeOf plS k with
      | none => "bad-op"
      | some sh =>
        let c : Option (Option Val) :=
          if rhsS == "c" then (decVal yk cS).map some
          else if rhsS == "-" || rhsS == "v" || rhsS == "f" then some none else none
        match c with
        | none => "bad-op"
        | some c =>
          if (rhsS == "-") != (aop == .inc || aop == .dec) then "bad-op" else
          let ln : Line := { aop := aop, k := k, yk := yk, sh := sh, rhsMode := rhsS, c := c }
          -- the arm is looked up once per line (it does not depend on the run-time values)
          let arm := match compileLine ln (.ok (Val.zero yk)) with
            | .arm fn labels _ => C02Dispatch.findArm tables fn labels
            | _ => none
          let outs : Option (List String) :=
            if rhsS == "c" || rhsS == "-" then
              vals.mapM fun p => (decVal k p).map fun x => runOne ln arm x ((c.getD (Val.zero yk)))
            else
              vals.mapM fun p => match p.splitOn "," with
                | [a, b] => do
                  let x ← decVal k a
                  let y ← decVal yk b
                  pure (runOne ln arm x y)
                | _ => none
          match outs with
          | none => "bad-op"
          | some outs =>
            if (outs.all (· == "E") && !outs.isEmpty) || (match compileLine ln (.ok (Val.zero yk)) with | .error => true | _ => false) then "E"
            else " ".intercalate outs
    | _, _, _ => "bad-op"
  | _ => "bad-op"

/-! ## `multi` / `seq` lines -/

open Places in
def cellOf (t : String) (d : Nat) : Option (Cell × Nat) :=
  let dd := d % 9 + 1
  match t.toList with
  | ['X'] => some (.var 0, d) | ['Y'] => some (.var 1, d) | ['Z'] => some (.var 2, d) | ['I'] => some (.var 3, d)
  | ['_'] => some (.blank, d)
  | ['A', 'I'] => some (.arrI, d) | ['S', 'I'] => some (.arrI, d)
  | ['A', 'c', c] => if c.isDigit then some (.arrCall dd (c.toNat - '0'.toNat), d + 1) else none
  | ['A', c] => if c.isDigit then some (.arrC (c.toNat - '0'.toNat), d) else none
  | ['S', c] => if c.isDigit then some (.arrC (c.toNat - '0'.toNat), d) else none
  | ['M', 'k', c] => some (.mapCall dd [UInt8.ofNat c.toNat], d + 1)
  | ['M', c] => some (.mapC [UInt8.ofNat c.toNat], d)
  | ['P', c] => if c.isDigit then some (.ptr dd (c.toNat - '0'.toNat), d + 1) else none
  | _ => none

inductive RTok where
  | r (r : Places.Rhs)
  | two (d : Nat)
  | three (d : Nat)

def rhsOf (k : Kind) (t : String) (d : Nat) : Option (RTok × Nat) :=
  let dd := d % 9 + 1
  if t == "two" then some (.two dd, d + 1)
  else if t == "three" then some (.three dd, d + 1)
  else match t.toList with
  | '#' :: 'i' :: rest => (String.ofList rest).toInt?.map fun n => (.r (.const (.int ⟨64, true⟩ (BitVec.ofInt 64 n))), d)
  | '#' :: rest => (decVal k (String.ofList rest)).map fun v => (.r (.const v), d)
  | 'R' :: rest => (cellOf (String.ofList rest) 0).map fun (c, _) => (.r (.call dd c), d + 1)
  | _ => (cellOf t d).map fun (c, d') => (.r (.cell c), d')

structure MStmt where
  lhs : List Places.Cell
  op : String
  rhs : List RTok

def parseCells (ts : List String) (d : Nat) : Option (List Places.Cell × Nat) :=
  ts.foldlM (fun (acc : List Places.Cell × Nat) t => (cellOf t acc.2).map fun (c, d') => (acc.1 ++ [c], d')) ([], d)

def parseRhs (k : Kind) (ts : List String) (d : Nat) : Option (List RTok × Nat) :=
  ts.foldlM (fun (acc : List RTok × Nat) t => (rhsOf k t acc.2).map fun (c, d') => (acc.1 ++ [c], d')) ([], d)

def isOpTok (t : String) : Bool :=
  ["SET", "ADD", "SUB", "MUL", "QUO", "REM", "AND", "OR", "XOR", "AND_NOT", "SHL", "SHR", "INC", "DEC"].contains t

def splitSemi : List String → List (List String)
  | [] => [[]]
  | t :: rest =>
    match splitSemi rest with
    | g :: gs => if t == ";" then [] :: g :: gs else (t :: g) :: gs
    | [] => [[t]]

def parseStmts (k : Kind) (toks : List String) : Option (List MStmt) :=
  let groups := splitSemi toks
  let rec go (gs : List (List String)) (d : Nat) : Option (List MStmt) :=
    match gs with
    | [] => some []
    | g :: rest =>
      let l := g.takeWhile (fun t => !isOpTok t)
      match g.drop l.length with
      | op :: r => do
        let (cs, d1) ← parseCells l d
        let (rs, d2) ← parseRhs k r d1
        let tl ← go rest d2
        pure ({ lhs := cs, op := op, rhs := rs } :: tl)
      | [] => none
  go groups 0

open Places in
/-- one statement on the state, as `Comp.Assign` compiles it -/
def execM (k : Kind) (s : PS) (st : MStmt) : R (PS × Option Panic) :=
  let one : Option Val := C02Dispatch.oneOf k
  match st.op, st.lhs, st.rhs with
  | "INC", [c], [] => (match one with | some o => opAssign hwFloat s c (some .add) (.const o) | none => .error .stuck)
  | "DEC", [c], [] => (match one with | some o => opAssign hwFloat s c (some .sub) (.const o) | none => .error .stuck)
  | "SET", [c], [.r r] => opAssign hwFloat s c none r
  | "SET", lhs, [.two d] => do
    let (ls, s1) ← multiLhs s lhs
    let s2 := { s1 with log := s1.log ++ [d] }
    let vs := [s2.vars[1]?.getD s.zero, s2.vars[0]?.getD s.zero]
    pure (multiStore s2 ls vs, none)
  | "SET", lhs, [.three d] => do
    let (ls, s1) ← multiLhs s lhs
    let s2 := { s1 with log := s1.log ++ [d] }
    let vs := [s2.vars[2]?.getD s.zero, s2.vars[0]?.getD s.zero, s2.vars[1]?.getD s.zero]
    pure (multiStore s2 ls vs, none)
  | "SET", lhs, rhs =>
    let rs := rhs.filterMap fun | .r r => some r | _ => none
    if rs.length != rhs.length || rs.length != lhs.length then .error .stuck
    else
      let allVarConst := lhs.all isVarCell && rs.all (fun | .const _ => true | _ => false)
      if allVarConst then
        -- `canreorder`: one assign1 after the other
        (lhs.zip rs).foldlM (fun (acc : PS × Option Panic) (c, r) => opAssign hwFloat acc.1 c none r) (s, none)
      else match lhs, rs with
        | [c0, c1], [r0, r1] =>
          if (match c0 with | .mapC _ | .mapCall _ _ | .blank => true | _ => false) ||
             (match c1 with | .mapC _ | .mapCall _ _ | .blank => true | _ => false)
          then (assignMulti s lhs rs).map (·, none)
          else (assign2 s c0 c1 r0 r1).map (·, none)
        | _, _ => (assignMulti s lhs rs).map (·, none)
  | opS, [c], [.r r] => (match BinOp.ofName opS with
      | some op => opAssign hwFloat s c (some op) r
      | none => .error .stuck)
  | _, _, _ => .error .stuck

open Places in
def showPS (k : Kind) (s : PS) : String :=
  let v (i : Nat) := encVal (s.vars[i]?.getD s.zero)
  let a (i : Nat) := encVal (s.arr[i]?.getD s.zero)
  let mk (c : Char) := encVal ((Places.mapGet s.map [UInt8.ofNat c.toNat]).getD s.zero)
  let iv := match s.vars[3]? with | some (Val.int _ b) => toString b.toInt | _ => "?"
  let _ := k
  " ".intercalate [v 0, v 1, v 2, iv, a 0, a 1, a 2, mk 'a', mk 'b', mk 'c', toString s.map.length]

def logNum (l : List Nat) : String :=
  toString ((l.foldl (fun acc d => (acc * 10 + d) % 1000000000000000) 0))

open Places in
def runStmts (k : Kind) (s : PS) : List MStmt → (PS × Option String)
  | [] => (s, none)
  | st :: rest => match execM k s st with
    | .ok (s', none) => runStmts k s' rest
    | .ok (s', some p) => (s', some (panicName p))
    | .error (.index s') => (s', some "index")
    | .error .stuck => (s, some "stuck")

def stepMulti (line : String) : String :=
  match line.splitOn " | " with
  | [head, tail] =>
    match head.splitOn " " with
    | _ :: kS :: stor :: i0S :: toks =>
      -- "pstruct": a struct-valued state travelling as strings (the statement-level model is the same)
      match Kind.ofName (if kS == "pstruct" then "string" else kS), i0S.toNat? with
      | some k, some i0 =>
        if !(["G", "T", "B", "L"].contains stor) || i0 > 3 then "bad-op" else
        match parseStmts k (toks.filter (· != "")) with
        | none => "bad-op"
        | some stmts =>
          if stmts.isEmpty || (stor == "T" && stmts.length != 1) then "bad-op" else
          let outs : Option (List String) := (tail.splitOn " ").filter (· != "") |>.mapM fun tup =>
            match (tup.splitOn ",").mapM (decVal k) with
            | some [v0, v1, v2, v3, v4, v5] =>
              let s : Places.PS := { vars := [v0, v1, v2, .int ⟨64, true⟩ (BitVec.ofNat 64 i0)], arr := [v3, v4, v5],
                                     map := [([0x61], v3), ([0x62], v4)], zero := Val.zero k, log := [] }
              let (s', p) := runStmts k s stmts
              some (match p with
                | none => showPS k s' ++ " " ++ logNum s'.log
                | some pc => if stor == "L" then "P:" ++ pc ++ " " ++ logNum s'.log
                             else showPS k s' ++ " " ++ logNum s'.log ++ " P:" ++ pc)
            | _ => none
          match outs with
          | some (o :: os) => " ; ".intercalate (o :: os)
          | _ => "bad-op"
      | _, _ => "bad-op"
    | _ => "bad-op"
  | _ => "bad-op"

/-- `fn <variant> <script>`: assignment to a func-typed variable is seen by every later call -/
def stepFn (f : List String) : String :=
  match f with
  | [variant, script] =>
    if !(["r1", "a1", "r0", "a0"].contains variant) || script.isEmpty then "bad-op" else
    let (ok, _, outs) := script.toList.foldl (fun (acc : Bool × Nat × List String) ch =>
      let (ok, cur, outs) := acc
      match ch with
      | 'a' => (ok, 1, outs)
      | 'b' => (ok, 2, outs)
      | 'c' | 'd' | 'e' => (ok, cur, outs ++ [toString cur])
      | _ => (false, cur, outs)) (true, 1, [])
    if ok then " ".intercalate outs else "bad-op"
  | _ => "bad-op"

/-- `mk <kind> <stor> lhs... = rhs...`: the key / pointer variable K of a place `M[K]` / `*K` is read
    in phase 1 (before any assignment of the statement), whatever its kind -/
def stepMk (f : List String) : String :=
  match f with
  | kind :: stor :: toks =>
    if !(["arr", "str", "ifc", "ptr", "deref"].contains kind) || !(["G", "T", "L"].contains stor) then "bad-op" else
    let lhs := toks.takeWhile (· != "=")
    let rhs := (toks.drop lhs.length).drop 1
    if lhs.length != rhs.length || lhs.length < 2 || lhs.length > 4 || toks.length != 2 * lhs.length + 1 then "bad-op" else
    -- phase 1: every MK place is resolved with the CURRENT key (K = K1 before the statement)
    let kid0 : Nat := 1
    let step (acc : Option (Nat × List (Nat × Nat) × Nat)) (p : String × String) : Option (Nat × List (Nat × Nat) × Nat) :=
      match acc with
      | none => none
      | some (kid, m, x) =>
        let num (r : String) : Option Nat :=
          match r.toList with
          | '#' :: ds => if ds.isEmpty || ds.length > 3 then none else (String.ofList ds).toNat?
          | _ => none
        match p.1 with
        | "K" => (match p.2 with
            | "k1" => some (1, m, x) | "k2" => some (2, m, x) | "k3" => some (3, m, x) | _ => none)
        | "X" => (num p.2).map fun n => (kid, m, n)
        | "MK" => (num p.2).map fun n => (kid, (m.filter (·.1 != kid0)) ++ [(kid0, n)], x)
        | _ => none
    match (lhs.zip rhs).foldl step (some (kid0, [], 0)) with
    | none => "bad-op"
    | some (kid, m, x) =>
      let get (i : Nat) : Nat := ((m.find? (·.1 == i)).map (·.2)).getD 0
      let len := if kind == "deref" then 0 else m.length
      " ".intercalate [toString kid, toString (get 1), toString (get 2), toString (get 3), toString len, toString x]
  | _ => "bad-op"

def step (s : Unit) (line : String) : Unit × String :=
  match (line.splitOn " ").filter (· != "") with
  | "st" :: rest => (s, stepSt rest)
  | "multi" :: _ => (s, stepMulti line)
  | "seq" :: _ => (s, stepMulti line)
  | "fn" :: rest => (s, stepFn rest)
  | "mk" :: rest => (s, stepMk rest)
  | [] => (s, "bad-op")
  | _ => (s, "bad-op")

end C02Drv

def main : IO Unit := Drv.run () C02Drv.step
