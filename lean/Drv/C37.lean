import Model.Cmds
import Drv.Common
open Cmds Drv

def nameOf (s : String) : Name := if s == "\"\"" then [] else bytes s
def showName (n : Name) : String := if n.isEmpty then "\"\"" else ofBytes n

def showRes : Res → String
  | .none => "none"
  | .one n => "one " ++ showName n
  | .ambig ns => "ambig " ++ " ".intercalate (ns.map showName)

def stepC37 (s : State) (line : String) : State × String :=
  let (op, arg) := cut line
  match op with
  | "reset" => (State.empty, "ok")
  | "add" => let (s', r) := add s (nameOf arg); (s', toString r)
  | "del" => let (s', r) := del s (nameOf arg); (s', toString r)
  | "lookup" => (s, showRes (lookup s (nameOf arg)))
  | "list" => (s, " ".intercalate ((list s).map showName))
  | "cmd" =>
    (s, match dispatch s (bytes arg) with
      | .call c a => "call " ++ showName c ++ "|" ++ ofBytes a
      | .evalCode src => "eval " ++ ofBytes src
      | .warnAmbiguous => "ambiguous"
      | .passThrough => "pass " ++ arg)
  | _ => (s, "bad-op")

def main : IO Unit := run State.empty stepC37
