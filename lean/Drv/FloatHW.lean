import GoSpec.Val
/-! Executable `FloatOps` instance for the correspondence drivers: the hardware's IEEE arithmetic
    through Lean's `Float` (binary64) and `Float32` (binary32).  Complex multiplication and
    division follow what the Go compiler emits on amd64:
    * complex128 `*`: `(a*c - b*d, a*d + b*c)`; complex64 `*`: the same formula computed in
      float64 and rounded to float32 once per component (cmd/compile/internal/ssagen, OMUL);
    * complex128 `/`: `runtime.complex128div` (transcribed below); complex64 `/`: operands widened
      to complex128, `complex128div`, result narrowed.
    Not part of any theorem (theorems quantify over every `FloatOps`). -/
namespace Drv
open GoSpec

def f64 (b : BitVec 64) : Float := Float.ofBits (UInt64.ofNat b.toNat)
def b64 (f : Float) : BitVec 64 := BitVec.ofNat 64 f.toBits.toNat
def f32 (b : BitVec 32) : Float32 := Float32.ofBits (UInt32.ofNat b.toNat)
def b32 (f : Float32) : BitVec 32 := BitVec.ofNat 32 f.toBits.toNat

def fInf : Float := 1.0 / 0.0
def signbit (f : Float) : Bool := (b64 f).msb
def copysign (x y : Float) : Float := if signbit y then -(x.abs) else x.abs
def inf2one (f : Float) : Float := copysign (if f.isInf then 1.0 else 0.0) f

/-- runtime.complex128div -/
def complex128div (n m : Float × Float) : Float × Float :=
  let (nr, ni) := n
  let (mr, mi) := m
  let (e, f) :=
    if mr.abs >= mi.abs then
      let ratio := mi / mr
      let denom := mr + ratio * mi
      ((nr + ni * ratio) / denom, (ni - nr * ratio) / denom)
    else
      let ratio := mr / mi
      let denom := mi + ratio * mr
      ((nr * ratio + ni) / denom, (ni * ratio - nr) / denom)
  if e.isNaN && f.isNaN then
    let a := nr; let b := ni; let c := mr; let d := mi
    if (c == 0.0 && d == 0.0) && (!a.isNaN || !b.isNaN) then
      (copysign fInf c * a, copysign fInf c * b)
    else if (a.isInf || b.isInf) && c.isFinite && d.isFinite then
      let a := inf2one a; let b := inf2one b
      (fInf * (a * c + b * d), fInf * (b * c - a * d))
    else if (c.isInf || d.isInf) && a.isFinite && b.isFinite then
      let c := inf2one c; let d := inf2one d
      (0.0 * (a * c + b * d), 0.0 * (b * c - a * d))
    else (e, f)
  else (e, f)

def hwFloat : FloatOps where
  add32 x y := b32 (f32 x + f32 y)
  sub32 x y := b32 (f32 x - f32 y)
  mul32 x y := b32 (f32 x * f32 y)
  div32 x y := b32 (f32 x / f32 y)
  neg32 x := b32 (-(f32 x))
  eq32 x y := f32 x == f32 y
  lt32 x y := decide (f32 x < f32 y)
  le32 x y := decide (f32 x ≤ f32 y)
  add64 x y := b64 (f64 x + f64 y)
  sub64 x y := b64 (f64 x - f64 y)
  mul64 x y := b64 (f64 x * f64 y)
  div64 x y := b64 (f64 x / f64 y)
  neg64 x := b64 (-(f64 x))
  eq64 x y := f64 x == f64 y
  lt64 x y := decide (f64 x < f64 y)
  le64 x y := decide (f64 x ≤ f64 y)
  widen x := b64 (f32 x).toFloat
  narrow x := b32 (f64 x).toFloat32
  cmul64 x y :=
    let a := (f32 x.1).toFloat; let b := (f32 x.2).toFloat
    let c := (f32 y.1).toFloat; let d := (f32 y.2).toFloat
    (b32 (a * c - b * d).toFloat32, b32 (a * d + b * c).toFloat32)
  cdiv64 x y :=
    let z := complex128div ((f32 x.1).toFloat, (f32 x.2).toFloat) ((f32 y.1).toFloat, (f32 y.2).toFloat)
    (b32 z.1.toFloat32, b32 z.2.toFloat32)
  cmul128 x y :=
    let a := f64 x.1; let b := f64 x.2; let c := f64 y.1; let d := f64 y.2
    (b64 (a * c - b * d), b64 (a * d + b * c))
  cdiv128 x y :=
    let z := complex128div (f64 x.1, f64 x.2) (f64 y.1, f64 y.2)
    (b64 z.1, b64 z.2)

def isNaN32 (b : BitVec 32) : Bool := (f32 b).isNaN
def isNaN64 (b : BitVec 64) : Bool := (f64 b).isNaN

end Drv
