import Drv.Common
import Model.ParseTop
import Model.ParseExpr
import Gen.ParseDispatch
/-! Driver for C24: runs the model's executable definitions on the op lines of harness/c24.go. -/
open ParseTop ParseExpr Gen.ParseDispatch

namespace DrvC24

/-- tables as in Props/C24.lean (`ParseTop.forkPrecOf`, `ParseExpr.goTables`), repeated here because Drv modules do
    not import Props -/
def forkPrecOf (v : Nat) : Nat :=
  match forkPrecEval.find? (·.1 == v) with
  | some a => a.2
  | none =>
    match forkExtTokens.find? (·.2.1 == v) with
    | some a => a.2.2
    | none => 0

def stdPrecOf (name : String) : Nat :=
  match stdPrecArms.find? (·.1 == name) with
  | some a => a.2
  | none => if stdPrecDefault == "LowestPrec" then lowestPrec else 99

def goTables : Tables :=
  { binPrec := forkPrecOf
    isUnary := fun o => forkUnaryArms.flatten.any fun n => tokNames.idxOf n == o }

/-- one token per source item: every production consumes exactly the item, without error -/
def itemParsers : Parsers TK Prod :=
  let one (p : Prod) (toks : List TK) : Res TK Prod := { node := p, rest := toks.drop 1, errs := 0 }
  { kind := id, pkg := one .pkg, imp := one .imp, decl := one .decl, stmt := one .stmt }

def showLoop (toks : List TK) : String :=
  let s := forkParse itemParsers toks
  " ".intercalate (s.out.map Prod.name)

def kindOfLetter : Char → TK
  | 'p' => .package | 'i' => .import_ | 'c' => .const_ | 't' => .type_ | 'v' => .var_ | 'f' => .func_ | _ => .other

def parseTok (s : String) : Option Tok :=
  if s == "(" then some .lparen else if s == ")" then some .rparen
  else if s == "[" then some .lbrack else if s == "]" then some .rbrack
  else if s == "." then some .period
  else if s.startsWith "a" then (s.drop 1).toNat?.map Tok.atom
  else if s.startsWith "o" then (s.drop 1).toNat?.map Tok.op
  else none

/-- rendering with the harness's conventions: atoms `aN` -/
def step (_ : Unit) (line : String) : Unit × String :=
  let (main, kinds) := match line.splitOn " | " with
    | [a, b] => (a, b)
    | _ => (line, "")
  let (op, rest) := Drv.cut main
  let out :=
    if op == "prec" then
      match rest.toNat? with
      | some v =>
        let name := tokNames.getD v "?"
        let p := forkPrecOf v
        -- the evaluated table must agree with the source table wherever the token has a name
        if v < tokNames.length && p != stdPrecOf name then s!"p={p} MISMATCH-source-table {stdPrecOf name}" else s!"p={p}"
      | none => "bad-op"
    else if op == "top" then
      let ks := (rest.splitOn " ").filter (· != "") |>.map TK.ofName
      let s := forkParse itemParsers ks
      s!"errs={s.errs} " ++ " ".intercalate (s.out.map Prod.name)
    else if op == "bin" then
      let ws := (rest.splitOn " ").filter (· != "")
      match ws.mapM parseTok with
      | none => "bad-op"
      | some ts =>
        match parseExpr goTables ts with
        | some e => render e
        | none => "none"
    else if op == "file" || op == "src" then
      if kinds == "-" || kinds == "" then "-"
      else showLoop (kinds.toList.map kindOfLetter)
    else "bad-op"
  ((), out)

end DrvC24

def main : IO Unit := Drv.run () DrvC24.step
