import Model.Chan
import Drv.Common
open Chan Drv

/-!
Driver of C10: one line describes a program of one of the families of `Model/Chan.lean`; the model is
run under three schedules (always the first enabled action, always the last, a pseudo-random stream)
with the fuel bound proved sufficient in Props/C10.lean, and the outcome is printed (`ok <result>`).
`MODEL-NONDET` would mean that two schedules disagree (excluded by the theorems).
-/

def getArg (args : List (String × String)) (k : String) : Option String := args.lookup k

def parseArgs (fs : List String) : List (String × String) :=
  fs.filterMap (fun kv => match kv.splitOn "=" with
    | [k, v] => some (k, v)
    | _ => none)

def parseInts (s : String) : Option (List Int) :=
  if s == "" then some []
  else (s.splitOn ",").mapM (fun x => match x.toInt? with
    | some n => if n < -1000 || n > 1000 then none else some n
    | none => none)

def parseLists (s : String) : Option (List (List Int)) :=
  match (s.splitOn ";").mapM parseInts with
  | some l => if l.length ≤ 8 then some l else none
  | none => none

def parseNat (s : String) (hi : Nat) : Option Nat :=
  match s.toNat? with
  | some n => if n ≤ hi then some n else none
  | none => none

def lcg (seed : Nat) (i : Nat) : Nat := ((seed + i + 1) * 1103515245 + 12345) / 65536 % 32768

def scheds : List (Nat → Nat) := [fun _ => 0, fun _ => 1000003, lcg 17]

def showInts (l : List Int) : String := "[" ++ " ".intercalate (l.map toString) ++ "]"

/-- all finished runs must agree; a run that did not finish within the fuel (possible only for the
    polling select, whose default branch can be chosen forever) is ignored -/
def agree (rs : List (Option String)) : String :=
  match rs.filterMap id with
  | [] => "NO-RESULT"
  | r :: rest => if rest.all (· == r) then "ok " ++ r else "MODEL-NONDET " ++ " | ".intercalate (r :: rest)

def stepC10 (_ : Unit) (line : String) : Unit × String :=
  let fs := (line.splitOn " ").filter (· != "")
  match fs with
  | [] => ((), "bad-op")
  | fam :: rest =>
    let a := parseArgs rest
    let out : String :=
      match fam with
      | "fanin" =>
        match (getArg a "cap").bind (parseNat · 64), (getArg a "lists").bind parseLists with
        | some k, some ls =>
          let fuel := 2 * lenLL ls + ls.length + 2
          agree (scheds.map (fun sc => (FanIn.result (FanIn.sys.run sc fuel 0 (FanIn.init k ls))).map toString))
        | _, _ => "bad-op"
      | "pipe" =>
        match (getArg a "caps").bind parseInts, (getArg a "f").bind parseInts, (getArg a "g").bind parseInts,
              (getArg a "vals").bind parseInts with
        | some [k0, k1, k2], some [fa, fb], some [ga, gb], some vals =>
          if k0 < 0 || k1 < 0 || k2 < 0 || k0 > 64 || k1 > 64 || k2 > 64 then "bad-op" else
          let fuel := 6 * vals.length + 4
          agree (scheds.map (fun sc => (Pipe2.result (Pipe2.sys.run sc fuel 0
            (Pipe2.init ⟨fa, fb⟩ ⟨ga, gb⟩ k0.toNat k1.toNat k2.toNat vals))).map showInts))
        | _, _, _, _ => "bad-op"
      | "mutex" =>
        match (getArg a "lists").bind parseLists with
        | some ls =>
          let fuel := 4 * lenLL ls + 1
          agree (scheds.map (fun sc => (Mutex.result (Mutex.sys.run sc fuel 0 (Mutex.init true ls))).map toString))
        | none => "bad-op"
      | "merge" =>
        match getArg a "def", (getArg a "caps").bind parseInts, (getArg a "la").bind parseInts, (getArg a "lb").bind parseInts with
        | some d, some [ka, kb], some la, some lb =>
          if (d != "0" && d != "1") || ka < 0 || kb < 0 || ka > 64 || kb > 64 then "bad-op" else
          let fuel := 4 * (2 * (la.length + lb.length) + 5)
          agree (scheds.map (fun sc => (Merge.result (Merge.sys.run sc fuel 0
            (Merge.init (d == "1") ka.toNat kb.toNat la lb))).map toString))
        | _, _, _, _ => "bad-op"
      | "shsel" =>
        match (getArg a "r").bind (parseNat · 16), getArg a "sync", (getArg a "lists").bind parseLists with
        | some r, some sy, some ls =>
          if (sy != "bar" && sy != "yield" && sy != "none") || ls.isEmpty || ls.any (fun l => l.length < r) then "bad-op" else
          let fuel := 2 * r * ls.length
          agree (scheds.map (fun sc => (SelN.result (SelN.sys.run sc fuel 0 (SelN.init false r ls))).map
            (fun res => "[" ++ " ".intercalate (res.map showInts) ++ "]")))
        | _, _, _ => "bad-op"
      | "calls" =>
        match (getArg a "lists").bind parseLists with
        | some ls =>
          -- the nested goroutines (one per even delta and one per worker's c10risky call, each adding 1) are workers of the mutex model from the start:
          -- a worker that exists earlier only adds interleavings
          let extra := (ls.flatten.filter (fun d => d % 2 == 0)).map (fun _ => [(1 : Int)]) ++ ls.map (fun _ => [(1 : Int)])
          let all := ls ++ extra
          let fuel := 4 * lenLL all + 1
          let rec_ := (ls.filter (fun l => l.length % 2 == 1)).length
          agree (scheds.map (fun sc => (Mutex.result (Mutex.sys.run sc fuel 0 (Mutex.init true all))).map
            (fun c => toString c ++ " " ++ toString rec_ ++ " 0")))
        | none => "bad-op"
      | "f20" => "ok"        -- compile-while-running: outside the model (see notes/C10.md)
      | "f20child" => "ok"
      | _ => "bad-op"
    ((), out)

def main : IO Unit := run () stepC10
