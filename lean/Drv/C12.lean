import Model.Restore
import Gen.ExecLoop
import Gen.RunFields
import Drv.Common
open Restore Drv

/-! Driver for C12.  Ops:
    `reset`                       -> ok          (fresh interpreter)
    `eval <K> <F|T> <desc>`       -> out=.. log=.. snap=..   (one evaluation in the same interpreter; the hook
                                     panics at its K-th call of this evaluation, 0 = never; F: expression f0(),
                                     T: the statements of f0 as top-level code)
    `resetd`                      -> ok          (fresh interpreter with OptDebugger and a scripted debugger)
    `evald <K> <F|T> <desc>`      -> as eval, but started with Interp.Debug (single-step mode)
    `battery`                     -> same
    `<desc>` = functions f0/f1/... separated by `/`, statements separated by `,`:
    pN pad (N simple statements), h hook, cN call fN, dN defer fN(), r recover(), xV panic(V), tN try(fN). -/

def parseOp (t : String) : List Op :=
  if t == "h" then [.hook]
  else if t == "r" then [.recover]
  else if t.startsWith "p" then [.pad (t.drop 1).toNat!]
  else if t.startsWith "c" then [.call (t.drop 1).toNat!]
  else if t.startsWith "d" then [.dfr (t.drop 1).toNat!]
  else if t.startsWith "x" then [.panic (t.drop 1).toNat!]
  else if t.startsWith "t" then [.try_ (t.drop 1).toNat!]
  else []

def mkProg (desc : String) (K : Nat) : Prog :=
  let fs := ((desc.splitOn "/").map fun f => (f.splitOn ",").flatMap parseOp).toArray
  { body := fun f => fs.getD f [], K := K,
    savesPanic := Gen.RunFields.savesPanic,
    U := { rounds := Gen.ExecLoop.fast.rounds, chain := Gen.ExecLoop.fast.chain, spin := Gen.ExecLoop.fast.spin } }

def optS (o : Option Nat) : String := match o with | none => "n" | some _ => "x"

def snap (s : St) : String :=
  let r := s.run
  let b (x : Bool) := if x then "1" else "0"
  let pf := match r.panicFun with | none => "n" | some 0 => "t" | some _ => "f"
  let inr := match r.interrupt with | .nil => "n" | .spin => "s"
  s!"es={b r.efStart} ed={b r.efDefer} dof={optS r.deferOfFun} pf={pf} pv={r.panicVal.getD 0} ce={optS r.currEnv} in={inr} dbg={b r.efDebug} dd={if r.debugDepth then "M" else "0"} sd={b r.sigDebug} at={b s.atc}"

def stepC12 (s : St) (line : String) : St × String :=
  let (op, arg) := cut line
  match op with
  | "reset" => ({}, "ok")
  | "resetd" => ({}, "ok")
  | "battery" => (s, "same")
  | "eval" | "evald" =>
    match arg.splitOn " " with
    | [k, kind, desc] =>
      let P := mkProg desc k.toNat!
      let s0 := { s with hooks := 0, log := [], atc := false }
      let (o, s1) := evalTop P 100000 (op == "evald") (if kind == "T" then .topCode else .callF) 0 s0
      let os := match o with | .ok => "ok" | .panic v => s!"panic {v}"
      (s1, s!"out={os} log={",".intercalate (s1.log.reverse.map toString)} {snap s1}")
    | _ => (s, "bad-op")
  | _ => (s, "bad-op")

def main : IO Unit := run ({} : St) stepC12
