import GoSpec.Val
import Drv.Common
import Drv.FloatHW
open GoSpec Drv

namespace C01Drv

def hexDigit (c : Char) : Option Nat :=
  if '0' ≤ c ∧ c ≤ '9' then some (c.toNat - '0'.toNat)
  else if 'a' ≤ c ∧ c ≤ 'f' then some (c.toNat - 'a'.toNat + 10)
  else none

def parseHex (s : String) : Option Nat :=
  if s.isEmpty then none
  else s.foldl (fun acc c => match acc, hexDigit c with
    | some a, some d => some (a * 16 + d)
    | _, _ => none) (some 0)

def hexBytes : List Char → Option (List UInt8)
  | [] => some []
  | a :: b :: rest => do
    let x ← hexDigit a
    let y ← hexDigit b
    let r ← hexBytes rest
    pure (UInt8.ofNat (x * 16 + y) :: r)
  | _ => none

def decVal (k : Kind) (s : String) : Option Val :=
  match k with
  | .bool => if s == "t" then some (.bool true) else if s == "f" then some (.bool false) else none
  | .float32 => (parseHex s).map (fun n => .f32 (BitVec.ofNat 32 n))
  | .float64 => (parseHex s).map (fun n => .f64 (BitVec.ofNat 64 n))
  | .complex64 =>
    match s.splitOn "_" with
    | [a, b] => do
      let x ← parseHex a
      let y ← parseHex b
      pure (.c64 (BitVec.ofNat 32 x) (BitVec.ofNat 32 y))
    | _ => none
  | .complex128 =>
    match s.splitOn "_" with
    | [a, b] => do
      let x ← parseHex a
      let y ← parseHex b
      pure (.c128 (BitVec.ofNat 64 x) (BitVec.ofNat 64 y))
    | _ => none
  | .string =>
    match s.toList with
    | 's' :: rest => (hexBytes rest).map .str
    | _ => none
  | k =>
    match k.ikind? with
    | some ik => (parseHex s).map (fun n => .int ik (BitVec.ofNat ik.w n))
    | none => none

def hexOfNat (n : Nat) : String := String.ofList (Nat.toDigits 16 n)

def enc32 (b : BitVec 32) : String := if isNaN32 b then "nan" else hexOfNat b.toNat
def enc64 (b : BitVec 64) : String := if isNaN64 b then "nan" else hexOfNat b.toNat

def hex2 (b : UInt8) : String :=
  let d := Nat.toDigits 16 b.toNat
  String.ofList (if d.length < 2 then '0' :: d else d)

def encVal : Val → String
  | .bool b => if b then "t" else "f"
  | .int _ v => hexOfNat v.toNat
  | .f32 b => enc32 b
  | .f64 b => enc64 b
  | .c64 r i => enc32 r ++ "_" ++ enc32 i
  | .c128 r i => enc64 r ++ "_" ++ enc64 i
  | .str s => "s" ++ String.join (s.map hex2)

def encOutcome : Option (Outcome Val) → String
  | none => "E"
  | some (.ok v) => encVal v
  | some (.panic .divide) => "P:divide"
  | some (.panic .negShift) => "P:negShift"

/-- Go constants have no negative zero (constant folding normalises it) -/
def noNegZero : Val → Val
  | .f32 b => if b == 0x80000000#32 then .f32 0 else .f32 b
  | .f64 b => if b == 0x8000000000000000#64 then .f64 0 else .f64 b
  | .c64 r i => .c64 (if r == 0x80000000#32 then 0 else r) (if i == 0x80000000#32 then 0 else i)
  | .c128 r i => .c128 (if r == 0x8000000000000000#64 then 0 else r) (if i == 0x8000000000000000#64 then 0 else i)
  | v => v

def mapOk (f : Val → Val) : Option (Outcome Val) → Option (Outcome Val)
  | some (.ok v) => some (.ok (f v))
  | o => o

def stepBin (f : List String) : String :=
  match f with
  | opS :: xkS :: ykS :: shape :: _stor :: consts :: vals =>
    match BinOp.ofName opS, Kind.ofName xkS, Kind.ofName ykS with
    | some op, some xk, some yk =>
      let defined := op.definedOn xk && (if op.isShift then yk.isInteger else xk == yk)
      if !defined then "E" else
      let rk := op.resultKind xk
      let pairs : Option (List (Val × Val)) :=
        match shape with
        | "vv" => vals.mapM (fun p => match p.splitOn "," with
            | [a, b] => do pure ((← decVal xk a), (← decVal yk b))
            | _ => none)
        | "vc" => do
            let c ← decVal yk consts
            vals.mapM (fun p => do pure ((← decVal xk p), c))
        | "cv" => do
            let c ← decVal xk consts
            vals.mapM (fun p => do pure (c, (← decVal yk p)))
        | "cc" => match consts.splitOn "," with
            | [a, b] => do pure [((← decVal xk a), (← decVal yk b))]
            | _ => none
        | _ => none
      match pairs with
      | none => "bad-op"
      | some ps =>
        let outs := ps.map (fun (x, y) =>
          let r := binop hwFloat op x y
          encOutcome (if shape == "cc" then mapOk noNegZero r else r))
        rk.name ++ ": " ++ " ".intercalate outs
    | _, _, _ => "bad-op"
  | _ => "bad-op"

def stepUn (f : List String) : String :=
  match f with
  | opS :: xkS :: _ :: shape :: _stor :: consts :: vals =>
    match UnOp.ofName opS, Kind.ofName xkS with
    | some op, some xk =>
      if !op.definedOn xk then "E" else
      let xs : Option (List Val) :=
        match shape with
        | "v" => vals.mapM (decVal xk)
        | "c" => do pure [← decVal xk consts]
        | _ => none
      match xs with
      | none => "bad-op"
      | some xs =>
        let outs := xs.map (fun x =>
          let r := unop hwFloat op x
          encOutcome (if shape == "c" then mapOk noNegZero r else r))
        xk.name ++ ": " ++ " ".intercalate outs
    | _, _ => "bad-op"
  | _ => "bad-op"

def step (s : Unit) (line : String) : Unit × String :=
  match line.splitOn " " with
  | "bin" :: rest => (s, stepBin rest)
  | "un" :: rest => (s, stepUn rest)
  | _ => (s, "bad-op")

end C01Drv

def main : IO Unit := Drv.run () C01Drv.step
