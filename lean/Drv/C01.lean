import GoSpec.Val
import Model.Dispatch
import Gen.C01BinaryOps
import Gen.C01BinaryShifts
import Gen.C01BinaryRelops
import Gen.C01BinaryEqlneq
import Gen.C01UnaryOps
import Gen.C01Binary
import Gen.C01Identifier
import Gen.C01Util
import Drv.Common
import Drv.FloatHW
open GoSpec Drv ClosureIR

namespace C01Drv

def hexDigit (c : Char) : Option Nat :=
  if '0' ≤ c ∧ c ≤ '9' then some (c.toNat - '0'.toNat)
  else if 'a' ≤ c ∧ c ≤ 'f' then some (c.toNat - 'a'.toNat + 10)
  else none

def parseHex (s : String) : Option Nat :=
  if s.isEmpty then none
  else s.foldl (fun acc c => match acc, hexDigit c with
    | some a, some d => some (a * 16 + d)
    | _, _ => none) (some 0)

def hexBytes : List Char → Option (List UInt8)
  | [] => some []
  | a :: b :: rest => do
    let x ← hexDigit a
    let y ← hexDigit b
    let r ← hexBytes rest
    pure (UInt8.ofNat (x * 16 + y) :: r)
  | _ => none

def decVal (k : Kind) (s : String) : Option Val :=
  match k with
  | .bool => if s == "t" then some (.bool true) else if s == "f" then some (.bool false) else none
  | .float32 => (parseHex s).map (fun n => .f32 (BitVec.ofNat 32 n))
  | .float64 => (parseHex s).map (fun n => .f64 (BitVec.ofNat 64 n))
  | .complex64 =>
    match s.splitOn "_" with
    | [a, b] => do
      let x ← parseHex a
      let y ← parseHex b
      pure (.c64 (BitVec.ofNat 32 x) (BitVec.ofNat 32 y))
    | _ => none
  | .complex128 =>
    match s.splitOn "_" with
    | [a, b] => do
      let x ← parseHex a
      let y ← parseHex b
      pure (.c128 (BitVec.ofNat 64 x) (BitVec.ofNat 64 y))
    | _ => none
  | .string =>
    match s.toList with
    | 's' :: rest => (hexBytes rest).map .str
    | _ => none
  | k =>
    match k.ikind? with
    | some ik => (parseHex s).map (fun n => .int ik (BitVec.ofNat ik.w n))
    | none => none

def hexOfNat (n : Nat) : String := String.ofList (Nat.toDigits 16 n)

def enc32 (b : BitVec 32) : String := if isNaN32 b then "nan" else hexOfNat b.toNat
def enc64 (b : BitVec 64) : String := if isNaN64 b then "nan" else hexOfNat b.toNat

def hex2 (b : UInt8) : String :=
  let d := Nat.toDigits 16 b.toNat
  String.ofList (if d.length < 2 then '0' :: d else d)

def encVal : Val → String
  | .bool b => if b then "t" else "f"
  | .int _ v => hexOfNat v.toNat
  | .f32 b => enc32 b
  | .f64 b => enc64 b
  | .c64 r i => enc32 r ++ "_" ++ enc32 i
  | .c128 r i => enc64 r ++ "_" ++ enc64 i
  | .str s => "s" ++ String.join (s.map hex2)

def encOutcome : Option (Outcome Val) → String
  | none => "E"
  | some (.ok v) => encVal v
  | some (.panic .divide) => "P:divide"
  | some (.panic .negShift) => "P:negShift"

/-- all regenerated arm tables: the model evaluates the arm the dispatch model selects -/
def tables : List Entry :=
  Gen.C01BinaryOps.add ++ Gen.C01BinaryOps.sub ++ Gen.C01BinaryOps.mul ++ Gen.C01BinaryOps.quo ++ Gen.C01BinaryOps.rem ++
  Gen.C01BinaryOps.and ++ Gen.C01BinaryOps.or ++ Gen.C01BinaryOps.xor ++ Gen.C01BinaryOps.andnot ++
  Gen.C01BinaryOps.mulPow2 ++ Gen.C01BinaryOps.quoPow2 ++ Gen.C01BinaryOps.remPow2 ++ Gen.C01BinaryOps.exprZero ++
  Gen.C01BinaryShifts.shl ++ Gen.C01BinaryShifts.shr ++
  Gen.C01BinaryRelops.lss ++ Gen.C01BinaryRelops.gtr ++ Gen.C01BinaryRelops.leq ++ Gen.C01BinaryRelops.geq ++
  Gen.C01BinaryEqlneq.eql ++ Gen.C01BinaryEqlneq.neq ++
  Gen.C01UnaryOps.unaryMinus ++ Gen.C01UnaryOps.unaryXor ++ Gen.C01UnaryOps.unaryNot ++
  Gen.C01Binary.land ++ Gen.C01Binary.lor ++ Gen.C01Util.asUint64 ++
  Gen.C01Identifier.bind_expr ++ Gen.C01Identifier.bind_intExpr ++ Gen.C01Identifier.symbol_expr ++ Gen.C01Identifier.symbol_intExpr

/-! synthetic environments for variable reads -/

def garbage : BitVec 64 := 0xA5A5A5A5A5A5A5A5#64

/-- the slots a value occupies in `Env.Ints` (bytes above the value hold garbage) -/
def slotsOf : Val → List (BitVec 64)
  | .bool b => [(garbage &&& ~~~0xFF#64) ||| (if b then 1 else 0)]
  | .int k v => [if k.w < 64 then (garbage <<< k.w) ||| v.setWidth 64 else v.setWidth 64]
  | .f32 b => [(garbage <<< 32) ||| b.setWidth 64]
  | .f64 b => [b]
  | .c64 r i => [(i.setWidth 64 <<< 32) ||| r.setWidth 64]
  | .c128 r i => [r, i]
  | .str _ => []

def poison : Frame := { ints := [0xDEADBEEFDEADBEEF#64, 0x0123456789ABCDEF#64, 0xFFFFFFFFFFFFFFFF#64, 0x8000000000000001#64], vals := [] }

/-- (intBind, upn, depth, global) of a variable operand for a storage class; `isY` = right operand -/
def storInfo (stor : String) (isY : Bool) (k : Kind) : Option (Bool × Nat × Nat × Bool) :=
  let ib := k != .string
  match stor with
  | "g" => some (ib, 0, 1, true)
  | "gf" => some (ib, 1, 2, true)
  | "gc2" => some (ib, 3, 4, true)
  | "gb" => some (false, 0, 1, true)
  | "gbf" => some (false, 1, 2, true)
  | "gbc2" => some (false, 3, 4, true)
  | "l" => some (ib, 0, 2, false)
  | "c1" => some (ib, 1, 3, false)
  | "c2" => some (ib, 2, 4, false)
  | "c3" => some (ib, 3, 5, false)
  | "c4" => some (ib, 4, 6, false)
  | "m1" => some (ib, if isY then 1 else 0, 3, false)
  | _ => none

/-- the identifier-read arm for a variable operand (looked up once per op line) -/
def readArm (stor : String) (isY : Bool) (k : Kind) : Option (Arm × Nat × Bool) :=
  match storInfo stor isY k with
  | none => none
  | some (ib, upn, depth, isGlobal) =>
    match Dispatch.identSel ib upn depth k with
    | .arm fn path _ =>
      (match Dispatch.findArm tables fn path with
       | some a => some (a, upn, isGlobal)
       | none => none)
    | _ => none

/-- read a variable holding `v` by evaluating the arm on a synthetic environment: the variable's
    frame is `upn` hops away, every other frame is poison, the variable is slot/box number 1 -/
def readVar (arm : Option (Arm × Nat × Bool)) (v : Val) : Option Dispatch.Operand :=
  match arm with
  | none => none
  | some (a, upn, isGlobal) =>
    let varFrame : Frame := { ints := garbage :: slotsOf v ++ [garbage], vals := [.str [0x21], v] }
    let below : List Frame := if isGlobal then [poison] else [poison, poison]
    let cur := List.replicate upn poison ++ varFrame :: below
    let file := if isGlobal then varFrame :: below else below
    let st : Store :=
      [("env", .env cur file), ("bind.Desc.Index()", .nat 1), ("sym.Desc.Index()", .nat 1), ("sym.Upn", .nat upn)]
    match evalArm hwFloat st a with
    | some r => some (.fn r)
    | none => none

def runB (c : Dispatch.CompiledBin) (x y : Option Dispatch.Operand) : String :=
  match x, y with
  | some x, some y => encOutcome (Dispatch.runBin hwFloat c x y)
  | _, _ => "no-read-arm"

def dummy : Dispatch.Operand := .fn (.ok (.bool false))

def stepBin (f : List String) : String :=
  match f with
  | opS :: xkS :: ykS :: shape :: stor :: consts :: vals =>
    match BinOp.ofName opS, Kind.ofName xkS, Kind.ofName ykS with
    | some op, some xk, some yk =>
      let rk := op.resultKind xk
      let outs : Option (List String) :=
        match shape with
        | "vv" =>
          let c := Dispatch.compileBin tables op xk yk dummy dummy
          let ax := readArm stor false xk
          let ay := readArm stor true yk
          vals.mapM (fun p => match p.splitOn "," with
            | [a, b] => do
              let x ← decVal xk a
              let y ← decVal yk b
              pure (runB c (readVar ax x) (readVar ay y))
            | _ => none)
        | "vc" => do
            let cy ← decVal yk consts
            let c := Dispatch.compileBin tables op xk yk dummy (.const cy)
            let ax := readArm stor false xk
            vals.mapM (fun p => do
              let x ← decVal xk p
              pure (runB c (readVar ax x) (some (.const cy))))
        | "cv" => do
            let cx ← decVal xk consts
            let c := Dispatch.compileBin tables op xk yk (.const cx) dummy
            let ay := readArm stor true yk
            vals.mapM (fun p => do
              let y ← decVal yk p
              pure (runB c (some (.const cx)) (readVar ay y)))
        | "cc" => match consts.splitOn "," with
            | [a, b] => do
              let x ← decVal xk a
              let y ← decVal yk b
              pure [runB (Dispatch.compileBin tables op xk yk (.const x) (.const y)) (some (.const x)) (some (.const y))]
            | _ => none
        | _ => none
      match outs with
      | none => "bad-op"
      | some outs =>
        -- a compile error concerns the whole expression
        if outs.all (· == "E") && !outs.isEmpty then "E" else rk.name ++ ": " ++ " ".intercalate outs
    | _, _, _ => "bad-op"
  | _ => "bad-op"

def stepUn (f : List String) : String :=
  match f with
  | opS :: xkS :: _ :: shape :: stor :: consts :: vals =>
    match UnOp.ofName opS, Kind.ofName xkS with
    | some op, some xk =>
      let ev (c : Dispatch.CompiledUn) (x : Option Dispatch.Operand) : String :=
        match x with
        | some x => encOutcome (Dispatch.runUn hwFloat c x)
        | none => "no-read-arm"
      let outs : Option (List String) :=
        match shape with
        | "v" =>
          let c := Dispatch.compileUn tables op xk dummy
          let ax := readArm stor false xk
          vals.mapM (fun p => do
            let x ← decVal xk p
            pure (ev c (readVar ax x)))
        | "c" => do
            let x ← decVal xk consts
            pure [ev (Dispatch.compileUn tables op xk (.const x)) (some (.const x))]
        | _ => none
      match outs with
      | none => "bad-op"
      | some outs => if outs.all (· == "E") && !outs.isEmpty then "E" else xk.name ++ ": " ++ " ".intercalate outs
    | _, _ => "bad-op"
  | _ => "bad-op"

def step (s : Unit) (line : String) : Unit × String :=
  match line.splitOn " " with
  | "prof-stop" :: _ => (s, "ok")
  | "bin" :: rest => (s, stepBin rest)
  | "un" :: rest => (s, stepUn rest)
  | _ => (s, "bad-op")

end C01Drv

def main : IO Unit := Drv.run () C01Drv.step
