import GoSpec.Val
import Model.Cti
import Model.CtiContainer
import Model.CtiTables
import Drv.Common
import Drv.FloatHW
open GoSpec Drv ClosureIR

/-! Driver of C34: evaluates, for every op line, the arm REGENERATED from the source
    (`Gen.CtiBasic`) selected by its path (kind case, method case) on the operand tuples of the
    line; container lines run `Model/CtiContainer.lean`.

    The value codec (`decVal`, `encVal`) is a copy of the one in `Drv/C01.lean` (that file defines
    `main` and imports all of C01's regenerated tables, so it cannot be imported here). -/
namespace C34Drv

def hexDigit (c : Char) : Option Nat :=
  if '0' ≤ c ∧ c ≤ '9' then some (c.toNat - '0'.toNat)
  else if 'a' ≤ c ∧ c ≤ 'f' then some (c.toNat - 'a'.toNat + 10)
  else none

def parseHex (s : String) : Option Nat :=
  if s.isEmpty then none
  else s.foldl (fun acc c => match acc, hexDigit c with
    | some a, some d => some (a * 16 + d)
    | _, _ => none) (some 0)

def hexBytes : List Char → Option (List UInt8)
  | [] => some []
  | a :: b :: rest => do
    let x ← hexDigit a
    let y ← hexDigit b
    let r ← hexBytes rest
    pure (UInt8.ofNat (x * 16 + y) :: r)
  | _ => none

def decVal (k : Kind) (s : String) : Option Val :=
  match k with
  | .bool => if s == "t" then some (.bool true) else if s == "f" then some (.bool false) else none
  | .float32 => (parseHex s).map (fun n => .f32 (BitVec.ofNat 32 n))
  | .float64 => (parseHex s).map (fun n => .f64 (BitVec.ofNat 64 n))
  | .complex64 =>
    match s.splitOn "_" with
    | [a, b] => do
      let x ← parseHex a
      let y ← parseHex b
      pure (.c64 (BitVec.ofNat 32 x) (BitVec.ofNat 32 y))
    | _ => none
  | .complex128 =>
    match s.splitOn "_" with
    | [a, b] => do
      let x ← parseHex a
      let y ← parseHex b
      pure (.c128 (BitVec.ofNat 64 x) (BitVec.ofNat 64 y))
    | _ => none
  | .string =>
    match s.toList with
    | 's' :: rest => (hexBytes rest).map .str
    | _ => none
  | k =>
    match k.ikind? with
    | some ik => (parseHex s).map (fun n => .int ik (BitVec.ofNat ik.w n))
    | none => none

def hexOfNat (n : Nat) : String := String.ofList (Nat.toDigits 16 n)

def enc32 (b : BitVec 32) : String := if isNaN32 b then "nan" else hexOfNat b.toNat
def enc64 (b : BitVec 64) : String := if isNaN64 b then "nan" else hexOfNat b.toNat

def hex2 (b : UInt8) : String :=
  let d := Nat.toDigits 16 b.toNat
  String.ofList (if d.length < 2 then '0' :: d else d)

def encVal : Val → String
  | .bool b => if b then "t" else "f"
  | .int _ v => hexOfNat v.toNat
  | .f32 b => enc32 b
  | .f64 b => enc64 b
  | .c64 r i => enc32 r ++ "_" ++ enc32 i
  | .c128 r i => enc64 r ++ "_" ++ enc64 i
  | .str s => "s" ++ String.join (s.map hex2)

def encX : Option Cti.XOut → String
  | none => "E"
  | some (.ok v) => encVal v
  | some (.panic .divide) => "P:divide"
  | some (.panic .negShift) => "P:negShift"
  | some (.panic .index) => "P:index"
  | some (.panic .slice) => "P:slice"

def decArgs : List Kind → List String → Option (List Val)
  | [], [] => some []
  | k :: ks, s :: ss => do
    let v ← decVal k s
    let r ← decArgs ks ss
    pure (v :: r)
  | _, _ => none

def retName (a : Arm) : String :=
  match a.ret with
  | .kind k => k.name
  | .other s => s

def stepBasic (f : List String) : String :=
  match f with
  | kS :: meth :: _route :: tuples =>
    match Kind.ofName kS with
    | none => "bad-op"
    | some k =>
      match Cti.findArm k meth with
      | none => "no-arm"
      | some a =>
        match Cti.declKinds a.binds with
        | none => "bad-params"
        | some ks =>
          let outs := tuples.map (fun t =>
            match decArgs ks (t.splitOn ",") with
            | some args => encX (Cti.run hwFloat a args)
            | none => "bad-args")
          retName a ++ ": " ++ " ".intercalate outs
  | _ => "bad-op"

def step (s : Unit) (line : String) : Unit × String :=
  match line.splitOn " " with
  | "b" :: rest => (s, stepBasic rest)
  | "c" :: rest => (s, CtiContainer.stepLine rest)
  | ["n", kS, meth] =>
    -- a method without an arm in the regenerated table of the kind cannot be called
    (s, match Kind.ofName kS with
      | some k => if (Cti.findArm k meth).isSome then "accepted" else "rejected"
      | none => "bad-op")
  | _ => (s, "bad-op")

end C34Drv

def main : IO Unit := Drv.run () C34Drv.step
