import Model.TypeId
import Model.TypeMap
import Drv.Common
open TypeId Drv

/-! Driver for C28: parses the type grammar of harness/c28.go into `TypeId.Ty` (interfaces through
    `mkIface` = NewInterface + Complete) and runs the model.  The hashes of the type-name objects
    (pointer derived, different in every harness process) are read from the side file
    `$VERIF_DIR/.work/C28-side/nh.txt` written by the harness. -/

abbrev P := List Char

def pNum : P → Nat × P
  | cs => go 0 cs
where go (n : Nat) : P → Nat × P
  | c :: cs => if c.isDigit then go (n * 10 + (c.toNat - '0'.toNat)) cs else (n, c :: cs)
  | [] => (n, [])

def pWord : P → String × P
  | cs => let w := cs.takeWhile (fun c => c.isAlpha || c == '_'); (String.ofList w, cs.drop w.length)

def pPkg : P → Option String × P
  | 'p' :: cs => (some "p", cs)
  | 'q' :: cs => (some "q", cs)
  | 'r' :: cs => (some "p", cs)
  | _ :: cs => (none, cs)
  | [] => (none, [])

def eat : P → P
  | _ :: cs => cs
  | [] => []

mutual
partial def pTy : P → Ty × P
  | '~' :: cs => pTy cs
  | 'b' :: cs =>
      let (k, cs) := pNum cs
      match cs with
      | '\'' :: cs => (.basic k, cs)
      | _ => (.basic k, cs)
  | 'A' :: cs => let (n, cs) := pNum cs; let (e, cs) := pTy (eat cs); (.array n e, eat cs)
  | 'S' :: cs => let (e, cs) := pTy (eat cs); (.slice e, eat cs)
  | 'P' :: cs => let (e, cs) := pTy (eat cs); (.pointer e, eat cs)
  | 'M' :: cs => let (k, cs) := pTy (eat cs); let (e, cs) := pTy (eat cs); (.map k e, eat cs)
  | 'C' :: cs => let (d, cs) := pNum cs; let (e, cs) := pTy (eat cs); (.chan d e, eat cs)
  | 'N' :: cs => let (i, cs) := pNum cs; (.named i, cs)
  | 'Z' :: cs => (.nil, cs)
  | 'U' :: cs => let (l, cs) := pList cs; (.tuple l, cs)
  | 'T' :: cs => let (fs, cs) := pFields (eat cs) []; (.struct fs, cs)
  | 'F' :: cs =>
      let (v, cs) := pNum cs
      let cs := eat cs
      let (r, cs) := match cs with
        | '-' :: cs => (none, cs)
        | cs => let (t, cs) := pTy (eat cs); (some t, cs)
      let (ps, cs) := pList cs
      let (rs, cs) := pList cs
      (.sig (v == 1) r ps rs, eat cs)
  | 'I' :: cs =>
      let (ms, cs) := pMethods (eat cs) []
      let (es, cs) := pEmbs cs []
      (mkIface ms es, cs)
  | cs => (.nil, cs)
/-- `[T,T,..]` -/
partial def pList : P → List Ty × P
  | '[' :: ']' :: cs => ([], cs)
  | '[' :: cs => pListTail cs []
  | cs => ([], cs)
partial def pListTail (cs : P) (acc : List Ty) : List Ty × P :=
  let (t, cs) := pTy cs
  match cs with
  | ',' :: cs => pListTail cs (t :: acc)
  | _ => ((t :: acc).reverse, eat cs)
/-- fields up to and including `)` -/
partial def pFields (cs : P) (acc : List Field) : List Field × P :=
  match cs with
  | ')' :: cs => (acc.reverse, cs)
  | ';' :: cs => pFields cs acc
  | cs =>
    let (name, cs) := pWord cs
    let (pk, cs) := pPkg (eat cs)
    let (an, cs) := pNum (eat cs)
    let (tag, cs) := pWord (eat cs)
    let (t, cs) := pTy (eat cs)
    pFields cs (.mk name pk (an == 1) tag t :: acc)
/-- methods up to and including `|` -/
partial def pMethods (cs : P) (acc : List Method) : List Method × P :=
  match cs with
  | '|' :: cs => (acc.reverse, cs)
  | ';' :: cs => pMethods cs acc
  | cs =>
    let (name, cs) := pWord cs
    let (pk, cs) := pPkg (eat cs)
    let (v, cs) := pNum (eat cs)
    let cs := eat cs
    let (r, cs) := match cs with
      | '@' :: cs => (Recv.self, cs)
      | cs => let (t, cs) := pTy (eat cs); (Recv.ty t, cs)
    let (ps, cs) := pList cs
    let (rs, cs) := pList cs
    pMethods cs (.mk name pk (v == 1) r ps rs :: acc)
/-- embedded `id=I(..)` up to and including `)` -/
partial def pEmbs (cs : P) (acc : List (Nat × Ty)) : List (Nat × Ty) × P :=
  match cs with
  | ')' :: cs => (acc.reverse, cs)
  | ';' :: cs => pEmbs cs acc
  | cs =>
    let (i, cs) := pNum cs
    let (u, cs) := pTy (eat cs)
    pEmbs cs ((i, u) :: acc)
end

def parseTy (s : String) : Ty := (pTy s.toList).1

def showRes : Res → String
  | .ok true => "true"
  | .ok false => "false"
  | .panic => "panic"

structure St where
  nh : Array UInt32
  m : TypeMap.Map Ty

def St.ops (s : St) : TypeMap.Ops Ty := ⟨identB, hash (fun i => s.nh.getD i 0)⟩

def showOpt : Option Nat → String
  | some v => toString v
  | none => "nil"

def insSorted (a : Nat) : List Nat → List Nat
  | [] => [a]
  | b :: bs => if a ≤ b then a :: b :: bs else b :: insSorted a bs

def stepC28 (s : St) (line : String) : St × String :=
  let f := line.splitOn " "
  let nh := fun i => s.nh.getD i 0
  match f with
  | ["id", a, b] =>
      let x := parseTy a
      let y := parseTy b
      (s, showRes (identR true x y) ++ " " ++ showRes (identR true y x) ++ " " ++ showRes (identR false x y)
            ++ " " ++ toString (hash nh x) ++ " " ++ toString (hash nh y))
  | ["tr", a, b, c] =>
      let x := parseTy a
      let y := parseTy b
      let z := parseTy c
      (s, showRes (identR true x y) ++ " " ++ showRes (identR true y z) ++ " " ++ showRes (identR true x z))
  | "reset" :: _ => ({ s with m := TypeMap.empty }, "ok")
  | ["mset", a, v] =>
      let (m', prev) := TypeMap.set s.ops s.m (parseTy a) v.toNat!
      ({ s with m := m' }, showOpt prev)
  | ["mat", a] => (s, showOpt (TypeMap.get s.ops s.m (parseTy a)))
  | ["mdel", a] =>
      let (m', found) := TypeMap.delete s.ops s.m (parseTy a)
      ({ s with m := m' }, toString found)
  | ["mlen"] => (s, toString (TypeMap.len s.m))
  | ["miter"] =>
      let vs := ((TypeMap.iterate s.m).map (·.2)).foldr insSorted []
      (s, if vs.isEmpty then "-" else ",".intercalate (vs.map toString))
  | ["cyc"] => (s, "ok")
  | _ => (s, "bad-op")

def main : IO Unit := do
  let dir := (← IO.getEnv "VERIF_DIR").getD "/verif"
  let txt ← IO.FS.readFile (dir ++ "/.work/C28-side/nh.txt")
  let nh := (txt.trimAscii.toString.splitOn " ").map (fun w => UInt32.ofNat w.toNat!)
  run (⟨nh.toArray, TypeMap.empty⟩ : St) stepC28
